(* Driver for the extracted model: parses case lines, calls Model.dispatch,
   compares with the observed outputs.  No logic of its own.
   Line format:  <tag>|<arg>;<arg>;...|<out>;<out>;...
   each arg/out is either  x<hex bytes>  or a comma-separated list of decimals
   (empty string = empty list).  Lines starting with '#' are ignored. *)
open Model

let rec pos_of_int n = if n = 1 then XH else if n land 1 = 0 then XO (pos_of_int (n lsr 1)) else XI (pos_of_int (n lsr 1))
let n_of_int n = if n = 0 then N0 else Npos (pos_of_int n)
let rec int_of_pos = function XH -> 1 | XO p -> 2 * int_of_pos p | XI p -> 2 * int_of_pos p + 1
let int_of_n = function N0 -> 0 | Npos p -> int_of_pos p

let hexval c = match c with
  | '0'..'9' -> Char.code c - 48 | 'a'..'f' -> Char.code c - 87 | 'A'..'F' -> Char.code c - 55
  | _ -> failwith "bad hex"

let parse_list (s : string) : n list =
  let n = String.length s in
  if n = 0 then []
  else if s.[0] = 'x' then begin
    let r = ref [] in
    let i = ref (n - 2) in
    while !i >= 1 do
      r := n_of_int (hexval s.[!i] * 16 + hexval s.[!i + 1]) :: !r;
      i := !i - 2
    done; !r end
  else List.map (fun t -> n_of_int (int_of_string t)) (String.split_on_char ',' s)

let parse_lists (s : string) : n list list =
  if s = "" then [] else List.map parse_list (String.split_on_char ';' s)

let show_list (l : n list) : string = String.concat "," (List.map (fun x -> string_of_int (int_of_n x)) l)
let show_lists (l : n list list) : string = String.concat ";" (List.map show_list l)

let () =
  let cases = ref 0 and bad = ref 0 and lineno = ref 0 in
  let bytag = Hashtbl.create 16 in
  (try
    while true do
      let line = input_line stdin in
      incr lineno;
      if String.length line > 0 && line.[0] <> '#' then begin
        match String.split_on_char '|' line with
        | [tags; args; outs] ->
          (* a number the implementation produced that does not even fit 63 bits (e.g. a negative duration printed as uint64)
             cannot equal any model output: the line is a mismatch, not a reason to stop *)
          (match (try Some (parse_lists args, List.map parse_lists (String.split_on_char '/' outs)) with Failure _ -> None) with
           | None ->
             incr bad; incr cases;
             Printf.printf "MISMATCH line=%d tag=%s model=number-out-of-range impl=%s\n" !lineno
               (List.hd (String.split_on_char '+' tags)) (String.sub outs 0 (min 200 (String.length outs)))
           | Some (a, _) ->
          let tl = String.split_on_char '+' tags and ol = String.split_on_char '/' outs in
          if List.length tl <> List.length ol then begin incr bad; Printf.printf "BADLINE line=%d\n" !lineno end
          else List.iter2 (fun tag o ->
            incr cases;
            let t = int_of_string tag in
            Hashtbl.replace bytag t (1 + (try Hashtbl.find bytag t with Not_found -> 0));
            let got = dispatch (n_of_int t) a in
            let want = parse_lists o in
            if got <> want then begin
              incr bad;
              Printf.printf "MISMATCH line=%d tag=%d model=%s impl=%s\n" !lineno t (show_lists got) (show_lists want)
            end) tl ol)
        | _ -> incr bad; Printf.printf "BADLINE line=%d\n" !lineno
      end
    done
  with End_of_file -> ());
  Hashtbl.iter (fun t c -> Printf.printf "TAG %d %d\n" t c) bytag;
  Printf.printf "SUMMARY cases=%d mismatches=%d\n" !cases !bad
