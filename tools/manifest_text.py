HOOK_COMMITS = ['623e173']

ALL = ['C%02d' % i for i in range(1, 21)]

TEXT = {
 'C13': dict(
   technique='Coq proof over a hand-written model (checksum algebra, codec round trips, strictness, panic freedom) + differential correspondence run',
   level='Theorems in coq/Properties/C13.v hold for every payload, length, address, port, id/flag/TTL value and every byte string (induction over the byte list, no bound); the model is tied to lib/layer by running both on the same inputs each run (all lengths 0-1600, wrap-around lengths, malformed inputs) and by evaluating the RFC 1071/768 specification on the bytes the Go code emits.',
   note='Trusted: Coq kernel, extraction (ExtrOcamlBasic), driver, harness, hand-written model of lib/layer; net.IP values restricted to IPv4.'),
}

def _pending(pid):
    return dict(property_id=pid, reason='check not built yet in this session (work in progress; see DESIGN.md section 9)')

NOT_APPLICABLE = []

TEXT['C12'] = dict(
   technique='Coq proof (decode = RFC grammar parser as an iff, decode∘assemble = id, typed accessors, panic freedom) + differential correspondence run',
   level='Theorems in coq/Properties/C12.v hold for every message and every byte string of any length: decode succeeds exactly when an independent offset-table/grammar reading exists and returns that reading; decode(assemble m) = m on the stated domain; each typed option value comes from the last option of its code and only from a payload of exactly the required length. The model is tied to lib/dhcpmsg by running both on the same inputs each run (round trips, exhaustive short option areas over a structural alphabet, truncations, all hlen values, typed payload lengths).',
   note='Trusted: Coq kernel, extraction, driver, harness, hand-written model of lib/dhcpmsg. Option payloads are values in the model; aliasing of the receive buffer is treated under C09.')

TEXT['C11'] = dict(
   technique='Coq proof: refinement of the two-key lazy-deletion store to a reference table over all histories, table invariants, search soundness/completeness; differential correspondence on exhaustive small-scope and random API histories under a virtual clock',
   level='Theorems in coq/Properties/C11.v hold for every history of database operations of any length, every non-decreasing clock, every candidate order, probe outcome/duration and cancellation point: the concrete store (two map keys per binding, lazy deletion, pointer comparison) returns exactly what the reference table returns; the table has at most one live binding per address and per client in every reachable state; an update succeeds iff it extends the own binding or creates one where both are free; expired entries are invisible, permanent ones persist; the search returns the own address, else the eligible suggestion, else an eligible range address, and fails only if none is eligible/disabled/cancelled. Tie to lib/server/ipdb: all 21 952 operation sequences of length 3 over a 28-operation alphabet plus random histories run on the real API inside testing/synctest each quick run.',
   note='Trusted: Coq kernel, extraction, driver, harness, hand-written model of ipdb/clients; the mutex makes each API call atomic (gofacts fact); rand.Perm order is validated not predicted.')
