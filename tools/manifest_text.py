HOOK_COMMITS = ['623e173']

ALL = ['C%02d' % i for i in range(1, 21)]

TEXT = {
 'C13': dict(
   technique='Coq proof over a hand-written model (checksum algebra, codec round trips, strictness, panic freedom) + differential correspondence run',
   level='Theorems in coq/Properties/C13.v hold for every payload, length, address, port, id/flag/TTL value and every byte string (induction over the byte list, no bound); the model is tied to lib/layer by running both on the same inputs each run (all lengths 0-1600, wrap-around lengths, malformed inputs) and by evaluating the RFC 1071/768 specification on the bytes the Go code emits.',
   note='Trusted: Coq kernel, extraction (ExtrOcamlBasic), driver, harness, hand-written model of lib/layer; net.IP values restricted to IPv4.'),
}

def _pending(pid):
    return dict(property_id=pid, reason='check not built yet in this session (work in progress; see DESIGN.md section 9)')

NOT_APPLICABLE = []

TEXT['C12'] = dict(
   technique='Coq proof (decode = RFC grammar parser as an iff, decode∘assemble = id, typed accessors, panic freedom) + differential correspondence run',
   level='Theorems in coq/Properties/C12.v hold for every message and every byte string of any length: decode succeeds exactly when an independent offset-table/grammar reading exists and returns that reading; decode(assemble m) = m on the stated domain; each typed option value comes from the last option of its code and only from a payload of exactly the required length. The model is tied to lib/dhcpmsg by running both on the same inputs each run (round trips, exhaustive short option areas over a structural alphabet, truncations, all hlen values, typed payload lengths).',
   note='Trusted: Coq kernel, extraction, driver, harness, hand-written model of lib/dhcpmsg. Option payloads are values in the model; aliasing of the receive buffer is treated under C09.')

TEXT['C11'] = dict(
   technique='Coq proof: refinement of the two-key lazy-deletion store to a reference table over all histories, table invariants, search soundness/completeness; differential correspondence on exhaustive small-scope and random API histories under a virtual clock',
   level='Theorems in coq/Properties/C11.v hold for every history of database operations of any length, every non-decreasing clock, every candidate order, probe outcome/duration and cancellation point: the concrete store (two map keys per binding, lazy deletion, pointer comparison) returns exactly what the reference table returns; the table has at most one live binding per address and per client in every reachable state; an update succeeds iff it extends the own binding or creates one where both are free; expired entries are invisible, permanent ones persist; the search returns the own address, else the eligible suggestion, else an eligible range address, and fails only if none is eligible/disabled/cancelled. Tie to lib/server/ipdb: all 21 952 operation sequences of length 3 over a 28-operation alphabet plus random histories run on the real API inside testing/synctest each quick run.',
   note='Trusted: Coq kernel, extraction, driver, harness, hand-written model of ipdb/clients; the mutex makes each API call atomic (gofacts fact); rand.Perm order is validated not predicted.')

TEXT['C18'] = dict(
   technique='Coq proof over a hand-written model of server.New (soundness and completeness of acceptance against a declarative list of validity conditions, independence of map iteration order, exactness of the resulting state) + differential correspondence run with five constructions per configuration',
   level='Theorems in coq/Properties/C18.v hold for every configuration (any number of client entries, list lengths, durations, networks) and every iteration order of the client map: the model accepts exactly the configurations meeting each named condition (network, lease >= 1 min and < 2^32 s, IPv4 addresses, hardware addresses, range inside the network and ordered, reservations inside the network and pairwise distinct in address and hardware address, own address inside, lists <= 63, texts <= 255); any two orders give the same verdict, the same options for every hardware address and the same set of permanent bindings (exactly the reservations plus the server); every option payload fits its length byte. Tie to lib/server: 500 / 20 000 generated configurations plus 25 directed ones through the real server.New, each field invalid in each way, each built five times; verdict, ranges, bindings and options compared with the model and with the specification.',
   note='Trusted: Coq kernel, extraction, driver, harness, hand-written model; the Go standard-library parsers classify the strings (harness calls the same functions). Model and theorems describe the code after the repairs F5a-e; on a tree without them the check reports the accepting configurations as violations.')

TEXT['C07'] = dict(
   technique='Coq proof that the options assembled by the model of dhcpOptions equal a declarative per-field reading of the configuration for every accepted configuration and hardware address; specification evaluated as a monitor on the option lists and on the decoded OFFER/ACK payloads produced by the real code',
   level='Theorems in coq/Properties/C07.v hold for every configuration the model of server.New accepts (any subset of router/DNS/NTP/domain/host name set globally and per client, any list lengths) and every hardware address: lease seconds, netmask, then router, DNS, NTP, domain, host name with the per-client value where that entry sets one, else the global one, else omitted; the advertised seconds are the whole seconds of the duration handed to the lease database; OFFER and ACK carry the same list. Tie: 300 / 5 000 configurations x 4 hardware addresses through the real dhcpOptions and replies.AssembleOffer/AssembleACK, payloads decoded by the C12 model and compared with the specification.',
   note='Trusted: as C18. That the address stays reserved for the advertised time is C05/C11 (the duration passed to UpdateClient is the same LeaseDuration field).')
