HOOK_COMMITS = ['623e173']

ALL = ['C%02d' % i for i in range(1, 21)]

TEXT = {
 'C13': dict(
   technique='Coq proof over a hand-written model (checksum algebra, codec round trips, strictness, panic freedom) + differential correspondence run',
   level='Theorems in coq/Properties/C13.v hold for every payload, length, address, port, id/flag/TTL value and every byte string (induction over the byte list, no bound); the model is tied to lib/layer by running both on the same inputs each run (all lengths 0-1600, wrap-around lengths, malformed inputs) and by evaluating the RFC 1071/768 specification on the bytes the Go code emits.',
   note='Trusted: Coq kernel, extraction (ExtrOcamlBasic), driver, harness, hand-written model of lib/layer; net.IP values restricted to IPv4.'),
}

def _pending(pid):
    return dict(property_id=pid, reason='check not built yet in this session (work in progress; see DESIGN.md section 9)')

NOT_APPLICABLE = []

TEXT['C12'] = dict(
   technique='Coq proof (decode = RFC grammar parser as an iff, decode∘assemble = id, typed accessors, panic freedom) + differential correspondence run',
   level='Theorems in coq/Properties/C12.v hold for every message and every byte string of any length: decode succeeds exactly when an independent offset-table/grammar reading exists and returns that reading; decode(assemble m) = m on the stated domain; each typed option value comes from the last option of its code and only from a payload of exactly the required length. The model is tied to lib/dhcpmsg by running both on the same inputs each run (round trips, exhaustive short option areas over a structural alphabet, truncations, all hlen values, typed payload lengths).',
   note='Trusted: Coq kernel, extraction, driver, harness, hand-written model of lib/dhcpmsg. Option payloads are values in the model; aliasing of the receive buffer is treated under C09.')

TEXT['C11'] = dict(
   technique='Coq proof: refinement of the two-key lazy-deletion store to a reference table over all histories, table invariants, search soundness/completeness; differential correspondence on exhaustive small-scope and random API histories under a virtual clock',
   level='Theorems in coq/Properties/C11.v hold for every history of database operations of any length, every non-decreasing clock, every candidate order, probe outcome/duration and cancellation point: the concrete store (two map keys per binding, lazy deletion, pointer comparison) returns exactly what the reference table returns; the table has at most one live binding per address and per client in every reachable state; an update succeeds iff it extends the own binding or creates one where both are free; expired entries are invisible, permanent ones persist; the search returns the own address, else the eligible suggestion, else an eligible range address, and fails only if none is eligible/disabled/cancelled. Tie to lib/server/ipdb: all 21 952 operation sequences of length 3 over a 28-operation alphabet plus random histories run on the real API inside testing/synctest each quick run.',
   note='Trusted: Coq kernel, extraction, driver, harness, hand-written model of ipdb/clients; the mutex makes each API call atomic (gofacts fact); rand.Perm order is validated not predicted.')

TEXT['C17'] = dict(
   technique='Coq proof over a hand-written model of envEntry/dumpScriptConf (with Go\'s rune-wise regexp replacement) and of resolvconf.Run (scan, anchored classes, rendering): character-set theorem, file grammar (inductive grammar = boolean recogniser), render = functional specification, composition; differential correspondence against the library, a real child process and the real binary in a chroot; specification recognisers evaluated on every implementation output',
   level='Theorems in coq/Properties/C17.v hold for every key and every byte string of any length (any byte values, any UTF-8 damage): every byte of envEntry(k, v) after "PSA_DHCPC_k=" is a letter, digit, comma, dot, hyphen or underscore; dumpScriptConf yields exactly the seven variables with such values for every interface configuration; for every environment (any number of entries, duplicates, entries without "=") the buffer resolvconf.Run writes is header, at most one "search" line with one non-empty hostname-character token, then "nameserver" lines with one non-empty [0-9.] token each, at least one of them, and nothing is written exactly when the environment supplies no valid name-server token; the written file equals an independently stated function of the environment; the composition Ifconfig -> environment -> file has that shape for all contents. Tie to the code each run: the library functions on all byte values and UTF-8 boundary cases, 50 real child processes through Cbhandler, and the real psa-dhcpc -syshook binary in a chroot on 173 environment blocks (quick).',
   note='Trusted: Coq kernel, extraction, driver, harness, hand-written models, gofacts for the literals; Go regexp/utf8/os.Environ semantics as modelled. dclient.buildNetconfig is not executed (the theorems quantify over every Ifconfig content); update() (atomic replace) is C20.')
