HOOK_COMMITS = ['623e173']

ALL = ['C%02d' % i for i in range(1, 21)]

TEXT = {
 'C13': dict(
   technique='Coq proof over a hand-written model (checksum algebra, codec round trips, strictness, panic freedom) + differential correspondence run',
   level='Theorems in coq/Properties/C13.v hold for every payload, length, address, port, id/flag/TTL value and every byte string (induction over the byte list, no bound); the model is tied to lib/layer by running both on the same inputs each run (all lengths 0-1600, wrap-around lengths, malformed inputs) and by evaluating the RFC 1071/768 specification on the bytes the Go code emits.',
   note='Trusted: Coq kernel, extraction (ExtrOcamlBasic), driver, harness, hand-written model of lib/layer; net.IP values restricted to IPv4.'),
}

def _pending(pid):
    return dict(property_id=pid, reason='check not built yet in this session (work in progress; see DESIGN.md section 9)')

NOT_APPLICABLE = []

TEXT['C12'] = dict(
   technique='Coq proof (decode = RFC grammar parser as an iff, decode∘assemble = id, typed accessors, panic freedom) + differential correspondence run',
   level='Theorems in coq/Properties/C12.v hold for every message and every byte string of any length: decode succeeds exactly when an independent offset-table/grammar reading exists and returns that reading; decode(assemble m) = m on the stated domain; each typed option value comes from the last option of its code and only from a payload of exactly the required length. The model is tied to lib/dhcpmsg by running both on the same inputs each run (round trips, exhaustive short option areas over a structural alphabet, truncations, all hlen values, typed payload lengths).',
   note='Trusted: Coq kernel, extraction, driver, harness, hand-written model of lib/dhcpmsg. Option payloads are values in the model; aliasing of the receive buffer is treated under C09.')

TEXT['C11'] = dict(
   technique='Coq proof: refinement of the two-key lazy-deletion store to a reference table over all histories, table invariants, search soundness/completeness; differential correspondence on exhaustive small-scope and random API histories under a virtual clock',
   level='Theorems in coq/Properties/C11.v hold for every history of database operations of any length, every non-decreasing clock, every candidate order, probe outcome/duration and cancellation point: the concrete store (two map keys per binding, lazy deletion, pointer comparison) returns exactly what the reference table returns; the table has at most one live binding per address and per client in every reachable state; an update succeeds iff it extends the own binding or creates one where both are free; expired entries are invisible, permanent ones persist; the search returns the own address, else the eligible suggestion, else an eligible range address, and fails only if none is eligible/disabled/cancelled. Tie to lib/server/ipdb: all 21 952 operation sequences of length 3 over a 28-operation alphabet plus random histories run on the real API inside testing/synctest each quick run.',
   note='Trusted: Coq kernel, extraction, driver, harness, hand-written model of ipdb/clients; the mutex makes each API call atomic (gofacts fact); rand.Perm order is validated not predicted.')

_SRV_NOTE = ('Trusted: Coq kernel, extraction, driver, harness; hand-written model of lib/server/{run,netio,utils}.go and replies (coq/model/Server.v) over the '
             'reference lease table of C11; each exported *IPDB method is one atomic step (gofacts fact gf_ipdb_methods_locked); testing/synctest virtual '
             'clock; in-memory sockets and simulated ARP responders instead of AF_PACKET; the runs handle one packet at a time - interleavings are covered '
             'by the theorems (which quantify over all histories of atomic database operations), not by the runs.')
TEXT['C01'] = dict(
   technique='Coq proof: lease-table invariant and exclusivity of the reservation log over ALL histories of atomic database operations (= all handler interleavings); acceptor + monitor on observed server histories',
   level='coq/Properties/C01.v: for every history of OfferIP/HoldClient/UpdateClient/lookups with arbitrary arguments, clocks, candidate orders, probe outcomes (i.e. every interleaving of any number of handlers, retransmissions, spurious messages, pool exhaustion, expiry) a reservation of an address is only made strictly after every earlier reservation of it by another client has run out; the client key separates exactly the clients the property distinguishes. Tie: 300 (thorough 8000) random sequential server histories per run under a virtual clock are checked step by step against the executable model (frames byte for byte, live bindings after every packet) and mon_C01 (the property on the observed frames) is evaluated on them.',
   note=_SRV_NOTE)
TEXT['C02'] = dict(
   technique='Coq proof: address-range invariant over all histories of grounded database operations, permanence/exclusivity of permanent bindings, identity non-forgeability; acceptor + monitor on observed histories',
   level='coq/Properties/C02.v: every entry of every reachable lease table carries a configured static address or an address of the dynamic range; searches return the own address or a valid in-range one; permanent bindings (reservations, the server itself) are exclusive both ways; the internal identity cannot be forged; static_only disables searching. Tie as C01 with mon_C02 (yiaddr of every OFFER/ACK against the configuration).',
   note=_SRV_NOTE)
TEXT['C03'] = dict(
   technique='Coq proof: permanent bindings persist and are exclusive over all histories; reserved clients always find their address; identity lemmas; acceptor + monitor',
   level='coq/Properties/C03.v: after ANY history a reserved client (whatever identifier it sends) looks up and is offered exactly its reserved address, and a successful reservation is for that address iff it is by that client. Tie as C01 with mon_C03 (safety and the response clause on observed frames).',
   note=_SRV_NOTE)
TEXT['C04'] = dict(
   technique='Coq proof by case analysis of the REQUEST verdict function over all addressing/option/binding values, lifted to the handler model; acceptor + monitor',
   level='coq/Properties/C04.v: ACK only if the sender is bound to exactly the designated address (and the ACK carries it); other server / out-of-network / foreign unicast destination => silence; selecting this server or unicast renewal for an unbound in-network address => NAK; the handler model run against the implementation answers exactly as this function; ignored messages change nothing. Tie as C01 with mon_C04 (verdict per REQUEST against the previous live-binding snapshot).',
   note=_SRV_NOTE)
TEXT['C05'] = dict(
   technique='Coq proof: reservation stability and hold-then-acknowledge over all histories (lease-table invariant), search completeness/suggestion theorems of C11; acceptor + monitor',
   level='coq/Properties/C05.v: while an OFFER hold or a lease has not run out the client looks up that address, the final UpdateClient succeeds whatever other handlers did in between, every new search returns the same address, nobody else can obtain it; a search is silent only if no eligible address is left and returns an eligible suggestion; expired bindings are invisible. Tie as C01 with mon_C05 (clauses i and ii on observed frames).',
   note=_SRV_NOTE)
TEXT['C06'] = dict(
   technique='Coq proof: reply envelopes recovered through the proved codec round trips (IPv4/UDP checksums, DHCP decode) for all xid/flags/addresses/hardware addresses; byte-exact comparison of every observed reply + monitor',
   level='coq/Properties/C06.v: every OFFER/ACK/NAK the model emits decodes (RFC parsers of C12/C13) to a BOOTREPLY with echoed xid/chaddr/flags, server identifier, UDP 67->68, IPv4 source = server, destination and link-layer destination per broadcast flag, verifying checksums; at most one reply per message. Tie: every reply frame of every history is compared byte for byte with the model and mon_C06 checks the envelope with the independent decoders.',
   note=_SRV_NOTE)
TEXT['C08'] = dict(
   technique='Coq proof of the probe semantics (who blocks, bounded duration), search results passed the probe, conflict => NAK; acceptor + monitor with simulated ARP responders',
   level='coq/Properties/C08.v: only an answer with sender = probed address from a foreign hardware address inside the 3 x 200 ms windows blocks; own-address answers and silence do not; probes are bounded; every search result passed the probe; a REQUEST for a conflicting address is NAKed. Tie: ARP responders (foreign/own hardware address, delays inside and beyond the window) in the server histories; mon_C08.',
   note=_SRV_NOTE + ' That the real ARP socket is open before the first answer can arrive is a runtime fact outside the model.')
TEXT['C10'] = dict(
   technique='Coq proof: panic freedom of every decoder for all byte strings, unhandled packets are a no-op of the handler model; malformed/junk frames interleaved into server histories + monitor',
   level='coq/Properties/C10.v: no byte string makes the IPv4/UDP/ARP/DHCP decoders index outside their input; hlen > 16 is rejected; a packet that is not an IPv4/UDP BOOTREQUEST of type DISCOVER/REQUEST produces no reply and leaves the lease table unchanged. Tie: junk, truncated, non-UDP and other-type packets inside the server histories (a panic kills the harness and is reported), mon_C10 (no reply, snapshot unchanged). The client-side receive path is covered under C14.',
   note=_SRV_NOTE)
TEXT['C17'] = dict(
   technique='Coq proof over a hand-written model of envEntry/dumpScriptConf (with Go\'s rune-wise regexp replacement) and of resolvconf.Run (scan, anchored classes, rendering): character-set theorem, file grammar (inductive grammar = boolean recogniser), render = functional specification, composition; differential correspondence against the library, a real child process and the real binary in a chroot; specification recognisers evaluated on every implementation output',
   level='Theorems in coq/Properties/C17.v hold for every key and every byte string of any length (any byte values, any UTF-8 damage): every byte of envEntry(k, v) after "PSA_DHCPC_k=" is a letter, digit, comma, dot, hyphen or underscore; dumpScriptConf yields exactly the seven variables with such values for every interface configuration; for every environment (any number of entries, duplicates, entries without "=") the buffer resolvconf.Run writes is header, at most one "search" line with one non-empty hostname-character token, then "nameserver" lines with one non-empty [0-9.] token each, at least one of them, and nothing is written exactly when the environment supplies no valid name-server token; the written file equals an independently stated function of the environment; the composition Ifconfig -> environment -> file has that shape for all contents. Tie to the code each run: the library functions on all byte values and UTF-8 boundary cases, 50 real child processes through Cbhandler, and the real psa-dhcpc -syshook binary in a chroot on 173 environment blocks (quick).',
   note='Trusted: Coq kernel, extraction, driver, harness, hand-written models, gofacts for the literals; Go regexp/utf8/os.Environ semantics as modelled. dclient.buildNetconfig is not executed (the theorems quantify over every Ifconfig content); update() (atomic replace) is C20.')

TEXT['C09'] = dict(
   technique='Coq proof (partial): atomic database steps read from the source, store = sequential table on every history, verdicts depend on own steps only, exchanges not derailed under any interleaving; no-alias run, real-time bursts, concurrent API calls, race detector',
   level='PARTIAL. Proved (coq/Properties/C09.v): database operations are atomic (fact extracted from the source each run) and behave as the sequential reference table on every history; a REQUEST verdict depends only on the sender\'s own message, binding and probe; once an address is held for a client its exchange completes whatever operations other handlers perform in between (all interleavings); a DISCOVER is one database operation. Evidenced by runs only: absence of data races (race detector), that option payloads do not alias the receive buffer, that simultaneous DISCOVER/REQUEST bursts through the real Run loop each get exactly one distinct OFFER/ACK. The Go memory model itself is outside the model.',
   note=_SRV_NOTE)

TEXT['C19'] = dict(
   technique='Coq proof (partial) over a process model of every socket-opening routine (Open/Close/Spawn/Write/Wait events, sockets with identities, context tree) run under an arbitrary oracle: ownership discipline => every socket closed exactly once, bounded and deadlock-free shutdown; counting in-memory sockets + goroutine count under testing/synctest with fault injection at every open/write and cancellation at random virtual instants',
   level='PARTIAL. Proved (coq/Properties/C19.v) for EVERY oracle (which opens/writes fail, every branch, packet arrivals, timer/timeout order, cancellation at any step, any interleaving of goroutines): for the server (Run, closer, one handler per packet with searches over any number of candidates, arpVerify, Ping with its sender and closer goroutines, sendUnicast) and the client (state loop, advanceState, sendMessage/sendSocket incl. the unicast Pings, catchReply, ARP check, panicReset, limiter) no Close ever hits a socket that is not open, opens = closes + open sockets, and when all goroutines have returned opens = closes; after cancel() the pool makes at most cost(state) <= goroutines x 2 x program-size further steps if the environment stays silent and is never stuck before all goroutines returned; exact open counts of histories (probed DISCOVER with OFFER = 7). Evidenced by runs only: that the real code follows the model (counts after every packet of 150 server histories, fault injection at every n-th open/write, cancel at 200 random instants of server and client: 0 virtual time to return, sockets balanced, goroutine count back at baseline). NOT covered: descriptor leaks inside the real lib/rsocks (never executed by any check); goroutine accounting is by count; the limiter path sleeps 20 s regardless of the context (finding F11, recorded, not judged).',
   note='Trusted: Coq kernel, extraction, driver, harness, the hand-written process model (tied by gofacts close-site facts and by the runs), testing/synctest virtual time, the in-memory sockets.')
