HOOK_COMMITS = ['623e173']

ALL = ['C%02d' % i for i in range(1, 21)]

TEXT = {
 'C13': dict(
   technique='Coq proof over a hand-written model (checksum algebra, codec round trips, strictness, panic freedom) + differential correspondence run',
   level='Theorems in coq/Properties/C13.v hold for every payload, length, address, port, id/flag/TTL value and every byte string (induction over the byte list, no bound); the model is tied to lib/layer by running both on the same inputs each run (all lengths 0-1600, wrap-around lengths, malformed inputs) and by evaluating the RFC 1071/768 specification on the bytes the Go code emits.',
   note='Trusted: Coq kernel, extraction (ExtrOcamlBasic), driver, harness, hand-written model of lib/layer; net.IP values restricted to IPv4.'),
}

def _pending(pid):
    return dict(property_id=pid, reason='check not built yet in this session (work in progress; see DESIGN.md section 9)')

NOT_APPLICABLE = []

TEXT['C12'] = dict(
   technique='Coq proof (decode = RFC grammar parser as an iff, decode∘assemble = id, typed accessors, panic freedom) + differential correspondence run',
   level='Theorems in coq/Properties/C12.v hold for every message and every byte string of any length: decode succeeds exactly when an independent offset-table/grammar reading exists and returns that reading; decode(assemble m) = m on the stated domain; each typed option value comes from the last option of its code and only from a payload of exactly the required length. The model is tied to lib/dhcpmsg by running both on the same inputs each run (round trips, exhaustive short option areas over a structural alphabet, truncations, all hlen values, typed payload lengths).',
   note='Trusted: Coq kernel, extraction, driver, harness, hand-written model of lib/dhcpmsg. Option payloads are values in the model; aliasing of the receive buffer is treated under C09.')

TEXT['C11'] = dict(
   technique='Coq proof: refinement of the two-key lazy-deletion store to a reference table over all histories, table invariants, search soundness/completeness; differential correspondence on exhaustive small-scope and random API histories under a virtual clock',
   level='Theorems in coq/Properties/C11.v hold for every history of database operations of any length, every non-decreasing clock, every candidate order, probe outcome/duration and cancellation point: the concrete store (two map keys per binding, lazy deletion, pointer comparison) returns exactly what the reference table returns; the table has at most one live binding per address and per client in every reachable state; an update succeeds iff it extends the own binding or creates one where both are free; expired entries are invisible, permanent ones persist; the search returns the own address, else the eligible suggestion, else an eligible range address, and fails only if none is eligible/disabled/cancelled. Tie to lib/server/ipdb: all 21 952 operation sequences of length 3 over a 28-operation alphabet plus random histories run on the real API inside testing/synctest each quick run.',
   note='Trusted: Coq kernel, extraction, driver, harness, hand-written model of ipdb/clients; the mutex makes each API call atomic (gofacts fact); rand.Perm order is validated not predicted.')

TEXT['C14'] = dict(
   technique='Coq proof that the receive filter accepts / aborts exactly when an independent raw-byte reading of the property\'s conjunction holds (iff over all byte strings), panic freedom; differential correspondence on the real catchReply and verify functions with the specification evaluated as a monitor',
   level='Theorems in coq/Properties/C14.v hold for every byte string, every own hardware address and every wait state (OFFER, selecting/renewing/rebinding ACK): catch_reply returns accept iff IPv4 is well-formed with protocol 17, UDP is well-formed to port 68, the BOOTP message is decodable, chaddr = own address, xid = the one in flight, option 53 = OFFER resp. ACK, yiaddr and option 54 are neither 0 nor broadcast, option 3 holds at least one address, option 51 >= 60 s, and (selecting/renewing) option 54 = chosen server and yiaddr = offered address, (rebinding) yiaddr = leased address from any server; it returns nack iff decodable, own chaddr, option 53 = NAK while an ACK is awaited (never while waiting for an OFFER); every other packet is ignored; no input panics; the loop over any packet sequence ends at the first packet satisfying one of the two. Tie to lib/client/verify and dclient.catchReply: about 500 directed replies (all single and double condition failures in each of the four wait kinds), 1 200 random structured replies, truncations/corruptions, frame sequences and 2 048 direct verifier calls per quick run.',
   note='Trusted: Coq kernel, extraction, driver, harness, hand-written model of verifyer.go/catchReply; in-memory socket; frames <= 4096 bytes. The code does not check the BOOTP op, the magic cookie, the UDP source port or any checksum, and neither does the property text; a NAK is not matched against the xid (as the text says).')

TEXT['C16'] = dict(
   technique='Coq proof that every templated message is recognised, on its raw bytes, as well-formed for its kind (via the proved encoders/decoders and checksum theorems of C12/C13); byte-equality correspondence with msgtmpl and the recogniser as a monitor. (Message-format half; retransmission timing is checked separately.)',
   level='Theorems in coq/Properties/C16.v hold for every hardware address of up to 16 bytes, every xid, IP id, IAID, leased and server address and each of DISCOVER / selecting / renewing / rebinding REQUEST: the template returns a packet whose IPv4 header checksum and UDP checksum verify, UDP 68->67, BOOTREQUEST, htype 1, hlen/chaddr = the hardware address, magic cookie, option 53 of the kind, option 61 = ff|IAID|00 03 00 01|first six address bytes (IAID = CRC-32 of the address), options 57 and 55 present, and per kind exactly the listed IP source/destination, ciaddr and presence/absence and values of options 50 and 54; the decoded message and its option list in order are spelled out. Tie to lib/client/msgtmpl: byte equality on 1 000 random parameter sets (two transmissions each) plus every address length per quick run.',
   note='Trusted: Coq kernel, extraction, driver, harness, hand-written model of msgtmpl and OptionClientIdentifier (literals ff/03/01 of the identifier are in the model, tied by byte equality). Addresses passed to the templates are non-nil IPv4.')
