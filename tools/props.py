"""per-property configuration of tools/check.py"""

TRUSTED_COMMON = [
    'Coq 8.16.1 kernel (coqc; vm_compute used in Examples and ConstFacts only; no native_compute)',
    'tools/gofacts (translator of constants and syntactic facts from /repo into coq/gen/GoFacts.v)',
    'extraction to OCaml 4.13 with ExtrOcamlBasic only (bool/option/unit/list/prod/sumbool/sumor mapped to OCaml types, andb/orb inlined); N/Z/positive stay inductive',
    'ocaml/driver.ml (parses case lines, compares lists; no logic)',
    'Go harness /verif/harness built from the /repo working tree with -tags verif (go1.26.8)',
]

PROPS = {
    'C13': dict(
        tests=['TestC13'],
        monitor_tags={1310, 1311},
        panic_is_violation={1301, 1302, 1304, 1306, 1305},
        rule='every UDP payload length 0..1600 (thorough 0..4000) plus random lengths up to 65507 with byte patterns that make '
             'one\'s-complement sums cross 0xFFFF; oversize payloads (length-field wrap); all protocols; decoders on truncations at every '
             'offset, all 256 version/IHL nibbles with exact/off-by-one lengths, length fields off by +-1/2/256, random bytes; ARP with '
             '6-byte and arbitrary-length hardware addresses. Non-trivial = reaches past the first length guard; distinct by full case line.',
        trusted=['lib/layer/{ip,udp,arp,checksum}.go are modelled by hand in coq/model/{Checksum,Layer}.v; the tie is the differential run above',
                 'net.IP values are 4-byte IPv4 addresses in every case (a nil or 16-byte non-v4 net.IP is outside the model)'],
        assumptions=['Go slices behave as immutable values inside one Assemble/Decode call'],
    ),
}

PROPS['C12'] = dict(
    tests=['TestC12'],
    monitor_tags=set(),
    panic_is_violation={1201, 1202, 1203},
    rule='random messages (hlen 0..16, 1-6 options, codes 1..254 and all typed codes, payloads 0..255) assembled, decoded and typed; '
         'messages outside the round-trip domain (no options, payload > 255, hlen > 16, codes 0/255); every option area over the alphabet '
         '{pad,end,1,2,53,4} up to length 5 (thorough 7) exhaustively; truncation at every offset; every hlen 0..255; structured random bytes; '
         'every typed option with payload lengths 0..9,12,16,17,252,255 and duplicates. Non-trivial = at least 240 bytes / at least one option.',
    trusted=['lib/dhcpmsg/{parse,assemble,optshelper}.go are modelled by hand in coq/model/Dhcp.v; the tie is the differential run'],
    assumptions=['option payload slices are treated as values (aliasing of the receive buffer is the subject of C09)'],
)

PROPS['C11'] = dict(
    tests=['TestC11'],
    monitor_tags=set(),
    panic_is_violation={1101},
    # the model of the lease store is proved equal to the reference table (c_run_refines); a disagreement
    # between implementation and model on a history is a history on which the implementation differs from the table
    spec_equal_tags={1101, 1102},
    rule='histories of the public IPDB API inside a synctest bubble (exact clock): exhaustive over an alphabet of 28 operations '
         '(2 addresses x 2 clients: 8 updates with ttl -1s/5s, 4 permanent inserts, 2 lookups, 12 searches over suggestion x probe pattern, '
         'clock +1s/+6s) to length 3 (thorough 4); random histories of 6-40 operations over six configurations (ranges next to .255/.0, '
         'disabled search, host bits in the network), nil/IPv6/out-of-network addresses, empty client ids, ttl -1s..15s, probe costs 0-600ms; '
         'fromTo for every prefix length. Non-trivial = at least one operation; distinct by full case line.',
    trusted=['lib/server/ipdb/{ipdb.go,clients/,uip/,duid/} are modelled by hand in coq/model/{Clients,Ipdb,IpdbCheck}.v',
             'time.Now() under testing/synctest is the exact virtual clock; rand.Perm order is not modelled: a search result is validated '
             '(own binding / suggested-first / eligible at its look-up time / none eligible) rather than predicted'],
    assumptions=['each exported *IPDB method is one atomic step (gofacts: gf_ipdb_methods_locked)', 'the clock is non-decreasing'],
)
PROPS['C12']['spec_equal_tags'] = {1201, 1203}

SERVER_RULE = ('sequential server histories under testing/synctest: 1-5 clients (no / short / RFC 4361 / hardware-type client identifiers, forged internal '
               'identifiers, shared identifiers), reservations inside and outside the dynamic range, pools of 1-6 addresses at the edges of /23-/29 networks, '
               'static_only; 3-32 packets per history mixing DISCOVER (with suggestions), the four REQUEST kinds, wrong server ids, unicast to other '
               'destinations, other message types, non-UDP protocol, junk and truncated frames; gaps from {0,1s,hold-3s,hold+2s,lease/2,lease-3s,lease+2s,3*lease}; '
               'ARP responders (foreign / own hardware address, delays 1-589 ms and beyond the probe window) on random pool addresses; '
               'live-binding snapshot compared after every packet. Non-trivial = history with at least one packet; distinct by full case line.')
SERVER_TRUSTED = ['lib/server/{run,netio,utils}.go and lib/server/replies are modelled by hand in coq/model/Server.v over the reference table of C11',
                  'testing/synctest virtual clock; in-memory sockets (lib/rsocks/vnet_verif.go) instead of AF_PACKET; ARP responders simulated by the harness',
                  'handlers run one at a time in these histories (the harness waits for quiescence); interleavings are covered by the theorems, not by the runs']
PROPS['SRV'] = dict(tests=['TestServerHistories'], monitor_tags=set(), panic_is_violation=set(), rule=SERVER_RULE, trusted=SERVER_TRUSTED, timeout={'quick': 900, 'thorough': 14000})

PROPS['C14'] = dict(
    tests=['TestC14'],
    monitor_tags={1410, 1411},
    panic_is_violation=set(),
    rule='replies built with the harness\'s own encoder and handed to the real catchReply (frames injected into the in-memory socket inside a '
         'synctest bubble) for each of the four wait kinds (OFFER, selecting/renewing/rebinding ACK): the valid reply, every flavour of breaking '
         'each of the 12 conditions (protocol, port, decodability in 9 ways, chaddr, xid, type incl. NAK, yiaddr, server id, routers, lease, '
         'server = chosen, yiaddr = offered) and every pair of conditions; random structured replies (each condition broken with probability 1/10, '
         'shuffled/duplicated/extra options, padding, IP header options, junk checksums, own hardware addresses of 0-16 bytes, no chosen server); '
         'truncation of a valid reply at every offset, corrupted and random frames; sequences of 1-6 frames through one catchReply loop; the verify '
         'functions called directly on all 256 subsets of the 8 message-level conditions per kind plus random option lists. The specification '
         'conjunction (spec_accept / spec_nack) is evaluated on every frame as a monitor. Non-trivial = every case; distinct by full case line.',
    trusted=['lib/client/verify/verifyer.go and catchReply of lib/client/dclient/netio.go are modelled by hand in coq/model/ClientRx.v over the decoders of C12/C13; '
             'the tie is the differential run',
             'in-memory receive socket (lib/rsocks/vnet_verif.go) instead of AF_PACKET; frames are at most 4096 bytes (the receive buffer of catchReply)',
             'the remembered OFFER/ACK enters the verifier only through YourIP (never nil after Decode) and ServerIdentifier (nil or IPv4)'],
    assumptions=['net.IP.Equal compares IPv4 addresses by value in 4- and 16-byte form; time.Duration arithmetic does not overflow for 32-bit second counts'],
)

PROPS['C16'] = dict(
    tests=['TestC16Templates'],
    monitor_tags={1610},
    panic_is_violation={1601},
    rule='msgtmpl.Discover / RequestSelecting / RequestRenewing / RequestRebinding called with random hardware addresses (length 6 mostly; every length '
         '0..16, and 17..20 for the model only; all-0/all-ff bytes), leased and server addresses (random, 0, broadcast, .255; 4- and 16-byte net.IP forms); '
         'the sender closure is invoked twice (same xid, fresh IP id); byte equality with the model (xid as returned by the constructor, IP id read '
         'from the frame); the recogniser wellformed_for evaluated on the implementation\'s bytes as a monitor; hash/crc32.ChecksumIEEE against the '
         'Gallina CRC-32 on random strings of 0-40 bytes. Non-trivial = every template case; distinct by full case line. '
         'The retransmission-timing half of C16 is not covered by these tests.',
    trusted=['lib/client/msgtmpl/{tmpl,request}.go and dhcpmsg.OptionClientIdentifier are modelled by hand in coq/model/Tmpl.v over the encoders of C12/C13; '
             'the tie is the differential run',
             'the IAID is computed by a bit-wise CRC-32 written in Gallina (tied to hash/crc32 by tag 1602); the theorems hold for every IAID below 2^32',
             'requested address and server identifier passed to the templates are non-nil IPv4 addresses (the client passes the accepted YourIP / ServerIdentifier)'],
    assumptions=['math/rand values (transaction id, IP identification) are arbitrary 32/16-bit numbers'],
)
