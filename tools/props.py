"""per-property configuration of tools/check.py"""

TRUSTED_COMMON = [
    'Coq 8.16.1 kernel (coqc; vm_compute used in Examples and ConstFacts only; no native_compute)',
    'tools/gofacts (translator of constants and syntactic facts from /repo into coq/gen/GoFacts.v)',
    'extraction to OCaml 4.13 with ExtrOcamlBasic only (bool/option/unit/list/prod/sumbool/sumor mapped to OCaml types, andb/orb inlined); N/Z/positive stay inductive',
    'ocaml/driver.ml (parses case lines, compares lists; no logic)',
    'Go harness /verif/harness built from the /repo working tree with -tags verif (go1.26.8)',
]

PROPS = {
    'C13': dict(
        tests=['TestC13'],
        monitor_tags={1310, 1311, 1312, 1313, 1314, 1315, 1316},
        panic_is_violation={1301, 1302, 1304, 1306, 1305},
        rule='every UDP payload length 0..1600 (thorough 0..4000) plus random lengths up to 65507 with byte patterns that make '
             'one\'s-complement sums cross 0xFFFF; oversize payloads (length-field wrap); all protocols; decoders on truncations at every '
             'offset, all 256 version/IHL nibbles with exact/off-by-one lengths, length fields off by +-1/2/256, random bytes; ARP with '
             '6-byte and arbitrary-length hardware addresses. Non-trivial = reaches past the first length guard; distinct by full case line.',
        trusted=['lib/layer/{ip,udp,arp,checksum}.go are modelled by hand in coq/model/{Checksum,Layer}.v; the tie is the differential run above',
                 'net.IP values are 4-byte IPv4 addresses in every case (a nil or 16-byte non-v4 net.IP is outside the model)'],
        assumptions=['Go slices behave as immutable values inside one Assemble/Decode call'],
    ),
}

PROPS['C12'] = dict(
    tests=['TestC12'],
    monitor_tags=set(),
    panic_is_violation={1201, 1202, 1203},
    rule='random messages (hlen 0..16, 1-6 options, codes 1..254 and all typed codes, payloads 0..255) assembled, decoded and typed; '
         'messages outside the round-trip domain (no options, payload > 255, hlen > 16, codes 0/255); every option area over the alphabet '
         '{pad,end,1,2,53,4} up to length 5 (thorough 7) exhaustively; truncation at every offset; every hlen 0..255; structured random bytes; '
         'every typed option with payload lengths 0..9,12,16,17,252,255 and duplicates. Non-trivial = at least 240 bytes / at least one option.',
    trusted=['lib/dhcpmsg/{parse,assemble,optshelper}.go are modelled by hand in coq/model/Dhcp.v; the tie is the differential run'],
    assumptions=['option payload slices are treated as values (aliasing of the receive buffer is the subject of C09)'],
)

PROPS['C11'] = dict(
    tests=['TestC11'],
    monitor_tags=set(),
    panic_is_violation={1101},
    # the model of the lease store is proved equal to the reference table (c_run_refines); a disagreement
    # between implementation and model on a history is a history on which the implementation differs from the table
    spec_equal_tags={1101, 1102},
    rule='histories of the public IPDB API inside a synctest bubble (exact clock): exhaustive over an alphabet of 28 operations '
         '(2 addresses x 2 clients: 8 updates with ttl -1s/5s, 4 permanent inserts, 2 lookups, 12 searches over suggestion x probe pattern, '
         'clock +1s/+6s) to length 3 (thorough 4); random histories of 6-40 operations over six configurations (ranges next to .255/.0, '
         'disabled search, host bits in the network), nil/IPv6/out-of-network addresses, empty client ids, ttl -1s..15s, probe costs 0-600ms; '
         'fromTo for every prefix length. Non-trivial = at least one operation; distinct by full case line.',
    trusted=['lib/server/ipdb/{ipdb.go,clients/,uip/,duid/} are modelled by hand in coq/model/{Clients,Ipdb,IpdbCheck}.v',
             'time.Now() under testing/synctest is the exact virtual clock; rand.Perm order is not modelled: a search result is validated '
             '(own binding / suggested-first / eligible at its look-up time / none eligible) rather than predicted'],
    assumptions=['each exported *IPDB method is one atomic step (gofacts: gf_ipdb_methods_locked)', 'the clock is non-decreasing'],
)
PROPS['C12']['spec_equal_tags'] = {1201, 1203}
PROPS['C12']['monitor_tags'] = set(PROPS['C12'].get('monitor_tags', ())) | {1204}

SERVER_RULE = ('sequential server histories under testing/synctest: 1-5 clients (no / short / RFC 4361 / hardware-type client identifiers, forged internal '
               'identifiers, shared identifiers), reservations inside and outside the dynamic range, pools of 1-6 addresses at the edges of /23-/29 networks, '
               'static_only; 3-32 packets per history mixing DISCOVER (with suggestions), the four REQUEST kinds, wrong server ids, unicast to other '
               'destinations, other message types, non-UDP protocol, junk and truncated frames; gaps from {0,1s,hold-3s,hold+2s,lease/2,lease-3s,lease+2s,3*lease}; '
               'ARP responders (foreign / own hardware address, delays 1-589 ms and beyond the probe window) on random pool addresses; '
               'live-binding snapshot compared after every packet. Non-trivial = history with at least one packet; distinct by full case line.')
SERVER_TRUSTED = ['lib/server/{run,netio,utils}.go and lib/server/replies are modelled by hand in coq/model/Server.v over the reference table of C11',
                  'testing/synctest virtual clock; in-memory sockets (lib/rsocks/vnet_verif.go) instead of AF_PACKET; ARP responders simulated by the harness',
                  'handlers run one at a time in these histories (the harness waits for quiescence); interleavings are covered by the theorems, not by the runs']
_SRV_DEBUG = dict(tests=['TestServerHistories'], monitor_tags=set(), panic_is_violation=set(), rule=SERVER_RULE, trusted=SERVER_TRUSTED, timeout={'quick': 600, 'thorough': 2400})

def _srv(mon, extra_tests=(), **kw):
    d = dict(tests=['TestServerHistories', 'TestServerStories'] + list(extra_tests), monitor_tags={mon}, panic_is_violation=set(), rule=SERVER_RULE,
             trusted=list(SERVER_TRUSTED), timeout={'quick': 600, 'thorough': 2400}, env={'VERIF_MONITORS': str(mon)},
             assumptions=['each exported *IPDB method is one atomic step (gofacts: gf_ipdb_methods_locked)', 'virtual time stands for wall-clock time'])
    d.update(kw)
    return d

for _pid, _mon in (('C01', 201), ('C02', 202), ('C03', 203), ('C04', 204), ('C05', 205), ('C06', 206), ('C08', 208), ('C10', 210)):
    PROPS[_pid] = _srv(_mon)

PROPS['C17'] = dict(
    tests=['TestC17'],
    # specification (coq/spec/SpecResolv.v) evaluated on what the implementation produced
    monitor_tags={1710, 1711, 1712, 1720, 1721},
    panic_is_violation={1701, 1702, 1703},
    # render is proved equal to the functional specification spec_render (C17_render_is_spec): a disagreement on
    # 1705/1706 is an environment for which the real binary wrote something else than the specified file
    spec_equal_tags={1705, 1706},
    rule='envEntry on every byte value alone/embedded, every UTF-8 boundary sequence (overlong, surrogate, > U+10FFFF, truncated, lone '
         'continuation) in four contexts, every lead byte >= 0x80 against second bytes at every range boundary (thorough: all 256), and 4 000 / 200 000 '
         'generated strings (hostnames, hostnames with one injected byte, classic shell/newline/"="/NUL injections, safe-only, metacharacter mixes, '
         'valid multi-byte runes, boundary sequences glued with continuation bytes, high bytes, empty, 255 random bytes); dumpScriptConf on 1 500 / 40 000 '
         'interface configurations (nil/4-byte/odd-length addresses and masks, 0-63 DNS entries, MTU and lease incl. 0, negative, > 2^32); 50 / 400 real '
         'child processes (/usr/bin/env -0) started through Cbhandler plus 4 with a nil configuration; the real psa-dhcpc binary (CGO_ENABLED=0, built from the tree under test) '
         'run with -syshook in a chroot for 173 / 5 013 environment blocks handed to execve unmodified: one third the real dumpScriptConf output '
         '(composition), the rest hand-made (valid / broken name-server pieces: empty, trailing newline, embedded space or line, one byte replaced, '
         'non-ASCII digits; valid / hostile domains; duplicate keys, entries without "=", look-alike keys, value starting with "="). '
         'Non-trivial = non-empty value / environment; distinct by full case line.',
    trusted=['lib/client/callback/callback.go (envEntry, dumpScriptConf) and lib/resolvconf/resolvconf.go (Run up to update()) are modelled by hand in '
             'coq/model/{Sanitize,Resolv}.v; the tie is the differential run; literals (classes, negation/anchoring, replacement, format strings, keys, '
             'separators) are read from the source by tools/gofacts',
             'Go regexp/utf8 semantics (rune-wise matching, U+FFFD width 1 for invalid bytes, `$` = end of text) and the Go runtime rule that os.Environ() '
             'keeps the first of duplicate keys are modelled (Sanitize.rune_width, Resolv.os_environ) and exercised by the run',
             'net.IP.String()/IPMask.String()/%d results are arbitrary byte strings in the theorems; the formatting model (ifconfig_v4) is only used by the run '
             'and does not cover 16-byte addresses; dclient.buildNetconfig itself is not executed (the theorems hold for every Ifconfig content)',
             'an execve environment block cannot carry NUL: NUL reaches envEntry (library and child-process cases) but not the chroot binary'],
    assumptions=['the hook script receives os.Environ() of the client plus the entries of envEntry/dumpScriptConf and nothing else named PSA_DHCPC_*'],
    timeout={'quick': 600, 'thorough': 3600},
)

PROPS['C09'] = _srv(209, extra_tests=['TestC09NoAlias', 'TestC09Burst', 'TestC09ConcurrentDB'],
    env={'VERIF_MONITORS': '201+205+206'}, monitor_tags={201, 205, 206}, race=True,
    race_tests=['TestC09Burst', 'TestC09ConcurrentDB', 'TestServerHistories', 'TestServerStories'],
    rule=SERVER_RULE + ' PLUS: no-alias run (3000/60000 decoded messages compared after the receive buffer is overwritten); real-time bursts through '
         'the real Run loop (12/200 scenarios: 2-5 unbound clients DISCOVER at the same instant, with and without a common suggestion, pools larger/smaller '
         'than the burst, then all REQUEST at once: one OFFER/ACK each, pairwise distinct); 40/1000 rounds of 3-12 goroutines calling OfferIP/UpdateClient/'
         'Lookup concurrently; the same tests under the Go race detector (thorough, and a subset in quick).')
PROPS['C09']['trusted'] = PROPS['C09']['trusted'] + ['the Go race detector (go1.26.8 -race) reports races only on the schedules it happens to see',
                                                      'real-time bursts depend on the scheduler: margins of 0.7 s per client are left for each 0.6 s probe']

CONFIG_RULE = ('configurations through the real server.New (fake libif own address), each built 5 times: 25 directed configurations (witnesses of F5a-e and their '
               'in-range neighbours) then generated ones in three streams - all fields valid; exactly one of 39 fault kinds (network unparsable/IPv6//31-32, lease '
               'unparsable/<1m/2^32 s/200 years/fraction next to a float rounding boundary, router/DNS/NTP unparsable or IPv6 or empty element, lists of 64-70, domain '
               '256-300 bytes, range malformed/unparsable/IPv6/reversed/outside, own address missing/outside/network address, hardware address unparsable / second '
               'spelling of an earlier key / the server\'s own, client address unparsable/IPv6/outside/duplicate/own, client router/DNS/NTP bad or oversize, host name '
               '256-300 bytes); each fault independently with probability 6%. Networks /16-/30 with and without host bits, lists of 0-63 entries (boundary 60-63 '
               'stressed), texts of 0-255 bytes (253-255 stressed), 0-5 clients from a pool of 6 hardware addresses in 4 spellings, 4 probe hardware addresses. '
               'Non-trivial = every case (server.New runs to its verdict); distinct by full case line.')
CONFIG_TRUSTED = ['lib/server/server.go (New, dhcpOptions), lib/server/leaseopts/leaseopts.go and the option constructors of lib/dhcpmsg/assemble.go are modelled by hand in '
                  'coq/model/Config.v; the tie is the differential run',
                  'the standard-library parsers (net.ParseCIDR, net.ParseIP/To4, net.ParseMAC, time.ParseDuration, strings.Split) classify each string for the model as '
                  'they do for the server (the harness calls them on the same strings); the protobuf text parser and cmd/psa-dhcpd are outside the model',
                  'lib/libif is replaced by the recording fake (own address set by the harness)']
PROPS['C18'] = dict(
    tests=['TestC18'],
    # 1810: valid_config_b / expected ranges, bindings, options evaluated on the observation; 1811: the five constructions agree
    monitor_tags={1810, 1811},
    panic_is_violation={1801},
    # new_server is proved to accept exactly valid_config and to produce exactly the expected state (C18_sound, C18_complete,
    # C18_applied_exactly): a disagreement with the model is a configuration on which the implementation differs from the specification
    spec_equal_tags={1801},
    rule=CONFIG_RULE, trusted=CONFIG_TRUSTED,
    assumptions=['Go map iteration order is arbitrary (the theorems quantify over all permutations of the client list)',
                 'uint32(x) of an int64 truncates (Go specification); the lease option is computed with integer division (repair F5e)'],
)
PROPS['C07'] = dict(
    tests=['TestC07'],
    # 1820: Spec.expected_options against the option list and against the decoded OFFER and ACK payloads the implementation assembled
    monitor_tags={1820},
    panic_is_violation={1802},
    spec_equal_tags={1802},
    rule='the configuration generator of C18 (3 of 4 all-valid, 1 of 4 with one fault) and its 25 directed configurations; for each of the 4 probe hardware '
         'addresses (entries with overrides, the server\'s own, an unknown one) the option list of dhcpOptions and the DHCP payloads of replies.AssembleOffer / '
         'AssembleACK built from it (random xid, broadcast flag, yiaddr). Non-trivial = accepted configuration; distinct by full case line.',
    trusted=CONFIG_TRUSTED + ['OFFER/ACK payloads are produced by calling replies.AssembleOffer/AssembleACK on the option list, as sendMsg does; the frames of a running '
                              'server are compared byte for byte in the server histories (SRV)'],
    assumptions=['the address stays unavailable to others for the advertised time: C05/C11 (LeaseProofs), with reserved_ns as the duration passed to UpdateClient'],
)

PROPS['C10']['tests'] = PROPS['C10']['tests'] + ['TestC10Malformed', 'TestC10Handlers', 'TestC10Flood']
PROPS['C10']['panic_is_violation'] = {1001}
PROPS['C10']['spec_equal_tags'] = {1001}
PROPS['C10']['rule'] = SERVER_RULE + (' PLUS the receive path (IPv4 -> UDP -> DHCP -> options -> OUI lookup) run in-process on a malformed stream: frame and DHCP-payload '
    'truncation at every offset (IP/UDP lengths consistent), every hlen 0..255, option areas over {pad,end,53,1,61,4,200} exhaustively to length 4 (thorough 6), '
    'random bytes, random payloads, bit flips, length fields off by one, frames up to 4 KB; a panic is a violation with the frame as replay.')
PROPS['C06']['tests'] = PROPS['C06']['tests'] + ['TestC09NoAlias']
# C07 on the wire: OFFER/ACK of the running server carry the option list of the sender's hardware address, the advertised lease is reserved
PROPS['C07']['tests'] = PROPS['C07']['tests'] + ['TestServerHistories', 'TestServerStories']
PROPS['C07']['env'] = {'VERIF_MONITORS': '207'}
PROPS['C07']['monitor_tags'] = PROPS['C07']['monitor_tags'] | {207}
PROPS['C07'].setdefault('timeout', {'quick': 600, 'thorough': 2400})

PROPS['C14'] = dict(
    tests=['TestC14'],
    monitor_tags={1410, 1411},
    panic_is_violation=set(),
    rule='replies built with the harness\'s own encoder and handed to the real catchReply (frames injected into the in-memory socket inside a '
         'synctest bubble) for each of the four wait kinds (OFFER, selecting/renewing/rebinding ACK): the valid reply, every flavour of breaking '
         'each of the 12 conditions (protocol, port, decodability in 9 ways, chaddr, xid, type incl. NAK, yiaddr, server id, routers, lease, '
         'server = chosen, yiaddr = offered) and every pair of conditions; random structured replies (each condition broken with probability 1/10, '
         'shuffled/duplicated/extra options, padding, IP header options, junk checksums, own hardware addresses of 0-16 bytes, no chosen server); '
         'truncation of a valid reply at every offset, corrupted and random frames; sequences of 1-6 frames through one catchReply loop; the verify '
         'functions called directly on all 256 subsets of the 8 message-level conditions per kind plus random option lists. The specification '
         'conjunction (spec_accept / spec_nack) is evaluated on every frame as a monitor. Non-trivial = every case; distinct by full case line.',
    trusted=['lib/client/verify/verifyer.go and catchReply of lib/client/dclient/netio.go are modelled by hand in coq/model/ClientRx.v over the decoders of C12/C13; '
             'the tie is the differential run',
             'in-memory receive socket (lib/rsocks/vnet_verif.go) instead of AF_PACKET; frames are at most 4096 bytes (the receive buffer of catchReply)',
             'the remembered OFFER/ACK enters the verifier only through YourIP (never nil after Decode) and ServerIdentifier (nil or IPv4)'],
    assumptions=['net.IP.Equal compares IPv4 addresses by value in 4- and 16-byte form; time.Duration arithmetic does not overflow for 32-bit second counts'],
)

PROPS['C16'] = dict(
    tests=['TestC16Templates'],
    monitor_tags={1610},
    panic_is_violation={1601},
    rule='msgtmpl.Discover / RequestSelecting / RequestRenewing / RequestRebinding called with random hardware addresses (length 6 mostly; every length '
         '0..16, and 17..20 for the model only; all-0/all-ff bytes), leased and server addresses (random, 0, broadcast, .255; 4- and 16-byte net.IP forms); '
         'the sender closure is invoked twice (same xid, fresh IP id); byte equality with the model (xid as returned by the constructor, IP id read '
         'from the frame); the recogniser wellformed_for evaluated on the implementation\'s bytes as a monitor; hash/crc32.ChecksumIEEE against the '
         'Gallina CRC-32 on random strings of 0-40 bytes. Non-trivial = every template case; distinct by full case line. '
         'The retransmission-timing half of C16 is not covered by these tests.',
    trusted=['lib/client/msgtmpl/{tmpl,request}.go and dhcpmsg.OptionClientIdentifier are modelled by hand in coq/model/Tmpl.v over the encoders of C12/C13; '
             'the tie is the differential run',
             'the IAID is computed by a bit-wise CRC-32 written in Gallina (tied to hash/crc32 by tag 1602); the theorems hold for every IAID below 2^32',
             'requested address and server identifier passed to the templates are non-nil IPv4 addresses (the client passes the accepted YourIP / ServerIdentifier)'],
    assumptions=['math/rand values (transaction id, IP identification) are arbitrary 32/16-bit numbers'],
)

PROPS['C15'] = dict(
    tests=['TestC15'], monitor_tags={1510}, panic_is_violation=set(), spec_equal_tags=set(),
    rule='scripted worlds around the real client (lib/client mclient -> dclient) on the virtual clock: per state the outcome of its blocking '
         'operation is drawn at random as the client enters it (valid/invalid/late/missing/negative replies per exchange kind; leases 60 s..1 day with '
         'absent/consistent/inconsistent T1/T2; class A-D addresses with absent/canonical/non-contiguous/zero masks; ARP conflict, own answer, silence; '
         'SetIface failures; link-up during every kind of wait; NAK storms that exhaust the rate limiter); 250/5000 scripts of 6-45 state visits; the '
         'sequence of interface operations (with the configuration handed to SetIface), first transmissions and crashes with their virtual times is compared '
         'with the automaton model (1501); the harness also stamps every stimulus with its virtual instant and the exchange kind seen on the wire, and the '
         'property is read off that record and the client actions by mon_C15 (1510; 1511 = the monitor on the model history of the same script). Non-trivial = more than 3 state visits.',
    trusted=['lib/client/dclient/{dclient,dhcpstates,sysstates}.go, ResumeClient, mclient.go and filter.go are modelled by hand in coq/model/Client.v',
             'the harness decides outcomes lazily when it observes the client entering a state (first frame of an exchange, ARP probe, SetIface/Up call); '
             'libif, ifmon and rsocks are the verif-tag fakes; timers are the synctest virtual clock (real timer drift, the 17 s re-poll of hackAbsoluteSleep '
             'and the run time of the hook script are not exhibited)'],
    timeout={'quick': 600, 'thorough': 2400})
PROPS['C20'] = dict(
    tests=['TestC20'],
    # checks of coq/spec/SpecFs.v (proved to accept every reachable state of the model: C20_checks_accept_reachable)
    # evaluated on samples / listings of the real directory
    monitor_tags={2010, 2011, 2012},
    panic_is_violation=set(),
    rule='the real psa-dhcpc binary (CGO_ENABLED=0, built from the tree under test) started with -syshook in a chroot on the real kernel. '
         '(i)+(ii) 204 / 1 360 runs under `strace -f` over 12 / 80 combinations of name-server list (1-400 servers, with/without domain) and initial directory '
         '(empty; old resolv.conf 0644; old resolv.conf 0600 + unrelated file + stale resolvconf-123.tmp; look-alike names): one plain run, one run with '
         'an error (EIO/ENOSPC/EACCES/EDQUOT/EROFS) injected into each of openat/write/close/fchmodat/renameat, one with SIGKILL delivered on entry of each of '
         'these calls, each failing step combined with a failing unlinkat, and SIGKILL before the unlinkat; compared with the model: the sequence of file-system '
         'calls on etc/ with their flags/modes/paths (2001), exit kind and the complete directory afterwards with contents and modes (2002); the directory is also judged without the model run by dir_ok / quiet_ok (2011). '
         '(iii) 24 / 150 scenarios of 2-8 concurrent writer processes x 6 / 12 rounds with different name-server lists (every fifth with 60-120 KB buffers; every third with '
         'every other run of a writer SIGKILLed at 40-105 % of the duration of its previous run) while two reader goroutines sample etc/resolv.conf in a tight loop (content+mode through one descriptor; content only): '
         'every distinct sample and the final listing are judged by sample_ok/content_ok/dir_ok/quiet_ok (2010/2012/2011). '
         'Non-trivial = every case; distinct by full case line (temp names are random, so traced cases are distinct by construction).',
    trusted=['POSIX / Linux kernel (ASSUMED, not proved): rename(2) within one directory replaces the target atomically and changes nothing when it fails; '
             'open with O_CREAT|O_EXCL fails if the name exists; a failing call has no effect (a failing or interrupted write may leave a prefix); steps of different '
             'processes are atomic with respect to each other; SIGKILL lets no further call of the victim happen; the content of an inode that is no longer '
             'written does not change (a reader holding resolv.conf open reads one consistent file)',
             'lib/resolvconf/resolvconf.go update() is modelled by hand in coq/model/Fs.v (name-addressed files; the descriptor-addressed write agrees with it '
             'because no other actor touches a live temp name: C20_tmp_names_distinct); program order, the conditional deferred Remove, the paths and the mode '
             '0644 are read from the source by tools/gofacts; the creation mode 0600 and O_RDWR|O_CREAT|O_EXCL belong to the Go standard library and are checked by the strace cases',
             'strace 6.1 fault injection (inject=<call>:error=..:when=n, :signal=KILL) stands for real I/O errors and crashes: an injected error suppresses the call, '
             'SIGKILL on entry aborts it; kills in the MIDDLE of a write (prefix left) are covered by the theorems and by the random-kill scenarios only as far as '
             'the scheduler produces them; EEXIST retries of TempFile are in the model but cannot be provoked',
             'the temp name of a traced run is read from the trace and given to the model as the oracle choice'],
    assumptions=['only psa-dhcpc writers (and readers) touch etc/resolv.conf and etc/resolvconf-*.tmp while an update runs',
                 'temp file and target are in one directory of one file system (gofacts: gf_resolv_same_dir)'],
    timeout={'quick': 600, 'thorough': 3600},
)

PROPS['C15']['direct_files'] = []
PROPS['C15']['case_files'] = ['c15', 'c15dl']
PROPS['C15']['tests'] = PROPS['C15']['tests'] + ['TestC15Deadlines']
PROPS['C15']['spec_equal_tags'] = {1503}
# C16: message formats (templates) + timing of retransmissions observed on the client scripts of C15
PROPS['C16']['tests'] = PROPS['C16']['tests'] + ['TestC15']
PROPS['C16']['direct_files'] = ['c16timing']
# C14: which verifier each state is wired to is observed on the client scripts of C15 (foreign-server ACKs)
# catch_reply / catch_loop are characterised completely by C14_accept_iff, C14_nack_iff, C14_ignore_otherwise and C14_loop (verdict AND the
# message and options handed on): a packet or packet sequence on which the implementation differs from them is a failing input
PROPS['C14']['spec_equal_tags'] = {1402, 1403}
PROPS['C14']['tests'] = PROPS['C14']['tests'] + ['TestC15']
PROPS['C14']['direct_files'] = ['c14wiring']
PROPS['C14']['case_files'] = ['c14']
PROPS['C16']['case_files'] = [n for n in ('c16', 'c16templates', 'c16tmpl')]
PROPS['C19'] = dict(
    tests=['TestC19ServerHistories', 'TestC19ServerFaults', 'TestC19ServerCancel', 'TestC19ClientCancel', 'TestC19ClientHistories',
           'TestC19ClientFaults', 'TestC19ClientLimiter'],
    monitor_tags=set(),
    panic_is_violation=set(),
    rule='real server and client under testing/synctest on the counting in-memory sockets. (i) 150 / 4000 sequential server histories (generator of the '
         'server checks: 3-27 packets, ARP responders, gaps up to 3 leases): after every packet opens = closes + 1 = 1 + sum(2 x probes + replies) with the '
         'probes read off the ARP request frames, goroutines at baseline; after cancel opens = closes, goroutines at the pre-start baseline; the history '
         '(probes, replies per packet) is run through the Coq model (tag 1901: opens, closes, termination, double close, opens per socket kind). '
         '(ii) faults: the n-th open and, separately, the n-th write fails (n = 1..17) during a DISCOVER+REQUEST exchange, then a second client must get OFFER+ACK; '
         'dclient.sendMessage (broadcast / unicast with 5 unanswered Pings) with the n-th open/write failing (n = 1..12): DHCP-socket errors returned at once, ARP-socket '
         'errors absorbed; catchReply with a failing open; the whole client with the n-th open/write failing (n = 1..16). (iii) cancel at 200 / 5000 random virtual '
         'instants of a running server (idle, inside the reply delay, inside probes, after the reply) and of dclient.Run against a scripted responder '
         '(normal, silent, NAK / silence on renewal, address conflict and SetIface failure -> panicReset, unanswered ARP, 2 h lease): virtual time cancel -> return '
         'must be 0, sockets balanced, goroutines back at baseline. 40 / 600 client lives of 1-400 s counted by the model (tag 1902). One limiter scenario (F11, repaired): cancel '
         'during the 20 s pause of the tripped limiter must return at once. Non-trivial = at least one socket beyond the first; distinct by full case line.',
    trusted=['lib/arpping/arpping.go, lib/server/{run,utils,netio}.go (socket use), lib/client/dclient/{netio,dclient,sysstates,dhcpstates}.go are modelled by hand as '
             'processes in coq/model/Res.v; tools/gofacts checks that the Close calls / closer goroutines / deferred cancels are where the model has them',
             'lib/rsocks/vnet_verif.go counts opens and closes (a second Close of the same socket returns an error and is not counted: double closes are excluded by the theorem, not observed)',
             'goroutine accounting is by runtime.NumGoroutine() at virtual-time quiescence (a leaked goroutine compensated by a missing one would not be seen)',
             'the model-evaluated counts use straight-line programs assembled from the same Ping/sendUnicast/exchange blocks for the observed number of probes and replies; '
             'the general handler programs are tied to them by the count lemmas only'],
    assumptions=['virtual time stands for wall-clock time', 'a timer and ctx.Done() becoming ready at the same instant is resolved in favour of Done in the bound (Go picks at random; the loop then runs once more)',
                 'descriptor leaks inside the real lib/rsocks are outside every check (PARTIAL)'],
    timeout={'quick': 900, 'thorough': 7200},
)

# ---- end to end on the real kernel (harness/e2e_test.go): the real binaries over a veth pair in a private network namespace ----
E2E_RULE = (' PLUS one end-to-end run of the real psa-dhcpd and psa-dhcpc binaries (no verif tag: real AF_PACKET sockets, netlink, main functions, text '
            'configuration) over a veth pair in a private network namespace: acquisition with a foreign host answering ARP for one pool address, a link flap '
            '(re-validation by rebinding), 120 malformed frames; every frame is captured with its link-layer header, the interface configuration, routes and '
            'the programs\' open sockets are read from the kernel (skipped, and said so in the evidence, where network namespaces are unavailable).')
for _pid, _cases in (('C02', []), ('C06', ['e2e-server']), ('C07', []), ('C08', []), ('C10', []), ('C15', []), ('C16', ['e2e-client']), ('C17', ['e2e-resolv']), ('C19', [])):
    _p = PROPS[_pid]
    _p['tests'] = list(_p['tests']) + ['TestE2E']
    if _pid == 'C06':
        _p['monitor_tags'] = set(_p['monitor_tags']) | {1410}
    _p['rule'] = _p['rule'] + E2E_RULE
    if _p.get('direct_files') is not None:
        _p['direct_files'] = list(_p['direct_files']) + ['e2e-' + _pid.lower()]
    else:
        # everything this property's own tests write, plus its own end-to-end log (not those of the other properties)
        _p['direct_exclude_prefix'] = 'e2e-'
        _p['direct_include'] = ['e2e-' + _pid.lower()]
    if _p.get('case_files') is not None:
        _p['case_files'] = list(_p['case_files']) + _cases
    else:
        _p['case_exclude'] = [n for n in ('e2e-server', 'e2e-client', 'e2e-resolv') if n not in _cases]
    _p['trusted'] = list(_p['trusted']) + ['end-to-end run: one network namespace for both ends of the veth pair (arp_ignore=1 so that the kernel does not answer for the other end); the observer\'s own AF_PACKET capture and /proc readings']

# C18 on the real program: psa-dhcpd started on the text form of generated configurations in a private network namespace
PROPS['C18']['tests'] = list(PROPS['C18']['tests']) + ['TestC18Binary']
PROPS['C18']['monitor_tags'] = set(PROPS['C18']['monitor_tags']) | {1812}
PROPS['C18']['rule'] = PROPS['C18']['rule'] + (' PLUS the unmodified psa-dhcpd binary started (flag parsing, loadConfig, proto.UnmarshalText, server.New on a real veth interface with the '
    'case\'s hardware address and address, read through netlink) on the text form of the 25 directed and 40 / 1 500 generated configurations in a private network namespace: '
    'comes up ("is ready") or refuses to start, against the specification\'s verdict (tag 1812); skipped where network namespaces are unavailable.')

# the hook script of the real client as real child processes (harness/hook_test.go)
PROPS['C15']['tests'] = list(PROPS['C15']['tests']) + ['TestC15Hook']
PROPS['C15']['direct_files'] = list(PROPS['C15']['direct_files']) + ['c15hook', 'c15monotonic']
PROPS['C19']['tests'] = list(PROPS['C19']['tests']) + ['TestC19Hook']

# replies that cannot be sent (harness/server_stories_test.go TestC05Faults): judged directly, for C05 and C01
for _pid in ('C05', 'C01'):
    PROPS[_pid]['tests'] = list(PROPS[_pid]['tests']) + ['TestC05Faults']
    if PROPS[_pid].get('direct_files') is not None:
        PROPS[_pid]['direct_files'] = list(PROPS[_pid]['direct_files']) + ['c05faults']

# C16: a stalled transmission is not made up for by a burst (TestC16Stall)
# every client message is assembled by layer.IPv4 / layer.UDP and their checksum routine: the assembler cases of C13 (all payload lengths,
# carry windows of the one's complement sum) are part of what "valid checksums" of C16 rests on - a template only varies xid and addresses
PROPS['C16']['tests'] = list(PROPS['C16']['tests']) + ['TestC16Stall', 'TestC13']
PROPS['C16']['case_files'] = list(PROPS['C16']['case_files']) + ['c13']
PROPS['C16']['monitor_tags'] = set(PROPS['C16']['monitor_tags']) | {1310, 1311, 1313}
PROPS['C16']['panic_is_violation'] = set(PROPS['C16'].get('panic_is_violation', ())) | {1301}
PROPS['C16']['direct_files'] = list(PROPS['C16']['direct_files']) + ['c16stall']
