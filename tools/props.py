"""per-property configuration of tools/check.py"""

TRUSTED_COMMON = [
    'Coq 8.16.1 kernel (coqc; vm_compute used in Examples and ConstFacts only; no native_compute)',
    'tools/gofacts (translator of constants and syntactic facts from /repo into coq/gen/GoFacts.v)',
    'extraction to OCaml 4.13 with ExtrOcamlBasic only (bool/option/unit/list/prod/sumbool/sumor mapped to OCaml types, andb/orb inlined); N/Z/positive stay inductive',
    'ocaml/driver.ml (parses case lines, compares lists; no logic)',
    'Go harness /verif/harness built from the /repo working tree with -tags verif (go1.26.8)',
]

PROPS = {
    'C13': dict(
        tests=['TestC13'],
        monitor_tags={1310, 1311},
        panic_is_violation={1301, 1302, 1304, 1306, 1305},
        rule='every UDP payload length 0..1600 (thorough 0..4000) plus random lengths up to 65507 with byte patterns that make '
             'one\'s-complement sums cross 0xFFFF; oversize payloads (length-field wrap); all protocols; decoders on truncations at every '
             'offset, all 256 version/IHL nibbles with exact/off-by-one lengths, length fields off by +-1/2/256, random bytes; ARP with '
             '6-byte and arbitrary-length hardware addresses. Non-trivial = reaches past the first length guard; distinct by full case line.',
        trusted=['lib/layer/{ip,udp,arp,checksum}.go are modelled by hand in coq/model/{Checksum,Layer}.v; the tie is the differential run above',
                 'net.IP values are 4-byte IPv4 addresses in every case (a nil or 16-byte non-v4 net.IP is outside the model)'],
        assumptions=['Go slices behave as immutable values inside one Assemble/Decode call'],
    ),
}

PROPS['C12'] = dict(
    tests=['TestC12'],
    monitor_tags=set(),
    panic_is_violation={1201, 1202, 1203},
    rule='random messages (hlen 0..16, 1-6 options, codes 1..254 and all typed codes, payloads 0..255) assembled, decoded and typed; '
         'messages outside the round-trip domain (no options, payload > 255, hlen > 16, codes 0/255); every option area over the alphabet '
         '{pad,end,1,2,53,4} up to length 5 (thorough 7) exhaustively; truncation at every offset; every hlen 0..255; structured random bytes; '
         'every typed option with payload lengths 0..9,12,16,17,252,255 and duplicates. Non-trivial = at least 240 bytes / at least one option.',
    trusted=['lib/dhcpmsg/{parse,assemble,optshelper}.go are modelled by hand in coq/model/Dhcp.v; the tie is the differential run'],
    assumptions=['option payload slices are treated as values (aliasing of the receive buffer is the subject of C09)'],
)

PROPS['C11'] = dict(
    tests=['TestC11'],
    monitor_tags=set(),
    panic_is_violation={1101},
    # the model of the lease store is proved equal to the reference table (c_run_refines); a disagreement
    # between implementation and model on a history is a history on which the implementation differs from the table
    spec_equal_tags={1101, 1102},
    rule='histories of the public IPDB API inside a synctest bubble (exact clock): exhaustive over an alphabet of 28 operations '
         '(2 addresses x 2 clients: 8 updates with ttl -1s/5s, 4 permanent inserts, 2 lookups, 12 searches over suggestion x probe pattern, '
         'clock +1s/+6s) to length 3 (thorough 4); random histories of 6-40 operations over six configurations (ranges next to .255/.0, '
         'disabled search, host bits in the network), nil/IPv6/out-of-network addresses, empty client ids, ttl -1s..15s, probe costs 0-600ms; '
         'fromTo for every prefix length. Non-trivial = at least one operation; distinct by full case line.',
    trusted=['lib/server/ipdb/{ipdb.go,clients/,uip/,duid/} are modelled by hand in coq/model/{Clients,Ipdb,IpdbCheck}.v',
             'time.Now() under testing/synctest is the exact virtual clock; rand.Perm order is not modelled: a search result is validated '
             '(own binding / suggested-first / eligible at its look-up time / none eligible) rather than predicted'],
    assumptions=['each exported *IPDB method is one atomic step (gofacts: gf_ipdb_methods_locked)', 'the clock is non-decreasing'],
)
PROPS['C12']['spec_equal_tags'] = {1201, 1203}

SERVER_RULE = ('sequential server histories under testing/synctest: 1-5 clients (no / short / RFC 4361 / hardware-type client identifiers, forged internal '
               'identifiers, shared identifiers), reservations inside and outside the dynamic range, pools of 1-6 addresses at the edges of /23-/29 networks, '
               'static_only; 3-32 packets per history mixing DISCOVER (with suggestions), the four REQUEST kinds, wrong server ids, unicast to other '
               'destinations, other message types, non-UDP protocol, junk and truncated frames; gaps from {0,1s,hold-3s,hold+2s,lease/2,lease-3s,lease+2s,3*lease}; '
               'ARP responders (foreign / own hardware address, delays 1-589 ms and beyond the probe window) on random pool addresses; '
               'live-binding snapshot compared after every packet. Non-trivial = history with at least one packet; distinct by full case line.')
SERVER_TRUSTED = ['lib/server/{run,netio,utils}.go and lib/server/replies are modelled by hand in coq/model/Server.v over the reference table of C11',
                  'testing/synctest virtual clock; in-memory sockets (lib/rsocks/vnet_verif.go) instead of AF_PACKET; ARP responders simulated by the harness',
                  'handlers run one at a time in these histories (the harness waits for quiescence); interleavings are covered by the theorems, not by the runs']
_SRV_DEBUG = dict(tests=['TestServerHistories'], monitor_tags=set(), panic_is_violation=set(), rule=SERVER_RULE, trusted=SERVER_TRUSTED, timeout={'quick': 900, 'thorough': 14000})

def _srv(mon, extra_tests=(), **kw):
    d = dict(tests=['TestServerHistories'] + list(extra_tests), monitor_tags={mon}, panic_is_violation=set(), rule=SERVER_RULE,
             trusted=list(SERVER_TRUSTED), timeout={'quick': 900, 'thorough': 14000}, env={'VERIF_MONITORS': str(mon)},
             assumptions=['each exported *IPDB method is one atomic step (gofacts: gf_ipdb_methods_locked)', 'virtual time stands for wall-clock time'])
    d.update(kw)
    return d

for _pid, _mon in (('C01', 201), ('C02', 202), ('C03', 203), ('C04', 204), ('C05', 205), ('C06', 206), ('C08', 208), ('C10', 210)):
    PROPS[_pid] = _srv(_mon)

PROPS['C17'] = dict(
    tests=['TestC17'],
    # specification (coq/spec/SpecResolv.v) evaluated on what the implementation produced
    monitor_tags={1710, 1711, 1712, 1720, 1721},
    panic_is_violation={1701, 1702, 1703},
    # render is proved equal to the functional specification spec_render (C17_render_is_spec): a disagreement on
    # 1705/1706 is an environment for which the real binary wrote something else than the specified file
    spec_equal_tags={1705, 1706},
    rule='envEntry on every byte value alone/embedded, every UTF-8 boundary sequence (overlong, surrogate, > U+10FFFF, truncated, lone '
         'continuation) in four contexts, every lead byte >= 0x80 against second bytes at every range boundary (thorough: all 256), and 4 000 / 200 000 '
         'generated strings (hostnames, hostnames with one injected byte, classic shell/newline/"="/NUL injections, safe-only, metacharacter mixes, '
         'valid multi-byte runes, boundary sequences glued with continuation bytes, high bytes, empty, 255 random bytes); dumpScriptConf on 1 500 / 40 000 '
         'interface configurations (nil/4-byte/odd-length addresses and masks, 0-63 DNS entries, MTU and lease incl. 0, negative, > 2^32); 50 / 400 real '
         'child processes (/usr/bin/env -0) started through Cbhandler plus 4 with a nil configuration; the real psa-dhcpc binary (CGO_ENABLED=0, built from the tree under test) '
         'run with -syshook in a chroot for 173 / 5 013 environment blocks handed to execve unmodified: one third the real dumpScriptConf output '
         '(composition), the rest hand-made (valid / broken name-server pieces: empty, trailing newline, embedded space or line, one byte replaced, '
         'non-ASCII digits; valid / hostile domains; duplicate keys, entries without "=", look-alike keys, value starting with "="). '
         'Non-trivial = non-empty value / environment; distinct by full case line.',
    trusted=['lib/client/callback/callback.go (envEntry, dumpScriptConf) and lib/resolvconf/resolvconf.go (Run up to update()) are modelled by hand in '
             'coq/model/{Sanitize,Resolv}.v; the tie is the differential run; literals (classes, negation/anchoring, replacement, format strings, keys, '
             'separators) are read from the source by tools/gofacts',
             'Go regexp/utf8 semantics (rune-wise matching, U+FFFD width 1 for invalid bytes, `$` = end of text) and the Go runtime rule that os.Environ() '
             'keeps the first of duplicate keys are modelled (Sanitize.rune_width, Resolv.os_environ) and exercised by the run',
             'net.IP.String()/IPMask.String()/%d results are arbitrary byte strings in the theorems; the formatting model (ifconfig_v4) is only used by the run '
             'and does not cover 16-byte addresses; dclient.buildNetconfig itself is not executed (the theorems hold for every Ifconfig content)',
             'an execve environment block cannot carry NUL: NUL reaches envEntry (library and child-process cases) but not the chroot binary'],
    assumptions=['the hook script receives os.Environ() of the client plus the entries of envEntry/dumpScriptConf and nothing else named PSA_DHCPC_*'],
    timeout={'quick': 600, 'thorough': 3600},
)

PROPS['C09'] = _srv(209, extra_tests=['TestC09NoAlias', 'TestC09Burst', 'TestC09ConcurrentDB'],
    env={'VERIF_MONITORS': '201+205+206'}, monitor_tags={201, 205, 206}, race=True,
    rule=SERVER_RULE + ' PLUS: no-alias run (3000/60000 decoded messages compared after the receive buffer is overwritten); real-time bursts through '
         'the real Run loop (12/200 scenarios: 2-5 unbound clients DISCOVER at the same instant, with and without a common suggestion, pools larger/smaller '
         'than the burst, then all REQUEST at once: one OFFER/ACK each, pairwise distinct); 40/1000 rounds of 3-12 goroutines calling OfferIP/UpdateClient/'
         'Lookup concurrently; the same tests under the Go race detector (thorough, and a subset in quick).')
PROPS['C09']['trusted'] = PROPS['C09']['trusted'] + ['the Go race detector (go1.26.8 -race) reports races only on the schedules it happens to see',
                                                      'real-time bursts depend on the scheduler: margins of 0.7 s per client are left for each 0.6 s probe']

PROPS['C19'] = dict(
    tests=['TestC19ServerHistories', 'TestC19ServerFaults', 'TestC19ServerCancel', 'TestC19ClientCancel', 'TestC19ClientHistories',
           'TestC19ClientFaults', 'TestC19ClientLimiter'],
    monitor_tags=set(),
    panic_is_violation=set(),
    rule='real server and client under testing/synctest on the counting in-memory sockets. (i) 150 / 4000 sequential server histories (generator of the '
         'server checks: 3-27 packets, ARP responders, gaps up to 3 leases): after every packet opens = closes + 1 = 1 + sum(2 x probes + replies) with the '
         'probes read off the ARP request frames, goroutines at baseline; after cancel opens = closes, goroutines at the pre-start baseline; the history '
         '(probes, replies per packet) is run through the Coq model (tag 1901: opens, closes, termination, double close, opens per socket kind). '
         '(ii) faults: the n-th open and, separately, the n-th write fails (n = 1..17) during a DISCOVER+REQUEST exchange, then a second client must get OFFER+ACK; '
         'dclient.sendMessage (broadcast / unicast with 5 unanswered Pings) with the n-th open/write failing (n = 1..12): DHCP-socket errors returned at once, ARP-socket '
         'errors absorbed; catchReply with a failing open; the whole client with the n-th open/write failing (n = 1..16). (iii) cancel at 200 / 5000 random virtual '
         'instants of a running server (idle, inside the reply delay, inside probes, after the reply) and of dclient.Run against a scripted responder '
         '(normal, silent, NAK / silence on renewal, address conflict and SetIface failure -> panicReset, unanswered ARP, 2 h lease): virtual time cancel -> return '
         'must be 0, sockets balanced, goroutines back at baseline. 40 / 600 client lives of 1-400 s counted by the model (tag 1902). One limiter scenario (F11) '
         'whose delay is recorded, not judged. Non-trivial = at least one socket beyond the first; distinct by full case line.',
    trusted=['lib/arpping/arpping.go, lib/server/{run,utils,netio}.go (socket use), lib/client/dclient/{netio,dclient,sysstates,dhcpstates}.go are modelled by hand as '
             'processes in coq/model/Res.v; tools/gofacts checks that the Close calls / closer goroutines / deferred cancels are where the model has them',
             'lib/rsocks/vnet_verif.go counts opens and closes (a second Close of the same socket returns an error and is not counted: double closes are excluded by the theorem, not observed)',
             'goroutine accounting is by runtime.NumGoroutine() at virtual-time quiescence (a leaked goroutine compensated by a missing one would not be seen)',
             'the model-evaluated counts use straight-line programs assembled from the same Ping/sendUnicast/exchange blocks for the observed number of probes and replies; '
             'the general handler programs are tied to them by the count lemmas only'],
    assumptions=['virtual time stands for wall-clock time', 'a timer and ctx.Done() becoming ready at the same instant is resolved in favour of Done in the bound (Go picks at random; the loop then runs once more)',
                 'descriptor leaks inside the real lib/rsocks are outside every check (PARTIAL)'],
    timeout={'quick': 900, 'thorough': 7200},
)
