#!/usr/bin/env python3
"""dump_server_case.py <cases file> <line no> [codes csv]  - human readable view of one server history"""
import sys, struct
def ip(v): return '.'.join(str((v>>s)&255) for s in (24,16,8,0))
def parse(s):
    if s.startswith('x'): return bytes.fromhex(s[1:])
    return [int(x) for x in s.split(',')] if s else []
def dhcp(p):
    if len(p)<28: return 'short(%d)'%len(p)
    ihl=(p[0]&15)*4; proto=p[9]; src=struct.unpack('>I',p[12:16])[0]; dst=struct.unpack('>I',p[16:20])[0]
    u=p[ihl:]
    if len(u)<8: return 'ip proto=%d short udp'%proto
    sp,dp=struct.unpack('>HH',u[:4]); d=u[8:]
    if len(d)<240: return 'proto=%d %s:%d>%s:%d short dhcp(%d)'%(proto,ip(src),sp,ip(dst),dp,len(d))
    op,ht,hl=d[0],d[1],d[2]; xid=struct.unpack('>I',d[4:8])[0]; fl=struct.unpack('>H',d[10:12])[0]
    ci,yi=struct.unpack('>II',d[12:20]); mac=d[28:28+min(hl,16)].hex()
    o=[];i=240
    while i<len(d):
        c=d[i];i+=1
        if c==0: continue
        if c==255: o.append('END');break
        if i>=len(d): o.append('TRUNC');break
        l=d[i];i+=1; v=d[i:i+l];i+=l
        if c in(50,54) and l==4: o.append('%d=%s'%(c,ip(struct.unpack('>I',v)[0])))
        elif c==53 and l==1: o.append('type=%d'%v[0])
        else: o.append('%d=%s'%(c,v.hex()))
    return 'proto=%d %s:%d>%s:%d op=%d hlen=%d xid=%08x fl=%04x ci=%s yi=%s mac=%s [%s]'%(proto,ip(src),sp,ip(dst),dp,op,hl,xid,fl,ip(ci),ip(yi),mac,' '.join(o))
line=open(sys.argv[1]).read().splitlines()[int(sys.argv[2])-1]
tags,a,outs=line.split('|')
L=[parse(x) for x in a.split(';')]
codes=[int(x) for x in sys.argv[3].split(',')] if len(sys.argv)>3 else None
cfg=L[0]; print('self',ip(cfg[0]),'lease',cfg[1]/1e9,'net',ip(cfg[2]),ip(cfg[3]),'range',ip(cfg[5]),'-',ip(cfg[6]),'static_only',cfg[7],'selfmac',L[1].hex())
i=2; ns=L[i][0]; i+=1
for _ in range(ns): print(' static',L[i].hex(),ip(L[i+1][0])); i+=2
nt=L[i][0]; i+=1
for _ in range(nt):
    mac=L[i]; c=L[i+1][0]; i+=2+2*c
c=L[i][0]; i+=1+2*c
nr=L[i][0]; i+=1
for r in range(nr):
    h=L[i]; pkt=L[i+1]; i+=2
    print('--- round',r,'t=%.3f tq=%.3f'%(h[0]/1e9,h[1]/1e9),'code',codes[r] if codes else '')
    print('   IN ',dhcp(pkt))
    for _ in range(h[3]): print('   ARP',ip(L[i][0]),'delay %.3f'%(L[i][1]/1e9),L[i+1].hex()); i+=2
    for _ in range(h[4]): print('   OUT t=%.3f eth=%s %s'%(L[i][0]/1e9,L[i+1].hex(),dhcp(L[i+2]))); i+=3
    for _ in range(h[5]):
        e=L[i]; print('   SNAP',ip(e[0]),'until=%.3f'%((-1 if e[3] else 1)*e[1]/1e9),'perm' if e[2] else '',L[i+1].hex()); i+=2
