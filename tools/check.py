#!/usr/bin/env python3
"""check.py <property> [quick|thorough] [--replay FILE]

Decides one property of /verif/properties.jsonl on the current /repo working tree:
  1. regenerate coq/gen/GoFacts.v from /repo, rebuild models + extraction + driver,
     compile Properties/<id>.v (the proof obligations) and read its Print Assumptions;
  2. rebuild the Go harness from /repo (-tags verif) and run the property's generators
     on the real code -> observation (case) files;
  3. run the extracted Coq model + the Coq monitors on every case;
  4. report: monitor failure / panic on the implementation -> VIOLATION with the case
     as replay; model/implementation disagreement or broken proof -> search further
     seeds for a failing input, then VIOLATION (with no-failing-input-found if none).
Exit 0 = held, 1 = violation, 2 = infrastructure error (never a VIOLATION line).
"""
import sys, os, json, time, subprocess, hashlib, fcntl, re, shutil, glob

VERIF = os.path.dirname(os.path.dirname(os.path.abspath(__file__)))
REPO = os.environ.get('VERIF_REPO', '/repo')
WORK = os.path.join(VERIF, 'work')
COQ = os.path.join(VERIF, 'coq')
sys.path.insert(0, os.path.join(VERIF, 'tools'))
from props import PROPS, TRUSTED_COMMON  # noqa: E402

GOENV = dict(os.environ, GOFLAGS='-mod=mod', GOPROXY='off', GOSUMDB='off', GOTOOLCHAIN='local',
             GOCACHE=os.environ.get('GOCACHE', os.path.join(WORK, 'gocache')))


def log(*a):
    print(*a, file=sys.stderr, flush=True)


def run(cmd, timeout, cwd=None, env=None, stdin=None):
    try:
        p = subprocess.run(cmd, cwd=cwd, env=env, stdin=stdin, stdout=subprocess.PIPE, stderr=subprocess.STDOUT,
                           timeout=timeout, text=True, errors='replace')
        return p.returncode, p.stdout
    except subprocess.TimeoutExpired as e:
        out = e.stdout if isinstance(e.stdout, str) else (e.stdout or b'').decode(errors='replace')
        return 124, out + '\n[timeout]'


class Lock:
    def __init__(self, name):
        os.makedirs(WORK, exist_ok=True)
        self.path = os.path.join(WORK, name)

    def __enter__(self):
        self.f = open(self.path, 'w')
        fcntl.flock(self.f, fcntl.LOCK_EX)
        return self

    def __exit__(self, *a):
        fcntl.flock(self.f, fcntl.LOCK_UN)
        self.f.close()


def tree_hash():
    """hash of every Go-relevant file of the /repo working tree"""
    h = hashlib.sha256()
    for root, dirs, files in os.walk(REPO):
        dirs[:] = sorted(d for d in dirs if d != '.git')
        for fn in sorted(files):
            if fn.endswith(('.go', '.mod', '.sum')):
                p = os.path.join(root, fn)
                h.update(p.encode())
                with open(p, 'rb') as f:
                    h.update(hashlib.sha256(f.read()).digest())
    return h.hexdigest()[:16]


def newer(src_glob, target):
    if not os.path.exists(target):
        return True
    t = os.path.getmtime(target)
    return any(os.path.getmtime(p) > t for p in src_glob)


def build_models():
    """GoFacts + models + extraction + driver.  Returns (ok, text)."""
    with Lock('coq.lock'):
        rc, out = run([sys.executable, os.path.join(VERIF, 'tools', 'gofacts.py'), REPO,
                       os.path.join(COQ, 'gen', 'GoFacts.v')], 120)
        if rc != 0:
            return False, 'gofacts failed:\n' + out
        if not os.path.exists(os.path.join(COQ, 'Makefile')):
            rc, out = run(['coq_makefile', '-f', '_CoqProject', '-o', 'Makefile'], 60, cwd=COQ)
            if rc != 0:
                return False, out
        models = sorted(glob.glob(os.path.join(COQ, 'model', '*.v')) + glob.glob(os.path.join(COQ, 'spec', '*.v')) +
                        glob.glob(os.path.join(COQ, 'gen', '*.v')))
        targets = [os.path.relpath(p, COQ) + 'o' for p in models]
        rc, out = run(['make', '-j16'] + targets, 1500, cwd=COQ)
        if rc != 0:
            return False, 'model build failed:\n' + out[-4000:]
        ml = os.path.join(VERIF, 'ocaml', 'model.ml')
        drv = os.path.join(VERIF, 'ocaml', 'driver')
        vos = [p + 'o' for p in models]
        if newer(vos, ml) or newer([ml, os.path.join(VERIF, 'ocaml', 'driver.ml')], drv):
            rc, out = run(['coqc', '-Q', '..', 'PSA', 'Extract.v'], 600, cwd=os.path.join(COQ, 'extract'))
            if rc != 0:
                return False, 'extraction failed:\n' + out[-4000:]
            for f in ('model.ml', 'model.mli'):
                shutil.copy(os.path.join(COQ, 'extract', f), os.path.join(VERIF, 'ocaml', f))
            rc, out = run(['ocamlfind', 'ocamlopt', '-O3', '-unboxed-types', 'model.mli', 'model.ml', 'driver.ml', '-o', 'driver'],
                          600, cwd=os.path.join(VERIF, 'ocaml'))
            if rc != 0:
                rc, out = run(['ocamlfind', 'ocamlopt', 'model.mli', 'model.ml', 'driver.ml', '-o', 'driver'],
                              600, cwd=os.path.join(VERIF, 'ocaml'))
            if rc != 0:
                return False, 'driver build failed:\n' + out[-4000:]
    return True, ''


def build_proofs(pid):
    """compile Properties/<pid>.v; returns dict(ok, theorems, assumptions, log)"""
    src = os.path.join(COQ, 'Properties', pid + '.v')
    res = dict(ok=False, theorems=[], assumptions=[], log='', axioms=[])
    if not os.path.exists(src):
        res['log'] = 'no Properties/%s.v' % pid
        return res
    text = open(src).read()
    res['theorems'] = re.findall(r'^\s*(?:Theorem|Example)\s+(\w+)', text, re.M)
    with Lock('coq.lock'):
        rc, out = run(['make', '-j16', 'Properties/%s.vo' % pid], 3000, cwd=COQ)
        if rc == 0:
            # re-run the property file itself so that its Print Assumptions output is this run's
            rc, out = run(['coqc', '-Q', '.', 'PSA', 'Properties/%s.v' % pid], 1200, cwd=COQ)
    res['log'] = out[-6000:]
    if rc != 0:
        m = re.search(r'File "\./?([^"]+)", line (\d+)', out)
        res['broken_at'] = '%s:%s' % (m.group(1), m.group(2)) if m else 'unknown'
        return res
    res['ok'] = True
    closed = out.count('Closed under the global context')
    ax = re.findall(r'^Axioms:\n((?:.+\n)+)', out, re.M)
    res['closed'] = closed
    res['axioms'] = sorted(set(l.split(':')[0].strip() for blk in ax for l in blk.splitlines() if l and not l.startswith(' ')))
    return res


def build_harness(race=False):
    os.makedirs(os.path.join(WORK, 'bin'), exist_ok=True)
    with Lock('go.lock'):
        th = tree_hash()
        hh = hashlib.sha256()
        for p in sorted(glob.glob(os.path.join(VERIF, 'harness', '*'))):
            if os.path.isfile(p):
                hh.update(open(p, 'rb').read())
        hh.update(REPO.encode())
        key = th + '-' + hh.hexdigest()[:12]
        binp = os.path.join(WORK, 'bin', 'harness-%s%s.test' % (key, '-race' if race else ''))
        if os.path.exists(binp):
            os.utime(binp)
            return True, binp, ''
        for old in glob.glob(os.path.join(WORK, 'bin', 'harness-*.test')):
            if time.time() - os.path.getmtime(old) > 6 * 3600:   # a long thorough run may still be using an older one
                os.remove(old)
        shutil.copy(os.path.join(REPO, 'go.sum'), os.path.join(VERIF, 'harness', 'go.sum'))
        gm = os.path.join(VERIF, 'harness', 'go.mod')
        want = open(gm).read()
        want = re.sub(r'(replace git\.sr\.ht/~adrian-blx/psa-dhcp => ).*', r'\g<1>' + REPO, want)
        if want != open(gm).read():
            open(gm, 'w').write(want)
        rc, out = run(['go1.26.8', 'test', '-c'] + (['-race'] if race else []) + ['-tags', 'verif', '-o', binp + '.tmp', '.'], 1800,
                      cwd=os.path.join(VERIF, 'harness'), env=GOENV)
        if rc != 0:
            return False, None, out[-6000:]
        os.replace(binp + '.tmp', binp)
        return True, binp, ''


RETRIED = []


def run_generators(binp, prop, outdir, seed, tier, extra_env=None):
    env = dict(GOENV, VERIF_OUT=outdir, VERIF_SEED=str(seed), VERIF_TIER=tier, VERIF_REPO=REPO, VERIF_CORPUS=os.path.join(VERIF, 'corpus'),
               VERIF_E2E_CACHE=os.path.join(WORK, 'e2e-cache'))
    env.update(prop.get('env', {}))
    if extra_env:
        env.update(extra_env)
    os.makedirs(outdir, exist_ok=True)
    tests = list(prop['tests'])
    if glob.glob(os.path.join(VERIF, 'corpus', prop['id'], '*.case')):
        tests.append('TestCorpus')
        env['VERIF_PROP'] = prop['id']
        env['VERIF_CORPUS'] = os.path.join(VERIF, 'corpus')
    pat = '^(' + '|'.join(tests) + ')$'
    to = prop.get('timeout', {}).get(tier, 600 if tier == 'quick' else 7200)
    rc, out = run([binp, '-test.run', pat, '-test.timeout', '%ds' % to, '-test.count', '1'], to + 30, cwd=outdir, env=env)
    if rc != 0 and ('test timed out' in out or rc == 124):
        # a run that never ends: keep the goroutine dump and try once more.  Twice in a row is reported (harness failure ->
        # VIOLATION); once only is recorded in the evidence as a retried run (a virtual-clock bubble that stops advancing
        # was seen once in 25 thorough sweeps and could not be reproduced; see DESIGN.md 11.7)
        os.makedirs(os.path.join(WORK, 'hangs'), exist_ok=True)
        hp = os.path.join(WORK, 'hangs', '%s-%s-%d.txt' % (prop['id'], tier, int(time.time())))
        with open(hp, 'w') as f:
            f.write(out)
        log('harness run timed out after %d s; output kept in %s; running it once more' % (to, hp))
        for cf in glob.glob(os.path.join(outdir, '*')):
            if os.path.isfile(cf):
                os.remove(cf)
        rc, out = run([binp, '-test.run', pat, '-test.timeout', '%ds' % to, '-test.count', '1'], to + 30, cwd=outdir, env=env)
        RETRIED.append(hp)
    return rc, out


def run_driver(casefile, shards=8):
    """returns (cases, mismatches[list of dict], tagcounts)"""
    drv = os.path.join(VERIF, 'ocaml', 'driver')
    lines = open(casefile, 'rb').read().splitlines(keepends=True)
    n = len(lines)
    shards = max(1, min(shards, n // 200 + 1))
    procs = []
    for s in range(shards):
        part = lines[s::shards]
        p = subprocess.Popen([drv], stdin=subprocess.PIPE, stdout=subprocess.PIPE)
        procs.append((s, p, part))
    import threading
    outs = {}

    def feed(s, p, part):
        o, _ = p.communicate(b''.join(part))
        outs[s] = o.decode(errors='replace')
    ths = [threading.Thread(target=feed, args=a) for a in procs]
    [t.start() for t in ths]
    [t.join() for t in ths]
    cases = 0
    mism = []
    tags = {}
    for s in range(shards):
        for l in outs[s].splitlines():
            if l.startswith('MISMATCH') or l.startswith('BADLINE'):
                m = re.match(r'MISMATCH line=(\d+) tag=(\d+) model=(\S*) impl=(\S*)', l)
                if m:
                    li = (int(m.group(1)) - 1) * shards + s
                    mism.append(dict(line=li + 1, tag=int(m.group(2)), model=m.group(3)[:2000], impl=m.group(4)[:2000],
                                     case=lines[li].decode(errors='replace').strip(), file=casefile))
                else:
                    mism.append(dict(line=0, tag=0, model='', impl='', case=l, file=casefile))
            elif l.startswith('TAG'):
                _, t, c = l.split()
                tags[int(t)] = tags.get(int(t), 0) + int(c)
            elif l.startswith('SUMMARY'):
                cases += int(re.search(r'cases=(\d+)', l).group(1))
        if not outs[s].strip().endswith(tuple('0123456789')) or 'SUMMARY' not in outs[s]:
            mism.append(dict(line=0, tag=0, model='', impl='', case='driver crashed on shard %d: %s' % (s, outs[s][-300:]), file=casefile))
    return cases, mism, tags


def coq_term(lists):
    return '[' + '; '.join('[' + '; '.join(str(x) for x in l) + ']' for l in lists) + ']'


def parse_ll(s):
    if s == '':
        return []
    out = []
    for part in s.split(';'):
        if part.startswith('x'):
            b = bytes.fromhex(part[1:])
            out.append(list(b))
        elif part == '':
            out.append([])
        else:
            out.append([int(x) for x in part.split(',')])
    return out


def kernel_crosscheck(outdir, pid, limit=150):
    """thorough tier: re-evaluate a sample of the cases with vm_compute inside Coq (cross-checks the extraction)"""
    import random
    rnd = random.Random(12345)
    picked = []
    for cf in sorted(glob.glob(os.path.join(outdir, '*.cases'))):
        lines = [l for l in open(cf, errors='replace').read().splitlines() if l and not l.startswith('#') and len(l) < 6000]
        rnd.shuffle(lines)
        picked += lines[:max(10, limit // 4)]
    picked = picked[:limit]
    if not picked:
        return dict(evaluated=0, mismatches=0)
    items = []
    for l in picked:
        tags, a, outs = l.split('|')
        for t, o in zip(tags.split('+'), outs.split('/')):
            items.append('(%s, %s, %s)' % (t, coq_term(parse_ll(a)), coq_term(parse_ll(o))))
    src = ['From Coq Require Import List NArith.', 'Import ListNotations.', 'From PSA Require Import model.Bytes model.Dispatch.', 'Open Scope N_scope.',
           'Fixpoint l_eqb (a b : list N) : bool := match a, b with [], [] => true | x :: a0, y :: b0 => (x =? y) && l_eqb a0 b0 | _, _ => false end.',
           'Fixpoint ll_eqb (a b : list (list N)) : bool := match a, b with [], [] => true | x :: a0, y :: b0 => l_eqb x y && ll_eqb a0 b0 | _, _ => false end.',
           'Definition cases : list (N * list (list N) * list (list N)) := [', ';\n'.join(items), '].',
           'Definition nbad := Eval vm_compute in length (filter (fun c => negb (ll_eqb (dispatch (fst (fst c)) (snd (fst c))) (snd c))) cases).',
           'Print nbad.']
    kd = os.path.join(WORK, 'kernel-%s-%d' % (pid, os.getpid()))
    os.makedirs(kd, exist_ok=True)
    open(os.path.join(kd, 'KCases.v'), 'w').write('\n'.join(src))
    rc, out = run(['coqc', '-Q', COQ, 'PSA', 'KCases.v'], 1800, cwd=kd)
    m = re.search(r'nbad\s*=\s*(\d+)', out)
    shutil.rmtree(kd, ignore_errors=True)
    if rc != 0 or not m:
        return dict(evaluated=len(items), mismatches=-1, error=out[-500:])
    return dict(evaluated=len(items), mismatches=int(m.group(1)))


def coqchk_once(pid):
    """thorough tier: independent re-check of the compiled property file and everything it depends on; cached by .vo hash"""
    h = hashlib.sha256()
    for p in sorted(glob.glob(os.path.join(COQ, '*', '*.vo'))):
        h.update(open(p, 'rb').read())
    key = h.hexdigest()[:16]
    cache = os.path.join(WORK, 'coqchk-%s-%s.txt' % (pid, key))
    if os.path.exists(cache):
        return open(cache).read()
    rc, out = run(['coqchk', '-silent', '-o', '-Q', COQ, 'PSA', 'PSA.Properties.%s' % pid], 5400)
    txt = 'rc=%d\n%s' % (rc, out[-3000:])
    open(cache, 'w').write(txt)
    return txt


def load_known():
    p = os.path.join(VERIF, 'known_findings.json')
    if not os.path.exists(p):
        return []
    return json.load(open(p)).get('findings', [])


def match_known(pid, v, known):
    for k in known:
        if k.get('status') != 'known' or k.get('property') != pid:
            continue
        sig = k.get('signature', {})
        if 'tag' in sig and sig['tag'] != v.get('tag'):
            continue
        if 'case_regex' in sig and not re.search(sig['case_regex'], v.get('case', '')):
            continue
        if 'kind_regex' in sig and not re.search(sig['kind_regex'], v.get('kind', '')):
            continue
        return k
    return None


def evaluate(prop, outdir):
    """run the driver over every case file of the run; split mismatches into monitor failures,
    implementation panics and model disagreements"""
    total = 0
    tags = {}
    monitor, corr = [], []
    metas = {}
    for cf in sorted(glob.glob(os.path.join(outdir, '*.cases'))):
        if prop.get('case_files') is not None and os.path.basename(cf)[:-6] not in prop['case_files'] and os.path.basename(cf) != 'corpus.cases':
            continue
        if os.path.basename(cf)[:-6] in prop.get('case_exclude', ()):
            continue
        c, mism, tg = run_driver(cf)
        total += c
        for t, n in tg.items():
            tags[t] = tags.get(t, 0) + n
        for m in mism:
            if m['tag'] in prop.get('monitor_tags', ()) or m['tag'] in prop.get('spec_equal_tags', ()) or (m['impl'] == '2' and m['tag'] in prop.get('panic_is_violation', ())):
                monitor.append(m)
            else:
                corr.append(m)
        mp = cf[:-6] + '.meta.json'
        if os.path.exists(mp):
            metas[os.path.basename(cf)[:-6]] = json.load(open(mp))
    def direct_wanted(name):
        if prop.get('direct_files') is not None:
            return name in prop['direct_files']
        pre = prop.get('direct_exclude_prefix')
        return not (pre and name.startswith(pre) and name not in prop.get('direct_include', ()))
    for dp in sorted(glob.glob(os.path.join(outdir, '*.direct.json'))):
        if not direct_wanted(os.path.basename(dp)[:-12]):
            continue
        dm = json.load(open(dp))
        total += int(dm.get('cases', 0))
        metas[os.path.basename(dp)[:-12]] = dm
    viol_files = sorted(glob.glob(os.path.join(outdir, '*.violations.json')))
    direct = []
    for vf in viol_files:
        if not direct_wanted(os.path.basename(vf)[:-16]) and os.path.basename(vf) != 'race.violations.json':
            continue
        direct += json.load(open(vf))
    return dict(total=total, tags=tags, monitor=monitor, corr=corr, metas=metas, direct=direct)


def write_replay(pid, kind, payload):
    d = os.path.join(WORK, 'replays')
    os.makedirs(d, exist_ok=True)
    h = hashlib.sha256(json.dumps(payload, sort_keys=True, default=str).encode()).hexdigest()[:10]
    p = os.path.join(d, '%s-%s-%s.json' % (pid, kind, h))
    with open(p, 'w') as f:
        json.dump(payload, f, indent=1, default=str)
    return p


def main():
    argv = sys.argv[1:]
    if not argv:
        print(__doc__)
        return 2
    pid = argv[0]
    tier = os.environ.get('VERIF_TIER', 'quick')
    replay = None
    i = 1
    while i < len(argv):
        if argv[i] in ('quick', 'thorough'):
            tier = argv[i]
        elif argv[i] == '--replay':
            replay = argv[i + 1]
            i += 1
        i += 1
    seed = int(os.environ.get('VERIF_SEED', '1'))
    prop = dict(PROPS[pid], id=pid)
    t0 = time.time()
    # evidence describes /repo; a run against a scratch copy (VERIF_REPO, used to try seeded changes) keeps its record under work/
    evdir = os.path.join(VERIF, 'evidence') if os.path.realpath(REPO) == '/repo' else os.path.join(WORK, 'evidence-scratch')
    os.makedirs(evdir, exist_ok=True)
    evp = os.path.join(evdir, pid + '.json')

    if replay:
        rp = json.load(open(replay))
        seed = rp.get('seed', seed)
        tier = rp.get('tier', tier)
        log('replaying seed=%s tier=%s: %s' % (seed, tier, rp.get('what', '')))

    ok, txt = build_models()
    if not ok:
        log(txt)
        return 2
    proofs = build_proofs(pid)
    ok, binp, txt = build_harness()
    if not ok:
        log('harness build failed against the current /repo tree:\n' + txt)
        if re.search(r'_test\.go:\d+:\d+: ', txt) and os.path.exists(os.path.join(REPO, 'go.mod')):
            # the tree compiles for itself but no longer offers what the harness calls (an exported function, a hook, a type
            # changed shape): the tie between model and code cannot be established, so nothing shows that the property holds.
            # Reported like any other broken correspondence for which no failing input was found.
            rp = write_replay(pid, 'unproved', dict(property=pid, seed=seed, tier=tier, what='property no longer shown to hold',
                                                    broken=[dict(kind='correspondence', what='the harness does not compile against the current tree '
                                                                 '(the code under test changed an interface the correspondence check calls)', log=txt[-3000:])]))
            print('VIOLATION property=%s replay=%s no-failing-input-found' % (pid, rp))
            return 1
        return 2

    outdir = os.path.join(WORK, 'run', '%s-%d' % (pid, os.getpid()))
    shutil.rmtree(outdir, ignore_errors=True)
    rc, gout = run_generators(binp, prop, outdir, seed, tier)
    if rc != 0 and not glob.glob(os.path.join(outdir, '*.cases')):
        log('harness run failed (rc=%d):\n%s' % (rc, gout[-6000:]))
        shutil.rmtree(outdir, ignore_errors=True)
        return 2
    race_note = None
    if prop.get('race'):
        okr, rbin, rtxt = build_harness(race=True)
        if okr:
            rdir = outdir + '-race'
            rprop = dict(prop, tests=prop.get('race_tests', ['TestC09Burst', 'TestC09ConcurrentDB', 'TestServerHistories']))
            rrc, rout = run_generators(rbin, rprop, rdir, seed, tier, extra_env={'VERIF_RACE': '1'})
            nraces = rout.count('WARNING: DATA RACE')
            race_note = dict(races=nraces, rc=rrc)
            if nraces or rrc != 0:
                os.makedirs(outdir, exist_ok=True)
                i0 = rout.find('WARNING: DATA RACE')
                with open(os.path.join(outdir, 'race.violations.json'), 'w') as f:
                    json.dump([dict(tag=0, kind='data-race' if nraces else 'race-run-failed', case=rout[max(i0, 0):max(i0, 0) + 4000] if nraces else rout[-3000:])], f)
            shutil.rmtree(rdir, ignore_errors=True)
        else:
            log('race build failed:\n' + rtxt)
            return 2
    ev = evaluate(prop, outdir)
    harness_fail = rc != 0
    # Observations made in real time on the real kernel (end-to-end run, hook scripts as child processes) depend on the scheduler of
    # a machine that may be busy: such an observation counts only if it repeats in an immediate second run of that test (without the
    # result cache).  A change of the code fails both runs; a late shell or a lost frame does not.  What was dropped is recorded.
    realtime = re.compile(r'^(e2e-|c15-hook|c19-hook)')
    rt = [d for d in ev['direct'] if realtime.match(str(d.get('kind', '')))]
    unconfirmed = []
    if rt and not harness_fail:
        again = set()
        for d in rt:
            k = str(d.get('kind', ''))
            again.add('TestE2E' if k.startswith('e2e-') else 'TestC15Hook' if k.startswith('c15-hook') else 'TestC19Hook')
        again &= set(prop['tests'])
        if again:
            od = outdir + '-confirm'
            run_generators(binp, dict(prop, tests=sorted(again)), od, seed, tier, extra_env={'VERIF_E2E_CACHE': ''})
            ev2 = evaluate(prop, od)
            shutil.rmtree(od, ignore_errors=True)
            kinds2 = set(str(d.get('kind', '')) for d in ev2['direct'])
            unconfirmed = [d for d in rt if str(d.get('kind', '')) not in kinds2]
            if unconfirmed:
                ev['direct'] = [d for d in ev['direct'] if d not in unconfirmed]
                shutil.rmtree(os.path.join(WORK, 'e2e-cache'), ignore_errors=True)   # do not hand the one-off result to the next check
                log('real-time observation(s) not confirmed by a second run, dropped: ' + '; '.join(sorted(set(str(d.get('kind')) for d in unconfirmed))))
    kernel = chk = None
    if tier == 'thorough':
        kernel = kernel_crosscheck(outdir, pid)
        if kernel.get('mismatches'):
            os.makedirs(outdir, exist_ok=True)
            ev['direct'].append(dict(tag=0, kind='extraction-vs-kernel', case='vm_compute inside Coq disagrees with the extracted OCaml model on %s sampled cases: %s' % (kernel.get('mismatches'), kernel.get('error', ''))))
        if os.environ.get('VERIF_COQCHK', '1') != '0':
            chk = coqchk_once(pid)
    known = load_known()

    violations = []     # (kind, dict)
    for m in ev['monitor']:
        violations.append(('monitor', m))
    for d in ev['direct']:
        violations.append(('direct', d))
    if harness_fail:
        violations.append(('harness', dict(tag=0, case='harness test failed: ' + gout[-20000:], kind='harness-failure')))

    broken = []
    if not proofs['ok']:
        broken.append(dict(kind='proof', what='proof obligation no longer checks: ' + proofs.get('broken_at', '?'),
                           log=proofs['log'][-3000:]))
    if ev['corr']:
        broken.append(dict(kind='correspondence', what='model and implementation disagree on %d case(s)' % len(ev['corr']),
                           cases=ev['corr'][:5]))

    searched = 0
    if broken and not violations:
        # search: more seeds of the same generators, looking for a monitor failure on the implementation
        budget = 30 if tier == 'quick' else 600
        ts = time.time()
        s2 = seed
        while time.time() - ts < budget:
            s2 += 7919
            od = outdir + '-s%d' % s2
            rc2, _ = run_generators(binp, prop, od, s2, 'quick')
            ev2 = evaluate(prop, od)
            searched += ev2['total']
            shutil.rmtree(od, ignore_errors=True)
            if ev2['monitor'] or ev2['direct']:
                for m in ev2['monitor']:
                    m['seed'] = s2
                    violations.append(('monitor', m))
                for d in ev2['direct']:
                    d['seed'] = s2
                    violations.append(('direct', d))
                break

    out_lines = []
    nviol = 0
    seen_known = set()
    reported = set()
    for kind, v in violations:
        k = match_known(pid, v, known)
        if k:
            if k['id'] not in seen_known:
                seen_known.add(k['id'])
                out_lines.append('KNOWN-FINDING: property=%s %s (%s)' % (pid, k.get('what', ''), k['id']))
            continue
        key = (v.get('tag'), v.get('kind', ''), v.get('case', '')[:200])
        if key in reported or nviol >= 5:
            nviol += 0 if key in reported else 1
            continue
        reported.add(key)
        nviol += 1
        rp = write_replay(pid, kind, dict(property=pid, seed=v.get('seed', seed), tier=tier, what=kind + ' failure on the implementation',
                                          violation=v, replay_cmd='tools/check.py %s --replay <this file>' % pid))
        out_lines.append('VIOLATION property=%s replay=%s' % (pid, rp))
        out_lines.append('  (%s tag=%s: %s)' % (v.get('kind', kind), v.get('tag'), ' '.join(str(v.get('case', ''))[:400].split())))
    if broken and nviol == 0 and not seen_known:
        rp = write_replay(pid, 'unproved', dict(property=pid, seed=seed, tier=tier, what='property no longer shown to hold',
                                                broken=broken, searched_cases=searched))
        out_lines.append('VIOLATION property=%s replay=%s no-failing-input-found' % (pid, rp))
        nviol += 1
    elif broken and nviol == 0 and seen_known:
        # disagreement explained only partly by known findings: still report what is broken
        unexplained = [b for b in broken if b['kind'] == 'proof']
        if unexplained:
            rp = write_replay(pid, 'unproved', dict(property=pid, seed=seed, tier=tier, broken=unexplained))
            out_lines.append('VIOLATION property=%s replay=%s no-failing-input-found' % (pid, rp))
            nviol += 1

    # evidence
    metas = ev['metas']
    samples = []
    hist = {}
    dn = 0
    for name, m in metas.items():
        samples += (m.get('samples') or [])[:4]
        dn += m.get('distinct_nontrivial', 0)
        for k, c in (m.get('histogram') or {}).items():
            hist[name + ':' + k] = c
    nthm = len(proofs['theorems'])
    coverage = dict(
        obligations=max(nthm, 1), discharged=(nthm if proofs['ok'] else 0),
        checker_cmd='make -C /verif/coq Properties/%s.vo && coqc -Q . PSA Properties/%s.v (Coq 8.16.1 kernel; Print Assumptions after every theorem)' % (pid, pid),
        trusted_base=TRUSTED_COMMON + prop.get('trusted', []) +
        (['Print Assumptions: all %d theorems closed under the global context (no axioms)' % proofs.get('closed', 0)]
         if proofs['ok'] and not proofs['axioms'] else ['axioms reported by Print Assumptions: ' + ', '.join(proofs['axioms'])] if proofs['ok'] else ['proof build failed']),
        theorems=proofs['theorems'],
        evaluations=ev['total'], distinct_nontrivial=dn,
        traces_validated_against_impl=ev['total'] - len(ev['corr']),
        rule=prop.get('rule', ''), samples=samples[:10] or ['(no cases)'],
        input_distribution=hist, model_tags=ev['tags'],
        correspondence_mismatches=len(ev['corr']), monitor_failures=len(ev['monitor']) + len(ev['direct']),
        search_cases=searched, proof_ok=proofs['ok'], race_detector=race_note, kernel_crosscheck=kernel, coqchk=chk,
    )
    if RETRIED:
        coverage['retried_after_timeout'] = RETRIED
    if unconfirmed:
        coverage['realtime_observations_not_confirmed_by_second_run'] = [dict(kind=d.get('kind'), case=str(d.get('case', ''))[:300]) for d in unconfirmed]
    evidence = dict(property_id=pid, tier=tier, seed=seed, level=prop.get('level', 'proof'), coverage=coverage,
                    assumptions=prop.get('assumptions', []), wall_s=round(time.time() - t0, 2), violations=nviol)
    with open(evp, 'w') as f:
        json.dump(evidence, f, indent=1)
    if os.environ.get('VERIF_KEEP'):      # debugging aid: keep the case files of this run
        log('case files kept in ' + outdir)
    else:
        shutil.rmtree(outdir, ignore_errors=True)
    for l in out_lines:
        print(l)
    print('%s %s: cases=%d corr_mismatch=%d monitor_fail=%d proofs=%s wall=%.1fs' % (
        pid, tier, ev['total'], len(ev['corr']), len(ev['monitor']) + len(ev['direct']), 'ok' if proofs['ok'] else 'BROKEN', time.time() - t0))
    return 1 if nviol else 0


if __name__ == '__main__':
    sys.exit(main())
