#!/usr/bin/env python3
import json, sys
pid, wt, n = sys.argv[1], sys.argv[2], sys.argv[3]
for l in open('/verif/properties.jsonl'):
    p = json.loads(l)
    if p['id'] == pid:
        t = open('/verif/tools/mutant_prompt.txt').read()
        print(t.format(wt=wt, pid=pid, title=p['title'], statement=p['statement'], quant=p['quantifier']['text'], n=n))
