#!/bin/bash
cd /verif
export GOFLAGS=-mod=mod GOPROXY=off GOSUMDB=off GOTOOLCHAIN=local
(cd harness && go1.26.8 test -c -tags verif -o ../work/dbg15/h.test . ) || exit 1
rm -f work/dbg15/*.cases work/dbg15/*.json
VERIF_OUT=work/dbg15 work/dbg15/h.test -test.run '^TestC15$' >/dev/null
ocaml/driver < work/dbg15/c15.cases | grep -c MISMATCH
python3 -c "
import json; v=json.load(open('/verif/work/dbg15/c16timing.violations.json')); print('timing violations', len(v))"
