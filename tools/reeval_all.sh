#!/bin/bash
# reeval_all.sh [glob]: run every stored seeded change against the check of the property it names (private copy; one at a time)
cd /verif
for d in seeded/${1:-*}; do
  k=$(basename $d)
  p=$(python3 -c "import json;m=json.load(open('$d/meta.json'));print(m.get('detected_by') or m['property'].split()[0].strip(','))")
  echo "=== $k property=$p"
  python3 tools/try_patch.py $d/patch.diff $p 2>&1 | tail -1
done
