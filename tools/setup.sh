#!/bin/bash
# One-time build after a fresh restore (offline): Coq development (full .vo build), forbidden-vernacular
# scan, extraction, OCaml driver, Go harness (warms the Go build cache).
set -e
cd "$(dirname "$0")/.."
export GOFLAGS=-mod=mod GOPROXY=off GOSUMDB=off GOTOOLCHAIN=local GOCACHE=${GOCACHE:-$PWD/work/gocache}
mkdir -p work/bin evidence coq/gen
# 1. no axioms, no admits, no disabled checks anywhere in the development
if grep -rnE '\b(Admitted|admit|Axiom|Axioms|Parameter|Parameters|Conjecture|Hypothesis|Variable|Unset Guard|bypass_check|Admit Obligations|type-in-type|impredicative-set)\b' \
     --include='*.v' coq | grep -v 'coq/gen/' | grep -vE '^\S+:\s*\(\*' | grep -vE '^coq/proofs/\S+:[0-9]+:\s+(Variable|Hypothesis) ' ; then
  echo "forbidden vernacular found" >&2; exit 1
fi
# Variable/Hypothesis are allowed only inside Sections (checked: every such line sits between Section/End)
python3 tools/section_check.py coq
# 2. facts from /repo, then the whole development
python3 tools/gofacts.py ${VERIF_REPO:-/repo} coq/gen/GoFacts.v
(cd coq && coq_makefile -f _CoqProject -o Makefile >/dev/null && timeout 7200 make -j16 > ../work/coq-build.log 2>&1) || { tail -50 work/coq-build.log; exit 1; }
# 3. extraction + driver
(cd coq/extract && coqc -Q .. PSA Extract.v >/dev/null)
cp coq/extract/model.ml coq/extract/model.mli ocaml/
(cd ocaml && ocamlfind ocamlopt model.mli model.ml driver.ml -o driver 2>/dev/null)
# 4. harness (also warms the build cache)
cp ${VERIF_REPO:-/repo}/go.sum harness/go.sum
sed -i "s#^replace git.sr.ht/~adrian-blx/psa-dhcp => .*#replace git.sr.ht/~adrian-blx/psa-dhcp => ${VERIF_REPO:-/repo}#" harness/go.mod
(cd harness && go1.26.8 vet -tags verif . >/dev/null 2>&1 || true; go1.26.8 test -c -tags verif -o ../work/bin/harness-setup.test . )
rm -f work/bin/harness-setup.test
echo "setup ok"
