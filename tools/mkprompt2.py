#!/usr/bin/env python3
"""mkprompt2.py <group> <n> <prop,prop,...> : second-round prompt for a mutation sub-agent (property texts + summaries of earlier seeds of those properties)"""
import json, sys, glob, os
grp, n, pids = sys.argv[1], int(sys.argv[2]), sys.argv[3].split(',')
wt = '/tmp/mut-' + grp
props = {}
for l in open('/verif/properties.jsonl'):
    p = json.loads(l); props[p['id']] = p
prev = []
for d in sorted(glob.glob('/verif/seeded/*')):
    m = json.load(open(d + '/meta.json'))
    if m['property'].split()[0].strip(',') in pids:
        prev.append('  - ' + m['summary'][:220].replace('\n', ' '))
ptxt = ''
for pid in pids:
    p = props[pid]
    ptxt += '  %s - %s\n  %s\n  (quantification: %s)\n  (code: %s)\n\n' % (pid, p['title'], p['statement'], p['quantifier']['text'], ', '.join(p['anchors']['files']))
print(f'''You are helping to evaluate a verification framework by producing realistic, subtle bugs ("seeded changes").

Repository: a scratch git worktree of the Go project psa-dhcp (a small DHCPv4 client and server) at {wt} .
Work ONLY inside {wt} . Do not read or touch /verif or /repo. Do not commit anything. Do NOT use `git stash`; to go back to clean source use `git checkout -- lib cmd`.

Environment (no network): run Go commands with
  export GOFLAGS=-mod=mod GOPROXY=off GOSUMDB=off
The existing test suite is run with:  cd {wt} && go test -vet=off -count=1 ./lib/...
(`go build ./...` fails on clean source because cmd/ holds two main files; build with `go build ./lib/...`.)
The repository contains test scaffolding guarded by the build tag "verif" (files *_verif.go: in-memory replacements for the raw sockets in lib/rsocks/vnet_verif.go - a virtual Ethernet segment per interface name with Inject/Frames/OnSend and FailOpen/FailWrite hooks -, a recording fake of lib/libif (libif.VerifFake(name): .Addr, .Log(), .Fail hook), ifmon.VerifLinkUp(name), lib/server/export_verif.go (VerifHandleMsg, ...), lib/client/dclient/export_verif.go (VerifCatchReply / VerifSendMessage / VerifState)). Do not change those files. Your DEMONSTRATIONS may use them (build/run the demo with `-tags verif`). Server handlers ARP-probe for 3 x 200 ms, so server demos need real sleeps of about a second per exchange; keep each real-time demo under ~40 s. A newer Go with testing/synctest (virtual clock) is available as `GODEBUG=asynctimerchan=0 GOTOOLCHAIN=local go1.26.8 test -tags verif ...` if you want hours of virtual time (wrap the scenario in synctest.Test; create everything inside the bubble); the demo_run line must then be exactly that command.

The properties that may be BROKEN (each change breaks at least one of them; say which one it breaks most directly):

{ptxt}Changes of the following kinds were already produced in an earlier round - do NOT repeat these or close variants; look for different sites and different mechanisms:
''' + '\n'.join(prev) + f'''

Task: make {n} DIFFERENT small changes (each one on its own, starting from the clean worktree) to the non-test, non-verif Go source such that each change:
  1. still compiles (with and without -tags verif) and the existing test suite above still passes, unchanged;
  2. breaks one of the properties above;
  3. needs something specific to manifest - an unusual input (boundary length, odd/even size, rare option, specific flag or address), a multi-step sequence of operations, a particular timing or interleaving, a fault at a particular point, or two cooperating sites that each look fine alone - NOT something one ordinary exchange would expose;
  4. looks like a plausible mistake, refactoring slip or "optimisation" a maintainer could make (no sabotage comments, no dead giveaways).
Spread the changes over the listed properties (not all on one). For each change also write a demonstration (Go test file, may need -tags verif) that FAILS with the change applied and PASSES on the unchanged code.

Deliver, for change k = 1..{n}:
  {wt}/OUT/{grp}-k/patch.diff   (output of `git diff` for the source change ONLY, applicable with `git apply` from the repo root; not including the demo file)
  {wt}/OUT/{grp}-k/demo_test.go (the demonstration; first-line comment: package directory it must be placed in and how to run it)
  {wt}/OUT/{grp}-k/meta.json    {{"property": "<the one property id it breaks most directly, e.g. C12>", "summary": "...", "needs": "what it needs in order to manifest", "files": [...], "demo_dir": "lib/...", "demo_run": "<the exact shell command, nothing else, run from the repo root>"}}
Before writing each patch.diff, verify yourself: (a) with the change, the existing suite passes and the demo fails; (b) without the change, the demo passes. Restore the worktree to clean source (keep OUT/) between changes and at the end (remove demo files you placed in package directories).
Finish with a short report listing the changes, the property each breaks and what each needs to manifest.''')
