#!/bin/bash
# eval_seeds.sh <OUT dir> <prefix> : confirm each seeded change and run the check of the property it names
cd /verif
for d in $1/$2-*; do
  k=$(basename $d)
  p=$(python3 -c "import json;print(json.load(open('$d/meta.json'))['property'].split()[0].strip(',').split(',')[0])")
  echo "=== $k property=$p"
  python3 tools/confirm_seed.py $d $k 2>&1 | grep -E "stored|FAIL|PASSES|rror|assert" | head -3
  python3 tools/try_patch.py $d/patch.diff $p 2>&1 | tail -1
done
