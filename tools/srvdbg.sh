#!/bin/bash
# rebuild harness from current /repo, run server histories, print rejection-code histogram
cd /verif
export GOFLAGS=-mod=mod GOPROXY=off GOSUMDB=off GOTOOLCHAIN=local
(cd harness && go1.26.8 test -c -tags verif -o ../work/dbg/h.test . ) || exit 1
rm -f work/dbg/*.cases
VERIF_OUT=work/dbg work/dbg/h.test -test.run "^${1:-TestServerHistories}\$" >/dev/null
ocaml/driver < work/dbg/server.cases | grep MISMATCH > work/dbg/mism.txt
python3 - <<'PY'
import collections
c=collections.Counter(); first=collections.Counter(); ex={}
for l in open('/verif/work/dbg/mism.txt'):
    ln=l.split()[1].split('=')[1]
    m=l.split('model=')[1].split(' impl=')[0]
    nz=[x for x in m.split(',') if x!='0']
    for x in nz: c[x]+=1
    if nz:
        first[nz[0]]+=1; ex.setdefault(nz[0],(ln,m))
print('histories with mismatch:',sum(first.values()))
print('all codes',sorted(c.items(),key=lambda x:-x[1])); print('first code',sorted(first.items(),key=lambda x:-x[1]))
for k,v in ex.items(): print('example first-code',k,'line',v[0],v[1])
PY
