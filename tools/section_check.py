#!/usr/bin/env python3
"""fails if a Variable/Hypothesis/Context/Let-less declaration appears outside a Section"""
import sys, re, os
bad = 0
for root, _, files in os.walk(sys.argv[1]):
    for fn in files:
        if not fn.endswith('.v') or '/gen' in root:
            continue
        depth = 0
        for i, line in enumerate(open(os.path.join(root, fn)), 1):
            s = line.strip()
            if re.match(r'Section\s+\w+\s*\.', s):
                depth += 1
            elif re.match(r'End\s+\w+\s*\.', s) and depth > 0:
                depth -= 1
            elif re.match(r'(Variable|Variables|Hypothesis|Hypotheses|Context)\b', s) and depth == 0:
                print('%s:%d: %s outside a Section' % (os.path.join(root, fn), i, s.split()[0]))
                bad += 1
sys.exit(1 if bad else 0)
