#!/usr/bin/env python3
"""confirm_seed.py <src dir with patch.diff, demo_test.go, meta.json> <seed id>
Confirms in a scratch worktree of /repo that the seeded change compiles, passes the existing suite, fails its
demonstration, and that the demonstration passes without the change; then stores it under /verif/seeded/<id>/."""
import sys, os, json, subprocess, shutil, tempfile
src, sid = sys.argv[1], sys.argv[2]
env = dict(os.environ, GOFLAGS='-mod=mod', GOPROXY='off', GOSUMDB='off')
meta = json.load(open(os.path.join(src, 'meta.json')))
wt = tempfile.mkdtemp(prefix='seedwt-', dir='/tmp')
os.rmdir(wt)
def sh(cmd, cwd=None):
    p = subprocess.run(cmd, shell=True, cwd=cwd, env=env, stdout=subprocess.PIPE, stderr=subprocess.STDOUT, text=True)
    return p.returncode, p.stdout
rc, out = sh('git -C /repo worktree add -q --detach %s HEAD' % wt)
assert rc == 0, out
res = {}
try:
    demo_dir = meta['demo_dir']
    demo_file = meta.get('demo_file', 'demo_test.go')
    demo_dst = os.path.join(wt, demo_dir, 'zz_seed_demo_test.go' if demo_file == 'demo_test.go' else demo_file)
    shutil.copy(os.path.join(src, demo_file), demo_dst)
    run = meta['demo_run']
    rc, out = sh(run, cwd=wt)
    res['demo_without_change'] = 'pass' if rc == 0 else 'FAIL'
    os.remove(demo_dst)
    rc, out = sh('git apply %s' % os.path.join(os.path.abspath(src), 'patch.diff'), cwd=wt)
    assert rc == 0, out
    rc, out = sh('go build ./lib/... && go test -vet=off -count=1 ./lib/...', cwd=wt)
    res['suite_with_change'] = 'pass' if rc == 0 else 'FAIL'
    shutil.copy(os.path.join(src, demo_file), demo_dst)
    rc, out = sh(run, cwd=wt)
    res['demo_with_change'] = 'fail' if rc != 0 else 'PASSES(unexpected)'
    res['demo_output_tail'] = out[-600:]
finally:
    sh('git -C /repo worktree remove --force %s' % wt)
ok = res.get('demo_without_change') == 'pass' and res.get('suite_with_change') == 'pass' and res.get('demo_with_change') == 'fail'
print(json.dumps(res, indent=1))
if ok:
    dst = os.path.join('/verif/seeded', sid)
    os.makedirs(dst, exist_ok=True)
    if os.path.abspath(src) != os.path.abspath(dst):
        shutil.copy(os.path.join(src, 'patch.diff'), dst)
    if os.path.abspath(src) != os.path.abspath(dst):
        shutil.copy(os.path.join(src, demo_file), dst)
    meta['confirmed'] = res
    meta['base_commit'] = subprocess.run('git -C /repo rev-parse --short HEAD', shell=True, stdout=subprocess.PIPE, text=True).stdout.strip()
    json.dump(meta, open(os.path.join(dst, 'meta.json'), 'w'), indent=1)
    print('stored', dst)
sys.exit(0 if ok else 1)
