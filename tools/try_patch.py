#!/usr/bin/env python3
"""try_patch.py <patch.diff> <prop> [<prop>...]: apply the patch to a scratch worktree of /repo and run the quick checks
against it (VERIF_REPO); prints one line per property. /repo itself is not touched."""
import sys, os, subprocess, tempfile
patch = os.path.abspath(sys.argv[1]); props = sys.argv[2:]
wt = tempfile.mkdtemp(prefix='trywt-', dir='/tmp'); os.rmdir(wt)
def sh(c, **kw): return subprocess.run(c, shell=True, stdout=subprocess.PIPE, stderr=subprocess.STDOUT, text=True, **kw)
r = sh('git -C /repo worktree add -q --detach %s HEAD' % wt); assert r.returncode == 0, r.stdout
try:
    r = sh('git apply %s' % patch, cwd=wt)
    if r.returncode != 0:
        print('PATCH DOES NOT APPLY:', r.stdout); sys.exit(2)
    env = dict(os.environ, GOFLAGS='-mod=mod', GOPROXY='off', GOSUMDB='off')
    r = sh('go build ./lib/... && go test -vet=off -count=1 ./lib/... 2>&1 | grep -v "no test files" | grep -v "^ok"', cwd=wt, env=env)
    print('baseline suite on patched tree:', 'pass' if not r.stdout.strip() else 'FAIL\n' + r.stdout[-800:])
    here = os.path.dirname(os.path.dirname(os.path.abspath(__file__)))
    # work in a private copy of the framework so that builds in /verif itself are not disturbed (gen/GoFacts.v, harness/go.mod)
    priv = '/tmp/verif-try-%d' % os.getpid()
    sh('mkdir -p %s && rsync -a --delete --exclude .git --exclude work/out --exclude work/dbg --exclude work/dbg15 --exclude work/replays --exclude work/run %s/ %s/' % (priv, here, priv))
    here = priv
    for p in props:
        r = sh('python3 tools/check.py %s quick' % p, cwd=here, env=dict(os.environ, VERIF_REPO=wt))
        lines = [l for l in r.stdout.splitlines() if l.startswith(('VIOLATION', 'KNOWN', p + ' '))]
        nf = sum('no-failing-input-found' in l for l in lines)
        nv = sum(l.startswith('VIOLATION') for l in lines)
        print('%s rc=%d violations=%d (no-failing-input=%d) | %s' % (p, r.returncode, nv, nf, lines[-1] if lines else r.stdout[-300:]))
finally:
    sh('git -C /repo worktree remove --force %s' % wt)
    # restore the harness module to /repo
    sh('rm -rf /tmp/verif-try-%d' % os.getpid()) if os.environ.get('TRY_KEEP') != '1' else None
