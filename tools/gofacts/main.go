// gofacts: regenerates coq/gen/GoFacts.v from the /repo working tree.
// It reads constants and call-site literals with go/parser and a small constant
// evaluator, plus a few syntactic facts.  Usage: gofacts <repo> <out.v>
package main

import (
	"fmt"
	"go/ast"
	"go/parser"
	"go/token"
	"math/big"
	"os"
	"path/filepath"
	"sort"
	"strconv"
	"strings"
)

var (
	fset    = token.NewFileSet()
	repo    string
	files   = map[string]*ast.File{}
	missing []string
	outN    = map[string]string{} // name -> Coq term (N or Z)
	outTy   = map[string]string{}
	consts  = map[string]map[string]*big.Rat{} // per package dir: named constants
)

func parse(rel string) *ast.File {
	if f, ok := files[rel]; ok {
		return f
	}
	f, err := parser.ParseFile(fset, filepath.Join(repo, rel), nil, parser.ParseComments)
	if err != nil {
		f = nil
	}
	files[rel] = f
	return f
}

var timeUnits = map[string]int64{"Nanosecond": 1, "Microsecond": 1e3, "Millisecond": 1e6, "Second": 1e9, "Minute": 60e9, "Hour": 3600e9}

// eval evaluates a constant expression; env holds named constants of the package.
func eval(e ast.Expr, env map[string]*big.Rat, iota int) (*big.Rat, bool) {
	switch v := e.(type) {
	case *ast.BasicLit:
		switch v.Kind {
		case token.INT:
			n, ok := new(big.Int).SetString(v.Value, 0)
			if !ok {
				return nil, false
			}
			return new(big.Rat).SetInt(n), true
		case token.FLOAT:
			r, ok := new(big.Rat).SetString(v.Value)
			return r, ok
		}
	case *ast.Ident:
		if v.Name == "iota" {
			return big.NewRat(int64(iota), 1), true
		}
		if r, ok := env[v.Name]; ok {
			return r, true
		}
	case *ast.SelectorExpr:
		if x, ok := v.X.(*ast.Ident); ok && x.Name == "time" {
			if u, ok := timeUnits[v.Sel.Name]; ok {
				return big.NewRat(u, 1), true
			}
		}
		if x, ok := v.X.(*ast.Ident); ok {
			// constants of other packages of this repository, by package alias
			for dir, cs := range consts {
				if filepath.Base(dir) == x.Name {
					if r, ok := cs[v.Sel.Name]; ok {
						return r, true
					}
				}
			}
		}
	case *ast.ParenExpr:
		return eval(v.X, env, iota)
	case *ast.CallExpr: // conversions: uint16(x), time.Duration(x), byte(x)
		if len(v.Args) == 1 {
			return eval(v.Args[0], env, iota)
		}
	case *ast.UnaryExpr:
		if x, ok := eval(v.X, env, iota); ok && v.Op == token.SUB {
			return new(big.Rat).Neg(x), true
		}
	case *ast.BinaryExpr:
		a, ok1 := eval(v.X, env, iota)
		b, ok2 := eval(v.Y, env, iota)
		if !ok1 || !ok2 {
			return nil, false
		}
		switch v.Op {
		case token.ADD:
			return new(big.Rat).Add(a, b), true
		case token.SUB:
			return new(big.Rat).Sub(a, b), true
		case token.MUL:
			return new(big.Rat).Mul(a, b), true
		case token.SHL:
			if a.IsInt() && b.IsInt() {
				return new(big.Rat).SetInt(new(big.Int).Lsh(a.Num(), uint(b.Num().Int64()))), true
			}
		case token.SHR:
			if a.IsInt() && b.IsInt() {
				return new(big.Rat).SetInt(new(big.Int).Rsh(a.Num(), uint(b.Num().Int64()))), true
			}
		case token.QUO:
			if b.Sign() != 0 {
				if a.IsInt() && b.IsInt() {
					return new(big.Rat).SetInt(new(big.Int).Quo(a.Num(), b.Num())), true
				}
				return new(big.Rat).Quo(a, b), true
			}
		}
	}
	return nil, false
}

// loadConsts collects the named constants (and simple package-level vars) of one file.
func loadConsts(rel string) {
	f := parse(rel)
	dir := filepath.Dir(rel)
	if consts[dir] == nil {
		consts[dir] = map[string]*big.Rat{}
	}
	if f == nil {
		return
	}
	for _, d := range f.Decls {
		g, ok := d.(*ast.GenDecl)
		if !ok || (g.Tok != token.CONST && g.Tok != token.VAR) {
			continue
		}
		var last []ast.Expr
		for i, s := range g.Specs {
			vs := s.(*ast.ValueSpec)
			vals := vs.Values
			if len(vals) == 0 {
				vals = last
			} else {
				last = vals
			}
			for j, n := range vs.Names {
				if j < len(vals) {
					if r, ok := eval(vals[j], consts[dir], i); ok {
						consts[dir][n.Name] = r
					}
				}
			}
		}
	}
}

func setN(name string, r *big.Rat, ok bool, def int64) {
	if !ok || r == nil || !r.IsInt() || r.Sign() < 0 {
		missing = append(missing, name)
		outN[name] = strconv.FormatInt(def, 10)
		return
	}
	outN[name] = r.Num().String()
}

func named(dir, name string, def int64) {
	r, ok := consts[dir][name]
	setN("gf_"+strings.ToLower(filepath.Base(dir))+"_"+name, r, ok, def)
}

// findFunc returns the declaration of a function or method by name.
func findFunc(rel, name string) *ast.FuncDecl {
	f := parse(rel)
	if f == nil {
		return nil
	}
	for _, d := range f.Decls {
		if fd, ok := d.(*ast.FuncDecl); ok && fd.Name.Name == name {
			return fd
		}
	}
	return nil
}

func selName(e ast.Expr) string {
	switch v := e.(type) {
	case *ast.SelectorExpr:
		return selName(v.X) + "." + v.Sel.Name
	case *ast.Ident:
		return v.Name
	}
	return "?"
}

// callArg finds the first call to a function whose selector path ends with `callee`
// inside fn and evaluates argument number idx.
func callArg(rel, fn, callee string, idx int, nth int) (*big.Rat, bool) {
	fd := findFunc(rel, fn)
	if fd == nil {
		return nil, false
	}
	var res *big.Rat
	found := false
	count := 0
	ast.Inspect(fd, func(n ast.Node) bool {
		if found {
			return false
		}
		if c, ok := n.(*ast.CallExpr); ok && strings.HasSuffix(selName(c.Fun), callee) && len(c.Args) > idx {
			if r, ok := eval(c.Args[idx], consts[filepath.Dir(rel)], 0); ok {
				if count == nth {
					res, found = r, true
					return false
				}
				count++
			}
		}
		return true
	})
	return res, found
}

// compositeField finds a `Key: value` in any composite literal inside fn.
func compositeField(rel, fn, key string) (*big.Rat, bool) {
	fd := findFunc(rel, fn)
	if fd == nil {
		return nil, false
	}
	var res *big.Rat
	found := false
	ast.Inspect(fd, func(n ast.Node) bool {
		if found {
			return false
		}
		if kv, ok := n.(*ast.KeyValueExpr); ok {
			if id, ok := kv.Key.(*ast.Ident); ok && id.Name == key {
				if r, ok := eval(kv.Value, consts[filepath.Dir(rel)], 0); ok {
					res, found = r, true
				}
			}
		}
		return true
	})
	return res, found
}

// cmpLiteral finds a comparison `<lhs containing ident> OP <const>` inside fn and returns the constant.
func cmpLiteral(rel, fn, lhsHas string, op token.Token) (*big.Rat, bool) {
	fd := findFunc(rel, fn)
	if fd == nil {
		return nil, false
	}
	var res *big.Rat
	found := false
	ast.Inspect(fd, func(n ast.Node) bool {
		if found {
			return false
		}
		if b, ok := n.(*ast.BinaryExpr); ok && b.Op == op && strings.Contains(selName(b.X), lhsHas) {
			if r, ok := eval(b.Y, consts[filepath.Dir(rel)], 0); ok {
				res, found = r, true
			}
		}
		return true
	})
	return res, found
}

// assignLiteral finds `name := <const>` inside fn.
func assignLiteral(rel, fn, name string) (*big.Rat, bool) {
	fd := findFunc(rel, fn)
	if fd == nil {
		return nil, false
	}
	var res *big.Rat
	found := false
	ast.Inspect(fd, func(n ast.Node) bool {
		if found {
			return false
		}
		if a, ok := n.(*ast.AssignStmt); ok && len(a.Lhs) == 1 && len(a.Rhs) == 1 {
			if id, ok := a.Lhs[0].(*ast.Ident); ok && id.Name == name {
				if r, ok := eval(a.Rhs[0], consts[filepath.Dir(rel)], 0); ok {
					res, found = r, true
				}
			}
		}
		return true
	})
	return res, found
}

// forBound finds `for i := 0; i < N ...` inside fn (first one) and returns N.
func forBound(rel, fn string) (*big.Rat, bool) {
	fd := findFunc(rel, fn)
	if fd == nil {
		return nil, false
	}
	var res *big.Rat
	found := false
	ast.Inspect(fd, func(n ast.Node) bool {
		if found {
			return false
		}
		if f, ok := n.(*ast.ForStmt); ok && f.Cond != nil {
			var walk func(e ast.Expr)
			walk = func(e ast.Expr) {
				if b, ok := e.(*ast.BinaryExpr); ok {
					if b.Op == token.LSS {
						if r, ok := eval(b.Y, consts[filepath.Dir(rel)], 0); ok && !found {
							res, found = r, true
						}
					} else {
						walk(b.X)
						walk(b.Y)
					}
				}
			}
			walk(f.Cond)
		}
		return true
	})
	return res, found
}

// stringVar returns the string literal (possibly inside regexp.MustCompile) assigned to a package-level var.
func stringVar(rel, name string) (string, bool) {
	f := parse(rel)
	if f == nil {
		return "", false
	}
	for _, d := range f.Decls {
		g, ok := d.(*ast.GenDecl)
		if !ok {
			continue
		}
		for _, s := range g.Specs {
			vs, ok := s.(*ast.ValueSpec)
			if !ok {
				continue
			}
			for j, n := range vs.Names {
				if n.Name == name && j < len(vs.Values) {
					var lit *ast.BasicLit
					ast.Inspect(vs.Values[j], func(x ast.Node) bool {
						if b, ok := x.(*ast.BasicLit); ok && b.Kind == token.STRING && lit == nil {
							lit = b
						}
						return true
					})
					if lit != nil {
						s, err := strconv.Unquote(lit.Value)
						return s, err == nil
					}
				}
			}
		}
	}
	return "", false
}

// class parses a regexp of the shape ^?[^?...]+?$? into a sorted list of byte values in the bracket
// expression plus flags (negated, anchored, plus).  Anything else is reported as unparsable.
func class(re string) (bytes []int, neg, anchored, ok bool) {
	s := re
	if strings.HasPrefix(s, "^") && strings.HasSuffix(s, "$") {
		anchored = true
		s = s[1 : len(s)-1]
	}
	if anchored {
		if !strings.HasSuffix(s, "+") {
			return nil, false, false, false
		}
		s = s[:len(s)-1]
	}
	if !strings.HasPrefix(s, "[") || !strings.HasSuffix(s, "]") {
		return nil, false, false, false
	}
	s = s[1 : len(s)-1]
	if strings.HasPrefix(s, "^") {
		neg = true
		s = s[1:]
	}
	set := map[int]bool{}
	r := []byte(s)
	for i := 0; i < len(r); i++ {
		c := r[i]
		if c == '\\' && i+1 < len(r) {
			i++
			c = r[i]
			if c != '.' && c != '-' && c != '\\' {
				return nil, false, false, false
			}
			set[int(c)] = true
			continue
		}
		if c >= 0x80 || c == '[' || c == ']' {
			return nil, false, false, false
		}
		if i+2 < len(r) && r[i+1] == '-' && r[i+2] != ']' {
			for x := int(c); x <= int(r[i+2]); x++ {
				set[x] = true
			}
			i += 2
			continue
		}
		set[int(c)] = true
	}
	for k := range set {
		bytes = append(bytes, k)
	}
	sort.Ints(bytes)
	return bytes, neg, anchored, true
}

func listN(xs []int) string {
	s := make([]string, len(xs))
	for i, x := range xs {
		s[i] = strconv.Itoa(x)
	}
	return "[" + strings.Join(s, "; ") + "]"
}

func strBytes(s string) string {
	xs := make([]int, len(s))
	for i := 0; i < len(s); i++ {
		xs[i] = int(s[i])
	}
	return listN(xs)
}

// strCallArgs returns, in source order, the string literals passed as argument idx to calls whose
// selector path ends with callee inside fn.
func strCallArgs(rel, fn, callee string, idx int) []string {
	fd := findFunc(rel, fn)
	if fd == nil {
		return nil
	}
	var res []string
	ast.Inspect(fd, func(n ast.Node) bool {
		if c, ok := n.(*ast.CallExpr); ok && strings.HasSuffix(selName(c.Fun), callee) && len(c.Args) > idx {
			if b, ok := c.Args[idx].(*ast.BasicLit); ok && b.Kind == token.STRING {
				if s, err := strconv.Unquote(b.Value); err == nil {
					res = append(res, s)
				}
			}
		}
		return true
	})
	return res
}

// strEqLits returns, in source order, the string literals on the right of `==` inside fn.
func strEqLits(rel, fn string) []string {
	fd := findFunc(rel, fn)
	if fd == nil {
		return nil
	}
	var res []string
	ast.Inspect(fd, func(n ast.Node) bool {
		if b, ok := n.(*ast.BinaryExpr); ok && b.Op == token.EQL {
			if l, ok := b.Y.(*ast.BasicLit); ok && l.Kind == token.STRING {
				if s, err := strconv.Unquote(l.Value); err == nil {
					res = append(res, s)
				}
			}
		}
		return true
	})
	return res
}

// fmtParts splits a Sprintf format with exactly n "%s" verbs (and no other '%') into its n+1 literal parts.
func fmtParts(f string, n int) ([]string, bool) {
	parts := strings.Split(f, "%s")
	if len(parts) != n+1 || strings.Contains(strings.Join(parts, ""), "%") {
		return nil, false
	}
	return parts, true
}

// c17Facts: literals of envEntry/dumpScriptConf (lib/client/callback) and resolvconf.Run.
func c17Facts(sb *strings.Builder) {
	const cb, rc = "lib/client/callback/callback.go", "lib/resolvconf/resolvconf.go"
	str := func(name, v, def string, ok bool) {
		if !ok {
			missing = append(missing, name)
			v = def
		}
		fmt.Fprintf(sb, "Definition %s : list N := %s.\n", name, strBytes(v))
	}
	one := func(name string, xs []string, i int, def byte) {
		v := def
		if i < len(xs) && len(xs[i]) == 1 {
			v = xs[i][0]
		} else {
			missing = append(missing, name)
		}
		fmt.Fprintf(sb, "Definition %s : N := %d.\n", name, v)
	}
	repl := strCallArgs(cb, "envEntry", "ReplaceAllString", 1)
	str("gf_env_replacement", strings.Join(repl, ""), "_", len(repl) == 1)
	ef := strCallArgs(cb, "envEntry", "Sprintf", 0)
	parts, ok := []string(nil), false
	if len(ef) == 1 {
		parts, ok = fmtParts(ef[0], 2)
		ok = ok && parts[2] == ""
	}
	if !ok {
		parts = []string{"PSA_DHCPC_", "=", ""}
	}
	str("gf_env_prefix", parts[0], "PSA_DHCPC_", ok)
	str("gf_env_sep", parts[1], "=", ok)
	keys := strCallArgs(cb, "dumpScriptConf", "envEntry", 0)
	if len(keys) != 7 {
		missing = append(missing, "gf_env_keys")
		keys = []string{"IPV4_ROUTER", "IPV4_ADDRESS", "NETMASK", "DOMAIN_NAME", "DNS_LIST", "MTU", "LEASE_SEC"}
	}
	ks := make([]string, len(keys))
	for i, k := range keys {
		ks[i] = strBytes(k)
	}
	fmt.Fprintf(sb, "Definition gf_env_keys : list (list N) := [%s].\n", strings.Join(ks, "; "))
	ik := strCallArgs(cb, "Cbhandler", "envEntry", 0)
	str("gf_env_interface_key", strings.Join(ik, ""), "INTERFACE", len(ik) == 1)
	one("gf_env_dns_join", strCallArgs(cb, "dumpScriptConf", "Join", 1), 0, ',')
	one("gf_resolv_kv_sep", strCallArgs(rc, "Run", "SplitN", 1), 0, '=')
	one("gf_resolv_list_sep", strCallArgs(rc, "Run", "Split", 1), 0, ',')
	eq := strEqLits(rc, "Run")
	str("gf_resolv_key_domain", strings.Join(eq[:min(1, len(eq))], ""), "PSA_DHCPC_DOMAIN_NAME", len(eq) == 2)
	str("gf_resolv_key_dns", strings.Join(eq[min(1, len(eq)):min(2, len(eq))], ""), "PSA_DHCPC_DNS_LIST", len(eq) == 2)
	rf := strCallArgs(rc, "Run", "Sprintf", 0)
	for i, nm := range []string{"search", "ns"} {
		def := []string{"search ", "\n"}
		if i == 1 {
			def = []string{"nameserver ", "\n"}
		}
		p, ok := []string(nil), false
		if len(rf) == 2 {
			p, ok = fmtParts(rf[i], 1)
		}
		if !ok {
			p = def
		}
		str("gf_resolv_"+nm+"_prefix", p[0], def[0], ok)
		str("gf_resolv_"+nm+"_suffix", p[1], def[1], ok)
	}
}

// c20Facts: resolvconf.update — paths, and the shape of the error path.
func c20Facts(sb *strings.Builder) {
	const rc = "lib/resolvconf/resolvconf.go"
	str := func(name, v, def string, ok bool) {
		if !ok {
			missing = append(missing, name)
			v = def
		}
		fmt.Fprintf(sb, "Definition %s : list N := %s.\n", name, strBytes(v))
	}
	dirs := strCallArgs(rc, "update", "TempFile", 0)
	pats := strCallArgs(rc, "update", "TempFile", 1)
	tgts := strCallArgs(rc, "update", "Rename", 1)
	okd := len(dirs) == 1 && len(pats) == 1 && len(tgts) == 1
	dir, pat, tgt := "/etc", "resolvconf-*.tmp", "/etc/resolv.conf"
	if okd {
		dir, pat, tgt = dirs[0], pats[0], tgts[0]
	}
	// os.CreateTemp: the random string replaces the last "*" (appended when there is none)
	pre, suf := pat, ""
	if i := strings.LastIndex(pat, "*"); i >= 0 {
		pre, suf = pat[:i], pat[i+1:]
	}
	// the target lives in the directory of the temp file (same file system: rename cannot be a copy)
	same := strings.HasPrefix(tgt, strings.TrimRight(dir, "/")+"/") && !strings.Contains(tgt[len(strings.TrimRight(dir, "/"))+1:], "/")
	base := tgt
	if same {
		base = tgt[len(strings.TrimRight(dir, "/"))+1:]
	}
	str("gf_resolv_dir", dir, "/etc", okd)
	str("gf_resolv_tmp_prefix", pre, "resolvconf-", okd)
	str("gf_resolv_tmp_suffix", suf, ".tmp", okd)
	str("gf_resolv_target_name", base, "resolv.conf", okd)
	fmt.Fprintf(sb, "Definition gf_resolv_same_dir : bool := %v.\n", okd && same && !strings.ContainsAny(pat, "/"))

	// the error path: the result is named err; exactly one defer, a closure whose body is
	//   if err != nil { os.Remove(name) }
	// with name := tmpfh.Name() of the TempFile result, and Chmod/Rename are applied to the same name
	cleanup, sameName, noOther := false, false, false
	if fd := findFunc(rc, "update"); fd != nil && fd.Body != nil {
		named := fd.Type.Results != nil && len(fd.Type.Results.List) == 1 && len(fd.Type.Results.List[0].Names) == 1 &&
			fd.Type.Results.List[0].Names[0].Name == "err"
		var defers []*ast.DeferStmt
		removes, removesInDefer := 0, 0
		tmpVar, nameVar := "", ""
		ast.Inspect(fd, func(n ast.Node) bool {
			switch x := n.(type) {
			case *ast.DeferStmt:
				defers = append(defers, x)
			case *ast.AssignStmt:
				if len(x.Rhs) == 1 {
					if c, ok := x.Rhs[0].(*ast.CallExpr); ok {
						fn := selName(c.Fun)
						if strings.HasSuffix(fn, ".TempFile") && len(x.Lhs) == 2 {
							if id, ok := x.Lhs[0].(*ast.Ident); ok {
								tmpVar = id.Name
							}
						}
						if strings.HasSuffix(fn, ".Name") && len(x.Lhs) == 1 && len(c.Args) == 0 {
							if id, ok := x.Lhs[0].(*ast.Ident); ok && tmpVar != "" && fn == tmpVar+".Name" {
								nameVar = id.Name
							}
						}
					}
				}
			case *ast.CallExpr:
				if strings.HasSuffix(selName(x.Fun), ".Remove") || strings.HasSuffix(selName(x.Fun), ".RemoveAll") {
					removes++
				}
			}
			return true
		})
		isName := func(e ast.Expr) bool { id, ok := e.(*ast.Ident); return ok && nameVar != "" && id.Name == nameVar }
		if len(defers) == 1 {
			if fl, ok := defers[0].Call.Fun.(*ast.FuncLit); ok && len(defers[0].Call.Args) == 0 && len(fl.Body.List) == 1 {
				if is, ok := fl.Body.List[0].(*ast.IfStmt); ok && is.Init == nil && is.Else == nil && len(is.Body.List) == 1 {
					if be, ok := is.Cond.(*ast.BinaryExpr); ok && be.Op == token.NEQ {
						l, lok := be.X.(*ast.Ident)
						r, rok := be.Y.(*ast.Ident)
						if es, ok := is.Body.List[0].(*ast.ExprStmt); ok && lok && rok && l.Name == "err" && r.Name == "nil" {
							if c, ok := es.X.(*ast.CallExpr); ok && selName(c.Fun) == "os.Remove" && len(c.Args) == 1 && isName(c.Args[0]) {
								cleanup = named
								removesInDefer = 1
							}
						}
					}
				}
			}
		}
		noOther = removes == removesInDefer
		// Chmod and Rename act on the temp name; their calls are outside the closure
		nChmod, nRename := 0, 0
		good := true
		ast.Inspect(fd, func(n ast.Node) bool {
			if c, ok := n.(*ast.CallExpr); ok {
				switch selName(c.Fun) {
				case "os.Chmod":
					nChmod++
					good = good && len(c.Args) == 2 && isName(c.Args[0])
				case "os.Rename":
					nRename++
					good = good && len(c.Args) == 2 && isName(c.Args[0])
				}
			}
			return true
		})
		sameName = good && nChmod == 1 && nRename == 1
	}
	fmt.Fprintf(sb, "Definition gf_resolv_cleanup_on_error : bool := %v.\n", cleanup && noOther)
	fmt.Fprintf(sb, "Definition gf_resolv_ops_on_tmp_name : bool := %v.\n", sameName)
}

// ---- structural facts ----

// every exported method of *IPDB starts with Lock(); defer Unlock()
func ipdbLocked() bool {
	f := parse("lib/server/ipdb/ipdb.go")
	if f == nil {
		return false
	}
	okAll, any := true, false
	for _, d := range f.Decls {
		fd, ok := d.(*ast.FuncDecl)
		if !ok || fd.Recv == nil || !fd.Name.IsExported() || fd.Body == nil {
			continue
		}
		if !strings.Contains(selName(starX(fd.Recv.List[0].Type)), "IPDB") {
			continue
		}
		if fd.Name.Name == "InManagedRange" { // reads immutable range fields only
			continue
		}
		any = true
		b := fd.Body.List
		if len(b) < 2 {
			okAll = false
			continue
		}
		e, ok1 := b[0].(*ast.ExprStmt)
		df, ok2 := b[1].(*ast.DeferStmt)
		if !ok1 || !ok2 {
			okAll = false
			continue
		}
		c, ok3 := e.X.(*ast.CallExpr)
		if !ok3 || !strings.HasSuffix(selName(c.Fun), ".Lock") || !strings.HasSuffix(selName(df.Call.Fun), ".Unlock") {
			okAll = false
		}
	}
	return okAll && any
}

func starX(e ast.Expr) ast.Expr {
	if s, ok := e.(*ast.StarExpr); ok {
		return s.X
	}
	return e
}

// handleMsg is started as `go sx.handleMsg(..., *dhcp)` (message passed by value)
func handlerByValue() bool {
	fd := findFunc("lib/server/run.go", "Run")
	if fd == nil {
		return false
	}
	ok := false
	ast.Inspect(fd, func(n ast.Node) bool {
		if g, is := n.(*ast.GoStmt); is && strings.HasSuffix(selName(g.Call.Fun), "handleMsg") {
			for _, a := range g.Call.Args {
				if _, isStar := a.(*ast.StarExpr); isStar {
					ok = true
				}
			}
		}
		return true
	})
	return ok
}

// update() calls TempFile, Write, Close, Chmod, Rename in this order
func updateOrder() bool {
	fd := findFunc("lib/resolvconf/resolvconf.go", "update")
	if fd == nil {
		return false
	}
	var seq []string
	want := []string{"TempFile", "Write", "Close", "Chmod", "Rename"}
	ast.Inspect(fd, func(n ast.Node) bool {
		if _, isFn := n.(*ast.FuncLit); isFn {
			return false // the deferred cleanup
		}
		if c, is := n.(*ast.CallExpr); is {
			name := selName(c.Fun)
			for _, w := range want {
				if strings.HasSuffix(name, "."+w) {
					seq = append(seq, w)
				}
			}
		}
		return true
	})
	return strings.Join(seq, ",") == strings.Join(want, ",")
}

// dbCalls lists, in source order, the methods called on sx.ipdb inside a handler.
func dbCalls(fn string) string {
	fd := findFunc("lib/server/netio.go", fn)
	if fd == nil {
		return "?"
	}
	var names []string
	ast.Inspect(fd, func(n ast.Node) bool {
		if c, ok := n.(*ast.CallExpr); ok {
			name := selName(c.Fun)
			if i := strings.Index(name, ".ipdb."); i >= 0 {
				names = append(names, name[i+6:])
			}
		}
		return true
	})
	return strings.Join(names, ",")
}

func paramList() ([]int, bool) {
	fd := findFunc("lib/client/msgtmpl/request.go", "request")
	if fd == nil {
		return nil, false
	}
	var res []int
	ok := false
	ast.Inspect(fd, func(n ast.Node) bool {
		if c, is := n.(*ast.CallExpr); is && strings.HasSuffix(selName(c.Fun), "OptionParametersList") && !ok {
			ok = true
			for _, a := range c.Args {
				r, good := eval(a, consts["lib/client/msgtmpl"], 0)
				if !good || !r.IsInt() {
					ok = false
					return false
				}
				res = append(res, int(r.Num().Int64()))
			}
			return false
		}
		return true
	})
	return res, ok
}

// closeSites: the Close calls of the socket-owning routines are where the model (coq/model/Res.v) has them:
// sendUnicast calls Close directly, sendARPPing and sendMessage defer it, and catchARPReply, server Run and
// catchReply start a goroutine that waits for ctx.Done() and then closes, and defer the cancel of that context.
func closeSites() bool {
	has := func(rel, fn string, pred func(n ast.Node) bool) bool {
		fd := findFunc(rel, fn)
		if fd == nil {
			return false
		}
		found := false
		ast.Inspect(fd, func(n ast.Node) bool {
			if n != nil && pred(n) {
				found = true
			}
			return !found
		})
		return found
	}
	isClose := func(e ast.Expr) bool {
		c, ok := e.(*ast.CallExpr)
		return ok && strings.HasSuffix(selName(c.Fun), ".Close")
	}
	direct := func(n ast.Node) bool { e, ok := n.(*ast.ExprStmt); return ok && isClose(e.X) }
	deferred := func(n ast.Node) bool { d, ok := n.(*ast.DeferStmt); return ok && isClose(d.Call) }
	deferCancel := func(n ast.Node) bool {
		d, ok := n.(*ast.DeferStmt)
		return ok && strings.HasSuffix(selName(d.Call.Fun), "cancel")
	}
	closer := func(n ast.Node) bool {
		g, ok := n.(*ast.GoStmt)
		if !ok {
			return false
		}
		fl, ok := g.Call.Fun.(*ast.FuncLit)
		if !ok || len(fl.Body.List) != 2 {
			return false
		}
		w, ok1 := fl.Body.List[0].(*ast.ExprStmt)
		c, ok2 := fl.Body.List[1].(*ast.ExprStmt)
		if !ok1 || !ok2 || !isClose(c.X) {
			return false
		}
		u, ok := w.X.(*ast.UnaryExpr)
		if !ok || u.Op != token.ARROW {
			return false
		}
		dc, ok := u.X.(*ast.CallExpr)
		return ok && strings.HasSuffix(selName(dc.Fun), ".Done")
	}
	return has("lib/server/utils.go", "sendUnicast", direct) &&
		has("lib/arpping/arpping.go", "sendARPPing", deferred) &&
		has("lib/client/dclient/netio.go", "sendMessage", deferred) &&
		has("lib/arpping/arpping.go", "catchARPReply", closer) && has("lib/arpping/arpping.go", "catchARPReply", deferCancel) &&
		has("lib/arpping/arpping.go", "Ping", deferCancel) &&
		has("lib/server/run.go", "Run", closer) && has("lib/server/run.go", "Run", deferCancel) &&
		has("lib/client/dclient/netio.go", "catchReply", closer) && has("lib/client/dclient/netio.go", "catchReply", deferCancel) &&
		has("lib/client/dclient/dclient.go", "advanceState", deferCancel)
}

func main() {
	if len(os.Args) != 3 {
		fmt.Fprintln(os.Stderr, "usage: gofacts <repo> <out.v>")
		os.Exit(2)
	}
	repo = os.Args[1]
	for _, f := range []string{"lib/layer/constants.go", "lib/layer/ip.go", "lib/layer/udp.go", "lib/layer/arp.go",
		"lib/dhcpmsg/constants.go", "lib/dhcpmsg/parse.go", "lib/client/msgtmpl/request.go", "lib/client/callback/callback.go"} {
		loadConsts(f)
	}
	named("lib/layer", "ProtoUDP", 17)
	named("lib/layer", "ipv4Hlen", 20)
	named("lib/layer", "udpHlen", 8)
	named("lib/layer", "ARPOpRequest", 1)
	for _, c := range []struct {
		n string
		d int64
	}{{"OpRequest", 1}, {"OpReply", 2}, {"HtypeETHER", 1}, {"FlagBroadcast", 32768}, {"DHCPCookie", 0x63825363},
		{"MsgTypeDiscover", 1}, {"MsgTypeOffer", 2}, {"MsgTypeRequest", 3}, {"MsgTypeAck", 5}, {"MsgTypeNack", 6},
		{"OptPadding", 0}, {"OptSubnetMask", 1}, {"OptRouter", 3}, {"OptDNS", 6}, {"OptHostname", 12}, {"OptDomainName", 15},
		{"OptInterfaceMTU", 26}, {"OptBroadcastAddress", 28}, {"OptNTP", 42}, {"OptRequestedIP", 50},
		{"OptIPAddressLeaseDuration", 51}, {"OptMessageType", 53}, {"OptServerIdentifier", 54}, {"OptParametersList", 55},
		{"OptMessage", 56}, {"OptMaxMessageSize", 57}, {"OptRenewalDuration", 58}, {"OptRebindDuration", 59},
		{"OptClientIdentifier", 61}, {"OptEnd", 255}, {"dhcpMinLen", 240}} {
		named("lib/dhcpmsg", c.n, c.d)
	}
	// call-site literals
	r, ok := callArg("lib/server/netio.go", "handleDiscover", "OfferIP", 4, 0)
	if !ok {
		r, ok = callArg("lib/server/netio.go", "handleDiscover", "HoldClient", 2, 0)
	}
	if !ok {
		r, ok = callArg("lib/server/netio.go", "handleDiscover", "UpdateClient", 2, 0)
	}
	setN("gf_offer_hold_ns", r, ok, 15e9)
	r, ok = callArg("lib/server/netio.go", "handleRequest", "HoldClient", 2, 0)
	setN("gf_request_hold_ns", r, ok, 15e9)
	r, ok = callArg("lib/arpping/arpping.go", "Ping", "WithTimeout", 1, 0)
	setN("gf_arp_timeout_ns", r, ok, 200e6)
	r, ok = forBound("lib/server/utils.go", "arpVerify")
	setN("gf_arp_tries", r, ok, 3)
	r, ok = compositeField("lib/server/replies/common.go", "assembleUdp", "TTL")
	setN("gf_reply_ttl", r, ok, 64)
	r, ok = compositeField("lib/server/replies/common.go", "assembleUdp", "SrcPort")
	setN("gf_reply_sport", r, ok, 67)
	r, ok = compositeField("lib/server/replies/common.go", "assembleUdp", "DstPort")
	setN("gf_reply_dport", r, ok, 68)
	r, ok = compositeField("lib/server/replies/common.go", "assembleUdp", "Protocol")
	setN("gf_reply_proto", r, ok, 17)
	r, ok = cmpLiteral("lib/server/leaseopts/leaseopts.go", "ParseConfig", "ld", token.LSS)
	setN("gf_server_min_lease_ns", r, ok, 60e9)
	// C18: limits of what one DHCP option can carry (named constants introduced by the repair of F5c;
	// on a tree without them the defaults are used and the names are listed as missing)
	loadConsts("lib/server/leaseopts/leaseopts.go")
	named("lib/server/leaseopts", "maxOptionLen", 255)
	named("lib/server/leaseopts", "maxLeaseSeconds", 4294967295)
	r, ok = cmpLiteral("lib/client/verify/verifyer.go", "verifyCommon", "IPAddressLeaseDuration", token.LSS)
	setN("gf_client_min_lease_ns", r, ok, 60e9)
	r, ok = compositeField("lib/client/msgtmpl/request.go", "request", "SrcPort")
	setN("gf_client_sport", r, ok, 68)
	r, ok = compositeField("lib/client/msgtmpl/request.go", "request", "DstPort")
	setN("gf_client_dport", r, ok, 67)
	r, ok = compositeField("lib/client/msgtmpl/request.go", "request", "TTL")
	setN("gf_client_ttl", r, ok, 64)
	cr, cok := consts["lib/client/msgtmpl"]["maxMsgSize"]
	setN("gf_max_msg_size", cr, cok, 1500)
	r, ok = assignLiteral("lib/client/dclient/netio.go", "sendMessage", "barrier")
	setN("gf_retx_barrier_ns", r, ok, 100e9)
	r, ok = assignLiteral("lib/client/dclient/netio.go", "sendMessage", "delay")
	setN("gf_retx_first_ns", r, ok, 700e6)
	r, ok = cmpLiteral("lib/client/dclient/netio.go", "catchReply", "DstPort", token.EQL)
	setN("gf_client_listen_port", r, ok, 68)
	r, ok = cmpLiteral("lib/client/dclient/netio.go", "catchReply", "Protocol", token.EQL)
	setN("gf_client_listen_proto", r, ok, 17)
	r, ok = callArg("lib/client/dclient/dhcpstates.go", "runStateDiscovering", "Add", 0, 0)
	setN("gf_discover_deadline_ns", r, ok, 600e9)
	r, ok = callArg("lib/client/dclient/dhcpstates.go", "runStateSelecting", "Add", 0, 0)
	setN("gf_selecting_deadline_ns", r, ok, 60e9)
	r, ok = callArg("lib/client/dclient/dclient.go", "ResumeClient", "Add", 0, 0)
	setN("gf_resume_deadline_ns", r, ok, 5e9)
	r, ok = cmpLiteral("lib/client/dclient/dhcpstates.go", "runStateBound", "RenewalDuration", token.GTR)
	setN("gf_min_t1_ns", r, ok, 60e9)
	r, ok = callArg("lib/client/dclient/sysstates.go", "panicReset", "WithTimeout", 1, 0)
	setN("gf_panic_reset_ns", r, ok, 30e9)
	// C19: socket/goroutine accounting
	r, ok = forBound("lib/client/dclient/netio.go", "sendSocket")
	setN("gf_client_arp_tries", r, ok, 5)
	r, ok = callArg("lib/arpping/arpping.go", "sendARPPing", "After", 0, 0)
	setN("gf_arp_resend_ns", r, ok, 1e9)
	r, ok = callArg("lib/client/dclient/dclient.go", "Run", "After", 0, 0)
	setN("gf_limiter_sleep_ns", r, ok, 20e9)
	r, ok = callArg("lib/client/dclient/dclient.go", "New", "NewLimiter", 1, 0)
	setN("gf_limiter_burst", r, ok, 10)

	facts := map[string]bool{
		"gf_ipdb_methods_locked":      ipdbLocked(),
		"gf_handler_started_by_value": handlerByValue(),
		"gf_resolv_update_order":      updateOrder(),
		"gf_res_close_sites":          closeSites(),
		// the database steps of the two handlers, as the model has them
		"gf_discover_single_db_step": dbCalls("handleDiscover") == "OfferIP",
		"gf_request_db_steps":        dbCalls("handleRequest") == "InManagedRange,LookupClientByDuid,HoldClient,UpdateClient",
	}

	var sb strings.Builder
	sb.WriteString("(* GENERATED by /verif/tools/gofacts from the /repo working tree.  Do not edit. *)\n")
	sb.WriteString("From Coq Require Import List NArith Bool.\nImport ListNotations.\nOpen Scope N_scope.\n\n")
	names := make([]string, 0, len(outN))
	for k := range outN {
		names = append(names, k)
	}
	sort.Strings(names)
	for _, k := range names {
		fmt.Fprintf(&sb, "Definition %s : N := %s.\n", k, outN[k])
	}
	fk := make([]string, 0)
	for k := range facts {
		fk = append(fk, k)
	}
	sort.Strings(fk)
	for _, k := range fk {
		fmt.Fprintf(&sb, "Definition %s : bool := %v.\n", k, facts[k])
	}
	if pl, ok := paramList(); ok {
		fmt.Fprintf(&sb, "Definition gf_param_list : list N := %s.\n", listN(pl))
	} else {
		missing = append(missing, "gf_param_list")
		sb.WriteString("Definition gf_param_list : list N := [1; 3; 51; 54; 6; 15; 26; 58; 59].\n")
	}
	for _, rx := range []struct{ name, file, v, def string }{
		{"gf_re_bad_chars", "lib/client/callback/callback.go", "reBadChars", `[^a-zA-Z0-9,\.-]`},
		{"gf_re_good_chars", "lib/resolvconf/resolvconf.go", "reGoodChars", `^[a-zA-Z0-9\.-]+$`},
		{"gf_re_good_nums", "lib/resolvconf/resolvconf.go", "reGoodNums", `^[0-9\.]+$`}} {
		s, ok := stringVar(rx.file, rx.v)
		if !ok {
			missing = append(missing, rx.name)
			s = rx.def
		}
		b, neg, anch, ok2 := class(s)
		if !ok2 {
			missing = append(missing, rx.name+"(unparsable:"+s+")")
			b, neg, anch, _ = class(rx.def)
		}
		fmt.Fprintf(&sb, "Definition %s_class : list N := %s.\n", rx.name, listN(b))
		fmt.Fprintf(&sb, "Definition %s_negated : bool := %v.\n", rx.name, neg)
		fmt.Fprintf(&sb, "Definition %s_anchored : bool := %v.\n", rx.name, anch)
	}
	// resolv.conf strings
	hdr := "# written by psa-dhcpc\n"
	if fd := findFunc("lib/resolvconf/resolvconf.go", "Run"); fd != nil {
		found := false
		ast.Inspect(fd, func(n ast.Node) bool {
			if b, ok := n.(*ast.BasicLit); ok && b.Kind == token.STRING && !found {
				if s, err := strconv.Unquote(b.Value); err == nil && strings.HasPrefix(s, "#") {
					hdr, found = s, true
				}
			}
			return true
		})
		if !found {
			missing = append(missing, "gf_resolv_header")
		}
	}
	fmt.Fprintf(&sb, "Definition gf_resolv_header : list N := %s.\n", strBytes(hdr))
	r, ok = callArg("lib/resolvconf/resolvconf.go", "update", "Chmod", 1, 0)
	if ok && r.IsInt() {
		fmt.Fprintf(&sb, "Definition gf_resolv_mode : N := %s.\n", r.Num().String())
	} else {
		missing = append(missing, "gf_resolv_mode")
		sb.WriteString("Definition gf_resolv_mode : N := 420.\n")
	}
	c17Facts(&sb)
	c20Facts(&sb)
	sort.Strings(missing)
	fmt.Fprintf(&sb, "\n(* sites not located in the current source (last known value used): %s *)\n", strings.Join(missing, " "))
	fmt.Fprintf(&sb, "Definition gf_missing_count : N := %d.\n", len(missing))
	out := sb.String()
	if old, err := os.ReadFile(os.Args[2]); err == nil && string(old) == out {
		return // unchanged: keep the timestamp so that make does nothing
	}
	if err := os.WriteFile(os.Args[2], []byte(out), 0o644); err != nil {
		fmt.Fprintln(os.Stderr, err)
		os.Exit(1)
	}
}
