module gofacts

go 1.23
