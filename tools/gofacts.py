#!/usr/bin/env python3
"""builds (if needed) and runs tools/gofacts:  gofacts.py <repo> <out.v>"""
import os, subprocess, sys
here = os.path.dirname(os.path.abspath(__file__))
src = os.path.join(here, 'gofacts')
work = os.path.join(os.path.dirname(here), 'work', 'bin')
os.makedirs(work, exist_ok=True)
binp = os.path.join(work, 'gofacts')
env = dict(os.environ, GOFLAGS='-mod=mod', GOPROXY='off', GOSUMDB='off', GOTOOLCHAIN='local',
           GOCACHE=os.environ.get('GOCACHE', os.path.join(os.path.dirname(here), 'work', 'gocache')))
if not os.path.exists(binp) or os.path.getmtime(binp) < os.path.getmtime(os.path.join(src, 'main.go')):
    r = subprocess.run(['go1.26.8', 'build', '-o', binp, '.'], cwd=src, env=env)
    if r.returncode != 0:
        sys.exit(r.returncode)
sys.exit(subprocess.run([binp] + sys.argv[1:]).returncode)
