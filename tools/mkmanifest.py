#!/usr/bin/env python3
"""writes MANIFEST.json from tools/props.py and tools/manifest_text.py"""
import json, os, sys
here = os.path.dirname(os.path.abspath(__file__))
sys.path.insert(0, here)
from props import PROPS
from manifest_text import TEXT, NOT_APPLICABLE, HOOK_COMMITS, ALL, _pending
NOT_APPLICABLE = NOT_APPLICABLE + [_pending(p) for p in ALL if p not in PROPS and p not in [x['property_id'] for x in NOT_APPLICABLE]]
checks = []
for pid in sorted(PROPS):
    t = dict(TEXT[pid])
    if 'TestE2E' in PROPS[pid]['tests']:
        t['level'] = t['level'] + (' Also observed end to end on the real kernel: the unmodified psa-dhcpd and psa-dhcpc binaries (real AF_PACKET sockets, netlink, main functions) over a veth pair '
                                   'in a private network namespace, every frame captured with its link-layer header, interface configuration, routes and open sockets read from the kernel.')
        t['note'] = t['note'] + ' End-to-end run: both veth ends share one network stack (arp_ignore=1); skipped with a note in the evidence where network namespaces are unavailable.'
    checks.append(dict(
        property_id=pid,
        quick_cmd='python3 tools/check.py %s quick' % pid,
        thorough_cmd='python3 tools/check.py %s thorough' % pid,
        evidence_file='/verif/evidence/%s.json' % pid,
        replay_cmd_template='python3 tools/check.py %s --replay {path}' % pid,
        engine='coq-model+harness',
        level_claimed=dict(category=PROPS[pid].get('level', 'proof'), text=t['level'], design_ref=t.get('design', 'DESIGN.md section 5, ' + pid)),
        level_note=t['note'],
        technique=t['technique'],
    ))
m = dict(
    version=1,
    setup_cmd='bash tools/setup.sh',
    hooks=dict(guard='verif (Go build tag)', enable='go1.26.8 test -c -tags verif (harness module with replace => /repo)',
               baseline_off_cmd='cd /repo && GOFLAGS=-mod=mod GOPROXY=off GOSUMDB=off go test -vet=off -count=1 ./lib/...',
               source_commits=HOOK_COMMITS, add_only=True),
    engines=[dict(name='coq-model+harness', path='/verif/coq, /verif/ocaml, /verif/harness, /verif/tools',
                  serves_properties=sorted(PROPS),
                  kind_free_text='Coq 8.16 models and theorems; extracted OCaml model run against observations of the real Go code produced by a verif-tagged harness')],
    checks=checks,
    not_applicable=NOT_APPLICABLE,
    notes='See DESIGN.md. Known findings: known_findings.json.',
)
json.dump(m, open(os.path.join(os.path.dirname(here), 'MANIFEST.json'), 'w'), indent=1)
print('MANIFEST.json: %d checks, %d not applicable' % (len(checks), len(NOT_APPLICABLE)))
