package harness

import (
	"context"
	"encoding/binary"
	"fmt"
	"math/rand"
	"net"
	"testing"
	"testing/synctest"
	"time"

	"git.sr.ht/~adrian-blx/psa-dhcp/lib/server/ipdb"
)

type dbOp struct {
	kind    int // 1 update 2 lookup 3 addperm 4 find 5 advance 6 inrange 7 hold 8 offer
	ip      net.IP
	duid    []byte
	ttl     time.Duration
	busy    []uint32 // addresses whose probe says "in use"
	probeNs time.Duration
	dt      time.Duration
}

type dbCfg struct {
	network  uint32
	mask     uint32
	hasRange bool
	rb, re   net.IP
	disabled bool
}

func optIPL(ip net.IP) (uint64, uint64) {
	if ip == nil || ip.To4() == nil {
		return 0, 0
	}
	return 1, ipU32(ip)
}

// runDBHistory executes one history on a fresh IPDB inside a synctest bubble and writes the case.
func runDBHistory(t *testing.T, c *caseWriter, kind string, cfg dbCfg, ops []dbOp) {
	synctest.Test(t, func(t *testing.T) {
		start := time.Now()
		rel := func() uint64 { return uint64(time.Since(start)) }
		mk := make(net.IPMask, 4)
		binary.BigEndian.PutUint32(mk, cfg.mask)
		db, err := ipdb.New(ip4(cfg.network), mk)
		if err != nil {
			return
		}
		rs, rbv := optIPL(cfg.rb)
		es, rev := optIPL(cfg.re)
		cl := L{uint64(cfg.network), uint64(cfg.mask), b2n(cfg.hasRange), rs, rbv, es, rev, b2n(cfg.disabled)}
		a := []interface{}{cl}
		var outs []interface{}
		if cfg.hasRange {
			if err := db.SetDynamicRange(cfg.rb, cfg.re); err != nil {
				c.add(1101, kind+"/badrange", false, a, args(L{0}))
				return
			}
		}
		if cfg.disabled {
			db.DisableDynamic()
		}
		nf, nt, df, dto := db.VerifRanges()
		outs = append(outs, L{1, uint64(nf), uint64(nt), uint64(df), uint64(dto)})
		panicked := false
		for _, op := range ops {
			s, v := optIPL(op.ip)
			op := op
			if safely(func() {
				switch op.kind {
				case 1:
					neg, abs := uint64(0), uint64(op.ttl)
					if op.ttl < 0 {
						neg, abs = 1, uint64(-op.ttl)
					}
					a = append(a, L{1, s, v, neg, abs}, B(op.duid), L{})
					err := db.UpdateClient(op.ip, op.duid, op.ttl)
					outs = append(outs, L{b2n(err == nil)})
				case 2:
					a = append(a, L{2}, B(op.duid), L{})
					ip, err := db.LookupClientByDuid(op.duid)
					if err != nil {
						outs = append(outs, L{})
					} else {
						outs = append(outs, L{ipU32(ip)})
					}
				case 3:
					a = append(a, L{3, s, v}, B(op.duid), L{})
					err := db.AddPermanentClient(op.ip, op.duid)
					outs = append(outs, L{b2n(err == nil)})
				case 4:
					probes := map[uint32]uint64{}
					isFree := func(ctx context.Context, ip net.IP) bool {
						n := uint32(ipU32(ip))
						probes[n] = rel()
						time.Sleep(op.probeNs)
						for _, b := range op.busy {
							if b == n {
								return false
							}
						}
						return true
					}
					res, err := db.FindIP(context.Background(), isFree, op.ip, op.duid)
					rsome, rv, tl := uint64(0), uint64(0), rel()
					if err == nil {
						rsome, rv = 1, ipU32(res)
						if t0, ok := probes[uint32(rv)]; ok {
							tl = t0
						}
					}
					busy := L{}
					for _, b := range op.busy {
						busy = append(busy, uint64(b))
					}
					a = append(a, L{4, s, v, rsome, rv, tl, rel()}, B(op.duid), busy)
					outs = append(outs, L{1})
				case 7:
					neg, abs := uint64(0), uint64(op.ttl)
					if op.ttl < 0 {
						neg, abs = 1, uint64(-op.ttl)
					}
					a = append(a, L{7, s, v, neg, abs}, B(op.duid), L{})
					err := db.HoldClient(op.ip, op.duid, op.ttl)
					outs = append(outs, L{b2n(err == nil)})
				case 8:
					probes := map[uint32]uint64{}
					isFree := func(ctx context.Context, ip net.IP) bool {
						n := uint32(ipU32(ip))
						probes[n] = rel()
						time.Sleep(op.probeNs)
						for _, b := range op.busy {
							if b == n {
								return false
							}
						}
						return true
					}
					res, err := db.OfferIP(context.Background(), isFree, op.ip, op.duid, op.ttl)
					rsome, rv, tl := uint64(0), uint64(0), rel()
					if err == nil {
						rsome, rv = 1, ipU32(res)
						if t0, ok := probes[uint32(rv)]; ok {
							tl = t0
						}
					}
					busy := L{}
					for _, b := range op.busy {
						busy = append(busy, uint64(b))
					}
					neg, abs := uint64(0), uint64(op.ttl)
					if op.ttl < 0 {
						neg, abs = 1, uint64(-op.ttl)
					}
					a = append(a, L{8, s, v, rsome, rv, tl, rel(), neg, abs}, B(op.duid), busy)
					outs = append(outs, L{1})
				case 5:
					time.Sleep(op.dt)
					a = append(a, L{5, uint64(op.dt)}, B(nil), L{})
					outs = append(outs, L{})
				case 6:
					a = append(a, L{6, s, v}, B(nil), L{})
					outs = append(outs, L{b2n(db.InManagedRange(op.ip))})
				}
			}) {
				panicked = true
				break
			}
		}
		if panicked {
			c.add(1101, kind+"/panic", true, a, resPanic())
			return
		}
		c.add(1101, kind, len(ops) > 0, a, outs)
	})
}

func TestC11(t *testing.T) {
	c := newCaseWriter(t, "c11")
	defer c.close(t, "c11")
	r := newRand(11)

	// small scope: network 10.0.0.0/29 (hosts .1-.6), dynamic range .2-.3
	cfg := dbCfg{network: 0x0a000000, mask: 0xfffffff8, hasRange: true, rb: ip4(0x0a000002), re: ip4(0x0a000003)}
	a1, a2 := ip4(0x0a000002), ip4(0x0a000003)
	d1, d2 := []byte{0, 3, 0, 0, 1}, []byte{0, 3, 0, 0, 2}
	var alpha []dbOp
	for _, ip := range []net.IP{a1, a2} {
		for _, d := range [][]byte{d1, d2} {
			for _, ttl := range []time.Duration{-time.Second, 5 * time.Second} {
				alpha = append(alpha, dbOp{kind: 1, ip: ip, duid: d, ttl: ttl})
			}
			alpha = append(alpha, dbOp{kind: 3, ip: ip, duid: d})
		}
	}
	for _, d := range [][]byte{d1, d2} {
		alpha = append(alpha, dbOp{kind: 2, duid: d})
	}
	for _, sg := range []net.IP{nil, a1, a2} {
		for _, busy := range [][]uint32{nil, {0x0a000002}, {0x0a000003}, {0x0a000002, 0x0a000003}} {
			alpha = append(alpha, dbOp{kind: 4, ip: sg, duid: d1, busy: busy, probeNs: 600 * time.Millisecond})
		}
	}
	for _, ip := range []net.IP{a1, a2} {
		alpha = append(alpha, dbOp{kind: 7, ip: ip, duid: d1, ttl: 3 * time.Second})
	}
	alpha = append(alpha, dbOp{kind: 8, ip: a1, duid: d2, ttl: 3 * time.Second, probeNs: 600 * time.Millisecond},
		dbOp{kind: 8, ip: nil, duid: d2, busy: []uint32{0x0a000002}, ttl: 3 * time.Second, probeNs: 600 * time.Millisecond})
	alpha = append(alpha, dbOp{kind: 5, dt: time.Second}, dbOp{kind: 5, dt: 6 * time.Second})
	depth := scale(3, 4)
	var rec func(pre []dbOp)
	rec = func(pre []dbOp) {
		if len(pre) == depth {
			runDBHistory(t, c, "exhaustive", cfg, pre)
			return
		}
		for _, o := range alpha {
			rec(append(append([]dbOp{}, pre...), o))
		}
	}
	rec(nil)

	// a big table: more than 2 000 identities with live and expired bindings around permanent ones (anything that tidies the
	// table up when it grows must leave every entry that is in force - permanent ones above all - where it is)
	for rep := 0; rep < scale(1, 4); rep++ {
		big := dbCfg{network: 0x0a320000, mask: 0xffff0000, hasRange: true, rb: ip4(0x0a320100), re: ip4(0x0a320cff)}
		perm1, perm2 := []byte{0, 3, 0, 0, 2, 0xaa, 0, 0, 0, 1}, []byte{0, 3, 0, 0, 2, 0xbb, 0, 0, 0, 9}
		ops := []dbOp{{kind: 3, ip: ip4(0x0a320009), duid: perm1}, {kind: 3, ip: ip4(0x0a320105), duid: perm2}}
		n := 2100 + r.Intn(300)
		for i := 0; i < n; i++ {
			ttl := time.Hour
			if i%3 == 0 {
				ttl = 2 * time.Second // in the table, and run out before the history ends (the clock advances 4 s)
			}
			ops = append(ops, dbOp{kind: 1, ip: ip4(0x0a320200 + uint32(i)), duid: []byte{0xb0, byte(i >> 8), byte(i), byte(rep), 7}, ttl: ttl})
			if i%500 == 499 {
				ops = append(ops, dbOp{kind: 2, duid: perm1}, dbOp{kind: 2, duid: perm2}, dbOp{kind: 5, dt: time.Second})
			}
		}
		ops = append(ops, dbOp{kind: 2, duid: perm1}, dbOp{kind: 2, duid: perm2},
			dbOp{kind: 1, ip: ip4(0x0a320009), duid: []byte{0xc0, 1}, ttl: time.Hour}, // the reserved address is not available to anybody else
			dbOp{kind: 4, ip: nil, duid: perm2, probeNs: 0}, dbOp{kind: 2, duid: []byte{0xb0, 0, 1, byte(rep), 7}})
		runDBHistory(t, c, "big-table", big, ops)
	}

	// a dynamic range of more addresses than 16 bits count: suggestions and bindings far into it
	{
		wide := dbCfg{network: 0x0a000000, mask: 0xff000000, hasRange: true, rb: ip4(0x0a000100), re: ip4(0x0a012800)}
		at := func(off uint32) net.IP { return ip4(0x0a000100 + off) }
		ida, idb, idc := []byte{0xd0, 1}, []byte{0xd0, 2}, []byte{0xd0, 3}
		ops := []dbOp{
			{kind: 4, ip: at(70001), duid: ida},
			{kind: 1, ip: at(70001), duid: ida, ttl: time.Hour},
			{kind: 4, ip: at(70001), duid: idb},
			{kind: 8, ip: at(66002), duid: idb, ttl: 15 * time.Second},
			{kind: 2, duid: idb},
			{kind: 4, ip: at(65536 + 5), duid: idc},
			{kind: 1, ip: at(65536 + 5), duid: idc, ttl: time.Hour},
			{kind: 2, ip: at(5), duid: nil},
			{kind: 2, ip: at(65536 + 5), duid: nil},
			{kind: 4, ip: at(75000), duid: []byte{0xd0, 4}},
		}
		runDBHistory(t, c, "wide-range", wide, ops)
	}

	// random histories over 3-5 addresses x 3 identities, several configurations
	cfgs := []dbCfg{
		{network: 0x0a000000, mask: 0xfffffff8},
		{network: 0x0a000000, mask: 0xfffffff8, hasRange: true, rb: ip4(0x0a000002), re: ip4(0x0a000004)},
		{network: 0x0a000000, mask: 0xfffffff8, disabled: true},
		{network: 0xc0a80100, mask: 0xffffff00, hasRange: true, rb: ip4(0xc0a801fd), re: ip4(0xc0a801fe)}, // .253-.254, next to .255
		{network: 0xc0a80000, mask: 0xfffffe00, hasRange: true, rb: ip4(0xc0a800fe), re: ip4(0xc0a80101)},  // spans .255 and .0
		{network: 0x0a000005, mask: 0xfffffff8}, // network address given with host bits
	}
	for i := 0; i < scale(1500, 40000); i++ {
		cf := cfgs[r.Intn(len(cfgs))]
		mk := make(net.IPMask, 4)
		binary.BigEndian.PutUint32(mk, cf.mask)
		lo := (cf.network & cf.mask)
		size := ^cf.mask
		pickIP := func() net.IP {
			switch r.Intn(12) {
			case 0:
				return nil
			case 1:
				return ip4(lo) // network address
			case 2:
				return ip4(lo + size) // broadcast
			case 3:
				return ip4(lo + size + 1 + uint32(r.Intn(3))) // outside
			case 4:
				return net.ParseIP("2001:db8::1")
			}
			if cf.hasRange && r.Intn(2) == 0 {
				b, e := uint32(ipU32(cf.rb)), uint32(ipU32(cf.re))
				return ip4(b + uint32(r.Intn(int(e-b+1))))
			}
			return ip4(lo + 1 + uint32(r.Intn(int(minU32(size-1, 6)))))
		}
		duids := [][]byte{{0, 3, 0, 0, 1}, {0, 3, 0, 0, 2}, {9, 9, 9, 9}, {}}
		if i%3 == 1 { // identities of every shape: long ones that differ only in their last byte or only beyond the 16th, one a prefix of another
			long := randBytes(r, 16+r.Intn(8))
			l2 := append(append([]byte{}, long...), 1)
			l3 := append(append([]byte{}, long...), 2)
			l4 := append(append([]byte{}, long[:len(long)-1]...), long[len(long)-1]^1)
			duids = [][]byte{long, l2, l3, l4, long[:16], {0, 3, 0, 0, 1}, {0xff}, randBytes(r, 1+r.Intn(40))}
		}
		if i%3 == 2 { // identities that spell an address of the network in four octets, or its text form
			a, b := lo+1+uint32(r.Intn(int(minU32(size-1, 6)))), lo+1+uint32(r.Intn(int(minU32(size-1, 6))))
			// ... or the text under which the table itself files an address / another identity
			duids = [][]byte{u32b(a), u32b(b), []byte(ip4(a).String()), {0, 3, 0, 0, 1}, {}, []byte(fmt.Sprintf("uip(%x)", a)), []byte(fmt.Sprintf("uip(%x)", b)), []byte("<duid:00-03-00-00-01>")}
		}
		n := 6 + r.Intn(35)
		var ops []dbOp
		for j := 0; j < n; j++ {
			d := duids[r.Intn(len(duids))]
			switch r.Intn(13) {
			case 10:
				ops = append(ops, dbOp{kind: 7, ip: pickIP(), duid: d, ttl: []time.Duration{-time.Second, 0, time.Second, 5 * time.Second, 15 * time.Second}[r.Intn(5)]})
			case 11, 12:
				var busy []uint32
				for k := 0; k < r.Intn(4); k++ {
					if ip := pickIP(); ip != nil && ip.To4() != nil {
						busy = append(busy, uint32(ipU32(ip)))
					}
				}
				ops = append(ops, dbOp{kind: 8, ip: pickIP(), duid: d, busy: busy, ttl: []time.Duration{time.Second, 5 * time.Second, 15 * time.Second}[r.Intn(3)], probeNs: []time.Duration{0, 200 * time.Millisecond, 600 * time.Millisecond}[r.Intn(3)]})
			case 0, 1, 2:
				ops = append(ops, dbOp{kind: 1, ip: pickIP(), duid: d, ttl: []time.Duration{-time.Second, 0, time.Second, 5 * time.Second, 15 * time.Second}[r.Intn(5)]})
			case 3:
				ops = append(ops, dbOp{kind: 2, duid: d})
			case 4:
				ops = append(ops, dbOp{kind: 3, ip: pickIP(), duid: d})
			case 5, 6, 7:
				var busy []uint32
				for k := 0; k < r.Intn(4); k++ {
					if ip := pickIP(); ip != nil && ip.To4() != nil {
						busy = append(busy, uint32(ipU32(ip)))
					}
				}
				ops = append(ops, dbOp{kind: 4, ip: pickIP(), duid: d, busy: busy, probeNs: []time.Duration{0, 200 * time.Millisecond, 600 * time.Millisecond}[r.Intn(3)]})
			case 8:
				ops = append(ops, dbOp{kind: 5, dt: []time.Duration{time.Millisecond, time.Second, 4 * time.Second, 6 * time.Second, 16 * time.Second}[r.Intn(5)]})
			case 9:
				ops = append(ops, dbOp{kind: 6, ip: pickIP()})
			}
		}
		runDBHistory(t, c, "random", cf, ops)
	}

	// fromTo arithmetic: every prefix length on assorted addresses
	for bits := 0; bits <= 32; bits++ {
		for _, n := range []uint32{0, 0x0a000005, 0xc0a801ff, 0xffffffff, 0x7f000001, r.Uint32()} {
			var m uint32
			if bits > 0 {
				m = ^uint32(0) << (32 - bits)
			}
			mk := make(net.IPMask, 4)
			binary.BigEndian.PutUint32(mk, m)
			f, tt, err := ipdb.VerifFromTo(ip4(n), mk)
			if err == nil {
				c.add(1102, "fromto", true, args(L{uint64(n), uint64(m)}), args(L{uint64(f), uint64(tt)}))
			}
		}
	}
}

func minU32(a, b uint32) uint32 {
	if a < b {
		return a
	}
	return b
}

var _ = rand.Int
