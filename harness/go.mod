module verifharness

go 1.26.8

require git.sr.ht/~adrian-blx/psa-dhcp v0.0.0

require (
	github.com/golang/protobuf v1.5.2 // indirect
	google.golang.org/protobuf v1.26.0 // indirect
)

replace git.sr.ht/~adrian-blx/psa-dhcp => /repo
