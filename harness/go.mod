module verifharness

go 1.26.8

require (
	git.sr.ht/~adrian-blx/psa-dhcp v0.0.0
	github.com/golang/protobuf v1.5.2
)

require (
	golang.org/x/time v0.0.0-20211116232009-f0f3c7e86c11 // indirect
	google.golang.org/protobuf v1.26.0 // indirect
)

replace git.sr.ht/~adrian-blx/psa-dhcp => /repo
