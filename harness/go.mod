module verifharness

go 1.26.8

require git.sr.ht/~adrian-blx/psa-dhcp v0.0.0

replace git.sr.ht/~adrian-blx/psa-dhcp => /repo
