package harness

// C20: resolv.conf is replaced atomically.  The real psa-dhcpc binary (built from the tree under test), started with
// -syshook in a chroot, on the real kernel.
//
// Tags (model side: coq/model/Dispatch.v, dispatch_c20; model coq/model/Fs.v; checks coq/spec/SpecFs.v):
//   2001 one writer under strace, optionally with a fault injected into / a SIGKILL delivered before one of its calls:
//        the file-system calls it issued on etc/ (openat O_CREAT|O_EXCL, write, close, fchmodat, renameat, unlinkat)  -> model's events
//   2002 the same run: how the process ended (0 / error / killed), the directory afterwards (names, contents, modes)   -> model's outcome, directory
//   2010 monitor: one sample (content + mode through one descriptor) taken by a reader while 2-8 writers run            -> sample_ok
//   2012 monitor: one sample (content only)                                                                           -> content_ok
//   2011 monitor: directory listing (contents, modes) after concurrent writers, some of them killed at random instants  -> dir_ok / quiet_ok

import (
	"bytes"
	"fmt"
	"math/rand"
	"os"
	"path/filepath"
	"regexp"
	"sort"
	"strconv"
	"strings"
	"sync"
	"sync/atomic"
	"syscall"
	"testing"
	"time"
)

const (
	c20Strace = "/usr/bin/strace"
	c20Chroot = "/usr/sbin/chroot"
	c20Trace  = "trace=execve,openat,?open,?creat,write,close,fchmodat,?fchmodat2,?chmod,fchmod,renameat,?renameat2,?rename,unlinkat,?unlink,?link,linkat,truncate,ftruncate,fsync,fdatasync,?sync_file_range,?syncfs"
)

type c20File struct {
	name string
	data []byte
	mode uint32
	link string // non-empty: the name is a symbolic link to this file of the same directory (which holds data / mode)
}

// ---- the directory of one chroot ----

func c20Reset(root string, init []c20File) error {
	etc := filepath.Join(root, "etc")
	ents, err := os.ReadDir(etc)
	if err != nil {
		return err
	}
	for _, e := range ents {
		if err := os.Remove(filepath.Join(etc, e.Name())); err != nil {
			return err
		}
	}
	for _, f := range init {
		p := filepath.Join(etc, f.name)
		if f.link != "" {
			// what a reader sees through the link is the target (already written: it is listed before the link)
			if err := os.Symlink(f.link, p); err != nil {
				return err
			}
			continue
		}
		if err := os.WriteFile(p, f.data, 0o600); err != nil {
			return err
		}
		if err := os.Chmod(p, os.FileMode(f.mode)); err != nil {
			return err
		}
	}
	return nil
}

func c20List(root string) ([]c20File, error) {
	etc := filepath.Join(root, "etc")
	ents, err := os.ReadDir(etc)
	if err != nil {
		return nil, err
	}
	var res []c20File
	for _, e := range ents {
		p := filepath.Join(etc, e.Name())
		fi, err := os.Lstat(p)
		if err != nil {
			return nil, err
		}
		if !fi.Mode().IsRegular() {
			res = append(res, c20File{name: e.Name(), mode: 0xffff})
			continue
		}
		b, err := os.ReadFile(p)
		if err != nil {
			return nil, err
		}
		res = append(res, c20File{name: e.Name(), data: b, mode: uint32(fi.Mode() & 0o7777)})
	}
	sort.Slice(res, func(i, j int) bool { return res[i].name < res[j].name })
	return res, nil
}

func c20FileArgs(fs []c20File) []interface{} {
	var a []interface{}
	for _, f := range fs {
		a = append(a, B(f.name), B(f.data), L{uint64(f.mode)})
	}
	return a
}

// ---- strace output ----

type c20Call struct {
	pid      string
	name     string
	args     string
	ret      string
	injected bool
	ord      int // ordinal of this call among the calls of the same name by the same pid (what strace's when= counts)
	step     int // -1, or 0..4 = create/write/close/chmod/rename, 5 = remove
	ev       []interface{}
}

var (
	c20Quoted = regexp.MustCompile(`"((?:[^"\\]|\\.)*)"`)
	c20Octal  = regexp.MustCompile(`(?:^|, )(0[0-7]*)$`)
)

// parseTrace returns the calls after the execve of the binary that concern etc/ or the descriptor of the temp file.
func c20ParseTrace(text string) (calls []*c20Call, started bool, all []*c20Call) {
	pending := map[string]string{}
	count := map[string]int{}
	tmpfd := map[string]bool{} // descriptors opened on etc/ with O_CREAT (shared by all threads)
	for _, line := range strings.Split(text, "\n") {
		sp := strings.IndexByte(line, ' ')
		if sp <= 0 {
			continue
		}
		pid, rest := line[:sp], strings.TrimLeft(line[sp:], " ")
		if strings.HasPrefix(rest, "+++") || strings.HasPrefix(rest, "---") {
			continue
		}
		if strings.HasPrefix(rest, "<... ") {
			i := strings.Index(rest, " resumed>")
			if i < 0 {
				continue
			}
			rest = pending[pid] + rest[i+len(" resumed>"):]
			delete(pending, pid)
		} else {
			// a call counts (for when=) when it is entered
			if i := strings.IndexByte(rest, '('); i > 0 {
				count[pid+"/"+rest[:i]]++
			}
			if strings.HasSuffix(rest, "<unfinished ...>") {
				pending[pid] = strings.TrimSuffix(rest, "<unfinished ...>")
				continue
			}
		}
		i := strings.IndexByte(rest, '(')
		e := strings.LastIndex(rest, " = ") // "close(5)          = 0": the result is aligned with blanks
		if i <= 0 || e < i {
			continue
		}
		j := len(strings.TrimRight(rest[:e], " ")) - 1
		if j < i || rest[j] != ')' {
			continue
		}
		c := &c20Call{pid: pid, name: rest[:i], args: strings.TrimSpace(rest[i+1 : j]), // (an '<unfinished ...>' call leaves a blank before the resumed ')')
			 ret: strings.TrimSpace(rest[e+3:]), step: -1}
		c.ord = count[pid+"/"+c.name]
		c.injected = strings.Contains(c.ret, "(INJECTED)")
		all = append(all, c)
		if c.ret == "?" || strings.HasPrefix(c.ret, "?") {
			continue // the call during which the process was killed: not executed
		}
		ok := !strings.HasPrefix(c.ret, "-1")
		strs := c20Quoted.FindAllStringSubmatch(c.args, -1)
		str := func(k int) string {
			if k < len(strs) {
				return strs[k][1]
			}
			return ""
		}
		inEtc := func(p string) bool { return strings.HasPrefix(p, "/etc/") && p != "/etc/localtime" }
		octal := func(s string) uint64 {
			if m := c20Octal.FindStringSubmatch(s); m != nil {
				v, _ := strconv.ParseUint(m[1], 8, 32)
				return v
			}
			return 99999
		}
		if c.name == "execve" {
			if str(0) == "/psa-dhcpc" && ok {
				started, calls = true, nil
			}
			continue
		}
		if !started {
			continue
		}
		switch c.name {
		case "openat", "open", "creat":
			p := str(0)
			if !inEtc(p) {
				continue
			}
			mode := uint64(99998) // not an exclusive creation: no model event has this mode
			if strings.Contains(c.args, "O_CREAT") && strings.Contains(c.args, "O_EXCL") && strings.Contains(c.args, "O_RDWR") {
				mode = octal(c.args)
			}
			if ok {
				tmpfd[strings.Fields(c.ret)[0]] = true
			}
			c.step, c.ev = 0, args(L{1, mode}, B(p))
		case "write":
			fd := strings.TrimSpace(strings.SplitN(c.args, ",", 2)[0])
			if !tmpfd[fd] {
				continue
			}
			n, _ := strconv.ParseUint(strings.TrimSpace(c.args[strings.LastIndex(c.args, ",")+1:]), 10, 64)
			c.step, c.ev = 1, args(L{2, n})
		case "close":
			fd := strings.TrimSpace(c.args)
			if !tmpfd[fd] {
				continue
			}
			if ok {
				delete(tmpfd, fd)
			}
			c.step, c.ev = 2, args(L{3})
		case "fchmodat", "fchmodat2", "chmod":
			p := str(0)
			if !inEtc(p) {
				continue
			}
			a := c.args
			if k := strings.LastIndex(a, ", AT_"); k > 0 && c.name != "chmod" && !strings.HasPrefix(a[k+2:], "AT_FDCWD") {
				a = a[:k] // a flags argument
			}
			c.step, c.ev = 3, args(L{4, octal(a)}, B(p))
		case "renameat", "renameat2", "rename":
			if !inEtc(str(0)) && !inEtc(str(1)) {
				continue
			}
			c.step, c.ev = 4, args(L{5}, B(str(0)), B(str(1)))
		case "unlinkat", "unlink":
			p := str(0)
			if !inEtc(p) {
				continue
			}
			c.step, c.ev = 5, args(L{6}, B(p))
			if strings.Contains(c.args, "AT_REMOVEDIR") { // os.Remove falls back to rmdir when unlink failed
				c.step, c.ev = 7, args(L{8}, B(p))
			}
		case "fchmod", "ftruncate":
			fd := strings.TrimSpace(strings.SplitN(c.args, ",", 2)[0])
			if !tmpfd[fd] {
				continue
			}
			c.step, c.ev = 6, args(L{7}) // no such call in the model
		case "link", "linkat", "truncate":
			if !inEtc(str(0)) && !inEtc(str(1)) {
				continue
			}
			c.step, c.ev = 6, args(L{7})
		default:
			continue
		}
		calls = append(calls, c)
	}
	return
}

// ---- one traced writer ----

type c20Scenario struct {
	kind    string
	envp    []string
	init    []c20File
	faults  []int // steps (0..5) whose call is made to fail
	killAt  int   // -1, or the step (0..5) before which SIGKILL is delivered
	errno   string
	outcome uint64
	calls   []*c20Call
	final   []c20File
	note    string // non-empty: the run could not be carried out as planned (not a verdict)
	late    string     // "name:when": a fault injected into this call, which comes after the rename (see c20Late)
	all     []*c20Call // every traced call of the run
}

// position of a step in the model's schedule (its j-th step) given the faults before it
func (sc *c20Scenario) schedIndex(step int) int {
	if step <= 4 {
		return step
	}
	// the removal follows the first failing call; a failing write is still followed by close
	f := sc.faults[0]
	if f <= 1 {
		return 3
	}
	return f + 1
}

type c20Ordinals map[int][2]string // step -> syscall name, when=

func c20Start(root string, envp []string, traceFile string, inject []string) (*os.Process, error) {
	devnull, err := os.OpenFile(os.DevNull, os.O_RDWR, 0)
	if err != nil {
		return nil, err
	}
	defer devnull.Close()
	var argv []string
	exe := "/psa-dhcpc"
	attr := &os.ProcAttr{Dir: "/", Env: envp, Files: []*os.File{devnull, devnull, devnull}}
	if traceFile == "" {
		argv = []string{"psa-dhcpc", "-syshook"}
		attr.Sys = &syscall.SysProcAttr{Chroot: root}
	} else {
		exe = c20Strace
		argv = []string{"strace", "-f", "-s", "8", "-o", traceFile, "-e", c20Trace}
		for _, in := range inject {
			argv = append(argv, "-e", "inject="+in)
		}
		argv = append(argv, c20Chroot, root, "/psa-dhcpc", "-syshook")
	}
	if envp == nil {
		attr.Env = []string{}
	}
	return os.StartProcess(exe, argv, attr)
}

func c20Wait(p *os.Process) (outcome uint64, note string) {
	done := make(chan struct{})
	go func() {
		select {
		case <-done:
		case <-time.After(30 * time.Second):
			p.Kill()
		}
	}()
	st, err := p.Wait()
	close(done)
	if err != nil {
		return 9, "wait: " + err.Error()
	}
	ws := st.Sys().(syscall.WaitStatus)
	switch {
	case ws.Signaled() && ws.Signal() == syscall.SIGKILL:
		return 2, ""
	case ws.Exited() && ws.ExitStatus() == 0:
		return 0, ""
	case ws.Exited():
		return 1, ""
	}
	return 9, "ended with " + st.String()
}

func (sc *c20Scenario) run(root string, ords c20Ordinals) {
	sc.note, sc.calls, sc.final = "", nil, nil
	if err := c20Reset(root, sc.init); err != nil {
		sc.note = "reset: " + err.Error()
		return
	}
	var inject []string
	for _, f := range sc.faults {
		o, ok := ords[f]
		if !ok {
			sc.note = fmt.Sprintf("no call for step %d in the reference run", f)
			return
		}
		inject = append(inject, fmt.Sprintf("%s:error=%s:when=%s", o[0], sc.errno, o[1]))
	}
	if sc.late != "" {
		nw := strings.SplitN(sc.late, ":", 2)
		inject = append(inject, fmt.Sprintf("%s:error=%s:when=%s", nw[0], sc.errno, nw[1]))
	}
	if sc.killAt >= 0 {
		o, ok := ords[sc.killAt]
		if !ok {
			sc.note = fmt.Sprintf("no call for step %d in the reference run", sc.killAt)
			return
		}
		inject = append(inject, fmt.Sprintf("%s:signal=KILL:when=%s", o[0], o[1]))
	}
	tf := root + ".trace"
	os.Remove(tf)
	p, err := c20Start(root, sc.envp, tf, inject)
	if err != nil {
		sc.note = "start: " + err.Error()
		return
	}
	sc.outcome, sc.note = c20Wait(p)
	if sc.note != "" {
		return
	}
	raw, err := os.ReadFile(tf)
	if err != nil {
		sc.note = "trace: " + err.Error()
		return
	}
	os.Remove(tf)
	var started bool
	sc.calls, started, sc.all = c20ParseTrace(string(raw))
	if !started {
		sc.note = "the binary was not started: " + string(raw[:min(len(raw), 300)])
		return
	}
	if sc.final, err = c20List(root); err != nil {
		sc.note = "list: " + err.Error()
		return
	}
	// did the injections land on the intended calls?  (when= counts per thread; a goroutine may move)
	for _, f := range sc.faults {
		hit := false
		for _, c := range sc.calls {
			if c.step == f && c.injected {
				hit = true
			}
		}
		if !hit {
			sc.note = fmt.Sprintf("retry: fault for step %d not delivered to that call", f)
		}
	}
	ninj := 0
	for _, c := range sc.calls {
		if c.injected {
			ninj++
		}
	}
	if ninj != len(sc.faults) && sc.late == "" {
		sc.note = "retry: injected calls differ from the plan"
	}
	if sc.killAt >= 0 && sc.outcome != 2 {
		sc.note = "retry: SIGKILL not delivered"
	}
}

// ordinals of the writer's calls, from a run without injection (plus one with a failing chmod, to see the unlink)
func c20Reference(root string, envp []string) (c20Ordinals, string) {
	ords := c20Ordinals{}
	sc := &c20Scenario{envp: envp, killAt: -1}
	sc.run(root, ords)
	if sc.note != "" {
		return nil, sc.note
	}
	for _, c := range sc.calls {
		if _, dup := ords[c.step]; !dup && c.step >= 0 && c.step <= 4 {
			ords[c.step] = [2]string{c.name, strconv.Itoa(c.ord)}
		}
	}
	if _, ok := ords[3]; ok {
		sc2 := &c20Scenario{envp: envp, killAt: -1, faults: []int{3}, errno: "EIO"}
		sc2.run(root, ords)
		for _, c := range sc2.calls {
			if c.step == 5 {
				ords[5] = [2]string{c.name, strconv.Itoa(c.ord)}
			}
		}
	}
	return ords, ""
}

// c20Late lists ("name:when") the calls of an undisturbed run that touch the file system after the rename succeeded: a
// synchronisation of a file or directory, another open / chmod / rename / unlink under etc/ or of etc/ itself.  The program as it
// stands makes none; a version that does has made the new file visible before them, and a fault there must not be reported as a
// failed update ("an update that fails leaves the previous file in place").
func c20Late(root string, envp []string, init []c20File) []string {
	sc := &c20Scenario{envp: envp, init: init, killAt: -1}
	sc.run(root, c20Ordinals{})
	if sc.note != "" {
		return nil
	}
	var out []string
	renamed := false
	for _, c := range sc.all {
		if !renamed {
			renamed = (c.name == "renameat" || c.name == "renameat2" || c.name == "rename") && strings.Contains(c.args, "/etc/") && !strings.HasPrefix(c.ret, "-1")
			continue
		}
		switch c.name {
		case "fsync", "fdatasync", "sync_file_range", "syncfs":
		case "openat", "open", "creat", "fchmodat", "fchmodat2", "chmod", "renameat", "renameat2", "rename", "unlinkat", "unlink":
			if !strings.Contains(c.args, "\"/etc") {
				continue
			}
		default:
			continue
		}
		out = append(out, c.name+":"+strconv.Itoa(c.ord))
	}
	return out
}

func (sc *c20Scenario) emit(c *caseWriter) {
	var mask uint64
	for _, f := range sc.faults {
		mask |= 1 << uint(sc.schedIndex(f))
	}
	killat := uint64(0)
	if sc.killAt >= 0 {
		killat = uint64(sc.schedIndex(sc.killAt)) + 1
	}
	r := ""
	for _, cl := range sc.calls {
		if cl.step == 0 {
			p := string(cl.ev[1].(B))
			p = strings.TrimPrefix(p, "/etc/resolvconf-")
			r = strings.TrimSuffix(p, ".tmp")
			break
		}
	}
	a := args(L{uint64(len(sc.envp)), uint64(len(sc.init)), killat, mask}, B(r))
	a = append(a, bList(sc.envp)...)
	a = append(a, c20FileArgs(sc.init)...)
	ev := args(L{1})
	for _, cl := range sc.calls {
		ev = append(ev, cl.ev...)
	}
	c.add(2001, sc.kind, true, a, ev)
	c.add(2002, sc.kind, true, a, append(args(L{1}, L{sc.outcome}), c20FileArgs(sc.final)...))
	// judged without the model run: the directory is acceptable at any instant; after a return (nil or error) with a
	// working unlink nothing but the initial files and resolv.conf is there
	quiet := sc.outcome != 2
	for _, f := range sc.faults {
		if f == 5 {
			quiet = false
		}
	}
	m := append(args(L{1, uint64(len(sc.init)), uint64(len(sc.final)), b2n(quiet)}, L{uint64(len(sc.envp))}), bList(sc.envp)...)
	m = append(m, c20FileArgs(sc.init)...)
	m = append(m, c20FileArgs(sc.final)...)
	c.add(2011, sc.kind+"/final-dir", true, m, args(L{1}))
}

// ---- inputs ----

func c20Env(r *rand.Rand, nns int, domain bool) []string {
	ns := make([]string, nns)
	for i := range ns {
		ns[i] = fmt.Sprintf("%d.%d.%d.%d", 1+r.Intn(254), r.Intn(256), r.Intn(256), 1+r.Intn(254))
	}
	e := []string{"PSA_DHCPC_DNS_LIST=" + strings.Join(ns, ",")}
	if domain {
		e = append(e, "PSA_DHCPC_DOMAIN_NAME="+c17Hostname(r))
	}
	if r.Intn(2) == 0 {
		e = append([]string{"PATH=/bin", "PSA_DHCPC_MTU=1500"}, e...)
	}
	return e
}

func c20Init(r *rand.Rand, which int) ([]c20File, string) {
	old := c20File{name: "resolv.conf", data: []byte("# old\nnameserver 9.9.9.9\n"), mode: 0o644}
	switch which % 4 {
	case 0:
		return nil, "empty-dir"
	case 1:
		return []c20File{old}, "old-file"
	case 2:
		old.mode = 0o600
		old.data = randBytes(r, 1+r.Intn(200))
		return []c20File{{name: "hosts", data: []byte("127.0.0.1 localhost\n"), mode: 0o644}, old,
			{name: "resolvconf-123.tmp", data: []byte("# written by psa-dhcpc\nnamese"), mode: 0o600}}, "old-0600+hosts+stale-tmp"
	default:
		return []c20File{{name: "resolv.conf.bak", data: []byte("x"), mode: 0o444}, {name: "resolvconf-", data: nil, mode: 0o644}}, "look-alike-names"
	}
}

// ---- concurrent writers ----

type c20Conc struct {
	envs    [][]string
	init    []c20File
	kill    bool
	samples map[string]int // "p|mode|content" (through one descriptor) or "c|content"
	final   []c20File
	failed  int
	killed  int
	notes   []string
	nsamp   int64
}

func (cc *c20Conc) run(root string, r *rand.Rand, rounds int) {
	cc.samples = map[string]int{}
	if err := c20Reset(root, cc.init); err != nil {
		cc.notes = append(cc.notes, "reset: "+err.Error())
		return
	}
	rc := filepath.Join(root, "etc", "resolv.conf")
	stop := make(chan struct{})
	var rwg sync.WaitGroup
	var mu sync.Mutex
	for g := 0; g < 2; g++ {
		rwg.Add(1)
		go func(g int) {
			defer rwg.Done()
			local := map[string]int{}
			n := 0
			for {
				select {
				case <-stop:
					mu.Lock()
					for k, v := range local {
						cc.samples[k] += v
					}
					mu.Unlock()
					atomic.AddInt64(&cc.nsamp, int64(n))
					return
				default:
				}
				n++
				if g == 0 { // content and mode of one open file
					f, err := os.Open(rc)
					if err != nil {
						if os.IsNotExist(err) {
							local["a"]++
						} else {
							local["e|"+err.Error()]++
						}
						continue
					}
					fi, err1 := f.Stat()
					var b []byte
					buf := make([]byte, 1<<16)
					var err2 error
					for {
						k, e := f.Read(buf)
						b = append(b, buf[:k]...)
						if e != nil {
							if e.Error() != "EOF" {
								err2 = e
							}
							break
						}
					}
					f.Close()
					if err1 != nil || err2 != nil {
						local[fmt.Sprintf("e|%v %v", err1, err2)]++
						continue
					}
					local[fmt.Sprintf("p|%d|%s", uint32(fi.Mode()&0o7777), b)]++
				} else {
					b, err := os.ReadFile(rc)
					if err != nil {
						if os.IsNotExist(err) {
							local["a"]++
						} else {
							local["e|"+err.Error()]++
						}
						continue
					}
					local["c|"+string(b)]++
				}
			}
		}(g)
	}
	var wg sync.WaitGroup
	var mu2 sync.Mutex
	// kill instants: a fraction (40-105 %) of the duration of the writer's last complete run
	frac := make([][]int, len(cc.envs))
	for i := range cc.envs {
		for k := 0; k < rounds; k++ {
			frac[i] = append(frac[i], 40+r.Intn(66))
		}
	}
	for i, e := range cc.envs {
		wg.Add(1)
		go func(i int, e []string) {
			defer wg.Done()
			last := 3 * time.Millisecond
			for k := 0; k < rounds; k++ {
				t0 := time.Now()
				p, err := c20Start(root, e, "", nil)
				if err != nil {
					mu2.Lock()
					cc.notes = append(cc.notes, "start: "+err.Error())
					mu2.Unlock()
					return
				}
				if cc.kill && k%2 == 1 {
					time.Sleep(last * time.Duration(frac[i][k]) / 100)
					p.Kill()
				}
				out, note := c20Wait(p)
				if out == 0 && note == "" {
					last = time.Since(t0)
				}
				mu2.Lock()
				switch {
				case note != "":
					cc.notes = append(cc.notes, note)
				case out == 2:
					cc.killed++
				case out != 0:
					cc.failed++
				}
				mu2.Unlock()
			}
		}(i, e)
	}
	wg.Wait()
	close(stop)
	rwg.Wait()
	var err error
	if cc.final, err = c20List(root); err != nil {
		cc.notes = append(cc.notes, "list: "+err.Error())
	}
}

func (cc *c20Conc) writerArgs() []interface{} {
	var a []interface{}
	for _, e := range cc.envs {
		a = append(a, L{uint64(len(e))})
		a = append(a, bList(e)...)
	}
	return a
}

func (cc *c20Conc) emit(c *caseWriter, kind string) {
	var before *c20File
	for i := range cc.init {
		if cc.init[i].name == "resolv.conf" {
			before = &cc.init[i]
		}
	}
	keys := make([]string, 0, len(cc.samples))
	for k := range cc.samples {
		keys = append(keys, k)
	}
	sort.Strings(keys)
	for _, k := range keys {
		hd := L{uint64(len(cc.envs)), 0, 1, 0, 0}
		var ib, sb []byte
		if before != nil {
			hd[1], hd[3], ib = 1, uint64(before.mode), before.data
		}
		tag := 2010
		switch {
		case k == "a":
			hd[2] = 0
		case strings.HasPrefix(k, "p|"):
			p := strings.SplitN(k, "|", 3)
			m, _ := strconv.ParseUint(p[1], 10, 32)
			hd[4], sb = m, []byte(p[2])
		case strings.HasPrefix(k, "c|"):
			tag, sb = 2012, []byte(k[2:])
		default:
			continue // read errors are reported as notes
		}
		c.add(tag, kind+"/sample", true, append(args(hd, B(ib), B(sb)), cc.writerArgs()...), args(L{1}))
	}
	quiet := b2n(!cc.kill && cc.failed == 0)
	a := append(args(L{uint64(len(cc.envs)), uint64(len(cc.init)), uint64(len(cc.final)), quiet}), cc.writerArgs()...)
	a = append(a, c20FileArgs(cc.init)...)
	a = append(a, c20FileArgs(cc.final)...)
	c.add(2011, kind+"/final-dir", true, a, args(L{1}))
}

func TestC20(t *testing.T) {
	if os.Geteuid() != 0 {
		t.Fatal("C20 needs root for chroot")
	}
	for _, p := range []string{c20Strace, c20Chroot} {
		if _, err := os.Stat(p); err != nil {
			t.Fatalf("C20 needs %s: %v", p, err)
		}
	}
	c := newCaseWriter(t, "c20")
	defer c.close(t, "c20")
	vl := &violationLog{}
	r := newRand(20)
	h := newC17Hook(t)
	nroots := cap(h.roots)
	roots := make([]string, 0, nroots)
	for i := 0; i < nroots; i++ {
		roots = append(roots, <-h.roots)
	}

	// ---- (i)+(ii) one traced writer: plain, a failing call at each step, SIGKILL before each step ----
	ords, note := c20Reference(roots[0], c20Env(r, 2, false))
	if note != "" {
		t.Fatalf("reference run under strace failed: %s", note)
	}
	var scs []*c20Scenario
	combos := scale(12, 80)
	for k := 0; k < combos; k++ {
		env := c20Env(r, []int{1, 2, 3, 8, 60, 400}[r.Intn(6)], r.Intn(2) == 0)
		init, ik := c20Init(r, k)
		add := func(kind string, faults []int, killAt int) {
			scs = append(scs, &c20Scenario{kind: kind + "/" + ik, envp: env, init: init, faults: faults, killAt: killAt,
				errno: []string{"EIO", "ENOSPC", "EACCES", "EDQUOT", "EROFS"}[r.Intn(5)]})
		}
		add("plain", nil, -1)
		for s := 0; s <= 4; s++ {
			add(fmt.Sprintf("fault-step%d", s), []int{s}, -1)
			add(fmt.Sprintf("kill-before-step%d", s), nil, s)
		}
		for s := 1; s <= 4; s++ {
			add(fmt.Sprintf("fault-step%d+remove-fails", s), []int{s, 5}, -1)
			if s%2 == k%2 {
				add(fmt.Sprintf("fault-step%d+kill-before-remove", s), []int{s}, 5)
			}
		}
	}
	var wg sync.WaitGroup
	var omu sync.Mutex
	next := int64(-1)
	for _, root := range roots {
		wg.Add(1)
		go func(root string) {
			defer wg.Done()
			for {
				i := int(atomic.AddInt64(&next, 1))
				if i >= len(scs) {
					return
				}
				sc := scs[i]
				for try := 0; try < 4; try++ {
					omu.Lock()
					o := ords
					omu.Unlock()
					sc.run(root, o)
					if !strings.HasPrefix(sc.note, "retry") {
						break
					}
					if o2, n2 := c20Reference(root, sc.envp); n2 == "" { // the goroutine moved to another thread: count again
						omu.Lock()
						ords = o2
						omu.Unlock()
					}
				}
			}
		}(root)
	}
	wg.Wait()
	bad := 0
	for _, sc := range scs {
		if sc.note != "" && !strings.HasPrefix(sc.note, "no call for step") {
			// an injection that did not reach its call after four attempts (strace counts calls per thread): the run says
			// nothing; only many such runs are a failure of the set-up
			bad++
			if bad <= 5 {
				t.Logf("traced run %s could not be carried out: %s", sc.kind, sc.note)
			}
			if bad == len(scs)/10+1 {
				t.Errorf("%d and more traced runs could not be carried out as planned", bad)
			}
			continue
		}
		if sc.note != "" {
			// the reference run has no such call: the program differs from the model; the plain cases show it
			continue
		}
		sc.emit(c)
	}

	// ---- (ii') a fault in a call that comes after the rename (none in the program as it stands) ----
	{
		env := c20Env(r, 2, false)
		init, _ := c20Init(r, 1)
		lateRuns := 0
		for _, lc := range c20Late(roots[0], env, init) {
			for _, errno := range []string{"EIO", "EACCES"} {
				sc := &c20Scenario{kind: "fault-after-rename", envp: env, init: init, killAt: -1, errno: errno, late: lc}
				sc.run(roots[0], c20Ordinals{})
				if sc.note != "" || sc.outcome != 1 {
					continue
				}
				lateRuns++
				for _, f := range sc.final {
					if f.name == "resolv.conf" && !bytes.Equal(f.data, init[0].data) {
						vl.add("failed-update-replaced-file", "the hook exits with an error (%s injected into %s, a call after the rename) although etc/resolv.conf has been replaced: an update that fails leaves the previous file in place; file now: %q", errno, lc, f.data)
					}
				}
			}
		}
		t.Logf("faults after the rename: %d runs", lateRuns)
	}

	// ---- (iii) concurrent writers and readers ----
	nconc := scale(24, 150)
	var ccs []*c20Conc
	var kinds []string
	for k := 0; k < nconc; k++ {
		nw := 2 + r.Intn(7)
		cc := &c20Conc{kill: k%3 == 2}
		big := k%5 == 4
		for w := 0; w < nw; w++ {
			n := 1 + r.Intn(6)
			if big {
				n = 3000 + r.Intn(3000)
			}
			cc.envs = append(cc.envs, c20Env(r, n, r.Intn(2) == 0))
		}
		same := k%6 == 3
		if same {
			// several interfaces on one network: every writer installs byte for byte the same file; a reader still never sees
			// anything but the previous content or that file, complete
			for w := range cc.envs {
				cc.envs[w] = cc.envs[0]
			}
		}
		var ik string
		cc.init, ik = c20Init(r, r.Intn(3))
		if k%4 == 1 {
			// resolv.conf is a symbolic link (to a file some other program maintains): the update replaces the link itself, in one
			// step, like a regular file - a reader sees the old content through the link or the new file, never nothing
			old := c20File{name: "resolv.conf.real", data: []byte("# old, elsewhere\nnameserver 9.9.9.9\n"), mode: 0o644}
			cc.init, ik = []c20File{old, {name: "resolv.conf", data: old.data, mode: old.mode, link: old.name}}, "symlink"
		}
		ccs = append(ccs, cc)
		kind := fmt.Sprintf("concurrent-%d", nw)
		if cc.kill {
			kind = fmt.Sprintf("concurrent-kill-%d", nw)
		}
		if big {
			kind += "-big"
		}
		if same {
			kind += "-same"
		}
		kinds = append(kinds, kind+"/"+ik)
	}
	// one scenario per root at a time; two roots in parallel keep the writers of one scenario overlapping
	sem := make(chan string, 2)
	sem <- roots[0]
	sem <- roots[1]
	for k, cc := range ccs {
		wg.Add(1)
		root := <-sem
		rr := rand.New(rand.NewSource(r.Int63()))
		go func(k int, cc *c20Conc, root string) {
			defer wg.Done()
			cc.run(root, rr, scale(6, 12))
			sem <- root
		}(k, cc, root)
	}
	wg.Wait()
	var nsamp int64
	killed, leftTmp, partialTmp, distinctSamples := 0, 0, 0, 0
	for k, cc := range ccs {
		nsamp += cc.nsamp
		killed += cc.killed
		distinctSamples += len(cc.samples)
		for _, f := range cc.final {
			if strings.HasPrefix(f.name, "resolvconf-") && strings.HasSuffix(f.name, ".tmp") && f.name != "resolvconf-123.tmp" {
				leftTmp++
				if f.mode == 0o600 {
					partialTmp++ // killed between creation and chmod
				}
			}
		}
		atomic.AddInt64(&vl.n, cc.nsamp)
		for _, n := range cc.notes {
			t.Errorf("%s: %s", kinds[k], n)
		}
		for s := range cc.samples {
			if strings.HasPrefix(s, "e|") {
				vl.add("reader-error", "%s: a reader of etc/resolv.conf got an error: %s", kinds[k], s[2:])
			}
		}
		if !cc.kill && cc.failed > 0 {
			vl.add("writer-failed", "%s: %d writer(s) failed without any fault", kinds[k], cc.failed)
		}
		cc.emit(c, kinds[k])
	}
	vl.write(t, "c20-readers", map[string]interface{}{"what": "samples of etc/resolv.conf taken by concurrent readers (each distinct sample is one 2010/2012 case)",
		"reader_samples": nsamp, "distinct_samples": distinctSamples, "traced_runs": len(scs), "traced_runs_not_carried_out": bad, "concurrent_scenarios": len(ccs),
		"writers_killed_at_random_instants": killed, "temp_files_left_by_killed_writers": leftTmp, "of_these_with_mode_0600": partialTmp})
	os.RemoveAll(filepath.Join(outDir(t), "c17-chroot"))
}
