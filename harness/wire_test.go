package harness

// The harness's own wire encoders and decoders (independent of lib/layer and lib/dhcpmsg), so that
// codec defects of the implementation cannot cancel out in the server and client checks.

import "encoding/binary"

type wopt struct {
	code byte
	data []byte
}

type wmsg struct {
	op, htype, hlen, hops byte
	xid                   uint32
	secs, flags           uint16
	ciaddr, yiaddr        uint32
	siaddr, giaddr        uint32
	chaddr                []byte // up to 16 bytes written
	cookie                uint32
	opts                  []wopt
	noEnd                 bool
	rawOpts               []byte // if non-nil, used instead of opts
}

// setOpt replaces the payload of option code (first occurrence) or appends the option
func (m *wmsg) setOpt(code byte, data []byte) {
	for i := range m.opts {
		if m.opts[i].code == code {
			m.opts = append([]wopt{}, m.opts...)
			m.opts[i] = wopt{code, data}
			return
		}
	}
	m.opts = append(m.opts, wopt{code, data})
}

func (m wmsg) bytes() []byte {
	b := make([]byte, 240)
	b[0], b[1], b[2], b[3] = m.op, m.htype, m.hlen, m.hops
	binary.BigEndian.PutUint32(b[4:], m.xid)
	binary.BigEndian.PutUint16(b[8:], m.secs)
	binary.BigEndian.PutUint16(b[10:], m.flags)
	binary.BigEndian.PutUint32(b[12:], m.ciaddr)
	binary.BigEndian.PutUint32(b[16:], m.yiaddr)
	binary.BigEndian.PutUint32(b[20:], m.siaddr)
	binary.BigEndian.PutUint32(b[24:], m.giaddr)
	copy(b[28:44], m.chaddr)
	binary.BigEndian.PutUint32(b[236:], m.cookie)
	if m.rawOpts != nil {
		return append(b, m.rawOpts...)
	}
	for _, o := range m.opts {
		b = append(b, o.code, byte(len(o.data)))
		b = append(b, o.data...)
	}
	if !m.noEnd {
		b = append(b, 255)
	}
	return b
}

func wsum16(b []byte, acc uint32) uint32 {
	for i := 0; i+1 < len(b); i += 2 {
		acc += uint32(b[i])<<8 | uint32(b[i+1])
	}
	if len(b)%2 == 1 {
		acc += uint32(b[len(b)-1]) << 8
	}
	return acc
}

func wfold(acc uint32) uint16 {
	for acc>>16 != 0 {
		acc = (acc & 0xffff) + (acc >> 16)
	}
	return uint16(acc)
}

// udpip wraps a payload into UDP and IPv4 with correct checksums.
func udpip(src, dst uint32, sport, dport uint16, proto byte, ttl byte, payload []byte) []byte {
	u := make([]byte, 8+len(payload))
	binary.BigEndian.PutUint16(u[0:], sport)
	binary.BigEndian.PutUint16(u[2:], dport)
	binary.BigEndian.PutUint16(u[4:], uint16(len(u)))
	copy(u[8:], payload)
	ph := make([]byte, 12)
	binary.BigEndian.PutUint32(ph[0:], src)
	binary.BigEndian.PutUint32(ph[4:], dst)
	ph[9] = 17
	binary.BigEndian.PutUint16(ph[10:], uint16(len(u)))
	cs := ^wfold(wsum16(u, wsum16(ph, 0)))
	if cs == 0 {
		cs = 0xffff
	}
	binary.BigEndian.PutUint16(u[6:], cs)
	p := make([]byte, 20+len(u))
	p[0] = 0x45
	binary.BigEndian.PutUint16(p[2:], uint16(len(p)))
	p[8], p[9] = ttl, proto
	binary.BigEndian.PutUint32(p[12:], src)
	binary.BigEndian.PutUint32(p[16:], dst)
	binary.BigEndian.PutUint16(p[10:], ^wfold(wsum16(p[:20], 0)))
	copy(p[20:], u)
	return p
}

// ipDress rewrites the IPv4 header of a packet built by udpip: type of service, identification, flags / fragment offset,
// time to live, header options (a multiple of 4 octets, at most 40) - none of which a DHCP server has any business with -
// and optionally a zero UDP checksum ("not computed").
func ipDress(p []byte, tos byte, id, frag uint16, ttl byte, opts []byte, zeroUDPSum bool) []byte {
	u := append([]byte{}, p[20:]...)
	if zeroUDPSum {
		u[6], u[7] = 0, 0
	}
	h := make([]byte, 20+len(opts))
	copy(h, p[:20])
	copy(h[20:], opts)
	h[0] = 0x40 | byte(len(h)/4)
	h[1] = tos
	binary.BigEndian.PutUint16(h[2:], uint16(len(h)+len(u)))
	binary.BigEndian.PutUint16(h[4:], id)
	binary.BigEndian.PutUint16(h[6:], frag)
	h[8] = ttl
	h[10], h[11] = 0, 0
	binary.BigEndian.PutUint16(h[10:], ^wfold(wsum16(h, 0)))
	return append(h, u...)
}

type wreply struct {
	ok             bool
	src, dst       uint32
	sport, dport   uint16
	proto, ttl     byte
	ipCsumOK       bool
	udpCsumOK      bool
	msg            wmsg
	typ            byte
	sid            uint32
	hasSid         bool
	optCodes       []byte
	optArea        []byte
}

// parseReply decodes an IPv4/UDP/DHCP packet with the harness's own parser.
func parseReply(p []byte) (r wreply) {
	if len(p) < 28 || p[0] != 0x45 || int(binary.BigEndian.Uint16(p[2:])) != len(p) {
		return
	}
	r.proto, r.ttl = p[9], p[8]
	r.src, r.dst = binary.BigEndian.Uint32(p[12:]), binary.BigEndian.Uint32(p[16:])
	r.ipCsumOK = wfold(wsum16(p[:20], 0)) == 0xffff
	u := p[20:]
	if int(binary.BigEndian.Uint16(u[4:])) != len(u) {
		return
	}
	r.sport, r.dport = binary.BigEndian.Uint16(u[0:]), binary.BigEndian.Uint16(u[2:])
	if binary.BigEndian.Uint16(u[6:]) == 0 {
		r.udpCsumOK = true
	} else {
		ph := make([]byte, 12)
		copy(ph[0:], p[12:20])
		ph[9] = 17
		binary.BigEndian.PutUint16(ph[10:], uint16(len(u)))
		r.udpCsumOK = wfold(wsum16(u, wsum16(ph, 0))) == 0xffff
	}
	d := u[8:]
	if len(d) < 240 {
		return
	}
	m := &r.msg
	m.op, m.htype, m.hlen, m.hops = d[0], d[1], d[2], d[3]
	m.xid = binary.BigEndian.Uint32(d[4:])
	m.secs, m.flags = binary.BigEndian.Uint16(d[8:]), binary.BigEndian.Uint16(d[10:])
	m.ciaddr, m.yiaddr = binary.BigEndian.Uint32(d[12:]), binary.BigEndian.Uint32(d[16:])
	m.siaddr, m.giaddr = binary.BigEndian.Uint32(d[20:]), binary.BigEndian.Uint32(d[24:])
	hl := int(m.hlen)
	if hl > 16 {
		hl = 16
	}
	m.chaddr = append([]byte{}, d[28:28+hl]...)
	m.cookie = binary.BigEndian.Uint32(d[236:])
	r.optArea = d[240:]
	i := 240
	for i < len(d) {
		c := d[i]
		i++
		if c == 0 {
			continue
		}
		if c == 255 {
			r.ok = true
			break
		}
		if i >= len(d) {
			return
		}
		l := int(d[i])
		i++
		if i+l > len(d) {
			return
		}
		m.opts = append(m.opts, wopt{c, append([]byte{}, d[i:i+l]...)})
		r.optCodes = append(r.optCodes, c)
		if c == 53 && l == 1 {
			r.typ = d[i]
		}
		if c == 54 && l == 4 {
			r.sid, r.hasSid = binary.BigEndian.Uint32(d[i:]), true
		}
		i += l
	}
	return
}

// logSink swallows what the programs log.  It is not io.Discard: for that writer the log package skips the formatting altogether, and
// with it every String method and every slice expression in the arguments of a log line - code of the tree under test that runs
// in production with every packet.
type logSink struct{}

func (logSink) Write(p []byte) (int, error) { return len(p), nil }
