package harness

import (
	"sync/atomic"
	"fmt"
	"sync"
	"math/rand"
	"net"
	"testing"
	"time"

	"git.sr.ht/~adrian-blx/psa-dhcp/lib/dhcpmsg"
)

func encOpts(os []dhcpmsg.DHCPOpt) []interface{} {
	var l []interface{}
	for _, o := range os {
		l = append(l, L{uint64(o.Option)}, B(o.Data))
	}
	return l
}

func encMsg(m *dhcpmsg.Message) []interface{} {
	l := []interface{}{
		L{uint64(m.Op), uint64(m.Htype), uint64(m.Hops), uint64(m.Xid), uint64(m.Secs), uint64(m.Flags),
			ipU32(m.ClientIP), ipU32(m.YourIP), ipU32(m.NextIP), ipU32(m.RelayIP), uint64(m.Cookie)},
		B(m.ClientMAC), B(m.ServerHostName[:]), B(m.BootFilename[:]),
	}
	return append(l, encOpts(m.Options)...)
}

func emitDhcpDecode(c *caseWriter, kind string, b []byte) *dhcpmsg.Message {
	var m *dhcpmsg.Message
	var err error
	p := safely(func() { m, err = dhcpmsg.Decode(b) })
	switch {
	case p:
		c.add(1201, kind, true, args(B(b)), resPanic())
	case err != nil:
		c.add(1201, kind, len(b) >= 240, args(B(b)), resErr())
	default:
		c.add(1201, kind, true, args(B(b)), append([]interface{}{L{0}}, encMsg(m)...))
		return m
	}
	return nil
}

func ipsL(ips []net.IP) L {
	l := L{}
	for _, ip := range ips {
		l = append(l, ipU32(ip))
	}
	return l
}

func optIP(ip net.IP) L {
	if ip == nil {
		return L{}
	}
	return L{ipU32(ip)}
}

func emitDecodeOptions(c *caseWriter, kind string, os []dhcpmsg.DHCPOpt) {
	var d dhcpmsg.DecodedOptions
	if safely(func() { d = dhcpmsg.DecodeOptions(os) }) {
		c.add(1203, kind, true, encOpts(os), resPanic())
		return
	}
	sec := func(x time.Duration) uint64 { return uint64(x / time.Second) }
	c.add(1203, kind, len(os) > 0, encOpts(os), args(
		L{uint64(d.MessageType), uint64(d.MaxMessageSize), uint64(d.InterfaceMTU), sec(d.IPAddressLeaseDuration), sec(d.RenewalDuration), sec(d.RebindDuration)},
		optIP(d.RequestedIP), optIP(d.ServerIdentifier), optIP(d.BroadcastAddress), B(d.SubnetMask),
		ipsL(d.Routers), ipsL(d.DNS), B([]byte(d.DomainName)), B(d.ClientIdentifier), B([]byte(d.Message)), B(d.ParametersList)))
}

var typedCodes = []uint8{1, 3, 6, 15, 28, 50, 51, 53, 57, 26, 54, 56, 58, 59, 61, 55, 12, 42, 2, 254, 100}

func randMsg(r *rand.Rand) dhcpmsg.Message {
	m := dhcpmsg.Message{Op: uint8(r.Intn(4)), Htype: uint8(r.Intn(3)), Hops: uint8(r.Intn(256)), Xid: r.Uint32(), Secs: uint16(r.Uint32()), Flags: uint16(r.Uint32()),
		ClientIP: ip4(r.Uint32()), YourIP: ip4(r.Uint32()), NextIP: ip4(r.Uint32()), RelayIP: ip4(r.Uint32()), Cookie: dhcpmsg.DHCPCookie}
	if r.Intn(4) == 0 {
		m.Cookie = r.Uint32()
	}
	if r.Intn(5) == 0 {
		m.Flags = 0x8000
	}
	m.ClientMAC = randBytes(r, []int{0, 1, 6, 6, 6, 8, 15, 16}[r.Intn(8)])
	if r.Intn(3) == 0 {
		r.Read(m.ServerHostName[:])
		r.Read(m.BootFilename[:])
	}
	n := 1 + r.Intn(6)
	for i := 0; i < n; i++ {
		code := uint8(1 + r.Intn(254))
		if r.Intn(2) == 0 {
			code = typedCodes[r.Intn(len(typedCodes))]
		}
		ln := []int{0, 1, 2, 4, 4, 8, 3, 15, 255, r.Intn(256)}[r.Intn(10)]
		m.Options = append(m.Options, dhcpmsg.DHCPOpt{Option: code, Data: randBytes(r, ln)})
	}
	return m
}

func emitAssemble(c *caseWriter, kind string, m dhcpmsg.Message) []byte {
	var out []byte
	if safely(func() { out = m.Assemble() }) {
		c.add(1202, kind, true, encMsg(&m), resPanic())
		return nil
	}
	c.add(1202, kind, true, encMsg(&m), args(B(out)))
	return out
}

func TestC12(t *testing.T) {
	c := newCaseWriter(t, "c12")
	defer c.close(t, "c12")
	r := newRand(12)

	// (a) round trips
	rtv := &violationLog{}
	var held, heldCopy []byte
	for i := 0; i < scale(1500, 60000); i++ {
		m := randMsg(r)
		b := emitAssemble(c, "rt", m)
		// the encoding of the message before this one, kept by its caller while this one was assembled (and, every few messages,
		// while eight goroutines assembled others): still the bytes it was
		if i%50 == 7 {
			var wg sync.WaitGroup
			for g := 0; g < 8; g++ {
				wg.Add(1)
				mg := randMsg(r)
				go func() { defer wg.Done(); defer func() { recover() }(); mg.Assemble() }()
			}
			wg.Wait()
		}
		if held != nil && i%10 < 3 {
			c.add(1204, "rt/held", true, args(B(heldCopy), B(held)), args(L{1}))
		}
		held, heldCopy = b, append([]byte{}, b...)
		if b != nil {
			d := emitDhcpDecode(c, "rt", b)
			if d != nil {
				emitDecodeOptions(c, "rt", d.Options)
			}
			// the first sentence of the property, read off the implementation alone: decoding the encoding returns the message
			atomic.AddInt64(&rtv.n, 1)
			if d == nil {
				rtv.add("c12-roundtrip", "the encoding of a message (hlen %d, %d options) is refused by the decoder: %x", len(m.ClientMAC), len(m.Options), b)
			} else if want, got := fmt.Sprint(encMsg(&m)), fmt.Sprint(encMsg(d)); want != got {
				rtv.add("c12-roundtrip", "decoding the encoding of a message returns another message:\n in  %s\n out %s\n encoding %x", want, got, b)
			}
		}
	}
	rtv.write(t, "c12rt", map[string]interface{}{"distinct_nontrivial": int(atomic.LoadInt64(&rtv.n)), "histogram": map[string]int{"round-trips": int(atomic.LoadInt64(&rtv.n))},
		"samples": []string{"random messages of the round-trip domain: Decode(Assemble(m)) compared with m field by field, option by option"}})
	// outside the round-trip domain: no options, payload > 255, hardware address > 16, codes 0 and 255
	for i := 0; i < scale(300, 5000); i++ {
		m := randMsg(r)
		kind := "asm-edge"
		switch i % 5 {
		case 0:
			m.Options = nil
		case 1:
			m.Options[0].Data = randBytes(r, 256+r.Intn(300))
		case 2:
			m.ClientMAC = randBytes(r, 17+r.Intn(240))
			kind = "asm-hlen>16"
		case 3:
			m.Options[0].Option = 0
		case 4:
			m.Options[0].Option = 255
		}
		if b := emitAssemble(c, kind, m); b != nil {
			emitDhcpDecode(c, kind, b)
		}
	}
	// (b) option areas over a structural alphabet, exhaustively up to a length
	base := dhcpmsg.Message{Op: 1, Htype: 1, Xid: 0x01020304, ClientMAC: []byte{2, 0, 0, 0, 0, 1}, Cookie: dhcpmsg.DHCPCookie,
		Options: []dhcpmsg.DHCPOpt{{Option: 53, Data: []byte{1}}}}.Assemble()[:240]
	alpha := []byte{0, 255, 1, 2, 53, 4}
	maxl := scale(5, 7)
	var rec func(area []byte)
	rec = func(area []byte) {
		emitDhcpDecode(c, "optarea-exhaustive", append(append([]byte{}, base...), area...))
		if len(area) == maxl {
			return
		}
		for _, a := range alpha {
			rec(append(area, a))
		}
	}
	rec(nil)
	// (c) truncation at every offset, every hlen, random bytes
	full := randMsg(r)
	full.ClientMAC = randBytes(r, 6)
	fb := full.Assemble()
	for n := 0; n <= len(fb); n++ {
		emitDhcpDecode(c, "trunc", fb[:n])
	}
	for hl := 0; hl < 256; hl++ {
		b := append([]byte{}, fb...)
		b[2] = byte(hl)
		kind := "hlen<=16"
		if hl > 16 {
			kind = "hlen>16"
		}
		emitDhcpDecode(c, kind, b)
		emitDhcpDecode(c, kind, b[:240+r.Intn(len(b)-239)])
	}
	for i := 0; i < scale(1500, 40000); i++ {
		n := 236 + r.Intn(80)
		b := randBytes(r, n)
		if r.Intn(2) == 0 && n > 2 {
			b[2] = byte(r.Intn(17))
		}
		// give the option walk a chance: sprinkle structure
		for j := 240; j < n; j++ {
			switch r.Intn(4) {
			case 0:
				b[j] = 0
			case 1:
				b[j] = byte(r.Intn(6))
			}
		}
		if n > 241 && r.Intn(2) == 0 {
			b[240+r.Intn(n-240)] = 255
		}
		emitDhcpDecode(c, "random", b)
	}
	// (d) typed accessors: each typed option with every length 0..9 and longer multiples of 4
	for _, code := range typedCodes {
		for ln := 0; ln <= 9; ln++ {
			emitDecodeOptions(c, "typed-len", []dhcpmsg.DHCPOpt{{Option: code, Data: randBytes(r, ln)}})
		}
		for _, ln := range []int{12, 16, 17, 252, 255} {
			emitDecodeOptions(c, "typed-len", []dhcpmsg.DHCPOpt{{Option: code, Data: randBytes(r, ln)}})
		}
		// payloads that mean something to the net package in other shapes: IPv4-mapped 16-byte forms, all-zero and all-one strings
		mapped := append(append(make([]byte, 10), 0xff, 0xff), randBytes(r, 4)...)
		mappedMask := append(append(make([]byte, 10), 0xff, 0xff), 255, 255, 240, 0)
		for _, pl := range [][]byte{mapped, mappedMask, make([]byte, 16), append(make([]byte, 12), 1, 2, 3, 4)} {
			emitDecodeOptions(c, "typed-shape", []dhcpmsg.DHCPOpt{{Option: code, Data: pl}})
		}
		for ln := 1; ln <= 20; ln++ {
			ones := make([]byte, ln)
			for i := range ones {
				ones[i] = 0xff
			}
			emitDecodeOptions(c, "typed-shape", []dhcpmsg.DHCPOpt{{Option: code, Data: make([]byte, ln)}})
			emitDecodeOptions(c, "typed-shape", []dhcpmsg.DHCPOpt{{Option: code, Data: ones}})
		}
		// a later option of the same code replaces an earlier one
		emitDecodeOptions(c, "typed-dup", []dhcpmsg.DHCPOpt{{Option: code, Data: randBytes(r, 4)}, {Option: code, Data: randBytes(r, 1+r.Intn(8))}})
	}
	for i := 0; i < scale(800, 20000); i++ {
		n := r.Intn(8)
		var os []dhcpmsg.DHCPOpt
		for j := 0; j < n; j++ {
			os = append(os, dhcpmsg.DHCPOpt{Option: typedCodes[r.Intn(len(typedCodes))], Data: randBytes(r, []int{0, 1, 2, 4, 4, 4, 8, 5, 12}[r.Intn(9)])})
		}
		emitDecodeOptions(c, "typed-random", os)
	}
}
