package harness

import (
	"os"
	"fmt"
	"sync/atomic"
	"math/rand"
	"testing"
	"testing/synctest"
	"time"

	"git.sr.ht/~adrian-blx/psa-dhcp/lib/rsocks"
)

// Directed server histories: each story aims at one clause of C01/C02/C05 at its boundary
// (hold and lease instants, repeated DISCOVERs, competitors, suggestions at the range edges).

func storyCfg(r *rand.Rand, pool int) srvCfg {
	netU := uint32(0x0a000000) | uint32(1+r.Intn(200))<<16
	cfg := srvCfg{netU: netU, maskU: 0xffffff00, bits: 24, lease: []time.Duration{time.Minute, 2 * time.Minute}[r.Intn(2)],
		selfIP: netU + 1, selfMAC: []byte{2, 0xaa, 0, 0, 0, 1}, hasRange: true}
	cfg.rangeB = netU + 20 + uint32(r.Intn(200))
	cfg.rangeE = cfg.rangeB + uint32(pool) - 1
	cfg.router = ipStr(netU + 1)
	return cfg
}

func mkClient(i int, r *rand.Rand) *simClient {
	cl := &simClient{mac: []byte{2, 0xbb, 0, 0, 1, byte(i)}, xid: r.Uint32()}
	if r.Intn(3) > 0 {
		cl.cid = append([]byte{1}, cl.mac...)
	}
	return cl
}

const bcU = uint32(0xffffffff)

func (cl *simClient) discover(sugg uint32, flags uint16) []byte {
	var extra []wopt
	if sugg != 0 {
		extra = append(extra, wopt{50, u32b(sugg)})
	}
	return udpip(0, bcU, 68, 67, 17, 64, cl.msg(1, flags, 0, extra...).bytes())
}
func (cl *simClient) selecting(ip, sid uint32, flags uint16) []byte {
	return udpip(0, bcU, 68, 67, 17, 64, cl.msg(3, flags, 0, wopt{50, u32b(ip)}, wopt{54, u32b(sid)}).bytes())
}
func (cl *simClient) renewing(ip, dst uint32, flags uint16) []byte {
	return udpip(ip, dst, 68, 67, 17, 64, cl.msg(3, flags, ip).bytes())
}

type story struct {
	name string
	run  func(r *rand.Rand, s *srvRun, g *srvGen)
	pool int
}

func (s *srvRun) do(g *srvGen, cl *simClient, pkt []byte, arp ...arpResp) roundObs {
	o := s.round(pkt, arp)
	g.observe(cl, o.outs)
	return o
}

// waitUntil advances the virtual clock to the given instant (relative to the server start).
func (s *srvRun) waitUntil(rel time.Duration) {
	if d := rel - time.Duration(s.rel()); d > 0 {
		time.Sleep(d)
	}
}

var stories = []story{
	{"hold-boundary", func(r *rand.Rand, s *srvRun, g *srvGen) {
		// REQUEST arriving just before the hold of the OFFER runs out (measured from the DISCOVER's arrival): must be ACKed
		a := g.clients[0]
		o := s.do(g, a, a.discover(0, 0))
		delta := []time.Duration{30 * time.Millisecond, 300 * time.Millisecond, 590 * time.Millisecond, 2 * time.Second}[r.Intn(4)]
		sent := o.t
		if len(o.outs) > 0 {
			sent = o.outs[0].t
		}
		s.waitUntil(time.Duration(sent) + 15*time.Second - delta)
		s.do(g, a, a.selecting(a.offered, s.cfg.selfIP, 0))
		// and once more right after the hold of the refreshed lease: renewal must still work within the lease
		s.advance(s.cfg.lease / 2)
		s.do(g, a, a.renewing(a.leased, s.cfg.selfIP, 0))
	}, 1},
	{"rediscover-then-competitor", func(r *rand.Rand, s *srvRun, g *srvGen) {
		// a bound client DISCOVERs again; later than the offer hold a competitor tries to get the address
		a, b := g.clients[0], g.clients[1]
		s.do(g, a, a.discover(0, 0))
		s.do(g, a, a.selecting(a.offered, s.cfg.selfIP, 0))
		s.advance(time.Duration(1+r.Intn(20)) * time.Second)
		s.do(g, a, a.discover([]uint32{0, a.leased, s.cfg.rangeB}[r.Intn(3)], 0))
		s.advance(time.Duration(16+r.Intn(20)) * time.Second)
		s.do(g, b, b.discover(a.leased, 0))
		if b.offered != 0 {
			s.do(g, b, b.selecting(b.offered, s.cfg.selfIP, 0))
		}
		s.do(g, b, b.selecting(a.leased, s.cfg.selfIP, 0))
		s.do(g, a, a.renewing(a.leased, s.cfg.selfIP, 0))
	}, 1},
	{"double-discover", func(r *rand.Rand, s *srvRun, g *srvGen) {
		// two DISCOVERs of one unbound client some seconds apart: the hold runs from the later one
		a, b := g.clients[0], g.clients[1]
		o1 := s.do(g, a, a.discover(0, 0))
		s.advance(time.Duration(5+r.Intn(9)) * time.Second)
		o2 := s.do(g, a, a.discover(0, 0))
		s.waitUntil(time.Duration(o1.t) + 15*time.Second + time.Duration(200+r.Intn(1500))*time.Millisecond)
		s.do(g, b, b.discover(a.offered, 0)) // in between somebody else asks for that address
		if time.Duration(s.rel()) < time.Duration(o2.t)+15*time.Second-700*time.Millisecond {
			s.do(g, a, a.selecting(a.offered, s.cfg.selfIP, 0))
		}
	}, 1},
	{"lease-boundary", func(r *rand.Rand, s *srvRun, g *srvGen) {
		// a competitor asks for a leased address just before and just after the lease runs out
		a, b := g.clients[0], g.clients[1]
		s.do(g, a, a.discover(0, 0))
		o := s.do(g, a, a.selecting(a.offered, s.cfg.selfIP, 0))
		s.waitUntil(time.Duration(o.t) + s.cfg.lease - time.Duration(700+r.Intn(3000))*time.Millisecond)
		s.do(g, b, b.discover(a.leased, 0))
		s.do(g, b, b.selecting(a.leased, s.cfg.selfIP, 0))
		s.waitUntil(time.Duration(o.tq) + s.cfg.lease + time.Duration(700+r.Intn(3000))*time.Millisecond)
		s.do(g, b, b.discover(a.leased, 0))
		if b.offered != 0 {
			s.do(g, b, b.selecting(b.offered, s.cfg.selfIP, 0))
		}
		s.do(g, a, a.renewing(a.leased, s.cfg.selfIP, 0)) // the old holder is late: NAK
	}, 1},
	{"range-edges", func(r *rand.Rand, s *srvRun, g *srvGen) {
		// suggestions at and next to the edges of the dynamic range and of the network
		c := s.cfg
		for i, sg := range []uint32{c.rangeE + 1, c.rangeB - 1, c.rangeE, c.rangeB, c.netU + 255, c.netU, c.netU + 254, c.selfIP} {
			cl := g.clients[i%len(g.clients)]
			s.do(g, cl, cl.discover(sg, uint16(r.Intn(2))<<15))
			if cl.offered != 0 && r.Intn(2) == 0 {
				s.do(g, cl, cl.selecting(cl.offered, c.selfIP, 0))
			}
			s.advance(time.Duration(r.Intn(20)) * time.Second)
		}
	}, 3},
	{"renew-flags", func(r *rand.Rand, s *srvRun, g *srvGen) {
		// renewals and rebinds with the broadcast flag and ciaddr set, unicast and broadcast
		a := g.clients[0]
		s.do(g, a, a.discover(0, 0x8000))
		s.do(g, a, a.selecting(a.offered, s.cfg.selfIP, 0x8000))
		for i := 0; i < 4; i++ {
			s.advance(time.Duration(5+r.Intn(20)) * time.Second)
			dst := []uint32{s.cfg.selfIP, bcU}[r.Intn(2)]
			var arp []arpResp
			if r.Intn(3) == 0 {
				arp = append(arp, arpResp{a.leased, []byte{2, 0xcc, 0, 0, 0, 9}, time.Duration(1+r.Intn(500)) * time.Millisecond, r.Intn(2) == 0, false, 0})
			}
			s.do(g, a, a.renewing(a.leased, dst, uint16(r.Intn(2))<<15), arp...)
		}
	}, 2},
	{"long-lease", func(r *rand.Rand, s *srvRun, g *srvGen) {
		// a lease duration around 2^31 s / at 2^32-1 s (set in runStory): acknowledged, renewed, and still the holder's a month later
		a, b := g.clients[0], g.clients[1]
		s.do(g, a, a.discover(0, 0))
		s.do(g, a, a.selecting(a.offered, s.cfg.selfIP, 0))
		s.advance(time.Duration(5+r.Intn(20)) * time.Second)
		s.do(g, a, a.renewing(a.leased, s.cfg.selfIP, 0))
		s.do(g, b, b.discover(a.leased, 0))
		s.advance(720 * time.Hour)
		s.do(g, b, b.discover(a.leased, 0))
		s.do(g, a, a.renewing(a.leased, s.cfg.selfIP, 0))
	}, 1},
}

func runStory(t *testing.T, c *caseWriter, tags string, st story, seedv int64) {
	synctest.Test(t, func(t *testing.T) {
		r := rand.New(rand.NewSource(seedv))
		cfg := storyCfg(r, st.pool)
		if st.name == "long-lease" {
			cfg.lease = []time.Duration{(1<<31 - 1) * time.Second, (1 << 31) * time.Second, 3000000000 * time.Second, (1<<32 - 1) * time.Second}[r.Intn(4)]
		}
		g := &srvGen{r: r, cfg: cfg}
		for a := cfg.rangeB; a <= cfg.rangeE; a++ {
			g.pool = append(g.pool, a)
		}
		for i := 0; i < 3; i++ {
			g.clients = append(g.clients, mkClient(i+1, r))
		}
		s, err := startServer(t, cfg)
		if err != nil {
			t.Logf("server.New: %v", err)
			return
		}
		defer s.stop()
		st.run(r, s, g)
		emitHistory(c, tags, "story:"+st.name, s, g)
	})
}

func emitHistory(c *caseWriter, tags, kind string, s *srvRun, g *srvGen) {
	var macs [][]byte
	for _, cl := range g.clients {
		macs = append(macs, cl.mac)
	}
	exp := L{}
	for range s.rounds {
		exp = append(exp, 0)
	}
	outs := [][]interface{}{{exp}}
	for i := 1; i < len(splitTags(tags)); i++ {
		outs = append(outs, []interface{}{L{1}})
	}
	if kind != "overlap" { // rounds of an overlap burst share their instants: outside the sequential-history theorems
		tags += "+220"
		outs = append(outs, []interface{}{L{1}})
	}
	c.addMulti(tags, kind, true, s.encode(macs), outs)
}

func splitTags(t string) []string {
	var out []string
	cur := ""
	for _, ch := range t {
		if ch == '+' {
			out = append(out, cur)
			cur = ""
		} else {
			cur += string(ch)
		}
	}
	return append(out, cur)
}

// ---- overlapping REQUESTs in virtual time (REQUEST handlers never hold the database lock across a timer) ----

// burst injects several packets a few milliseconds apart and waits for all handlers; replies are attributed to the
// packets by transaction id and hardware address.  Only the last round of the burst carries a snapshot.
func (s *srvRun) burst(pkts [][]byte, arp []arpResp, gapMs []int) []roundObs {
	// an answer that arrives at the very instant one 200 ms try ends and the next begins is seen or missed depending on
	// which of the two happens first at that instant: keep answers off those instants
	for i := range arp {
		if arp[i].delay%(200*time.Millisecond) == 0 {
			arp[i].delay += time.Millisecond
		}
	}
	s.arp = map[uint32]arpResp{}
	s.arpMu.Lock()
	s.arpSeen = map[uint32]int{}
	s.arpMu.Unlock()
	for _, a := range arp {
		s.arp[a.ip] = a
	}
	before := len(s.seg.Frames())
	var rs []roundObs
	for i, p := range pkts {
		rs = append(rs, roundObs{t: s.rel(), pkt: p, arp: arp})
		s.seg.Inject(rsocks.KindIP, p)
		if i < len(pkts)-1 {
			time.Sleep(time.Duration(gapMs[i%len(gapMs)]) * time.Millisecond)
		}
	}
	waitQuiet(s)
	used := map[int]bool{}
	frames := s.seg.Frames()[before:]
	for i := range rs {
		in := parseReply(rs[i].pkt) // our own packets parse with the same parser
		for j, f := range frames {
			if f.Kind != rsocks.KindIP || used[j] {
				continue
			}
			rp := parseReply(f.Payload)
			if rp.ok && in.ok && rp.msg.xid == in.msg.xid && string(rp.msg.chaddr) == string(in.msg.chaddr) {
				rs[i].outs = append(rs[i].outs, outFrame{t: uint64(f.T.Sub(s.start)), eth: f.EthDst, pkt: f.Payload})
				used[j] = true
				break
			}
		}
	}
	last := len(rs) - 1
	for j, f := range frames { // anything unattributed goes to the last round (and makes it fail)
		if f.Kind == rsocks.KindIP && !used[j] {
			rs[last].outs = append(rs[last].outs, outFrame{t: uint64(f.T.Sub(s.start)), eth: f.EthDst, pkt: f.Payload})
		}
	}
	for i := range rs {
		rs[i].tq = s.rel()
		rs[i].nosnap = i != last
	}
	rs[last].snap = s.snapshot()
	s.rounds = append(s.rounds, rs...)
	time.Sleep(time.Second)
	return rs
}

func runOverlapHistory(t *testing.T, c *caseWriter, tags string, seedv int64) {
	synctest.Test(t, func(t *testing.T) {
		r := rand.New(rand.NewSource(seedv))
		cfg := storyCfg(r, 4)
		g := &srvGen{r: r, cfg: cfg}
		for a := cfg.rangeB; a <= cfg.rangeE; a++ {
			g.pool = append(g.pool, a)
		}
		for i := 0; i < 4; i++ {
			g.clients = append(g.clients, mkClient(i+1, r))
		}
		s, err := startServer(t, cfg)
		if err != nil {
			return
		}
		defer s.stop()
		// everybody obtains an offer, one at a time
		for _, cl := range g.clients {
			s.do(g, cl, cl.discover(0, uint16(r.Intn(2))<<15))
		}
		for round := 0; round < 3; round++ {
			var pkts [][]byte
			var who []*simClient
			for _, cl := range g.clients {
				ip := cl.leased
				if ip == 0 {
					ip = cl.offered
				}
				if ip == 0 {
					continue
				}
				n := 1 + r.Intn(2) // retransmissions overlap as well
				for k := 0; k < n; k++ {
					// a second packet of the same client in the burst is either a true retransmission (the same bytes) or a
					// different request under its own transaction id: replies echo only xid, chaddr and the broadcast flag, so
					// two different requests sharing all three could not be told apart when their handlers finish out of order
					if k > 0 && r.Intn(2) == 0 {
						pkts = append(pkts, pkts[len(pkts)-1])
						who = append(who, cl)
						continue
					}
					saved := cl.xid
					cl.xid += uint32(k)
					switch {
					case cl.leased == 0 || r.Intn(3) == 0:
						pkts = append(pkts, cl.selecting(ip, cfg.selfIP, uint16(r.Intn(2))<<15))
					case r.Intn(2) == 0:
						pkts = append(pkts, cl.renewing(ip, cfg.selfIP, 0))
					default:
						pkts = append(pkts, cl.renewing(ip, bcU, 0))
					}
					who = append(who, cl)
					cl.xid = saved
				}
			}
			r.Shuffle(len(pkts), func(i, j int) { pkts[i], pkts[j] = pkts[j], pkts[i]; who[i], who[j] = who[j], who[i] })
			var arp []arpResp
			if r.Intn(3) == 0 {
				v := g.clients[r.Intn(len(g.clients))]
				if v.leased != 0 {
					arp = append(arp, arpResp{v.leased, []byte{2, 0xcc, 0, 0, 0, 7}, time.Duration(1+r.Intn(500)) * time.Millisecond, false, false, 0})
				}
			}
			rs := s.burst(pkts, arp, []int{0, 1, 7, 40, 150, 3})
			for i, ro := range rs {
				g.observe(who[i], ro.outs)
			}
			s.advance(time.Duration(1+r.Intn(10)) * time.Second)
		}
		emitHistory(c, tags, "overlap", s, g)
	})
}

func TestServerStories(t *testing.T) {
	c := newCaseWriter(t, "stories")
	defer c.close(t, "stories")
	n := scale(8, 120)
	if os.Getenv("VERIF_RACE") != "" {
		n = scale(2, 20) // under the race detector the overlap bursts below are what matters
	}
	for i := 0; i < n; i++ {
		for j, st := range stories {
			runStory(t, c, serverTags(), st, seed()*7000003+int64(i*100+j))
		}
	}
	for i := 0; i < scale(25, 600); i++ {
		runOverlapHistory(t, c, serverTags(), seed()*9000011+int64(i))
	}
}

// TestC05Faults: a reply that cannot be sent (the send socket cannot be opened) changes nothing for anybody: the binding of the
// client whose OFFER / ACK was lost runs on as listed before (C05: "no message from it or from anyone else shortens that"),
// and nobody else is offered or acknowledged that address (C01).  These rounds are judged directly: the acceptor knows no
// send faults.
func TestC05Faults(t *testing.T) {
	vl := &violationLog{}
	for i := 0; i < scale(24, 400); i++ {
		i := i
		synctest.Test(t, func(t *testing.T) {
			r := rand.New(rand.NewSource(seed()*5000011 + int64(i)))
			cfg := storyCfg(r, 3)
			g := &srvGen{r: r, cfg: cfg}
			for a := cfg.rangeB; a <= cfg.rangeE; a++ {
				g.pool = append(g.pool, a)
			}
			a, b := mkClient(1, r), mkClient(2, r)
			g.clients = []*simClient{a, b}
			s, err := startServer(t, cfg)
			if err != nil {
				return
			}
			defer s.stop()
			atomic.AddInt64(&vl.n, 1)
			bflag := uint16(r.Intn(2)) << 15
			s.do(g, a, a.discover(0, bflag))
			if a.offered == 0 {
				return
			}
			s.do(g, a, a.selecting(a.offered, cfg.selfIP, bflag))
			if a.leased == 0 {
				return
			}
			x := a.leased
			until := func() (int64, bool) {
				for _, e := range s.snapshot() {
					if e.ip == x {
						return e.until, true
					}
				}
				return 0, false
			}
			u1, ok := until()
			if !ok {
				vl.add("c05-fault", "scenario %d: acknowledged address %s not in the table", i, ipStr(x))
				return
			}
			s.advance(time.Duration(1+r.Intn(int(cfg.lease/time.Second)/2)) * time.Second)
			// the next reply cannot be sent
			s.seg.FailOpen = func(seq int, what string) error {
				if what == "ucsend" || what == "ipsend" {
					return fmt.Errorf("injected")
				}
				return nil
			}
			var what string
			switch r.Intn(3) {
			case 0:
				what = "DISCOVER"
				s.round(a.discover([]uint32{0, x}[r.Intn(2)], bflag), nil)
			case 1:
				what = "renewing REQUEST"
				s.round(a.renewing(x, cfg.selfIP, bflag), nil)
			case 2:
				what = "selecting REQUEST"
				s.round(a.selecting(x, cfg.selfIP, bflag), nil)
			}
			s.seg.FailOpen = nil
			if u2, ok := until(); !ok || u2 < u1 {
				vl.add("c05-fault", "scenario %d: after a %s whose reply could not be sent the binding of %s runs until %d ns (listed: %v); it ran until %d ns before", i, what, ipStr(x), u2, ok, u1)
			}
			// somebody else goes for the address while the lease is running
			ob := s.do(g, b, b.discover(x, 0))
			if b.offered == x {
				vl.add("c05-fault", "scenario %d: %s offered to another client while its lease runs (after a %s of the holder whose reply could not be sent)", i, ipStr(x), what)
			}
			_ = ob
			or := s.round(b.selecting(x, cfg.selfIP, 0), nil)
			for _, f := range or.outs {
				if rp := parseReply(f.pkt); rp.ok && rp.typ == 5 {
					vl.add("c05-fault", "scenario %d: %s acknowledged to another client while its lease runs", i, ipStr(x))
				}
			}
			// the holder renews
			o := s.round(a.renewing(x, cfg.selfIP, 0), nil)
			acked := false
			for _, f := range o.outs {
				if rp := parseReply(f.pkt); rp.ok && rp.typ == 5 && rp.msg.yiaddr == x {
					acked = true
				}
			}
			if !acked {
				vl.add("c05-fault", "scenario %d: the holder's renewal of %s is not acknowledged after a %s whose reply could not be sent", i, ipStr(x), what)
			}
		})
	}
	vl.write(t, "c05faults", map[string]interface{}{"distinct_nontrivial": int(atomic.LoadInt64(&vl.n)), "histogram": map[string]int{"send-fault:scenario": int(atomic.LoadInt64(&vl.n))},
		"samples": []string{"bound client; its next DISCOVER / renewing / selecting REQUEST is handled while no send socket can be opened; then the table listing, a competitor's DISCOVER and REQUEST for the address, and the holder's renewal"}})
}
