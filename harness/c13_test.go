package harness

import (
	"encoding/binary"
	"math/rand"
	"net"
	"testing"

	"git.sr.ht/~adrian-blx/psa-dhcp/lib/layer"
)

func ip4(v uint32) net.IP { return net.IPv4(byte(v>>24), byte(v>>16), byte(v>>8), byte(v)).To4() }
func ipU32(ip net.IP) uint64 {
	if v4 := ip.To4(); v4 != nil {
		return uint64(binary.BigEndian.Uint32(v4))
	}
	return 0
}

// patterns chosen so that one's-complement sums cross 0xFFFF and hit 0x0000/0xFFFF
func payloadPattern(r *rand.Rand, n int) []byte {
	b := make([]byte, n)
	switch r.Intn(6) {
	case 0: // zeros
	case 1:
		for i := range b {
			b[i] = 0xff
		}
	case 2:
		r.Read(b)
	case 3:
		for i := range b {
			b[i] = byte(i)
		}
	case 4:
		for i := range b {
			if i%2 == 0 {
				b[i] = 0xff
			}
		}
	case 5:
		r.Read(b)
		for i := range b {
			b[i] |= 0xf0
		}
	}
	return b
}

func emitIPv4Assemble(c *caseWriter, kind string, h layer.IPv4) []byte {
	var out []byte
	p := safely(func() { out = h.Assemble() })
	a := args(L{uint64(h.Identification), uint64(h.Flags), uint64(h.TTL), uint64(h.Protocol), ipU32(h.Source), ipU32(h.Destination)}, B(h.Data))
	if p {
		c.add(1301, kind, true, a, resPanic())
		return nil
	}
	c.add(1301, kind, true, a, resOK(B(out)))
	return out
}

func emitDecodeIPv4(c *caseWriter, kind string, b []byte) {
	var v *layer.IPv4
	var err error
	p := safely(func() { v, err = layer.DecodeIPv4(b) })
	switch {
	case p:
		c.add(1302, kind, true, args(B(b)), resPanic())
	case err != nil:
		c.add(1302, kind, len(b) >= 20, args(B(b)), resErr())
	default:
		c.add(1302, kind, true, args(B(b)), resOK(L{uint64(v.Identification), uint64(v.Flags), uint64(v.TTL), uint64(v.Protocol), uint64(v.Checksum), ipU32(v.Source), ipU32(v.Destination)}, B(v.Data)))
		c.add(1316, kind+"/strict", true, args(B(b), L{1}, B(v.Data)), args(L{1}))
	}
}

func emitDecodeUDP(c *caseWriter, kind string, b []byte) {
	var v *layer.UDP
	var err error
	p := safely(func() { v, err = layer.DecodeUDP(b) })
	switch {
	case p:
		c.add(1304, kind, true, args(B(b)), resPanic())
	case err != nil:
		c.add(1304, kind, len(b) >= 8, args(B(b)), resErr())
	default:
		c.add(1304, kind, true, args(B(b)), resOK(L{uint64(v.SrcPort), uint64(v.DstPort)}, B(v.Data)))
		c.add(1315, kind+"/strict", true, args(B(b), L{1, uint64(v.SrcPort), uint64(v.DstPort)}, B(v.Data)), args(L{1}))
	}
}

func emitDecodeARP(c *caseWriter, kind string, b []byte) {
	var v *layer.ARP
	var err error
	p := safely(func() { v, err = layer.DecodeARP(b) })
	switch {
	case p:
		c.add(1306, kind, true, args(B(b)), resPanic())
	case err != nil:
		c.add(1306, kind, false, args(B(b)), resErr())
	default:
		c.add(1306, kind, true, args(B(b)), resOK(L{ipU32(v.SenderIP), ipU32(v.TargetIP), uint64(v.Opcode)}, B(v.SenderMAC), B(v.TargetMAC)))
	}
}

func TestC13(t *testing.T) {
	c := newCaseWriter(t, "c13")
	defer c.close(t, "c13")
	r := newRand(13)

	oneUDP := func(kind string, n int) {
		data := payloadPattern(r, n)
		u := layer.UDP{SrcPort: uint16(r.Uint32()), DstPort: uint16(r.Uint32()), Data: data}
		if r.Intn(3) == 0 {
			u.SrcPort, u.DstPort = 67, 68
		}
		ub := u.Assemble()
		c.add(1303, kind, true, args(L{uint64(u.SrcPort), uint64(u.DstPort)}, B(data)), args(B(ub)))
		c.add(1312, kind, true, args(L{uint64(u.SrcPort), uint64(u.DstPort)}, B(data), B(ub)), args(L{1}))
		src, dst := r.Uint32(), r.Uint32()
		switch r.Intn(4) {
		case 0:
			src, dst = 0, 0xffffffff
		case 1:
			src = 0xffffffff
		}
		h := layer.IPv4{Identification: uint16(r.Uint32()), Flags: uint16(r.Uint32()), TTL: uint8(r.Uint32()), Protocol: 0x11, Source: ip4(src), Destination: ip4(dst), Data: ub}
		pkt := emitIPv4Assemble(c, kind, h)
		// the specification, evaluated by the model driver on the implementation's bytes (whatever came back: every payload
		// up to the datagram maximum has to yield a valid packet)
		if len(ub)+20 <= 65535 {
			seg := []byte{}
			if len(pkt) >= 20 {
				seg = pkt[20:]
			}
			c.add(1310, kind, true, args(B(pkt)), args(L{1}))
			c.add(1311, kind, true, args(L{uint64(src), uint64(dst)}, B(seg)), args(L{1}))
			c.add(1313, kind, true, args(L{17, uint64(src), uint64(dst), uint64(h.TTL)}, B(ub), B(pkt)), args(L{1}))
		}
		if pkt == nil {
			return
		}
		emitDecodeIPv4(c, kind+"/rt", pkt)
		emitDecodeUDP(c, kind+"/rt", pkt[20:])
		// the round trip itself: decoding what was assembled gives back identification, flags, TTL, protocol, addresses and payload
		want := L{uint64(h.Identification), uint64(h.Flags), uint64(h.TTL), uint64(h.Protocol), uint64(src), uint64(dst)}
		got, gotData := L{}, []byte{}
		if v, err := layer.DecodeIPv4(pkt); err == nil {
			got = L{uint64(v.Identification), uint64(v.Flags), uint64(v.TTL), uint64(v.Protocol), ipU32(v.Source), ipU32(v.Destination)}
			gotData = v.Data
		}
		c.add(1314, kind+"/rt", true, args(want, got, B(pkt[20:]), B(gotData)), args(L{1}))
		wantU, gotU, gotUD := L{uint64(u.SrcPort), uint64(u.DstPort)}, L{}, []byte{}
		if v, err := layer.DecodeUDP(pkt[20:]); err == nil {
			gotU, gotUD = L{uint64(v.SrcPort), uint64(v.DstPort)}, v.Data
		}
		c.add(1314, kind+"/rt-udp", true, args(wantU, gotU, B(data), B(gotUD)), args(L{1}))
	}
	// every payload length 0..1600
	maxLen := scale(1600, 4000)
	for n := 0; n <= maxLen; n++ {
		oneUDP("udp-len-sweep", n)
	}
	for i := 0; i < scale(40, 400); i++ {
		oneUDP("udp-len-random", r.Intn(65508))
	}
	for _, n := range []int{65506, 65507} {
		oneUDP("udp-len-max", n)
	}
	// carry windows: choose the Identification (header) and the last payload word (UDP) so that the 32-bit
	// accumulator needs two folding rounds, or folds to exactly 0xFFFF / 0x0000
	fix := func(sum uint32, targets []uint32) []uint16 {
		var out []uint16
		for _, tg := range targets {
			for _, dlt := range []uint32{0, 1, 2, 0xffff, 0xfffe} {
				w := (tg + dlt - sum) & 0xffff
				out = append(out, uint16(w))
			}
		}
		return out
	}
	wsum := func(b []byte) uint32 {
		var a uint32
		for i := 0; i+1 < len(b); i += 2 {
			a += uint32(b[i])<<8 | uint32(b[i+1])
		}
		if len(b)%2 == 1 {
			a += uint32(b[len(b)-1]) << 8
		}
		return a
	}
	for i := 0; i < scale(60, 600); i++ {
		src, dst := r.Uint32(), r.Uint32()
		data := payloadPattern(r, 2*(1+r.Intn(200)))
		ub := layer.UDP{SrcPort: 67, DstPort: 68, Data: data}.Assemble()
		h := layer.IPv4{Flags: uint16(r.Uint32()), TTL: 64, Protocol: 0x11, Source: ip4(src), Destination: ip4(dst), Data: ub}
		hdr := h.Assemble()[:20]
		hdr[10], hdr[11], hdr[4], hdr[5] = 0, 0, 0, 0
		for _, id := range fix(wsum(hdr), []uint32{0xffff, 0x1fffe, 0x2fffd, 0x3fffc, 0x10000}) {
			h.Identification = id
			if pkt := emitIPv4Assemble(c, "carry-window-id", h); pkt != nil {
				c.add(1310, "carry-window-id", true, args(B(pkt)), args(L{1}))
			}
		}
		ps := wsum(ub[:len(ub)-2]) + (src >> 16) + (src & 0xffff) + (dst >> 16) + (dst & 0xffff) + 17 + uint32(len(ub))
		for _, w := range fix(ps, []uint32{0xffff, 0x1fffe, 0x2fffd, 0x3fffc, 0x10000, 0x20000}) {
			d2 := append([]byte{}, data...)
			d2[len(d2)-2], d2[len(d2)-1] = byte(w>>8), byte(w)
			h.Data = layer.UDP{SrcPort: 67, DstPort: 68, Data: d2}.Assemble()
			if pkt := emitIPv4Assemble(c, "carry-window-udp", h); pkt != nil {
				c.add(1311, "carry-window-udp", true, args(L{uint64(src), uint64(dst)}, B(pkt[20:])), args(L{1}))
			}
		}
	}
	// beyond the datagram maximum the 16-bit length fields wrap; the model carries the wrap
	for _, n := range []int{65508, 65515, 65528, 65536, 70000} {
		data := payloadPattern(r, n)
		u := layer.UDP{SrcPort: 1, DstPort: 2, Data: data}
		ub := u.Assemble()
		c.add(1303, "udp-oversize", true, args(L{1, 2}, B(data)), args(B(ub)))
		emitIPv4Assemble(c, "ip-oversize", layer.IPv4{TTL: 1, Protocol: 0x11, Source: ip4(1), Destination: ip4(2), Data: ub})
	}
	// non-UDP protocols, short UDP payloads
	for i := 0; i < scale(300, 3000); i++ {
		proto := uint8(r.Intn(256))
		if r.Intn(3) == 0 {
			proto = 0x11
		}
		data := payloadPattern(r, r.Intn(40))
		h := layer.IPv4{Identification: uint16(r.Uint32()), Flags: uint16(r.Uint32()), TTL: uint8(r.Uint32()), Protocol: proto, Source: ip4(r.Uint32()), Destination: ip4(r.Uint32()), Data: data}
		if pkt := emitIPv4Assemble(c, "ip-any-proto", h); pkt != nil {
			c.add(1310, "ip-any-proto", true, args(B(pkt)), args(L{1}))
			c.add(1313, "ip-any-proto", true, args(L{uint64(proto), ipU32(h.Source), ipU32(h.Destination), uint64(h.TTL)}, B(data), B(pkt)), args(L{1}))
			emitDecodeIPv4(c, "ip-any-proto/rt", pkt)
		}
	}
	// decoders on malformed input: truncations, length fields off by one, IHL 0..15, random
	base := layer.IPv4{TTL: 64, Protocol: 0x11, Source: ip4(0x0a000001), Destination: ip4(0xffffffff),
		Data: layer.UDP{SrcPort: 67, DstPort: 68, Data: randBytes(r, 60)}.Assemble()}.Assemble()
	for n := 0; n <= len(base); n++ {
		emitDecodeIPv4(c, "ip-trunc", base[:n])
		if n >= 20 {
			emitDecodeUDP(c, "udp-trunc", base[20:n])
		}
	}
	for ihl := 0; ihl < 16; ihl++ {
		for ver := 0; ver < 16; ver++ {
			b := append([]byte{}, base...)
			b[0] = byte(ver<<4 | ihl)
			emitDecodeIPv4(c, "ip-verihl", b)
			for _, l := range []int{ihl*4 - 1, ihl * 4, ihl*4 + 1} {
				if l >= 0 && l <= len(b) {
					bb := append([]byte{}, b[:l]...)
					if l >= 4 {
						binary.BigEndian.PutUint16(bb[2:], uint16(l))
					}
					emitDecodeIPv4(c, "ip-verihl-exact", bb)
				}
			}
		}
	}
	for _, d := range []int{-2, -1, 1, 2, 256} {
		b := append([]byte{}, base...)
		binary.BigEndian.PutUint16(b[2:], uint16(len(b)+d))
		emitDecodeIPv4(c, "ip-tlen-off", b)
		u := append([]byte{}, base[20:]...)
		binary.BigEndian.PutUint16(u[4:], uint16(len(u)+d))
		emitDecodeUDP(c, "udp-len-off", u)
	}
	// more bytes than a length field can count: the field agrees with the length modulo 65536 only
	for _, extra := range []int{8, 9, 300, 65535} {
		for _, wraps := range []int{1, 2} {
			u := make([]byte, wraps*65536+extra)
			copy(u, base[20:28])
			binary.BigEndian.PutUint16(u[4:], uint16(extra))
			emitDecodeUDP(c, "udp-len-wraps", u)
			b := make([]byte, wraps*65536+20+extra)
			copy(b, base[:20])
			binary.BigEndian.PutUint16(b[2:], uint16(20+extra))
			b[10], b[11] = 0, 0
			binary.BigEndian.PutUint16(b[10:], ^wfold(wsum16(b[:20], 0)))
			emitDecodeIPv4(c, "ip-tlen-wraps", b)
		}
	}
	for i := 0; i < scale(1500, 30000); i++ {
		n := r.Intn(80)
		b := randBytes(r, n)
		if n > 0 && r.Intn(2) == 0 {
			b[0] = 0x45 + byte(r.Intn(4))
		}
		if n >= 4 && r.Intn(2) == 0 {
			binary.BigEndian.PutUint16(b[2:], uint16(n))
		}
		emitDecodeIPv4(c, "ip-random", b)
		u := randBytes(r, r.Intn(40))
		if len(u) >= 6 && r.Intn(2) == 0 {
			binary.BigEndian.PutUint16(u[4:], uint16(len(u)))
		}
		emitDecodeUDP(c, "udp-random", u)
	}
	// ARP
	for i := 0; i < scale(400, 5000); i++ {
		a := layer.ARP{SenderMAC: randBytes(r, 6), TargetMAC: randBytes(r, 6), SenderIP: ip4(r.Uint32()), TargetIP: ip4(r.Uint32()), Opcode: uint8(r.Uint32())}
		kind := "arp-6"
		if i%10 == 0 { // other hardware-address lengths are copied as far as they fit
			a.SenderMAC = randBytes(r, r.Intn(25))
			a.TargetMAC = randBytes(r, r.Intn(25))
			kind = "arp-anylen"
		}
		var out []byte
		if safely(func() { out = a.Assemble() }) {
			c.add(1305, kind, true, args(L{ipU32(a.SenderIP), ipU32(a.TargetIP), uint64(a.Opcode)}, B(a.SenderMAC), B(a.TargetMAC)), resPanic())
			continue
		}
		c.add(1305, kind, true, args(L{ipU32(a.SenderIP), ipU32(a.TargetIP), uint64(a.Opcode)}, B(a.SenderMAC), B(a.TargetMAC)), args(B(out)))
		emitDecodeARP(c, kind+"/rt", out)
	}
	// addresses and opcodes with a meaning of their own: the probe (request from 0.0.0.0), gratuitous forms, all-zero / all-one hardware addresses
	for _, sip := range []uint32{0, 1, 0xffffffff, 0x0a000001} {
		for _, tip := range []uint32{0, 0xffffffff, 0x0a000001} {
			for _, op := range []uint8{0, 1, 2, 3, 255} {
				for _, tm := range [][]byte{{0, 0, 0, 0, 0, 0}, {0xff, 0xff, 0xff, 0xff, 0xff, 0xff}, randBytes(r, 6)} {
					a := layer.ARP{SenderMAC: randBytes(r, 6), TargetMAC: tm, SenderIP: ip4(sip), TargetIP: ip4(tip), Opcode: op}
					var out []byte
					if safely(func() { out = a.Assemble() }) {
						c.add(1305, "arp-special", true, args(L{ipU32(a.SenderIP), ipU32(a.TargetIP), uint64(a.Opcode)}, B(a.SenderMAC), B(a.TargetMAC)), resPanic())
						continue
					}
					c.add(1305, "arp-special", true, args(L{ipU32(a.SenderIP), ipU32(a.TargetIP), uint64(a.Opcode)}, B(a.SenderMAC), B(a.TargetMAC)), args(B(out)))
					emitDecodeARP(c, "arp-special/rt", out)
					// the round trip itself: sender and target addresses and the opcode come back
					want, got := L{uint64(sip), uint64(tip), uint64(op)}, L{}
					gs, gt := []byte{}, []byte{}
					if v, err := layer.DecodeARP(out); err == nil {
						got, gs, gt = L{ipU32(v.SenderIP), ipU32(v.TargetIP), uint64(v.Opcode)}, v.SenderMAC, v.TargetMAC
					}
					c.add(1314, "arp-special/rt", true, args(want, got, B(append(append([]byte{}, a.SenderMAC...), a.TargetMAC...)), B(append(append([]byte{}, gs...), gt...))), args(L{1}))
				}
			}
		}
	}
	for n := 0; n < 64; n++ {
		emitDecodeARP(c, "arp-len", randBytes(r, n))
	}
}
