package harness

import (
	"encoding/hex"
	"strconv"
	"strings"
	"testing"
	"time"
)

var corpusT *testing.T

func parseLists(raw string) (nums [][]uint64, bytes [][]byte) {
	for _, s := range strings.Split(raw, ";") {
		if strings.HasPrefix(s, "x") {
			b, _ := hex.DecodeString(s[1:])
			bytes = append(bytes, b)
			nums = append(nums, nil)
			continue
		}
		var l []uint64
		if s != "" {
			for _, t := range strings.Split(s, ",") {
				v, _ := strconv.ParseUint(t, 10, 64)
				l = append(l, v)
			}
		}
		nums = append(nums, l)
		bytes = append(bytes, nil)
	}
	return
}

func optIPFrom(some, v uint64) []byte {
	if some == 0 {
		return nil
	}
	return ip4(uint32(v))
}

// replayOther re-executes corpus cases of tags other than the plain decoders.
func replayOther(c *caseWriter, kind string, tag int, rawArgs string) {
	nums, bs := parseLists(rawArgs)
	g := func(l []uint64, i int) uint64 {
		if i < len(l) {
			return l[i]
		}
		return 0
	}
	switch tag {
	case 1101:
		cl := nums[0]
		cfg := dbCfg{network: uint32(g(cl, 0)), mask: uint32(g(cl, 1)), hasRange: g(cl, 2) != 0, rb: optIPFrom(g(cl, 3), g(cl, 4)), re: optIPFrom(g(cl, 5), g(cl, 6)), disabled: g(cl, 7) != 0}
		var ops []dbOp
		for i := 1; i+2 < len(nums); i += 3 {
			h, d, e := nums[i], bs[i+1], nums[i+2]
			op := dbOp{kind: int(g(h, 0)), duid: d}
			switch op.kind {
			case 1:
				op.ip = optIPFrom(g(h, 1), g(h, 2))
				op.ttl = time.Duration(g(h, 4))
				if g(h, 3) != 0 {
					op.ttl = -op.ttl
				}
			case 7:
				op.ip = optIPFrom(g(h, 1), g(h, 2))
				op.ttl = time.Duration(g(h, 4))
				if g(h, 3) != 0 {
					op.ttl = -op.ttl
				}
			case 8:
				op.ip = optIPFrom(g(h, 1), g(h, 2))
				for _, b := range e {
					op.busy = append(op.busy, uint32(b))
				}
				op.probeNs = 600 * time.Millisecond
				op.ttl = time.Duration(g(h, 8))
			case 3, 6:
				op.ip = optIPFrom(g(h, 1), g(h, 2))
			case 4:
				op.ip = optIPFrom(g(h, 1), g(h, 2))
				for _, b := range e {
					op.busy = append(op.busy, uint32(b))
				}
				op.probeNs = 600 * time.Millisecond
				if g(h, 6) >= g(h, 5) && g(h, 3) != 0 {
					op.probeNs = time.Duration(g(h, 6) - g(h, 5))
				}
			case 5:
				op.dt = time.Duration(g(h, 1))
			}
			ops = append(ops, op)
		}
		runDBHistory(corpusT, c, kind, cfg, ops)
	}
}
