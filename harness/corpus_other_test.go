package harness

// replayOther re-executes corpus cases of tags other than the plain decoders; extended as checks are added.
func replayOther(c *caseWriter, kind string, tag int, rawArgs string) {}
