package harness

// C17: server-supplied data cannot inject into the hook environment or resolv.conf.
//
// Tags (model side: coq/model/Dispatch.v, dispatch_c17):
//   1701 envEntry(key, val)                               -> entry
//   1702 dumpScriptConf, String() results given as args   -> 7 entries
//   1703 dumpScriptConf, raw address bytes / integers     -> 7 entries
//   1704 PSA_DHCPC_* environment seen by a real child started through Cbhandler -> 8 entries
//   1705 psa-dhcpc -syshook (real binary, chroot) started with an environment block -> resolv.conf or absent
//   1707 the same with a nil configuration (only PSA_DHCPC_INTERFACE)
//   1706 composition: Ifconfig -> real dumpScriptConf -> real binary -> resolv.conf
//   1710/1711/1712 monitors: character-set specification evaluated on the entries the implementation produced
//   1720 monitor: resolv.conf grammar recogniser on the file the real binary wrote
//   1721 monitor: file present iff the specification finds a valid name server in the environment

import (
	"bytes"
	"context"
	"fmt"
	"log"
	"math/rand"
	"net"
	"os"
	"os/exec"
	"path/filepath"
	"strconv"
	"strings"
	"sync"
	"syscall"
	"testing"
	"time"

	"git.sr.ht/~adrian-blx/psa-dhcp/lib/client/callback"
	"git.sr.ht/~adrian-blx/psa-dhcp/lib/libif"
)

func repoDir() string {
	if d := os.Getenv("VERIF_REPO"); d != "" {
		return d
	}
	return "/repo"
}

// ---- byte-string generators ----

const c17Safe = "abcdefghijklmnopqrstuvwxyzABCDEFGHIJKLMNOPQRSTUVWXYZ0123456789,.-"
const c17Meta = ";|&$(){}[]<>'\"\\`*?~!#%^ \t\n\r=_:/@+\x00\x7f"

var c17Utf8Edge = []string{
	"\xc2\x80", "\xdf\xbf", "\xc1\xbf", "\xc0\x80", "\xc2", "\xc2\x7f", "\xc2\xc0",
	"\xe0\xa0\x80", "\xe0\x9f\xbf", "\xe0\x80\x80", "\xe0\xa0", "\xe0", "\xe1\x80\x80", "\xec\xbf\xbf", "\xe1\x80\x7f", "\xe1\x80\xc0",
	"\xed\x9f\xbf", "\xed\xa0\x80", "\xed\xbf\xbf", "\xee\x80\x80", "\xef\xbf\xbd", "\xef\xbf\xbf", "\xef\xbb\xbf",
	"\xf0\x90\x80\x80", "\xf0\x8f\xbf\xbf", "\xf0\x80\x80\x80", "\xf0\x90\x80", "\xf0\x90", "\xf0", "\xf1\x80\x80\x80", "\xf3\xbf\xbf\xbf",
	"\xf4\x8f\xbf\xbf", "\xf4\x90\x80\x80", "\xf5\x80\x80\x80", "\xf8\x88\x80\x80\x80", "\xff", "\xfe", "\x80", "\xbf", "\x80\x80\x80",
	"\xf0\x9f\x92\xa9", "\xe2\x82\xac", "\xc3\xa9", "\xf0\x90\x80\xc0", "\xf0\x90\xc0\x80", "\xe2\x82\x28", "\xe2\x28\xa1",
}

func c17Rune(r *rand.Rand) string {
	for {
		var x rune
		switch r.Intn(3) {
		case 0:
			x = rune(0x80 + r.Intn(0x800-0x80))
		case 1:
			x = rune(0x800 + r.Intn(0x10000-0x800))
		default:
			x = rune(0x10000 + r.Intn(0x110000-0x10000))
		}
		if x >= 0xd800 && x <= 0xdfff {
			continue
		}
		return string(x)
	}
}

func c17Hostname(r *rand.Rand) string {
	n := 1 + r.Intn(4)
	p := make([]string, n)
	for i := range p {
		l := 1 + r.Intn(10)
		b := make([]byte, l)
		for j := range b {
			b[j] = "abcdefghijklmnopqrstuvwxyzABCDEFGHIJKLMNOPQRSTUVWXYZ0123456789-"[r.Intn(63)]
		}
		p[i] = string(b)
	}
	return strings.Join(p, ".")
}

// c17Str returns a byte string and a kind label.
func c17Str(r *rand.Rand) (string, string) {
	switch r.Intn(12) {
	case 0:
		return c17Hostname(r), "hostname"
	case 1: // hostname with one injected byte
		h := []byte(c17Hostname(r))
		i := r.Intn(len(h) + 1)
		inj := []byte{c17Meta[r.Intn(len(c17Meta))]}
		if r.Intn(3) == 0 {
			inj = []byte{byte(r.Intn(256))}
		}
		return string(h[:i]) + string(inj) + string(h[i:]), "hostname-inject1"
	case 2: // classic injections
		return []string{"x\nnameserver 6.6.6.6", "a b", "$(reboot)", "`id`", "a;rm -rf /", "x\x00y", "a=b", "FOO=bar\nPSA_DHCPC_DNS_LIST=6.6.6.6",
			"a\rb", "a\tb", "..", "-", "a,b", "a_b", "'", "\"", "\\", "a\n", "\n", " ", "${IFS}", "a|b", "a&b", ">x", "*"}[r.Intn(25)], "injection"
	case 3: // safe characters only
		n := r.Intn(30)
		b := make([]byte, n)
		for i := range b {
			b[i] = c17Safe[r.Intn(len(c17Safe))]
		}
		return string(b), "safe"
	case 4: // shell metacharacters mixed with safe ones
		n := 1 + r.Intn(20)
		b := make([]byte, n)
		for i := range b {
			if r.Intn(2) == 0 {
				b[i] = c17Meta[r.Intn(len(c17Meta))]
			} else {
				b[i] = c17Safe[r.Intn(len(c17Safe))]
			}
		}
		return string(b), "meta"
	case 5: // valid multi-byte runes mixed with ASCII
		var sb strings.Builder
		for i, n := 0, 1+r.Intn(8); i < n; i++ {
			if r.Intn(3) == 0 {
				sb.WriteByte(c17Safe[r.Intn(len(c17Safe))])
			} else {
				sb.WriteString(c17Rune(r))
			}
		}
		return sb.String(), "utf8-valid"
	case 6, 7: // edge sequences glued together with ASCII and continuation bytes
		var sb strings.Builder
		for i, n := 0, 1+r.Intn(4); i < n; i++ {
			sb.WriteString(c17Utf8Edge[r.Intn(len(c17Utf8Edge))])
			switch r.Intn(4) {
			case 0:
				sb.WriteByte(c17Safe[r.Intn(len(c17Safe))])
			case 1:
				sb.WriteByte(byte(0x80 + r.Intn(0x40)))
			}
		}
		return sb.String(), "utf8-edge"
	case 8: // bytes from the upper half only
		n := 1 + r.Intn(8)
		b := make([]byte, n)
		for i := range b {
			b[i] = byte(0x80 + r.Intn(0x80))
		}
		return string(b), "high-bytes"
	case 9:
		return string(randBytes(r, 255)), "random-255"
	case 10:
		return "", "empty"
	default:
		return string(randBytes(r, r.Intn(41))), "random"
	}
}

// ---- envEntry ----

func emitEnvEntry(c *caseWriter, kind, key, val string) {
	var out string
	if safely(func() { out = callback.VerifEnvEntry(key, val) }) {
		c.add(1701, kind, true, args(B(key), B(val)), resPanic())
		return
	}
	c.add(1701, kind, len(val) > 0, args(B(key), B(val)), args(B(out)))
	c.add(1710, kind, len(val) > 0, args(B(key), B(out)), args(L{1}))
}

var c17Keys = []string{"IPV4_ROUTER", "IPV4_ADDRESS", "NETMASK", "DOMAIN_NAME", "DNS_LIST", "MTU", "LEASE_SEC", "INTERFACE"}

// ---- dumpScriptConf ----

type c17If struct {
	router, ip, mask []byte
	domain           string
	dns              [][]byte
	mtu              int64
	leaseS           int64
}

func (x *c17If) conf() *libif.Ifconfig {
	c := &libif.Ifconfig{Router: net.IP(x.router), IP: net.IP(x.ip), Netmask: net.IPMask(x.mask), DomainName: x.domain,
		MTU: int(x.mtu), LeaseDuration: time.Duration(x.leaseS) * time.Second}
	for _, d := range x.dns {
		c.DNS = append(c.DNS, net.IP(d))
	}
	return c
}

func sgnAbs(v int64) (uint64, uint64) {
	if v < 0 {
		return 1, uint64(-v)
	}
	return 0, uint64(v)
}

func (x *c17If) rawArgs() []interface{} {
	ms, ma := sgnAbs(x.mtu)
	ls, la := sgnAbs(x.leaseS)
	a := args(B(x.router), B(x.ip), B(x.mask), B(x.domain), L{ms, ma, ls, la})
	for _, d := range x.dns {
		a = append(a, B(d))
	}
	return a
}

// addresses: mostly 4 bytes; sometimes nil or an odd length (never 16: the IPv6 text form is outside the model)
func c17Addr(r *rand.Rand, odd bool) []byte {
	if odd {
		switch r.Intn(6) {
		case 0:
			return nil
		case 1:
			return randBytes(r, []int{1, 2, 3, 5, 8, 15, 17, 32}[r.Intn(8)])
		}
	}
	b := randBytes(r, 4)
	switch r.Intn(5) {
	case 0:
		b = []byte{byte(r.Intn(3) * 100), 0, byte(r.Intn(2) * 255), byte(r.Intn(256))}
	case 1:
		b = []byte{10, 0, 0, byte(r.Intn(10))}
	}
	return b
}

func c17RandIf(r *rand.Rand, odd bool) (*c17If, string) {
	x := &c17If{router: c17Addr(r, odd), ip: c17Addr(r, odd)}
	switch r.Intn(5) {
	case 0:
		if odd {
			x.mask = randBytes(r, []int{0, 1, 4, 4, 16, 3}[r.Intn(6)])
		} else {
			x.mask = randBytes(r, 4)
		}
	default:
		m := net.CIDRMask(r.Intn(33), 32)
		x.mask = []byte(m)
	}
	var kind string
	x.domain, kind = c17Str(r)
	nd := []int{0, 1, 1, 2, 2, 3, 4, 8, 63}[r.Intn(9)]
	for i := 0; i < nd; i++ {
		x.dns = append(x.dns, c17Addr(r, odd && r.Intn(4) == 0))
	}
	switch r.Intn(6) {
	case 0:
		x.mtu = 0
	case 1:
		x.mtu = int64(r.Uint64()>>2) - (1 << 61)
	default:
		x.mtu = int64(r.Intn(65536))
	}
	switch r.Intn(8) {
	case 0:
		x.leaseS = 0
	case 1:
		x.leaseS = -int64(r.Intn(100000))
	case 2:
		x.leaseS = int64(r.Uint32()) + int64(r.Intn(2))<<32 // stays below the time.Duration range
	case 3:
		x.leaseS = []int64{9, 10, 99, 100, 999, 1000, 4294967295, 4294967296, 9223372036}[r.Intn(9)]
	default:
		x.leaseS = int64(r.Intn(1 << 20))
	}
	return x, kind
}

func bList(ss []string) []interface{} {
	l := make([]interface{}, len(ss))
	for i, s := range ss {
		l[i] = B(s)
	}
	return l
}

func emitDump(c *caseWriter, kind string, x *c17If) []string {
	cf := x.conf()
	var out []string
	if safely(func() { out = callback.VerifDumpScriptConf(cf) }) {
		c.add(1703, kind, true, x.rawArgs(), resPanic())
		return nil
	}
	c.add(1703, kind, true, x.rawArgs(), bList(out))
	// the same with the results of Go's formatting calls handed to the model as strings
	sa := args(B(cf.Router.String()), B(cf.IP.String()), B(cf.Netmask.String()), B(cf.DomainName),
		B(fmt.Sprintf("%d", cf.MTU)), B(fmt.Sprintf("%d", int(cf.LeaseDuration.Seconds()))))
	for _, d := range cf.DNS {
		sa = append(sa, B(d.String()))
	}
	c.add(1702, kind, true, sa, bList(out))
	c.add(1711, kind, true, bList(out), args(L{1}))
	return out
}

// ---- the real binary in a chroot ----

type c17Hook struct {
	bin   string
	roots chan string
}

func newC17Hook(t *testing.T) *c17Hook {
	base := filepath.Join(outDir(t), "c17-chroot")
	os.RemoveAll(base)
	if err := os.MkdirAll(base, 0o755); err != nil {
		t.Fatal(err)
	}
	bin := filepath.Join(base, "psa-dhcpc")
	var lastErr string
	built := false
	for _, gobin := range []string{"go", "go1.26.8"} {
		cmd := exec.Command(gobin, "build", "-o", bin, filepath.Join(repoDir(), "cmd", "psa-dhcpc.go"))
		cmd.Dir = repoDir()
		// normal build, no verif tag; -mod=readonly so that the tree under test is never edited by the build
		cmd.Env = append(os.Environ(), "CGO_ENABLED=0", "GOFLAGS=-mod=readonly", "GOPROXY=off", "GOSUMDB=off", "GOTOOLCHAIN=local")
		if out, err := cmd.CombinedOutput(); err != nil {
			lastErr = fmt.Sprintf("%s build: %v\n%s", gobin, err, out)
			continue
		}
		built = true
		break
	}
	if !built {
		t.Fatalf("cannot build %s/cmd/psa-dhcpc.go: %s", repoDir(), lastErr)
	}
	raw, err := os.ReadFile(bin)
	if err != nil {
		t.Fatal(err)
	}
	const nroots = 8
	h := &c17Hook{bin: bin, roots: make(chan string, nroots)}
	for i := 0; i < nroots; i++ {
		root := filepath.Join(base, fmt.Sprintf("root%d", i))
		if err := os.MkdirAll(filepath.Join(root, "etc"), 0o755); err != nil {
			t.Fatal(err)
		}
		if err := os.WriteFile(filepath.Join(root, "psa-dhcpc"), raw, 0o755); err != nil {
			t.Fatal(err)
		}
		h.roots <- root
	}
	return h
}

type c17Res struct {
	present bool
	file    []byte
	note    string // non-empty: the run itself failed (not a property verdict)
}

// run starts `psa-dhcpc -syshook` chrooted with exactly envp as its environment block (no de-duplication by os/exec).
func (h *c17Hook) run(envp []string) c17Res {
	root := <-h.roots
	defer func() { h.roots <- root }()
	rc := filepath.Join(root, "etc", "resolv.conf")
	os.Remove(rc)
	devnull, err := os.OpenFile(os.DevNull, os.O_RDWR, 0)
	if err != nil {
		return c17Res{note: err.Error()}
	}
	defer devnull.Close()
	if envp == nil {
		envp = []string{}
	}
	p, err := os.StartProcess("/psa-dhcpc", []string{"psa-dhcpc", "-syshook"}, &os.ProcAttr{
		Dir: "/", Env: envp, Files: []*os.File{devnull, devnull, devnull}, Sys: &syscall.SysProcAttr{Chroot: root}})
	if err != nil {
		return c17Res{note: "start: " + err.Error()}
	}
	done := make(chan struct{})
	go func() {
		select {
		case <-done:
		case <-time.After(20 * time.Second):
			p.Kill()
		}
	}()
	st, err := p.Wait()
	close(done)
	if err != nil {
		return c17Res{note: "wait: " + err.Error()}
	}
	if !st.Success() {
		return c17Res{note: "exit: " + st.String()}
	}
	b, err := os.ReadFile(rc)
	res := c17Res{}
	if err == nil {
		res.present, res.file = true, b
		os.Remove(rc)
	} else if !os.IsNotExist(err) {
		res.note = "read: " + err.Error()
	}
	if ents, _ := os.ReadDir(filepath.Join(root, "etc")); len(ents) != 0 {
		res.note = fmt.Sprintf("left-over files in etc: %d", len(ents))
		for _, e := range ents {
			os.Remove(filepath.Join(root, "etc", e.Name()))
		}
	}
	return res
}

func fileOuts(r c17Res) []interface{} {
	if !r.present {
		return args(L{0})
	}
	return args(L{1}, B(r.file))
}

type c17Job struct {
	kind string
	envp []string
	x    *c17If // non-nil: composition case, envp is the real dumpScriptConf output
	res  c17Res
}

// a value for PSA_DHCPC_DNS_LIST: pieces valid or broken in each way
func c17DNSList(r *rand.Rand) string {
	n := []int{0, 1, 1, 2, 3, 3, 5, 12, 63}[r.Intn(9)]
	p := make([]string, n)
	for i := range p {
		ip := fmt.Sprintf("%d.%d.%d.%d", r.Intn(256), r.Intn(256), r.Intn(256), r.Intn(256))
		switch r.Intn(14) {
		case 0:
			p[i] = ""
		case 1:
			p[i] = ip + "\n"
		case 2:
			p[i] = ip + " evil"
		case 3:
			p[i] = ip + "\nnameserver 6.6.6.6"
		case 4:
			b := []byte(ip)
			b[r.Intn(len(b))] = byte(1 + r.Intn(255))
			p[i] = string(b)
		case 5:
			p[i] = []string{".", "...", "1", "999.999", "1..2", "0x7f.1", "1.2.3.4.5.6", "_", "1_2", "-1", "1.2.3.4/24", "::1", "fe80::1", "１.１.１.１", "1.1.1.1\xff", "\xc2\xa0" + "1.1.1.1"}[r.Intn(16)]
		case 6:
			s, _ := c17Str(r)
			p[i] = strings.ReplaceAll(s, "\x00", "0")
		default:
			p[i] = ip
		}
	}
	return strings.Join(p, ",")
}

func c17Domain(r *rand.Rand) string {
	switch r.Intn(3) {
	case 0:
		return c17Hostname(r)
	default:
		s, _ := c17Str(r)
		return strings.ReplaceAll(s, "\x00", "-") // an environment block cannot carry NUL
	}
}

// hand-made environment blocks: what a (possibly hostile) caller of the hook could pass
func c17Envp(r *rand.Rand) ([]string, string) {
	const D, N = "PSA_DHCPC_DOMAIN_NAME", "PSA_DHCPC_DNS_LIST"
	var e []string
	kind := "envp"
	noise := func() {
		switch r.Intn(8) {
		case 0:
			e = append(e, "PATH=/bin:/usr/bin")
		case 1:
			e = append(e, "NOEQUALS")
		case 2:
			e = append(e, "")
		case 3:
			e = append(e, "=novalue")
		case 4:
			e = append(e, strings.ToLower(N)+"=9.9.9.9")
		case 5:
			e = append(e, "X"+N+"=9.9.9.9", N+"2=9.9.9.9", N+" =9.9.9.9")
		case 6:
			e = append(e, "PSA_DHCPC_MTU=1500", "PSA_DHCPC_IPV4_ROUTER=10.0.0.1")
		case 7:
			e = append(e, N) // the key alone, no "="
		}
	}
	for i, n := 0, r.Intn(3); i < n; i++ {
		noise()
	}
	switch r.Intn(10) {
	case 0: // no name-server variable at all
		e = append(e, D+"="+c17Domain(r))
		kind = "envp-no-dns"
	case 1: // value starts with "="
		e = append(e, N+"==1.1.1.1", D+"="+c17Domain(r))
		kind = "envp-eq-in-value"
	case 2: // duplicates: the Go runtime keeps the first
		e = append(e, N+"="+c17DNSList(r), D+"="+c17Domain(r), N+"="+c17DNSList(r), D+"="+c17Domain(r), N+"="+c17DNSList(r))
		kind = "envp-duplicates"
	case 3: // domain first / after
		e = append(e, D+"="+c17Domain(r), N+"="+c17DNSList(r))
		kind = "envp-domain-first"
	case 4:
		e = append(e, N+"=")
		e = append(e, D+"="+c17Domain(r))
		kind = "envp-empty-dns"
	default:
		e = append(e, N+"="+c17DNSList(r))
		if r.Intn(4) != 0 {
			e = append(e, D+"="+c17Domain(r))
		}
	}
	for i, n := 0, r.Intn(2); i < n; i++ {
		noise()
	}
	return e, kind
}

func runC17Jobs(h *c17Hook, jobs []*c17Job) {
	var wg sync.WaitGroup
	sem := make(chan struct{}, cap(h.roots))
	for _, j := range jobs {
		wg.Add(1)
		sem <- struct{}{}
		go func(j *c17Job) {
			defer wg.Done()
			j.res = h.run(j.envp)
			<-sem
		}(j)
	}
	wg.Wait()
}

// ---- a real child through Cbhandler ----

// childEnv starts `/usr/bin/env -0` through callback.Cbhandler and returns the PSA_DHCPC_* entries the child saw.
// One handler per interface name is kept and used again: what a call passes to the child must not depend on earlier calls.
type childHandler struct {
	buf bytes.Buffer
	h   func(context.Context, *libif.Ifconfig)
}

var childHandlers = map[string]*childHandler{}

func childEnv(ifname string, cf *libif.Ifconfig) ([]string, error) {
	ch := childHandlers[ifname]
	if ch == nil {
		ch = &childHandler{}
		ch.h = callback.Cbhandler("/usr/bin/env -0", &net.Interface{Name: ifname}, log.New(&ch.buf, "", 0))
		childHandlers[ifname] = ch
	}
	ch.buf.Reset()
	buf, h := &ch.buf, ch.h
	ctx, cancel := context.WithTimeout(context.Background(), 30*time.Second)
	defer cancel()
	h(ctx, cf)
	const mark = "-> Command exited with output "
	for _, line := range strings.Split(buf.String(), "\n") {
		if strings.HasPrefix(line, mark) {
			s, err := strconv.Unquote(line[len(mark):])
			if err != nil {
				return nil, fmt.Errorf("unquote: %v", err)
			}
			var res []string
			for _, e := range strings.Split(s, "\x00") {
				if strings.HasPrefix(e, "PSA_DHCPC_") {
					res = append(res, e)
				}
			}
			return res, nil
		}
	}
	return nil, fmt.Errorf("no output line in log: %q", buf.String())
}

func TestC17(t *testing.T) {
	c := newCaseWriter(t, "c17")
	defer c.close(t, "c17")
	r := newRand(17)

	// (a) envEntry: every byte value alone and between letters, for two keys
	for b := 0; b < 256; b++ {
		emitEnvEntry(c, "byte-alone", "DOMAIN_NAME", string([]byte{byte(b)}))
		emitEnvEntry(c, "byte-embedded", "DNS_LIST", "a"+string([]byte{byte(b)})+"z")
	}
	// every UTF-8 edge sequence alone, followed by a continuation byte, followed by a letter, truncated by one
	for _, s := range c17Utf8Edge {
		emitEnvEntry(c, "utf8-edge", "DOMAIN_NAME", s)
		emitEnvEntry(c, "utf8-edge", "DOMAIN_NAME", s+"\x80")
		emitEnvEntry(c, "utf8-edge", "DOMAIN_NAME", "x"+s+"y")
		emitEnvEntry(c, "utf8-edge", "DOMAIN_NAME", s[:len(s)-1]+"A")
	}
	// all lead bytes >= 0x80 against second bytes at every range boundary (thorough: every second byte), completed by continuation bytes
	seconds := []int{0x00, 0x41, 0x7f, 0x80, 0x8f, 0x90, 0x9f, 0xa0, 0xbf, 0xc0, 0xff}
	if thorough() {
		seconds = nil
		for i := 0; i < 256; i++ {
			seconds = append(seconds, i)
		}
	}
	for b0 := 0x80; b0 < 0x100; b0++ {
		for _, b1 := range seconds {
			emitEnvEntry(c, "utf8-lead-x-second", "DOMAIN_NAME", string([]byte{byte(b0), byte(b1), 0x80, 0x80, 'A'}))
		}
	}
	for _, b2 := range seconds {
		for _, b3 := range []int{0x7f, 0x80, 0xbf, 0xc0} {
			emitEnvEntry(c, "utf8-third-fourth", "DOMAIN_NAME", string([]byte{0xf1, 0x80, byte(b2), byte(b3), 'A'}))
			emitEnvEntry(c, "utf8-third-fourth", "DOMAIN_NAME", string([]byte{0xe1, byte(b2), byte(b3), 'A'}))
		}
	}
	for i := 0; i < scale(4000, 200000); i++ {
		v, kind := c17Str(r)
		key := c17Keys[r.Intn(len(c17Keys))]
		if r.Intn(20) == 0 {
			key, _ = c17Str(r)
			kind = "key-random/" + kind
		}
		emitEnvEntry(c, kind, key, v)
	}

	// (b) dumpScriptConf
	for i := 0; i < scale(1500, 40000); i++ {
		x, kind := c17RandIf(r, i%3 == 0)
		emitDump(c, "dump/"+kind, x)
	}
	emitDump(c, "dump/zero", &c17If{})

	// (c) a real child process started through Cbhandler
	if _, err := os.Stat("/usr/bin/env"); err != nil {
		t.Log("/usr/bin/env not available: child-process cases skipped")
	} else {
		for _, e := range os.Environ() {
			if strings.HasPrefix(e, "PSA_DHCPC_") {
				os.Unsetenv(strings.SplitN(e, "=", 2)[0])
			}
		}
		for i := 0; i < scale(50, 400); i++ {
			x, kind := c17RandIf(r, i%4 == 0)
			ifname, _ := c17Str(r)
			if i%2 == 0 {
				ifname = []string{"eth0", "wlan0", "br-lan", "eth0.100", "en;reboot", "a b"}[r.Intn(6)]
			}
			// every fifth call: the client's own environment already holds variables of these names (a wrapper script, a unit
			// file, a client started from another client's hook): what the hook is told is still what this lease says
			inherited := i%5 == 0
			if inherited {
				for _, k := range []string{"DOMAIN_NAME", "DNS_LIST", "IPV4_ROUTER", "IPV4_ADDRESS", "NETMASK", "MTU", "LEASE_SEC", "INTERFACE"} {
					os.Setenv("PSA_DHCPC_"+k, "inherited;`id`$(x) "+k)
				}
				kind += "+inherited"
			}
			got, err := childEnv(ifname, x.conf())
			if inherited {
				for _, k := range []string{"DOMAIN_NAME", "DNS_LIST", "IPV4_ROUTER", "IPV4_ADDRESS", "NETMASK", "MTU", "LEASE_SEC", "INTERFACE"} {
					os.Unsetenv("PSA_DHCPC_" + k)
				}
			}
			if err != nil {
				t.Errorf("child process case %d: %v", i, err)
				continue
			}
			c.add(1704, "child/"+kind, true, append(args(B(ifname)), x.rawArgs()...), bList(got))
			c.add(1712, "child/"+kind, true, bList(got), args(L{1}))
		}
		// calls without a configuration (the address was removed): on fresh handlers and on handlers that passed leases before
		for _, ifname := range []string{"eth0", "x\ny", "a=b;c", "\xff\x00", "wlan0", "br-lan", "eth0.100", "en;reboot", "a b", "eth0"} {
			got, err := childEnv(ifname, nil)
			if err != nil {
				t.Errorf("child process (nil configuration): %v", err)
				continue
			}
			c.add(1707, "child/nil-config", true, args(B(ifname)), bList(got))
			c.add(1712, "child/nil-config", true, bList(got), args(L{1}))
		}
	}

	// (d) the real psa-dhcpc -syshook in a chroot
	if os.Geteuid() != 0 {
		t.Fatal("C17 needs root for chroot")
	}
	h := newC17Hook(t)
	var jobs []*c17Job
	nspawn := scale(160, 5000)
	for i := 0; i < nspawn; i++ {
		if i%3 == 0 { // composition: Ifconfig -> real dumpScriptConf -> real binary
			x, kind := c17RandIf(r, i%9 == 0)
			if len(x.dns) == 0 && r.Intn(2) == 0 {
				x.dns = append(x.dns, c17Addr(r, false))
			}
			var out []string
			cf := x.conf()
			if safely(func() { out = callback.VerifDumpScriptConf(cf) }) {
				t.Errorf("dumpScriptConf panicked")
				continue
			}
			jobs = append(jobs, &c17Job{kind: "compose/" + kind, envp: out, x: x})
		} else {
			e, kind := c17Envp(r)
			jobs = append(jobs, &c17Job{kind: kind, envp: e})
		}
	}
	// fixed cases
	for _, e := range [][]string{
		{},
		{"PSA_DHCPC_DNS_LIST=1.1.1.1"},
		{"PSA_DHCPC_DNS_LIST=1.1.1.1,8.8.8.8", "PSA_DHCPC_DOMAIN_NAME=example.org"},
		{"PSA_DHCPC_DNS_LIST=1.1.1.1\n"},
		{"PSA_DHCPC_DNS_LIST=1.1.1.1", "PSA_DHCPC_DOMAIN_NAME=example.org\n"},
		{"PSA_DHCPC_DNS_LIST=1.1.1.1", "PSA_DHCPC_DOMAIN_NAME=x\nnameserver 6.6.6.6"},
		{"PSA_DHCPC_DNS_LIST=1.1.1.1 ,2.2.2.2", "PSA_DHCPC_DOMAIN_NAME=a b"},
		{"PSA_DHCPC_DNS_LIST=,,,", "PSA_DHCPC_DOMAIN_NAME=example.org"},
		{"PSA_DHCPC_DNS_LIST=_", "PSA_DHCPC_DOMAIN_NAME=_"},
		{"PSA_DHCPC_DNS_LIST=1.1.1.1", "PSA_DHCPC_DOMAIN_NAME=a_b"},
		{"PSA_DHCPC_DOMAIN_NAME=first.example", "PSA_DHCPC_DOMAIN_NAME=second.example", "PSA_DHCPC_DNS_LIST=1.1.1.1", "PSA_DHCPC_DNS_LIST=2.2.2.2"},
		{"PSA_DHCPC_DNS_LIST", "PSA_DHCPC_DNS_LIST=3.3.3.3"},
		{"PSA_DHCPC_DNS_LIST=1.1.1.1\xff,2.2.2.2", "PSA_DHCPC_DOMAIN_NAME=\xc3\xa9.example"},
	} {
		jobs = append(jobs, &c17Job{kind: "envp-fixed", envp: e})
	}
	runC17Jobs(h, jobs)
	failed := 0
	for _, j := range jobs {
		if j.res.note != "" {
			failed++
			if failed <= 5 {
				t.Errorf("syshook run failed (%s) for environment %q", j.res.note, j.envp)
			}
			continue
		}
		ea := append(args(L{uint64(len(j.envp))}), bList(j.envp)...)
		c.add(1705, j.kind, len(j.envp) > 0, ea, fileOuts(j.res))
		c.add(1721, j.kind, len(j.envp) > 0, ea, args(L{b2n(j.res.present)}))
		if j.res.present {
			c.add(1720, j.kind, true, args(B(j.res.file)), args(L{1}))
		}
		if j.x != nil {
			c.add(1706, j.kind, true, j.x.rawArgs(), fileOuts(j.res))
		}
	}
	os.RemoveAll(filepath.Join(outDir(t), "c17-chroot"))
}
