package harness

// End to end on the real kernel: the real psa-dhcpd and psa-dhcpc binaries (built from the tree under test WITHOUT the verif
// tag: real AF_PACKET sockets of lib/rsocks, real netlink of lib/libif and lib/ifmon, the real main functions and the
// text configuration file) run against each other over a veth pair in a private network namespace (unshare -n).  An observer
// in this test process records every frame on the server's end of the pair with its link-layer header, answers the server's
// ARP probes for one pool address as a foreign host, throws malformed frames at both programs, flaps the client's link once and
// reads the interface configuration, the routing table and the programs' open sockets from /proc.
//
// What is judged (one direct-violation log per property; the packets themselves go through the Coq recognisers of C14 / C16):
//   C16 client frames: broadcast, from the interface's hardware address, EtherType IPv4; wellformed_for (tag 1610)
//   C06 server frames: from the server's hardware address to the client's (broadcast flag clear), EtherType IPv4;
//       acceptable to a specification client in the matching wait state (spec_accept, tag 1410)
//   C02 / C08: the offered address lies in the dynamic range and is not the one a foreign host answered ARP for
//   C07: OFFER and ACK carry the configured lease, netmask, router, DNS and domain
//   C15: the interface ends up with exactly the acknowledged address / prefix and a default route via the announced router,
//        also after the link-up re-validation
//   C19: the programs' socket counts return to their quiescent values after each exchange
//   C10: both programs survive the malformed frames and stay silent about them
// If the sandbox offers no network namespaces the test records that it was skipped; it never fails for that reason.

import (
	"bytes"
	"crypto/sha256"
	"encoding/binary"
	"fmt"
	"math/rand"
	"net"
	"os"
	"os/exec"
	"path/filepath"
	"strings"
	"sync"
	"sync/atomic"
	"syscall"
	"testing"
	"time"

	"github.com/golang/protobuf/proto"
)

var e2eProps = []string{"c02", "c06", "c07", "c08", "c10", "c15", "c16", "c17", "c19"}

func e2eBuild(t *testing.T, dir, name string) (string, error) {
	bin := filepath.Join(dir, name)
	var last string
	for _, gobin := range []string{"go", "go1.26.8"} {
		cmd := exec.Command(gobin, "build", "-o", bin, filepath.Join(repoDir(), "cmd", name+".go"))
		cmd.Dir = repoDir()
		cmd.Env = append(os.Environ(), "CGO_ENABLED=0", "GOFLAGS=-mod=readonly", "GOPROXY=off", "GOSUMDB=off", "GOTOOLCHAIN=local")
		if out, err := cmd.CombinedOutput(); err != nil {
			last = fmt.Sprintf("%s build: %v\n%s", gobin, err, out)
			continue
		}
		return bin, nil
	}
	return "", fmt.Errorf("%s", last)
}

func e2eWriteAll(t *testing.T, logs map[string]*violationLog, note string) {
	for _, p := range e2eProps {
		vl := logs[p]
		if vl == nil {
			vl = &violationLog{}
		}
		n := int(atomic.LoadInt64(&vl.n))
		vl.write(t, "e2e-"+p, map[string]interface{}{"distinct_nontrivial": n, "histogram": map[string]int{"e2e:" + note: n},
			"samples": []string{"real psa-dhcpd and psa-dhcpc over a veth pair in a private network namespace: " + note}})
	}
}

// TestE2E is the outer half: builds the programs and re-executes this test binary inside a fresh network namespace.
func TestE2E(t *testing.T) {
	if os.Getenv("E2E_INNER") == "1" {
		e2eInner(t)
		return
	}
	dir := filepath.Join(outDir(t), "e2e")
	os.RemoveAll(dir)
	os.MkdirAll(dir, 0o755)
	if _, err := exec.LookPath("unshare"); err != nil {
		e2eWriteAll(t, nil, "skipped: no unshare")
		return
	}
	if err := exec.Command("unshare", "-n", "sh", "-c", "ip link add vp0 type veth peer name vp1 && ip link add vbr type bridge").Run(); err != nil {
		e2eWriteAll(t, nil, "skipped: no network namespace / veth / bridge in this sandbox")
		return
	}
	for _, n := range []string{"psa-dhcpd", "psa-dhcpc"} {
		if _, err := e2eBuild(t, dir, n); err != nil {
			t.Fatalf("cannot build cmd/%s.go of the tree under test: %v", n, err)
		}
	}
	// the run is the same for every property that looks at it: within one sweep of checks it is done once per pair of
	// binaries (the binaries are rebuilt from the tree under test every time, so a change of the code is a different key)
	h := sha256.New()
	for _, n := range []string{"psa-dhcpd", "psa-dhcpc"} {
		b, _ := os.ReadFile(filepath.Join(dir, n))
		h.Write(b)
	}
	self, _ := os.ReadFile(os.Args[0])
	h.Write(self)
	key := fmt.Sprintf("%x", h.Sum(nil))[:24]
	cache := os.Getenv("VERIF_E2E_CACHE")
	if cache != "" {
		ent := filepath.Join(cache, key)
		if st, err := os.Stat(filepath.Join(ent, "done")); err == nil && time.Since(st.ModTime()) < 20*time.Minute {
			files, _ := filepath.Glob(filepath.Join(ent, "e2e*"))
			for _, f := range files {
				b, _ := os.ReadFile(f)
				os.WriteFile(filepath.Join(outDir(t), filepath.Base(f)), b, 0o644)
			}
			os.RemoveAll(dir)
			return
		}
	}
	cmd := exec.Command("unshare", "-n", "-m", os.Args[0], "-test.run", "^TestE2E$", "-test.timeout", "300s")
	cmd.Env = append(os.Environ(), "E2E_INNER=1", "E2E_DIR="+dir, "VERIF_OUT="+outDir(t))
	out, err := cmd.CombinedOutput()
	os.WriteFile(filepath.Join(dir, "inner.log"), out, 0o644)
	if err != nil {
		t.Fatalf("end-to-end run failed: %v\n%s", err, out)
	}
	os.RemoveAll(dir)
	if cache != "" {
		ent := filepath.Join(cache, key)
		os.RemoveAll(ent)
		os.MkdirAll(ent, 0o755)
		files, _ := filepath.Glob(filepath.Join(outDir(t), "e2e*"))
		for _, f := range files {
			if b, err := os.ReadFile(f); err == nil {
				os.WriteFile(filepath.Join(ent, filepath.Base(f)), b, 0o644)
			}
		}
		os.WriteFile(filepath.Join(ent, "done"), []byte(time.Now().String()), 0o644)
		old, _ := filepath.Glob(filepath.Join(cache, "*"))
		for _, o := range old {
			if st, err := os.Stat(o); err == nil && time.Since(st.ModTime()) > time.Hour {
				os.RemoveAll(o)
			}
		}
	}
}

type e2eFrame struct {
	t        time.Time
	outgoing bool // sent by the server's end (veth0)
	b        []byte
}

type e2eTap struct {
	mu     sync.Mutex
	frames []e2eFrame
	fd     int
}

func htons16(v uint16) uint16 { return v<<8 | v>>8 }

func e2eRawSock(ifname string) (int, *net.Interface, error) {
	ifc, err := net.InterfaceByName(ifname)
	if err != nil {
		return -1, nil, err
	}
	fd, err := syscall.Socket(syscall.AF_PACKET, syscall.SOCK_RAW, int(htons16(syscall.ETH_P_ALL)))
	if err != nil {
		return -1, nil, err
	}
	if err := syscall.Bind(fd, &syscall.SockaddrLinklayer{Protocol: htons16(syscall.ETH_P_ALL), Ifindex: ifc.Index}); err != nil {
		syscall.Close(fd)
		return -1, nil, err
	}
	return fd, ifc, nil
}

func (tp *e2eTap) run(onFrame func(e2eFrame)) {
	buf := make([]byte, 4096)
	for {
		n, from, err := syscall.Recvfrom(tp.fd, buf, 0)
		if err != nil {
			return
		}
		f := e2eFrame{t: time.Now(), b: append([]byte{}, buf[:n]...)}
		if ll, ok := from.(*syscall.SockaddrLinklayer); ok && ll.Pkttype == 4 { // PACKET_OUTGOING
			f.outgoing = true
		}
		tp.mu.Lock()
		tp.frames = append(tp.frames, f)
		tp.mu.Unlock()
		if onFrame != nil {
			onFrame(f)
		}
	}
}

func (tp *e2eTap) snapshot() []e2eFrame {
	tp.mu.Lock()
	defer tp.mu.Unlock()
	return append([]e2eFrame{}, tp.frames...)
}

func e2eSockets(pid int) int {
	ents, err := os.ReadDir(fmt.Sprintf("/proc/%d/fd", pid))
	if err != nil {
		return -1
	}
	n := 0
	for _, e := range ents {
		if l, err := os.Readlink(fmt.Sprintf("/proc/%d/fd/%s", pid, e.Name())); err == nil && strings.HasPrefix(l, "socket:") {
			n++
		}
	}
	return n
}

// stableSockets waits until the socket count of a process has not changed for 700 ms (at most 6 s) and returns it.
func stableSockets(pid int) int {
	last, since := e2eSockets(pid), time.Now()
	for end := time.Now().Add(6 * time.Second); time.Now().Before(end); {
		time.Sleep(100 * time.Millisecond)
		if n := e2eSockets(pid); n != last {
			last, since = n, time.Now()
		} else if time.Since(since) > 700*time.Millisecond {
			break
		}
	}
	return last
}

func ipOut(args ...string) string {
	out, _ := exec.Command("ip", args...).CombinedOutput()
	return string(out)
}

func e2eInner(t *testing.T) {
	dir := os.Getenv("E2E_DIR")
	logs := map[string]*violationLog{}
	for _, p := range e2eProps {
		logs[p] = &violationLog{}
	}
	c := newCaseWriter(t, "e2e-client")
	defer c.close(t, "e2e-client")
	cs := newCaseWriter(t, "e2e-server")
	defer cs.close(t, "e2e-server")
	cr := newCaseWriter(t, "e2e-resolv")
	defer cr.close(t, "e2e-resolv")
	bad := func(p, kind, format string, a ...interface{}) { logs[p].add(kind, format, a...) }
	seen := func(p string) { atomic.AddInt64(&logs[p].n, 1) }
	r := newRand(77)

	srvMAC, cliMAC := net.HardwareAddr{0x02, 0xaa, 0, 0, 0, 1}, net.HardwareAddr{0x02, 0xbb, 0, 0, 0, 2}
	foreign := net.HardwareAddr{0x02, 0xcc, 0, 0, 0, 0x64}
	const srvIP, claimed, rangeB, rangeE = uint32(0x0a4d0001), uint32(0x0a4d0064), uint32(0x0a4d0064), uint32(0x0a4d0067)
	must := func(args ...string) {
		if out, err := exec.Command("ip", args...).CombinedOutput(); err != nil {
			t.Fatalf("ip %v: %v %s", args, err, out)
		}
	}
	must("link", "set", "lo", "up")
	// three hosts on one segment: the server (veth0), the client (veth1) and the observer's injector (veth2), each a veth
	// pair whose other end is a port of a bridge, so that one host can lose its carrier without the others noticing
	must("link", "add", "br0", "type", "bridge")
	must("link", "add", "veth0", "address", srvMAC.String(), "type", "veth", "peer", "name", "veth0b")
	must("link", "add", "veth1", "address", cliMAC.String(), "type", "veth", "peer", "name", "veth1b")
	must("link", "add", "veth2", "type", "veth", "peer", "name", "veth2b")
	for _, p := range []string{"veth0b", "veth1b", "veth2b"} {
		must("link", "set", p, "master", "br0")
		must("link", "set", p, "up")
	}
	must("link", "set", "br0", "up")
	must("link", "set", "veth2", "up")
	must("addr", "add", "10.77.0.1/24", "dev", "veth0")
	// both ends of the pair live in one network stack: without this the kernel would answer, on veth0, ARP requests for the
	// address the client configures on veth1 (as if the server's host owned it)
	for _, i := range []string{"all", "default", "veth0", "veth1", "veth2", "br0"} {
		os.WriteFile("/proc/sys/net/ipv4/conf/"+i+"/arp_ignore", []byte("1"), 0o644)
	}
	must("link", "set", "veth0", "up")
	must("link", "set", "veth1", "up")
	time.Sleep(300 * time.Millisecond)
	// the host has an uplink of its own: a default route through another interface, which is none of the client's business
	must("link", "add", "wan0", "type", "veth", "peer", "name", "wan0b")
	must("link", "set", "wan0b", "up")
	must("link", "set", "wan0", "up")
	must("addr", "add", "192.168.9.2/24", "dev", "wan0")
	must("route", "add", "default", "via", "192.168.9.1", "dev", "wan0", "metric", "100")

	tapFd, _, err := e2eRawSock("veth0")
	if err != nil {
		t.Fatalf("observer socket: %v", err)
	}
	injFd, _, err := e2eRawSock("veth2")
	if err != nil {
		t.Fatalf("injector socket: %v", err)
	}
	inject := func(dst, src net.HardwareAddr, etype uint16, payload []byte) {
		f := append(append(append([]byte{}, dst...), src...), byte(etype>>8), byte(etype))
		syscall.Write(injFd, append(f, payload...))
	}
	tap := &e2eTap{fd: tapFd}
	var claimedAt int64 // unix nanos of the first answered probe for the claimed address
	// a second address is defended the way RFC 5227 2.6 recommends: the owner's ARP replies go to the link-layer broadcast address
	const claimed2 = claimed + 1
	var claimed2At int64
	var lookFirst time.Time // first ARP request of the client's current look-up of the server
	go tap.run(func(f e2eFrame) {
		if f.outgoing && len(f.b) >= 42 && f.b[12] == 0x08 && f.b[13] == 0x06 && binary.BigEndian.Uint16(f.b[20:]) == 1 &&
			binary.BigEndian.Uint32(f.b[38:]) == claimed2 {
			rep := make([]byte, 28)
			copy(rep, []byte{0, 1, 8, 0, 6, 4, 0, 2})
			copy(rep[8:14], []byte{0x02, 0xcc, 0, 0, 0, 0x65})
			binary.BigEndian.PutUint32(rep[14:], claimed2)
			copy(rep[18:24], f.b[22:28])
			copy(rep[24:28], f.b[28:32])
			atomic.CompareAndSwapInt64(&claimed2At, 0, time.Now().UnixNano())
			inject(net.HardwareAddr{0xff, 0xff, 0xff, 0xff, 0xff, 0xff}, net.HardwareAddr{0x02, 0xcc, 0, 0, 0, 0x65}, 0x0806, rep)
		}
		// the server's ARP probes for the claimed address are answered by a foreign host
		if f.outgoing && len(f.b) >= 42 && f.b[12] == 0x08 && f.b[13] == 0x06 && binary.BigEndian.Uint16(f.b[20:]) == 1 &&
			binary.BigEndian.Uint32(f.b[38:]) == claimed {
			rep := make([]byte, 28)
			copy(rep, []byte{0, 1, 8, 0, 6, 4, 0, 2})
			copy(rep[8:14], foreign)
			binary.BigEndian.PutUint32(rep[14:], claimed)
			copy(rep[18:24], f.b[22:28])
			copy(rep[24:28], f.b[28:32])
			atomic.CompareAndSwapInt64(&claimedAt, 0, time.Now().UnixNano())
			inject(srvMAC, foreign, 0x0806, rep)
		}
		// the client's look-up of the server's hardware address (before a unicast renewal): with both ends in one network stack
		// the kernel does not answer an ARP request whose sender address is one of its own, so the observer answers for the server
		if !f.outgoing && len(f.b) >= 42 && f.b[12] == 0x08 && f.b[13] == 0x06 && binary.BigEndian.Uint16(f.b[20:]) == 1 &&
			binary.BigEndian.Uint32(f.b[38:]) == srvIP && binary.BigEndian.Uint32(f.b[28:]) != 0 {
			// (thorough tier: a server that is slow to answer - only the request that comes more than 700 ms after the first of a
			// look-up, the last of its five, gets the answer: the REQUEST still goes out once, not twice)
			if f.t.Sub(lookFirst) > 2*time.Second {
				lookFirst = f.t
			}
			if os.Getenv("VERIF_TIER") == "thorough" && f.t.Sub(lookFirst) < 720*time.Millisecond {
				return
			}
			rep := make([]byte, 28)
			copy(rep, []byte{0, 1, 8, 0, 6, 4, 0, 2})
			copy(rep[8:14], srvMAC)
			binary.BigEndian.PutUint32(rep[14:], srvIP)
			copy(rep[18:24], f.b[22:28])
			copy(rep[24:28], f.b[28:32])
			fr := append(append(append([]byte{}, f.b[6:12]...), srvMAC...), 0x08, 0x06)
			syscall.Write(tapFd, append(fr, rep...))
		}
	})

	conf := filepath.Join(dir, "dhcpd.conf")
	os.WriteFile(conf, []byte("network: \"10.77.0.0/24\"\ndynamic_range: \"10.77.0.100-10.77.0.103\"\nrouter: \"10.77.0.1\"\ndns: \"10.77.0.53\"\ndomain: \"e2e.test\"\nlease_duration: \"1m\"\n"+
		// (a host name for the client that has to arrive as it is written here, dollar signs and braces included)
		"client { key: \""+cliMAC.String()+"\" value { hostname: \"cli-$HOME-${USER}x$\" } }\n"), 0o644)
	start := func(name string, args ...string) (*exec.Cmd, *bytes.Buffer) {
		cmd := exec.Command(filepath.Join(dir, name), args...)
		var buf bytes.Buffer
		cmd.Stdout, cmd.Stderr = &buf, &buf
		if err := cmd.Start(); err != nil {
			t.Fatalf("start %s: %v", name, err)
		}
		return cmd, &buf
	}
	alive := func(cmd *exec.Cmd) bool { return syscall.Kill(cmd.Process.Pid, 0) == nil && e2eSockets(cmd.Process.Pid) >= 0 && !exited(cmd) }
	srv, srvLog := start("psa-dhcpd", "-ifname", "veth0", "-config", conf)
	defer srv.Process.Kill()
	time.Sleep(700 * time.Millisecond)
	if !alive(srv) {
		t.Fatalf("psa-dhcpd did not start: %s", srvLog.String())
	}
	srvBase := stableSockets(srv.Process.Pid)

	// malformed frames for the server
	junk := func(dst net.HardwareAddr, port uint16) int {
		cl := &simClient{mac: []byte{2, 0xdd, 0, 0, 0, 9}, xid: 0x0badf00d}
		good := udpip(0, 0xffffffff, 68, port, 17, 64, cl.msg(1, 0, 0, wopt{55, []byte{1, 3, 6}}).bytes())
		n := 0
		for i := 0; i < 40; i++ {
			var p []byte
			switch i % 5 {
			case 0:
				p = randBytes(r, 1+r.Intn(300))
			case 1:
				p = good[:r.Intn(len(good))]
			case 2:
				p = append([]byte{}, good...)
				p[r.Intn(len(p))] ^= byte(1 << uint(r.Intn(8)))
				p[2+r.Intn(2)] ^= 0x10 // total length off
			case 3:
				m := cl.msg(1, 0, 0)
				m.hlen = byte(17 + r.Intn(200))
				p = udpip(0, 0xffffffff, 68, port, 17, 64, m.bytes())
			case 4:
				m := cl.msg(1, 0, 0)
				m.rawOpts = []byte{53, 1, 1, 61, 200, 1, 2}
				p = udpip(0, 0xffffffff, 68, port, 17, 64, m.bytes())
			}
			inject(dst, net.HardwareAddr{2, 0xdd, 0, 0, 0, 9}, 0x0800, p)
			n++
		}
		return n
	}
	before := len(tap.snapshot())
	junk(net.HardwareAddr{0xff, 0xff, 0xff, 0xff, 0xff, 0xff}, 67)
	time.Sleep(900 * time.Millisecond)
	seen("c10")
	if !alive(srv) {
		bad("c10", "e2e-server-died", "psa-dhcpd is gone after 40 malformed frames: %s", tailStr(srvLog.String(), 600))
	}
	for _, f := range tap.snapshot()[before:] {
		if f.outgoing && len(f.b) > 14 && f.b[12] == 0x08 && f.b[13] == 0x00 {
			bad("c10", "e2e-reply-to-junk", "psa-dhcpd sent an IP frame in answer to malformed frames: %x", f.b)
		}
	}

	// a client that sets the BROADCAST flag (psa-dhcpc never does): the observer sends a DISCOVER of its own
	{
		seen("c06")
		oc := &simClient{mac: []byte{2, 0xdd, 0, 0, 0, 0x33}, xid: 0x0b0b0b0b}
		mark := len(tap.snapshot())
		// (it asks for the address that is defended by broadcast ARP replies: the suggestion is probed first and must be passed over)
		inject(net.HardwareAddr{0xff, 0xff, 0xff, 0xff, 0xff, 0xff}, net.HardwareAddr(oc.mac), 0x0800, udpip(0, 0xffffffff, 68, 67, 17, 64, oc.msg(1, 0x8000, 0, wopt{50, u32b(claimed2)}).bytes()))
		got := false
		for end := time.Now().Add(5 * time.Second); time.Now().Before(end) && !got; time.Sleep(50 * time.Millisecond) {
			for _, f := range tap.snapshot()[mark:] {
				if f.outgoing && len(f.b) > 14+28 && f.b[12] == 0x08 && f.b[13] == 0 {
					if rp := parseReply(f.b[14:]); rp.ok && rp.msg.xid == oc.xid && rp.typ == 2 {
						got = true
						if !bytes.Equal(f.b[0:6], []byte{0xff, 0xff, 0xff, 0xff, 0xff, 0xff}) || rp.dst != 0xffffffff || rp.msg.flags&0x8000 == 0 {
							bad("c06", "e2e-server-frame", "OFFER to a client that set the broadcast flag went to %s / %s with flags %04x", net.HardwareAddr(f.b[0:6]), ip4(rp.dst), rp.msg.flags)
						}
						if y := rp.msg.yiaddr; (y == claimed && atomic.LoadInt64(&claimedAt) != 0) || (y == claimed2 && atomic.LoadInt64(&claimed2At) != 0) {
							seen("c08")
							bad("c08", "e2e-offered-claimed-address", "offered %s to the observer's client although a foreign host answered the server's ARP probe for it", ip4(y))
						}
						cs.add(1410, "e2e-offer-bcast", true, args(L{0, uint64(oc.xid), 0, 0, 0}, B(oc.mac), B(f.b[14:])), args(L{1}))
					}
				}
			}
		}
		if !got {
			bad("c06", "e2e-no-reply", "no OFFER within 5 s for a DISCOVER that sets the broadcast flag (three pool addresses are free)\n%s", tailStr(srvLog.String(), 500))
		}
	}

	// a message with a 16-octet hardware address that has to be answered by unicast (an INIT-REBOOT REQUEST for an address the
	// sender does not hold: NAK to the sender's link-layer address): the real send socket has room for 8 octets of address
	{
		seen("c10")
		lc := &simClient{mac: []byte{2, 0xdd, 0, 0, 0, 0x44, 1, 2, 3, 4, 5, 6, 7, 8, 9, 10}, xid: 0x0c0c0c0c}
		for _, hl := range []int{16, 9, 8, 7} {
			m := lc.msg(3, 0, 0, wopt{50, u32b(0x0a4d0065)})
			m.hlen = byte(hl)
			inject(net.HardwareAddr{0xff, 0xff, 0xff, 0xff, 0xff, 0xff}, net.HardwareAddr(lc.mac[:6]), 0x0800, udpip(0, 0xffffffff, 68, 67, 17, 64, m.bytes()))
			time.Sleep(900 * time.Millisecond)
		}
		if !alive(srv) {
			bad("c10", "e2e-server-died", "psa-dhcpd is gone after REQUESTs with hardware addresses of 16, 9, 8 and 7 octets: %s", tailStr(srvLog.String(), 800))
		} else if n := stableSockets(srv.Process.Pid); n != srvBase {
			bad("c19", "e2e-sockets", "psa-dhcpd holds %d sockets after REQUESTs with long hardware addresses, %d at start", n, srvBase)
		}
	}

	// the server's replies cannot leave (the queue of its interface refuses frames of that size: sendto fails with ENOBUFS, while
	// the small ARP probes pass): the handler gives the reply up, closes its socket and ends
	if _, err := exec.LookPath("tc"); err == nil && alive(srv) {
		if exec.Command("tc", "qdisc", "add", "dev", "veth0", "root", "tbf", "rate", "1mbit", "burst", "200", "latency", "1ms").Run() == nil {
			seen("c19")
			oc := &simClient{mac: []byte{2, 0xdd, 0, 0, 0, 0x33}, xid: 0x0d0d0d0d}
			inject(net.HardwareAddr{0xff, 0xff, 0xff, 0xff, 0xff, 0xff}, net.HardwareAddr(oc.mac), 0x0800, udpip(0, 0xffffffff, 68, 67, 17, 64, oc.msg(1, 0x8000, 0).bytes()))
			time.Sleep(2500 * time.Millisecond)
			// (judged while the queue still refuses: a handler that keeps trying would get through once it is gone)
			n := stableSockets(srv.Process.Pid)
			exec.Command("tc", "qdisc", "del", "dev", "veth0", "root").Run()
			if !alive(srv) {
				bad("c19", "e2e-server-died", "psa-dhcpd is gone after a reply that could not be sent: %s", tailStr(srvLog.String(), 800))
			} else if n != srvBase {
				bad("c19", "e2e-sockets", "psa-dhcpd holds %d sockets 2.5 s after a reply that could not be sent (queue full), %d at start", n, srvBase)
			}
		}
	}

	// the client maintains resolv.conf itself (-resolvconf: its hook is "psa-dhcpc -syshook"): /etc of this private mount
	// namespace is an empty directory of the run
	cliArgs := []string{"-ifname", "veth1"}
	etc := filepath.Join(dir, "etc")
	os.MkdirAll(etc, 0o755)
	privateEtc := exec.Command("mount", "--bind", etc, "/etc").Run() == nil
	if privateEtc {
		cliArgs = append(cliArgs, "-resolvconf")
	}
	// the client acquires a lease
	cli, cliLog := start("psa-dhcpc", cliArgs...)
	defer cli.Process.Kill()
	configured := func() string {
		for _, l := range strings.Split(ipOut("-4", "-o", "addr", "show", "dev", "veth1"), "\n") {
			if f := strings.Fields(l); len(f) >= 4 && f[2] == "inet" {
				return f[3]
			}
		}
		return ""
	}
	deadline := time.Now().Add(20 * time.Second)
	for configured() == "" && time.Now().Before(deadline) {
		time.Sleep(100 * time.Millisecond)
	}
	if configured() == "" {
		if !alive(cli) || !alive(srv) {
			bad("c10", "e2e-died", "a program died during the first exchange: dhcpd alive=%v dhcpc alive=%v\n%s\n%s", alive(srv), alive(cli), tailStr(srvLog.String(), 500), tailStr(cliLog.String(), 500))
		} else {
			bad("c15", "e2e-no-lease", "the client did not configure an address within 20 s\n%s\n%s", tailStr(srvLog.String(), 800), tailStr(cliLog.String(), 800))
		}
		e2eWriteAll(t, logs, "no lease acquired")
		return
	}
	time.Sleep(500 * time.Millisecond)

	// ---- judge the frames of the first exchange ----
	var offer, ack, lastAck *wreply
	judgeFrames := func(frames []e2eFrame, rebinding bool) {
		var lastReq *wreply
		for _, f := range frames {
			if len(f.b) < 14+28 || f.b[12] != 0x08 || f.b[13] != 0x00 {
				continue
			}
			dst, src := net.HardwareAddr(f.b[0:6]), net.HardwareAddr(f.b[6:12])
			rp := parseReply(f.b[14:])
			if !rp.ok {
				if f.outgoing || bytes.Equal(src, cliMAC) {
					who := "psa-dhcpc"
					if f.outgoing {
						who = "psa-dhcpd"
					}
					bad(map[bool]string{true: "c06", false: "c16"}[f.outgoing], "e2e-undecodable", "%s sent an IP frame the observer cannot decode as IPv4/UDP/DHCP: %x", who, f.b)
				}
				continue
			}
			x := rp
			switch {
			case !f.outgoing && bytes.Equal(src, cliMAC) && rp.dport == 67:
				seen("c16")
				if !bytes.Equal(dst, []byte{0xff, 0xff, 0xff, 0xff, 0xff, 0xff}) {
					bad("c16", "e2e-client-frame", "client message type %d sent to link-layer address %s, not to the broadcast address", rp.typ, dst)
				}
				kind, leased, server := uint64(0), uint64(0), uint64(0)
				switch {
				case rp.typ == 1:
				case rp.typ == 3 && rp.msg.ciaddr == 0:
					kind = 1
					for _, o := range rp.msg.opts {
						if o.code == 50 && len(o.data) == 4 {
							leased = uint64(binary.BigEndian.Uint32(o.data))
						}
						if o.code == 54 && len(o.data) == 4 {
							server = uint64(binary.BigEndian.Uint32(o.data))
						}
					}
				case rp.typ == 3:
					kind, leased = 3, uint64(rp.msg.ciaddr)
				default:
					bad("c16", "e2e-client-frame", "unexpected client message type %d", rp.typ)
					continue
				}
				c.add(1610, "e2e-client", true, args(L{kind, leased, server}, B(cliMAC), B(f.b[14:])), args(L{1}))
				lastReq = &x
			case f.outgoing && rp.sport == 67 && !bytes.Equal(rp.msg.chaddr, cliMAC):
				// reply to the observer's own DISCOVER: judged where it was sent
			case f.outgoing && rp.sport == 67:
				seen("c06")
				if !bytes.Equal(src, srvMAC) {
					bad("c06", "e2e-server-frame", "server reply leaves with link-layer source %s, the interface has %s", src, srvMAC)
				}
				if lastReq != nil && lastReq.msg.flags&0x8000 == 0 && rp.typ != 6 && !bytes.Equal(dst, cliMAC) {
					bad("c06", "e2e-server-frame", "reply type %d to a request without broadcast flag sent to link-layer address %s, the client has %s", rp.typ, dst, cliMAC)
				}
				if lastReq != nil && lastReq.msg.flags&0x8000 != 0 && !bytes.Equal(dst, []byte{0xff, 0xff, 0xff, 0xff, 0xff, 0xff}) {
					bad("c06", "e2e-server-frame", "reply to a request with broadcast flag sent to %s", dst)
				}
				if lastReq == nil {
					bad("c06", "e2e-server-frame", "server frame without a request before it: %x", f.b)
					continue
				}
				// acceptable to a specification client waiting for it?
				switch rp.typ {
				case 2:
					offer = &x
					cs.add(1410, "e2e-offer", true, args(L{0, uint64(lastReq.msg.xid), 0, 0, 0}, B(cliMAC), B(f.b[14:])), args(L{1}))
				case 5:
					ack, lastAck = &x, &x
					w := L{1, uint64(lastReq.msg.xid), uint64(rp.msg.yiaddr), 1, uint64(srvIP)}
					if rebinding {
						w = L{3, uint64(lastReq.msg.xid), uint64(lastReq.msg.ciaddr), 0, 0}
					}
					cs.add(1410, "e2e-ack", true, args(w, B(cliMAC), B(f.b[14:])), args(L{1}))
				default:
					bad("c06", "e2e-server-frame", "unexpected reply type %d in a fault-free exchange", rp.typ)
				}
				// C07: configured parameters
				if rp.typ == 2 || rp.typ == 5 {
					seen("c07")
					want := map[byte][]byte{51: {0, 0, 0, 60}, 1: {255, 255, 255, 0}, 3: {10, 77, 0, 1}, 6: {10, 77, 0, 53}, 15: []byte("e2e.test")}
					got := map[byte][]byte{}
					for _, o := range rp.msg.opts {
						got[o.code] = o.data
					}
					if bytes.Equal(rp.msg.chaddr, cliMAC) {
						want[12] = []byte("cli-$HOME-${USER}x$")
					} else if _, has := got[12]; has {
						bad("c07", "e2e-options", "reply type %d to %x carries a host name (%q); only the client's entry has one", rp.typ, rp.msg.chaddr, got[12])
					}
					for k, v := range want {
						if !bytes.Equal(got[k], v) {
							bad("c07", "e2e-options", "reply type %d carries option %d = %x, the configuration says %x", rp.typ, k, got[k], v)
						}
					}
				}
			}
		}
	}
	first := tap.snapshot()
	judgeFrames(first, false)
	seen("c02")
	seen("c08")
	if offer == nil || ack == nil {
		bad("c15", "e2e-no-lease", "address configured but no OFFER/ACK pair was seen on the wire (offer=%v ack=%v)", offer != nil, ack != nil)
	} else {
		y := offer.msg.yiaddr
		if y < rangeB || y > rangeE {
			bad("c02", "e2e-offer-outside-range", "offered %s, dynamic range is 10.77.0.100-10.77.0.103", ip4(y))
		}
		if at := atomic.LoadInt64(&claimedAt); y == claimed && at != 0 {
			bad("c08", "e2e-offered-claimed-address", "offered %s although a foreign host answered the server's ARP probe for it", ip4(y))
		}
		if at := atomic.LoadInt64(&claimed2At); y == claimed2 && at != 0 {
			bad("c08", "e2e-offered-claimed-address", "offered %s although a foreign host answered the server's ARP probe for it (by link-layer broadcast, RFC 5227 2.6)", ip4(y))
		}
	}
	// default routes through the client's interface; whether the uplink's route is still there
	ownDefault := func() string {
		var own []string
		for _, l := range strings.Split(ipOut("-4", "route", "show", "default"), "\n") {
			if strings.Contains(l, "dev veth1") {
				own = append(own, strings.TrimSpace(l))
			}
		}
		return strings.Join(own, "\n")
	}
	checkUplink := func(when string) {
		seen("c15")
		if rt := ipOut("-4", "route", "show", "default", "dev", "wan0"); !strings.Contains(rt, "via 192.168.9.1") {
			bad("c15", "e2e-interface", "%s: the host's default route through another interface (via 192.168.9.1 dev wan0) is gone; routes now: %q", when, strings.TrimSpace(ipOut("-4", "route", "show")))
		}
	}
	checkIface := func(when string) {
		seen("c15")
		if lastAck == nil {
			return
		}
		want := fmt.Sprintf("%s/24", ip4(lastAck.msg.yiaddr))
		if got := configured(); got != want {
			bad("c15", "e2e-interface", "%s: interface holds %q, the ACK said %s", when, got, want)
		}
		if n := strings.Count(ipOut("-4", "-o", "addr", "show", "dev", "veth1"), " inet "); n != 1 {
			bad("c15", "e2e-interface", "%s: %d IPv4 addresses on the interface", when, n)
		}
		router := "10.77.0.1"
		for _, o := range lastAck.msg.opts {
			if o.code == 3 && len(o.data) >= 4 {
				router = net.IP(o.data[:4]).String()
			}
		}
		if rt := ownDefault(); !strings.Contains(rt, "via "+router+" dev veth1") || strings.Count(rt, "default") != 1 {
			bad("c15", "e2e-interface", "%s: default route is %q, the ACK announced router %s", when, rt, router)
		}
		checkUplink(when)
	}
	lifetime := func() int {
		out := ipOut("-4", "-o", "addr", "show", "dev", "veth1")
		if i := strings.Index(out, "valid_lft "); i >= 0 {
			var n int
			if _, err := fmt.Sscanf(out[i+len("valid_lft "):], "%dsec", &n); err == nil {
				return n
			}
			if strings.HasPrefix(out[i+len("valid_lft "):], "forever") {
				return 1 << 30
			}
		}
		return -1
	}
	checkMTU := func(when string, want int) {
		seen("c15")
		out := ipOut("-o", "link", "show", "dev", "veth1")
		got := -1
		if i := strings.Index(out, " mtu "); i >= 0 {
			fmt.Sscanf(out[i+5:], "%d", &got)
		}
		if got != want {
			bad("c15", "e2e-interface", "%s: the interface has MTU %d", when, got)
		}
	}
	checkLifetime := func(when string) {
		// the kernel removes the address by itself when its lifetime runs out: it has to cover the lease just acknowledged
		if n := lifetime(); n < 56 {
			bad("c15", "e2e-lifetime", "%s: the address is configured with %d s left to live; the lease just acknowledged is 60 s", when, n)
		}
	}
	checkIface("after the first ACK")
	checkLifetime("after the first ACK")
	// C17 end to end: ACK -> interface configuration -> hook environment -> psa-dhcpc -syshook -> /etc/resolv.conf
	checkResolv := func(when string) {
		if !privateEtc || lastAck == nil {
			return
		}
		seen("c17")
		var file []byte
		for end := time.Now().Add(3 * time.Second); time.Now().Before(end); time.Sleep(100 * time.Millisecond) {
			if b, err := os.ReadFile("/etc/resolv.conf"); err == nil && len(b) > 0 {
				file = b
				break
			}
		}
		if file == nil {
			bad("c17", "e2e-resolvconf", "%s: no /etc/resolv.conf although the ACK names a DNS server\n%s", when, tailStr(cliLog.String(), 600))
			return
		}
		if ents, _ := os.ReadDir("/etc"); len(ents) != 1 {
			bad("c17", "e2e-resolvconf", "%s: %d entries in /etc, only resolv.conf is expected (temporary files left?)", when, len(ents))
		}
		// the file the composition of the Coq functions yields for exactly this configuration (tag 1706), and its grammar (1720)
		x := &c17If{router: []byte{10, 77, 0, 1}, ip: ip4(lastAck.msg.yiaddr), mask: []byte{255, 255, 255, 0}, domain: "e2e.test", mtu: 0, leaseS: 60, dns: [][]byte{{10, 77, 0, 53}}}
		cr.add(1706, "e2e-resolvconf", true, x.rawArgs(), args(L{1}, B(file)))
		cr.add(1720, "e2e-resolvconf", true, args(B(file)), args(L{1}))
	}
	checkResolv("after the first ACK")
	seen("c19")
	srvQuiet, cliQuiet := stableSockets(srv.Process.Pid), stableSockets(cli.Process.Pid)
	if srvQuiet != srvBase {
		bad("c19", "e2e-sockets", "psa-dhcpd holds %d sockets after the exchange, %d before it", srvQuiet, srvBase)
	}

	// ---- link events: re-validation by rebinding.  First the interface itself is taken down and up, then it loses and
	// regains its carrier (the other end goes down and up); each time an unrelated interface comes up during the outage ----
	flapNo := 0
	gotAck := false
	flap := func(what string, down, up func()) {
		flapNo++
		time.Sleep(3 * time.Second) // let the lifetime run down a little: the re-validation has to renew it
		mark := len(tap.snapshot())
		down()
		time.Sleep(150 * time.Millisecond)
		a, b := fmt.Sprintf("vx%da", flapNo), fmt.Sprintf("vx%db", flapNo)
		must("link", "add", a, "type", "veth", "peer", "name", b)
		must("link", "set", a, "up")
		must("link", "set", b, "up")
		time.Sleep(150 * time.Millisecond)
		up()
		gotAck = false
		for end := time.Now().Add(12 * time.Second); time.Now().Before(end) && !gotAck; time.Sleep(100 * time.Millisecond) {
			for _, f := range tap.snapshot()[mark:] {
				if f.outgoing && len(f.b) > 14+28 && f.b[12] == 0x08 && f.b[13] == 0 {
					if rp := parseReply(f.b[14:]); rp.ok && rp.typ == 5 {
						gotAck = true
					}
				}
			}
		}
		time.Sleep(700 * time.Millisecond)
		second := tap.snapshot()[mark:]
		rebound := false
		for _, f := range second {
			if !f.outgoing && len(f.b) > 14+28 && f.b[12] == 0x08 && f.b[13] == 0 {
				if rp := parseReply(f.b[14:]); rp.ok && rp.typ == 3 && rp.msg.ciaddr != 0 {
					rebound = true
				}
			}
		}
		if !rebound {
			bad("c15", "e2e-no-revalidation", "%s: no rebinding REQUEST within 12 s of the link coming back\n%s", what, tailStr(cliLog.String(), 600))
			return
		}
		offer, ack = nil, nil
		judgeFrames(second, true)
		if !gotAck {
			bad("c15", "e2e-no-revalidation", "%s: rebinding REQUEST sent but not acknowledged\n%s", what, tailStr(srvLog.String(), 600))
		}
		checkIface("after the re-validation (" + what + ")")
		checkLifetime("after the re-validation (" + what + ")")
		seen("c19")
		if n := stableSockets(srv.Process.Pid); n != srvBase {
			bad("c19", "e2e-sockets", "%s: psa-dhcpd holds %d sockets after the exchange, %d at start", what, n, srvBase)
		}
		if n := stableSockets(cli.Process.Pid); n != cliQuiet {
			bad("c19", "e2e-sockets", "%s: psa-dhcpc holds %d sockets after the re-validation, %d while bound before it", what, n, cliQuiet)
		}
	}
	flap("interface down/up", func() { must("link", "set", "veth1", "down") }, func() { must("link", "set", "veth1", "up") })
	flap("carrier lost/back", func() { must("link", "set", "veth1b", "down") }, func() { must("link", "set", "veth1b", "up") })

	// ---- another server takes over: while rebinding any server may answer.  psa-dhcpd is stopped and the observer answers the
	// next two re-validations itself: first with an ACK for the same address that names another router and an infinite
	// lease (the route has to follow, the address lives for ever), then with a NAK (address and route have to go) ----
	if alive(cli) && alive(srv) && lastAck != nil {
		otherMAC, otherIP := net.HardwareAddr{2, 0xee, 0, 0, 0, 0x77}, uint32(0x0a4d0002)
		syscall.Kill(srv.Process.Pid, syscall.SIGSTOP)
		answer := func(what string, build func(req wreply) wmsg) bool {
			time.Sleep(2500 * time.Millisecond) // the client's state loop is rate limited: space the link events
			mark := len(tap.snapshot())
			// (the carrier goes and comes back: unlike taking the interface down this leaves the old default route in the kernel,
			// so that the new configuration has to replace it)
			must("link", "set", "veth1b", "down")
			time.Sleep(200 * time.Millisecond)
			must("link", "set", "veth1b", "up")
			// Like a real server the observer answers every such REQUEST, retransmissions included: the client opens its receive
			// socket while its sender goroutine is already transmitting, so an answer that comes back within microseconds can
			// be lost on a busy machine and is then caught at the retransmission (seen once as a false alarm of this test).
			answered, handled := 0, mark
			var until time.Time
			for end := time.Now().Add(10 * time.Second); time.Now().Before(end) && (answered == 0 || time.Now().Before(until)); time.Sleep(20 * time.Millisecond) {
				snap := tap.snapshot()
				for ; handled < len(snap); handled++ {
					f := snap[handled]
					if !f.outgoing && len(f.b) > 14+28 && f.b[12] == 0x08 && f.b[13] == 0 && bytes.Equal(f.b[6:12], cliMAC) {
						if rq := parseReply(f.b[14:]); rq.ok && rq.typ == 3 && rq.msg.ciaddr != 0 {
							m := build(rq)
							dst := rq.msg.ciaddr
							if m.yiaddr == 0 {
								dst = 0xffffffff
							}
							inject(cliMAC, otherMAC, 0x0800, udpip(otherIP, dst, 67, 68, 17, 64, m.bytes()))
							if answered == 0 {
								until = time.Now().Add(2500 * time.Millisecond)
							}
							answered++
						}
					}
				}
			}
			if answered > 0 {
				return true
			}
			bad("c15", "e2e-no-revalidation", "%s: no rebinding REQUEST within 10 s of the link event\n%s", what, tailStr(cliLog.String(), 500))
			return false
		}
		leased := lastAck.msg.yiaddr
		if answer("ACK of another server", func(rq wreply) wmsg {
			m := wmsg{op: 2, htype: 1, hlen: 6, xid: rq.msg.xid, yiaddr: rq.msg.ciaddr, siaddr: otherIP, chaddr: rq.msg.chaddr, cookie: 0x63825363}
			m.opts = []wopt{{53, []byte{5}}, {54, u32b(otherIP)}, {51, u32b(0xffffffff)}, {1, []byte{255, 255, 255, 0}}, {3, u32b(otherIP)}, {6, u32b(0x0a4d0035)}, {15, []byte("e2e.test")}, {26, []byte{0x05, 0x78}}}
			x := parseReply(udpip(otherIP, rq.msg.ciaddr, 67, 68, 17, 64, m.bytes()))
			lastAck = &x
			return m
		}) {
			time.Sleep(300 * time.Millisecond) // (answer returns 2.5 s after the first ACK was injected)
			checkIface("after another server's ACK with a new router, an MTU of 1400 and an infinite lease")
			checkLifetime("after another server's ACK with an infinite lease")
			checkMTU("after another server's ACK announcing an interface MTU of 1400", 1400)
		}
		// the MTU of the most recent ACK, also when it is the one the interface had when the client was started
		if answer("ACK of that server with the MTU back at 1500", func(rq wreply) wmsg {
			m := wmsg{op: 2, htype: 1, hlen: 6, xid: rq.msg.xid, yiaddr: rq.msg.ciaddr, siaddr: otherIP, chaddr: rq.msg.chaddr, cookie: 0x63825363}
			m.opts = []wopt{{53, []byte{5}}, {54, u32b(otherIP)}, {51, u32b(0xffffffff)}, {1, []byte{255, 255, 255, 0}}, {3, u32b(otherIP)}, {6, u32b(0x0a4d0035)}, {15, []byte("e2e.test")}, {26, []byte{0x05, 0xdc}}}
			x := parseReply(udpip(otherIP, rq.msg.ciaddr, 67, 68, 17, 64, m.bytes()))
			lastAck = &x
			return m
		}) {
			time.Sleep(300 * time.Millisecond)
			checkIface("after that server's second ACK")
			checkMTU("after an ACK announcing an interface MTU of 1500 (an earlier one had announced 1400)", 1500)
		}
		if answer("NAK of that server", func(rq wreply) wmsg {
			m := wmsg{op: 2, htype: 1, hlen: 6, xid: rq.msg.xid, chaddr: rq.msg.chaddr, cookie: 0x63825363}
			m.opts = []wopt{{53, []byte{6}}, {54, u32b(otherIP)}}
			return m
		}) {
			seen("c15")
			gone := false
			for end := time.Now().Add(4 * time.Second); time.Now().Before(end) && !gone; time.Sleep(50 * time.Millisecond) {
				gone = configured() == ""
			}
			if !gone {
				bad("c15", "e2e-nak", "a NAK while rebinding: the address %s is still configured 4 s later (lease acknowledged as infinite before)\n%s", ip4(leased), tailStr(cliLog.String(), 500))
			} else if rt := ownDefault(); rt != "" {
				bad("c15", "e2e-nak", "a NAK while rebinding: the address is gone but the default route stays: %q", rt)
			}
			checkUplink("after a NAK while rebinding")
		}
		// the real server comes back: the client discovers again
		reacquire := func(after string) {
			syscall.Kill(srv.Process.Pid, syscall.SIGCONT)
			mark := len(tap.snapshot())
			for end := time.Now().Add(25 * time.Second); configured() == "" && time.Now().Before(end); {
				time.Sleep(100 * time.Millisecond)
			}
			time.Sleep(800 * time.Millisecond)
			offer, ack = nil, nil
			for _, f := range tap.snapshot()[mark:] {
				if f.outgoing && len(f.b) > 14+28 && f.b[12] == 0x08 && f.b[13] == 0 {
					if rp := parseReply(f.b[14:]); rp.ok && rp.typ == 5 && bytes.Equal(rp.msg.chaddr, cliMAC) {
						x := rp
						lastAck = &x
					}
				}
			}
			if configured() == "" {
				bad("c15", "e2e-no-lease", "no lease again within 25 s after %s\n%s", after, tailStr(cliLog.String(), 600))
			} else {
				checkIface("after the lease acquired again from psa-dhcpd (" + after + ")")
				checkLifetime("after the lease acquired again (" + after + ")")
				cliQuiet = stableSockets(cli.Process.Pid)
			}
		}
		reacquire("the NAK")
		// ---- a configuration the kernel refuses: psa-dhcpd is stopped again and the observer acknowledges the next re-validation
		// naming a router outside the subnet (that route cannot be added).  The client has to remove what it configured, the
		// host's own route stays, and the failed attempt leaves no descriptor behind ----
		if configured() != "" && alive(cli) && alive(srv) {
			syscall.Kill(srv.Process.Pid, syscall.SIGSTOP)
			if answer("ACK naming a router outside the subnet", func(rq wreply) wmsg {
				m := wmsg{op: 2, htype: 1, hlen: 6, xid: rq.msg.xid, yiaddr: rq.msg.ciaddr, siaddr: otherIP, chaddr: rq.msg.chaddr, cookie: 0x63825363}
				m.opts = []wopt{{53, []byte{5}}, {54, u32b(otherIP)}, {51, u32b(600)}, {1, []byte{255, 255, 255, 0}}, {3, u32b(0x0a630001)}, {6, u32b(0x0a4d0035)}}
				return m
			}) {
				seen("c15")
				seen("c19")
				gone := false
				for end := time.Now().Add(4 * time.Second); time.Now().Before(end) && !gone; time.Sleep(50 * time.Millisecond) {
					gone = configured() == ""
				}
				if !gone {
					bad("c15", "e2e-failed-config", "the router of the ACK (10.99.0.1) cannot be installed, yet the address is still configured 4 s later: %q\n%s", configured(), tailStr(cliLog.String(), 500))
				} else if rt := ownDefault(); rt != "" {
					bad("c15", "e2e-failed-config", "after a configuration the kernel refused a default route through the interface stays: %q", rt)
				}
				checkUplink("after a configuration the kernel refused")
				if n := stableSockets(cli.Process.Pid); n > cliQuiet {
					bad("c19", "e2e-sockets", "psa-dhcpc holds %d sockets after a configuration the kernel refused, %d while bound before it", n, cliQuiet)
				}
			}
			// (a link event ends the pause the client takes after the failure)
			time.Sleep(2500 * time.Millisecond)
			must("link", "set", "veth1b", "down")
			time.Sleep(200 * time.Millisecond)
			must("link", "set", "veth1b", "up")
			reacquire("the refused configuration")
		}
	}

	// malformed frames for the client's port
	junk(cliMAC, 68)
	junk(net.HardwareAddr{0xff, 0xff, 0xff, 0xff, 0xff, 0xff}, 68)
	time.Sleep(500 * time.Millisecond)
	seen("c10")
	if !alive(cli) {
		bad("c10", "e2e-client-died", "psa-dhcpc is gone after malformed frames: %s", tailStr(cliLog.String(), 600))
	}
	if !alive(srv) {
		bad("c10", "e2e-server-died", "psa-dhcpd is gone: %s", tailStr(srvLog.String(), 600))
	}
	checkIface("after malformed frames")
	// ---- thorough tier: real timers.  Renewal by unicast at T1 = 30 s after the last ACK, then the server is stopped:
	// rebinding at T2 = 52.5 s, the address is removed at the expiry (60 s) and discovery starts again ----
	if os.Getenv("VERIF_TIER") == "thorough" && gotAck && alive(cli) && alive(srv) {
		var t0 time.Time // when the last ACK went out
		for _, f := range tap.snapshot() {
			if f.outgoing && len(f.b) > 14+28 && f.b[12] == 0x08 && f.b[13] == 0 {
				if rp := parseReply(f.b[14:]); rp.ok && rp.typ == 5 {
					t0 = f.t
				}
			}
		}
		mark := len(tap.snapshot())
		waitFor := func(until time.Time, pred func(e2eFrame, wreply) bool) (e2eFrame, wreply, bool) {
			for time.Now().Before(until) {
				for _, f := range tap.snapshot()[mark:] {
					if len(f.b) > 14+28 && f.b[12] == 0x08 && f.b[13] == 0 {
						if rp := parseReply(f.b[14:]); rp.ok && pred(f, rp) {
							return f, rp, true
						}
					}
				}
				time.Sleep(100 * time.Millisecond)
			}
			return e2eFrame{}, wreply{}, false
		}
		near := func(at time.Time, secs float64, what string) {
			d := at.Sub(t0).Seconds()
			if d < secs-0.5 || d > secs+3 {
				bad("c15", "e2e-timer", "%s happened %.2f s after the ACK; due at %.1f s", what, d, secs)
			}
		}
		seen("c15")
		f, rp, ok := waitFor(t0.Add(36*time.Second), func(f e2eFrame, rp wreply) bool { return !f.outgoing && rp.typ == 3 && rp.msg.ciaddr != 0 })
		if !ok {
			bad("c15", "e2e-timer", "no renewing REQUEST within 36 s of the ACK (T1 = 30 s)\n%s", tailStr(cliLog.String(), 500))
		} else {
			near(f.t, 30, "the first renewing REQUEST")
			seen("c16")
			if !bytes.Equal(f.b[0:6], srvMAC) || rp.dst != srvIP || rp.src != rp.msg.ciaddr {
				bad("c16", "e2e-client-frame", "renewing REQUEST sent to %s / %s from %s; it goes by unicast from the leased address to the server (%s / %s)", net.HardwareAddr(f.b[0:6]), ip4(rp.dst), ip4(rp.src), srvMAC, ip4(srvIP))
			}
			c.add(1610, "e2e-client-renew", true, args(L{2, uint64(rp.msg.ciaddr), uint64(srvIP)}, B(cliMAC), B(f.b[14:])), args(L{1}))
			// the look-up took 800 ms (see the observer's ARP answers): the REQUEST is sent once now, the next one 700 ms later at the earliest
			time.Sleep(1500 * time.Millisecond)
			var prevT time.Time
			for _, g := range tap.snapshot()[mark:] {
				if !g.outgoing && len(g.b) > 14+28 && g.b[12] == 0x08 && g.b[13] == 0 && bytes.Equal(g.b[6:12], cliMAC) {
					if rq := parseReply(g.b[14:]); rq.ok && rq.typ == 3 && rq.msg.xid == rp.msg.xid {
						if !prevT.IsZero() && g.t.Sub(prevT) < 700*time.Millisecond {
							bad("c16", "e2e-retx-gap", "renewing REQUEST (xid %08x) sent again %v after the previous transmission (the look-up of the server had taken 800 ms); retransmissions are at least 700 ms apart", rq.msg.xid, g.t.Sub(prevT))
						}
						prevT = g.t
					}
				}
			}
			if af, arp, ok := waitFor(f.t.Add(4*time.Second), func(g e2eFrame, r wreply) bool { return g.outgoing && r.typ == 5 && r.msg.xid == rp.msg.xid }); ok {
				t0 = af.t
				x := arp
				lastAck = &x
				seen("c06")
				cs.add(1410, "e2e-ack-renew", true, args(L{2, uint64(rp.msg.xid), uint64(rp.msg.ciaddr), 1, uint64(srvIP)}, B(cliMAC), B(af.b[14:])), args(L{1}))
			} else {
				bad("c15", "e2e-timer", "renewing REQUEST not acknowledged\n%s", tailStr(srvLog.String(), 500))
			}
		}
		time.Sleep(800 * time.Millisecond)
		checkIface("after the renewal")
		seen("c19")
		if n := stableSockets(cli.Process.Pid); n != cliQuiet {
			bad("c19", "e2e-sockets", "psa-dhcpc holds %d sockets after the renewal, %d while bound before it", n, cliQuiet)
		}
		if n := stableSockets(srv.Process.Pid); n != srvBase {
			bad("c19", "e2e-sockets", "psa-dhcpd holds %d sockets after the renewal, %d at start", n, srvBase)
		}
		// the server goes away
		srv.Process.Kill()
		mark = len(tap.snapshot())
		if f, _, ok := waitFor(t0.Add(58*time.Second), func(f e2eFrame, rp wreply) bool {
			return !f.outgoing && rp.typ == 3 && rp.msg.ciaddr != 0 && rp.dst == 0xffffffff
		}); !ok {
			bad("c15", "e2e-timer", "no rebinding REQUEST within 58 s of the last ACK (T2 = 52.5 s)\n%s", tailStr(cliLog.String(), 500))
		} else {
			near(f.t, 52.5, "the first rebinding REQUEST")
		}
		// expiry: the address goes, discovery restarts
		var gone time.Time
		for end := t0.Add(66 * time.Second); time.Now().Before(end); time.Sleep(100 * time.Millisecond) {
			if configured() == "" {
				gone = time.Now()
				break
			}
		}
		if gone.IsZero() {
			bad("c15", "e2e-timer", "the address is still configured 66 s after the last ACK of a 60 s lease\n%s", tailStr(cliLog.String(), 500))
		} else {
			near(gone, 60, "the removal of the address")
			if gone.Sub(t0) < 59*time.Second {
				bad("c15", "e2e-timer", "address removed %.2f s after the last ACK, before the lease of 60 s ran out", gone.Sub(t0).Seconds())
			}
			if _, _, ok := waitFor(gone.Add(5*time.Second), func(f e2eFrame, rp wreply) bool { return !f.outgoing && rp.typ == 1 && f.t.After(gone.Add(-time.Second)) }); !ok {
				bad("c15", "e2e-timer", "no DISCOVER within 5 s of the expiry\n%s", tailStr(cliLog.String(), 500))
			}
		}
	}
	firstLog := ""
	// the program started with -default_route=false: the address of the ACK is configured, the router it announced is withheld
	if alive(cli) && alive(srv) && os.Getenv("VERIF_TIER") != "thorough" {
		seen("c15")
		cli.Process.Kill()
		for i := 0; i < 30 && !exited(cli); i++ {
			time.Sleep(50 * time.Millisecond)
		}
		exec.Command("ip", "-4", "addr", "flush", "dev", "veth1").Run()
		exec.Command("ip", "-4", "route", "flush", "dev", "veth1").Run()
		firstLog = cliLog.String()
		cli, cliLog = start("psa-dhcpc", "-ifname", "veth1", "-default_route=false")
		defer cli.Process.Kill()
		until := time.Now().Add(20 * time.Second)
		for configured() == "" && time.Now().Before(until) {
			time.Sleep(100 * time.Millisecond)
		}
		if configured() == "" {
			if !alive(cli) {
				bad("c10", "e2e-died", "psa-dhcpc -default_route=false died: %s", tailStr(cliLog.String(), 600))
			} else {
				bad("c15", "e2e-no-lease", "psa-dhcpc -default_route=false did not configure an address within 20 s\n%s", tailStr(cliLog.String(), 800))
			}
		} else {
			time.Sleep(700 * time.Millisecond)
			if rt := ownDefault(); rt != "" {
				bad("c15", "e2e-interface", "started with -default_route=false, the program installed the default route %q", rt)
			}
			checkUplink("started with -default_route=false")
			if got := configured(); !strings.HasPrefix(got, "10.77.0.") || !strings.HasSuffix(got, "/24") {
				bad("c15", "e2e-interface", "started with -default_route=false, the interface holds %q", got)
			}
			cliQuiet = stableSockets(cli.Process.Pid)
		}
	}
	// the interface is renamed under the client (down, new name, up) and another device takes the old name: the lease is
	// re-validated on the interface the client was started on, wherever its name went - the newcomer is not the client's
	cliIf := "veth1"
	if alive(cli) && alive(srv) && configured() != "" && os.Getenv("VERIF_TIER") != "thorough" {
		seen("c15")
		time.Sleep(2 * time.Second)
		mark := len(tap.snapshot())
		must("link", "set", "veth1", "down")
		must("link", "set", "veth1", "name", "veth1x")
		cliIf = "veth1x"
		must("link", "add", "veth1", "type", "veth", "peer", "name", "veth1y")
		must("link", "set", "veth1y", "up")
		must("link", "set", "veth1", "up")
		time.Sleep(300 * time.Millisecond)
		must("link", "set", "veth1x", "up")
		acked := false
		for end := time.Now().Add(12 * time.Second); time.Now().Before(end) && !acked; time.Sleep(100 * time.Millisecond) {
			for _, f := range tap.snapshot()[mark:] {
				if f.outgoing && len(f.b) > 14+28 && f.b[12] == 0x08 && f.b[13] == 0 {
					if rp := parseReply(f.b[14:]); rp.ok && rp.typ == 5 && bytes.Equal(rp.msg.chaddr, cliMAC) {
						acked = true
					}
				}
			}
		}
		time.Sleep(1200 * time.Millisecond)
		if !acked {
			bad("c15", "e2e-no-revalidation", "interface renamed (down, veth1 -> veth1x, up): no acknowledged re-validation within 12 s\n%s", tailStr(cliLog.String(), 600))
		} else {
			if out := ipOut("-4", "-o", "addr", "show", "dev", "veth1"); strings.Contains(out, " inet ") {
				bad("c15", "e2e-interface", "the client's interface was renamed and another device took its old name: the lease was configured on that device: %q", strings.TrimSpace(out))
			}
			if out := ipOut("-4", "-o", "addr", "show", "dev", "veth1x"); strings.Count(out, " inet ") != 1 {
				bad("c15", "e2e-interface", "after its interface was renamed and the lease re-validated the interface holds %q", strings.TrimSpace(out))
			}
		}
		cliQuiet = stableSockets(cli.Process.Pid)
	}
	// the interface vanishes under the client: every socket it tries to open from now on fails half-way; none may be left behind
	if alive(cli) && os.Getenv("VERIF_TIER") != "thorough" {
		seen("c19")
		// ... in the middle of an exchange that gets no answer: the server is stopped, a link event starts a re-validation
		syscall.Kill(srv.Process.Pid, syscall.SIGSTOP)
		must("link", "set", cliIf, "down")
		time.Sleep(100 * time.Millisecond)
		must("link", "set", cliIf, "up")
		time.Sleep(1200 * time.Millisecond)
		exec.Command("ip", "link", "del", cliIf).Run()
		lo, hi := 1<<30, -1
		for i := 0; i < 60 && alive(cli); i++ {
			time.Sleep(100 * time.Millisecond)
			if n := e2eSockets(cli.Process.Pid); n >= 0 {
				if n < lo {
					lo = n
				}
				if n > hi {
					hi = n
				}
			}
		}
		if hi > cliQuiet+4 {
			bad("c19", "e2e-sockets", "after its interface was deleted psa-dhcpc holds up to %d sockets (%d while bound): failed opens leave descriptors behind", hi, cliQuiet)
		}
	}
	syscall.Close(tapFd)
	syscall.Close(injFd)
	if os.Getenv("E2E_LOGS") != "" {
		os.WriteFile(os.Getenv("E2E_LOGS"), []byte(srvLog.String()+"\n=====\n"+firstLog+"\n=====\n"+cliLog.String()), 0o644)
	}
	e2eWriteAll(t, logs, "acquire, ARP claim, link flap, malformed frames")
	_ = rand.Int
}

func exited(cmd *exec.Cmd) bool {
	var ws syscall.WaitStatus
	pid, err := syscall.Wait4(cmd.Process.Pid, &ws, syscall.WNOHANG, nil)
	return err == nil && pid == cmd.Process.Pid
}

func tailStr(s string, n int) string {
	if len(s) > n {
		return s[len(s)-n:]
	}
	return s
}

// ---- C18 on the real program: psa-dhcpd started on the TEXT form of generated configurations ----
//
// The other C18 cases hand a configuration structure to server.New.  Here the structure is written out in the text format of
// etc/psa-dhcpd.conf.example, the unmodified psa-dhcpd binary is started on it (flag parsing, loadConfig, proto.UnmarshalText,
// server.New on a real interface whose address is read through netlink) in a private network namespace, and whether it
// comes up ("is ready") or refuses to start is compared with the specification's verdict (tag 1812).
func TestC18Binary(t *testing.T) {
	if os.Getenv("E2E_INNER") == "1" {
		c18BinaryInner(t)
		return
	}
	dir := filepath.Join(outDir(t), "c18bin")
	os.RemoveAll(dir)
	os.MkdirAll(dir, 0o755)
	defer os.RemoveAll(dir)
	if err := exec.Command("unshare", "-n", "ip", "link", "add", "d0", "type", "veth", "peer", "name", "d0p").Run(); err != nil {
		c := newCaseWriter(t, "c18bin") // no network namespaces here: nothing observed, the case file stays empty
		c.close(t, "c18bin")
		return
	}
	if _, err := e2eBuild(t, dir, "psa-dhcpd"); err != nil {
		t.Fatalf("cannot build cmd/psa-dhcpd.go of the tree under test: %v", err)
	}
	cmd := exec.Command("unshare", "-n", os.Args[0], "-test.run", "^TestC18Binary$", "-test.timeout", "300s")
	cmd.Env = append(os.Environ(), "E2E_INNER=1", "E2E_DIR="+dir, "VERIF_OUT="+outDir(t))
	if out, err := cmd.CombinedOutput(); err != nil {
		t.Fatalf("run of the real psa-dhcpd on generated configurations failed: %v\n%s", err, out)
	}
}

func c18BinaryInner(t *testing.T) {
	dir := os.Getenv("E2E_DIR")
	c := newCaseWriter(t, "c18bin")
	defer c.close(t, "c18bin")
	exec.Command("ip", "link", "set", "lo", "up").Run()
	type job struct {
		cc   *cfgCase
		kind string
	}
	var jobs []job
	for _, d := range directedCfgCases() {
		jobs = append(jobs, job{d.cc, "directed:" + d.id})
	}
	r := newRand(1812)
	for i := 0; i < scale(40, 1500); i++ {
		cc, kind := genCfgCase(r, i%3)
		jobs = append(jobs, job{cc, kind})
	}
	// the same valid configuration, damaged as text: the file cannot be understood, the server must not come up on a guess
	vl := &violationLog{}
	var valid *cfgCase
	for i := 0; i < 50 && valid == nil; i++ {
		if cc, _ := genCfgCase(newRand(int64(1900+i)), 0); len(cc.ownMAC) == 6 && cc.own != nil {
			if o := cc.construct(); o.accepted {
				valid = cc
			}
		}
	}
	textFaults := map[string]func(string) string{
		"unknown-field":       func(s string) string { return s + "colour: \"blue\"\n" },
		"unterminated-string": func(s string) string { return strings.Replace(s, "\"\n", "\n", 1) },
		"network-twice":       func(s string) string { return s + "network: \"10.99.0.0/24\"\n" },
		"garbage":             func(s string) string { return s + "}}}} ;; \x01\n" },
		// (cut two characters into a field name: a cut at len/2 can fall on the end of an entry, and what is left is then a valid file)
		"cut-in-the-middle": func(s string) string { return s[:strings.LastIndex(s[:len(s)/2], "\n")+3] },
		"number-for-string":   func(s string) string { return s + "router: 42\n" },
		"empty-file":          func(s string) string { return "" },
		// a fault far into a long file: whatever reads the file must read all of it
		"fault-after-64KiB": func(s string) string {
			pad := "# " + strings.Repeat("x", 78) + "\n"
			for len(s)+len(pad) <= 65536 {
				s += pad
			}
			s += "#" + strings.Repeat("y", 65536-len(s)-2) + "\n" // the 65536th octet ends a comment line
			return s + "lease_duration: \"never\"\n"
		},
		"fault-after-1MiB": func(s string) string {
			return s + strings.Repeat("# "+strings.Repeat("z", 77)+"\n", 1<<20/80+1) + "dynamic_range: \"1.2.3.4-1.2.3.9\"\n"
		},
	}
	const workers = 8
	var mu sync.Mutex
	var wg sync.WaitGroup
	next := 0
	for w := 0; w < workers; w++ {
		wg.Add(1)
		go func(w int) {
			defer wg.Done()
			ifn := fmt.Sprintf("d%d", w)
			for {
				mu.Lock()
				if next >= len(jobs) {
					mu.Unlock()
					return
				}
				j := jobs[next]
				idx := next
				next++
				mu.Unlock()
				exec.Command("ip", "link", "del", ifn).Run()
				mac := net.HardwareAddr(j.cc.ownMAC)
				if len(mac) != 6 {
					continue // the interface of the structure-level case cannot exist on this kernel
				}
				if out, err := exec.Command("ip", "link", "add", ifn, "address", mac.String(), "type", "veth", "peer", "name", ifn+"p").CombinedOutput(); err != nil {
					t.Logf("ip link add: %v %s", err, out)
					continue
				}
				if j.cc.own != nil {
					if v4 := j.cc.own.To4(); v4 != nil {
						exec.Command("ip", "addr", "add", v4.String()+"/32", "dev", ifn).Run()
					}
				}
				exec.Command("ip", "link", "set", ifn, "up").Run()
				exec.Command("ip", "link", "set", ifn+"p", "up").Run()
				cf := filepath.Join(dir, fmt.Sprintf("conf%d", idx))
				os.WriteFile(cf, []byte(proto.MarshalTextString(j.cc.conf)), 0o644)
				cmd := exec.Command(filepath.Join(dir, "psa-dhcpd"), "-ifname", ifn, "-config", cf)
				var buf lockedBuf
				cmd.Stdout, cmd.Stderr = &buf, &buf
				if err := cmd.Start(); err != nil {
					continue
				}
				done := make(chan error, 1)
				go func() { done <- cmd.Wait() }()
				verdict := -1
				for end := time.Now().Add(8 * time.Second); time.Now().Before(end) && verdict < 0; {
					select {
					case <-done:
						verdict = 0
						if strings.Contains(buf.String(), "is ready") {
							verdict = 1 // came up, then died: judged as started (C10 looks at crashes)
						}
					case <-time.After(20 * time.Millisecond):
						if strings.Contains(buf.String(), "is ready") {
							verdict = 1
						}
					}
				}
				cmd.Process.Kill()
				os.Remove(cf)
				if verdict < 0 {
					continue // neither ready nor gone within 8 s: not judged
				}
				saved := j.cc.probes
				j.cc.probes = nil
				a := append(j.cc.abstract(), L{uint64(verdict)})
				j.cc.probes = saved
				mu.Lock()
				c.add(1812, j.kind, true, a, args(L{1}))
				mu.Unlock()
			}
		}(w)
	}
	wg.Wait()
	if valid != nil {
		exec.Command("ip", "link", "del", "t0").Run()
		exec.Command("ip", "link", "add", "t0", "address", net.HardwareAddr(valid.ownMAC).String(), "type", "veth", "peer", "name", "t0p").Run()
		exec.Command("ip", "addr", "add", valid.own.To4().String()+"/32", "dev", "t0").Run()
		exec.Command("ip", "link", "set", "t0", "up").Run()
		good := proto.MarshalTextString(valid.conf)
		startOn := func(text string) (started bool, log string) {
			cf := filepath.Join(dir, "conftext")
			os.WriteFile(cf, []byte(text), 0o644)
			cmd := exec.Command(filepath.Join(dir, "psa-dhcpd"), "-ifname", "t0", "-config", cf)
			var buf lockedBuf
			cmd.Stdout, cmd.Stderr = &buf, &buf
			if cmd.Start() != nil {
				return false, "cannot start"
			}
			done := make(chan error, 1)
			go func() { done <- cmd.Wait() }()
			for end := time.Now().Add(8 * time.Second); time.Now().Before(end); {
				select {
				case <-done:
					return strings.Contains(buf.String(), "is ready"), buf.String()
				case <-time.After(20 * time.Millisecond):
					if strings.Contains(buf.String(), "is ready") {
						cmd.Process.Kill()
						return true, buf.String()
					}
				}
			}
			cmd.Process.Kill()
			return false, buf.String()
		}
		atomic.AddInt64(&vl.n, 1)
		if ok, lg := startOn(good); !ok {
			vl.add("c18-text", "psa-dhcpd refuses the undamaged text of a configuration server.New accepts:\n%s\n%s", good, tailStr(lg, 400))
		}
		for name, f := range textFaults {
			atomic.AddInt64(&vl.n, 1)
			if ok, _ := startOn(f(good)); ok {
				vl.add("c18-text", "psa-dhcpd came up on a configuration file damaged by %q:\n%s", name, f(good))
			}
		}
		// two static entries for the same hardware address, spelled the same way: as text they are two entries of the file; the
		// parser of the text format folds them into one map entry (the later one wins) before server.New sees anything
		{
			atomic.AddInt64(&vl.n, 1)
			// (the first entry carries a host name: no address has to be found for it, whatever the network of this seed's configuration)
			twice := good + "client: { key: \"02:ee:00:00:00:77\" value: { hostname: \"first-entry\" } }\nclient: { key: \"02:ee:00:00:00:77\" value: { dns: \"9.9.9.9\" } }\n"
			if ok, _ := startOn(twice); ok {
				vl.add("c18-text-duplicate-key", "psa-dhcpd came up on a configuration file that lists the hardware address 02:ee:00:00:00:77 twice (first entry: a host name, second entry: a DNS server); the first entry is dropped silently")
			}
			// the same key in other legal dresses of the text format: escapes, single quotes, adjacent strings, angle brackets
			first := "client: { key: \"02:ee:00:00:00:77\" value: { hostname: \"first-entry\" } }\n"
			for name, second := range map[string]string{
				"hex-escapes":      "client: { key: \"02:ee:00:00:00:\\x37\\x37\" value: { dns: \"9.9.9.9\" } }\n",
				"octal-escape":     "client: { key: \"02:ee:00:00:00:7\\067\" value: { dns: \"9.9.9.9\" } }\n",
				"single-quotes":    "client { key: '02:ee:00:00:00:77' value { dns: \"9.9.9.9\" } }\n",
				"adjacent-strings": "client: { key: \"02:ee:00:\" \"00:00:77\" value: { dns: \"9.9.9.9\" } }\n",
				"angle-brackets":   "client < value < dns: \"9.9.9.9\" > key: \"02:ee:00:00:00:77\" >\n",
				"squote-octal":     "client { key: '02:ee:00:00:00:7\\067' value { dns: \"9.9.9.9\" } }\n",
				"squote-hex":       "client { key: '02:ee:00:00:00:\\x377' value { dns: \"9.9.9.9\" } }\n",
				"upper-x-escape":   "client { key: \"02:ee:00:00:00:7\\X37\" value { dns: \"9.9.9.9\" } }\n",
				"short-octal":      "client { key: \"02:ee:00:00:00:7\\67\" value { dns: \"9.9.9.9\" } }\n",
			} {
				atomic.AddInt64(&vl.n, 1)
				if ok, _ := startOn(good + first + "# in between\n" + second); ok {
					vl.add("c18-text-duplicate-key", "psa-dhcpd came up on a configuration file that lists the hardware address 02:ee:00:00:00:77 twice, the second time written with %s:\n%s", name, second)
				}
			}
			// and nothing that merely looks like a second entry is refused: the key in a comment, in another client's host name,
			// in a nested position, or a different key
			atomic.AddInt64(&vl.n, 1)
			benign := good + first + "# client: { key: \"02:ee:00:00:00:77\" }\n" +
				"client: { key: \"02:ee:00:00:00:78\" value: { hostname: \"client: { key: \\\"02:ee:00:00:00:77\\\" }\" } }\n"
			if ok, lg := startOn(benign); !ok {
				vl.add("c18-text", "psa-dhcpd refuses a configuration file with two different clients (one key also appears in a comment and inside a string):\n%s\n%s", benign, tailStr(lg, 300))
			}
		}
	}
	vl.write(t, "c18text", map[string]interface{}{"distinct_nontrivial": int(atomic.LoadInt64(&vl.n)), "histogram": map[string]int{"text-fault": int(atomic.LoadInt64(&vl.n))},
		"samples": []string{"a configuration server.New accepts, written as text and damaged in 7 ways (unknown field, unterminated string, singular field twice, garbage, cut in the middle, number for string, empty file): the real psa-dhcpd must not come up"}})
}

type lockedBuf struct {
	mu sync.Mutex
	b  bytes.Buffer
}

func (l *lockedBuf) Write(p []byte) (int, error) { l.mu.Lock(); defer l.mu.Unlock(); return l.b.Write(p) }
func (l *lockedBuf) String() string               { l.mu.Lock(); defer l.mu.Unlock(); return l.b.String() }
