package harness

// C19 - no sockets or goroutines leak, and shutdown is prompt.
// The real server and client run inside testing/synctest bubbles on the in-memory sockets of lib/rsocks/vnet_verif.go,
// which count opens and closes and can make the n-th open or write fail.

import (
	"bytes"
	"context"
	"encoding/binary"
	"fmt"
	"log"
	"math/rand"
	"net"
	"runtime"
	"sort"
	"strings"
	"sync"
	"sync/atomic"
	"testing"
	"testing/synctest"
	"time"

	"git.sr.ht/~adrian-blx/psa-dhcp/lib/client/dclient"
	vy "git.sr.ht/~adrian-blx/psa-dhcp/lib/client/verify"
	"git.sr.ht/~adrian-blx/psa-dhcp/lib/dhcpmsg"
	"git.sr.ht/~adrian-blx/psa-dhcp/lib/libif"
	"git.sr.ht/~adrian-blx/psa-dhcp/lib/rsocks"
	"git.sr.ht/~adrian-blx/psa-dhcp/lib/server"
)

// kindRec records the kind of every successful open (through the FailOpen hook, which is consulted before each open).
type kindRec struct {
	mu sync.Mutex
	n  map[string]int
}

func (k *kindRec) hook(fail func(seq int, what string) error) func(int, string) error {
	return func(seq int, what string) error {
		if fail != nil {
			if err := fail(seq, what); err != nil {
				return err
			}
		}
		k.mu.Lock()
		k.n[what]++
		k.mu.Unlock()
		return nil
	}
}

func (k *kindRec) list() L {
	k.mu.Lock()
	defer k.mu.Unlock()
	return L{uint64(k.n["iprecv"]), uint64(k.n["arprecv"]), uint64(k.n["arpsend"]), uint64(k.n["ucsend"]), uint64(k.n["ipsend"])}
}

func countARP(fs []rsocks.Frame) int {
	n := 0
	for _, f := range fs {
		if f.Kind == rsocks.KindARP {
			n++
		}
	}
	return n
}

// repoGoroutines counts the goroutines that are executing code of /repo (by their stacks).  runtime.NumGoroutine()
// also counts short-lived runtime helpers outside the bubble; it is used first and this count decides on a mismatch.
func repoGoroutines() int {
	buf := make([]byte, 1<<20)
	for {
		n := runtime.Stack(buf, true)
		if n < len(buf) {
			buf = buf[:n]
			break
		}
		buf = make([]byte, 2*len(buf))
	}
	c := 0
	for _, g := range strings.Split(string(buf), "\n\n") {
		if strings.Contains(g, "psa-dhcp/lib/") {
			c++
		}
	}
	return c
}

// goroutinesAt reports whether the goroutine population is at the baseline: the total count matches, or exactly
// `repo` goroutines run code of /repo.
func goroutinesAt(base, repo int) bool {
	return runtime.NumGoroutine() == base || repoGoroutines() == repo
}

// settle lets virtual time pass until the goroutine count is back at base (or the budget is used up).
func settle(base int, budget time.Duration) time.Duration {
	t0 := time.Now()
	for {
		synctest.Wait()
		if runtime.NumGoroutine() <= base || time.Since(t0) >= budget || repoGoroutines() == 0 {
			return time.Since(t0)
		}
		time.Sleep(10 * time.Millisecond)
	}
}

type c19stats struct {
	mu   sync.Mutex
	hist map[string]int
	maxd map[string]time.Duration
	samp []string
}

func newC19stats() *c19stats { return &c19stats{hist: map[string]int{}, maxd: map[string]time.Duration{}} }
func (s *c19stats) count(k string) {
	s.mu.Lock()
	s.hist[k]++
	s.mu.Unlock()
}
func (s *c19stats) delay(k string, d time.Duration) {
	s.mu.Lock()
	s.hist[k]++
	if d >= s.maxd[k] {
		s.maxd[k] = d
	}
	s.mu.Unlock()
}
func (s *c19stats) meta(n int, extra ...string) map[string]interface{} {
	var keys []string
	for k := range s.maxd {
		keys = append(keys, k)
	}
	sort.Strings(keys)
	samples := append([]string{}, extra...)
	for _, k := range keys {
		samples = append(samples, fmt.Sprintf("max virtual time from cancel() to return, %s: %v (%d runs)", k, s.maxd[k], s.hist[k]))
	}
	return map[string]interface{}{"distinct_nontrivial": n, "histogram": s.hist, "samples": samples}
}

// ---------------------------------------------------------------------------------------------------------------
// (i) server histories: accounting after every packet and after cancel; model-evaluated open counts (tag 1901)

func TestC19ServerHistories(t *testing.T) {
	c := newCaseWriter(t, "c19srv")
	defer c.close(t, "c19srv")
	vl := &violationLog{}
	st := newC19stats()
	n := scale(150, 4000)
	for i := 0; i < n; i++ {
		seedv := seed()*1000003 + 190000 + int64(i)
		synctest.Test(t, func(t *testing.T) {
			r := rand.New(rand.NewSource(seedv))
			g := newSrvGen(r)
			synctest.Wait()
			base0 := runtime.NumGoroutine()
			s, err := startServer(t, g.cfg)
			if err != nil {
				return
			}
			atomic.AddInt64(&vl.n, 1)
			kr := &kindRec{n: map[string]int{"iprecv": 1}} // Run's own socket is open already
			s.seg.FailOpen = kr.hook(nil)
			if o, cl := s.seg.Counters(); o != 1 || cl != 0 || !goroutinesAt(base0+2, 2) {
				vl.add("c19-start", "seed %d: after start opens=%d closes=%d goroutines=%d (baseline %d): expected 1 open socket and 2 goroutines", seedv, o, cl, runtime.NumGoroutine(), base0)
			}
			var rounds L
			np := 3 + r.Intn(25)
			want := 1
			for j := 0; j < np; j++ {
				pkt, arp, cl, kind := g.next()
				arpBefore := countARP(s.seg.Frames())
				obs := s.round(pkt, arp)
				g.observe(cl, obs.outs)
				pings := countARP(s.seg.Frames()) - arpBefore
				rounds = append(rounds, uint64(pings), uint64(len(obs.outs)))
				want += 2*pings + len(obs.outs)
				st.count(fmt.Sprintf("round:kind=%d,pings=%d,replies=%d", kind, min(pings, 9), len(obs.outs)))
				o, cls := s.seg.Counters()
				if o != cls+1 {
					vl.add("c19-leak", "seed %d packet %d: at quiescence opens=%d closes=%d (exactly the server's receive socket should be open)", seedv, j, o, cls)
				}
				if o != want {
					vl.add("c19-count", "seed %d packet %d: %d opens, expected %d = 1 + sum(2 x probes + replies) (this packet: %d probes, %d replies)", seedv, j, o, want, pings, len(obs.outs))
				}
				if ng := runtime.NumGoroutine(); !goroutinesAt(s.base, 2) {
					vl.add("c19-goroutines", "seed %d packet %d: %d goroutines at quiescence, baseline %d", seedv, j, ng, s.base)
				}
				s.advance(g.gap())
			}
			t0 := time.Now()
			s.cancel()
			synctest.Wait()
			d := time.Since(t0)
			o, cls := s.seg.Counters()
			if o != cls || !goroutinesAt(base0, 0) || d != 0 {
				vl.add("c19-cancel", "seed %d: after cancel opens=%d closes=%d goroutines=%d (baseline %d) virtual time %v", seedv, o, cls, runtime.NumGoroutine(), base0, d)
			}
			rsocks.VerifDropSegment(s.iface.Name)
			libif.VerifDropFake(s.iface.Name)
			out := append(L{uint64(o), uint64(cls), 1, 0}, kr.list()...)
			c.add(1901, "server-history", want > 1, args(rounds), []interface{}{out})
		})
	}
	vl.write(t, "c19srvdirect", st.meta(n, "sequential server histories: after every packet opens = closes + 1 = 1 + sum(2 x probes + replies), goroutines at baseline; after cancel opens = closes, goroutines at the pre-start baseline, 0 virtual time"))
}

// ---------------------------------------------------------------------------------------------------------------
// (ii) fault injection, server

func c19cfg(id int) srvCfg {
	cfg := srvCfg{netU: 0x0a130000 + uint32(id&0xff)<<8, maskU: 0xffffff00, bits: 24, lease: 2 * time.Minute, selfMAC: []byte{2, 0xaa, 0, 19, byte(id), 1}}
	cfg.selfIP = cfg.netU + 1
	cfg.hasRange, cfg.rangeB, cfg.rangeE = true, cfg.netU+10, cfg.netU+13
	cfg.router = ipStr(cfg.selfIP)
	return cfg
}

// exchange runs DISCOVER then REQUEST for one client; returns the reply types seen.
func c19exchange(s *srvRun, cl *simClient) (offer, ack bool) {
	cl.xid++
	o := s.round(udpip(0, 0xffffffff, 68, 67, 17, 64, cl.msg(1, 0, 0).bytes()), nil)
	var y uint32
	for _, f := range o.outs {
		if rp := parseReply(f.pkt); rp.ok && rp.typ == 2 {
			offer, y = true, rp.msg.yiaddr
		}
	}
	if !offer {
		y = s.cfg.rangeB
	}
	o = s.round(udpip(0, 0xffffffff, 68, 67, 17, 64, cl.msg(3, 0, 0, wopt{50, u32b(y)}, wopt{54, u32b(s.cfg.selfIP)}).bytes()), nil)
	for _, f := range o.outs {
		if rp := parseReply(f.pkt); rp.ok && rp.typ == 5 {
			ack = true
		}
	}
	return
}

func TestC19ServerFaults(t *testing.T) {
	vl, vl06 := &violationLog{}, &violationLog{}
	st := newC19stats()
	const maxN = 17 // the exchange performs 15 opens and 8 writes
	for _, what := range []string{"open", "write"} {
		for n := 1; n <= maxN; n++ {
			synctest.Test(t, func(t *testing.T) {
				atomic.AddInt64(&vl.n, 1)
				synctest.Wait()
				base0 := runtime.NumGoroutine()
				cfg := c19cfg(n)
				name := fmt.Sprintf("vif%d", atomic.LoadInt64(&ifaceSeq)+1) // the name startServer will pick
				seg := rsocks.VerifSegment(name)
				failed := ""
				if what == "open" {
					seg.FailOpen = func(seq int, w string) error {
						if seq == n {
							failed = w
							return fmt.Errorf("injected open failure %d", n)
						}
						return nil
					}
				} else {
					seg.FailWrite = func(seq int) error {
						if seq == n {
							failed = "write"
							return fmt.Errorf("injected write failure %d", n)
						}
						return nil
					}
				}
				s, err := startServer(t, cfg)
				if err != nil {
					vl.add("c19-fault-setup", "server.New failed: %v", err)
					return
				}
				if s.iface.Name != name {
					vl.add("c19-fault-setup", "interface name %s, expected %s", s.iface.Name, name)
				}
				desc := fmt.Sprintf("server, %s #%d fails", what, n)
				if what == "open" && n == 1 {
					// Run itself could not open its socket: it has returned the error; nothing is open, nothing runs
					o, cl := seg.Counters()
					if o != 0 || cl != 0 || !goroutinesAt(base0, 0) {
						vl.add("c19-fault", "%s: Run's own socket failed: opens=%d closes=%d goroutines=%d baseline=%d", desc, o, cl, runtime.NumGoroutine(), base0)
					}
					st.count("server-open-fail:run-socket")
					s.stop()
					return
				}
				a := &simClient{mac: []byte{2, 0xbb, 0, 19, 0, 1}, cid: []byte{1, 2, 0xbb, 0, 19, 0, 1}, xid: 100}
				off1, ack1 := c19exchange(s, a)
				firedEarly := (what == "open" && seg.OpenSeq >= n) || (what == "write" && seg.WriteSeq >= n)
				// the daemon must have survived: a second client gets a clean exchange
				b := &simClient{mac: []byte{2, 0xbb, 0, 19, 0, 2}, cid: []byte{1, 2, 0xbb, 0, 19, 0, 2}, xid: 200}
				off2, ack2 := c19exchange(s, b)
				if failed == "" {
					failed = "not-reached"
				}
				if firedEarly && !(off2 && ack2) {
					vl.add("c19-fault", "%s (%s): the server did not serve the next client (offer=%v ack=%v)", desc, failed, off2, ack2)
				}
				if ng := runtime.NumGoroutine(); !goroutinesAt(s.base, 2) {
					vl.add("c19-fault", "%s (%s): %d goroutines at quiescence, baseline %d", desc, failed, ng, s.base)
				}
				if o, cl := seg.Counters(); o != cl+1 {
					vl.add("c19-fault", "%s (%s): opens=%d closes=%d at quiescence", desc, failed, o, cl)
				}
				// whatever did get out after the fault is still addressed as C06 says: a datagram for one address goes to that client's
				// hardware address, a datagram for everybody to the broadcast address - a reply that could not be sent is not re-sent otherwise
				for _, f := range seg.Frames() {
					if rp := parseReply(f.Payload); f.Kind == rsocks.KindIP && rp.ok && rp.msg.op == 2 && len(f.EthDst) == 6 {
						atomic.AddInt64(&vl06.n, 1)
						all := bytes.Equal(f.EthDst, []byte{0xff, 0xff, 0xff, 0xff, 0xff, 0xff})
						// (a NAK is a broadcast datagram framed for the client; nothing for one address is ever framed for everybody)
						if (all && rp.dst != 0xffffffff) || (!all && !bytes.Equal(f.EthDst, rp.msg.chaddr[:6])) {
							vl06.add("c06-frame-after-fault", "%s (%s): reply type %d for %s (client %x) framed for %s", desc, failed, rp.typ, ipStr(rp.dst), rp.msg.chaddr, f.EthDst)
						}
					}
				}
				s.cancel()
				synctest.Wait()
				if o, cl := seg.Counters(); o != cl || !goroutinesAt(base0, 0) {
					vl.add("c19-fault", "%s (%s): after cancel opens=%d closes=%d goroutines=%d baseline=%d", desc, failed, o, cl, runtime.NumGoroutine(), base0)
				}
				st.count(fmt.Sprintf("server-%s-fail:%s,first-exchange=%v/%v", what, failed, off1, ack1))
				rsocks.VerifDropSegment(name)
				libif.VerifDropFake(name)
			})
		}
	}
	vl06.write(t, "c06fault", map[string]interface{}{"distinct_nontrivial": int(atomic.LoadInt64(&vl06.n)), "histogram": map[string]int{"reply-frames-after-a-fault": int(atomic.LoadInt64(&vl06.n))},
		"samples": []string{"every reply frame of the fault-injection exchanges (n-th open / write fails): a frame for everybody carries a datagram for everybody, a frame for one station goes to the client's hardware address"}})
	vl.write(t, "c19srvfault", st.meta(2*maxN, "n-th socket open / n-th write fails during DISCOVER+REQUEST (n = 1..17); then a second client must be served; accounting at quiescence and after cancel"))
}

// ---------------------------------------------------------------------------------------------------------------
// client side: scripted responder

type c19responder struct {
	seg      *rsocks.Segment
	srvIP    uint32
	srvMAC   []byte
	yiaddr   uint32
	lease    uint32 // seconds
	mode     string // normal, silent, nak-request, nak-renew, silent-renew, arp-conflict
	acks     int
	arpOwner bool // answer ARP for the server address (enables unicast renewal)
	domain   string
	dns2     bool
}

func (rs *c19responder) reply(req wreply, typ byte) []byte {
	m := wmsg{op: 2, htype: 1, hlen: 6, xid: req.msg.xid, flags: req.msg.flags, yiaddr: rs.yiaddr, siaddr: rs.srvIP, chaddr: req.msg.chaddr, cookie: 0x63825363}
	m.opts = []wopt{{53, []byte{typ}}, {54, u32b(rs.srvIP)}}
	if typ != 6 {
		m.opts = append(m.opts, wopt{51, u32b(rs.lease)}, wopt{1, u32b(0xffffff00)}, wopt{3, u32b(rs.srvIP)})
		if rs.dns2 {
			m.opts = append(m.opts, wopt{6, append(u32b(rs.srvIP), u32b(rs.srvIP+1)...)})
		} else {
			m.opts = append(m.opts, wopt{6, u32b(rs.srvIP)})
		}
		if rs.domain != "" {
			m.opts = append(m.opts, wopt{15, []byte(rs.domain)})
		}
	} else {
		m.yiaddr = 0
	}
	return udpip(rs.srvIP, 0xffffffff, 67, 68, 17, 64, m.bytes())
}

func (rs *c19responder) onSend(f rsocks.Frame) {
	if f.Kind == rsocks.KindARP && len(f.Payload) == 28 {
		target := binary.BigEndian.Uint32(f.Payload[24:28])
		var mac []byte
		if target == rs.srvIP && rs.arpOwner {
			mac = rs.srvMAC
		}
		if target == rs.yiaddr && rs.mode == "arp-conflict" {
			mac = []byte{2, 0xcc, 0, 0, 0, 9}
		}
		if mac != nil {
			rep := make([]byte, 28)
			copy(rep, []byte{0, 1, 8, 0, 6, 4, 0, 2})
			copy(rep[8:14], mac)
			binary.BigEndian.PutUint32(rep[14:], target)
			copy(rep[18:24], f.Payload[8:14])
			copy(rep[24:28], f.Payload[14:18])
			time.AfterFunc(5*time.Millisecond, func() { rs.seg.Inject(rsocks.KindARP, rep) })
		}
		return
	}
	if f.Kind != rsocks.KindIP {
		return
	}
	rq := parseReply(f.Payload)
	if !rq.ok || rq.msg.op != 1 {
		return
	}
	var out []byte
	switch {
	case rs.mode == "silent":
	case rq.typ == 1:
		out = rs.reply(rq, 2)
	case rq.typ == 3:
		renew := rq.msg.ciaddr != 0
		switch {
		case rs.mode == "nak-request" && !renew, rs.mode == "nak-renew" && renew:
			out = rs.reply(rq, 6)
		case rs.mode == "silent-renew" && renew:
		default:
			rs.acks++
			out = rs.reply(rq, 5)
		}
	}
	if out != nil {
		d := 10 * time.Millisecond
		if rs.mode == "slow" { // the answer comes after the first retransmissions
			d = 2500 * time.Millisecond
		}
		time.AfterFunc(d, func() { rs.seg.Inject(rsocks.KindIP, out) })
	}
}

type logTrap struct {
	mu      sync.Mutex
	bananas time.Time
	hit     chan bool
}

func (l *logTrap) Write(p []byte) (int, error) {
	if strings.Contains(string(p), "consumed all tokens! - will exit") {
		l.mu.Lock()
		if l.bananas.IsZero() {
			l.bananas = time.Now()
			close(l.hit)
		}
		l.mu.Unlock()
	}
	return len(p), nil
}

type c19client struct {
	name     string
	iface    *net.Interface
	seg      *rsocks.Segment
	rs       *c19responder
	dx       *dclient.Dclient
	cancel   context.CancelFunc
	done     chan bool
	returned time.Time
	panicked interface{}
	trap     *logTrap
	kr       *kindRec
}

func startC19Client(mode string, lease uint32, failOpen func(int, string) error, failWrite func(int) error) *c19client {
	name := fmt.Sprintf("cif%d", atomic.AddInt64(&ifaceSeq, 1))
	c := &c19client{name: name, done: make(chan bool), trap: &logTrap{hit: make(chan bool)}, kr: &kindRec{n: map[string]int{}}}
	c.iface = &net.Interface{Index: 2, Name: name, HardwareAddr: net.HardwareAddr{2, 0xdd, 0, 0, 0, 7}, MTU: 1500}
	c.seg = rsocks.VerifSegment(name)
	c.rs = &c19responder{seg: c.seg, srvIP: 0x0a140001, srvMAC: []byte{2, 0xaa, 0, 20, 0, 1}, yiaddr: 0x0a140042, lease: lease, mode: mode, arpOwner: mode != "no-arp"}
	c.seg.OnSend = c.rs.onSend
	c.seg.FailOpen = c.kr.hook(failOpen)
	c.seg.FailWrite = failWrite
	libif.VerifFake(name)
	if mode == "setiface-fails" {
		libif.VerifFake(name).Fail = func(op string, n int, cf *libif.Ifconfig) error {
			if op == "setiface" {
				return fmt.Errorf("injected")
			}
			return nil
		}
	}
	ctx, cancel := context.WithCancel(context.Background())
	c.cancel = cancel
	cb := func(context.Context, *libif.Ifconfig) {}
	c.dx = dclient.New(ctx, c.iface, log.New(c.trap, "", 0), cb, cb)
	go func() {
		defer close(c.done)
		defer func() {
			c.panicked = recover()
			c.returned = time.Now()
		}()
		c.dx.Run()
	}()
	return c
}

func (c *c19client) drop() {
	rsocks.VerifDropSegment(c.name)
	libif.VerifDropFake(c.name)
}

var c19stateName = map[int]string{1: "purge", 2: "discovering", 3: "selecting", 4: "arpcheck", 5: "ifconfig", 6: "bound", 7: "renewing", 8: "rebinding"}

// what the client was doing, read off the open sockets: exchanges and Pings are distinguished by the listeners
func (c *c19client) where() string {
	s := c19stateName[c.dx.VerifState()]
	if c.seg.Listeners(rsocks.KindARP) > 0 {
		s += "+ping"
	} else if s == "arpcheck" || s == "ifconfig" {
		s += "(panicReset wait)" // these states are instantaneous otherwise
	}
	return s
}

// (iii) cancellation at random virtual instants of a running client
func TestC19ClientCancel(t *testing.T) {
	vl := &violationLog{}
	st := newC19stats()
	n := scale(200, 5000)
	modes := []struct {
		mode    string
		lease   uint32
		horizon time.Duration
	}{
		{"normal", 120, 400 * time.Second}, {"normal", 120, 2 * time.Second}, {"silent", 120, 700 * time.Second}, {"nak-renew", 120, 200 * time.Second},
		{"silent-renew", 120, 200 * time.Second}, {"arp-conflict", 120, 100 * time.Second}, {"setiface-fails", 120, 100 * time.Second},
		{"no-arp", 120, 200 * time.Second}, {"normal", 7200, 8000 * time.Second},
	}
	for i := 0; i < n; i++ {
		r := newRand(int64(193000 + i))
		m := modes[i%len(modes)]
		at := time.Duration(r.Int63n(int64(m.horizon)))
		if r.Intn(4) == 0 { // right at an event: multiples of 5 ms in the first second
			at = time.Duration(r.Intn(200)) * 5 * time.Millisecond
		}
		synctest.Test(t, func(t *testing.T) {
			atomic.AddInt64(&vl.n, 1)
			synctest.Wait()
			base0 := runtime.NumGoroutine()
			c := startC19Client(m.mode, m.lease, nil, nil)
			defer c.drop()
			time.Sleep(at)
			synctest.Wait()
			where := c.where()
			select {
			case <-c.done:
				vl.add("c19-client", "mode %s: Run returned before cancel at %v (panic: %v)", m.mode, at, c.panicked)
				return
			default:
			}
			t0 := time.Now()
			c.cancel()
			synctest.Wait()
			select {
			case <-c.done:
			case <-time.After(3 * time.Hour):
			}
			synctest.Wait()
			d := c.returned.Sub(t0)
			if c.returned.IsZero() {
				vl.add("c19-client-hang", "mode %s cancel at %v in %s: Run has not returned 3 hours after cancel", m.mode, at, where)
				vl.write(t, "c19clicancel", st.meta(n)) // the bubble is about to die with its blocked goroutines
				return
			}
			st.delay("client "+where, d)
			if d != 0 {
				vl.add("c19-client-slow", "mode %s cancel at %v in %s: Run returned %v after cancel", m.mode, at, where, d)
			}
			if c.panicked != nil {
				vl.add("c19-client-panic", "mode %s cancel at %v in %s: Run panicked: %v", m.mode, at, where, c.panicked)
			}
			drain := settle(base0, 5*time.Second)
			o, cl := c.seg.Counters()
			if o != cl || !goroutinesAt(base0, 0) {
				vl.add("c19-client-leak", "mode %s cancel at %v in %s: opens=%d closes=%d goroutines=%d baseline=%d (waited %v)", m.mode, at, where, o, cl, runtime.NumGoroutine(), base0, drain)
			}
			if drain > 0 {
				st.delay("client helper goroutines after Run returned ("+where+")", drain)
			}
		})
	}
	vl.write(t, "c19clicancel", st.meta(n, "dclient.New(...).Run() against a scripted responder (modes: normal, silent server, NAK on renewal, silent on renewal, address conflict -> panicReset, SetIface failure -> panicReset, no ARP answer -> broadcast renewal, 2 h lease), cancelled at a random virtual instant"))
}

// model-evaluated counts for client lives (tag 1902): the sequence of exchanges / ARP checks is read off the frames
func TestC19ClientHistories(t *testing.T) {
	c := newCaseWriter(t, "c19cli")
	defer c.close(t, "c19cli")
	vl := &violationLog{}
	n := scale(40, 600)
	for i := 0; i < n; i++ {
		r := newRand(int64(195000 + i))
		mode := []string{"normal", "no-arp", "normal", "silent-renew"}[i%4]
		life := time.Duration(1+r.Intn(400)) * time.Second
		synctest.Test(t, func(t *testing.T) {
			atomic.AddInt64(&vl.n, 1)
			synctest.Wait()
			base0 := runtime.NumGoroutine()
			cl := startC19Client(mode, 120, nil, nil)
			defer cl.drop()
			time.Sleep(life)
			synctest.Wait()
			cl.cancel()
			<-cl.done
			settle(base0, 5*time.Second)
			o, cls := cl.seg.Counters()
			if o != cls || !goroutinesAt(base0, 0) {
				vl.add("c19-client-leak", "mode %s life %v: opens=%d closes=%d goroutines=%d baseline=%d", mode, life, o, cls, runtime.NumGoroutine(), base0)
			}
			// reconstruct the history from the order of opens is not possible (only counts are kept); use the frames:
			// every DHCP frame train belongs to one exchange; ARP requests for the own address = ARP check, for the server = renewal Pings
			var xs L
			frames := cl.seg.Frames()
			pend := 0 // server Pings seen since the last exchange
			lastX := uint32(0)
			lastDst := ""
			for _, f := range frames {
				if f.Kind == rsocks.KindARP && len(f.Payload) == 28 {
					if binary.BigEndian.Uint32(f.Payload[24:28]) == cl.rs.srvIP {
						pend++
					} else {
						xs = append(xs, 0, 0)
					}
					continue
				}
				rq := parseReply(f.Payload)
				if !rq.ok {
					continue
				}
				key := f.EthDst.String() + fmt.Sprint(rq.typ)
				if rq.msg.xid == lastX && key == lastDst && pend == 0 {
					continue // retransmission inside the same exchange
				}
				lastX, lastDst = rq.msg.xid, key
				if f.EthDst.String() == "ff:ff:ff:ff:ff:ff" {
					xs = append(xs, 1, uint64(pend))
				} else {
					xs = append(xs, 2, uint64(pend))
				}
				pend = 0
			}
			out := append(L{uint64(o), uint64(cls), 1, 0}, cl.kr.list()...)
			// the life may have been cut inside an exchange whose send socket was not yet open; such lives are only checked for balance
			if pend == 0 && cl.kr.list()[0] == uint64(countExchanges(xs)) {
				c.add(1902, "client-life:"+mode, len(xs) > 2, args(xs), []interface{}{out})
			} else {
				c.hist["1902:cut-inside-an-exchange(not-counted)"]++
			}
		})
	}
	vl.write(t, "c19clidirect", map[string]interface{}{"distinct_nontrivial": n, "histogram": map[string]int{"client-lives": n},
		"samples": []string{"client lives of 1-400 s, then cancel: sockets balanced, goroutines at baseline; exchanges/ARP checks read off the frames and counted by the model (tag 1902)"}})
}

func countExchanges(xs L) int {
	n := 0
	for i := 0; i+1 < len(xs); i += 2 {
		if xs[i] != 0 {
			n++
		}
	}
	return n
}

// (ii) fault injection, client: the routines return the error; the whole client survives a failing socket
func TestC19ClientFaults(t *testing.T) {
	vl := &violationLog{}
	st := newC19stats()
	iface := func() (*net.Interface, *rsocks.Segment) {
		name := fmt.Sprintf("fif%d", atomic.AddInt64(&ifaceSeq, 1))
		return &net.Interface{Index: 3, Name: name, HardwareAddr: net.HardwareAddr{2, 0xdd, 0, 0, 0, 8}, MTU: 1500}, rsocks.VerifSegment(name)
	}
	payload := udpip(0, 0xffffffff, 68, 67, 17, 64, (&simClient{mac: []byte{2, 0xdd, 0, 0, 0, 8}, xid: 7}).msg(1, 0, 0).bytes())
	// sendMessage: broadcast and unicast, n-th open / n-th write fails
	for _, uc := range []bool{false, true} {
		for _, what := range []string{"open", "write"} {
			for n := 1; n <= 12; n++ {
				synctest.Test(t, func(t *testing.T) {
					atomic.AddInt64(&vl.n, 1)
					synctest.Wait()
					base0 := runtime.NumGoroutine()
					ifc, seg := iface()
					defer rsocks.VerifDropSegment(ifc.Name)
					failedKind := ""
					var failedAt time.Time
					if what == "open" {
						seg.FailOpen = func(seq int, w string) error {
							if seq == n {
								failedKind, failedAt = w, time.Now()
								return fmt.Errorf("injected")
							}
							return nil
						}
					} else {
						seg.FailWrite = func(seq int) error {
							if seq == n {
								failedKind, failedAt = "write", time.Now()
								return fmt.Errorf("injected")
							}
							return nil
						}
					}
					ipWrites := 0
					seg.OnSend = func(f rsocks.Frame) {
						if f.Kind == rsocks.KindIP {
							ipWrites++
						}
					}
					sender := func() ([]byte, net.IP, net.IP) {
						if uc {
							return payload, net.IPv4(10, 20, 0, 66), net.IPv4(10, 20, 0, 1) // nobody answers: 5 Pings, then broadcast
						}
						return payload, nil, nil
					}
					ctx, cancel := context.WithTimeout(context.Background(), 8*time.Second)
					defer cancel()
					var err error
					var ret time.Time
					done := make(chan bool)
					go func() { err = dclient.VerifSendMessage(ctx, ifc, sender); ret = time.Now(); close(done) }()
					<-done
					synctest.Wait()
					desc := fmt.Sprintf("sendMessage unicast=%v %s #%d fails (%s)", uc, what, n, failedKind)
					mustErr := failedKind == "ipsend" || failedKind == "ucsend"
					if what == "write" && failedKind == "write" {
						// a failed write of the DHCP socket must be returned; ARP writes are ignored by design.  The unicast case
						// does 5 ARP writes first.
						mustErr = !uc || n > 5
					}
					if mustErr && (err == nil || !ret.Equal(failedAt)) {
						vl.add("c19-client-fault", "%s: sendMessage returned %v at +%v; the failure must be returned at once", desc, err, ret.Sub(failedAt))
					}
					if !mustErr && err != nil {
						vl.add("c19-client-fault", "%s: sendMessage returned %v although only an ARP socket failed", desc, err)
					}
					settle(base0, 3*time.Second)
					if o, cl := seg.Counters(); o != cl || !goroutinesAt(base0, 0) {
						vl.add("c19-client-fault", "%s: opens=%d closes=%d goroutines=%d baseline=%d", desc, o, cl, runtime.NumGoroutine(), base0)
					}
					st.count(fmt.Sprintf("sendMessage:uc=%v,%s-fail:%s,err=%v", uc, what, failedKind, err != nil))
				})
			}
		}
	}
	// catchReply: the open fails -> error at once; otherwise returns when the context ends
	for n := 1; n <= 2; n++ {
		synctest.Test(t, func(t *testing.T) {
			atomic.AddInt64(&vl.n, 1)
			synctest.Wait()
			base0 := runtime.NumGoroutine()
			ifc, seg := iface()
			defer rsocks.VerifDropSegment(ifc.Name)
			seg.FailOpen = func(seq int, w string) error {
				if seq == n {
					return fmt.Errorf("injected")
				}
				return nil
			}
			ctx, cancel := context.WithTimeout(context.Background(), 3*time.Second)
			defer cancel()
			t0 := time.Now()
			_, _, res := dclient.VerifCatchReply(ctx, ifc, func(dhcpmsg.Message, dhcpmsg.DecodedOptions) vy.State { return vy.Passed })
			d := time.Since(t0)
			if res != 0 || (n == 1 && d != 0) || (n == 2 && d != 3*time.Second) {
				vl.add("c19-client-fault", "catchReply open #%d fails: result %d after %v", n, res, d)
			}
			settle(base0, time.Second)
			if o, cl := seg.Counters(); o != cl || !goroutinesAt(base0, 0) {
				vl.add("c19-client-fault", "catchReply open #%d fails: opens=%d closes=%d goroutines=%d baseline=%d", n, o, cl, runtime.NumGoroutine(), base0)
			}
			st.count(fmt.Sprintf("catchReply:open-fail-%d", n))
		})
	}
	// the whole client with the n-th open / write failing: no panic, no leak, still cancellable
	for _, mode := range []string{"normal", "slow"} {
	for _, what := range []string{"open", "write"} {
		for n := 1; n <= 16; n++ {
			synctest.Test(t, func(t *testing.T) {
				atomic.AddInt64(&vl.n, 1)
				synctest.Wait()
				base0 := runtime.NumGoroutine()
				var fo func(int, string) error
				var fw func(int) error
				if what == "open" {
					fo = func(seq int, w string) error {
						if seq == n {
							return fmt.Errorf("injected")
						}
						return nil
					}
				} else {
					fw = func(seq int) error {
						if seq == n {
							return fmt.Errorf("injected")
						}
						return nil
					}
				}
				c := startC19Client(mode, 120, fo, fw)
				defer c.drop()
				time.Sleep(150 * time.Second)
				synctest.Wait()
				desc := fmt.Sprintf("client (%s responder), %s #%d fails", mode, what, n)
				select {
				case <-c.done:
					vl.add("c19-client-fault", "%s: Run ended by itself (panic: %v)", desc, c.panicked)
					return
				default:
				}
				bound := c.rs.acks > 0
				t0 := time.Now()
				c.cancel()
				<-c.done
				d := time.Since(t0)
				settle(base0, 5*time.Second)
				o, cl := c.seg.Counters()
				if d != 0 || c.panicked != nil || o != cl || !goroutinesAt(base0, 0) {
					vl.add("c19-client-fault", "%s: cancel->return %v panic=%v opens=%d closes=%d goroutines=%d baseline=%d", desc, d, c.panicked, o, cl, runtime.NumGoroutine(), base0)
				}
				st.count(fmt.Sprintf("client-%s-%s-fail:acked=%v", mode, what, bound))
			})
		}
	}
	}
	vl.write(t, "c19clifault", st.meta(2*2*12+2+64, "sendMessage (broadcast / unicast with 5 unanswered Pings) with the n-th open or write failing (n = 1..12): the error of the DHCP socket is returned at once, ARP socket errors are absorbed; catchReply with a failing open; the whole client with the n-th open/write failing (n = 1..16), against a prompt responder and against one that answers after the first retransmissions"))
}

// ---------------------------------------------------------------------------------------------------------------
// (iii) cancellation at random virtual instants of a running server (also in the middle of a probe)

func TestC19ServerCancel(t *testing.T) {
	vl := &violationLog{}
	st := newC19stats()
	n := scale(200, 5000)
	for i := 0; i < n; i++ {
		r := newRand(int64(197000 + i))
		synctest.Test(t, func(t *testing.T) {
			atomic.AddInt64(&vl.n, 1)
			synctest.Wait()
			base0 := runtime.NumGoroutine()
			cfg := c19cfg(i)
			name := fmt.Sprintf("sif%d", atomic.AddInt64(&ifaceSeq, 1))
			ifc := &net.Interface{Index: 1, Name: name, HardwareAddr: net.HardwareAddr(cfg.selfMAC), MTU: 1500}
			libif.VerifFake(name).Addr = ip4(cfg.selfIP)
			seg := rsocks.VerifSegment(name)
			defer rsocks.VerifDropSegment(name)
			defer libif.VerifDropFake(name)
			ctx, cancel := context.WithCancel(context.Background())
			defer cancel()
			srv, err := server.New(ctx, log.New(logSink{}, "", 0), ifc, cfg.proto())
			if err != nil {
				vl.add("c19-setup", "server.New: %v", err)
				return
			}
			var returned time.Time
			done := make(chan bool)
			go func() { srv.Run(); returned = time.Now(); close(done) }()
			synctest.Wait()
			// some traffic: k clients, each DISCOVER (+ REQUEST), one packet at a time; the cancel falls at a random offset
			// after the last packet - inside its 50 ms delay, its probes, or after it
			k := r.Intn(4)
			mk := func(j int) *simClient {
				return &simClient{mac: []byte{2, 0xbb, 0, 19, 1, byte(j + 1)}, cid: []byte{1, 2, 0xbb, 0, 19, 1, byte(j + 1)}, xid: r.Uint32()}
			}
			var offered *simClient
			var y uint32
			for j := 0; j < k; j++ {
				cl := mk(j)
				seg.Inject(rsocks.KindIP, udpip(0, 0xffffffff, 68, 67, 17, 64, cl.msg(1, 0, 0).bytes()))
				time.Sleep(2 * time.Second)
				for _, f := range seg.Frames() {
					if rp := parseReply(f.Payload); f.Kind == rsocks.KindIP && rp.ok && rp.typ == 2 && rp.msg.xid == cl.xid {
						offered, y = cl, rp.msg.yiaddr
					}
				}
			}
			kind := "idle"
			switch r.Intn(3) {
			case 0:
				kind = "discover"
				seg.Inject(rsocks.KindIP, udpip(0, 0xffffffff, 68, 67, 17, 64, mk(k).msg(1, 0, 0).bytes()))
			case 1:
				if offered != nil {
					kind = "request"
					seg.Inject(rsocks.KindIP, udpip(0, 0xffffffff, 68, 67, 17, 64, offered.msg(3, 0, 0, wopt{50, u32b(y)}, wopt{54, u32b(cfg.selfIP)}).bytes()))
				}
			}
			at := time.Duration(r.Intn(800)) * time.Millisecond
			time.Sleep(at)
			synctest.Wait()
			busy := repoGoroutines() - 2
			t0 := time.Now()
			cancel()
			synctest.Wait()
			select {
			case <-done:
			case <-time.After(3 * time.Hour):
			}
			if returned.IsZero() {
				vl.add("c19-server-hang", "cancel %v after %s: Run has not returned", at, kind)
				vl.write(t, "c19srvcancel", st.meta(n))
				return
			}
			d := returned.Sub(t0)
			label := fmt.Sprintf("server %s, handler goroutines running=%v", kind, busy > 0)
			st.delay(label, d)
			if d != 0 {
				vl.add("c19-server-slow", "cancel %v after %s: Run returned %v after cancel", at, kind, d)
			}
			drain := settle(base0, 5*time.Second)
			if busy > 0 {
				st.delay("server handler goroutines after cancel ("+kind+")", drain)
			}
			if o, cls := seg.Counters(); o != cls || !goroutinesAt(base0, 0) {
				vl.add("c19-server-leak", "cancel %v after %s: opens=%d closes=%d goroutines=%d baseline=%d (waited %v)", at, kind, o, cls, runtime.NumGoroutine(), base0, drain)
			}
			if drain > 100*time.Millisecond {
				vl.add("c19-server-slow", "cancel %v after %s: handler goroutines needed %v after cancel", at, kind, drain)
			}
			// whatever the handler of the REQUEST still sends while the server shuts down, it is not a refusal: the offer is held for
			// this client and nobody answered for the address
			if kind == "request" {
				for _, f := range seg.Frames() {
					if rp := parseReply(f.Payload); f.Kind == rsocks.KindIP && rp.ok && rp.typ == 6 && rp.msg.xid == offered.xid {
						vl.add("c19-server-nak-at-shutdown", "cancel %v after the REQUEST for the held offer %s: the server answered with a NAK while shutting down", at, ipStr(y))
					}
				}
			}
		})
	}
	vl.write(t, "c19srvcancel", st.meta(n, "server cancelled 0-800 ms after an idle period / a DISCOVER / a REQUEST (inside the reply delay, inside the probes, after the reply)"))
}

// The limiter (finding F11, repaired): a server that NAKs every REQUEST makes the client spin through its states until the
// limiter trips; the client then pauses 20 s before its fatal exit.  Cancelling it during that pause must make Run return
// at once (before the repair it slept on and panicked: violation kind limiter-sleep-ignores-cancel).  Sockets must be balanced.
func TestC19ClientLimiter(t *testing.T) {
	vl := &violationLog{}
	st := newC19stats()
	synctest.Test(t, func(t *testing.T) {
		atomic.AddInt64(&vl.n, 1)
		synctest.Wait()
		base0 := runtime.NumGoroutine()
		c := startC19Client("nak-request", 120, nil, nil)
		defer c.drop()
		select {
		case <-c.trap.hit:
		case <-time.After(10 * time.Minute):
			st.count("limiter-not-reached")
			c.cancel()
			<-c.done
			return
		}
		t0 := time.Now()
		c.cancel()
		<-c.done
		d := time.Since(t0)
		st.delay("client limiter tripped: cancel -> Run returns", d)
		if d != 0 || c.panicked != nil {
			vl.add("limiter-sleep-ignores-cancel", "client cancelled while the tripped limiter pauses: Run returned %v after cancel (by panic=%v)", d, c.panicked != nil)
		}
		settle(base0, 5*time.Second)
		o, cl := c.seg.Counters()
		if o != cl || !goroutinesAt(base0, 0) {
			vl.add("c19-client-leak", "limiter scenario: opens=%d closes=%d goroutines=%d baseline=%d", o, cl, runtime.NumGoroutine(), base0)
		}
		if c.panicked == nil {
			st.count("limiter: Run returned without panic")
		}
	})
	vl.write(t, "c19limiter", st.meta(1, "server NAKs every REQUEST: discovering/selecting cycle until rate.NewLimiter(1, 10) is exhausted"))
}
