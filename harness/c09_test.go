package harness

import (
	"bytes"
	"context"
	"encoding/json"
	"fmt"
	"log"
	"net"
	"os"
	"path/filepath"
	"sort"
	"sync"
	"sync/atomic"
	"testing"
	"time"

	"git.sr.ht/~adrian-blx/psa-dhcp/lib/dhcpmsg"
	"git.sr.ht/~adrian-blx/psa-dhcp/lib/layer"
	"git.sr.ht/~adrian-blx/psa-dhcp/lib/libif"
	"git.sr.ht/~adrian-blx/psa-dhcp/lib/rsocks"
	"git.sr.ht/~adrian-blx/psa-dhcp/lib/server"
	"git.sr.ht/~adrian-blx/psa-dhcp/lib/server/ipdb"
)

// direct violations found by the harness itself (not through the model driver)
type directViolation struct {
	Tag  int    `json:"tag"`
	Kind string `json:"kind"`
	Case string `json:"case"`
}

type violationLog struct {
	mu sync.Mutex
	v  []directViolation
	n  int64 // cases evaluated
}

func (l *violationLog) add(kind, format string, a ...interface{}) {
	l.mu.Lock()
	defer l.mu.Unlock()
	if len(l.v) < 50 {
		l.v = append(l.v, directViolation{Tag: 0, Kind: kind, Case: fmt.Sprintf(format, a...)})
	}
}

func (l *violationLog) write(t *testing.T, name string, meta map[string]interface{}) {
	b, _ := json.MarshalIndent(l.v, "", " ")
	if l.v == nil {
		b = []byte("[]")
	}
	os.WriteFile(filepath.Join(outDir(t), name+".violations.json"), b, 0o644)
	meta["cases"] = atomic.LoadInt64(&l.n)
	mb, _ := json.MarshalIndent(meta, "", " ")
	os.WriteFile(filepath.Join(outDir(t), name+".direct.json"), mb, 0o644)
}

// TestC09NoAlias: nothing the handler later reads may alias the receive buffer: decode with the real chain,
// scribble over the buffer, compare every field with a deep copy taken before.
func TestC09NoAlias(t *testing.T) {
	r := newRand(9)
	vl := &violationLog{}
	n := scale(3000, 60000)
	distinct := map[string]bool{}
	for i := 0; i < n; i++ {
		cl := &simClient{mac: randBytes(r, 6), xid: r.Uint32()}
		if r.Intn(3) > 0 {
			cl.cid = randBytes(r, 4+r.Intn(20))
		}
		extra := []wopt{{55, randBytes(r, r.Intn(12))}, {50, u32b(r.Uint32())}}
		if r.Intn(2) == 0 {
			extra = append(extra, wopt{byte(1 + r.Intn(250)), randBytes(r, r.Intn(40))})
		}
		pkt := udpip(r.Uint32(), 0xffffffff, 68, 67, 17, 64, cl.msg(byte(1+r.Intn(3)), uint16(r.Uint32()), r.Uint32(), extra...).bytes())
		buf := make([]byte, 4096)
		nr := copy(buf, pkt)
		v4, err := layer.DecodeIPv4(buf[:nr])
		if err != nil {
			continue
		}
		udp, err := layer.DecodeUDP(v4.Data)
		if err != nil {
			continue
		}
		m, err := dhcpmsg.Decode(udp.Data)
		if err != nil {
			continue
		}
		msg := *m // what `go sx.handleMsg(v4.Source, v4.Destination, *dhcp)` passes
		opts := dhcpmsg.DecodeOptions(msg.Options)
		src, dst := v4.Source, v4.Destination
		snap := func() string {
			var b bytes.Buffer
			fmt.Fprintf(&b, "%v %v %d %d %x %x %v %v %x|", src, dst, msg.Op, msg.Xid, msg.Flags, []byte(msg.ClientMAC), msg.ClientIP, msg.YourIP, msg.Cookie)
			for _, o := range msg.Options {
				fmt.Fprintf(&b, "%d:%x,", o.Option, o.Data)
			}
			fmt.Fprintf(&b, "|%x %x %v %v %d %q", opts.ClientIdentifier, opts.ParametersList, opts.RequestedIP, opts.ServerIdentifier, opts.MessageType, opts.DomainName)
			return b.String()
		}
		before := snap()
		distinct[before] = true
		for j := range buf { // the next packet arrives
			buf[j] = byte(r.Intn(256))
		}
		atomic.AddInt64(&vl.n, 1)
		if after := snap(); after != before {
			vl.add("alias", "decoded message changed when the receive buffer was reused: before=%s after=%s packet=%x", before, after, pkt)
		}
	}
	vl.write(t, "c09alias", map[string]interface{}{"distinct_nontrivial": len(distinct), "histogram": map[string]int{"noalias:decoded-messages": len(distinct)},
		"samples": []string{"decode chain on a 4096-byte buffer, buffer overwritten with random bytes, all handler-visible fields compared"}})
}

// ---- real-time bursts through the real Run loop (lock-contended overlaps cannot run on the virtual clock) ----

type rtServer struct {
	name   string
	seg    *rsocks.Segment
	cancel context.CancelFunc
	srv    *server.Server
}

func startRT(t *testing.T, cfg srvCfg) *rtServer {
	name := fmt.Sprintf("rtif%d", atomic.AddInt64(&ifaceSeq, 1))
	iface := &net.Interface{Index: 1, Name: name, HardwareAddr: net.HardwareAddr(cfg.selfMAC), MTU: 1500}
	libif.VerifFake(name).Addr = ip4(cfg.selfIP)
	ctx, cancel := context.WithCancel(context.Background())
	srv, err := server.New(ctx, log.New(logSink{}, "", 0), iface, cfg.proto())
	if err != nil {
		cancel()
		t.Fatalf("server.New: %v", err)
	}
	go srv.Run()
	s := &rtServer{name: name, seg: rsocks.VerifSegment(name), cancel: cancel, srv: srv}
	for i := 0; i < 200 && s.seg.Listeners(rsocks.KindIP) == 0; i++ {
		time.Sleep(time.Millisecond)
	}
	return s
}

func (s *rtServer) stop() {
	s.cancel()
	time.Sleep(5 * time.Millisecond)
	rsocks.VerifDropSegment(s.name)
	libif.VerifDropFake(s.name)
}

func (s *rtServer) replies(from int) []wreply {
	var out []wreply
	for _, f := range s.seg.Frames()[from:] {
		if f.Kind == rsocks.KindIP {
			if rp := parseReply(f.Payload); rp.ok {
				out = append(out, rp)
			}
		}
	}
	return out
}

// one burst scenario: k unbound clients DISCOVER at the same instant (all suggesting the same free address, or none),
// then all REQUEST their offers at the same instant.
func burstScenario(t *testing.T, vl *violationLog, id int, k int, pool int, sameSuggestion bool) string {
	cfg := srvCfg{netU: 0x0a640000 + uint32(id)<<8, maskU: 0xffffff00, bits: 24, lease: time.Minute, selfMAC: []byte{2, 0xaa, 0, 0, byte(id), 1}}
	cfg.selfIP = cfg.netU + 1
	cfg.hasRange, cfg.rangeB, cfg.rangeE = true, cfg.netU+10, cfg.netU+10+uint32(pool)-1
	cfg.router = ipStr(cfg.selfIP)
	s := startRT(t, cfg)
	defer s.stop()
	var cls []*simClient
	for i := 0; i < k; i++ {
		cls = append(cls, &simClient{mac: []byte{2, 0xbb, 0, byte(id), 0, byte(i + 1)}, cid: []byte{1, 2, 0xbb, 0, byte(id), 0, byte(i + 1)}, xid: uint32(id)<<16 | uint32(i+1)})
	}
	desc := fmt.Sprintf("burst id=%d clients=%d pool=%d sameSuggestion=%v", id, k, pool, sameSuggestion)
	for _, cl := range cls {
		var extra []wopt
		if sameSuggestion {
			extra = append(extra, wopt{50, u32b(cfg.rangeB + 1)})
		}
		s.seg.Inject(rsocks.KindIP, udpip(0, 0xffffffff, 68, 67, 17, 64, cl.msg(1, 0, 0, extra...).bytes()))
	}
	// each search holds the database lock for its 600 ms probe: k searches take k x 0.6 s (+ 50 ms delays)
	// (real time: the limits are generous because the machine may be busy - the loop ends as soon as everybody is served)
	t0 := time.Now()
	deadline := time.Now().Add(time.Duration(k)*1500*time.Millisecond + 8*time.Second)
	offers := map[uint32]uint32{} // xid -> yiaddr
	for time.Now().Before(deadline) {
		offers = map[uint32]uint32{}
		for _, rp := range s.replies(0) {
			if rp.typ == 2 {
				offers[rp.msg.xid] = rp.msg.yiaddr
			}
		}
		if len(offers) >= k || len(offers) >= pool {
			break
		}
		time.Sleep(20 * time.Millisecond)
	}
	atomic.AddInt64(&vl.n, 1)
	want := k
	if pool < k {
		want = pool
	}
	if len(offers) != want {
		vl.add("burst-offers", "%s: %d OFFERs for %d simultaneous DISCOVERs (%d addresses free): a packet was derailed by the others", desc, len(offers), k, pool)
	}
	seen := map[uint32]uint32{}
	for x, y := range offers {
		if o, dup := seen[y]; dup {
			vl.add("burst-duplicate", "%s: address %s offered to two clients (xid %x and %x)", desc, ipStr(y), o, x)
		}
		seen[y] = x
		if y < cfg.rangeB || y > cfg.rangeE {
			vl.add("burst-range", "%s: offered %s outside the dynamic range", desc, ipStr(y))
		}
	}
	if time.Since(t0) > 11*time.Second {
		// the offers are held for 15 s only: on a machine this slow the second half would judge the scheduler, not the server
		return desc + " (requests skipped: offers took too long)"
	}
	// all offered clients REQUEST at once
	before := len(s.seg.Frames())
	nreq := 0
	for _, cl := range cls {
		if y, ok := offers[cl.xid]; ok {
			nreq++
			s.seg.Inject(rsocks.KindIP, udpip(0, 0xffffffff, 68, 67, 17, 64, cl.msg(3, 0, 0, wopt{50, u32b(y)}, wopt{54, u32b(cfg.selfIP)}).bytes()))
		}
	}
	deadline = time.Now().Add(10 * time.Second)
	acks := map[uint32]uint32{}
	naks := 0
	for time.Now().Before(deadline) {
		acks, naks = map[uint32]uint32{}, 0
		for _, rp := range s.replies(before) {
			if rp.typ == 5 {
				acks[rp.msg.xid] = rp.msg.yiaddr
			}
			if rp.typ == 6 {
				naks++
			}
		}
		if len(acks)+naks >= nreq {
			break
		}
		time.Sleep(20 * time.Millisecond)
	}
	if len(acks) != nreq {
		vl.add("burst-acks", "%s: %d ACKs (%d NAKs) for %d simultaneous REQUESTs of held offers", desc, len(acks), naks, nreq)
	}
	for x, y := range acks {
		if offers[x] != y {
			vl.add("burst-ack-addr", "%s: xid %x was offered %s but acknowledged %s", desc, x, ipStr(offers[x]), ipStr(y))
		}
	}
	return desc
}

func TestC09Burst(t *testing.T) {
	vl := &violationLog{}
	n := scale(12, 200)
	var wg sync.WaitGroup
	sem := make(chan bool, 16)
	descs := make([]string, n)
	for i := 0; i < n; i++ {
		wg.Add(1)
		sem <- true
		go func(i int) {
			defer wg.Done()
			defer func() { <-sem }()
			r := newRand(int64(900 + i))
			k := 2 + r.Intn(4)
			if thorough() && i%3 == 0 {
				k = 8 + r.Intn(6)
			}
			if !thorough() && i == 3 {
				k = 12 // one long queue in the quick tier too: the last search begins seven seconds after its DISCOVER arrived
			}
			pool := k + r.Intn(3)
			if i%5 == 4 {
				pool = k - 1 // more clients than addresses: exactly pool OFFERs
			}
			descs[i] = burstScenario(t, vl, i+1, k, pool, i%2 == 0)
		}(i)
	}
	wg.Wait()
	// a REQUEST that needs no search (for an address outside the network: nothing to look up, refused or ignored at once) arrives
	// while another client's DISCOVER holds the database for its probe: both handlers come to an end
	for _, form := range []string{"init-reboot", "renewing"} {
		atomic.AddInt64(&vl.n, 1)
		cfg := srvCfg{netU: 0x0a650000, maskU: 0xffffff00, bits: 24, lease: time.Minute, selfMAC: []byte{2, 0xaa, 0, 0, 0xfe, 1}}
		cfg.selfIP = cfg.netU + 1
		cfg.hasRange, cfg.rangeB, cfg.rangeE = true, cfg.netU+10, cfg.netU+12
		cfg.router = ipStr(cfg.selfIP)
		s := startRT(t, cfg)
		time.Sleep(50 * time.Millisecond)
		g0 := repoGoroutines()
		a := &simClient{mac: []byte{2, 0xbb, 0, 0xfe, 0, 1}, xid: 0xfe01}
		b := &simClient{mac: []byte{2, 0xbb, 0, 0xfe, 0, 2}, xid: 0xfe02}
		outside := cfg.netU + 0x10000 + 5
		s.seg.Inject(rsocks.KindIP, udpip(0, 0xffffffff, 68, 67, 17, 64, a.msg(1, 0, 0).bytes()))
		time.Sleep(150 * time.Millisecond)
		if form == "init-reboot" {
			s.seg.Inject(rsocks.KindIP, udpip(0, 0xffffffff, 68, 67, 17, 64, b.msg(3, 0, 0, wopt{50, u32b(outside)}).bytes()))
		} else {
			s.seg.Inject(rsocks.KindIP, udpip(outside, cfg.selfIP, 68, 67, 17, 64, b.msg(3, 0, outside).bytes()))
		}
		g1 := g0 + 1
		for end := time.Now().Add(6 * time.Second); time.Now().Before(end) && g1 > g0; time.Sleep(100 * time.Millisecond) {
			g1 = repoGoroutines()
		}
		if g1 > g0 {
			vl.add("burst-stuck-handler", "a %s REQUEST for %s (outside the network) during another client's address search: %d goroutines of the server still running 6 s later (%d when idle)", form, ipStr(outside), g1, g0)
		}
		s.stop()
	}
	sort.Strings(descs)
	vl.write(t, "c09burst", map[string]interface{}{"distinct_nontrivial": n, "histogram": map[string]int{"burst:scenarios": n}, "samples": descs[:3]})
}

// TestC09ConcurrentDB: concurrent calls of the lease-database API from many goroutines; the outcome must be one that some
// sequential order of the calls produces: all searches for unbound clients succeed with pairwise distinct addresses while
// addresses remain, exactly one caller gets the contested suggestion, later updates/lookups agree with the offers.
func TestC09ConcurrentDB(t *testing.T) {
	vl := &violationLog{}
	n := scale(40, 1000)
	for it := 0; it < n; it++ {
		r := newRand(int64(9900 + it))
		k := 3 + r.Intn(10)
		pool := k + r.Intn(3) - 1
		db, _ := ipdb.New(net.IPv4(10, 9, 0, 0), net.IPv4Mask(255, 255, 255, 0))
		db.SetDynamicRange(ip4(0x0a090010), ip4(0x0a090010+uint32(pool)-1))
		res := make([]uint32, k)
		var wg sync.WaitGroup
		for g := 0; g < k; g++ {
			wg.Add(1)
			go func(g int) {
				defer wg.Done()
				isFree := func(ctx context.Context, ip net.IP) bool { time.Sleep(time.Duration(r.Intn(3)) * 100 * time.Microsecond); return true }
				ip, err := db.OfferIP(context.Background(), isFree, ip4(0x0a090011), []byte{9, 9, 9, byte(g)}, 15*time.Second)
				if err == nil {
					res[g] = uint32(ipU32(ip))
				}
			}(g)
		}
		wg.Wait()
		atomic.AddInt64(&vl.n, 1)
		got := map[uint32]int{}
		ok := 0
		for g, a := range res {
			if a != 0 {
				ok++
				if o, dup := got[a]; dup {
					vl.add("db-duplicate", "iteration %d: OfferIP gave %s to callers %d and %d", it, ipStr(a), o, g)
				}
				got[a] = g
			}
		}
		want := k
		if pool < k {
			want = pool
		}
		if ok != want {
			vl.add("db-lost", "iteration %d: %d of %d concurrent OfferIP calls succeeded with %d addresses free", it, ok, k, pool)
		}
		if _, has := got[0x0a090011]; !has && pool >= 2 {
			vl.add("db-suggestion", "iteration %d: nobody obtained the suggested free address", it)
		}
		// concurrent confirmations and look-ups
		for g := 0; g < k; g++ {
			if res[g] == 0 {
				continue
			}
			wg.Add(2)
			go func(g int) {
				defer wg.Done()
				if err := db.UpdateClient(ip4(res[g]), []byte{9, 9, 9, byte(g)}, time.Minute); err != nil {
					vl.add("db-update", "iteration %d: UpdateClient of a held offer failed: %v", it, err)
				}
			}(g)
			go func(g int) {
				defer wg.Done()
				if ip, err := db.LookupClientByDuid([]byte{9, 9, 9, byte(g)}); err != nil || uint32(ipU32(ip)) != res[g] {
					vl.add("db-lookup", "iteration %d: lookup of caller %d returned %v/%v, offered %s", it, g, ip, err, ipStr(res[g]))
				}
			}(g)
		}
		wg.Wait()
	}
	vl.write(t, "c09db", map[string]interface{}{"distinct_nontrivial": n, "histogram": map[string]int{"concurrent-db:iterations": n},
		"samples": []string{"3-12 goroutines call OfferIP with the same suggestion on a pool of about as many addresses, then UpdateClient/Lookup concurrently"}})
}
