package harness

// C16, message-format half: the four message templates of lib/client/msgtmpl against the model (byte equality,
// tag 1601) and against the specification's recogniser evaluated on the implementation's bytes (monitor, tag 1610);
// the CRC-32 of the model against hash/crc32 (tag 1602).  The transaction id and the IP identification are
// random inside msgtmpl: the id returned by the constructor and the IP id found in the frame are handed to the model.

import (
	"encoding/binary"
	"fmt"
	"hash/crc32"
	"math/rand"
	"net"
	"testing"

	"git.sr.ht/~adrian-blx/psa-dhcp/lib/client/msgtmpl"
)

var reqKindNames = []string{"discover", "selecting", "renewing", "rebinding"}

func c16Addr(r *rand.Rand) uint32 {
	switch r.Intn(12) {
	case 0:
		return 0
	case 1:
		return 0xffffffff
	case 2:
		return 0x0a0000ff
	}
	return validAddr(r)
}

func c16Hw(r *rand.Rand) []byte {
	switch r.Intn(10) {
	case 0:
		return randBytes(r, 1+r.Intn(16))
	case 1:
		return randBytes(r, []int{0, 1, 5, 7, 8, 15, 16}[r.Intn(7)])
	case 2:
		b := randBytes(r, 6)
		for i := range b {
			b[i] = []byte{0, 0xff}[r.Intn(2)]
		}
		return b
	}
	return randBytes(r, 6)
}

func emitTemplate(c *caseWriter, r *rand.Rand, label string, kind int, hw []byte, leased, server uint32) {
	// the MTU of the interface is of no concern to the messages (option 57 is a constant of the client): vary it
	mtu := 1500
	if r.Intn(2) == 0 {
		mtu = []int{0, 68, 296, 575, 576, 1280, 1499, 9000, 65520, 65535, 65536, 65536 + 300, 65536 + 1500, 1 << 31, -1}[r.Intn(15)]
	}
	iface := &net.Interface{Index: 1, Name: "c16if", HardwareAddr: net.HardwareAddr(hw), MTU: mtu}
	lip, sip := ipForm(leased, r.Intn(2) == 0), ipForm(server, r.Intn(2) == 0)
	var f func() ([]byte, net.IP, net.IP)
	var xid uint32
	var frames [][]byte
	panicked := safely(func() {
		switch kind {
		case 0:
			f, xid = msgtmpl.Discover(iface)
		case 1:
			f, xid = msgtmpl.RequestSelecting(iface, lip, sip)
		case 2:
			f, xid = msgtmpl.RequestRenewing(iface, lip, sip)
		default:
			f, xid = msgtmpl.RequestRebinding(iface, lip)
		}
		// the sender is invoked once per (re)transmission: same transaction id, fresh IP id
		for i := 0; i < 2; i++ {
			b, _, _ := f()
			frames = append(frames, b)
		}
	})
	kl := reqKindNames[kind] + "/" + label
	if mtu != 1500 {
		kl += "/mtu-varied"
	}
	if panicked {
		c.add(1601, kl, true, args(L{uint64(kind), 0, 0, uint64(leased), uint64(server)}, B(hw)), resPanic())
		return
	}
	for _, b := range frames {
		ipid := uint64(0)
		if len(b) >= 6 {
			ipid = uint64(binary.BigEndian.Uint16(b[4:]))
		}
		c.add(1601, kl, true, args(L{uint64(kind), uint64(xid), ipid, uint64(leased), uint64(server)}, B(hw)), resOK(B(b)))
		if len(hw) <= 16 {
			c.add(1610, kl, true, args(L{uint64(kind), uint64(leased), uint64(server)}, B(hw), B(b)), args(L{1}))
		}
	}
}

func TestC16Templates(t *testing.T) {
	c := newCaseWriter(t, "c16tmpl")
	defer c.close(t, "c16tmpl")
	r := newRand(16)
	for i := 0; i < scale(1000, 50000); i++ {
		hw := c16Hw(r)
		emitTemplate(c, r, fmt.Sprintf("hw%d", len(hw)), r.Intn(4), hw, c16Addr(r), c16Addr(r))
	}
	// every hardware-address length 0..16 for every kind; longer ones are outside the property (model only)
	for n := 0; n <= 20; n++ {
		for kind := 0; kind < 4; kind++ {
			label := fmt.Sprintf("hw%d", n)
			if n > 16 {
				label = "hw>16"
			}
			emitTemplate(c, r, label, kind, randBytes(r, n), validAddr(r), validAddr(r))
		}
	}
	// the IAID of the client identifier
	for i := 0; i < scale(400, 5000); i++ {
		b := randBytes(r, r.Intn(40))
		if i < 20 {
			b = randBytes(r, i)
		}
		c.add(1602, "crc32", len(b) > 0, args(B(b)), args(L{uint64(crc32.ChecksumIEEE(b))}))
	}
	c.add(1602, "crc32", true, args(B([]byte("123456789"))), args(L{uint64(crc32.ChecksumIEEE([]byte("123456789")))}))
}
