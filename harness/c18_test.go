package harness

// C18 / C07: configurations through the real server.New and dhcpOptions.
//
// A case is the ABSTRACT configuration (every string classified by the same standard-library
// functions the server calls: net.ParseCIDR, net.ParseIP+To4, net.ParseMAC, time.ParseDuration,
// strings.Split), the server's own address / hardware address, probe hardware addresses and what
// the implementation did.  Layout: see coq/model/Dispatch.v (dispatch_c18).

import (
	"sync"
	"bytes"
	"context"
	"encoding/binary"
	"fmt"
	"log"
	"math/rand"
	"net"
	"sort"
	"strings"
	"sync/atomic"
	"testing"
	"time"

	"git.sr.ht/~adrian-blx/psa-dhcp/lib/dhcpmsg"
	"git.sr.ht/~adrian-blx/psa-dhcp/lib/libif"
	"git.sr.ht/~adrian-blx/psa-dhcp/lib/server"
	pb "git.sr.ht/~adrian-blx/psa-dhcp/lib/server/proto"
	"git.sr.ht/~adrian-blx/psa-dhcp/lib/server/replies"
)

// ---- classification (abstract configuration) ----

func classAddr(s string) (uint64, uint64) {
	if s == "" {
		return 0, 0
	}
	ip := net.ParseIP(s)
	if ip == nil || ip.To4() == nil {
		return 1, 0
	}
	return 2, uint64(binary.BigEndian.Uint32(ip.To4()))
}

func classAddrs(l []string) L {
	out := L{}
	for _, s := range l {
		k, v := classAddr(s)
		out = append(out, k, v)
	}
	return out
}

type cfgCase struct {
	conf   *pb.ServerConfig
	own    net.IP // nil = interface without address
	ownMAC []byte
	probes [][]byte
}

// abstract encodes the configuration part of the case; client entries in sorted key order.
func (cc *cfgCase) abstract() []interface{} {
	c := cc.conf
	h := make(L, 17)
	if _, n, err := net.ParseCIDR(c.GetNetwork()); err != nil {
		h[0] = 0
	} else if len(n.Mask) != 4 || n.IP.To4() == nil {
		h[0] = 1
	} else {
		h[0], h[1], h[2] = 2, uint64(binary.BigEndian.Uint32(n.IP.To4())), uint64(binary.BigEndian.Uint32(n.Mask))
	}
	if d, err := time.ParseDuration(c.GetLeaseDuration()); err == nil {
		h[3] = 1
		v := int64(d)
		if v < 0 {
			h[4] = 1
			v = -v
		}
		h[5], h[6] = uint64(v/1e9), uint64(v%1e9)
	}
	if dr := c.GetDynamicRange(); dr != "" {
		sr := strings.Split(dr, "-")
		if len(sr) != 2 {
			h[7] = 1
		} else if a, b := net.ParseIP(sr[0]), net.ParseIP(sr[1]); a == nil || b == nil {
			h[7] = 2
		} else {
			h[7] = 3
			if a.To4() != nil {
				h[8], h[9] = 1, uint64(binary.BigEndian.Uint32(a.To4()))
			}
			if b.To4() != nil {
				h[10], h[11] = 1, uint64(binary.BigEndian.Uint32(b.To4()))
			}
		}
	}
	h[12] = b2n(c.GetStaticOnly())
	if cc.own != nil && cc.own.To4() != nil {
		h[13], h[14] = 1, uint64(binary.BigEndian.Uint32(cc.own.To4()))
	}
	keys := make([]string, 0, len(c.GetClient()))
	for k := range c.GetClient() {
		keys = append(keys, k)
	}
	sort.Strings(keys)
	h[15], h[16] = uint64(len(keys)), uint64(len(cc.probes))
	rk, rv := classAddr(c.GetRouter())
	text := fmt.Sprintf("own_ip=%v own_mac=%v %s", cc.own, net.HardwareAddr(cc.ownMAC), c.String())
	a := []interface{}{h, B(cc.ownMAC), L{rk, rv}, classAddrs(c.GetDns()), classAddrs(c.GetNtp()), B([]byte(c.GetDomain())), B([]byte(text))}
	for _, k := range keys {
		v := c.GetClient()[k]
		ch := make(L, 5)
		var mac []byte
		if hw, err := net.ParseMAC(k); err == nil {
			ch[0] = 1
			mac = hw
		}
		ch[1], ch[2] = classAddr(v.GetIp())
		ch[3], ch[4] = classAddr(v.GetRouter())
		a = append(a, ch, B(mac), classAddrs(v.GetDns()), classAddrs(v.GetNtp()), B([]byte(v.GetHostname())))
	}
	for _, p := range cc.probes {
		a = append(a, B(p))
	}
	return a
}

// ---- observation of one construction ----

type cfgObs struct {
	panicked, accepted bool
	ranges             [4]uint32
	binds              []interface{} // [ip, perm], duid, ...
	nbinds             int
	opts               [][]dhcpmsg.DHCPOpt // per probe
	srv                *server.Server
	errText            string
}

var cifSeq int64

func (cc *cfgCase) construct() cfgObs {
	name := fmt.Sprintf("cif%d", atomic.AddInt64(&cifSeq, 1))
	iface := &net.Interface{Index: 1, Name: name, HardwareAddr: net.HardwareAddr(cc.ownMAC), MTU: 1500}
	libif.VerifFake(name).Addr = cc.own
	defer libif.VerifDropFake(name)
	var o cfgObs
	o.panicked = safely(func() {
		srv, err := server.New(context.Background(), log.New(logSink{}, "", 0), iface, cc.conf)
		if err != nil {
			o.errText = err.Error()
			return
		}
		o.accepted = true
		o.srv = srv
		a, b, c, d := srv.VerifIPDB().VerifRanges()
		o.ranges = [4]uint32{a, b, c, d}
		snap := srv.VerifIPDB().VerifSnapshot()
		sort.SliceStable(snap, func(i, j int) bool { return snap[i].IP < snap[j].IP })
		for _, e := range snap {
			o.binds = append(o.binds, L{uint64(e.IP), b2n(e.Permanent)}, B(e.Duid))
		}
		o.nbinds = len(snap)
		for _, p := range cc.probes {
			o.opts = append(o.opts, srv.VerifDhcpOptions(net.HardwareAddr(p)))
		}
	})
	return o
}

func encOptList(os []dhcpmsg.DHCPOpt) []interface{} {
	return append([]interface{}{L{uint64(len(os))}}, encOpts(os)...)
}

// lists: [accepted, netFrom, netTo, dynFrom, dynTo, #bindings], bindings, one option list per probe
func (o *cfgObs) lists() []interface{} {
	l := []interface{}{L{b2n(o.accepted), uint64(o.ranges[0]), uint64(o.ranges[1]), uint64(o.ranges[2]), uint64(o.ranges[3]), uint64(o.nbinds)}}
	l = append(l, o.binds...)
	for _, os := range o.opts {
		l = append(l, encOptList(os)...)
	}
	return l
}

// outs of tag 1801
func (o *cfgObs) outs1801() []interface{} {
	switch {
	case o.panicked:
		return resPanic()
	case !o.accepted:
		return resErr()
	}
	l := o.lists()
	h := l[0].(L)
	return append([]interface{}{L{0}, h[1:]}, l[1:]...)
}

// flat is one number list identifying the whole observation (determinism monitor).
func (o *cfgObs) flat() L {
	out := L{b2n(o.panicked)}
	for _, x := range o.lists() {
		switch v := x.(type) {
		case L:
			out = append(out, uint64(len(v)))
			out = append(out, v...)
		case B:
			out = append(out, uint64(len(v)))
			out = append(out, bytesL(v)...)
		}
	}
	return out
}

// ---- generator ----

var faultNames = []string{
	"net-unparsable", "net-v6", "net-tiny", "lease-unparsable", "lease-short", "lease-2^32", "lease-200y", "lease-frac",
	"router-bad", "router-v6", "dns-bad", "dns-v6", "dns-empty-elem", "dns-64+", "ntp-bad", "ntp-64+", "domain-256+",
	"range-format", "range-badip", "range-v6", "range-reversed", "range-outside", "own-none", "own-outside", "own-netaddr",
	"mac-bad", "mac-dup-spelling", "mac-own", "cip-bad", "cip-v6", "cip-outside", "cip-dup", "cip-own", "crouter-bad",
	"cdns-bad", "cdns-64+", "cntp-bad", "cntp-64+", "chost-256+",
}

type cfgGen struct {
	r      *rand.Rand
	mode   int    // 0 valid, 1 one fault, 2 random faults
	chosen string // mode 1
	used   map[string]bool
	netU   uint32
	bits   int
}

func (g *cfgGen) fault(name string) bool {
	hit := false
	switch g.mode {
	case 1:
		hit = name == g.chosen && !g.used[name]
	case 2:
		hit = g.r.Intn(100) < 6
	}
	if hit {
		g.used[name] = true
	}
	return hit
}

func ipS(v uint32) string { return ip4(v).String() }

func (g *cfgGen) size() uint32 { return uint32(1)<<(32-g.bits) - 2 }

// inNet returns a host address of the network (offset 1..size).
func (g *cfgGen) inNet() uint32 { return g.netU + 1 + uint32(g.r.Intn(int(g.size()))) }

func (g *cfgGen) outside() uint32 {
	switch g.r.Intn(4) {
	case 0:
		return g.netU // network address
	case 1:
		return g.netU + g.size() + 1 // broadcast address
	case 2:
		return g.netU + g.size() + 2 + uint32(g.r.Intn(300))
	}
	return g.netU - 1 - uint32(g.r.Intn(300))
}

var badIPs = []string{"10.0.0.256", "abc", "10.0.0", "1.2.3.4.5", " 10.0.0.1", "010.0.0.1", "10.0.0.1/24", "-"}
var v6IPs = []string{"fd00::1", "::1", "2001:db8::53", "fe80::1"}

// addr: a valid address string (sometimes the v4-in-v6 spelling, which To4 accepts)
func (g *cfgGen) addrS(v uint32) string {
	if g.r.Intn(12) == 0 {
		return "::ffff:" + ipS(v)
	}
	return ipS(v)
}

func (g *cfgGen) list(prefix string) []string {
	var n int
	switch g.r.Intn(10) {
	case 0, 1, 2:
		n = 0
	case 3, 4, 5, 6:
		n = 1 + g.r.Intn(3)
	case 7:
		n = 4 + g.r.Intn(56)
	case 8:
		n = 60 + g.r.Intn(4) // 60..63: boundary, still representable
	case 9:
		if g.r.Intn(2) == 0 {
			return []string{""} // the "unset" spelling
		}
		n = 63
	}
	if g.fault(prefix + "-64+") {
		n = 64 + g.r.Intn(7)
	}
	bad, v6, empty := g.fault(prefix+"-bad"), prefix == "dns" && g.fault("dns-v6"), prefix == "dns" && g.fault("dns-empty-elem")
	if (bad || v6) && n == 0 {
		n = 1 + g.r.Intn(3)
	}
	if empty && n < 2 {
		n = 2 + g.r.Intn(3)
	}
	l := make([]string, n)
	for i := range l {
		l[i] = g.addrS(g.r.Uint32())
	}
	switch {
	case bad:
		l[g.r.Intn(n)] = badIPs[g.r.Intn(len(badIPs))]
	case v6:
		l[g.r.Intn(n)] = v6IPs[g.r.Intn(len(v6IPs))]
	case empty:
		l[g.r.Intn(n)] = ""
	}
	return l
}

func (g *cfgGen) text(max int, faultName string) string {
	var n int
	switch g.r.Intn(8) {
	case 0, 1:
		n = 0
	case 2, 3, 4:
		n = 1 + g.r.Intn(30)
	case 5:
		n = 31 + g.r.Intn(200)
	case 6:
		n = 253 + g.r.Intn(3) // 253..255
	case 7:
		n = 255
	}
	if g.fault(faultName) {
		n = 256 + g.r.Intn(45)
	}
	const al = "abcdefghijklmnopqrstuvwxyz0123456789-."
	if g.r.Intn(3) == 0 {
		// the same number of octets, partly in characters of two to four octets (a length counted in characters would differ)
		multi := []string{"\u00e9", "\u00df", "\u20ac", "\U0001F600"}
		var sb strings.Builder
		for sb.Len() < n {
			m := multi[g.r.Intn(len(multi))]
			if g.r.Intn(2) == 0 && sb.Len()+len(m) <= n {
				sb.WriteString(m)
			} else {
				sb.WriteByte(al[g.r.Intn(len(al))])
			}
		}
		return sb.String()
	}
	b := make([]byte, n)
	for i := range b {
		b[i] = al[g.r.Intn(len(al))]
	}
	return string(b)
}

func spellMAC(r *rand.Rand, m []byte, style int) string {
	switch style % 4 {
	case 0:
		return net.HardwareAddr(m).String() // aa:bb:cc:dd:ee:ff
	case 1:
		return strings.ToUpper(strings.ReplaceAll(net.HardwareAddr(m).String(), ":", "-")) // AA-BB-CC-DD-EE-FF
	case 2:
		if len(m)%2 == 0 { // aabb.ccdd.eeff
			var p []string
			for i := 0; i < len(m); i += 2 {
				p = append(p, fmt.Sprintf("%02x%02x", m[i], m[i+1]))
			}
			return strings.Join(p, ".")
		}
	}
	return strings.ToUpper(net.HardwareAddr(m).String()) // AA:BB:CC:DD:EE:FF
}

var badMACs = []string{"zz:bb:cc:dd:ee:ff", "aa:bb:cc:dd:ee", "aa:bb:cc:dd:ee:ff:00", "", "aa bb cc dd ee ff", "aa:bb:cc:dd:ee:fg"}

func genCfgCase(r *rand.Rand, mode int) (*cfgCase, string) {
	g := &cfgGen{r: r, mode: mode, used: map[string]bool{}}
	if mode == 1 {
		g.chosen = faultNames[r.Intn(len(faultNames))]
	}
	g.bits = []int{24, 24, 24, 23, 22, 25, 26, 27, 28, 29, 16, 30}[r.Intn(12)]
	g.netU = (uint32(10)<<24 | uint32(r.Intn(1<<16))<<8) &^ (uint32(1)<<(32-g.bits) - 1)
	if r.Intn(4) == 0 {
		g.netU = (uint32(192)<<24 | 168<<16 | uint32(r.Intn(256))<<8) &^ (uint32(1)<<(32-g.bits) - 1)
	}
	conf := &pb.ServerConfig{Client: map[string]*pb.ClientConfig{}}
	// network (sometimes with host bits set in the text)
	host := uint32(0)
	if r.Intn(5) == 0 {
		host = uint32(r.Intn(int(g.size()) + 2))
	}
	conf.Network = fmt.Sprintf("%s/%d", ipS(g.netU+host), g.bits)
	switch {
	case g.fault("net-unparsable"):
		conf.Network = []string{"10.0.0.0", "10.0.0.0/33", "garbage", "", "10.0.0.0/-1", "10.0.0/24"}[r.Intn(6)]
	case g.fault("net-v6"):
		// (the last one is the configured network itself, written as an IPv4-mapped prefix: everything else of the configuration fits it)
		conf.Network = []string{"fd00::/64", "::ffff:10.0.0.0/120", "2001:db8::/32", fmt.Sprintf("::ffff:%s/%d", ipS(g.netU), 96+g.bits)}[r.Intn(4)]
	case g.fault("net-tiny"):
		conf.Network = fmt.Sprintf("%s/%d", ipS(g.netU), 31+r.Intn(2))
	}
	// lease
	conf.LeaseDuration = []string{"1h", "1m", "60s", "90s", "24h", "1h30m", "1.5h", "12h0m0.5s", "168h", "1193046h28m15s", "61s", "3600s", "1m0.000000001s"}[r.Intn(13)]
	switch {
	case g.fault("lease-unparsable"):
		conf.LeaseDuration = []string{"", "1 hour", "1d", "3600", "h", "2562048h", "1h-"}[r.Intn(7)]
	case g.fault("lease-short"):
		conf.LeaseDuration = []string{"59s", "59.999999999s", "0s", "-5m", "1ms", "-1h"}[r.Intn(6)]
	case g.fault("lease-2^32"):
		conf.LeaseDuration = []string{"1193046h28m16s", "4294967296s", "1193046h28m16.5s", "1193047h"}[r.Intn(4)]
	case g.fault("lease-200y"):
		conf.LeaseDuration = []string{"1753164h", "2562047h", "876000h"}[r.Intn(3)]
	case g.fault("lease-frac"):
		// not a fault of the configuration: whole seconds must be advertised (R8) even next to a float64 rounding boundary
		conf.LeaseDuration = []string{"16777216.999999999s", "1193046h28m15.999999999s", "4660h20m16.999999999s", "100000000.999999999s", "33554432.999999998s"}[r.Intn(5)]
	}
	// router
	if r.Intn(3) > 0 {
		conf.Router = g.addrS(g.inNet())
	}
	switch {
	case g.fault("router-bad"):
		conf.Router = badIPs[r.Intn(len(badIPs))]
	case g.fault("router-v6"):
		conf.Router = v6IPs[r.Intn(len(v6IPs))]
	}
	conf.Dns = g.list("dns")
	conf.Ntp = g.list("ntp")
	conf.Domain = g.text(255, "domain-256+")
	// dynamic range
	if r.Intn(2) == 0 {
		a, b := g.inNet(), g.inNet()
		if a > b {
			a, b = b, a
		}
		if r.Intn(6) == 0 {
			b = a
		}
		conf.DynamicRange = ipS(a) + "-" + ipS(b)
		switch {
		case a != b && g.fault("range-reversed"):
			conf.DynamicRange = ipS(b) + "-" + ipS(a)
		case g.fault("range-outside"):
			if r.Intn(2) == 0 {
				conf.DynamicRange = ipS(g.outside()) + "-" + ipS(b)
			} else {
				conf.DynamicRange = ipS(a) + "-" + ipS(g.outside())
			}
		}
	}
	switch {
	case g.fault("range-format"):
		conf.DynamicRange = []string{ipS(g.inNet()), ipS(g.inNet()) + "-" + ipS(g.inNet()) + "-" + ipS(g.inNet()), "-", "a-b-c", ipS(g.inNet()) + " " + ipS(g.inNet())}[r.Intn(5)]
		if conf.DynamicRange == "-" {
			g.used["range-badip"] = true
		}
	case g.fault("range-badip"):
		conf.DynamicRange = []string{ipS(g.inNet()) + "-", "-" + ipS(g.inNet()), "x-y", ipS(g.inNet()) + "-10.0.0.256"}[r.Intn(4)]
	case g.fault("range-v6"):
		conf.DynamicRange = []string{"fd00::1-fd00::9", ipS(g.inNet()) + "-fd00::9", "::1-" + ipS(g.inNet())}[r.Intn(3)]
	}
	conf.StaticOnly = r.Intn(5) == 0

	cc := &cfgCase{conf: conf}
	cc.ownMAC = []byte{2, 0, 0, 0, 0, byte(1 + r.Intn(3))}
	ownU := g.inNet()
	cc.own = ip4(ownU)
	switch {
	case g.fault("own-none"):
		cc.own = nil
	case g.fault("own-outside"):
		cc.own = ip4(g.outside() + 0)
	case g.fault("own-netaddr"):
		cc.own = ip4(g.netU + uint32(r.Intn(2))*(g.size()+1))
	}

	// clients: hardware addresses from a small pool so that spellings of one address meet
	pool := [][]byte{{0xaa, 0xbb, 0xcc, 0xdd, 0xee, 0xff}, {0xaa, 0xbb, 0xcc, 0xdd, 0xee, 0x01}, {0x02, 0x1a, 0x2b, 0x3c, 0x4d, 0x5e},
		{0x00, 0x00, 0x5e, 0x00, 0x53, 0x0a}, {0xde, 0xad, 0xbe, 0xef, 0x00, 0x01, 0x02, 0x03}, {0xfe, 0xdc, 0xba, 0x98, 0x76, 0x54}}
	perm := r.Perm(len(pool))
	nc := []int{0, 1, 1, 2, 2, 3, 4, 5}[r.Intn(8)]
	usedIP := map[uint32]bool{ownU: true}
	var prev []uint32
	freshIP := func() uint32 {
		for i := 0; i < 50; i++ {
			v := g.inNet()
			if !usedIP[v] {
				usedIP[v] = true
				return v
			}
		}
		return 0
	}
	for i := 0; i < nc; i++ {
		m := pool[perm[i]]
		key := spellMAC(r, m, r.Intn(4))
		switch {
		case g.fault("mac-bad"):
			key = badMACs[r.Intn(len(badMACs))]
		case i > 0 && g.fault("mac-dup-spelling"):
			m = pool[perm[r.Intn(i)]]
			for s := 0; s < 4; s++ { // a spelling not yet present
				key = spellMAC(r, m, s)
				if _, ok := conf.Client[key]; !ok {
					break
				}
			}
		case g.fault("mac-own"):
			key = spellMAC(r, cc.ownMAC, r.Intn(4))
		}
		cl := &pb.ClientConfig{}
		if r.Intn(3) > 0 {
			if v := freshIP(); v != 0 {
				cl.Ip = g.addrS(v)
				prev = append(prev, v)
			}
		}
		switch {
		case g.fault("cip-bad"):
			cl.Ip = badIPs[r.Intn(len(badIPs))]
		case g.fault("cip-v6"):
			cl.Ip = v6IPs[r.Intn(len(v6IPs))]
		case g.fault("cip-outside"):
			cl.Ip = ipS(g.outside())
		case len(prev) > 1 && g.fault("cip-dup"):
			cl.Ip = ipS(prev[r.Intn(len(prev)-1)])
		case g.fault("cip-own"):
			cl.Ip = ipS(ownU)
		}
		if r.Intn(3) == 0 {
			cl.Router = g.addrS(g.inNet())
		}
		if g.fault("crouter-bad") {
			cl.Router = append(badIPs, v6IPs...)[r.Intn(len(badIPs)+len(v6IPs))]
		}
		if r.Intn(2) == 0 {
			cl.Dns = g.list("cdns")
		}
		if r.Intn(3) == 0 {
			cl.Ntp = g.list("cntp")
		}
		if r.Intn(2) == 0 {
			cl.Hostname = g.text(255, "chost-256+")
		}
		conf.Client[key] = cl
	}
	// probes: up to three pool addresses in use first, then an unknown one
	for i := 0; i < 3; i++ {
		cc.probes = append(cc.probes, pool[perm[i]])
	}
	cc.probes = append(cc.probes, []byte{0x06, byte(r.Intn(256)), byte(r.Intn(256)), 0, 0, 9})
	if r.Intn(6) == 0 {
		cc.probes[2] = cc.ownMAC
	}
	// a hardware address of 8 or 16 octets that begins with a configured client's six: another client, no entry is its own
	if r.Intn(3) == 0 {
		if base := pool[perm[r.Intn(3)]]; len(base) < 16 { // (chaddr holds 16 octets at most)
			cc.probes = append(cc.probes, append(append([]byte{}, base...), randBytes(r, []int{2, 16 - len(base)}[r.Intn(2)])...))
		}
	}

	kind := "valid"
	if len(g.used) > 0 {
		var u []string
		for k := range g.used {
			u = append(u, k)
		}
		sort.Strings(u)
		if len(u) == 1 {
			kind = "fault:" + u[0]
		} else {
			kind = fmt.Sprintf("faults:%d", len(u))
		}
	}
	return cc, kind
}

// ---- directed configurations: the witnesses of F5a-e (DESIGN.md section 6) and neighbours ----

func directedCfgCases() []struct {
	id string
	cc *cfgCase
} {
	base := func() *cfgCase {
		return &cfgCase{
			conf:   &pb.ServerConfig{Network: "192.168.1.0/24", LeaseDuration: "1h", Router: "192.168.1.1", Dns: []string{"192.168.1.53"}, Domain: "example.org", Client: map[string]*pb.ClientConfig{}},
			own:    net.IPv4(192, 168, 1, 2).To4(),
			ownMAC: []byte{2, 0, 0, 0, 0, 1},
			probes: [][]byte{{0xaa, 0xbb, 0xcc, 0xdd, 0xee, 0xff}, {0xaa, 0xbb, 0xcc, 0xdd, 0xee, 0x01}, {2, 0, 0, 0, 0, 1}, {6, 0, 0, 0, 0, 9}},
		}
	}
	many := func(n int) []string {
		l := make([]string, n)
		for i := range l {
			l[i] = fmt.Sprintf("10.9.%d.%d", i/200, 1+i%200)
		}
		return l
	}
	var out []struct {
		id string
		cc *cfgCase
	}
	add := func(id string, f func(c *cfgCase)) {
		c := base()
		f(c)
		out = append(out, struct {
			id string
			cc *cfgCase
		}{id, c})
	}
	add("baseline-valid", func(c *cfgCase) {
		c.conf.Client["aa:bb:cc:dd:ee:ff"] = &pb.ClientConfig{Ip: "192.168.1.10", Router: "192.168.1.254", Dns: []string{"9.9.9.9"}}
	})
	// F5a: an unparsable per-client value must make New fail
	add("F5a-client-ip-unparsable", func(c *cfgCase) {
		c.conf.Client["aa:bb:cc:dd:ee:ff"] = &pb.ClientConfig{Ip: "192.168.1.300"}
	})
	add("F5a-client-router-ipv6", func(c *cfgCase) {
		c.conf.Client["aa:bb:cc:dd:ee:ff"] = &pb.ClientConfig{Ip: "192.168.1.10", Router: "fd00::1"}
	})
	add("F5a-client-dns-unparsable", func(c *cfgCase) {
		c.conf.Client["aa:bb:cc:dd:ee:ff"] = &pb.ClientConfig{Dns: []string{"8.8.8.8", "nope"}}
	})
	add("F5a-client-ntp-unparsable", func(c *cfgCase) {
		c.conf.Client["aa:bb:cc:dd:ee:ff"] = &pb.ClientConfig{Ntp: []string{"10.0.0.256"}}
	})
	// F5b: one hardware address, several spellings
	add("F5b-two-spellings-router", func(c *cfgCase) {
		c.conf.Client["aa:bb:cc:dd:ee:ff"] = &pb.ClientConfig{Router: "192.168.1.1"}
		c.conf.Client["AA-BB-CC-DD-EE-FF"] = &pb.ClientConfig{Router: "192.168.1.254"}
	})
	add("F5b-two-spellings-one-static", func(c *cfgCase) { // exactly one of the two carries an address
		c.conf.Client["02:AA:BB:CC:DD:01"] = &pb.ClientConfig{Ip: "192.168.1.10"}
		c.conf.Client["02-aa-bb-cc-dd-01"] = &pb.ClientConfig{Dns: []string{"1.1.1.1"}}
	})
	add("F5b-two-spellings-one-static-b", func(c *cfgCase) {
		c.conf.Client["aabb.ccdd.ee01"] = &pb.ClientConfig{Router: "192.168.1.254"}
		c.conf.Client["aa:bb:cc:dd:ee:01"] = &pb.ClientConfig{Ip: "192.168.1.11", Hostname: "h"}
	})
	add("F5b-three-spellings-dns", func(c *cfgCase) {
		c.conf.Client["aa:bb:cc:dd:ee:ff"] = &pb.ClientConfig{Ip: "192.168.1.10"}
		c.conf.Client["AA-BB-CC-DD-EE-FF"] = &pb.ClientConfig{Dns: []string{"1.1.1.1"}}
		c.conf.Client["aabb.ccdd.eeff"] = &pb.ClientConfig{Dns: []string{"8.8.8.8"}}
	})
	// F5c: not representable in one option
	add("F5c-dns-64", func(c *cfgCase) { c.conf.Dns = many(64) })
	add("F5c-dns-63-ok", func(c *cfgCase) { c.conf.Dns = many(63) })
	add("F5c-ntp-70", func(c *cfgCase) { c.conf.Ntp = many(70) })
	add("F5c-domain-256", func(c *cfgCase) { c.conf.Domain = strings.Repeat("a", 256) })
	add("F5c-domain-255-ok", func(c *cfgCase) { c.conf.Domain = strings.Repeat("a", 255) })
	add("F5c-domain-300", func(c *cfgCase) { c.conf.Domain = strings.Repeat("d", 300) })
	add("F5c-domain-128x2-octets", func(c *cfgCase) { c.conf.Domain = strings.Repeat("\u00e9", 128) })
	add("F5c-domain-127x2+1-octets-ok", func(c *cfgCase) { c.conf.Domain = strings.Repeat("\u00e9", 127) + "x" })
	add("F5c-lease-200-years", func(c *cfgCase) { c.conf.LeaseDuration = "1753164h" })
	// networks of every unusual size, with and without a range
	for _, nb := range []struct {
		net string
		own net.IP
	}{{"192.168.1.2/31", net.IPv4(192, 168, 1, 2).To4()}, {"192.168.1.2/31", net.IPv4(192, 168, 1, 3).To4()}, {"192.168.1.2/32", net.IPv4(192, 168, 1, 2).To4()},
		{"192.168.1.0/30", net.IPv4(192, 168, 1, 2).To4()}, {"192.0.0.0/8", net.IPv4(192, 168, 1, 2).To4()}, {"128.0.0.0/1", net.IPv4(192, 168, 1, 2).To4()},
		{"0.0.0.0/0", net.IPv4(192, 168, 1, 2).To4()}} {
		nb := nb
		add("net-size-"+nb.net+"-own-"+nb.own.String(), func(c *cfgCase) {
			c.conf.Network, c.own, c.conf.Router, c.conf.Dns = nb.net, nb.own, "", nil
		})
		add("net-size-"+nb.net+"-own-"+nb.own.String()+"-range", func(c *cfgCase) {
			c.conf.Network, c.own, c.conf.Router, c.conf.Dns = nb.net, nb.own, "", nil
			c.conf.DynamicRange = "192.168.1.2-192.168.1.3"
		})
	}
	add("F5c-lease-2^32s", func(c *cfgCase) { c.conf.LeaseDuration = "1193046h28m16s" })
	add("F5c-lease-2^32-1s-ok", func(c *cfgCase) { c.conf.LeaseDuration = "1193046h28m15s" })
	add("F5c-client-dns-64", func(c *cfgCase) {
		c.conf.Client["aa:bb:cc:dd:ee:ff"] = &pb.ClientConfig{Dns: many(64)}
	})
	add("F5c-client-hostname-256", func(c *cfgCase) {
		c.conf.Client["aa:bb:cc:dd:ee:ff"] = &pb.ClientConfig{Hostname: strings.Repeat("h", 256)}
	})
	// the one-minute minimum of the property text
	add("lease-59s", func(c *cfgCase) { c.conf.LeaseDuration = "59s" })
	add("lease-59.999999999s", func(c *cfgCase) { c.conf.LeaseDuration = "59.999999999s" })
	add("lease-1m-ok", func(c *cfgCase) { c.conf.LeaseDuration = "1m" })
	// F5d: the per-client host name must be sent
	add("F5d-client-hostname", func(c *cfgCase) {
		c.conf.Client["aa:bb:cc:dd:ee:ff"] = &pb.ClientConfig{Ip: "192.168.1.10", Hostname: "printer"}
	})
	// F5e: whole seconds, not float64 rounding
	add("F5e-lease-fraction-rounds-up", func(c *cfgCase) { c.conf.LeaseDuration = "16777216.999999999s" })
	add("F5e-lease-fraction-wraps-to-0", func(c *cfgCase) { c.conf.LeaseDuration = "1193046h28m15.999999999s" })
	return out
}

// ---- tests ----

func emitC18(c *caseWriter, cc *cfgCase, kind string) {
	abs := cc.abstract()
	var flats []interface{}
	seen := map[string]bool{}
	for i := 0; i < 8; i++ {
		o := cc.construct()
		fl := o.flat()
		flats = append(flats, fl)
		key := fmtList(fl)
		if seen[key] {
			continue
		}
		seen[key] = true
		k := kind
		if o.accepted {
			k += "/accepted"
		} else {
			k += "/rejected"
		}
		a := append(append([]interface{}{}, abs...), o.lists()...)
		if o.panicked {
			c.add(1801, k, true, a, resPanic())
			continue
		}
		c.addMulti("1801+1810", k, true, a, [][]interface{}{o.outs1801(), {L{1, 1, 1}}})
	}
	k := kind + "/same"
	if len(seen) > 1 {
		k = kind + "/ORDER-DEPENDENT"
	}
	c.add(1811, k, true, append(append([]interface{}{}, abs...), flats...), args(L{1}))
}

func TestC18(t *testing.T) {
	c := newCaseWriter(t, "c18")
	defer c.close(t, "c18")
	for _, d := range directedCfgCases() {
		emitC18(c, d.cc, "directed:"+d.id)
	}
	r := newRand(18)
	n := scale(500, 20000)
	for i := 0; i < n; i++ {
		cc, kind := genCfgCase(r, i%3)
		emitC18(c, cc, kind)
	}
}

func dhcpPayload(pkt []byte) []byte {
	if len(pkt) < 28 {
		return nil
	}
	return pkt[28:]
}

// optsEqual: two option lists carry the same codes and payloads.
func optsEqual(a, b []dhcpmsg.DHCPOpt) bool {
	if len(a) != len(b) {
		return false
	}
	for i := range a {
		if a[i].Option != b[i].Option || !bytes.Equal(a[i].Data, b[i].Data) {
			return false
		}
	}
	return true
}

var c07vl = &violationLog{}

func emitC07(c *caseWriter, cc *cfgCase, kind string, r *rand.Rand) {
	all := cc.probes
	// one server asked about all the clients, the answers kept: what a client is told must not depend on who else was asked
	// before, after or at the same time (compared below with a fresh server asked about that client only)
	shared := cc.construct()
	var conc [][]dhcpmsg.DHCPOpt
	if shared.accepted && !shared.panicked {
		conc = make([][]dhcpmsg.DHCPOpt, len(all)*8)
		var wg sync.WaitGroup
		for i := range conc {
			wg.Add(1)
			go func(i int) {
				defer wg.Done()
				defer func() { recover() }()
				conc[i] = shared.srv.VerifDhcpOptions(net.HardwareAddr(all[i%len(all)]))
			}(i)
		}
		wg.Wait()
	}
	for pi, p := range all {
		cc.probes = [][]byte{p}
		abs := cc.abstract()
		o := cc.construct()
		switch {
		case o.panicked:
			c.add(1802, kind+"/panic", true, abs, resPanic())
		case !o.accepted:
			c.add(1802, kind+"/rejected", false, abs, resErr())
			cc.probes = all
			return // the same for every probe
		default:
			os := o.opts[0]
			atomic.AddInt64(&c07vl.n, 1)
			if shared.accepted && pi < len(shared.opts) && !optsEqual(shared.opts[pi], os) {
				c07vl.add("options-depend-on-other-clients", "%s: options for %x from a server asked about %d clients in turn differ from those of a fresh server: %v vs %v", kind, p, len(all), shared.opts[pi], os)
			}
			for i := pi; i < len(conc); i += len(all) {
				if conc[i] != nil && !optsEqual(conc[i], os) {
					c07vl.add("options-depend-on-concurrent-calls", "%s: options for %x computed while other clients were being served differ: %v vs %v", kind, p, conc[i], os)
				}
			}
			self := o.srv.VerifSelfIP()
			xid, flags, your := r.Uint32(), uint16(r.Intn(2))<<15, ip4(r.Uint32())
			var offer, ack []byte
			if safely(func() {
				offer = dhcpPayload(replies.AssembleOffer(xid, flags, self, your, net.HardwareAddr(p), os))
				ack = dhcpPayload(replies.AssembleACK(xid, flags, self, your, net.HardwareAddr(p), os))
			}) {
				c.add(1802, kind+"/assemble-panic", true, abs, resPanic())
				continue
			}
			a := append(append([]interface{}{}, abs...), encOptList(os)...)
			a = append(a, B(offer), B(ack))
			c.addMulti("1802+1820", kind+"/accepted", true, a, [][]interface{}{append([]interface{}{L{0}}, encOptList(os)...), {L{1}}})
		}
	}
	cc.probes = all
}

func TestC07(t *testing.T) {
	c := newCaseWriter(t, "c07")
	defer c.close(t, "c07")
	r := newRand(7)
	for _, d := range directedCfgCases() {
		emitC07(c, d.cc, "directed:"+d.id, r)
	}
	n := scale(300, 5000)
	for i := 0; i < n; i++ {
		mode := 0
		if i%4 == 3 {
			mode = 1
		}
		cc, kind := genCfgCase(r, mode)
		emitC07(c, cc, kind, r)
	}
	c07vl.write(t, "c07shared", map[string]interface{}{"distinct_nontrivial": int(atomic.LoadInt64(&c07vl.n)), "histogram": map[string]int{"probe:shared-vs-fresh": int(atomic.LoadInt64(&c07vl.n))},
		"samples": []string{"option list of each probe client from one server asked about all clients in turn and concurrently (8 goroutines per client), against a fresh server asked about that client only"}})
}
