package harness

// C14: the client's receive filter.  The real verify functions and the real catchReply (through
// dclient.VerifCatchReply, frames injected into the in-memory socket inside a synctest bubble) are run on
// replies built with the harness's own encoder; the model (tags 1401-1403) must agree, and the
// specification's conjunction is evaluated on the same inputs as a monitor (tags 1410, 1411).

import (
	"context"
	"encoding/binary"
	"fmt"
	"math/rand"
	"net"
	"sync/atomic"
	"testing"
	"testing/synctest"
	"time"

	"git.sr.ht/~adrian-blx/psa-dhcp/lib/client/dclient"
	vy "git.sr.ht/~adrian-blx/psa-dhcp/lib/client/verify"
	"git.sr.ht/~adrian-blx/psa-dhcp/lib/dhcpmsg"
	"git.sr.ht/~adrian-blx/psa-dhcp/lib/rsocks"
)

type waitSpec struct {
	kind   int // 0 offer, 1 selecting ack, 2 renewing ack, 3 rebinding ack
	xid    uint32
	yi     uint32
	hasSid bool
	sid    uint32
	yi16   bool // remembered addresses in 16-byte form (as Decode produces them) or 4-byte form
}

func (w waitSpec) enc() L { return L{uint64(w.kind), uint64(w.xid), uint64(w.yi), b2n(w.hasSid), uint64(w.sid)} }

func ipForm(v uint32, sixteen bool) net.IP {
	if sixteen {
		return net.IPv4(byte(v>>24), byte(v>>16), byte(v>>8), byte(v))
	}
	return ip4(v)
}

func (w waitSpec) verifier() func(dhcpmsg.Message, dhcpmsg.DecodedOptions) vy.State {
	lm := dhcpmsg.Message{YourIP: ipForm(w.yi, w.yi16)}
	lo := dhcpmsg.DecodedOptions{}
	if w.hasSid {
		lo.ServerIdentifier = ipForm(w.sid, w.yi16)
	}
	switch w.kind {
	case 0:
		return vy.VerifyOffer(w.xid)
	case 1:
		return vy.VerifySelectingAck(lm, lo, w.xid)
	case 2:
		return vy.VerifyRenewingAck(lm, lo, w.xid)
	}
	return vy.VerifyRebindingAck(lm, lo, w.xid)
}

// the twelve conditions of the property; fail[i] = 0 means condition i holds, n > 0 selects a way of breaking it
const (
	cProto = iota
	cPort
	cDecodable
	cChaddr
	cXid
	cType
	cYiaddr
	cSid
	cRouters
	cLease
	cSidChosen
	cYiOffered
	nCond
)

var condNames = [nCond]string{"proto", "port", "decodable", "chaddr", "xid", "type", "yiaddr", "sid", "routers", "lease", "sid=chosen", "yiaddr=offered"}
var condFlavours = [nCond]int{3, 4, 9, 3, 2, 5, 2, 5, 4, 5, 1, 1}

func validAddr(r *rand.Rand) uint32 {
	for {
		v := r.Uint32()
		if r.Intn(2) == 0 {
			v = 0x0a000000 | uint32(r.Intn(1<<16))
		}
		if v != 0 && v != 0xffffffff {
			return v
		}
	}
}

func put32(v uint32) []byte { b := make([]byte, 4); binary.BigEndian.PutUint32(b, v); return b }

type replyOpts struct {
	decorate bool // harmless variations: padding, extra options, duplicates, option order, IP options, junk checksums
}

// replyMsg builds the DHCP part of a reply for wait w and hardware address own.
func replyMsg(r *rand.Rand, w waitSpec, own []byte, fail [nCond]int, ro replyOpts) wmsg {
	m := wmsg{op: 2, htype: 1, hlen: byte(len(own)), xid: w.xid, cookie: 0x63825363, chaddr: append([]byte{}, own...)}
	if ro.decorate {
		if r.Intn(4) == 0 {
			m.op = byte(r.Intn(3))
		}
		if r.Intn(6) == 0 {
			m.cookie = r.Uint32()
		}
		m.flags = uint16(r.Intn(2)) << 15
		m.siaddr, m.giaddr, m.ciaddr = r.Uint32()&uint32(-r.Intn(2)), 0, r.Uint32()&uint32(-r.Intn(2))
	}
	switch fail[cChaddr] {
	case 1:
		if len(own) > 0 {
			m.chaddr[r.Intn(len(own))] ^= byte(1 + r.Intn(255))
		} else {
			m.chaddr, m.hlen = []byte{byte(r.Intn(256))}, 1
		}
	case 2:
		if len(own) > 0 {
			m.hlen--
		} else {
			m.chaddr, m.hlen = []byte{0}, 1
		}
	case 3:
		if len(own) < 16 {
			m.chaddr, m.hlen = append(m.chaddr, 0), m.hlen+1
		} else {
			m.chaddr[15] ^= 0x80
		}
	}
	if fail[cXid] == 1 {
		m.xid ^= 1 << uint(r.Intn(32))
	} else if fail[cXid] == 2 {
		m.xid = w.xid + 1 + uint32(r.Intn(1000))
	}
	typ := byte(5)
	if w.kind == 0 {
		typ = 2
	}
	topt := &wopt{53, []byte{typ}}
	switch fail[cType] {
	case 1:
		topt.data = []byte{6}
	case 2:
		topt.data = []byte{7 - typ}
	case 3:
		topt.data = []byte{[]byte{0, 1, 3, 4, 7, 8, 255}[r.Intn(7)]}
	case 4:
		topt = nil
	case 5:
		topt.data = []byte{typ, typ}
	}
	m.yiaddr = w.yi
	if w.kind == 0 || fail[cYiOffered] != 0 {
		for m.yiaddr = validAddr(r); m.yiaddr == w.yi; m.yiaddr = validAddr(r) {
		}
	}
	if fail[cYiaddr] == 1 {
		m.yiaddr = 0
	} else if fail[cYiaddr] == 2 {
		m.yiaddr = 0xffffffff
	}
	sid := w.sid
	if w.kind == 0 || !w.hasSid || fail[cSidChosen] != 0 {
		for sid = validAddr(r); w.hasSid && sid == w.sid; sid = validAddr(r) {
		}
	}
	sopt := &wopt{54, put32(sid)}
	switch fail[cSid] {
	case 1:
		sopt.data = put32(0)
	case 2:
		sopt.data = put32(0xffffffff)
	case 3:
		sopt = nil
	case 4:
		sopt.data = sopt.data[:3]
	case 5:
		sopt.data = append(sopt.data, put32(validAddr(r))...)
	}
	ropt := &wopt{3, put32(validAddr(r))}
	if r.Intn(3) == 0 {
		ropt.data = append(ropt.data, put32(r.Uint32())...)
	}
	switch fail[cRouters] {
	case 1:
		ropt = nil
	case 2:
		ropt.data = nil
	case 3:
		ropt.data = ropt.data[:3]
	case 4:
		ropt.data = append(ropt.data[:4], 1)
	}
	lease := []uint32{60, 61, 3600, 86400, 0xffffffff, 60 + uint32(r.Intn(100000)), 4294967}[r.Intn(7)]
	lopt := &wopt{51, put32(lease)}
	switch fail[cLease] {
	case 1:
		lopt.data = put32(59)
	case 2:
		lopt.data = put32(0)
	case 3:
		lopt = nil
	case 4:
		lopt.data = []byte{0x0e, 0x10}
	case 5:
		lopt.data = put32(uint32(r.Intn(60)))
	}
	var core []wopt
	for _, o := range []*wopt{topt, sopt, lopt, {1, []byte{255, 255, 255, 0}}, ropt} {
		if o != nil {
			core = append(core, *o)
		}
	}
	if !ro.decorate {
		m.opts = core
		return m
	}
	if r.Intn(2) == 0 {
		r.Shuffle(len(core), func(i, j int) { core[i], core[j] = core[j], core[i] })
	}
	for _, o := range core {
		// an earlier option of the same code is overridden by the later one
		if r.Intn(6) == 0 {
			m.opts = append(m.opts, wopt{o.code, randBytes(r, []int{0, 1, 4, 4, 8}[r.Intn(5)])})
		}
		if r.Intn(4) == 0 {
			m.opts = append(m.opts, wopt{[]byte{6, 15, 58, 59, 28, 12, 42, 61, 100}[r.Intn(9)], randBytes(r, []int{1, 4, 4, 8, 12}[r.Intn(5)])})
		}
		m.opts = append(m.opts, o)
	}
	return m
}

// replyFrame wraps the message; fail[cProto], fail[cPort], fail[cDecodable] act here.
func replyFrame(r *rand.Rand, m wmsg, fail [nCond]int, ro replyOpts) []byte {
	proto := byte(17)
	if fail[cProto] != 0 {
		proto = []byte{6, 1, 0}[fail[cProto]-1]
	}
	dport := uint16(68)
	if fail[cPort] != 0 {
		dport = []uint16{67, 69, 0, 68 + 256}[fail[cPort]-1]
	}
	sport := uint16(67)
	src, dst := validAddr(r), uint32(0xffffffff)
	if ro.decorate {
		if r.Intn(4) == 0 {
			sport = uint16(r.Intn(65536))
		}
		if r.Intn(3) == 0 {
			dst = validAddr(r)
		}
	}
	switch fail[cDecodable] {
	case 1:
		m.noEnd = true
	case 2:
		m.hlen = byte(17 + r.Intn(239))
	case 8:
		m.opts = append(m.opts, wopt{code: 43})
		m.noEnd = true
	}
	d := m.bytes()
	switch fail[cDecodable] {
	case 3:
		d = d[:r.Intn(240)]
	case 8:
		d[len(d)-1] = byte(1 + r.Intn(255)) // length byte pointing past the end
	}
	if ro.decorate && fail[cDecodable] == 0 && r.Intn(3) == 0 {
		d = append(d, randBytes(r, r.Intn(12))...) // bytes after the end option
	}
	p := udpip(src, dst, sport, dport, proto, 64, d)
	if ro.decorate && r.Intn(5) == 0 { // IPv4 header with options: ihl = 24..32
		n := 4 * (1 + r.Intn(3))
		q := append(append(append([]byte{}, p[:20]...), randBytes(r, n)...), p[20:]...)
		q[0] = 0x40 | byte((20+n)/4)
		binary.BigEndian.PutUint16(q[2:], uint16(len(q)))
		p = q
	}
	if ro.decorate && r.Intn(5) == 0 { // checksums are not this filter's business
		p[10], p[11] = byte(r.Intn(256)), byte(r.Intn(256))
		ihl := int(p[0]&0xf) * 4
		p[ihl+6], p[ihl+7] = byte(r.Intn(256)), byte(r.Intn(256))
	}
	ihl := int(p[0]&0xf) * 4
	switch fail[cDecodable] {
	case 4:
		binary.BigEndian.PutUint16(p[2:], uint16(len(p)+[]int{-1, 1, 256}[r.Intn(3)]))
	case 5:
		binary.BigEndian.PutUint16(p[ihl+4:], uint16(len(p)-ihl+[]int{-1, 1, 256}[r.Intn(3)]))
	case 6:
		p[0] = byte([]int{5, 6, 0, 15}[r.Intn(4)])<<4 | p[0]&0xf
	case 7:
		p[0] = 0x40 | byte(r.Intn(5))
	case 9:
		p = append(p, byte(r.Intn(256)))
	}
	return p
}

type catchResult struct {
	code int // 0 ignore (loop still running when the input ended), 1 accept, 2 nack, 3 panic
	m    dhcpmsg.Message
	o    dhcpmsg.DecodedOptions
}

func encDecoded(d dhcpmsg.DecodedOptions) []interface{} {
	sec := func(x time.Duration) uint64 { return uint64(x / time.Second) }
	return args(
		L{uint64(d.MessageType), uint64(d.MaxMessageSize), uint64(d.InterfaceMTU), sec(d.IPAddressLeaseDuration), sec(d.RenewalDuration), sec(d.RebindDuration)},
		optIP(d.RequestedIP), optIP(d.ServerIdentifier), optIP(d.BroadcastAddress), B(d.SubnetMask),
		ipsL(d.Routers), ipsL(d.DNS), B([]byte(d.DomainName)), B(d.ClientIdentifier), B([]byte(d.Message)), B(d.ParametersList))
}

func (c catchResult) enc() []interface{} {
	if c.code == 0 || c.code == 3 {
		return args(L{uint64(c.code)})
	}
	out := append(args(L{uint64(c.code)}), encDecoded(c.o)...)
	return append(out, encMsg(&c.m)...)
}

var c14IfSeq int64

// runCatch runs the real catchReply against the frames, injected one at a time; it returns the index of the frame
// that ended the loop (len(frames) if none did).  Must be called inside a synctest bubble.
func runCatch(own []byte, w waitSpec, frames [][]byte) (int, catchResult) {
	name := fmt.Sprintf("c14if%d", atomic.AddInt64(&c14IfSeq, 1))
	iface := &net.Interface{Index: 1, Name: name, HardwareAddr: net.HardwareAddr(own), MTU: 1500}
	seg := rsocks.VerifSegment(name)
	defer rsocks.VerifDropSegment(name)
	ctx, cancel := context.WithCancel(context.Background())
	defer cancel()
	done := make(chan catchResult, 1)
	go func() {
		defer func() {
			if x := recover(); x != nil {
				done <- catchResult{code: 3}
			}
		}()
		m, o, code := dclient.VerifCatchReply(ctx, iface, w.verifier())
		done <- catchResult{code: code, m: m, o: o}
	}()
	synctest.Wait()
	for i, f := range frames {
		seg.Inject(rsocks.KindIP, f)
		synctest.Wait()
		select {
		case res := <-done:
			synctest.Wait()
			return i, res
		default:
		}
	}
	cancel()
	res := <-done
	synctest.Wait()
	if res.code != 3 {
		res.code = 0
	}
	return len(frames), res
}

func emitCatch(c *caseWriter, kind string, own []byte, w waitSpec, frame []byte) int {
	_, res := runCatch(own, w, [][]byte{frame})
	acc, nack := L{b2n(res.code == 1)}, L{b2n(res.code == 2)}
	if res.code == 3 { // a panic of the filter violates the property: make both monitors fail
		acc, nack = L{9}, L{9}
	}
	c.addMulti("1402+1410+1411", kind, true, args(w.enc(), B(own), B(frame)), [][]interface{}{res.enc(), args(acc), args(nack)})
	return res.code
}

func randWait(r *rand.Rand, kind int) waitSpec {
	w := waitSpec{kind: kind, xid: r.Uint32(), yi: validAddr(r), hasSid: true, sid: validAddr(r), yi16: r.Intn(2) == 0}
	return w
}

func randOwn(r *rand.Rand) []byte {
	n := 6
	if r.Intn(6) == 0 {
		n = r.Intn(17)
	}
	return randBytes(r, n)
}

func failName(fail [nCond]int) string {
	s := ""
	for i, f := range fail {
		if f != 0 {
			if s != "" {
				s += ","
			}
			s += condNames[i]
		}
	}
	if s == "" {
		return "valid"
	}
	return "fail:" + s
}

var kindNames = []string{"offer", "selecting", "renewing", "rebinding"}

func emitVerify(c *caseWriter, kind string, w waitSpec, m wmsg, yi16 bool) {
	var os []dhcpmsg.DHCPOpt
	var enc []interface{}
	for _, o := range m.opts {
		os = append(os, dhcpmsg.DHCPOpt{Option: o.code, Data: append([]byte{}, o.data...)})
		enc = append(enc, L{uint64(o.code)}, B(o.data))
	}
	msg := dhcpmsg.Message{Op: m.op, Xid: m.xid, YourIP: ipForm(m.yiaddr, yi16)}
	var st vy.State
	a := append(args(w.enc(), L{uint64(m.xid), uint64(m.yiaddr)}), enc...)
	if safely(func() { st = w.verifier()(msg, dhcpmsg.DecodeOptions(os)) }) {
		c.add(1401, kind, true, a, args(L{9}))
		return
	}
	c.add(1401, kind, true, a, args(L{uint64(st)}))
}

func TestC14(t *testing.T) {
	c := newCaseWriter(t, "c14")
	defer c.close(t, "c14")
	r := newRand(14)
	verdicts := map[string]int{}

	synctest.Test(t, func(t *testing.T) {
		// (a) for each wait kind: the valid reply, every way of breaking one condition, every pair of conditions
		for kind := 0; kind < 4; kind++ {
			var sets [][nCond]int
			sets = append(sets, [nCond]int{})
			for i := 0; i < nCond; i++ {
				for f := 1; f <= condFlavours[i]; f++ {
					var s [nCond]int
					s[i] = f
					sets = append(sets, s)
				}
				for j := i + 1; j < nCond; j++ {
					var s [nCond]int
					s[i], s[j] = 1+r.Intn(condFlavours[i]), 1+r.Intn(condFlavours[j])
					sets = append(sets, s)
				}
			}
			// a NAK combined with each other broken condition: only protocol, port, decodability and chaddr matter for it
			for i := 0; i < nCond; i++ {
				if i != cType {
					for f := 1; f <= condFlavours[i]; f++ {
						var s [nCond]int
						s[cType], s[i] = 1, f
						sets = append(sets, s)
					}
				}
			}
			for _, fail := range sets {
				w, own := randWait(r, kind), randBytes(r, 6)
				m := replyMsg(r, w, own, fail, replyOpts{})
				code := emitCatch(c, kindNames[kind]+"/"+failName(fail), own, w, replyFrame(r, m, fail, replyOpts{}))
				verdicts[fmt.Sprintf("%s:%d", kindNames[kind], code)]++
			}
		}
		// (b) random structured replies: each condition broken with probability 1/10, harmless variations switched on
		for i := 0; i < scale(1200, 30000); i++ {
			w, own := randWait(r, r.Intn(4)), randOwn(r)
			if r.Intn(12) == 0 {
				w.hasSid = false
			}
			var fail [nCond]int
			nf := 0
			for j := range fail {
				if r.Intn(10) == 0 {
					fail[j] = 1 + r.Intn(condFlavours[j])
					nf++
				}
			}
			m := replyMsg(r, w, own, fail, replyOpts{decorate: true})
			code := emitCatch(c, fmt.Sprintf("random/%s/%d-broken", kindNames[w.kind], nf), own, w, replyFrame(r, m, fail, replyOpts{decorate: true}))
			verdicts[fmt.Sprintf("%s:%d", kindNames[w.kind], code)]++
		}
		// (c) malformed stream: truncation of a valid reply at every offset, random bytes, random corruption
		{
			w, own := randWait(r, 2), randBytes(r, 6)
			p := replyFrame(r, replyMsg(r, w, own, [nCond]int{}, replyOpts{}), [nCond]int{}, replyOpts{})
			for n := 0; n <= len(p); n++ {
				emitCatch(c, "malformed/truncated", own, w, p[:n])
			}
			for n := 0; n < len(p); n += 1 + r.Intn(3) { // truncated with consistent length fields
				if n < 28 {
					continue
				}
				q := append([]byte{}, p[:n]...)
				binary.BigEndian.PutUint16(q[2:], uint16(n))
				binary.BigEndian.PutUint16(q[24:], uint16(n-20))
				emitCatch(c, "malformed/truncated-consistent", own, w, q)
			}
			for i := 0; i < scale(300, 5000); i++ {
				q := append([]byte{}, p...)
				for k := 0; k <= r.Intn(3); k++ {
					q[r.Intn(len(q))] = byte(r.Intn(256))
				}
				emitCatch(c, "malformed/corrupted", own, w, q)
			}
			for i := 0; i < scale(200, 3000); i++ {
				emitCatch(c, "malformed/random", own, w, randBytes(r, r.Intn(400)))
			}
		}
		// (d) the loop: several frames, the first one that is not ignored ends it
		for i := 0; i < scale(150, 3000); i++ {
			w, own := randWait(r, r.Intn(4)), randBytes(r, 6)
			var frames [][]byte
			var as []interface{}
			n := 1 + r.Intn(6)
			for k := 0; k < n; k++ {
				var fail [nCond]int
				if r.Intn(3) != 0 {
					j := r.Intn(nCond)
					fail[j] = 1 + r.Intn(condFlavours[j])
				}
				f := replyFrame(r, replyMsg(r, w, own, fail, replyOpts{decorate: true}), fail, replyOpts{decorate: true})
				frames = append(frames, f)
				as = append(as, B(f))
			}
			idx, res := runCatch(own, w, frames)
			c.add(1403, fmt.Sprintf("loop/%s/ended-by-%d", kindNames[w.kind], res.code), true, append(args(w.enc(), B(own)), as...),
				append(args(L{uint64(idx)}), res.enc()...))
		}
	})

	// (e) the verify functions called directly: every subset of the nine message-level conditions, for each kind
	msgConds := []int{cXid, cType, cYiaddr, cSid, cRouters, cLease, cSidChosen, cYiOffered}
	for kind := 0; kind < 4; kind++ {
		for mask := 0; mask < 1<<len(msgConds); mask++ {
			var fail [nCond]int
			for b, ci := range msgConds {
				if mask>>b&1 == 1 {
					fail[ci] = 1 + r.Intn(condFlavours[ci])
				}
			}
			w := randWait(r, kind)
			emitVerify(c, "verify/"+kindNames[kind], w, replyMsg(r, w, nil, fail, replyOpts{}), r.Intn(2) == 0)
		}
	}
	for i := 0; i < scale(1500, 30000); i++ {
		w := randWait(r, r.Intn(4))
		if r.Intn(10) == 0 {
			w.hasSid = false
		}
		var fail [nCond]int
		for _, ci := range msgConds {
			if r.Intn(8) == 0 {
				fail[ci] = 1 + r.Intn(condFlavours[ci])
			}
		}
		emitVerify(c, "verify/random", w, replyMsg(r, w, nil, fail, replyOpts{decorate: true}), r.Intn(2) == 0)
	}

	// the generators must reach all three verdicts in every wait kind that has them
	for _, k := range []string{"offer:0", "offer:1", "selecting:0", "selecting:1", "selecting:2", "renewing:0", "renewing:1", "renewing:2",
		"rebinding:0", "rebinding:1", "rebinding:2"} {
		if verdicts[k] == 0 {
			t.Errorf("generator never produced verdict %s", k)
		}
	}
}
