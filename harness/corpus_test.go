package harness

import (
	"bufio"
	"encoding/hex"
	"os"
	"path/filepath"
	"strconv"
	"strings"
	"testing"
)

// TestCorpus re-executes the minimised past failures kept under /verif/corpus/<id>/*.case
// (lines "tag|args|old outputs") on the current implementation.  Only the inputs are taken from
// the file; outputs are observed afresh.
func TestCorpus(t *testing.T) {
	corpusT = t
	id := os.Getenv("VERIF_PROP")
	dir := os.Getenv("VERIF_CORPUS")
	if dir == "" {
		dir = "/verif/corpus"
	}
	files, _ := filepath.Glob(filepath.Join(dir, id, "*.case"))
	c := newCaseWriter(t, "corpus")
	defer c.close(t, "corpus")
	for _, f := range files {
		fh, err := os.Open(f)
		if err != nil {
			continue
		}
		sc := bufio.NewScanner(fh)
		sc.Buffer(make([]byte, 1<<20), 1<<26)
		for sc.Scan() {
			parts := strings.Split(sc.Text(), "|")
			if len(parts) < 2 {
				continue
			}
			tag, _ := strconv.Atoi(parts[0])
			var a [][]byte
			for _, s := range strings.Split(parts[1], ";") {
				if strings.HasPrefix(s, "x") {
					b, _ := hex.DecodeString(s[1:])
					a = append(a, b)
				} else {
					a = append(a, nil)
				}
			}
			kind := "corpus:" + filepath.Base(f)
			switch tag {
			case 1201:
				emitDhcpDecode(c, kind, a[0])
			case 1302:
				emitDecodeIPv4(c, kind, a[0])
			case 1304:
				emitDecodeUDP(c, kind, a[0])
			case 1306:
				emitDecodeARP(c, kind, a[0])
			default:
				replayOther(c, kind, tag, parts[1])
			}
		}
		fh.Close()
	}
}
