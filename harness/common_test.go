package harness

import (
	"bufio"
	"encoding/hex"
	"encoding/json"
	"fmt"
	"math/rand"
	"os"
	"path/filepath"
	"sort"
	"strconv"
	"strings"
	"testing"
)

// ---- environment ----

func seed() int64 {
	if s := os.Getenv("VERIF_SEED"); s != "" {
		if v, err := strconv.ParseInt(s, 10, 64); err == nil {
			return v
		}
	}
	return 1
}

func thorough() bool { return os.Getenv("VERIF_TIER") == "thorough" }

func outDir(t *testing.T) string {
	d := os.Getenv("VERIF_OUT")
	if d == "" {
		d = t.TempDir()
	}
	os.MkdirAll(d, 0o755)
	return d
}

func corpusDir() string {
	if d := os.Getenv("VERIF_CORPUS"); d != "" {
		return d
	}
	return "/verif/corpus"
}

func scale(quick, thor int) int {
	if thorough() {
		return thor
	}
	return quick
}

func newRand(salt int64) *rand.Rand { return rand.New(rand.NewSource(seed()*1000003 + salt)) }

// ---- case files ----

type L = []uint64 // one number list

type caseWriter struct {
	f     *os.File
	w     *bufio.Writer
	n     int
	hist  map[string]int
	samp  []string
	dist  map[string]bool
	nontr int
}

func newCaseWriter(t *testing.T, name string) *caseWriter {
	f, err := os.Create(filepath.Join(outDir(t), name+".cases"))
	if err != nil {
		t.Fatal(err)
	}
	return &caseWriter{f: f, w: bufio.NewWriterSize(f, 1<<20), hist: map[string]int{}, dist: map[string]bool{}}
}

func bytesL(b []byte) L {
	l := make(L, len(b))
	for i, x := range b {
		l[i] = uint64(x)
	}
	return l
}

// B marks a list that is to be written as hex bytes.
type B []byte

func fmtList(x interface{}) string {
	switch v := x.(type) {
	case B:
		return "x" + hex.EncodeToString(v)
	case []byte:
		return "x" + hex.EncodeToString(v)
	case L:
		s := make([]string, len(v))
		for i, n := range v {
			s[i] = strconv.FormatUint(n, 10)
		}
		return strings.Join(s, ",")
	case nil:
		return ""
	}
	panic(fmt.Sprintf("fmtList: %T", x))
}

func fmtLists(xs []interface{}) string {
	s := make([]string, len(xs))
	for i, x := range xs {
		s[i] = fmtList(x)
	}
	return strings.Join(s, ";")
}

// add writes one case.  kind is a histogram label; nontrivial says whether the
// case reaches past the first guard of the function under test.
func (c *caseWriter) add(tag int, kind string, nontrivial bool, args []interface{}, outs []interface{}) {
	line := fmt.Sprintf("%d|%s|%s", tag, fmtLists(args), fmtLists(outs))
	c.w.WriteString(line)
	c.w.WriteByte('\n')
	c.n++
	c.hist[fmt.Sprintf("%d:%s", tag, kind)]++
	if !c.dist[line] {
		c.dist[line] = true
		if nontrivial {
			c.nontr++
		}
	}
	if len(c.samp) < 6 || (c.n%997 == 0 && len(c.samp) < 12) {
		if len(line) > 400 {
			line = line[:400] + "..."
		}
		c.samp = append(c.samp, line)
	}
}

// addMulti writes one case evaluated under several tags ("101+201"): outs[i] belongs to tag i.
func (c *caseWriter) addMulti(tags string, kind string, nontrivial bool, args []interface{}, outs [][]interface{}) {
	os := make([]string, len(outs))
	for i, o := range outs {
		os[i] = fmtLists(o)
	}
	line := fmt.Sprintf("%s|%s|%s", tags, fmtLists(args), strings.Join(os, "/"))
	c.w.WriteString(line)
	c.w.WriteByte('\n')
	c.n++
	c.hist[tags+":"+kind]++
	if !c.dist[line] {
		c.dist[line] = true
		if nontrivial {
			c.nontr++
		}
	}
	if len(c.samp) < 3 {
		if len(line) > 1500 {
			line = line[:1500] + "..."
		}
		c.samp = append(c.samp, line)
	}
}

func (c *caseWriter) close(t *testing.T, name string) {
	c.w.Flush()
	c.f.Close()
	keys := make([]string, 0, len(c.hist))
	for k := range c.hist {
		keys = append(keys, k)
	}
	sort.Strings(keys)
	meta := map[string]interface{}{
		"cases": c.n, "distinct": len(c.dist), "distinct_nontrivial": c.nontr,
		"histogram": c.hist, "samples": c.samp, "seed": seed(),
	}
	b, _ := json.MarshalIndent(meta, "", " ")
	os.WriteFile(filepath.Join(outDir(t), name+".meta.json"), b, 0o644)
}

func args(xs ...interface{}) []interface{} { return xs }

func resOK(outs ...interface{}) []interface{}  { return append([]interface{}{L{0}}, outs...) }
func resErr() []interface{}                     { return []interface{}{L{1}} }
func resPanic() []interface{}                   { return []interface{}{L{2}} }
func b2n(b bool) uint64 {
	if b {
		return 1
	}
	return 0
}

// safely runs f, reporting a panic.
func safely(f func()) (panicked bool) {
	defer func() {
		if r := recover(); r != nil {
			panicked = true
		}
	}()
	f()
	return
}

func randBytes(r *rand.Rand, n int) []byte {
	b := make([]byte, n)
	r.Read(b)
	return b
}
