package harness

import (
	"bytes"
	"runtime"
	"context"
	"os"
	"encoding/binary"
	"fmt"
	"log"
	"math/rand"
	"net"
	"sync"
	"sync/atomic"
	"testing"
	"testing/synctest"
	"time"

	"git.sr.ht/~adrian-blx/psa-dhcp/lib/client"
	"git.sr.ht/~adrian-blx/psa-dhcp/lib/dhcpmsg"
	"git.sr.ht/~adrian-blx/psa-dhcp/lib/client/dclient"
	"git.sr.ht/~adrian-blx/psa-dhcp/lib/ifmon"
	"git.sr.ht/~adrian-blx/psa-dhcp/lib/libif"
	"git.sr.ht/~adrian-blx/psa-dhcp/lib/rsocks"
)

// ---- a scripted world around the real client (lib/client.mclient -> dclient) on the virtual clock ----

type leaseInfo struct {
	yiaddr, sid  uint32
	mask         []byte // nil = option absent
	routers, dns []uint32
	domain       []byte
	mtu          uint16
	lease, t1, t2 uint32 // seconds; t1/t2 0 = absent
}

type cEvent struct {
	hdr                      L
	mask, routers, dns, dom interface{}
}

type cWorld struct {
	mu       sync.Mutex
	r        *rand.Rand
	r2       *rand.Rand // second stream (features added later)
	name     string
	iface    *net.Interface
	seg      *rsocks.Segment
	fake     *libif.Fake
	start    time.Time
	croute   bool
	srvIP    uint32
	srvMAC   []byte
	expectEth []byte // link-layer destination of the unicast renewal in progress
	events   []cEvent
	acts     []L
	curXid   uint32
	haveXid  bool
	renewOn  bool
	last     leaseInfo // what the server hands out in this session
	offered  bool
	nakStorm bool
	maxIter  int
	frames   map[uint32][]uint64 // xid -> transmission times (for the retransmission checks of C16)
	ended    map[uint32]uint64   // xid -> instant the exchange ended (decisive reply / cancel), if scripted
	stop     bool
	crashed  int32
	arpPending bool
	stopAt     uint64
	renewPre   time.Duration
	renewT0    uint64
	renewEnd   uint64 // a renewal whose end was arranged before its first transmission: that instant (0 = none)
	foreignAt  uint64 // an otherwise valid ACK from another server was injected into this selecting / renewing exchange at ...
	decisiveAt uint64 // ... and the reply the script arranged for it comes at (max = never)
	vl14       *violationLog
	vl16       *violationLog
	seedv      int64
}

func (w *cWorld) rel() uint64 { return uint64(time.Since(w.start)) }

func u32l(xs []uint32) L {
	l := L{}
	for _, x := range xs {
		l = append(l, uint64(x))
	}
	return l
}

func (w *cWorld) record(hdr L, li *leaseInfo) {
	ev := cEvent{hdr: hdr, mask: B(nil), routers: L{}, dns: L{}, dom: B(nil)}
	if li != nil {
		ev.mask, ev.routers, ev.dns, ev.dom = B(li.mask), u32l(li.routers), u32l(li.dns), B(li.domain)
	}
	if w.stop {
		return
	}
	w.events = append(w.events, ev)
	k := hdr[0]
	quiet := k == 1 || k == 2 || k == 4 || (k == 3 && hdr[2] == 0) // nothing else happens at this instant after these
	if len(w.events) >= w.maxIter && quiet {
		w.stop = true
		w.stopAt = w.rel()
	}
}

// past reports whether the script has run out and the clock has moved on: nothing is recorded any more.
func (w *cWorld) past() bool { return w.stop && w.rel() > w.stopAt }

// limiterTrips: will the client's rate limiter (rate.NewLimiter(1, 10): 10 s of credit, one second back per second, one second per
// Run-loop iteration) refuse the iteration that ends now?  Every recorded event is one iteration, which ends when the next one
// begins; the current one ends now.  Then the client pauses for 20 s and exits, and a link-up during that pause would be a
// stimulus the record has no place for (it belongs to no blocking operation): the script leaves such a client alone.
func (w *cWorld) limiterTrips(now uint64) bool {
	trips, _ := w.limiter(now)
	return trips
}

// limiter also reports how close the credit came to the threshold of one second at any iteration.  The real limiter keeps its
// credit in float64 seconds; where this whole-nanosecond count says "exactly one second left" the sum of the same increments in
// float64 can fall a hair short, and the client then stops one iteration earlier than the model says (seen once in 55 000
// scripts of a thorough run).  Such a script says nothing about the property and is not compared.
func (w *cWorld) limiter(now uint64) (bool, int64) {
	const sec = int64(time.Second)
	margin := 100 * sec
	tok, last := 10*sec, int64(0)
	begin := func(h L) int64 {
		switch h[0] {
		case 1:
			return int64(h[12])
		case 2, 4:
			return int64(h[4])
		case 3:
			return int64(h[5])
		}
		return int64(h[2])
	}
	var ends []int64
	for i, ev := range w.events {
		if i > 0 {
			ends = append(ends, begin(ev.hdr))
		}
	}
	ends = append(ends, int64(now))
	for _, t := range ends {
		if t > last {
			tok = min(10*sec, tok+(t-last))
			last = t
		}
		if d := tok - sec; d > -margin && d < margin {
			margin = max(d, -d)
		}
		if tok < sec {
			return true, margin
		}
		tok -= sec
	}
	return false, margin
}

func ms(n int) time.Duration { return time.Duration(n) * time.Millisecond }

// newLease draws what the server offers in a session.
func (w *cWorld) newLease() {
	r := w.r
	li := leaseInfo{sid: w.srvIP, routers: []uint32{w.srvIP}}
	li.yiaddr = []uint32{0x0a000064, 0xac100005, 0xc0a80142, 0xe0000005, 0x7f000009}[r.Intn(5)] // classes A, B, C, D, A
	switch r.Intn(5) {
	case 0: // none -> class default
	case 1:
		li.mask = []byte{255, 255, 255, 0}
	case 2:
		li.mask = []byte{255, 255, 240, 0}
	case 3:
		li.mask = []byte{255, 0, 255, 0} // not contiguous -> class default
	case 4:
		li.mask = []byte{0, 0, 0, 0} // /0 has zero bits -> class default
	}
	if r.Intn(2) == 0 {
		li.routers = append(li.routers, w.srvIP+1)
	}
	for i := 0; i < r.Intn(3); i++ {
		li.dns = append(li.dns, 0x08080800+uint32(i))
	}
	if r.Intn(2) == 0 {
		li.domain = []byte("example.org")
	}
	if r.Intn(2) == 0 {
		li.mtu = uint16(576 + r.Intn(1000))
	}
	// values at the edges (drawn from the second stream so that the scripts of older seeds keep their shape)
	if r2 := w.r2; r2 != nil && r2.Intn(3) == 0 {
		switch r2.Intn(7) {
		case 0:
			li.mtu = []uint16{1, 68, 575, 576, 1500, 9000, 65535}[r2.Intn(7)]
		case 1:
			for i := 0; i < 2+r2.Intn(6); i++ {
				li.routers = append(li.routers, w.srvIP+10+uint32(i))
			}
		case 2:
			for i := 0; i < 3+r2.Intn(12); i++ {
				li.dns = append(li.dns, 0x09090900+uint32(i))
			}
		case 3:
			li.mask = [][]byte{{255, 255, 255, 255}, {255, 255, 255, 254}, {255, 255, 255, 252}, {128, 0, 0, 0}, {255, 255, 255}, {255, 255, 255, 0, 0}}[r2.Intn(6)]
		case 4: // the address is the first or the last of its (class-default or given) subnet; or the server names itself
			// (... or an address whose two halves add up beyond 16 bits: a carry in the pseudo-header sum of every renewal sent from it)
			li.yiaddr = []uint32{0x0a000000, 0x0affffff, 0xc0a80100, 0xc0a801ff, w.srvIP, 0xc0a86407, 0xcb00714d, 0xac10c809, 0xfffefffe}[r2.Intn(9)]
		case 5:
			li.domain = [][]byte{[]byte("example.org."), []byte("example.org\x00"), []byte("."), []byte("a..b"), {0}, []byte("xn--bcher-kva.example")}[r2.Intn(6)]
		case 6:
			li.lease = []uint32{60, 61, 62, 63, 64}[r2.Intn(5)]
			li.t1, li.t2 = 0, 0
		}
	}
	li.lease = []uint32{60, 61, 120, 600, 3600, 86400}[r.Intn(6)]
	switch r.Intn(5) { // T1/T2: absent, consistent, inconsistent in several ways
	case 1:
		li.t1 = li.lease/3 + 61
		li.t2 = li.t1 + 3 + uint32(r.Intn(10)) // windows of at least 3 s: scripted replies (< 2.6 s) always make it
		if li.t2+3 >= li.lease {
			li.t1, li.t2 = 0, 0
		}
	case 2:
		li.t1, li.t2 = 60, li.lease-1 // T1 not above one minute
	case 3:
		li.t1, li.t2 = li.lease/2, li.lease/2 // not increasing
	case 4:
		li.t1, li.t2 = 61, li.lease // T2 not below the lease
	}
	w.last = li
}

func (w *cWorld) reply(typ byte, xid uint32, li leaseInfo) []byte {
	o := []wopt{{53, []byte{typ}}, {54, u32b(li.sid)}}
	if typ != 6 {
		o = append(o, wopt{51, u32b(li.lease)})
		if li.mask != nil {
			o = append(o, wopt{1, li.mask})
		}
		rb := []byte{}
		for _, x := range li.routers {
			rb = append(rb, u32b(x)...)
		}
		o = append(o, wopt{3, rb})
		if len(li.dns) > 0 {
			db := []byte{}
			for _, x := range li.dns {
				db = append(db, u32b(x)...)
			}
			o = append(o, wopt{6, db})
		}
		if li.domain != nil {
			o = append(o, wopt{15, li.domain})
		}
		if li.mtu != 0 {
			o = append(o, wopt{26, []byte{byte(li.mtu >> 8), byte(li.mtu)}})
		}
		if li.t1 != 0 {
			o = append(o, wopt{58, u32b(li.t1)}, wopt{59, u32b(li.t2)})
		}
	}
	m := wmsg{op: 2, htype: 1, hlen: 6, xid: xid, yiaddr: li.yiaddr, chaddr: w.iface.HardwareAddr, cookie: 0x63825363, opts: o}
	if typ == 6 {
		m.yiaddr = 0
	}
	return udpip(li.sid, 0xffffffff, 67, 68, 17, 64, m.bytes())
}

func (w *cWorld) after(d time.Duration, f func()) { time.AfterFunc(d, f) }

// exchange decides and records the outcome of the exchange that just began (t0 = its start, pre = time to its first frame).
func (w *cWorld) exchange(kind int, xid uint32, haveXid bool, t0 uint64, pre time.Duration) {
	r := w.r
	el := time.Duration(w.rel() - t0) // time already spent in this exchange
	sched := func(dt time.Duration, f func()) {
		if dt < el {
			dt = el
		}
		w.after(dt-el, f)
	}
	outcome := r.Intn(12)
	if w.nakStorm && kind == 2 {
		outcome = 9
	}
	if kind == 1 && outcome >= 9 {
		outcome = 0 // a NAK means nothing while discovering; keep discovery short
	}
	li := w.last
	w.foreignAt, w.decisiveAt = 0, ^uint64(0)
	hdr := func(oc int, dt time.Duration) L {
		return L{1, 0, uint64(pre), uint64(oc), uint64(dt), uint64(li.yiaddr), uint64(li.sid), b2n(li.mask != nil), uint64(li.mtu),
			uint64(li.lease) * 1e9, uint64(li.t1) * 1e9, uint64(li.t2) * 1e9, t0, uint64(kind)}
	}
	junk := func() { // replies that must be ignored, before the decisive one
		if haveXid && r.Intn(2) == 0 {
			bad := li
			bad.lease = 59
			typ := byte(5)
			if kind == 1 {
				typ = 2
			}
			p1, p2 := w.reply(typ, xid, bad), w.reply(typ, xid+1, li)
			sched(pre+ms(1+r.Intn(40)), func() { w.seg.Inject(rsocks.KindIP, p1); w.seg.Inject(rsocks.KindIP, p2) })
		}
		// an otherwise perfect ACK from a server that was not chosen: means nothing while selecting or renewing (C14)
		if haveXid && (kind == 2 || kind == 3) && r.Intn(3) == 0 {
			other := li
			other.sid = w.srvIP + 7
			other.routers = []uint32{other.sid}
			p := w.reply(5, xid, other)
			at := pre + ms(1+r.Intn(40))
			if at < el {
				at = el
			}
			w.foreignAt = t0 + uint64(at)
			if w.vl14 != nil {
				atomic.AddInt64(&w.vl14.n, 1)
			}
			sched(at, func() { w.seg.Inject(rsocks.KindIP, p) })
		}
	}
	switch {
	case outcome <= 6 && haveXid: // accepted reply
		if kind == 1 {
			w.newLease()
			li = w.last
		}
		if kind == 4 && r.Intn(2) == 0 {
			li.sid = w.srvIP + 9 // while rebinding any server may answer
			li.routers = []uint32{li.sid}
			w.last = li
		}
		if (kind == 3 || kind == 4) && r.Intn(3) == 0 { // parameters may change on renewal
			li.lease = []uint32{60, 90, 300, 7200}[r.Intn(4)]
			li.t1, li.t2 = 0, 0
			li.dns = append(li.dns, 0x01010101)
			w.last = li
		}
		// an ACK may leave out what the OFFER or the previous ACK carried: what counts is the most recent ACK alone
		if r2 := w.r2; r2 != nil && kind != 1 && r2.Intn(3) == 0 {
			if r2.Intn(2) == 0 {
				li.mask = nil
			}
			if r2.Intn(2) == 0 {
				li.mtu = 0
			}
			if r2.Intn(2) == 0 {
				li.dns = nil
			}
			if r2.Intn(2) == 0 {
				li.domain = nil
			}
			w.last = li
		}
		dt := pre + ms(60+r.Intn(1500))
		junk()
		typ := byte(5)
		if kind == 1 {
			typ = 2
		}
		pkt := w.reply(typ, xid, li)
		h := hdr(0, dt)
		w.record(h, &li)
		w.decisiveAt = t0 + uint64(dt)
		w.ended[xid] = t0 + uint64(dt)
		sched(dt, func() { w.seg.Inject(rsocks.KindIP, pkt) })
		if r2 := w.r2; r2 != nil && kind != 1 && r2.Intn(3) == 0 {
			// after the accepted ACK: the same reply again, an OFFER - too late to matter
			// (not after an OFFER: the selecting REQUEST continues that transaction)
			// (no NAK here: the client takes a NAK for its hardware address whatever the transaction id, so one that arrives
			// when a link event has already started the next exchange would be that exchange's answer)
			var late []byte
			switch r2.Intn(2) {
			case 0:
				late = pkt
			case 1:
				late = w.reply(2, xid, li)
			}
			sched(dt+ms(1+r2.Intn(150)), func() { w.seg.Inject(rsocks.KindIP, late) })
		}
	case outcome <= 8: // nothing acceptable arrives: the exchange runs into its deadline
		junk()
		w.record(hdr(2, 0), nil)
	case outcome == 9: // NAK (possibly before the first transmission when renewing)
		dt := ms(10 + r.Intn(900))
		if kind != 3 && dt < ms(20) {
			dt = ms(20)
		}
		if dt <= el { // decided at the first transmission: the reply cannot arrive earlier than now
			dt = el + ms(7+r.Intn(300))
		}
		pkt := w.reply(6, xid, li)
		w.record(hdr(1, dt), nil)
		w.decisiveAt = t0 + uint64(dt)
		if haveXid {
			w.ended[xid] = t0 + uint64(dt)
		} else if kind == 3 {
			w.renewEnd = t0 + uint64(dt)
		}
		sched(dt, func() { w.seg.Inject(rsocks.KindIP, pkt) })
	default: // link-up during the exchange
		dt := ms(15 + r.Intn(3000))
		if dt <= el {
			dt = el + ms(7+r.Intn(300))
		}
		h := hdr(3, dt)
		h[1] = 1
		w.record(h, nil)
		w.decisiveAt = t0 + uint64(dt)
		if haveXid {
			w.ended[xid] = t0 + uint64(dt)
		} else if kind == 3 {
			w.renewEnd = t0 + uint64(dt)
		}
		sched(dt, func() { ifmon.VerifLinkUp(w.name) })
	}
}

func (w *cWorld) onSend(f rsocks.Frame) {
	w.mu.Lock()
	defer w.mu.Unlock()
	if w.past() {
		return
	}
	now := w.rel()
	if f.Kind == rsocks.KindARP && len(f.Payload) == 28 {
		sender := binary.BigEndian.Uint32(f.Payload[14:18])
		target := binary.BigEndian.Uint32(f.Payload[24:28])
		answer := func(mac []byte, d time.Duration) {
			reply := make([]byte, []int{28, 46, 46, 60}[w.r.Intn(4)]) // as on a real wire: padded to the Ethernet minimum, or not
			copy(reply, []byte{0, 1, 8, 0, 6, 4, 0, 2})
			copy(reply[8:14], mac)
			binary.BigEndian.PutUint32(reply[14:], target)
			if w.r.Intn(3) == 0 { // the owner defends its address with a packet in request form (gratuitous ARP)
				reply[7] = 1
				binary.BigEndian.PutUint32(reply[24:], target)
			}
			w.after(d, func() { w.seg.Inject(rsocks.KindARP, reply) })
		}
		if sender == 0 { // ARP check of the acknowledged address (one request per check)
			if w.foreignAt != 0 && now >= w.foreignAt && now < w.decisiveAt && w.vl14 != nil {
				w.vl14.add("foreign-server-ack-accepted", "the client went on to the ARP check at %d ns, after an ACK from a server it had not chosen (injected at %d ns) and before the reply arranged for the exchange (%d ns); seed %d", now, w.foreignAt, w.decisiveAt, w.seedv)
			}
			w.foreignAt = 0
			switch w.r.Intn(8) {
			case 0:
				d := ms(1 + w.r.Intn(190))
				w.record(L{2, 0, 2, uint64(d), now}, nil)
				answer([]byte{2, 0xcc, 0, 0, 0, 1}, d)
			case 1:
				d := ms(1 + w.r.Intn(190))
				w.record(L{2, 0, 1, uint64(d), now}, nil)
				answer(w.iface.HardwareAddr, d)
			case 2:
				d := ms(1 + w.r.Intn(190))
				w.record(L{2, 1, 3, uint64(d), now}, nil)
				w.after(d, func() { ifmon.VerifLinkUp(w.name) })
			default:
				w.record(L{2, 0, 0, 0, now}, nil)
			}
			return
		}
		// look-up of the server's hardware address before a unicast renewal
		if !w.renewOn {
			w.renewOn = true
			w.arpPending = true
			pre := time.Second // five unanswered look-ups of 200 ms
			// (the server's address may have moved to other hardware since the last renewal: what this look-up says counts)
			if w.r2 != nil && w.r2.Intn(3) == 0 {
				w.srvMAC = append([]byte{}, w.srvMAC...)
				w.srvMAC[5]++
			}
			w.expectEth = []byte{0xff, 0xff, 0xff, 0xff, 0xff, 0xff}
			if w.r.Intn(3) > 0 {
				pre = ms(1 + w.r.Intn(190))
				answer(w.srvMAC, pre)
				w.expectEth = w.srvMAC
			}
			w.renewPre, w.renewT0, w.renewEnd = pre, now, 0
			// a NAK or a link-up may arrive before the first transmission; otherwise decide at the first frame
			if w.r.Intn(5) == 0 {
				w.arpPending = false
				w.exchange(3, 0, false, now, pre)
			}
		}
		return
	}
	if f.Kind != rsocks.KindIP {
		return
	}
	rp := parseReply(f.Payload)
	if !rp.ok || rp.msg.op != 1 {
		return
	}
	xid := rp.msg.xid
	// link layer: broadcast datagrams to the broadcast address, a unicast renewal to the hardware address its look-up found
	// (to everybody if nobody answered the look-up)
	if w.vl16 != nil && len(f.EthDst) == 6 {
		want := []byte{0xff, 0xff, 0xff, 0xff, 0xff, 0xff}
		if rp.dst != 0xffffffff && w.expectEth != nil {
			want = w.expectEth
		}
		if !bytes.Equal(f.EthDst, want) {
			w.vl16.add("eth-dst", "message type %d to %s framed for %s; expected %s (seed %d, %d ns)", rp.typ, ip4(rp.dst), f.EthDst, net.HardwareAddr(want), w.seedv, now)
		}
	}
	w.frames[xid] = append(w.frames[xid], now)
	if w.haveXid && xid == w.curXid {
		return // retransmission
	}
	w.curXid, w.haveXid = xid, true
	kind := 0
	hasSid, hasReq := false, false
	for _, o := range rp.msg.opts {
		if o.code == 54 {
			hasSid = true
		}
		if o.code == 50 {
			hasReq = true
		}
	}
	switch {
	case rp.typ == 1:
		kind = 1
	case rp.typ == 3 && hasSid && hasReq:
		kind = 2
	case rp.typ == 3 && rp.dst != 0xffffffff:
		kind = 3
	case rp.typ == 3:
		kind = 4
	}
	if kind != 3 && w.arpPending { // a renewal ran into its deadline before its first transmission
		w.arpPending = false
		li := w.last
		w.record(L{1, 0, uint64(w.renewPre), 2, 0, uint64(li.yiaddr), uint64(li.sid), b2n(li.mask != nil), uint64(li.mtu), uint64(li.lease) * 1e9, uint64(li.t1) * 1e9, uint64(li.t2) * 1e9, w.renewT0, 3}, nil)
	}
	w.acts = append(w.acts, L{4, now, uint64(kind)})
	if kind == 3 && w.renewEnd != 0 && (now > w.renewEnd || (now == w.renewEnd && now < w.renewT0+uint64(w.renewPre))) && w.vl16 != nil {
		// (a transmission at the very instant of the end, but before the look-up of the server could have finished, was set off by the end itself)
		w.vl16.add("tx-after-end", "renewing REQUEST xid %08x transmitted at %d ns although the exchange had ended at %d ns, before its first transmission was due (seed %d)", xid, now, w.renewEnd, w.seedv)
	}
	if kind == 3 {
		if w.arpPending {
			w.arpPending = false
			w.exchange(3, xid, true, w.renewT0, w.renewPre)
		}
		return
	}
	w.renewOn = false
	w.exchange(kind, xid, true, now, 0)
}

func (w *cWorld) onIfcall(op string, n int, c *libif.Ifconfig) error {
	w.mu.Lock()
	defer w.mu.Unlock()
	if w.past() {
		return nil
	}
	now := w.rel()
	switch op {
	case "unconfigure":
		w.acts = append(w.acts, L{1, now})
		w.renewOn = false
	case "up":
		w.acts = append(w.acts, L{2, now})
		w.record(L{5, 0, now}, nil)
	case "setiface":
		w.renewOn = false
		ok := w.r.Intn(6) != 0
		a := L{3, now, b2n(ok), ipU32(c.IP), b2n(c.Router != nil), ipU32(c.Router), uint64(c.MTU), uint64(c.LeaseDuration), uint64(len(c.Netmask))}
		a = append(a, bytesL(c.Netmask)...)
		a = append(a, uint64(len(c.DNS)))
		for _, d := range c.DNS {
			a = append(a, ipU32(d))
		}
		a = append(a, uint64(len(c.DomainName)))
		a = append(a, bytesL([]byte(c.DomainName))...)
		w.acts = append(w.acts, a)
		if !ok {
			if w.r.Intn(2) == 0 { // link-up during the 30 s back-off
				d := ms(1000 + w.r.Intn(28000))
				w.record(L{3, 1, 0, 1, uint64(d), now}, nil)
				w.after(d, func() { ifmon.VerifLinkUp(w.name) })
			} else {
				w.record(L{3, 0, 0, 0, 0, now}, nil)
			}
			return fmt.Errorf("scripted SetIface failure")
		}
		if w.r2 != nil && w.r2.Intn(8) == 0 {
			// a link-up while the interface is being configured: the lease just configured is re-validated at once
			w.record(L{3, 1, 1, 0, 0, now}, nil)
			ifmon.VerifLinkUp(w.name)
			// let the link monitor act on it before SetIface returns (the client must find its context cancelled when it
			// comes back from configuring, not some statements later)
			for i := 0; i < 50; i++ {
				runtime.Gosched()
			}
			return nil
		}
		w.record(L{3, 0, 1, 0, 0, now}, nil)
		// bound: sleeping until T1, possibly woken by a link-up (drawn in any case, so that the scripts stay what they were)
		if wake := w.r.Intn(4) == 0; wake && w.limiterTrips(now) {
			w.r.Intn(24000)
			w.record(L{4, 0, 0, 0, now}, nil)
		} else if wake {
			d := ms(1000 + w.r.Intn(24000))
			w.record(L{4, 1, 1, uint64(d), now}, nil)
			w.after(d, func() { ifmon.VerifLinkUp(w.name) })
		} else {
			w.record(L{4, 0, 0, 0, now}, nil)
		}
	}
	return nil
}

var limiterBoundary int64 // scripts left out because the limiter's credit came within a microsecond of its threshold

func runClientScript(t *testing.T, c *caseWriter, vl *violationLog, seedv int64, vl14 ...*violationLog) {
	synctest.Test(t, func(t *testing.T) {
		r := rand.New(rand.NewSource(seedv))
		name := fmt.Sprintf("cif%d", atomic.AddInt64(&ifaceSeq, 1))
		w := &cWorld{r: r, name: name, croute: r.Intn(3) > 0, srvIP: 0x0a000001, srvMAC: []byte{2, 0xaa, 0, 0, 0, 1},
			frames: map[uint32][]uint64{}, ended: map[uint32]uint64{}, maxIter: 6 + r.Intn(40), nakStorm: r.Intn(12) == 0}
		w.vl16, w.seedv = vl, seedv
		if seedv%2 == 1 {
			w.r2 = rand.New(rand.NewSource(seedv ^ 0x5eed5eed))
		}
		if len(vl14) > 0 {
			w.vl14 = vl14[0]
		}
		w.iface = &net.Interface{Index: 1, Name: name, HardwareAddr: net.HardwareAddr{2, 0xbb, 0, 0, byte(r.Intn(256)), byte(r.Intn(256))}, MTU: 1500}
		w.seg = rsocks.VerifSegment(name)
		w.fake = libif.VerifFake(name)
		w.start = time.Now()
		w.seg.OnSend = w.onSend
		w.fake.Fail = w.onIfcall
		ctx, cancel := context.WithCancel(context.Background())
		mc := client.New(log.New(logSink{}, "", 0), w.iface, "", w.croute)
		done := make(chan bool)
		go func() {
			defer close(done)
			defer func() {
				if rec := recover(); rec != nil {
					w.mu.Lock()
					// an abort after the harness itself has ended the client's life is not part of the scripted life (before the
					// repair of F11 the rate limiter's 20 s pause did not watch the context and ended in a panic)
					if !w.past() {
						w.acts = append(w.acts, L{5, w.rel()})
						atomic.StoreInt32(&w.crashed, 1)
					}
					w.mu.Unlock()
				}
			}()
			mc.Run(ctx)
		}()
		// run until the script is exhausted (events are created lazily as the client enters its states), then let the
		// last operation finish and stop the client
		for i := 0; i < 400000; i++ {
			time.Sleep(250 * time.Millisecond)
			w.mu.Lock()
			st := w.stop || atomic.LoadInt32(&w.crashed) == 1
			w.mu.Unlock()
			if st {
				break
			}
		}
		// a script that outlives the observation (day-long leases): what was seen up to now is compared
		w.mu.Lock()
		if !w.stop && atomic.LoadInt32(&w.crashed) == 0 {
			w.stop = true
			w.stopAt = w.rel()
		}
		w.mu.Unlock()
		cancel()
		<-done
		synctest.Wait()
		rsocks.VerifDropSegment(name)
		libif.VerifDropFake(name)
		w.mu.Lock()
		defer w.mu.Unlock()
		// the model replays the recorded events; compare what was observable up to the moment the script ran out
		horizon := w.stopAt
		if atomic.LoadInt32(&w.crashed) == 1 {
			horizon = w.rel()
		}
		a := []interface{}{L{b2n(w.croute), horizon}}
		for _, e := range w.events {
			a = append(a, e.hdr, e.mask, e.routers, e.dns, e.dom)
		}
		var outs []interface{}
		for _, x := range w.acts {
			if x[1] <= horizon {
				outs = append(outs, x)
			}
		}
		if _, margin := w.limiter(horizon); margin < 1000 {
			atomic.AddInt64(&limiterBoundary, 1)
		} else {
			c.add(1501, "script", len(w.events) > 3, a, outs)
			// the property read off the two records directly (spec/MonitorC15.v): [croute; horizon; number of actions], actions, record with instants
			ma := []interface{}{L{b2n(w.croute), horizon, uint64(len(outs))}}
			ma = append(ma, outs...)
			ma = append(ma, a[1:]...)
			c.add(1510, "history", len(w.events) > 3, ma, []interface{}{L{1}})
			c.add(1511, "model-history", len(w.events) > 3, a, []interface{}{L{1}})
		}
		// C16 (timing): retransmissions of one exchange reuse the xid, are at least 700 ms apart with non-decreasing spacing,
		// and stop when the exchange has ended
		for xid, ts := range w.frames {
			atomic.AddInt64(&vl.n, 1)
			var prev uint64
			for i := 1; i < len(ts); i++ {
				gap := ts[i] - ts[i-1]
				if gap < 700e6 {
					vl.add("retx-gap", "xid %08x: retransmission after %d ns (< 700 ms) seed %d", xid, gap, seedv)
				}
				if gap < prev {
					vl.add("retx-shrinking", "xid %08x: spacing %d ns after %d ns seed %d", xid, gap, prev, seedv)
				}
				prev = gap
			}
			if end, ok := w.ended[xid]; ok {
				for _, x := range ts {
					if x > end {
						vl.add("retx-after-end", "xid %08x: transmission at %d ns after the exchange ended at %d ns (seed %d)", xid, x, end, seedv)
					}
				}
			}
		}
	})
}

func TestC15(t *testing.T) {
	c := newCaseWriter(t, "c15")
	defer c.close(t, "c15")
	vl, vl14 := &violationLog{}, &violationLog{}
	for i := 0; i < scale(250, 5000); i++ {
		runClientScript(t, c, vl, seed()*3000017+int64(i), vl14)
	}
	t.Logf("scripts not compared (limiter credit within 1 us of its threshold): %d", atomic.LoadInt64(&limiterBoundary))
	vl14.write(t, "c14wiring", map[string]interface{}{"distinct_nontrivial": int(atomic.LoadInt64(&vl14.n)), "histogram": map[string]int{"foreign-ack:exchanges": int(atomic.LoadInt64(&vl14.n))},
		"samples": []string{"selecting / renewing exchanges of the real client into which an otherwise valid ACK of another server was injected: the client must not proceed before the arranged reply"}})
	vl.write(t, "c16timing", map[string]interface{}{"distinct_nontrivial": int(atomic.LoadInt64(&vl.n)), "histogram": map[string]int{"retransmission:exchanges": int(atomic.LoadInt64(&vl.n))},
		"samples": []string{"per exchange (xid): transmission instants on the tap: gaps >= 700 ms, non-decreasing, nothing after the scripted end of the exchange"}})
}

func TestC15One(t *testing.T) {
	c := newCaseWriter(t, "c15one")
	defer c.close(t, "c15one")
	vl := &violationLog{}
	var s int64
	fmt.Sscan(os.Getenv("VERIF_ONE"), &s)
	runClientScript(t, c, vl, s)
}

// TestC15Deadlines: T1 / T2 / expiry as the real runStateBound computes them for a stored reply (hook VerifRunStateBound; the
// context is cancelled, so the sleep until T1 returns at once), against the model's deadlines (tag 1503) for leases from one
// minute to the infinite lease and absent / consistent / inconsistent server-supplied timers.
func TestC15Deadlines(t *testing.T) {
	c := newCaseWriter(t, "c15dl")
	defer c.close(t, "c15dl")
	vlm := &violationLog{}
	r := newRand(1503)
	leases := []uint32{60, 61, 62, 63, 119, 120, 600, 3599, 3600, 86400, 1 << 20, 1286742, 1286743, 1286744, 9007199, 9007200, 1 << 24, 31536000, 1 << 30,
		658812288, 658812289, 1317624576, 1317624577, 1 << 31, 1<<31 + 1, 3 << 30, 0xfffffffe, 0xffffffff}
	for i := 0; i < scale(400, 20000); i++ {
		lease := leases[i%len(leases)]
		if i >= 4*len(leases) {
			lease = 60 + uint32(r.Int63n(int64(0xffffffff-60)))
			if r.Intn(2) == 0 {
				lease = 60 + uint32(r.Intn(1<<uint(5+r.Intn(27))))
			}
		}
		var t1, t2 uint32
		switch (i / len(leases)) % 4 {
		case 1: // consistent
			t1 = 61 + uint32(r.Int63n(int64(lease)))
			t2 = t1 + 1 + uint32(r.Int63n(int64(lease)))
		case 2: // one of the conditions fails narrowly
			t1, t2 = []uint32{60, 61, lease / 2, lease - 1}[r.Intn(4)], []uint32{lease, lease - 1, lease + 1, lease / 2}[r.Intn(4)]
		case 3:
			t1, t2 = r.Uint32(), r.Uint32()
			switch r.Intn(4) {
			case 0: // only one of the two timers is announced
				t2 = 0
				t1 = lease - 1 - uint32(r.Int63n(int64(lease/8)))
			case 1:
				t1 = 0
				t2 = 61 + uint32(r.Int63n(int64(lease)))
			}
		}
		synctest.Test(t, func(t *testing.T) {
			ctx, cancel := context.WithCancel(context.Background())
			cancel()
			iface := &net.Interface{Index: 1, Name: "dl0", HardwareAddr: net.HardwareAddr{2, 0, 0, 0, 0, 1}}
			dx := dclient.New(ctx, iface, log.New(logSink{}, "", 0), nil, nil)
			o := dhcpmsg.DecodedOptions{IPAddressLeaseDuration: time.Duration(lease) * time.Second,
				RenewalDuration: time.Duration(t1) * time.Second, RebindDuration: time.Duration(t2) * time.Second}
			dx.VerifSetLast(dhcpmsg.Message{YourIP: net.IPv4(10, 0, 0, 9)}, o)
			now := time.Now()
			dx.VerifRunStateBound()
			a, b, x := dx.VerifDeadlines()
			off := func(d time.Time) uint64 { return uint64(d.Sub(now)) }
			if a.Before(now) || b.Before(a) || x.Before(b) {
				// durations that do not fit uint64 print as huge numbers: still a mismatch on this line
			}
			c.add(1503, "deadlines", true, args(L{uint64(lease) * 1e9, uint64(t1) * 1e9, uint64(t2) * 1e9}), args(L{off(a), off(b), off(x)}))
			// the lease is a span of elapsed time: its deadlines are readings of the monotonic clock (a time.Time stripped of it
			// follows the wall clock, and a clock that is set back would keep the address beyond the lease)
			atomic.AddInt64(&vlm.n, 1)
			for k, d := range []time.Time{a, b, x} {
				if lease <= 1<<24 && now.String() != now.Round(0).String() && d.String() == d.Round(0).String() {
					vlm.add("c15-deadline-wallclock", "%s of a %d s lease carries no monotonic clock reading (%s): it follows the wall clock", []string{"T1", "T2", "expiry"}[k], lease, d)
				}
			}
		})
	}
	// the same on the real clock (the bubble's clock may carry no monotonic reading at all)
	for _, lease := range []uint32{60, 3600, 86400} { // (time.Time drops the monotonic reading by itself where it would overflow: decades)
		for _, timers := range [][2]uint32{{0, 0}, {lease / 3, lease / 2}} {
			ctx, cancel := context.WithCancel(context.Background())
			cancel()
			iface := &net.Interface{Index: 1, Name: "dl1", HardwareAddr: net.HardwareAddr{2, 0, 0, 0, 0, 1}}
			dx := dclient.New(ctx, iface, log.New(logSink{}, "", 0), nil, nil)
			dx.VerifSetLast(dhcpmsg.Message{YourIP: net.IPv4(10, 0, 0, 9)}, dhcpmsg.DecodedOptions{IPAddressLeaseDuration: time.Duration(lease) * time.Second,
				RenewalDuration: time.Duration(timers[0]) * time.Second, RebindDuration: time.Duration(timers[1]) * time.Second})
			now := time.Now()
			dx.VerifRunStateBound()
			a, b, x := dx.VerifDeadlines()
			atomic.AddInt64(&vlm.n, 1)
			for k, d := range []time.Time{a, b, x} {
				if now.String() != now.Round(0).String() && d.String() == d.Round(0).String() {
					vlm.add("c15-deadline-wallclock", "%s of a %d s lease carries no monotonic clock reading (%s): it follows the wall clock", []string{"T1", "T2", "expiry"}[k], lease, d)
				}
			}
		}
	}
	vlm.write(t, "c15monotonic", map[string]interface{}{"distinct_nontrivial": int(atomic.LoadInt64(&vlm.n)), "histogram": map[string]int{"deadlines:monotonic": int(atomic.LoadInt64(&vlm.n))},
		"samples": []string{"T1 / T2 / expiry of runStateBound are time.Time values with a monotonic clock reading"}})
}

// TestC16Stall: a transmission that takes long (a slow write, a starved process) must not be made up for by a burst: the
// retransmissions after it are still at least 700 ms apart with non-decreasing spacing (C16).  sendMessage itself, on the
// in-memory socket whose OnSend hook sleeps (virtual time).
func TestC16Stall(t *testing.T) {
	vl := &violationLog{}
	for _, stallAt := range []int{1, 2, 3, 5} {
		for _, stall := range []time.Duration{900 * time.Millisecond, 3 * time.Second, 8 * time.Second, 40 * time.Second} {
			synctest.Test(t, func(t *testing.T) {
				atomic.AddInt64(&vl.n, 1)
				name := fmt.Sprintf("sif%d", atomic.AddInt64(&ifaceSeq, 1))
				ifc := &net.Interface{Index: 5, Name: name, HardwareAddr: net.HardwareAddr{2, 0xdd, 0, 0, 0, 4}, MTU: 1500}
				seg := rsocks.VerifSegment(name)
				defer rsocks.VerifDropSegment(name)
				start := time.Now()
				var ts []time.Duration
				n := 0
				seg.OnSend = func(f rsocks.Frame) {
					if f.Kind != rsocks.KindIP {
						return
					}
					n++
					ts = append(ts, time.Since(start))
					if n == stallAt {
						time.Sleep(stall)
					}
				}
				payload := udpip(0, 0xffffffff, 68, 67, 17, 64, (&simClient{mac: []byte{2, 0xdd, 0, 0, 0, 4}, xid: 9}).msg(1, 0, 0).bytes())
				ctx, cancel := context.WithTimeout(context.Background(), 150*time.Second)
				defer cancel()
				dclient.VerifSendMessage(ctx, ifc, func() ([]byte, net.IP, net.IP) { return payload, nil, nil })
				var prev time.Duration
				for i := 1; i < len(ts); i++ {
					gap := ts[i] - ts[i-1]
					if gap < 700*time.Millisecond {
						vl.add("retx-gap", "transmission %d stalled for %v: transmission %d follows %d after only %v (< 700 ms); all instants: %v", stallAt, stall, i+1, i, gap, ts)
						break
					}
					// the transmission after the stalled one comes (stall + delay) later: spacing is judged from there on again
					if i != stallAt && i != stallAt+1 && gap < prev {
						vl.add("retx-shrinking", "transmission %d stalled for %v: spacing %v after %v; all instants: %v", stallAt, stall, gap, prev, ts)
						break
					}
					prev = gap
				}
			})
		}
	}
	vl.write(t, "c16stall", map[string]interface{}{"distinct_nontrivial": int(atomic.LoadInt64(&vl.n)), "histogram": map[string]int{"stall:exchange": int(atomic.LoadInt64(&vl.n))},
		"samples": []string{"sendMessage for 150 s of virtual time with the 1st / 2nd / 3rd / 5th transmission taking 0.9 / 3 / 8 / 40 s: gaps >= 700 ms, spacing non-decreasing apart from the stalled step"}})
}
