package harness

import (
	"sync"
	"bytes"
	"context"
	"os"
	"strconv"
	"strings"
	"encoding/binary"
	"fmt"
	"log"
	"math/rand"
	"net"
	"runtime"
	"sync/atomic"
	"testing"
	"testing/synctest"
	"time"

	"git.sr.ht/~adrian-blx/psa-dhcp/lib/libif"
	"git.sr.ht/~adrian-blx/psa-dhcp/lib/rsocks"
	"git.sr.ht/~adrian-blx/psa-dhcp/lib/server"
	pb "git.sr.ht/~adrian-blx/psa-dhcp/lib/server/proto"
)

var ifaceSeq int64

func ipStr(v uint32) string { return ip4(v).String() }
func macStr(m []byte) string { return net.HardwareAddr(m).String() }

type srvCfg struct {
	netU, maskU    uint32
	bits           int
	hasRange       bool
	rangeB, rangeE uint32
	lease          time.Duration
	staticOnly     bool
	statics        [][2]interface{} // mac []byte, ip uint32
	selfIP         uint32
	selfMAC        []byte
	router         string
	dns, ntp       []string
	domain         string
	clientDNS      map[string][]string // per static client overrides
	overrides      map[string]*pb.ClientConfig // entries without an address: settings only
}

func (c srvCfg) proto() *pb.ServerConfig {
	p := &pb.ServerConfig{Network: fmt.Sprintf("%s/%d", ipStr(c.netU), c.bits), LeaseDuration: c.lease.String(), StaticOnly: c.staticOnly,
		Router: c.router, Dns: c.dns, Ntp: c.ntp, Domain: c.domain, Client: map[string]*pb.ClientConfig{}}
	if c.hasRange {
		p.DynamicRange = ipStr(c.rangeB) + "-" + ipStr(c.rangeE)
	}
	for _, s := range c.statics {
		cc := &pb.ClientConfig{Ip: ipStr(s[1].(uint32))}
		if d, ok := c.clientDNS[macStr(s[0].([]byte))]; ok {
			cc.Dns = d
		}
		p.Client[macStr(s[0].([]byte))] = cc
	}
	for k, v := range c.overrides {
		if _, dup := p.Client[k]; !dup {
			p.Client[k] = v
		}
	}
	return p
}

type arpResp struct {
	ip    uint32
	mac   []byte
	delay time.Duration
	pad   bool // answer padded to the 46-byte Ethernet minimum, as on a real wire
	op1   bool // the owner defends its address with a packet in request form (opcode 1, e.g. a gratuitous ARP)
	skip  int  // the owner misses the first `skip` requests of a probe (frame lost, host waking up) and answers the next one;
	// delay is counted from the start of the probe (the requests of a probe go out 200 ms apart)
}

// variant switches on the features of the second stream: a client whose long hardware address begins with another
// (preferably reserved) client's address; two clients whose long identifiers share their first 16-19 bytes; requests from
// 0.0.0.0 that carry a ciaddr (in next); the returned kind of ARP noise (0 none, 1 runt frames, 2 answers about other hosts).
func (g *srvGen) variant(r2 *rand.Rand) int {
	g.r2 = r2
	if len(g.clients) >= 2 && r2.Intn(2) == 0 {
		victim := g.clients[0]
		for _, c := range g.clients {
			if c.static {
				victim = c
				break
			}
		}
		for _, c := range g.clients {
			if c != victim && !c.static {
				c.mac = append(append([]byte{}, victim.mac[:6]...), randBytes(r2, 1+r2.Intn(10))...)
				if r2.Intn(2) == 0 {
					c.cid = nil
				}
				break
			}
		}
	}
	if len(g.clients) >= 2 && r2.Intn(2) == 0 {
		pre := randBytes(r2, 16+r2.Intn(4))
		pre[0] = 0xff
		a, b := g.clients[len(g.clients)-1], g.clients[len(g.clients)-2]
		a.cid = append(append([]byte{}, pre...), 1, byte(r2.Intn(256)))
		b.cid = append(append([]byte{}, pre...), 2)
	}
	// two interfaces of one host (or two clones of one image): RFC 4361 identifiers with the same DUID that differ in the IAID only
	if len(g.clients) >= 2 && r2.Intn(5) == 0 {
		a, b := g.clients[0], g.clients[1]
		duid := append([]byte{0, 1, 0, 1}, randBytes(r2, 10)...)
		a.cid = append([]byte{0xff, 0, 0, 0, 1}, duid...)
		b.cid = append([]byte{0xff, 0, 0, 0, 2}, duid...)
	}
	// a hardware address of all zeros (a client identifier tells such clients apart) - an address like any other
	if r2.Intn(12) == 0 {
		for _, c := range g.clients {
			if !c.static && len(c.mac) == 6 {
				c.mac = []byte{0, 0, 0, 0, 0, 0}
				break
			}
		}
	}
	// a hardware address with the group bit set (nobody forbids a client to send one; replies echo it bit for bit)
	if r2.Intn(4) == 0 {
		for _, c := range g.clients {
			if !c.static && len(c.mac) == 6 {
				c.mac = append([]byte{}, c.mac...)
				c.mac[0] |= 1
				if len(c.cid) == 7 && c.cid[0] == 1 {
					c.cid = append([]byte{1}, c.mac...)
				}
				break
			}
		}
	}
	// client identifiers of 136-255 octets: two clients behind one hardware address that differ only there
	if len(g.clients) >= 2 && r2.Intn(4) == 0 {
		a, b := g.clients[len(g.clients)-1], g.clients[len(g.clients)-2]
		if !a.static && !b.static {
			long := randBytes(r2, 136+r2.Intn(120))
			long[0] = 0xff
			a.cid = append(append([]byte{}, long...), 1)[:len(long)]
			b.cid = append([]byte{}, long...)
			b.cid[len(b.cid)-1] ^= 0x55
			b.mac = a.mac
		}
	}
	// a client identifier of exactly four octets that spells an address of the network (the server's own, a reserved one, a pool one)
	if r2.Intn(3) == 0 {
		addrs := []uint32{g.cfg.selfIP}
		for _, st := range g.cfg.statics {
			addrs = append(addrs, st[1].(uint32))
		}
		addrs = append(addrs, g.pool[r2.Intn(len(g.pool))])
		for _, c := range g.clients {
			if !c.static {
				c.cid = u32b(addrs[r2.Intn(len(addrs))])
				if r2.Intn(3) == 0 { // ... or the text under which the lease table files that address
					c.cid = []byte(fmt.Sprintf("uip(%x)", addrs[r2.Intn(len(addrs))]))
				}
				break
			}
		}
	}
	// a sender whose vendor prefix is in the compiled-in registry (short and long vendor names)
	if r2.Intn(2) == 0 {
		reg := registryMACs()
		for _, c := range g.clients {
			if !c.static && len(c.mac) == 6 && len(reg) > 0 {
				m := reg[r2.Intn(len(reg))]
				if r2.Intn(2) == 0 {
					m = reg[r2.Intn(4)%len(reg)] // the shortest names
				}
				old := c.mac
				c.mac = append(append([]byte{}, m[:3]...), old[3:]...)
				if len(c.cid) == 7 && c.cid[0] == 1 {
					c.cid = append([]byte{1}, c.mac...)
				}
				break
			}
		}
	}
	// pool shapes: a pool of 10-18 addresses most of which foreign hosts answer for, or a range of more than 1024 addresses
	switch r2.Intn(8) {
	case 0, 1:
		c := &g.cfg
		if hosts := ^c.maskU - 1; hosts >= 40 && c.hasRange {
			n := uint32(10 + r2.Intn(9))
			c.rangeB = c.netU + 10 + uint32(r2.Intn(int(hosts-30)))
			c.rangeE = c.rangeB + n - 1
			g.pool = nil
			for a := c.rangeB; a <= c.rangeE; a++ {
				g.pool = append(g.pool, a)
			}
			g.crowded = true
		}
	case 2:
		c := &g.cfg
		// (not only private networks: carrier-grade NAT space, public blocks, the top of class C)
		c.bits, c.netU, c.maskU = 16, uint32([]byte{10, 10, 100, 172, 198, 203, 223}[r2.Intn(7)])<<24|uint32(1+r2.Intn(200))<<16, 0xffff0000
		c.selfIP, c.router = c.netU+1, ipStr(c.netU+1)
		c.hasRange, c.rangeB = true, c.netU+uint32(256*(1+r2.Intn(200)))+uint32(r2.Intn(256))
		c.rangeE = c.rangeB + 1024 + uint32(r2.Intn(150))
		c.statics, c.clientDNS, c.staticOnly = nil, map[string][]string{}, false
		for _, cl := range g.clients {
			cl.static = false
		}
		g.pool = nil
		for a := c.rangeB; a <= c.rangeE; a++ {
			g.pool = append(g.pool, a)
		}
	case 3:
		// a network larger than /24 whose small dynamic range ends (or begins) on an address ending in .255 or .0: those are passed
		// over, and nothing beyond the range may be handed out instead
		c := &g.cfg
		c.bits, c.netU, c.maskU = 22, uint32([]byte{10, 10, 100, 172, 198, 203, 223}[r2.Intn(7)])<<24|uint32(1+r2.Intn(200))<<16|uint32(4*r2.Intn(60))<<8, 0xfffffc00
		c.selfIP, c.router = c.netU+1, ipStr(c.netU+1)
		edge := c.netU + []uint32{0x1ff, 0x200, 0x2ff, 0x100}[r2.Intn(4)]
		if r2.Intn(3) == 0 {
			c.hasRange, c.rangeB, c.rangeE = true, edge, edge+uint32(1+r2.Intn(4))
		} else {
			c.hasRange, c.rangeB, c.rangeE = true, edge-uint32(1+r2.Intn(4)), edge
		}
		c.statics, c.clientDNS, c.staticOnly = nil, map[string][]string{}, false
		for _, cl := range g.clients {
			cl.static = false
		}
		g.pool = nil
		for a := c.rangeB; a <= c.rangeE; a++ {
			g.pool = append(g.pool, a)
		}
	case 4, 5:
		// the server's own address inside the dynamic range (either end or the middle) instead of below it; now and then the range
		// is every host address of the network
		c := &g.cfg
		if c.hasRange {
			self := []uint32{c.rangeB, c.rangeE, (c.rangeB + c.rangeE) / 2}[r2.Intn(3)]
			free := self != c.netU && self != c.netU+^c.maskU
			for _, st := range c.statics {
				if st[1].(uint32) == self {
					free = false
				}
			}
			if free {
				c.selfIP = self
				if r2.Intn(2) == 0 {
					c.router = ipStr(self)
				}
				if r2.Intn(3) == 0 && ^c.maskU <= 0x1ff {
					c.rangeB, c.rangeE = c.netU+1, c.netU+^c.maskU-1
					g.pool = nil
					for a := c.rangeB; a <= c.rangeE; a++ {
						g.pool = append(g.pool, a)
					}
				}
			}
		}
	}
	// the lease duration setting at its lower end, with a fraction of a second, long, and around 2^31 / at 2^32-1 seconds
	// (option 51 is an unsigned 32-bit count of seconds; the address has to stay reserved for all of it)
	if r2.Intn(3) == 0 {
		g.cfg.lease = []time.Duration{60 * time.Second, 61900 * time.Millisecond, 90500 * time.Millisecond, 36 * time.Hour, 1000 * time.Hour,
			(1<<31 - 1) * time.Second, (1 << 31) * time.Second, 3000000000 * time.Second, (1<<32 - 1) * time.Second}[r2.Intn(9)]
	}
	// long DNS / NTP lists: OFFER and ACK grow beyond the 576 octets a client may name as its maximum message size (option 57 is
	// among the wishes variant packets carry); every configured value is sent all the same
	if r2.Intn(5) == 0 {
		g.cfg.dns, g.cfg.ntp = nil, nil
		for i := 0; i < 40+r2.Intn(20); i++ {
			g.cfg.dns = append(g.cfg.dns, ipStr(0x08080000+uint32(i)))
			g.cfg.ntp = append(g.cfg.ntp, ipStr(0xc0a80a00+uint32(i)))
		}
	}
	g.op1 = r2.Intn(3) == 0
	// per-client settings for clients without a reserved address (they identify themselves by client identifier or not)
	for _, c := range g.clients {
		if !c.static && len(c.mac) == 6 && r2.Intn(2) == 0 {
			if g.cfg.overrides == nil {
				g.cfg.overrides = map[string]*pb.ClientConfig{}
			}
			oc := &pb.ClientConfig{Dns: []string{"9.9.9.9"}}
			if r2.Intn(2) == 0 {
				oc.Router = ipStr(g.cfg.netU + 3)
			}
			if r2.Intn(2) == 0 {
				oc.Hostname = "host-" + macStr(c.mac)[12:]
			}
			g.cfg.overrides[macStr(c.mac)] = oc
		}
	}
	if r2.Intn(2) == 0 {
		return 1 + r2.Intn(3)
	}
	return 0
}

type outFrame struct {
	t   uint64
	eth []byte
	pkt []byte
}

type roundObs struct {
	nosnap bool
	t, tq uint64
	pkt   []byte
	arp   []arpResp
	outs  []outFrame
	snap  []snapE
}

type snapE struct {
	ip    uint32
	duid  []byte
	until int64
	perm  bool
}

// srvRun is a running server inside a synctest bubble.
type srvRun struct {
	t      *testing.T
	cfg    srvCfg
	iface  *net.Interface
	seg    *rsocks.Segment
	srv    *server.Server
	start  time.Time
	base   int
	arp    map[uint32]arpResp
	rounds []roundObs
	cancel context.CancelFunc
	maxBusy time.Duration
	repoBase int // goroutines running code of the tree under test when the server is idle
	arpSeen map[uint32]int // requests seen per address in this round
	arpMu   sync.Mutex
	noise   int // ARP traffic that is no answer to a probe: 1 runt frames, 2 answers about other hosts, 3 probes by others for the same address
}

func (s *srvRun) rel() uint64 { return uint64(time.Since(s.start)) }

func startServer(t *testing.T, cfg srvCfg) (*srvRun, error) {
	name := fmt.Sprintf("vif%d", atomic.AddInt64(&ifaceSeq, 1))
	s := &srvRun{t: t, cfg: cfg, arp: map[uint32]arpResp{}, arpSeen: map[uint32]int{}}
	s.iface = &net.Interface{Index: 1, Name: name, HardwareAddr: net.HardwareAddr(cfg.selfMAC), MTU: 1500}
	libif.VerifFake(name).Addr = ip4(cfg.selfIP)
	s.seg = rsocks.VerifSegment(name)
	s.seg.OnSend = func(f rsocks.Frame) {
		if f.Kind != rsocks.KindARP || len(f.Payload) != 28 {
			return
		}
		target := binary.BigEndian.Uint32(f.Payload[24:28])
		switch s.noise { // traffic on the segment that is no answer to the probe
		case 1:
			runt := make([]byte, []int{1, 10, 27}[int(target)%3])
			copy(runt, []byte{0, 1, 8, 0, 6, 4, 0, 2})
			time.AfterFunc(time.Millisecond, func() { s.seg.Inject(rsocks.KindARP, runt) })
		case 3: // somebody else probing for the same address (sender address 0.0.0.0): not an answer, nobody owns it yet
			probe := make([]byte, 28)
			copy(probe, []byte{0, 1, 8, 0, 6, 4, 0, 1, 2, 0xdd, 0, 0, 0, 7})
			binary.BigEndian.PutUint32(probe[24:], target)
			time.AfterFunc(time.Millisecond, func() { s.seg.Inject(rsocks.KindARP, probe) })
		case 2:
			other := make([]byte, 28)
			copy(other, []byte{0, 1, 8, 0, 6, 4, 0, 2, 2, 0xdd, 0, 0, 0, 9})
			binary.BigEndian.PutUint32(other[14:], target^0x00010000)
			time.AfterFunc(time.Millisecond, func() { s.seg.Inject(rsocks.KindARP, other) })
		}
		if r, ok := s.arp[target]; ok {
			s.arpMu.Lock() // handlers of overlapping packets probe concurrently
			s.arpSeen[target]++
			deaf := s.arpSeen[target] <= r.skip // misses the first requests of a probe
			if !deaf {
				s.arpSeen[target] = 0 // the answer ends this probe; the address may be probed again in the same round
			}
			s.arpMu.Unlock()
			if deaf {
				return
			}
			r.delay -= time.Duration(r.skip) * 200 * time.Millisecond
			reply := make([]byte, 28)
			if r.pad {
				reply = make([]byte, 46)
			}
			copy(reply, []byte{0, 1, 8, 0, 6, 4, 0, 2})
			copy(reply[8:14], r.mac)
			binary.BigEndian.PutUint32(reply[14:], target)
			copy(reply[18:24], f.Payload[8:14])
			copy(reply[24:28], f.Payload[14:18])
			if r.op1 {
				reply[7] = 1
				binary.BigEndian.PutUint32(reply[24:], target) // who-has X tell X
			}
			time.AfterFunc(r.delay, func() { s.seg.Inject(rsocks.KindARP, reply) })
		}
	}
	ctx, cancel := context.WithCancel(context.Background())
	s.cancel = cancel
	srv, err := server.New(ctx, log.New(logSink{}, "", 0), s.iface, cfg.proto())
	if err != nil {
		cancel()
		return nil, err
	}
	s.srv = srv
	s.start = time.Now()
	go srv.Run()
	synctest.Wait()
	// the idle goroutine count of this process: goroutines outside the bubble that are just going away (left over from
	// earlier tests, a finalizer) must not be counted, or "back at the idle count" would come true while a handler still runs
	s.repoBase = repoGoroutines()
	s.base = runtime.NumGoroutine()
	for stable := 0; stable < 30; {
		runtime.Gosched()
		if n := runtime.NumGoroutine(); n < s.base {
			s.base, stable = n, 0
		} else {
			stable++
		}
	}
	n := 1
	if cfg.hasRange {
		n = int(cfg.rangeE-cfg.rangeB) + 1
	} else {
		n = int(^cfg.maskU)
	}
	s.maxBusy = 200*time.Millisecond + time.Duration(n+2)*700*time.Millisecond
	return s, nil
}

func (s *srvRun) stop() {
	s.cancel()
	synctest.Wait()
	rsocks.VerifDropSegment(s.iface.Name)
	libif.VerifDropFake(s.iface.Name)
}

// round injects one packet at the current instant and observes until the handler has finished.
func (s *srvRun) round(pkt []byte, arp []arpResp) roundObs {
	// an answer that arrives at the very instant one 200 ms try ends and the next begins is seen or missed depending on
	// which of the two happens first at that instant: keep answers off those instants
	for i := range arp {
		if arp[i].delay%(200*time.Millisecond) == 0 {
			arp[i].delay += time.Millisecond
		}
	}
	s.arp = map[uint32]arpResp{}
	s.arpMu.Lock()
	s.arpSeen = map[uint32]int{}
	s.arpMu.Unlock()
	for _, a := range arp {
		s.arp[a.ip] = a
	}
	before := len(s.seg.Frames())
	r := roundObs{t: s.rel(), pkt: pkt, arp: arp}
	s.seg.Inject(rsocks.KindIP, pkt)
	waitQuiet(s)
	r.tq = s.rel()
	for _, f := range s.seg.Frames()[before:] {
		if f.Kind == rsocks.KindIP {
			r.outs = append(r.outs, outFrame{t: uint64(f.T.Sub(s.start)), eth: f.EthDst, pkt: f.Payload})
		}
	}
	r.snap = s.snapshot()
	s.rounds = append(s.rounds, r)
	// let stale ARP answers of this round drain before the next one
	time.Sleep(time.Second)
	return r
}

// waitQuiet returns when the handlers of the packets injected so far are done.  While a DISCOVER handler searches it holds
// the database lock across its ARP probes; reading the table then would block this goroutine on a mutex, which the
// virtual clock does not count as waiting: the bubble would stand still for ever (seen twice in thorough sweeps, with
// the idle count spoilt as described in startServer).  So never return while an ARP receive socket is open.
//
// What decides is the number of goroutines running code of the tree under test (read off a stack dump): two for an idle
// server (Run and its closer).  The process-wide count is only a cheap first look: under load it was off (20 checks run at
// once: goroutines of the runtime or of earlier tests came and went, the round ended during a handler's 50 ms reply delay
// and the reply was booked on the next round).
func waitQuiet(s *srvRun) {
	deadline := time.Now().Add(s.maxBusy)
	for i := 0; ; i++ {
		synctest.Wait()
		if s.seg.Listeners(rsocks.KindARP) == 0 &&
			(runtime.NumGoroutine() <= s.base || i%64 == 63 || time.Now().After(deadline)) && repoGoroutines() <= s.repoBase {
			break
		}
		if time.Now().After(deadline.Add(time.Minute)) && s.seg.Listeners(rsocks.KindARP) == 0 {
			break // something of the server never ends (a leak is C19's business): go on
		}
		time.Sleep(time.Millisecond)
	}
}

func (s *srvRun) snapshot() []snapE {
	var out []snapE
	now := time.Now()
	for _, e := range s.srv.VerifIPDB().VerifSnapshot() {
		if e.Permanent || !now.After(e.LeasedUntil) {
			se := snapE{ip: e.IP, duid: e.Duid, perm: e.Permanent}
			if !e.Permanent {
				se.until = int64(e.LeasedUntil.Sub(s.start))
			}
			out = append(out, se)
		}
	}
	return out
}

func (s *srvRun) advance(d time.Duration) { time.Sleep(d) }

// encode writes the observed history as one case.
func (s *srvRun) encode(macs [][]byte) []interface{} {
	c := s.cfg
	a := []interface{}{
		L{uint64(c.selfIP), uint64(c.lease), uint64(c.netU), uint64(c.maskU), b2n(c.hasRange), uint64(c.rangeB), uint64(c.rangeE), b2n(c.staticOnly)},
		B(c.selfMAC), L{uint64(len(c.statics))}}
	for _, st := range c.statics {
		a = append(a, B(st[0].([]byte)), L{uint64(st[1].(uint32))})
	}
	a = append(a, L{uint64(len(macs))})
	for _, m := range macs {
		a = append(a, B(m))
		os := s.srv.VerifDhcpOptions(m)
		a = append(a, L{uint64(len(os))})
		a = append(a, encOpts(os)...)
	}
	dflt := s.srv.VerifDhcpOptions([]byte{0x02, 0xee, 0xee, 0xee, 0xee, 0xee})
	a = append(a, L{uint64(len(dflt))})
	a = append(a, encOpts(dflt)...)
	a = append(a, L{uint64(len(s.rounds))})
	for _, r := range s.rounds {
		a = append(a, L{r.t, r.tq, b2n(!r.nosnap), uint64(len(r.arp)), uint64(len(r.outs)), uint64(len(r.snap))}, B(r.pkt))
		for _, x := range r.arp {
			a = append(a, L{uint64(x.ip), uint64(x.delay)}, B(x.mac))
		}
		for _, o := range r.outs {
			a = append(a, L{o.t}, B(o.eth), B(o.pkt))
		}
		for _, e := range r.snap {
			neg, abs := uint64(0), uint64(e.until)
			if e.until < 0 {
				neg, abs = 1, uint64(-e.until)
			}
			a = append(a, L{uint64(e.ip), abs, b2n(e.perm), neg}, B(e.duid))
		}
	}
	return a
}

// ---- simulated clients ----

type simClient struct {
	mac      []byte
	cid      []byte
	static   bool
	offered  uint32
	leased   uint32
	xid      uint32
}

func (cl *simClient) opts(typ byte, extra ...wopt) []wopt {
	o := []wopt{{53, []byte{typ}}}
	if cl.cid != nil {
		o = append(o, wopt{61, cl.cid})
	}
	return append(o, extra...)
}

func u32b(v uint32) []byte { b := make([]byte, 4); binary.BigEndian.PutUint32(b, v); return b }

func (cl *simClient) msg(typ byte, flags uint16, ciaddr uint32, extra ...wopt) wmsg {
	return wmsg{op: 1, htype: 1, hlen: byte(len(cl.mac)), xid: cl.xid, flags: flags, ciaddr: ciaddr, chaddr: cl.mac, cookie: 0x63825363, opts: cl.opts(typ, extra...)}
}

type srvGen struct {
	r        *rand.Rand
	r2       *rand.Rand // second stream: features added later draw from it, so that the histories of older seeds stay as they were
	crowded  bool       // most pool addresses are answered for by foreign hosts
	op1      bool       // owners defend their addresses with request-form ARP packets
	cfg      srvCfg
	clients  []*simClient
	pool     []uint32
}

func newSrvGen(r *rand.Rand) *srvGen {
	g := &srvGen{r: r}
	bits := []int{24, 24, 28, 29, 23}[r.Intn(5)]
	netU := uint32(0x0a000000) | uint32(r.Intn(200))<<16
	if bits == 23 {
		netU = 0xc0a80000
	}
	maskU := ^uint32(0) << (32 - bits)
	hosts := ^maskU - 1
	cfg := srvCfg{netU: netU, maskU: maskU, bits: bits, lease: []time.Duration{time.Minute, 2 * time.Minute, time.Hour}[r.Intn(3)]}
	cfg.selfIP = netU + 1
	cfg.selfMAC = []byte{0x02, 0xaa, 0, 0, 0, 1}
	psize := uint32(1 + r.Intn(6))
	if psize > hosts-2 {
		psize = hosts - 2
	}
	switch r.Intn(4) {
	case 0: // range next to the top of the network
		cfg.hasRange, cfg.rangeE = true, netU+hosts
		cfg.rangeB = cfg.rangeE - psize + 1
	case 1:
		if bits == 23 { // spans .255 / .0
			cfg.hasRange, cfg.rangeB, cfg.rangeE = true, netU+0xfd, netU+0x102
		} else {
			cfg.hasRange, cfg.rangeB = true, netU+2
			cfg.rangeE = cfg.rangeB + psize - 1
		}
	default:
		cfg.hasRange, cfg.rangeB = true, netU+2+uint32(r.Intn(3))
		cfg.rangeE = cfg.rangeB + psize - 1
		if cfg.rangeE > netU+hosts {
			cfg.rangeE = netU + hosts
		}
	}
	for a := cfg.rangeB; a <= cfg.rangeE; a++ {
		g.pool = append(g.pool, a)
	}
	cfg.router = ipStr(netU + 1)
	if r.Intn(2) == 0 {
		cfg.dns = []string{"8.8.8.8", "8.8.4.4"}
	}
	if r.Intn(3) == 0 {
		cfg.domain = "example.org"
	}
	cfg.staticOnly = r.Intn(10) == 0
	cfg.clientDNS = map[string][]string{}
	n := 1 + r.Intn(5)
	for i := 0; i < n; i++ {
		cl := &simClient{mac: []byte{0x02, 0xbb, 0, 0, 0, byte(i + 1)}, xid: r.Uint32()}
		switch r.Intn(6) {
		case 0: // no identifier
		case 1:
			cl.cid = []byte{1, 2, byte(i)} // too short: treated as none
		case 2:
			cl.cid = append([]byte{0xff, 0, 0, 0, byte(i), 0, 3, 0, 1}, cl.mac...)
		default:
			cl.cid = append([]byte{1}, cl.mac...)
		}
		if r.Intn(4) == 0 {
			// reservation, inside or outside the dynamic range
			ip := netU + 2 + uint32(r.Intn(int(hosts-2)))
			dup := ip == cfg.selfIP
			for _, s := range cfg.statics {
				if s[1].(uint32) == ip {
					dup = true
				}
			}
			if !dup {
				cl.static = true
				cfg.statics = append(cfg.statics, [2]interface{}{cl.mac, ip})
				if r.Intn(2) == 0 {
					cfg.clientDNS[macStr(cl.mac)] = []string{"1.1.1.1"}
				}
			}
		}
		g.clients = append(g.clients, cl)
	}
	// identity games: a client forging the internal identity of another (or of the server), two clients sharing an identifier
	if len(g.clients) >= 2 && r.Intn(3) == 0 {
		victim := g.clients[0].mac
		if r.Intn(3) == 0 {
			victim = cfg.selfMAC
		}
		g.clients[1].cid = append([]byte{0, 3, 0, 0}, victim...)
	}
	if len(g.clients) >= 3 && r.Intn(4) == 0 {
		g.clients[2].cid = g.clients[1].cid
	}
	g.cfg = cfg
	return g
}

func (g *srvGen) someAddr() uint32 {
	c := g.cfg
	switch g.r.Intn(11) {
	case 8: // just outside / at the edge of the dynamic range
		return []uint32{c.rangeB - 1, c.rangeE + 1, c.rangeB, c.rangeE}[g.r.Intn(4)]
	case 9: // edges of the network, .255 / .0 addresses
		return []uint32{c.netU, c.netU + 1, c.netU + ^c.maskU, c.netU + ^c.maskU - 1, (c.rangeB | 0xff), (c.rangeE &^ 0xff)}[g.r.Intn(6)]
	case 0:
		return c.selfIP
	case 1:
		return c.netU + 2 + uint32(g.r.Intn(int(^c.maskU-2))) // somewhere in the network
	case 2:
		return c.netU + ^c.maskU + 5 // outside
	case 3:
		if len(c.statics) > 0 {
			return c.statics[g.r.Intn(len(c.statics))][1].(uint32)
		}
	}
	return g.pool[g.r.Intn(len(g.pool))]
}

// next produces the next packet (and ARP responders for the round).
func (g *srvGen) next() ([]byte, []arpResp, *simClient, byte) {
	r, c := g.r, g.cfg
	cl := g.clients[r.Intn(len(g.clients))]
	if g.r2 != nil && !cl.static && g.r2.Intn(12) == 0 {
		// the same adapter under another identity (another operating system, a boot loader): with a client identifier where it
		// sent none, or with a different one.  To the server this is another client; it keeps asking for what the first one got
		if cl.cid == nil || g.r2.Intn(2) == 0 {
			cl.cid = append([]byte{0xff}, randBytes(g.r2, 6+g.r2.Intn(10))...)
		} else {
			cl.cid = nil
		}
	}
	flags := uint16(0)
	if r.Intn(3) == 0 {
		flags = 0x8000
	}
	if r.Intn(20) == 0 {
		flags = uint16(r.Uint32())
	}
	var arp []arpResp
	for _, a := range g.pool {
		if g.crowded { // this stream must not disturb r: the draws below are made anyway
			if g.r2.Intn(10) < 8 {
				arp = append(arp, arpResp{ip: a, mac: []byte{0x02, 0xcc, 0, 0, 1, byte(a)}, delay: time.Duration(1+g.r2.Intn(500)) * time.Millisecond})
			}
		}
		switch r.Intn(12) {
		case 0:
			arp = append(arp, arpResp{a, []byte{0x02, 0xcc, 0, 0, 0, byte(a)}, time.Duration(1+r.Intn(589)) * time.Millisecond, r.Intn(2) == 0, false, 0})
		case 1:
			arp = append(arp, arpResp{a, cl.mac[:6], time.Duration(1+r.Intn(589)) * time.Millisecond, r.Intn(2) == 0, false, 0})
		case 2:
			arp = append(arp, arpResp{a, []byte{0x02, 0xcc, 0, 0, 0, byte(a)}, time.Duration(610+r.Intn(300)) * time.Millisecond, false, false, 0})
		}
		if g.r2 != nil && g.r2.Intn(15) == 0 { // the server host itself answers for the address (an alias on the same interface)
			own := arpResp{a, c.selfMAC, time.Duration(1+g.r2.Intn(589)) * time.Millisecond, false, false, 0}
			if n := len(arp); n > 0 && arp[n-1].ip == a {
				arp[n-1] = own // one responder per address
			} else {
				arp = append(arp, own)
			}
		}
	}
	if g.r2 != nil {
		// a foreign host (or the owner itself) answers for a reserved address, inside or outside the dynamic range: the reservation's
		// owner is then refused (NAK) like anybody else - the verification does not depend on where the address lies
		for _, st := range c.statics {
			ip := st[1].(uint32)
			inPool := false
			for _, a := range g.pool {
				inPool = inPool || a == ip
			}
			if !inPool && g.r2.Intn(5) == 0 {
				mac := []byte{0x02, 0xcc, 0, 0, 2, byte(ip)}
				if g.r2.Intn(4) == 0 {
					mac = st[0].([]byte)[:6]
				}
				arp = append(arp, arpResp{ip: ip, mac: mac, delay: time.Duration(1+g.r2.Intn(580)) * time.Millisecond})
			}
		}
	}
	if g.r2 != nil && g.r2.Intn(4) == 0 {
		// owners whose hardware address has the group bit set (clusters answering in multicast mode): an answer like any other
		for i := range arp {
			if g.r2.Intn(3) == 0 && len(arp[i].mac) == 6 && arp[i].mac[0] == 0x02 && arp[i].mac[1] == 0xcc {
				arp[i].mac = append([]byte{0x03, 0xbf}, arp[i].mac[2:]...)
			}
		}
	}
	if g.r2 != nil && g.r2.Intn(3) == 0 {
		// an owner that misses the first or the first two requests of a probe and answers the next one: still inside the window
		for i := range arp {
			if arp[i].delay < 150*time.Millisecond && !bytes.Equal(arp[i].mac, cl.mac[:min(6, len(cl.mac))]) && g.r2.Intn(2) == 0 {
				arp[i].skip = 1 + g.r2.Intn(2)
				arp[i].delay += time.Duration(arp[i].skip) * 200 * time.Millisecond
			}
		}
	}
	if g.crowded || g.op1 { // one responder per address; some defend in request form
		seenIP := map[uint32]bool{}
		var uniq []arpResp
		for _, a := range arp {
			if !seenIP[a.ip] {
				seenIP[a.ip] = true
				if g.op1 && g.r2.Intn(2) == 0 {
					a.op1 = true
				}
				uniq = append(uniq, a)
			}
		}
		arp = uniq
	}
	bc := uint32(0xffffffff)
	var m wmsg
	src, dst := uint32(0), bc
	kind := byte(0)
	switch k := r.Intn(16); {
	case k < 5: // DISCOVER
		kind = 1
		cl.xid = r.Uint32()
		var extra []wopt
		switch r.Intn(5) {
		case 0:
			extra = append(extra, wopt{50, u32b(g.someAddr())})
		case 1:
			if cl.leased != 0 {
				extra = append(extra, wopt{50, u32b(cl.leased)})
			}
		}
		m = cl.msg(1, flags, 0, extra...)
		if r.Intn(25) == 0 {
			m.opts = append(m.opts, wopt{54, u32b(c.selfIP)}) // must be dropped
		}
		if r.Intn(25) == 0 {
			dst = c.selfIP // unicast discover: dropped
		}
	case k < 9: // SELECTING
		kind = 3
		ip := cl.offered
		if ip == 0 || r.Intn(6) == 0 {
			ip = g.someAddr()
		}
		sid := c.selfIP
		if r.Intn(10) == 0 {
			sid = c.selfIP + 1
		}
		m = cl.msg(3, flags, 0, wopt{50, u32b(ip)}, wopt{54, u32b(sid)})
		if g.r2 != nil && g.r2.Intn(6) == 0 {
			// a REQUEST that names this server but no address, or one of the wrong length, or an ill-formed server identifier
			switch g.r2.Intn(4) {
			case 0:
				m = cl.msg(3, flags, 0, wopt{54, u32b(sid)})
			case 1:
				m = cl.msg(3, flags, 0, wopt{50, u32b(ip)[:3]}, wopt{54, u32b(sid)})
			case 2:
				m = cl.msg(3, flags, 0, wopt{50, append(u32b(ip), 0)}, wopt{54, u32b(sid)})
			case 3:
				m = cl.msg(3, flags, 0, wopt{50, u32b(ip)}, wopt{54, append(u32b(sid), 1)})
			}
		}
	case k < 10: // INIT-REBOOT
		kind = 3
		ip := cl.leased
		if ip == 0 || r.Intn(4) == 0 {
			ip = g.someAddr()
		}
		m = cl.msg(3, flags, 0, wopt{50, u32b(ip)})
	case k < 12: // RENEWING (unicast)
		kind = 3
		ip := cl.leased
		if ip == 0 || r.Intn(6) == 0 {
			ip = g.someAddr()
		}
		src, dst = ip, c.selfIP
		if r.Intn(10) == 0 {
			dst = c.selfIP + 7 // unicast to somebody else
		}
		if g.r2 != nil && g.r2.Intn(4) == 0 {
			src = 0
		}
		m = cl.msg(3, flags, ip)
	case k < 14: // REBINDING
		kind = 3
		ip := cl.leased
		if ip == 0 || r.Intn(6) == 0 {
			ip = g.someAddr()
		}
		src = ip
		if g.r2 != nil && g.r2.Intn(4) == 0 {
			src = 0 // no source address yet, but a ciaddr
			if g.r2.Intn(2) == 0 {
				m = cl.msg(3, flags, g.someAddr())
				break
			}
		}
		m = cl.msg(3, flags, ip)
	case k < 15: // other message types, own hardware address of the server, replies
		kind = 9
		m = cl.msg([]byte{2, 4, 5, 6, 7, 8, 0}[r.Intn(7)], flags, 0)
		if r.Intn(3) == 0 {
			m.op = 2
		}
		if r.Intn(3) == 0 {
			m = cl.msg(1, flags, 0)
			m.chaddr = c.selfMAC
		}
		if g.r2 != nil && cl.leased != 0 && g.r2.Intn(2) == 0 {
			// a well-formed RELEASE (unicast from the leased address, ciaddr set, the server named) or DECLINE (broadcast, the
			// address as requested address) of a client that holds a lease: this server implements neither - an acknowledged
			// lease runs for the time it advertised, whatever the client says afterwards
			if g.r2.Intn(3) > 0 {
				m = cl.msg(7, 0, cl.leased, wopt{54, u32b(c.selfIP)})
				src, dst = cl.leased, c.selfIP
			} else {
				m = cl.msg(4, 0, 0, wopt{50, u32b(cl.leased)}, wopt{54, u32b(c.selfIP)})
			}
		}
	default: // junk
		kind = 9
		b := randBytes(r, 20+r.Intn(300))
		switch r.Intn(4) {
		case 0:
			good := udpip(0, bc, 68, 67, 17, 64, cl.msg(1, 0, 0).bytes())
			b = good[:r.Intn(len(good))]
		case 1: // DHCP payload truncated anywhere from the end of the fixed part on, lengths of IP and UDP consistent
			pl := cl.msg(byte(1+2*r.Intn(2)), flags, 0, wopt{50, u32b(g.someAddr())}, wopt{55, []byte{1, 3, 6}}).bytes()
			cut := 230 + r.Intn(len(pl)-229)
			b = udpip(0, bc, 68, 67, 17, 64, pl[:cut])
		case 2: // malformed option area
			m := cl.msg(1, flags, 0)
			alpha := []byte{0, 255, 53, 1, 3, 61, 50, 4, 200}
			for i := 0; i < r.Intn(9); i++ {
				m.rawOpts = append(m.rawOpts, alpha[r.Intn(len(alpha))])
			}
			if m.rawOpts == nil {
				m.rawOpts = []byte{}
			}
			b = udpip(0, bc, 68, 67, 17, 64, m.bytes())
		}
		return b, arp, cl, kind
	}
	proto, dport := byte(17), uint16(67)
	if r.Intn(40) == 0 {
		proto = 6 // not UDP: must be ignored
	}
	if g.r2 != nil && kind == 3 && g.r2.Intn(3) == 0 {
		// a REQUEST with a lease-time wish below what the server grants
		m.opts = append(m.opts, wopt{51, u32b([]uint32{1, 5, 30, 59, uint32(c.lease/time.Second) / 2}[g.r2.Intn(5)])})
	}
	if g.r2 != nil && g.r2.Intn(2) == 0 {
		// wishes and information a client may add, none of which changes what the server has to do: a lease-time wish
		// (short, long, infinite), maximum message size, parameter list, host name, vendor class, relay information, ...
		for i := 0; i < 1+g.r2.Intn(3); i++ {
			code := []byte{51, 51, 57, 55, 12, 60, 81, 82, 58, 59, 1, 3, 6, 15, 28, 26, 43, 77}[g.r2.Intn(18)]
			var data []byte
			switch code {
			case 51, 58, 59:
				data = u32b([]uint32{1, 10, 59, 60, 61, 3600, 0x7fffffff, 0xffffffff, uint32(g.r2.Intn(200))}[g.r2.Intn(9)])
				if g.r2.Intn(6) == 0 {
					data = data[:g.r2.Intn(4)]
				}
			case 57:
				data = []byte{byte(g.r2.Intn(6)), byte(g.r2.Intn(256))}
			default:
				data = randBytes(g.r2, g.r2.Intn(9))
			}
			m.opts = append(m.opts, wopt{code, data})
		}
		// header fields a server of this kind has no use for
		if g.r2.Intn(3) == 0 {
			m.secs, m.hops = uint16(g.r2.Uint32()), byte(g.r2.Intn(4))
			if g.r2.Intn(2) == 0 {
				m.giaddr = c.netU + 9
			}
			if g.r2.Intn(2) == 0 {
				m.siaddr, m.yiaddr = g.someAddr(), g.someAddr()
			}
		}
	}
	if g.r2 != nil && len(c.dns) >= 40 && g.r2.Intn(2) == 0 {
		// the replies of this configuration are longer than the smallest legal maximum message size: a client that names one
		// between 576 and the size of the reply still gets every configured option
		v := 576 + g.r2.Intn(220)
		m.setOpt(57, []byte{byte(v >> 8), byte(v)})
	}
	if g.r2 != nil && kind == 3 && src != 0 && g.r2.Intn(6) == 0 {
		// a renewal / rebinding whose ciaddr is not the address it comes from (a multi-homed or confused client): what counts is the
		// IP source; the reply goes to the assigned address (or to broadcast), never to whatever ciaddr says
		m.ciaddr = g.someAddr()
	}
	if g.r2 != nil && g.r2.Intn(10) == 0 {
		// hardware types other than Ethernet: the server has no use for the field, and what it does must not depend on it
		m.htype = []byte{0, 6, 7, 32, 255}[g.r2.Intn(5)]
	}
	if g.r2 != nil && g.r2.Intn(14) == 0 {
		// the server's own hardware address in chaddr, whatever the kind of message and whatever client identifier comes with it:
		// never answered, changes nothing
		m.chaddr = c.selfMAC
		if g.r2.Intn(3) == 0 {
			m.setOpt(61, append([]byte{1}, c.selfMAC...))
		}
	}
	pkt := udpip(src, dst, 68, dport, proto, 64, m.bytes())
	if g.r2 != nil && g.r2.Intn(4) == 0 {
		// the envelope of the request in every dress: source port, TOS, identification, don't-fragment, TTL 1 / 255, IP options, no UDP checksum
		sport := []uint16{68, 68, 67, 0, 1024, 65535}[g.r2.Intn(6)]
		pkt = udpip(src, dst, sport, dport, proto, 64, m.bytes())
		var opts []byte
		if g.r2.Intn(3) == 0 {
			opts = make([]byte, 4*(1+g.r2.Intn(10))) // padding option bytes (0 = end of option list)
			if g.r2.Intn(2) == 0 {
				for i := range opts {
					opts[i] = 1 // NOP
				}
			}
		}
		pkt = ipDress(pkt, byte(g.r2.Intn(256)), uint16(g.r2.Uint32()), []uint16{0, 0x4000, 0x8000}[g.r2.Intn(3)], []byte{1, 64, 128, 255}[g.r2.Intn(4)], opts, g.r2.Intn(4) == 0)
	}
	return pkt, arp, cl, kind
}

func (g *srvGen) observe(cl *simClient, outs []outFrame) {
	for _, o := range outs {
		rp := parseReply(o.pkt)
		if !rp.ok {
			continue
		}
		switch rp.typ {
		case 2:
			cl.offered = rp.msg.yiaddr
		case 5:
			cl.leased = rp.msg.yiaddr
		case 6:
			cl.leased, cl.offered = 0, 0
		}
	}
}

func (g *srvGen) gap() time.Duration {
	c := g.cfg
	h := 15 * time.Second
	k := g.r.Intn(10)
	if c.lease > 2000*time.Hour { // leases of decades: the clock of a history stays within what time.Duration can express
		return []time.Duration{0, 0, 0, time.Second, h - 3*time.Second, h + 2*time.Second, time.Hour, 24 * time.Hour, 720 * time.Hour, 17 * time.Second}[k]
	}
	return []time.Duration{0, 0, 0, time.Second, h - 3*time.Second, h + 2*time.Second, c.lease / 2, c.lease - 3*time.Second, c.lease + 2*time.Second, 3 * c.lease}[k]
}

func runServerHistory(t *testing.T, c *caseWriter, tags string, kind string, seedv int64) {
	synctest.Test(t, func(t *testing.T) {
		r := rand.New(rand.NewSource(seedv))
		g := newSrvGen(r)
		noise := 0
		if kind == "variant" {
			noise = g.variant(rand.New(rand.NewSource(seedv ^ 0x5eed5eed)))
		}
		if kind == "collide" {
			// a static entry that collides with the server itself.  Such a configuration is refused (C18); should a server
			// start from it nevertheless, what it hands out is judged by mon_C02 like any other history
			noise = g.variant(rand.New(rand.NewSource(seedv ^ 0x5eed5eed)))
			if seedv%2 == 0 {
				g.cfg.statics = append(g.cfg.statics, [2]interface{}{g.clients[0].mac, g.cfg.selfIP})
				g.clients[0].static = true
			} else {
				g.cfg.statics = append(g.cfg.statics, [2]interface{}{g.cfg.selfMAC, g.cfg.netU + ^g.cfg.maskU - 1})
				if g.cfg.hasRange && g.cfg.rangeB > g.cfg.selfIP && !g.crowded {
					g.cfg.rangeB = g.cfg.selfIP
					g.pool = append([]uint32{g.cfg.selfIP}, g.pool...)
				}
			}
		}
		s, err := startServer(t, g.cfg)
		if err != nil {
			if kind == "collide" {
				atomic.AddInt64(&collideRefused, 1)
				return
			}
			t.Logf("server.New failed for generated config: %v", err)
			return
		}
		defer s.stop()
		s.noise = noise
		n := 3 + r.Intn(30)
		var lastPkt []byte
		var lastReply []byte
		var lastArp []arpResp
		var lastCl *simClient
		for i := 0; i < n; i++ {
			pkt, arp, cl, _ := g.next()
			obs := s.round(pkt, arp)
			g.observe(cl, obs.outs)
			if len(obs.outs) == 1 && len(pkt) > 40 && pkt[0] == 0x45 {
				lastPkt, lastReply, lastArp, lastCl = pkt, obs.outs[0].pkt, arp, cl
			}
			s.advance(g.gap())
		}
		if kind == "variant" && lastPkt != nil {
			// the request that was answered last, once more under a transaction id chosen so that the one's complement sum
			// of the reply's UDP datagram needs a second carry fold (a window of about 1 in 600 ids)
			if pkt, ok := aimXid(lastPkt, lastReply); ok {
				obs := s.round(pkt, lastArp)
				g.observe(lastCl, obs.outs)
			}
			// ... and under one for which the request's own UDP checksum comes out as zero, which goes over the wire as 0xffff (RFC 768)
			if pkt, ok := aimReqSum(lastPkt); ok {
				s.advance(g.gap())
				obs := s.round(pkt, lastArp)
				g.observe(lastCl, obs.outs)
			}
		}
		if kind == "variant" && lastCl != nil && lastCl.leased != 0 && len(g.clients) >= 2 {
			// the client answered last gives its address back (a well-formed RELEASE) and somebody else asks for that very address at
			// once: this server knows no RELEASE, the lease it acknowledged runs on
			s.advance(g.gap())
			rel := lastCl.msg(7, 0, lastCl.leased, wopt{54, u32b(g.cfg.selfIP)})
			obs := s.round(udpip(lastCl.leased, g.cfg.selfIP, 68, 67, 17, 64, rel.bytes()), nil)
			g.observe(lastCl, obs.outs)
			for _, other := range g.clients {
				if other != lastCl && !bytes.Equal(other.mac, lastCl.mac) {
					s.advance(50 * time.Millisecond)
					other.xid++
					d := other.msg(1, 0, 0, wopt{50, u32b(lastCl.leased)})
					obs := s.round(udpip(0, 0xffffffff, 68, 67, 17, 64, d.bytes()), nil)
					g.observe(other, obs.outs)
					break
				}
			}
		}
		var macs [][]byte
		for _, cl := range g.clients {
			macs = append(macs, cl.mac)
		}
		exp := L{}
		for range s.rounds {
			exp = append(exp, 0)
		}
		outs := [][]interface{}{{exp}}
		if !strings.HasPrefix(tags, "101") {
			outs = [][]interface{}{{L{1}}} // monitors only
		}
		for i := 1; i < len(strings.Split(tags, "+")); i++ {
			outs = append(outs, []interface{}{L{1}})
		}
		if strings.HasPrefix(tags, "101") {
			// the premises of the wire-level theorems, evaluated on this very history (scope tag, see tools/props.py)
			tags += "+220"
			outs = append(outs, []interface{}{L{1}})
		}
		c.addMulti(tags, kind, true, s.encode(macs), outs)
	})
}

var collideRefused int64

// aimXid returns req with a transaction id (and no UDP checksum) for which a reply that equals `reply` in everything but the id
// has a UDP checksum accumulator whose first carry fold overflows 16 bits again.
func aimXid(req, reply []byte) ([]byte, bool) {
	if len(reply) < 28+240 || reply[0] != 0x45 || len(req) < 28+240 {
		return nil, false
	}
	seg := reply[20:]
	var acc uint32
	add := func(b []byte) {
		for i := 0; i+1 < len(b); i += 2 {
			acc += uint32(b[i])<<8 | uint32(b[i+1])
		}
		if len(b)%2 == 1 {
			acc += uint32(b[len(b)-1]) << 8
		}
	}
	add(reply[12:20])
	acc += 17 + uint32(len(seg))
	z := append([]byte{}, seg...)
	z[6], z[7] = 0, 0
	z[12], z[13], z[14], z[15] = 0, 0, 0, 0 // transaction id
	add(z)
	for w := uint32(1); w < 0x10000; w++ {
		a := acc + w
		if (a>>16)+(a&0xffff) >= 0x10000 {
			out := append([]byte{}, req...)
			out[32], out[33], out[34], out[35] = 0, 0, byte(w>>8), byte(w)
			out[26], out[27] = 0, 0 // "no checksum"
			return out, true
		}
	}
	return nil, false
}

// aimReqSum returns req (IPv4 without options, UDP) under a transaction id whose low half makes the one's complement sum of the
// UDP datagram 0xffff: the computed checksum is zero and is transmitted as 0xffff.
func aimReqSum(req []byte) ([]byte, bool) {
	if len(req) < 28+240 || req[0] != 0x45 || req[9] != 17 {
		return nil, false
	}
	out := append([]byte{}, req...)
	out[26], out[27] = 0, 0
	sum := func() uint32 {
		var acc uint32
		add := func(b []byte) {
			for i := 0; i+1 < len(b); i += 2 {
				acc += uint32(b[i])<<8 | uint32(b[i+1])
			}
			if len(b)%2 == 1 {
				acc += uint32(b[len(b)-1]) << 8
			}
		}
		add(out[12:20])
		acc += 17 + uint32(len(out)-20)
		add(out[20:])
		for acc>>16 != 0 {
			acc = acc>>16 + acc&0xffff
		}
		return acc
	}
	out[34], out[35] = 0, 0
	need := 0xffff - sum() // what the low half of the id has to add (end-around carry: the sum without it is below 0xffff or equal)
	if need == 0 {
		need = 0xffff
	}
	out[34], out[35] = byte(need>>8), byte(need)
	if sum() != 0xffff {
		return nil, false
	}
	out[26], out[27] = 0xff, 0xff
	return out, true
}

func TestServerHistories(t *testing.T) {
	c := newCaseWriter(t, "server")
	defer c.close(t, "server")
	// histories that once exposed a defect run first
	if b, err := os.ReadFile(corpusDir() + "/SRV/seeds.txt"); err == nil {
		for _, f := range strings.Fields(string(b)) {
			if v, err := strconv.ParseInt(f, 10, 64); err == nil {
				runServerHistory(t, c, serverTags(), "corpus", v)
			}
		}
	}
	n := scale(300, 8000)
	if os.Getenv("VERIF_RACE") != "" {
		n = scale(40, 600)
	}
	for i := 0; i < n; i++ {
		kind := "sequential"
		if i%3 == 2 {
			kind = "variant"
		}
		runServerHistory(t, c, serverTags(), kind, seed()*1000003+int64(i))
	}
	// configurations in which a static entry collides with the server's own address or hardware address
	for i := 0; i < scale(12, 200); i++ {
		runServerHistory(t, c, "202", "collide", seed()*1000003+int64(i))
	}
}

// serverTags: the acceptor (101) plus the monitors asked for by the check (VERIF_MONITORS="201+206"), default all.
func serverTags() string {
	if m := os.Getenv("VERIF_MONITORS"); m != "" {
		return "101+" + m
	}
	return "101+201+202+203+204+205+206+207+208+210"
}
