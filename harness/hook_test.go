package harness

// The hook script of the real client (lib/client.New with a script: mclient -> dclient with callback.Cbhandler), run as real
// child processes in real time on the in-memory sockets.
//
// TestC15Hook (C15: "the hook only ever told the DNS servers and domain of the most recent accepted ACK"): a responder whose
// ACKs change only in the domain, then only in the DNS list, across link-up re-validations; after every configuration the hook
// must have been run with exactly the values of that ACK.
// TestC19Hook (C19: prompt shutdown from whatever state): a hook that is still running when the client is cancelled.

import (
	"context"
	"fmt"
	"log"
	"net"
	"os"
	"path/filepath"
	"sort"
	"strings"
	"sync/atomic"
	"testing"
	"time"

	"git.sr.ht/~adrian-blx/psa-dhcp/lib/client"
	"git.sr.ht/~adrian-blx/psa-dhcp/lib/ifmon"
	"git.sr.ht/~adrian-blx/psa-dhcp/lib/libif"
	"git.sr.ht/~adrian-blx/psa-dhcp/lib/rsocks"
)

type hookWorld struct {
	name  string
	iface *net.Interface
	seg   *rsocks.Segment
	rs    *c19responder
	dir   string
}

func newHookWorld(t *testing.T, sub string) *hookWorld {
	w := &hookWorld{name: fmt.Sprintf("hif%d", atomic.AddInt64(&ifaceSeq, 1))}
	w.iface = &net.Interface{Index: 4, Name: w.name, HardwareAddr: net.HardwareAddr{2, 0xee, 0, 0, 0, 5}, MTU: 1500}
	w.seg = rsocks.VerifSegment(w.name)
	w.rs = &c19responder{seg: w.seg, srvIP: 0x0a140001, srvMAC: []byte{2, 0xaa, 0, 20, 0, 1}, yiaddr: 0x0a140042, lease: 3600, mode: "normal", arpOwner: true}
	w.seg.OnSend = w.rs.onSend
	libif.VerifFake(w.name)
	w.dir = filepath.Join(outDir(t), sub)
	os.RemoveAll(w.dir)
	os.MkdirAll(w.dir, 0o755)
	return w
}

func (w *hookWorld) drop() {
	rsocks.VerifDropSegment(w.name)
	libif.VerifDropFake(w.name)
	os.RemoveAll(w.dir)
}

// hook calls so far, in order: the environment of each
func (w *hookWorld) calls() []map[string]string {
	files, _ := filepath.Glob(filepath.Join(w.dir, "call-*"))
	sort.Strings(files)
	var out []map[string]string
	for _, f := range files {
		b, err := os.ReadFile(f)
		if err != nil || !strings.HasSuffix(string(b), "END\n") {
			continue // still being written
		}
		m := map[string]string{}
		for _, l := range strings.Split(string(b), "\n") {
			if i := strings.IndexByte(l, '='); i > 0 && strings.HasPrefix(l, "PSA_DHCPC_") {
				m[l[:i]] = l[i+1:]
			}
		}
		out = append(out, m)
	}
	return out
}

func setifaceCount(name string) int {
	n := 0
	for _, c := range libif.VerifFake(name).Log() {
		if c.Op == "setiface" {
			n++
		}
	}
	return n
}

func TestC15Hook(t *testing.T) {
	vl := &violationLog{}
	w := newHookWorld(t, "c15hook")
	defer w.drop()
	script := filepath.Join(w.dir, "hook.sh")
	os.WriteFile(script, []byte("#!/bin/sh\nf="+w.dir+"/call-$(date +%s%N)-$$\nenv > $f.tmp\necho END >> $f.tmp\nmv $f.tmp $f\n"), 0o755)
	ctx, cancel := context.WithCancel(context.Background())
	defer cancel()
	mc := client.New(log.New(logSink{}, "", 0), w.iface, script, true)
	done := make(chan bool)
	go func() { defer close(done); defer func() { recover() }(); mc.Run(ctx) }()
	// wait until the n-th configuration of the interface has happened and the hook has had time to run
	// (the hook of configuration n is the (n+1)-th call - the first one reports the initial removal - and, after the refused
	// re-validation, one more: it is awaited rather than timed, a busy machine may need seconds to start a shell)
	extraCalls := 0
	waitConfigured := func(n int) bool {
		for end := time.Now().Add(15 * time.Second); time.Now().Before(end); time.Sleep(50 * time.Millisecond) {
			if setifaceCount(w.name) >= n {
				for end2 := time.Now().Add(12 * time.Second); time.Now().Before(end2) && len(w.calls()) < n+1+extraCalls; time.Sleep(50 * time.Millisecond) {
				}
				time.Sleep(300 * time.Millisecond)
				return true
			}
		}
		return false
	}
	steps := []struct {
		what   string
		domain string
		dns2   bool
	}{
		{"first lease", "one.example", false},
		{"re-validation, ACK differs in the domain only", "two.example", false},
		{"re-validation, ACK differs in the DNS list only", "two.example", true},
		{"re-validation, the domain is gone", "", true},
	}
	if os.Getenv("VERIF_TIER") != "thorough" {
		steps = steps[:3]
	}
	for i, st := range steps {
		w.rs.domain, w.rs.dns2 = st.domain, st.dns2
		if i > 0 {
			// the client's state loop is rate limited (10 transitions at once, one more per second; a re-validation takes 4):
			// link events are spaced so that the limiter never trips
			time.Sleep(2500 * time.Millisecond)
			ifmon.VerifLinkUp(w.name)
		}
		atomic.AddInt64(&vl.n, 1)
		if !waitConfigured(i + 1) {
			vl.add("c15-hook", "%s: the interface was not configured within 15 s", st.what)
			break
		}
		// the last hook call that carries an address is the one for this configuration
		var last map[string]string
		for _, c := range w.calls() {
			if c["PSA_DHCPC_IPV4_ADDRESS"] != "" {
				last = c
			}
		}
		wantDNS := "10.20.0.1"
		if st.dns2 {
			wantDNS = "10.20.0.1,10.20.0.2"
		}
		if last == nil {
			vl.add("c15-hook", "%s: the hook was never run with a configuration", st.what)
		} else if last["PSA_DHCPC_DOMAIN_NAME"] != st.domain || last["PSA_DHCPC_DNS_LIST"] != wantDNS {
			vl.add("c15-hook", "%s: the hook was last told domain %q and DNS %q; the ACK just accepted says %q and %q", st.what,
				last["PSA_DHCPC_DOMAIN_NAME"], last["PSA_DHCPC_DNS_LIST"], st.domain, wantDNS)
		}
	}
	// "drops them on NAK": the next re-validation is refused.  The hook is then run without a configuration and must not be
	// told anything of the lease that was dropped (its environment carries no address, router, DNS or domain variable);
	// after that the client acquires a lease anew (the selecting REQUEST is acknowledged) and the hook hears its values.
	if vl.n > 0 && len(vl.v) == 0 {
		leaseVars := []string{"PSA_DHCPC_IPV4_ADDRESS", "PSA_DHCPC_IPV4_ROUTER", "PSA_DHCPC_NETMASK", "PSA_DHCPC_DOMAIN_NAME", "PSA_DHCPC_DNS_LIST", "PSA_DHCPC_MTU", "PSA_DHCPC_LEASE_SEC"}
		before := len(w.calls())
		nconf := setifaceCount(w.name)
		time.Sleep(7 * time.Second) // let the client's rate limiter refill: NAK, purge and re-acquisition are 8 transitions
		w.rs.domain, w.rs.dns2 = "three.example", false
		w.rs.mode = "nak-renew"
		ifmon.VerifLinkUp(w.name)
		atomic.AddInt64(&vl.n, 1)
		extraCalls = 1
		if !waitConfigured(nconf + 1) {
			vl.add("c15-hook", "after a NAK: the interface was not configured again within 15 s")
		} else {
			calls := w.calls()
			// calls made since: one without a configuration (the purge), then one with the new lease
			if len(calls) != before+2 {
				vl.add("c15-hook", "NAK and re-acquisition: %d hook calls, want 2 (removal, new configuration)", len(calls)-before)
			} else {
				for _, k := range leaseVars {
					if v, ok := calls[before][k]; ok {
						vl.add("c15-hook", "hook call for the removal of the address after a NAK still carries %s=%s of the dropped lease", k, v)
					}
				}
				if calls[before]["PSA_DHCPC_INTERFACE"] != w.name {
					vl.add("c15-hook", "hook call for the removal: PSA_DHCPC_INTERFACE=%q", calls[before]["PSA_DHCPC_INTERFACE"])
				}
				if c := calls[before+1]; c["PSA_DHCPC_DOMAIN_NAME"] != "three.example" || c["PSA_DHCPC_DNS_LIST"] != "10.20.0.1" || c["PSA_DHCPC_IPV4_ADDRESS"] != "10.20.0.66" {
					vl.add("c15-hook", "after re-acquisition the hook was told address %q domain %q DNS %q; the ACK says 10.20.0.66, three.example, 10.20.0.1",
						c["PSA_DHCPC_IPV4_ADDRESS"], c["PSA_DHCPC_DOMAIN_NAME"], c["PSA_DHCPC_DNS_LIST"])
				}
			}
		}
	}
	cancel()
	select {
	case <-done:
	case <-time.After(10 * time.Second):
		vl.add("c15-hook", "client did not return within 10 s of cancellation")
	}
	vl.write(t, "c15hook", map[string]interface{}{"distinct_nontrivial": int(atomic.LoadInt64(&vl.n)), "histogram": map[string]int{"configuration:hook-told": int(atomic.LoadInt64(&vl.n))},
		"samples": []string{"real hook script (child process) of the real client in real time: first lease, then three link-up re-validations whose ACK differs only in the domain, only in the DNS list, only by the missing domain"}})
}

func TestC19Hook(t *testing.T) {
	vl := &violationLog{}
	for _, when := range []string{"purge", "configured", "purge-deaf", "failing"} {
		w := newHookWorld(t, "c19hook")
		atomic.AddInt64(&vl.n, 1)
		repo0 := repoGoroutines()
		if when == "failing" {
			// a hook that exits with an error every time (after saying something): the client goes on, and once it has been
			// cancelled nothing of it is left - no goroutine still waiting for a hook that is long gone
			script := filepath.Join(w.dir, "hook.sh")
			os.WriteFile(script, []byte("#!/bin/sh\necho hook says no\necho x >> "+w.dir+"/ran\nexit 1\n"), 0o755)
			ctx, cancel := context.WithCancel(context.Background())
			mc := client.New(log.New(logSink{}, "", 0), w.iface, script, true)
			done := make(chan bool)
			go func() { defer close(done); defer func() { recover() }(); mc.Run(ctx) }()
			for end := time.Now().Add(15 * time.Second); time.Now().Before(end) && setifaceCount(w.name) == 0; time.Sleep(20 * time.Millisecond) {
			}
			time.Sleep(500 * time.Millisecond)
			b, _ := os.ReadFile(filepath.Join(w.dir, "ran"))
			if setifaceCount(w.name) == 0 || len(b) < 4 {
				vl.add("c19-hook", "failing hook: the client did not get to its lease within 15 s (configurations %d, hook runs %d)", setifaceCount(w.name), len(b)/2)
			}
			cancel()
			select {
			case <-done:
			case <-time.After(8 * time.Second):
				vl.add("c19-hook", "cancelled after hooks that failed: Run had not returned after 8 s")
				<-done
			}
			left := repoGoroutines()
			for end := time.Now().Add(3 * time.Second); time.Now().Before(end) && left > repo0; time.Sleep(50 * time.Millisecond) {
				left = repoGoroutines()
			}
			if left > repo0 {
				vl.add("c19-hook", "after %d hook runs that exited with status 1 and the client's shutdown %d goroutines still run its code (%d before it started)", len(b)/2, left, repo0)
			}
			w.drop()
			continue
		}
		script := filepath.Join(w.dir, "hook.sh")
		// the hook marks its start and then takes its time; at the purge it has no address in its environment.
		// "deaf": it ignores the polite signals (SIGTERM, SIGINT, SIGHUP): only a kill ends it
		trap, at := "", when
		if when == "purge-deaf" {
			trap, at = "trap '' TERM INT HUP\n", "purge"
		}
		body := "#!/bin/sh\n" + trap + "if [ -n \"$PSA_DHCPC_IPV4_ADDRESS\" ]; then k=configured; else k=purge; fi\nif [ $k = " + at + " ]; then touch " + w.dir + "/started; exec sleep 25; fi\n"
		os.WriteFile(script, []byte(body), 0o755)
		ctx, cancel := context.WithCancel(context.Background())
		mc := client.New(log.New(logSink{}, "", 0), w.iface, script, true)
		done := make(chan bool)
		go func() { defer close(done); defer func() { recover() }(); mc.Run(ctx) }()
		started := false
		for end := time.Now().Add(15 * time.Second); time.Now().Before(end) && !started; time.Sleep(20 * time.Millisecond) {
			if _, err := os.Stat(filepath.Join(w.dir, "started")); err == nil {
				started = true
			}
		}
		if !started {
			vl.add("c19-hook", "hook (%s) never started", when)
		}
		time.Sleep(300 * time.Millisecond)
		t0 := time.Now()
		cancel()
		select {
		case <-done:
			if d := time.Since(t0); d > 3*time.Second {
				vl.add("c19-hook", "cancelled while the hook (%s) was running: Run returned only after %v", when, d)
			}
		case <-time.After(8 * time.Second):
			vl.add("c19-hook", "cancelled while the hook (%s) was running: Run had not returned after 8 s (the hook sleeps 25 s)", when)
			<-done
		}
		if o, c := w.seg.Counters(); o != c {
			time.Sleep(500 * time.Millisecond)
			if o, c = w.seg.Counters(); o != c {
				vl.add("c19-hook", "after cancellation during the hook (%s): opens=%d closes=%d", when, o, c)
			}
		}
		left := repoGoroutines()
		for end := time.Now().Add(3 * time.Second); time.Now().Before(end) && left > repo0; time.Sleep(50 * time.Millisecond) {
			left = repoGoroutines()
		}
		if left > repo0 {
			vl.add("c19-hook", "after cancellation during the hook (%s) and Run's return %d goroutines still run the client's code (%d before it started)", when, left, repo0)
		}
		w.drop()
	}
	vl.write(t, "c19hook", map[string]interface{}{"distinct_nontrivial": int(atomic.LoadInt64(&vl.n)), "histogram": map[string]int{"cancel-during-hook": int(atomic.LoadInt64(&vl.n))},
		"samples": []string{"real client with a hook script that sleeps 25 s (at the purge; after the configuration; at the purge while ignoring TERM/INT/HUP): cancel 0.3 s after the hook started, Run must return within 3 s"}})
}
