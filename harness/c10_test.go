package harness

import (
	"bytes"
	"fmt"
	"log"
	"net"
	"sort"
	"sync"
	"sync/atomic"
	"testing"
	"testing/synctest"
	"time"

	"git.sr.ht/~adrian-blx/psa-dhcp/lib/dhcpmsg"
	"git.sr.ht/~adrian-blx/psa-dhcp/lib/layer"
	"git.sr.ht/~adrian-blx/psa-dhcp/lib/oui"
	"git.sr.ht/~adrian-blx/psa-dhcp/lib/rsocks"
	"git.sr.ht/~adrian-blx/psa-dhcp/lib/server/ylog"
)

// registryMACs: hardware addresses whose vendor prefix is in the compiled-in registry, two per length of vendor name
// (what the server does with a packet must not depend on how its sender's vendor is called), shortest names first.
var registryMACs = sync.OnceValue(func() [][]byte {
	byLen := map[int][][]byte{}
	for _, hi := range []uint32{0x00, 0x08, 0x3c, 0x52, 0xac, 0xf0} {
		for lo := uint32(0); lo < 1<<16; lo++ {
			mac := []byte{byte(hi), byte(lo >> 8), byte(lo), 0x12, 0x34, 0x56}
			if name, ok := oui.Lookup(net.HardwareAddr(mac)); ok && len(byLen[len(name)]) < 2 {
				byLen[len(name)] = append(byLen[len(name)], mac)
			}
		}
	}
	var lens []int
	for l := range byLen {
		lens = append(lens, l)
	}
	sort.Ints(lens)
	var out [][]byte
	for _, l := range lens {
		out = append(out, byLen[l]...)
	}
	return out
})

// receivePath runs what the server loop (run.go) and the client filter (dclient/netio.go) do with a frame up to the
// point where a handler would be started.  Returns whether the frame reaches a handler, or panics.
func receivePath(b []byte) (handled bool) {
	v4, err := layer.DecodeIPv4(b)
	if err != nil {
		return false
	}
	udp, err := layer.DecodeUDP(v4.Data)
	if err != nil {
		return false
	}
	m, err := dhcpmsg.Decode(udp.Data)
	if err != nil {
		return false
	}
	opts := dhcpmsg.DecodeOptions(m.Options)
	ylog.New(log.New(logSink{}, "", 0), *m, opts).Printf("%d", 1) // first thing a handler does
	_ = fmt.Sprintf("%s %v %v", m.ClientMAC, opts.RequestedIP, net.IP(opts.ServerIdentifier))
	return v4.Protocol == 0x11 && m.Op == dhcpmsg.OpRequest
}

// TestC10Malformed: malformed stream fed to the receive path in-process; a panic is a violation with the frame as replay;
// whether a frame reaches a handler is compared with the model's decode_chain (tag 1001).
func TestC10Malformed(t *testing.T) {
	c := newCaseWriter(t, "c10")
	defer c.close(t, "c10")
	vl := &violationLog{}
	r := newRand(10)
	cl := &simClient{mac: []byte{2, 0xbb, 0, 0, 0, 1}, cid: []byte{1, 2, 0xbb, 0, 0, 0, 1}, xid: 0x11223344}
	feed := func(kind string, b []byte) {
		var h bool
		if safely(func() { h = receivePath(b) }) {
			vl.add("panic", "receive path panicked on %s frame %x", kind, b)
			c.add(1001, kind, true, args(B(b)), resPanic())
			return
		}
		c.add(1001, kind, len(b) >= 268, args(B(b)), args(L{b2n(h)}))
	}
	good := udpip(0, 0xffffffff, 68, 67, 17, 64, cl.msg(1, 0, 0, wopt{50, u32b(0x0a000005)}, wopt{55, []byte{1, 3, 6, 15}}).bytes())
	// truncation of the whole frame at every offset
	for n := 0; n <= len(good); n++ {
		feed("frame-trunc", good[:n])
	}
	// DHCP payload truncated at every offset with consistent IP/UDP lengths
	pl := cl.msg(3, 0x8000, 0, wopt{50, u32b(0x0a000005)}, wopt{54, u32b(0x0a000001)}, wopt{55, []byte{1, 3, 6, 15}}, wopt{12, []byte("host")}).bytes()
	for n := 0; n <= len(pl); n++ {
		feed("payload-trunc", udpip(0, 0xffffffff, 68, 67, 17, 64, pl[:n]))
	}
	// short packets whose length fields agree with their length while the header length does not fit: every IHL, lengths around it
	for ihl := 0; ihl < 16; ihl++ {
		for _, l := range []int{20, 21, 24, 28, ihl*4 - 1, ihl * 4, ihl*4 + 1, 59, 60} {
			if l < 1 || l > len(good) {
				continue
			}
			b := append([]byte{}, good[:l]...)
			b[0] = byte(0x40 | ihl)
			if l >= 4 {
				b[2], b[3] = byte(l>>8), byte(l)
			}
			feed("ihl-vs-length", b)
		}
	}
	// every hardware address length
	for hl := 0; hl < 256; hl++ {
		m := cl.msg(1, 0, 0)
		m.hlen = byte(hl)
		feed("hlen", udpip(0, 0xffffffff, 68, 67, 17, 64, m.bytes()))
	}
	// senders of every registered vendor-name length, each message type
	for _, mac := range registryMACs() {
		for _, typ := range []byte{1, 3, 4, 7, 8} {
			rc := &simClient{mac: mac, xid: 0x55667788}
			feed("vendor", udpip(0, 0xffffffff, 68, 67, 17, 64, rc.msg(typ, 0, 0).bytes()))
		}
	}
	// option areas over a structural alphabet, exhaustively up to a length, then random longer ones
	alpha := []byte{0, 255, 53, 1, 61, 4, 200}
	maxl := scale(4, 6)
	var rec func(area []byte)
	rec = func(area []byte) {
		m := cl.msg(1, 0, 0)
		m.rawOpts = append([]byte{}, area...)
		feed("optarea", udpip(0, 0xffffffff, 68, 67, 17, 64, m.bytes()))
		if len(area) < maxl {
			for _, a := range alpha {
				rec(append(area, a))
			}
		}
	}
	rec([]byte{})
	for i := 0; i < scale(3000, 150000); i++ {
		switch r.Intn(5) {
		case 0:
			feed("random", randBytes(r, r.Intn(400)))
		case 1: // valid IP/UDP around random payload of DHCP size
			feed("random-payload", udpip(r.Uint32(), r.Uint32(), uint16(r.Uint32()), 67, byte(17*r.Intn(2)+r.Intn(2)*r.Intn(200)), 64, randBytes(r, 236+r.Intn(80))))
		case 2: // bit flips in a good frame
			b := append([]byte{}, good...)
			for k := 0; k < 1+r.Intn(4); k++ {
				b[r.Intn(len(b))] ^= byte(1 << uint(r.Intn(8)))
			}
			feed("bitflip", b)
		case 3: // length fields off
			b := append([]byte{}, good...)
			b[2+r.Intn(2)] += byte(r.Intn(3)) - 1
			b[24+r.Intn(2)] += byte(r.Intn(3)) - 1
			feed("lengths", b)
		case 4: // oversized frames up to the receive buffer
			m := cl.msg(1, 0, 0)
			m.rawOpts = bytes.Repeat([]byte{0}, r.Intn(3700))
			m.rawOpts = append(m.rawOpts, byte(r.Intn(256)), byte(r.Intn(256)))
			feed("oversize", udpip(0, 0xffffffff, 68, 67, 17, 64, m.bytes()))
		}
	}
	vl.write(t, "c10panic", map[string]interface{}{"distinct_nontrivial": 0, "histogram": map[string]int{}, "samples": []string{}})
}

// TestC10Handlers: the whole handler (handleMsg: identity, search with ARP probes, verification of a REQUEST, reply) on
// messages of every hardware-address length 0..16, DISCOVER and REQUEST, while hosts answer the ARP probes - with a foreign
// hardware address, with the first octets of the client's (padded to six), and not at all.  The handler is called in this
// goroutine, so a panic (which would kill the daemon) is caught and reported with the message as replay.
func TestC10Handlers(t *testing.T) {
	vl := &violationLog{}
	st := newC19stats()
	synctest.Test(t, func(t *testing.T) {
		r := newRand(1010)
		netU := uint32(0x0a630000)
		cfg := srvCfg{netU: netU, maskU: 0xffffff00, bits: 24, lease: time.Minute, selfIP: netU + 1, selfMAC: []byte{2, 0xaa, 0, 0, 0, 1},
			hasRange: true, rangeB: netU + 10, rangeE: netU + 12, router: ipStr(netU + 1)}
		s, err := startServer(t, cfg)
		if err != nil {
			t.Fatalf("server.New: %v", err)
		}
		defer s.stop()
		for hl := 0; hl <= 16; hl++ {
			for _, typ := range []byte{1, 3} {
				for _, who := range []string{"foreign", "prefix", "nobody"} {
					mac := randBytes(r, hl)
					answer := []byte{2, 0xcc, 0, 0, 0, 9}
					if who == "prefix" {
						answer = append(append([]byte{}, mac...), 0, 0, 0, 0, 0, 0)[:6]
					}
					s.arp = map[uint32]arpResp{}
					s.arpMu.Lock()
					s.arpSeen = map[uint32]int{}
					s.arpMu.Unlock()
					if who != "nobody" {
						for a := cfg.rangeB; a <= cfg.rangeE; a++ {
							s.arp[a] = arpResp{ip: a, mac: answer, delay: time.Duration(1+r.Intn(150)) * time.Millisecond}
						}
					}
					cl := &simClient{mac: mac, xid: r.Uint32()}
					wm := cl.msg(typ, 0, 0)
					src, dst := uint32(0), uint32(0xffffffff)
					if typ == 3 {
						wm = cl.msg(3, 0, 0, wopt{50, u32b(cfg.rangeB + uint32(r.Intn(3)))}, wopt{54, u32b(cfg.selfIP)})
					}
					wm.hlen = byte(hl)
					m, err := dhcpmsg.Decode(wm.bytes())
					if err != nil {
						t.Fatalf("decode: %v", err)
					}
					atomic.AddInt64(&vl.n, 1)
					st.count(fmt.Sprintf("hlen%d/type%d/%s", hl, typ, who))
					var pv interface{}
					func() {
						defer func() { pv = recover() }()
						s.srv.VerifHandleMsg(ip4(src), ip4(dst), *m)
					}()
					if pv != nil {
						vl.add("panic", "handler panicked (%v) on a type-%d message with a %d-octet hardware address %x while %s answers the ARP probes", pv, typ, hl, mac, who)
					}
					time.Sleep(2 * time.Second)
				}
			}
		}
	})
	vl.write(t, "c10handlers", st.meta(int(atomic.LoadInt64(&vl.n)), "handleMsg called directly for hlen 0..16 x DISCOVER/REQUEST x ARP answers from a foreign address / from the client's first octets / from nobody"))
}

// TestC10Flood: "no sequence of byte strings ... makes the server hang": more irrelevant datagrams than any counter or pool of the
// receive loop could hold (other servers' replies, undecodable payloads, non-UDP packets) arrive within one Run(); a DISCOVER that
// follows must be answered like the first one was.
func TestC10Flood(t *testing.T) {
	vl := &violationLog{}
	synctest.Test(t, func(t *testing.T) {
		r := newRand(1011)
		netU := uint32(0x0a640000)
		cfg := srvCfg{netU: netU, maskU: 0xffffff00, bits: 24, lease: time.Minute, selfIP: netU + 1, selfMAC: []byte{2, 0xaa, 0, 0, 0, 1},
			hasRange: true, rangeB: netU + 10, rangeE: netU + 12, router: ipStr(netU + 1)}
		s, err := startServer(t, cfg)
		if err != nil {
			t.Fatalf("server.New: %v", err)
		}
		defer s.stop()
		cl := &simClient{mac: []byte{2, 0xbb, 0, 0, 9, 1}, xid: 0x01020304}
		atomic.AddInt64(&vl.n, 1)
		if o := s.round(cl.discover(0, 0), nil); len(o.outs) != 1 {
			vl.add("c10-flood", "a DISCOVER on a fresh server got %d replies", len(o.outs))
			return
		}
		n := scale(2500, 140000)
		other := &simClient{mac: []byte{2, 0xbb, 0, 0, 9, 2}, xid: 7}
		for i := 0; i < n; i++ {
			var b []byte
			switch i % 4 {
			case 0: // a reply of some other server (BOOTREPLY)
				m := other.msg(2, 0, 0)
				m.op = 2
				b = udpip(netU+7, 0xffffffff, 67, 68, 17, 64, m.bytes())
			case 1: // undecodable option area
				m := other.msg(1, 0, 0)
				m.rawOpts = []byte{53, 1}
				b = udpip(0, 0xffffffff, 68, 67, 17, 64, m.bytes())
			case 2: // not UDP
				b = udpip(0, 0xffffffff, 68, 67, 6, 64, other.msg(1, 0, 0).bytes())
			default:
				b = randBytes(r, 20+r.Intn(200))
			}
			s.seg.Inject(rsocks.KindIP, b)
			if i%64 == 63 {
				time.Sleep(time.Millisecond) // let the receive loop drain its socket
			}
		}
		time.Sleep(2 * time.Second)
		cl2 := &simClient{mac: []byte{2, 0xbb, 0, 0, 9, 3}, xid: 0x0a0b0c0d}
		atomic.AddInt64(&vl.n, 1)
		before := len(s.seg.Frames())
		s.seg.Inject(rsocks.KindIP, cl2.discover(0, 0))
		time.Sleep(3 * time.Second)
		got := 0
		for _, f := range s.seg.Frames()[before:] {
			if f.Kind == rsocks.KindIP {
				if rp := parseReply(f.Payload); rp.ok && rp.typ == 2 && rp.msg.xid == cl2.xid {
					got++
				}
			}
		}
		if got != 1 {
			vl.add("c10-flood", "after %d irrelevant datagrams (replies of another server, undecodable option areas, non-UDP, random bytes) a DISCOVER got %d OFFERs within 3 s", n, got)
		}
	})
	vl.write(t, "c10flood", map[string]interface{}{"distinct_nontrivial": int(atomic.LoadInt64(&vl.n)), "histogram": map[string]int{"flood:discover-after": 1},
		"samples": []string{"2 500 / 140 000 irrelevant datagrams through the real receive loop, then a DISCOVER that must be answered"}})
}
