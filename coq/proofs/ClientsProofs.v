From PSA Require Import model.Bytes model.Clients spec.SpecTable.
From Coq Require Import ZifyN ZifyNat ZifyBool.
Open Scope N_scope.

(* ---------- keys ---------- *)

Lemma bytes_eqb_eq a b : bytes_eqb a b = true <-> a = b.
Proof.
  revert b. induction a as [|x a IH]; destruct b as [|y b]; cbn; split; intros H; try congruence; try discriminate.
  - apply andb_true_iff in H as [H1 H2]. apply N.eqb_eq in H1. apply IH in H2. congruence.
  - injection H as -> ->. rewrite N.eqb_refl. apply IH. reflexivity.
Qed.

Lemma key_eqb_eq a b : key_eqb a b = true <-> a = b.
Proof.
  destruct a, b; cbn; try (split; [discriminate|congruence]).
  - rewrite N.eqb_eq. split; congruence.
  - rewrite bytes_eqb_eq. split; congruence.
Qed.

Lemma key_eqb_refl a : key_eqb a a = true.
Proof. apply key_eqb_eq. reflexivity. Qed.

Lemma key_eqb_neq a b : key_eqb a b = false <-> a <> b.
Proof. rewrite <- key_eqb_eq. destruct (key_eqb a b); split; congruence. Qed.

Lemma kfind_kremove k k' m : kfind k' (kremove k m) = if key_eqb k' k then None else kfind k' m.
Proof.
  induction m as [|[k0 p] m IH]; cbn.
  - destruct (key_eqb k' k); reflexivity.
  - destruct (key_eqb k k0) eqn:E.
    + apply key_eqb_eq in E. subst k0. rewrite IH. destruct (key_eqb k' k); reflexivity.
    + cbn. rewrite IH. destruct (key_eqb k' k0) eqn:E2; [|reflexivity].
      apply key_eqb_eq in E2. subst k0. apply key_eqb_neq in E.
      replace (key_eqb k' k) with false; [reflexivity|]. symmetry. apply key_eqb_neq. congruence.
Qed.

Lemma kfind_kset k p k' m : kfind k' (kset k p m) = if key_eqb k' k then Some p else kfind k' m.
Proof. unfold kset. cbn. destruct (key_eqb k' k) eqn:E; [reflexivity|]. rewrite kfind_kremove, E. reflexivity. Qed.

Lemma has_key_own_ip e : has_key (KIp (e_ip e)) e = true.
Proof. cbn. apply N.eqb_refl. Qed.
Lemma has_key_own_duid e : has_key (KDuid (e_duid e)) e = true.
Proof. cbn. apply bytes_eqb_eq. reflexivity. Qed.

Lemma has_key_iff k e : has_key k e = true <-> (k = KIp (e_ip e) \/ k = KDuid (e_duid e)).
Proof.
  destruct k; cbn.
  - rewrite N.eqb_eq. split; [intros <-; auto | intros [H|H]; congruence].
  - rewrite bytes_eqb_eq. split; [intros <-; auto | intros [H|H]; congruence].
Qed.

(* ---------- find_live ---------- *)

Lemma find_live_some now k t i p : find_live now k t i = Some p ->
  (i <= p)%nat /\ exists e, nth_error t (p - i) = Some e /\ live now e = true /\ has_key k e = true /\
  forall q e', (q < p - i)%nat -> nth_error t q = Some e' -> live now e' && has_key k e' = false.
Proof.
  revert i. induction t as [|e t IH]; intros i H; [discriminate|]. cbn in H.
  destruct (live now e && has_key k e) eqn:E.
  - injection H as <-. split; [lia|]. rewrite Nat.sub_diag. exists e. apply andb_true_iff in E as [E1 E2].
    repeat split; auto. intros q e' Hq. lia.
  - apply IH in H as (Hi & e0 & Hn & Hl & Hk & Hmin). split; [lia|]. exists e0.
    replace (p - i)%nat with (S (p - S i)) by lia. cbn. repeat split; auto.
    intros q e' Hq Hn'. destruct q as [|q]; cbn in Hn'.
    + injection Hn' as <-. exact E.
    + apply (Hmin q e'); [lia|exact Hn'].
Qed.

Lemma find_live_none now k t i : find_live now k t i = None ->
  forall q e, nth_error t q = Some e -> live now e && has_key k e = false.
Proof.
  revert i. induction t as [|e t IH]; intros i H q e' Hn; [destruct q; discriminate|]. cbn in H.
  destruct (live now e && has_key k e) eqn:E; [discriminate|].
  destruct q as [|q]; cbn in Hn; [injection Hn as <-; exact E|]. eapply IH; eauto.
Qed.

Lemma find_live_shift now k t i : find_live now k t (S i) = option_map S (find_live now k t i).
Proof. revert i. induction t as [|e t IH]; intros i; cbn; [reflexivity|]. destruct (live now e && has_key k e); [reflexivity|apply IH]. Qed.

(* characterisation used everywhere: find_live returns p iff p is live with key k and no other index is *)
Lemma find_live_unique now k t p e :
  nth_error t p = Some e -> live now e = true -> has_key k e = true ->
  (forall q e', nth_error t q = Some e' -> live now e' = true -> has_key k e' = true -> q = p) ->
  find_live now k t 0 = Some p.
Proof.
  intros Hn Hl Hk Hu. destruct (find_live now k t 0) as [p'|] eqn:E.
  - apply find_live_some in E as (_ & e0 & Hn0 & Hl0 & Hk0 & _). rewrite Nat.sub_0_r in Hn0.
    f_equal. eapply Hu; eauto.
  - pose proof (find_live_none _ _ _ _ E p e Hn) as H. rewrite Hl, Hk in H. discriminate.
Qed.

(* ---------- the representation invariant ---------- *)

Record Rep (now : Z) (s : store) : Prop := {
  rep_k1 : forall k p, kfind k (keys s) = Some p -> exists e, nth_error (heap s) p = Some e /\ has_key k e = true;
  rep_k2 : forall p e, nth_error (heap s) p = Some e -> live now e = true ->
             kfind (KIp (e_ip e)) (keys s) = Some p /\ kfind (KDuid (e_duid e)) (keys s) = Some p }.

Lemma live_mono now now' e : (now <= now')%Z -> live now' e = true -> live now e = true.
Proof. unfold live, expired. intros H. destruct (e_perm e); cbn; [auto|]. lia. Qed.

Lemma Rep_mono now now' s : (now <= now')%Z -> Rep now s -> Rep now' s.
Proof.
  intros H [K1 K2]. split; [exact K1|]. intros p e Hn Hl. apply K2; [exact Hn|]. eapply live_mono; eauto.
Qed.

Lemma Rep_empty now : Rep now empty_store.
Proof. split; cbn; [discriminate|]. intros p e H. destruct p; discriminate. Qed.

Lemma Rep_unique now s : Rep now s -> unique_live now (heap s).
Proof.
  intros [K1 K2] k p q e1 e2 H1 H2 L1 L2 Hk1 Hk2.
  destruct (K2 p e1 H1 L1) as [A1 B1]. destruct (K2 q e2 H2 L2) as [A2 B2].
  apply has_key_iff in Hk1. apply has_key_iff in Hk2.
  destruct Hk1 as [-> | ->], Hk2 as [E|E]; try discriminate; injection E as E; congruence.
Qed.

(* one loop iteration of Lookup agrees with the scan, keeps the heap and the invariant *)
Lemma lookup_key_refines now k s r s' :
  Rep now s -> lookup_key now k s = (r, s') ->
  r = find_live now k (heap s) 0 /\ heap s' = heap s /\ Rep now s' /\
  (forall p, r = Some p -> s' = s /\ kfind k (keys s) = Some p).
Proof.
  intros HR H. pose proof HR as [K1 K2]. unfold lookup_key in H.
  destruct (kfind k (keys s)) as [p|] eqn:Ef.
  - destruct (K1 k p Ef) as (e & Hn & Hk). rewrite Hn in H.
    destruct (expired now e) eqn:Ex; injection H as <- <-.
    + (* stale key: removed; the scan finds nothing *)
      split.
      { symmetry. destruct (find_live now k (heap s) 0) as [q|] eqn:E; [|reflexivity]. exfalso.
        apply find_live_some in E as (_ & e0 & Hn0 & Hl0 & Hk0 & _). rewrite Nat.sub_0_r in Hn0.
        destruct (K2 q e0 Hn0 Hl0) as [A B]. apply has_key_iff in Hk0.
        assert (kfind k (keys s) = Some q) by (destruct Hk0 as [-> | ->]; assumption).
        assert (q = p) by congruence. subst q. assert (e0 = e) by congruence. subst e0.
        unfold live in Hl0. rewrite Ex in Hl0. discriminate. }
      split; [reflexivity|]. split; [|intros; discriminate].
      split; cbn [keys heap].
      * intros k' p' Hf. rewrite kfind_kremove in Hf. destruct (key_eqb k' k); [discriminate|]. apply K1. exact Hf.
      * intros p' e' Hn' Hl'. destruct (K2 p' e' Hn' Hl') as [A B]. rewrite !kfind_kremove.
        assert (Hne : forall k', kfind k' (keys s) = Some p' -> key_eqb k' k = false).
        { intros k' Hk'. apply key_eqb_neq. intros ->. assert (p' = p) by congruence. subst p'.
          assert (e' = e) by congruence. subst e'. unfold live in Hl'. rewrite Ex in Hl'. discriminate. }
        rewrite (Hne _ A), (Hne _ B). auto.
    + split.
      { symmetry. apply (find_live_unique now k (heap s) p e Hn); [unfold live; rewrite Ex; reflexivity|exact Hk|].
        intros q e' Hn' Hl' Hk'. destruct (K2 q e' Hn' Hl') as [A B]. apply has_key_iff in Hk'.
        assert (kfind k (keys s) = Some q) by (destruct Hk' as [-> | ->]; assumption). congruence. }
      split; [reflexivity|]. split; [exact HR|]. intros p0 Hp0. injection Hp0 as <-. auto.
  - injection H as <- <-. split.
    { symmetry. destruct (find_live now k (heap s) 0) as [q|] eqn:E; [|reflexivity]. exfalso.
      apply find_live_some in E as (_ & e0 & Hn0 & Hl0 & Hk0 & _). rewrite Nat.sub_0_r in Hn0.
      destruct (K2 q e0 Hn0 Hl0) as [A B]. apply has_key_iff in Hk0.
      assert (kfind k (keys s) = Some q) by (destruct Hk0 as [-> | ->]; assumption). congruence. }
    split; [reflexivity|]. split; [exact HR|]. intros; discriminate.
Qed.

Lemma lookup_refines now ip duid s r1 r2 s' :
  Rep now s -> lookup now ip duid s = (r1, r2, s') ->
  (r1, r2) = t_lookup now ip duid (heap s) /\ heap s' = heap s /\ Rep now s' /\
  (forall p q, r1 = Some p -> r2 = Some q -> s' = s /\ kfind (KIp ip) (keys s) = Some p /\ kfind (KDuid duid) (keys s) = Some q).
Proof.
  intros HR H. unfold lookup in H.
  destruct (lookup_key now (KIp ip) s) as [a s1] eqn:E1.
  destruct (lookup_key now (KDuid duid) s1) as [b s2] eqn:E2.
  injection H as <- <- <-.
  destruct (lookup_key_refines _ _ _ _ _ HR E1) as (Ha & Hh1 & HR1 & Hs1).
  destruct (lookup_key_refines _ _ _ _ _ HR1 E2) as (Hb & Hh2 & HR2 & Hs2).
  split; [unfold t_lookup; rewrite Ha, Hb, Hh1; reflexivity|].
  split; [congruence|]. split; [exact HR2|].
  intros p q Hp Hq. destruct (Hs1 p Hp) as [-> Hk1]. destruct (Hs2 q Hq) as [-> Hk2]. auto.
Qed.

Lemma nth_error_set_until h p u q :
  nth_error (set_until h p u) q =
  if Nat.eqb q p then option_map (fun e => {| e_ip := e_ip e; e_duid := e_duid e; e_until := u; e_perm := e_perm e |}) (nth_error h q)
  else nth_error h q.
Proof.
  revert p q. induction h as [|e h IH]; intros p q.
  - cbn. destruct (Nat.eqb q p); destruct q; reflexivity.
  - destruct p as [|p], q as [|q]; cbn; try reflexivity. apply IH.
Qed.

Lemma length_set_until h p u : length (set_until h p u) = length h.
Proof. revert p. induction h as [|e h IH]; intros [|p]; cbn; auto. Qed.

Lemma t_lookup_none_l now ip duid t : fst (t_lookup now ip duid t) = None ->
  forall q e, nth_error t q = Some e -> live now e = true -> e_ip e <> ip.
Proof.
  cbn. intros H q e Hn Hl Heq. pose proof (find_live_none _ _ _ _ H q e Hn) as Hf.
  rewrite Hl in Hf. cbn in Hf. apply N.eqb_neq in Hf. contradiction.
Qed.

Lemma t_lookup_none_r now ip duid t : snd (t_lookup now ip duid t) = None ->
  forall q e, nth_error t q = Some e -> live now e = true -> e_duid e <> duid.
Proof.
  cbn. intros H q e Hn Hl Heq. pose proof (find_live_none _ _ _ _ H q e Hn) as Hf.
  rewrite Hl in Hf. cbn in Hf. subst duid. assert (bytes_eqb (e_duid e) (e_duid e) = true) by (apply bytes_eqb_eq; reflexivity). congruence.
Qed.

Lemma inject_refines now ip duid until perm s ok s' :
  Rep now s -> inject now ip duid until perm s = (ok, s') ->
  (ok, heap s') = t_inject now ip duid until perm (heap s) /\ Rep now s'.
Proof.
  intros HR H. unfold inject in H.
  destruct (lookup now ip duid s) as [[r1 r2] s1] eqn:El.
  destruct (lookup_refines _ _ _ _ _ _ _ HR El) as (Ht & Hh & HR1 & _).
  unfold t_inject. rewrite <- Ht.
  destruct r1 as [p|]; [injection H as <- <-; split; [rewrite Hh; reflexivity|exact HR1]|].
  destruct r2 as [q|]; [injection H as <- <-; split; [rewrite Hh; reflexivity|exact HR1]|].
  injection H as <- <-. cbn [heap keys]. split; [rewrite Hh; reflexivity|].
  destruct HR1 as [K1 K2].
  assert (Hnl : forall q e, nth_error (heap s1) q = Some e -> live now e = true -> e_ip e <> ip /\ e_duid e <> duid).
  { intros q e Hn Hl. rewrite Hh in Hn. split.
    - eapply t_lookup_none_l; eauto. rewrite <- Ht. reflexivity.
    - eapply t_lookup_none_r; eauto. rewrite <- Ht. reflexivity. }
  set (enew := {| e_ip := ip; e_duid := duid; e_until := until; e_perm := perm |}).
  split; cbn [keys heap].
  - intros k p Hf. rewrite !kfind_kset in Hf.
    destruct (key_eqb k (KDuid duid)) eqn:E1.
    { injection Hf as <-. exists enew. rewrite nth_error_app2, Nat.sub_diag by lia. split; [reflexivity|].
      apply key_eqb_eq in E1. subst k. apply has_key_own_duid. }
    destruct (key_eqb k (KIp ip)) eqn:E2.
    { injection Hf as <-. exists enew. rewrite nth_error_app2, Nat.sub_diag by lia. split; [reflexivity|].
      apply key_eqb_eq in E2. subst k. apply has_key_own_ip. }
    destruct (K1 k p Hf) as (e & Hn & Hk). exists e. split; [|exact Hk].
    rewrite nth_error_app1; [exact Hn|]. apply nth_error_Some. congruence.
  - intros p e Hn Hl. rewrite !kfind_kset.
    destruct (Nat.lt_ge_cases p (length (heap s1))) as [Hlt|Hge].
    + rewrite nth_error_app1 in Hn by exact Hlt. destruct (Hnl p e Hn Hl) as [Hi Hd].
      destruct (K2 p e Hn Hl) as [A B].
      cbn [key_eqb]. replace (e_ip e =? ip) with false by (symmetry; apply N.eqb_neq; exact Hi).
      replace (bytes_eqb (e_duid e) duid) with false.
      2:{ symmetry. destruct (bytes_eqb (e_duid e) duid) eqn:E; [|reflexivity]. apply bytes_eqb_eq in E. contradiction. }
      auto.
    + rewrite nth_error_app2 in Hn by exact Hge.
      destruct (p - length (heap s1))%nat as [|d] eqn:Ed; cbn in Hn; [|destruct d; discriminate].
      injection Hn as <-. assert (p = length (heap s1)) by lia. subst p.
      cbn [e_ip e_duid enew key_eqb]. rewrite N.eqb_refl.
      replace (bytes_eqb duid duid) with true by (symmetry; apply bytes_eqb_eq; reflexivity). auto.
Qed.

Lemma set_lease_refines now ip duid until s ok s' :
  Rep now s -> set_lease now ip duid until s = (ok, s') ->
  (ok, heap s') = t_set_lease now ip duid until (heap s) /\ Rep now s'.
Proof.
  intros HR H. unfold set_lease in H.
  destruct (lookup now ip duid s) as [[r1 r2] s1] eqn:El.
  destruct (lookup_refines _ _ _ _ _ _ _ HR El) as (Ht & Hh & HR1 & Hboth).
  unfold t_set_lease. rewrite <- Ht.
  destruct r1 as [p|]; [|injection H as <- <-; split; [rewrite Hh; reflexivity|exact HR1]].
  destruct r2 as [q|]; [|injection H as <- <-; split; [rewrite Hh; reflexivity|exact HR1]].
  destruct (Nat.eqb p q) eqn:Epq; [|injection H as <- <-; split; [rewrite Hh; reflexivity|exact HR1]].
  apply Nat.eqb_eq in Epq. subst q. injection H as <- <-. cbn [heap keys]. split; [rewrite Hh; reflexivity|].
  destruct (Hboth p p eq_refl eq_refl) as (-> & Hk1 & Hk2). clear Hboth Hh.
  destruct HR as [K1 K2].
  split; cbn [keys heap].
  - intros k p' Hf. destruct (K1 k p' Hf) as (e & Hn & Hk). rewrite nth_error_set_until.
    destruct (Nat.eqb p' p); [rewrite Hn; cbn; eexists; split; [reflexivity|]|eauto].
    destruct k; exact Hk.
  - intros p' e Hn Hl. rewrite nth_error_set_until in Hn.
    destruct (Nat.eqb p' p) eqn:E.
    + apply Nat.eqb_eq in E. subst p'.
      destruct (nth_error (heap s) p) as [e0|] eqn:Hn0; [|discriminate]. cbn in Hn. injection Hn as <-. cbn [e_ip e_duid].
      destruct (K1 _ _ Hk1) as (ea & Hna & Hka). destruct (K1 _ _ Hk2) as (eb & Hnb & Hkb).
      assert (ea = e0) by congruence. assert (eb = e0) by congruence. subst ea eb.
      cbn in Hka, Hkb. apply N.eqb_eq in Hka. apply bytes_eqb_eq in Hkb. rewrite Hka, Hkb. auto.
    + apply K2; assumption.
Qed.
