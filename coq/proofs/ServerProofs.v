From PSA Require Import gen.GoFacts model.Bytes model.Checksum model.Layer model.Dhcp model.Clients model.Ipdb model.IpdbCheck
  spec.SpecCodec spec.SpecTable spec.SpecIpdb model.Server spec.Monitors
  proofs.ChecksumProofs proofs.LayerProofs proofs.DhcpProofs proofs.ClientsProofs proofs.TableProofs proofs.LeaseProofs.
From Coq Require Import ZifyN ZifyNat ZifyBool.
Open Scope N_scope.

(* ---------- identity: the server's client key separates what the property separates (R1) ---------- *)

Lemma internal_prefix_sduid mac : internal_prefix (sduid mac) = true.
Proof. reflexivity. Qed.

Lemma sduid_inj a b : sduid a = sduid b -> a = b.
Proof. unfold sduid. intros H. injection H. auto. Qed.

Theorem identity_separates c m1 o1 m2 o2 :
  pid c m1 o1 <> pid c m2 o2 ->
  get_duid c (d_chaddr m1) (o_cid o1) <> get_duid c (d_chaddr m2) (o_cid o2).
Proof.
  unfold pid, get_duid, usable_cid.
  destruct (reserved_ip c (d_chaddr m1)) eqn:R1, (reserved_ip c (d_chaddr m2)) eqn:R2.
  - intros H E. apply sduid_inj in E. congruence.
  - destruct (len (o_cid o2) <? 4) eqn:L2; cbn.
    + intros H E. apply sduid_inj in E. congruence.
    + destruct (internal_prefix (o_cid o2)) eqn:P2; cbn.
      * replace (4 <=? len (o_cid o2)) with true by lia. cbn. intros H E. apply sduid_inj in E. congruence.
      * intros _ E. rewrite <- E in P2. cbn in P2. discriminate.
  - destruct (len (o_cid o1) <? 4) eqn:L1; cbn.
    + intros H E. apply sduid_inj in E. congruence.
    + destruct (internal_prefix (o_cid o1)) eqn:P1; cbn.
      * replace (4 <=? len (o_cid o1)) with true by lia. cbn. intros H E. apply sduid_inj in E. congruence.
      * intros _ E. rewrite E in P1. cbn in P1. discriminate.
  - destruct (len (o_cid o1) <? 4) eqn:L1, (len (o_cid o2) <? 4) eqn:L2; cbn;
      replace (4 <=? len (o_cid o1)) with (negb (len (o_cid o1) <? 4)) by lia;
      replace (4 <=? len (o_cid o2)) with (negb (len (o_cid o2) <? 4)) by lia; rewrite ?L1, ?L2; cbn.
    + intros H E. apply sduid_inj in E. congruence.
    + destruct (internal_prefix (o_cid o2)) eqn:P2; cbn.
      * intros H E. apply sduid_inj in E. congruence.
      * intros _ E. rewrite <- E in P2. cbn in P2. discriminate.
    + destruct (internal_prefix (o_cid o1)) eqn:P1; cbn.
      * intros H E. apply sduid_inj in E. congruence.
      * intros _ E. rewrite E in P1. cbn in P1. discriminate.
    + destruct (internal_prefix (o_cid o1)) eqn:P1, (internal_prefix (o_cid o2)) eqn:P2; cbn.
      * intros H E. apply sduid_inj in E. congruence.
      * intros _ E. rewrite <- E in P2. cbn in P2. discriminate.
      * intros _ E. rewrite E in P1. cbn in P1. discriminate.
      * intros H E. congruence.
Qed.

(* a reserved hardware address is served under its internal identity whatever identifier it sends,
   and nobody else can obtain that identity *)
Theorem reserved_identity c mac cid ip : reserved_ip c mac = Some ip -> get_duid c mac cid = sduid mac.
Proof. unfold get_duid. intros ->. reflexivity. Qed.

Theorem identity_not_forgeable c mac cid mac' : get_duid c mac cid = sduid mac' -> mac = mac'.
Proof.
  unfold get_duid. destruct (reserved_ip c mac); [apply sduid_inj|].
  destruct ((len cid <? 4) || internal_prefix cid) eqn:E; [apply sduid_inj|].
  intros H. rewrite H in E. rewrite internal_prefix_sduid, orb_true_r in E. discriminate.
Qed.

(* ---------- C08: the ARP probe ---------- *)

Lemma find_resp_ip ip arp r : find_resp ip arp = Some r -> ar_ip r = ip /\ In r arp.
Proof.
  induction arp as [|a arp IH]; cbn; [discriminate|]. destruct (ar_ip a =? ip) eqn:E.
  - intros H. injection H as <-. apply N.eqb_eq in E. auto.
  - intros H. destruct (IH H). auto.
Qed.

Lemma probe_window_pos : (0 < arp_tries * arp_timeout)%Z.
Proof. reflexivity. Qed.

(* every probe ends within arp_tries windows of arp_timeout *)
Theorem probe_bounded arp mac ip : (forall r, In r arp -> (0 <= ar_delay r)%Z) ->
  (0 <= snd (probe_outcome arp mac ip) <= arp_tries * arp_timeout)%Z.
Proof.
  intros Hpos. pose proof probe_window_pos as W. unfold probe_outcome.
  destruct (find_resp ip arp) as [r|] eqn:F; [|cbn [snd]; lia].
  destruct (find_resp_ip _ _ _ F) as [_ Hin]. specialize (Hpos r Hin).
  destruct (ar_delay r <? arp_tries * arp_timeout)%Z eqn:E; cbn [snd]; lia.
Qed.

(* only answers whose sender address is the probed address count; a foreign answer inside the window
   blocks, an answer from the requester's own hardware address does not, silence does not *)
Theorem probe_semantics arp mac ip :
  (fst (probe_outcome arp mac ip) = false <->
   exists r, find_resp ip arp = Some r /\ ar_ip r = ip /\ (ar_delay r < arp_tries * arp_timeout)%Z /\ ar_mac r <> mac).
Proof.
  unfold probe_outcome. destruct (find_resp ip arp) as [r|] eqn:F.
  - destruct (find_resp_ip _ _ _ F) as [Hip _].
    destruct (ar_delay r <? arp_tries * arp_timeout)%Z eqn:E; cbn [fst].
    + split.
      * intros H. exists r. split; [reflexivity|]. split; [exact Hip|]. split; [lia|].
        intros Heq. rewrite (proj2 (bytes_eqb_eq _ _) Heq) in H. discriminate.
      * intros (r' & Hr & _ & _ & Hne). injection Hr as <-. destruct (bytes_eqb (ar_mac r) mac) eqn:B; [|reflexivity].
        apply bytes_eqb_eq in B. contradiction.
    + split; [discriminate|]. intros (r' & Hr & _ & Hd & _). injection Hr as <-. lia.
  - cbn [fst]. split; [discriminate|]. intros (r' & Hr & _). discriminate.
Qed.

(* a REQUEST for an address that a foreign host answers for is refused with NAK (accepted rounds) *)

(* ---------- C10: packets outside the handled set are a no-op ---------- *)

Theorem junk_is_noop c t r : handled c (r_pkt r) = false -> r_has_snap r = false ->
  forall t', accept_round c t r = RAcc t' -> t' = t /\ r_outs r = [].
Proof.
  unfold handled, parse_in, accept_round. intros H Hs t'. rewrite Hs.
  destruct (decode_chain (r_pkt r)) as [[[src dst] m]|].
  - cbn in H. unfold msg_kind.
    destruct (bytes_eqb (c_self_mac c) (d_chaddr m)).
    + destruct (r_outs r); intros E; [injection E as <-; auto|discriminate].
    + unfold gf_dhcpmsg_MsgTypeDiscover, gf_dhcpmsg_MsgTypeRequest.
      apply orb_false_iff in H as [H1 H3]. rewrite H1, H3.
      destruct (r_outs r); intros E; [injection E as <-; auto|discriminate].
  - destruct (r_outs r); intros E; [injection E as <-; auto|discriminate].
Qed.

(* the receive path never panics: each decoder of the chain is panic free for every byte string *)
Theorem receive_path_no_panic b :
  decode_ipv4 b <> Panic /\ decode_udp b <> Panic /\ dhcp_decode b <> Panic.
Proof. repeat split; [apply decode_ipv4_no_panic|apply decode_udp_no_panic|apply dhcp_decode_no_panic]. Qed.

(* ---------- the initial table ---------- *)

Definition all_perm (t : table) : Prop := forall p e, nth_error t p = Some e -> e_perm e = true.

Lemma add_perm_step x now ip d t : unique_live now t -> all_perm t ->
  unique_live now (snd (t_add_permanent x now ip d t)) /\ all_perm (snd (t_add_permanent x now ip d t)).
Proof.
  intros U A. unfold t_add_permanent. destruct (to_uip x ip) as [n|]; [|cbn; auto].
  destruct (t_inject now n d 0%Z true t) as [ok t'] eqn:E. cbn [snd]. split; [eapply t_inject_unique; eauto|].
  destruct (t_inject_spec _ _ _ _ _ _ _ _ E) as [(_ & _ & _ & ->)|(_ & -> & _)]; [|exact A].
  intros p e Hn. destruct (Nat.lt_ge_cases p (length t)) as [Hl|Hg].
  - rewrite nth_error_app1 in Hn by exact Hl. eapply A; eauto.
  - rewrite nth_error_app2 in Hn by exact Hg. destruct (p - length t)%nat as [|k]; cbn in Hn; [|destruct k; discriminate].
    injection Hn as <-. reflexivity.
Qed.

Lemma initial_table_ok c : unique_live 0%Z (initial_table c) /\ all_perm (initial_table c).
Proof.
  unfold initial_table.
  assert (G : forall l t, unique_live 0%Z t -> all_perm t ->
              unique_live 0%Z (fold_left (fun t (p : bytes * N) => snd (t_add_permanent (c_db c) 0%Z (Some (snd p)) (sduid (fst p)) t)) l t) /\
              all_perm (fold_left (fun t (p : bytes * N) => snd (t_add_permanent (c_db c) 0%Z (Some (snd p)) (sduid (fst p)) t)) l t)).
  { induction l as [|a l IH]; intros t U A; cbn [fold_left]; [auto|].
    destruct (add_perm_step (c_db c) 0%Z (Some (snd a)) (sduid (fst a)) t U A) as [U' A']. apply IH; auto. }
  apply G; [apply unique_live_nil|]. intros p e H. destruct p; discriminate.
Qed.

Theorem initial_LInv c L now : (0 <= now)%Z -> LInv L now (initial_table c) [].
Proof.
  intros Hn. destruct (initial_table_ok c) as [U A]. split.
  - eapply unique_live_mono; eauto.
  - intros p e He Hp. rewrite (A p e He) in Hp. discriminate.
  - intros ev [].
Qed.

(* ---------- not derailed: a held address is acknowledged whatever other clients do meanwhile ---------- *)

(* if (ip, d) was reserved (offered/held) and the reservation has not run out, UpdateClient for the
   lease succeeds - no matter which operations other handlers performed in between (they are inside
   the history that led to the state (t, now, log)) *)
Theorem ack_succeeds L x now t log ev :
  LInv L now t log -> In ev log -> (now <= g_t ev + g_dur ev)%Z -> to_uip x (Some (g_ip ev)) = Some (g_ip ev) ->
  fst (t_update_client x now (Some (g_ip ev)) (g_duid ev) L t) = true.
Proof.
  intros I Hin Hle Hu. pose proof I as [U Up Lg].
  destruct (Lg ev Hin) as (p & e & Hn & Hi & Hd & Hun).
  assert (Hl : live now e = true).
  { unfold live, expired. destruct (e_perm e); [reflexivity|]. destruct Hun as [?|Hun]; [discriminate|]. cbn. lia. }
  destruct (t_update_client x now (Some (g_ip ev)) (g_duid ev) L t) as [ok t'] eqn:E. cbn [fst].
  pose proof (t_update_spec _ _ _ _ _ _ _ _ U E) as S. rewrite Hu in S.
  destruct S as [(_ & _ & _ & _ & _ & -> & _)|[(A & _)|(_ & Hno & _)]]; [reflexivity| |].
  - exfalso. rewrite find_live_none_iff in A. specialize (A p e (conj Hn Hl)). cbn in A. apply N.eqb_neq in A. contradiction.
  - exfalso. apply Hno. exists p, e. repeat split; auto.
Qed.

(* and the client's lookup returns exactly the reserved address during that time *)
Theorem lookup_during_reservation L now t log ev :
  LInv L now t log -> In ev log -> (now <= g_t ev + g_dur ev)%Z -> t_lookup_by_duid now (g_duid ev) t = Some (g_ip ev).
Proof. intros I Hin Hle. apply (proj1 (reservation_holds L now t log ev I Hin Hle)). Qed.

(* ---------- C04: the verdict of a REQUEST is a function of its addressing and the sender's binding ---------- *)

Inductive rverdict := RDrop | RNak | RAck (ip : N).

(* handleRequest without the database writes: what is answered given the lookup result and the probe *)
Definition request_verdict (c : scfg) (src dst : N) (o : decoded_options) (bound : option N) (probe_free : bool) : rverdict :=
  match classify_request c dst src o with
  | None => RDrop
  | Some desired =>
    if negb (in_managed_range (c_db c) (Some desired)) then RDrop else
    match bound with
    | None => RNak
    | Some lease => if negb (lease =? desired) then RNak else if probe_free then RAck lease else RNak
    end
  end.

Definition designated (src : N) (o : decoded_options) : N := match o_reqip o with Some a => a | None => src end.

Theorem request_ack_only_if_bound c src dst o bound pf ip :
  request_verdict c src dst o bound pf = RAck ip -> bound = Some ip /\ ip = designated src o /\ pf = true.
Proof.
  unfold request_verdict, classify_request, designated.
  destruct (o_sid o) as [s|], (o_reqip o) as [r|]; cbn;
    repeat match goal with |- context [if ?b then _ else _] => destruct b eqn:?; cbn end; try discriminate;
    destruct bound as [l|]; try discriminate;
    repeat match goal with |- context [if ?b then _ else _] => destruct b eqn:?; cbn end; try discriminate;
    intros H; injection H as <-;
    repeat match goal with H : negb (_ =? _) = false |- _ => apply negb_false_iff in H; apply N.eqb_eq in H end; subst; auto.
Qed.

Theorem request_silent_cases c src dst o bound pf :
  (match o_sid o with Some s => s <> c_self_ip c | None => False end) \/
  in_managed_range (c_db c) (Some (designated src o)) = false \/
  (dst <> bcast_ip /\ dst <> c_self_ip c) ->
  request_verdict c src dst o bound pf = RDrop.
Proof.
  unfold request_verdict, classify_request, designated. intros H.
  destruct (o_sid o) as [s|], (o_reqip o) as [r|]; cbn in *;
    repeat match goal with |- context [if ?b then _ else _] => destruct b eqn:?; cbn end; try reflexivity; exfalso;
    destruct H as [H|[H|[H1 H2]]]; try contradiction; try congruence;
    repeat match goal with
           | H : (_ =? _) = true |- _ => apply N.eqb_eq in H
           | H : (_ && _) = true |- _ => apply andb_true_iff in H; destruct H
           | H : (_ || _) = true |- _ => apply orb_true_iff in H; destruct H
           | H : negb _ = false |- _ => apply negb_false_iff in H
           end; subst; try congruence.
Qed.

Theorem request_nak_cases c src dst o bound pf :
  ((dst = bcast_ip /\ o_sid o = Some (c_self_ip c) /\ o_reqip o <> None) \/ (dst = c_self_ip c /\ o_sid o = None /\ o_reqip o = None)) ->
  in_managed_range (c_db c) (Some (designated src o)) = true -> bound <> Some (designated src o) ->
  request_verdict c src dst o bound pf = RNak.
Proof.
  unfold request_verdict, classify_request, designated. intros H Hr Hb.
  destruct H as [(Hd & Hs & Hq)|(Hd & Hs & Hq)]; subst dst.
  - destruct (o_reqip o) as [r|] eqn:Er; [|congruence]. rewrite Hs. cbn. rewrite !N.eqb_refl. cbn. rewrite Hr. cbn.
    destruct bound as [l|]; [|reflexivity]. destruct (l =? r) eqn:E; [apply N.eqb_eq in E; congruence|reflexivity].
  - rewrite Hq in *. rewrite Hs. cbn. rewrite N.eqb_refl. cbn. rewrite Hr. cbn.
    destruct bound as [l|]; [|reflexivity]. destruct (l =? src) eqn:E; [apply N.eqb_eq in E; congruence|reflexivity].
Qed.

(* the acceptor answers a REQUEST exactly as request_verdict says (and an ACK additionally needs the
   final UpdateClient to succeed, which ack_succeeds guarantees) *)
Theorem accept_request_follows_verdict c t r src dst m o t' :
  accept_request c t r src dst m o = RAcc t' ->
  let duid := get_duid c (d_chaddr m) (o_cid o) in
  match request_verdict c src dst o (bound_ip (r_t r) duid t) (probe_free (r_arp r) (d_chaddr m) (match bound_ip (r_t r) duid t with Some l => l | None => 0 end)) with
  | RDrop => r_outs r = []
  | RNak => exists f, r_outs r = [f] /\ frame_eqb f (reply_nak c m) = true
  | RAck ip => exists f, r_outs r = [f] /\ frame_eqb f (reply_lease c gf_dhcpmsg_MsgTypeAck m ip) = true
  end.
Proof.
  unfold accept_request, request_verdict, probe_free. cbv zeta.
  destruct (classify_request c dst src o) as [desired|]; [|destruct (r_outs r); [reflexivity|discriminate]].
  destruct (negb (in_managed_range (c_db c) (Some desired))); [destruct (r_outs r); [reflexivity|discriminate]|].
  destruct (bound_ip (r_t r) (get_duid c (d_chaddr m) (o_cid o)) t) as [lease|].
  2:{ destruct (r_outs r) as [|f [|? ?]]; try discriminate. destruct (frame_eqb f (reply_nak c m)) eqn:F; cbn; [|discriminate]. intros _. eauto. }
  destruct (negb (lease =? desired)).
  { destruct (r_outs r) as [|f [|? ?]]; try discriminate. destruct (frame_eqb f (reply_nak c m)) eqn:F; cbn; [|discriminate]. intros _. eauto. }
  destruct (t_hold_client (c_db c) (r_t r) (Some lease) (get_duid c (d_chaddr m) (o_cid o)) req_hold_ns t) as [okh t1].
  destruct (negb okh); [discriminate|].
  destruct (probe_outcome (r_arp r) (d_chaddr m) lease) as [free cost]. cbn [fst].
  destruct free; cbn [negb].
  - destruct (r_outs r) as [|f [|? ?]]; try discriminate.
    destruct (frame_eqb f (reply_lease c gf_dhcpmsg_MsgTypeAck m lease)) eqn:F; cbn [negb]; [|discriminate]. intros _. eauto.
  - destruct (r_outs r) as [|f [|? ?]]; try discriminate. destruct (frame_eqb f (reply_nak c m)) eqn:F; cbn; [|discriminate]. intros _. eauto.
Qed.

(* ---------- C06: the envelope of every reply ---------- *)

Definition wf_opt_bytes (o : dhcp_opt) : bool := (fst o <? 256) && wf_bytes (snd o).

Lemma wf_bytes_firstn n b : wf_bytes b = true -> wf_bytes (firstn n b) = true.
Proof.
  unfold wf_bytes. revert n. induction b as [|x b IH]; intros [|n] H; cbn in *; auto.
  apply andb_true_iff in H as [H1 H2]. rewrite H1. cbn. apply IH. exact H2.
Qed.

Lemma wf_bytes_zeros n : wf_bytes (zeros n) = true.
Proof. induction n; cbn; auto. Qed.

Lemma wf_bytes_pad_to n b : wf_bytes b = true -> wf_bytes (pad_to n b) = true.
Proof. intros H. unfold pad_to. apply wf_bytes_firstn. apply wf_bytes_app. split; [exact H|apply wf_bytes_zeros]. Qed.

Lemma wf_bytes_opts os : forallb wf_opt_bytes os = true -> wf_bytes (flat_map enc_opt os) = true.
Proof.
  induction os as [|[c d] os IH]; cbn [forallb flat_map]; [reflexivity|]. intros H. apply andb_true_iff in H as [Ho Hr].
  unfold wf_opt_bytes in Ho. cbn [fst snd] in Ho. apply andb_true_iff in Ho as [Hc Hd].
  unfold enc_opt. cbn [fst snd app]. apply wf_bytes_cons. split; [apply N.ltb_lt; exact Hc|].
  apply wf_bytes_cons. split; [unfold u8; lia|]. apply wf_bytes_app. split; [exact Hd|apply IH; exact Hr].
Qed.

Lemma wf_bytes_dhcp_assemble m :
  wf_msg m = true -> wf_bytes (d_chaddr m) = true -> wf_bytes (d_sname m) = true -> wf_bytes (d_file m) = true ->
  forallb wf_opt_bytes (d_options m) = true -> wf_bytes (dhcp_assemble m) = true.
Proof.
  intros Hw Hc Hs Hf Ho. unfold wf_msg in Hw. rewrite !andb_true_iff, !N.ltb_lt in Hw.
  destruct Hw as (((((((((((((((H1 & H2) & H3) & _) & _) & _) & _) & _) & _) & _) & _) & _) & _) & _) & _) & _).
  unfold dhcp_assemble. rewrite !wf_bytes_app.
  repeat split; try apply wf_put32; try apply wf_put16; try (apply wf_bytes_pad_to; assumption); try (apply wf_bytes_opts; assumption).
  - unfold wf_bytes, wf_byte. cbn [forallb]. rewrite !andb_true_iff, !N.ltb_lt. unfold u8. lia.
  - destruct (d_options m); reflexivity.
Qed.

Lemma len_dhcp_assemble m :
  len (dhcp_assemble m) = 240 + len (flat_map enc_opt (d_options m)) + (match d_options m with [] => 0 | _ => 1 end).
Proof.
  unfold dhcp_assemble. rewrite !len_app. unfold len at 1 2 3 4 5 6 7 8 9 10 11 12. rewrite !length_pad_to.
  cbn [length put32 put16]. unfold len. destruct (d_options m); cbn [length put32 put16]; lia.
Qed.

Definition wf_reply_inputs (c : scfg) (m : dhcp_msg) (yi : N) (extra : list dhcp_opt) (typ : N) (flags : N) : bool :=
  (c_self_ip c <? 4294967296) && (yi <? 4294967296) && (d_xid m <? 4294967296) && (flags <? 65536) &&
  (len (d_chaddr m) <=? 16) && (typ <? 256) && forallb wf_opt extra && wf_bytes (d_chaddr m) && forallb wf_opt_bytes extra.

Lemma wf_reply_msg c typ m flags yi extra : wf_reply_inputs c m yi extra typ flags = true ->
  wf_msg (reply_msg c typ (d_xid m) flags yi (d_chaddr m) extra) = true /\
  wf_bytes (dhcp_assemble (reply_msg c typ (d_xid m) flags yi (d_chaddr m) extra)) = true.
Proof.
  unfold wf_reply_inputs. rewrite !andb_true_iff. intros ((((((((H1 & H2) & H3) & H4) & H5) & H6) & H7) & H8) & H9).
  assert (Hm : wf_msg (reply_msg c typ (d_xid m) flags yi (d_chaddr m) extra) = true).
  { unfold wf_msg, reply_msg.
    cbn [d_op d_htype d_hops d_xid d_secs d_flags d_ciaddr d_yiaddr d_siaddr d_giaddr d_cookie d_chaddr d_sname d_file d_options].
    unfold gf_dhcpmsg_OpReply, gf_dhcpmsg_HtypeETHER, gf_dhcpmsg_DHCPCookie, gf_dhcpmsg_OptMessageType, gf_dhcpmsg_OptServerIdentifier.
    cbn [forallb]. rewrite H2, H3, H4, H5, H7. cbn.
    unfold wf_opt. cbn [fst snd]. unfold len, put32. cbn [length]. reflexivity. }
  split; [exact Hm|]. apply wf_bytes_dhcp_assemble; [exact Hm|exact H8|apply wf_bytes_zeros|apply wf_bytes_zeros|].
  unfold reply_msg. cbn [d_options forallb]. rewrite H9.
  unfold wf_opt_bytes, gf_dhcpmsg_OptMessageType, gf_dhcpmsg_OptServerIdentifier. cbn [fst snd].
  rewrite wf_put32. unfold wf_bytes, wf_byte. cbn [forallb]. rewrite H6. reflexivity.
Qed.

Definition reply_ip_dst (flags yi : N) : N := if bflag flags then bcast_ip else yi.

Lemma udp_reply_roundtrip src dst payload :
  src < 4294967296 -> dst < 4294967296 -> wf_bytes payload = true -> len payload <= 65507 ->
  exists p q, assemble_udp src dst payload = Ok p /\ decode_ipv4 p = Ok q /\ ip_src q = src /\ ip_dst q = dst /\ ip_proto q = 17 /\
    ipv4_hdr_ok p = true /\ udp_ok src dst (skipn 20 p) = true /\
    decode_udp (ip_data q) = Ok {| udp_sport := 67; udp_dport := 68; udp_data := payload |}.
Proof.
  intros Hs Hd Hw Hl. unfold assemble_udp.
  set (u := {| udp_sport := gf_reply_sport; udp_dport := gf_reply_dport; udp_data := payload |}).
  set (h := {| ip_id := 0; ip_flags := 0; ip_ttl := gf_reply_ttl; ip_proto := gf_reply_proto; ip_csum := 0;
               ip_src := src; ip_dst := dst; ip_data := udp_assemble u |}).
  assert (Hwu : wf_udp u = true).
  { unfold wf_udp, u. cbn [udp_sport udp_dport udp_data]. unfold gf_reply_sport, gf_reply_dport. rewrite Hw.
    replace (len payload <=? 65507) with true by lia. reflexivity. }
  assert (Hwh : wf_ipv4 h = true).
  { unfold wf_ipv4, h. cbn [ip_id ip_flags ip_ttl ip_proto ip_src ip_dst ip_data]. unfold gf_reply_ttl, gf_reply_proto.
    replace (src <? 4294967296) with true by lia. replace (dst <? 4294967296) with true by lia.
    rewrite len_udp_assemble. cbn [udp_data u]. replace (8 + len payload <=? 65515) with true by lia.
    assert (wf_bytes (udp_assemble u) = true).
    { unfold udp_assemble. rewrite !wf_bytes_app. repeat split; try apply wf_put16; auto. }
    rewrite H. reflexivity. }
  destruct (ipv4_udp_assemble_valid h u Hwh Hwu eq_refl eq_refl) as (p & cs & Ha & _ & _ & Hudp).
  destruct (ipv4_assemble_valid h Hwh) as (p' & Ha' & _ & Hhdr). rewrite Ha in Ha'. injection Ha' as <-.
  destruct (decode_udp_in_ipv4 h u p Hwh Hwu eq_refl eq_refl Ha) as (q & Hq & A & B & C & _ & D).
  exists p, q. repeat split; auto.
Qed.

(* what every OFFER/ACK looks like on the wire, for all transaction ids, flags, addresses, hardware
   addresses up to 16 bytes and option lists that fit a datagram *)
Theorem lease_reply_envelope c typ m yi :
  let msg := reply_msg c typ (d_xid m) (d_flags m) yi (d_chaddr m) (opts_for c (d_chaddr m)) in
  wf_reply_inputs c m yi (opts_for c (d_chaddr m)) typ (d_flags m) = true -> len (dhcp_assemble msg) <= 65507 ->
  exists p q, reply_lease c typ m yi = Ok ((if bflag (d_flags m) then bcast_mac else d_chaddr m), p) /\
    decode_ipv4 p = Ok q /\ ip_src q = c_self_ip c /\ ip_dst q = reply_ip_dst (d_flags m) yi /\ ip_proto q = 17 /\
    ipv4_hdr_ok p = true /\ udp_ok (c_self_ip c) (reply_ip_dst (d_flags m) yi) (skipn 20 p) = true /\
    decode_udp (ip_data q) = Ok {| udp_sport := 67; udp_dport := 68; udp_data := dhcp_assemble msg |} /\
    dhcp_decode (dhcp_assemble msg) = Ok msg.
Proof.
  intros msg Hwf Hlen. destruct (wf_reply_msg c typ m (d_flags m) yi _ Hwf) as [Hm Hb]. fold msg in Hm, Hb.
  unfold wf_reply_inputs in Hwf. rewrite !andb_true_iff, !N.ltb_lt in Hwf. destruct Hwf as ((((((((H1 & H2) & _) & _) & _) & _) & _) & _) & _).
  assert (Hdst : reply_ip_dst (d_flags m) yi < 4294967296) by (unfold reply_ip_dst, bcast_ip; destruct (bflag (d_flags m)); lia).
  destruct (udp_reply_roundtrip (c_self_ip c) (reply_ip_dst (d_flags m) yi) (dhcp_assemble msg) H1 Hdst Hb Hlen)
    as (p & q & Ha & Hq & A & B & C & D & E & F).
  exists p, q. unfold reply_lease. fold msg. unfold reply_ip_dst in Ha. rewrite Ha. cbn [bind].
  repeat split; auto. apply dhcp_decode_assemble. exact Hm.
Qed.

Theorem nak_envelope c m :
  let msg := reply_msg c gf_dhcpmsg_MsgTypeNack (d_xid m) 0 0 (d_chaddr m) [] in
  wf_reply_inputs c m 0 [] gf_dhcpmsg_MsgTypeNack 0 = true ->
  exists p q, reply_nak c m = Ok (d_chaddr m, p) /\
    decode_ipv4 p = Ok q /\ ip_src q = c_self_ip c /\ ip_dst q = bcast_ip /\ ip_proto q = 17 /\
    ipv4_hdr_ok p = true /\ udp_ok (c_self_ip c) bcast_ip (skipn 20 p) = true /\
    decode_udp (ip_data q) = Ok {| udp_sport := 67; udp_dport := 68; udp_data := dhcp_assemble msg |} /\
    dhcp_decode (dhcp_assemble msg) = Ok msg.
Proof.
  intros msg Hwf. destruct (wf_reply_msg c gf_dhcpmsg_MsgTypeNack m 0 0 [] Hwf) as [Hm Hb]. fold msg in Hm, Hb.
  unfold wf_reply_inputs in Hwf. rewrite !andb_true_iff, !N.ltb_lt, N.leb_le in Hwf. destruct Hwf as ((((((((H1 & _) & _) & _) & H5) & _) & _) & _) & _).
  assert (Hlen : len (dhcp_assemble msg) <= 65507).
  { rewrite len_dhcp_assemble. unfold msg, reply_msg. cbn [d_options flat_map enc_opt fst snd app put32]. unfold len. cbn [length]. lia. }
  destruct (udp_reply_roundtrip (c_self_ip c) bcast_ip (dhcp_assemble msg) H1 eq_refl Hb Hlen) as (p & q & Ha & Hq & A & B & C & D & E & F).
  exists p, q. unfold reply_nak. fold msg. rewrite Ha. cbn [bind]. repeat split; auto. apply dhcp_decode_assemble. exact Hm.
Qed.

(* ---------- C02 / C03: which addresses can ever be reserved, and by whom ---------- *)

Lemma hold_shape x now ip d ttl t ok t' n :
  to_uip x ip = Some n -> unique_live now t -> t_hold_client x now ip d ttl t = (ok, t') ->
  (exists p e, live_at now t p e /\ e_ip e = n /\ e_duid e = d /\ ok = true /\ t' = t) \/
  t_update_client x now ip d ttl t = (ok, t').
Proof.
  intros Eu U E. unfold t_hold_client in E. rewrite Eu in E. unfold t_lookup in E.
  destruct (find_live now (KIp n) t 0) as [p|] eqn:E1; [|right; destruct (find_live now (KDuid d) t 0); exact E].
  destruct (find_live now (KDuid d) t 0) as [q|] eqn:E2; [|right; exact E].
  destruct (Nat.eqb p q) eqn:Epq; [|right; exact E].
  apply Nat.eqb_eq in Epq. subst q.
  apply (find_live_some_iff _ _ _ _ U) in E1 as (e1 & (N1 & L1) & K1). cbn in K1. apply N.eqb_eq in K1.
  apply (find_live_some_iff _ _ _ _ U) in E2 as (e2 & (N2 & L2) & K2). cbn in K2. apply bytes_eqb_eq in K2.
  assert (e2 = e1) by congruence. subst e2. rewrite N1 in E.
  destruct (now + ttl <? e_until e1)%Z; [|right; exact E].
  injection E as <- <-. left. exists p, e1. repeat split; auto.
Qed.

(* a successful reservation of (n, d): either d's own live binding on n is extended, or both n and d
   were unbound *)
Lemma success_shape x now ip d ttl t ok t' n (hold : bool) :
  to_uip x ip = Some n -> unique_live now t ->
  (if hold then t_hold_client x now ip d ttl t else t_update_client x now ip d ttl t) = (ok, t') -> ok = true ->
  (exists p e, live_at now t p e /\ e_ip e = n /\ e_duid e = d) \/
  (find_live now (KIp n) t 0 = None /\ find_live now (KDuid d) t 0 = None).
Proof.
  intros Eu U E ->.
  assert (Hcore : forall tt, t_update_client x now ip d ttl t = (true, tt) ->
     (exists p e, live_at now t p e /\ e_ip e = n /\ e_duid e = d) \/ (find_live now (KIp n) t 0 = None /\ find_live now (KDuid d) t 0 = None)).
  { intros tt E'. pose proof (t_update_spec _ _ _ _ _ _ _ _ U E') as S. rewrite Eu in S.
    destruct S as [(p & e0 & L0 & I0 & D0 & _ & _)|[(A & B & _ & _)|(_ & _ & Hf & _)]]; [left; eauto|right; auto|discriminate]. }
  destruct hold; [|eapply Hcore; eauto].
  destruct (hold_shape _ _ _ _ _ _ _ _ _ Eu U E) as [(p & e & L & I & D & _ & _)|E']; [left; eauto|eapply Hcore; eauto].
Qed.

(* consequence: with a live binding (a, dd) in the table, a successful reservation is for a iff it is by dd *)
Theorem success_respects_live x now ip d ttl t ok t' n q e (hold : bool) :
  to_uip x ip = Some n -> unique_live now t ->
  (if hold then t_hold_client x now ip d ttl t else t_update_client x now ip d ttl t) = (ok, t') -> ok = true ->
  live_at now t q e -> (e_ip e = n <-> e_duid e = d).
Proof.
  intros Eu U E Hok L.
  destruct (success_shape _ _ _ _ _ _ _ _ _ hold Eu U E Hok) as [(p & e0 & (N0 & L0) & I0 & D0)|(A & B)].
  - destruct L as [Nq Lq]. split; intros H.
    + assert (q = p) by (apply (U (KIp n) q p e e0); auto; cbn; apply N.eqb_eq; auto). subst q. congruence.
    + assert (q = p) by (apply (U (KDuid d) q p e e0); auto; cbn; apply bytes_eqb_eq; auto). subst q. congruence.
  - rewrite find_live_none_iff in A, B. pose proof (A q e L) as A'. pose proof (B q e L) as B'. cbn in A', B'.
    apply N.eqb_neq in A'. split; intros H; [contradiction|].
    exfalso. rewrite (proj2 (bytes_eqb_eq _ _) H) in B'. discriminate.
Qed.

(* C03: a permanent binding (a, dd) - a reservation or the server's own address - is live at every instant,
   so in every reachable state an address is reserved for the permanent client only, and that client
   only ever gets this address *)
Theorem permanent_exclusive h x t0 now0 p e now ip d ttl ok t' n (hold : bool) :
  clock_ok h -> unique_live now0 t0 -> nth_error t0 p = Some e -> e_perm e = true ->
  let t := fst (t_final x t0 now0 h) in
  (snd (t_final x t0 now0 h) <= now)%Z -> to_uip x ip = Some n ->
  (if hold then t_hold_client x now ip d ttl t else t_update_client x now ip d ttl t) = (ok, t') -> ok = true ->
  (e_ip e = n <-> e_duid e = d).
Proof.
  intros Hc U Hn Hp t Hle Eu E Hok.
  destruct (t_run_unique h x t0 now0 Hc U) as [U' _]. fold t in U'.
  destruct (t_final_stable h x t0 now0 Hc U p e Hn) as (e' & N' & I' & D' & P'). fold t in N'.
  assert (L' : live_at now t p e') by (split; [exact N'|unfold live, expired; rewrite P', Hp; reflexivity]).
  assert (U2 : unique_live now t) by (eapply unique_live_mono; eauto).
  rewrite <- I', <- D'. eapply success_respects_live; eauto.
Qed.

(* the permanent client's search always returns its address (so every DISCOVER of a reserved client is offered it) *)
Theorem permanent_offered h x t0 now0 p e perm c pr sg :
  clock_ok h -> unique_live now0 t0 -> nth_error t0 p = Some e -> e_perm e = true ->
  let t := fst (t_final x t0 now0 h) in let now := snd (t_final x t0 now0 h) in
  t_find_ip x perm c pr now sg (e_duid e) t = (Some (e_ip e), now).
Proof.
  intros Hc U Hn Hp t now. apply find_ip_own.
  destruct (permanent_forever h x t0 now0 p e Hc U Hn Hp) as [H _]. exact H.
Qed.

(* C02: addresses of the table.  An operation is grounded if it names an (address, client) pair that some
   entry of the table already carries - which is what handleRequest does: it passes the address it looked up *)
Definition allowed (x : ipdb) (stat : list N) (a : N) : Prop := In a stat \/ dyn_from x <= a <= dyn_to x.
Definition AInv (x : ipdb) (stat : list N) (t : table) : Prop := forall p e, nth_error t p = Some e -> allowed x stat (e_ip e).

Definition grounded (x : ipdb) (t : table) (op : dbop) : Prop :=
  match op with
  | OpUpdate ip d _ | OpHold ip d _ => forall n, ip = Some n -> exists p e, nth_error t p = Some e /\ e_ip e = n
  | OpOffer perm _ pr _ _ _ => Forall (fun v => v <= dyn_to x - dyn_from x) perm
  | OpAddPerm _ _ => False
  | _ => True
  end.

Lemma AInv_app x stat t e : AInv x stat t -> allowed x stat (e_ip e) -> AInv x stat (t ++ [e]).
Proof.
  intros A He p e' Hn. destruct (Nat.lt_ge_cases p (length t)) as [Hl|Hg].
  - rewrite nth_error_app1 in Hn by exact Hl. eapply A; eauto.
  - rewrite nth_error_app2 in Hn by exact Hg. destruct (p - length t)%nat as [|k]; cbn in Hn; [|destruct k; discriminate].
    injection Hn as <-. exact He.
Qed.

Lemma AInv_set_until x stat t p u : AInv x stat t -> AInv x stat (set_until t p u).
Proof.
  intros A q e Hn. rewrite nth_error_set_until in Hn. destruct (Nat.eqb q p).
  - destruct (nth_error t q) as [e0|] eqn:E0; [|discriminate]. cbn in Hn. injection Hn as <-. cbn. eapply A; eauto.
  - eapply A; eauto.
Qed.

Lemma update_AInv x stat now ip d ttl t ok t' : unique_live now t -> AInv x stat t ->
  (forall n, ip = Some n -> allowed x stat n) -> t_update_client x now ip d ttl t = (ok, t') -> AInv x stat t'.
Proof.
  intros U A Hal E. pose proof (t_update_spec _ _ _ _ _ _ _ _ U E) as S.
  destruct (to_uip x ip) as [n|] eqn:Eu; [|destruct S as [_ ->]; exact A].
  pose proof (to_uip_some _ _ _ Eu) as Hip.
  destruct S as [(p & e & _ & _ & _ & _ & ->)|[(_ & _ & -> & _)|(_ & _ & _ & ->)]];
    [apply AInv_set_until; exact A|apply AInv_app; [exact A|cbn; apply Hal; exact Hip]|exact A].
Qed.

Lemma hold_AInv x stat now ip d ttl t ok t' : unique_live now t -> AInv x stat t ->
  (forall n, ip = Some n -> allowed x stat n) -> t_hold_client x now ip d ttl t = (ok, t') -> AInv x stat t'.
Proof.
  intros U A Hal E. destruct (t_hold_cases x now ip d ttl t) as [H|H]; rewrite H in E.
  - injection E as <- <-. exact A.
  - eapply update_AInv; eauto.
Qed.

Theorem step_AInv x stat t now op res t' now' :
  wf_ranges x -> probe_nonneg op -> unique_live now t -> AInv x stat t -> grounded x t op ->
  t_step x t now op = (res, t', now') -> AInv x stat t'.
Proof.
  intros W Hp U A G H. destruct op as [ip d ttl|d|ip d|perm c pr sg d|ip d ttl|perm c pr sg d ttl]; cbn [t_step grounded] in *.
  - destruct (t_update_client x now ip d ttl t) as [ok t1] eqn:E. injection H as <- <- <-.
    eapply update_AInv; eauto. intros n Hn. destruct (G n Hn) as (p & e & Hne & <-). eapply A; eauto.
  - injection H as <- <- <-. exact A.
  - contradiction.
  - destruct (t_find_ip x perm c pr now sg d t). injection H as <- <- <-. exact A.
  - destruct (t_hold_client x now ip d ttl t) as [ok t1] eqn:E. injection H as <- <- <-.
    eapply hold_AInv; eauto. intros n Hn. destruct (G n Hn) as (p & e & Hne & <-). eapply A; eauto.
  - unfold t_offer_ip in H. destruct (t_find_ip x perm c pr now sg d t) as [r n1] eqn:E.
    pose proof (t_find_time _ _ _ _ _ _ _ _ _ _ Hp E) as Hle.
    destruct r as [a|]; [|injection H as <- <- <-; exact A].
    destruct (t_hold_client x n1 (Some a) d ttl t) as [ok t2] eqn:Eh. injection H as <- <- <-.
    eapply hold_AInv; [eapply unique_live_mono; eauto|exact A| |exact Eh].
    intros n Hn. injection Hn as <-.
    destruct (bound_ip now d t) as [b|] eqn:Eb.
    + rewrite (find_ip_own x perm c pr now sg d t b Eb) in E. injection E as <- <-.
      unfold bound_ip in Eb. destruct (find_live now (KDuid d) t 0) as [p|]; [|discriminate].
      destruct (nth_error t p) as [e|] eqn:Ene; [|discriminate]. cbn in Eb. injection Eb as <-. eapply A; eauto.
    + destruct (find_ip_sound x perm c pr now sg d t a n1 W Hp G Eb E) as (_ & Hr & _). right. exact Hr.
Qed.

Fixpoint grounded_run (x : ipdb) (t : table) (now : Z) (h : list (Z * dbop)) : Prop :=
  match h with
  | [] => True
  | (dt, op) :: r => grounded x t op /\ let '(_, t', now') := t_step x t (now + dt)%Z op in grounded_run x t' now' r
  end.

(* every entry of every reachable table carries a configured static address or an address of the dynamic range *)
Theorem allowed_invariant x stat h : wf_ranges x -> forall t now, clock_ok h -> unique_live now t -> AInv x stat t ->
  grounded_run x t now h -> AInv x stat (fst (t_final x t now h)).
Proof.
  intros W. induction h as [|[dt op] h IH]; intros t now Hc U A G; cbn [t_final]; [exact A|].
  inversion Hc as [|? ? [Hdt Hp] Hc']; subst. cbn [fst snd grounded_run] in *. destruct G as [G1 G2].
  destruct (t_step x t (now + dt) op) as [[res t'] now'] eqn:E.
  assert (U0 : unique_live (now + dt) t) by (eapply unique_live_mono; [|exact U]; lia).
  destruct (t_step_unique _ _ _ _ _ _ _ Hp U0 E) as [U1 _].
  apply IH; [exact Hc'|exact U1| |exact G2]. exact (step_AInv x stat t (now + dt)%Z op res t' now' W Hp U0 A G1 E).
Qed.

(* ---------- small corollaries used by the property files ---------- *)

Theorem static_only_no_search : forall x perm c pr now sg d t, dynamic_disabled x = true -> bound_ip now d t = None ->
  fst (t_find_ip x perm c pr now sg d t) = None.
Proof. intros x perm c pr now sg d t Hd Hb. unfold t_find_ip. rewrite Hb, Hd. reflexivity. Qed.

Theorem at_most_one_reply : forall c t r src dst m o t',
  accept_request c t r src dst m o = RAcc t' -> (length (r_outs r) <= 1)%nat.
Proof.
  intros c t r src dst m o t' H. pose proof (accept_request_follows_verdict c t r src dst m o t' H) as V. cbv zeta in V.
  destruct (request_verdict _ _ _ _ _ _); [rewrite V; cbn; auto| destruct V as (f & -> & _); cbn; auto | destruct V as (f & -> & _); cbn; auto].
Qed.

Theorem probe_never_picked : forall x perm c pr now sg d t a now',
  wf_ranges x -> (forall a, (0 <= snd (pr a))%Z) -> Forall (fun v => v <= dyn_to x - dyn_from x) perm ->
  bound_ip now d t = None -> t_find_ip x perm c pr now sg d t = (Some a, now') -> fst (pr a) = true.
Proof.
  intros x perm c pr now sg d t a now' W Hp Hperm Hb H.
  destruct (find_ip_sound x perm c pr now sg d t a now' W Hp Hperm Hb H) as (_ & _ & tl & _ & _ & _ & Hf). exact Hf.
Qed.

Theorem request_nak_on_conflict : forall c src dst o lease,
  classify_request c dst src o = Some lease -> in_managed_range (c_db c) (Some lease) = true ->
  request_verdict c src dst o (Some lease) false = RNak.
Proof.
  intros c src dst o lease Hc Hr. unfold request_verdict. rewrite Hc, Hr. cbn. rewrite N.eqb_refl. reflexivity.
Qed.

Theorem decode_hlen_bound : forall b m, dhcp_decode b = Ok m -> nth 2 b 0 <= 16 /\ d_chaddr m = firstn (N.to_nat (nth 2 b 0)) (firstn 16 (skipn 28 b)).
Proof.
  intros b m H. apply dhcp_decode_spec in H as (_ & D). unfold decoded_as in D. cbn in D.
  destruct D as (_&_&_&_&_&_&_&_&_&_&_&_&_&Hh&Hc&_). split; [exact Hh|exact Hc].
Qed.

(* ---------- the acceptor only performs server operations: accepted sequential histories are operation histories ---------- *)

(* the database operations an accepted round stands for (with the clock advance before each) *)
Definition round_ops (c : scfg) (t : table) (now : Z) (r : round) : list (Z * dbop) :=
  match decode_chain (r_pkt r) with
  | None => []
  | Some (src, dst, m) =>
    let o := decode_options (d_options m) in
    let duid := get_duid c (d_chaddr m) (o_cid o) in
    match msg_kind c m o with
    | KIgnored => []
    | KDiscover =>
      if negb (dst =? bcast_ip) || negb (is_none (o_sid o)) then [] else
      match r_outs r with
      | [f] => match observed_yiaddr f with Some y => [((of_t f - now)%Z, OpHold (Some y) duid hold_ns)] | None => [] end
      | _ => []
      end
    | KRequest =>
      match classify_request c dst src o with
      | None => []
      | Some desired =>
        if negb (in_managed_range (c_db c) (Some desired)) then [] else
        match bound_ip (r_t r) duid t with
        | None => []
        | Some lease =>
          if negb (lease =? desired) then [] else
          let hold := ((r_t r - now)%Z, OpHold (Some lease) duid req_hold_ns) in
          if negb (fst (probe_outcome (r_arp r) (d_chaddr m) lease)) then [hold] else
          match r_outs r with
          | [f] => [hold; ((of_t f - r_t r)%Z, OpUpdate (Some lease) duid (c_lease c))]
          | _ => [hold]
          end
        end
      end
    end
  end.

Lemma t_final_app x h1 : forall h2 t now, t_final x t now (h1 ++ h2) = t_final x (fst (t_final x t now h1)) (snd (t_final x t now h1)) h2.
Proof.
  induction h1 as [|[dt op] h1 IH]; intros h2 t now; cbn [app t_final]; [reflexivity|].
  destruct (t_step x t (now + dt) op) as [[res t'] now']. apply IH.
Qed.

Lemma racc_id (x : racc) t0 : match x with RAcc t' => RAcc t' | RRej _ => x end = RAcc t0 -> x = RAcc t0.
Proof. destruct x; auto. Qed.

(* an accepted round changes the table exactly as its operations do *)
Theorem accepted_round_is_ops c t now r t' :
  r_has_snap r = false -> accept_round c t r = RAcc t' ->
  fst (t_final (c_db c) t now (round_ops c t now r)) = t'.
Proof.
  intros Hs H. unfold accept_round in H. rewrite Hs in H. apply racc_id in H. unfold round_ops.
  destruct (decode_chain (r_pkt r)) as [[[src dst] m]|]; [|destruct (r_outs r); [injection H as <-; reflexivity|discriminate]].
  set (o := decode_options (d_options m)) in *.
  destruct (msg_kind c m o).
  - (* DISCOVER *)
    unfold accept_discover in H. cbv zeta in H.
    destruct (negb (dst =? bcast_ip) || negb (is_none (o_sid o))); [destruct (r_outs r); [injection H as <-; reflexivity|discriminate]|].
    destruct (r_outs r) as [|f [|? ?]]; [| |discriminate].
    + match type of H with (if ?b then _ else _) = _ => destruct b end; [injection H as <-; reflexivity|discriminate].
    + destruct (observed_yiaddr f) as [y|]; [|discriminate].
      destruct (negb (frame_eqb f (reply_lease c gf_dhcpmsg_MsgTypeOffer m y))); [discriminate|].
      destruct ((of_t f <? r_t r)%Z || (reply_deadline c r <? of_t f)%Z); [discriminate|].
      match type of H with (if ?b then _ else _) = _ => destruct b end; [|discriminate].
      cbn [t_final t_step]. replace (now + (of_t f - now))%Z with (of_t f) by lia.
      destruct (t_hold_client (c_db c) (of_t f) (Some y) (get_duid c (d_chaddr m) (o_cid o)) hold_ns t) as [ok t1].
      destruct ok; [injection H as <-; reflexivity|discriminate].
  - (* REQUEST *)
    unfold accept_request in H. cbv zeta in H.
    destruct (classify_request c dst src o) as [desired|]; [|destruct (r_outs r); [injection H as <-; reflexivity|discriminate]].
    destruct (negb (in_managed_range (c_db c) (Some desired))); [destruct (r_outs r); [injection H as <-; reflexivity|discriminate]|].
    destruct (bound_ip (r_t r) (get_duid c (d_chaddr m) (o_cid o)) t) as [lease|].
    2:{ destruct (r_outs r) as [|f [|? ?]]; try discriminate. match type of H with (if ?b then _ else _) = _ => destruct b end; [injection H as <-; reflexivity|discriminate]. }
    destruct (negb (lease =? desired)).
    { destruct (r_outs r) as [|f [|? ?]]; try discriminate. match type of H with (if ?b then _ else _) = _ => destruct b end; [injection H as <-; reflexivity|discriminate]. }
    destruct (t_hold_client (c_db c) (r_t r) (Some lease) (get_duid c (d_chaddr m) (o_cid o)) req_hold_ns t) as [okh t1] eqn:Eh.
    destruct okh; cbn [negb] in H; [|discriminate].
    destruct (probe_outcome (r_arp r) (d_chaddr m) lease) as [free cost]. cbn [fst].
    destruct free; cbn [negb] in *.
    + destruct (r_outs r) as [|f [|? ?]]; try discriminate.
      destruct (negb (frame_eqb f (reply_lease c gf_dhcpmsg_MsgTypeAck m lease))); [discriminate|].
      destruct ((of_t f <? r_t r)%Z || (reply_deadline c r <? of_t f)%Z); [discriminate|].
      cbn [t_final t_step]. replace (now + (r_t r - now))%Z with (r_t r) by lia. rewrite Eh.
      replace (r_t r + (of_t f - r_t r))%Z with (of_t f) by lia.
      destruct (t_update_client (c_db c) (of_t f) (Some lease) (get_duid c (d_chaddr m) (o_cid o)) (c_lease c) t1) as [ok t2].
      destruct ok; [injection H as <-; reflexivity|discriminate].
    + destruct (r_outs r) as [|f [|? ?]]; try discriminate.
      match type of H with (if ?b then _ else _) = _ => destruct b end; [|discriminate]. injection H as <-.
      cbn [t_final t_step]. replace (now + (r_t r - now))%Z with (r_t r) by lia. rewrite Eh. reflexivity.
  - destruct (r_outs r); [injection H as <-; reflexivity|discriminate].
Qed.

Lemma sv_ok_nil L : sv_ok L [].
Proof. split; constructor. Qed.
Lemma sv_ok_hold L dt ip d ttl rest : (0 <= dt)%Z -> (0 <= ttl <= L)%Z -> sv_ok L rest -> sv_ok L ((dt, OpHold ip d ttl) :: rest).
Proof. intros Hd Ht [A B]. split; constructor; cbn; auto. Qed.
Lemma sv_ok_update L dt ip d rest : (0 <= dt)%Z -> sv_ok L rest -> sv_ok L ((dt, OpUpdate ip d L) :: rest).
Proof. intros Hd [A B]. split; constructor; cbn; auto. Qed.

(* these operations are server operations (lease L = configured lease, holds not longer than L), issued at
   non-decreasing clock readings when the round's times are ordered *)
Theorem round_ops_are_server_ops c t now r :
  (now <= r_t r)%Z -> (forall f, In f (r_outs r) -> (r_t r <= of_t f)%Z) ->
  (0 <= hold_ns <= c_lease c)%Z -> (0 <= req_hold_ns <= c_lease c)%Z ->
  sv_ok (c_lease c) (round_ops c t now r).
Proof.
  intros Hn Hf Hh Hr. unfold round_ops.
  destruct (decode_chain (r_pkt r)) as [[[src dst] m]|]; [|apply sv_ok_nil].
  set (o := decode_options (d_options m)).
  destruct (msg_kind c m o); try apply sv_ok_nil.
  - destruct (negb (dst =? bcast_ip) || negb (is_none (o_sid o))); [apply sv_ok_nil|].
    destruct (r_outs r) as [|f [|? ?]] eqn:Eo; try apply sv_ok_nil.
    destruct (observed_yiaddr f); [|apply sv_ok_nil].
    assert (r_t r <= of_t f)%Z by (apply Hf; left; reflexivity).
    apply sv_ok_hold; [lia|exact Hh|apply sv_ok_nil].
  - destruct (classify_request c dst src o) as [desired|]; [|apply sv_ok_nil].
    destruct (negb (in_managed_range (c_db c) (Some desired))); [apply sv_ok_nil|].
    destruct (bound_ip (r_t r) (get_duid c (d_chaddr m) (o_cid o)) t) as [lease|]; [|apply sv_ok_nil].
    destruct (negb (lease =? desired)); [apply sv_ok_nil|].
    destruct (negb (fst (probe_outcome (r_arp r) (d_chaddr m) lease))); [apply sv_ok_hold; [lia|exact Hr|apply sv_ok_nil]|].
    destruct (r_outs r) as [|f [|? ?]] eqn:Eo; try (apply sv_ok_hold; [lia|exact Hr|apply sv_ok_nil]).
    assert (r_t r <= of_t f)%Z by (apply Hf; left; reflexivity).
    apply sv_ok_hold; [lia|exact Hr|]. apply sv_ok_update; [lia|apply sv_ok_nil].
Qed.

(* hence the lease-table invariant and the exclusivity of the reservation log carry over every accepted
   round (and, by induction, every accepted sequential history with ordered times) *)
Theorem accepted_round_keeps_invariant c t now log r t' :
  r_has_snap r = false -> accept_round c t r = RAcc t' ->
  (now <= r_t r)%Z -> (forall f, In f (r_outs r) -> (r_t r <= of_t f)%Z) ->
  (0 <= hold_ns <= c_lease c)%Z -> (0 <= req_hold_ns <= c_lease c)%Z ->
  LInv (c_lease c) now t log -> excl_log log ->
  let '(t2, now2, log2) := g_run (c_db c) t now (round_ops c t now r) log in
  t2 = t' /\ LInv (c_lease c) now2 t2 log2 /\ excl_log log2 /\ (now <= now2)%Z.
Proof.
  intros Hs Ha Hn Hf Hh Hr I Ex.
  pose proof (round_ops_are_server_ops c t now r Hn Hf Hh Hr) as Hsv.
  pose proof (lease_invariants (c_lease c) (c_db c) (round_ops c t now r) ltac:(lia) t now log Hsv I Ex) as Hinv.
  pose proof (accepted_round_is_ops c t now r t' Hs Ha) as Hops.
  assert (Hg : forall h tt nn ll, fst (fst (g_run (c_db c) tt nn h ll)) = fst (t_final (c_db c) tt nn h)).
  { induction h as [|[dt op] h IH]; intros tt nn ll; cbn [g_run t_final]; [reflexivity|].
    destruct (t_step (c_db c) tt (nn + dt) op) as [[res tq] nq]. apply IH. }
  specialize (Hg (round_ops c t now r) t now log).
  destruct (g_run (c_db c) t now (round_ops c t now r) log) as [[t2 now2] log2]. cbn in Hg.
  destruct Hinv as (A & B & C). split; [congruence|auto].
Qed.

(* ---------- reserved for as long as acknowledged (the clause ack_reserved of mon_C05 / mon_C07 on the model) ---------- *)

Lemma nth_error_set_until t : forall p u e, nth_error t p = Some e ->
  nth_error (set_until t p u) p = Some {| e_ip := e_ip e; e_duid := e_duid e; e_until := u; e_perm := e_perm e |}.
Proof.
  induction t as [|x r IH]; intros p u e H; [destruct p; discriminate|].
  destruct p as [|q]; cbn in *.
  - injection H as ->. reflexivity.
  - apply IH. exact H.
Qed.

(* a successful UpdateClient leaves an entry for exactly that address and client that runs until now + ttl *)
Theorem update_reserves x now ip d ttl t t' n : unique_live now t -> to_uip x ip = Some n ->
  t_update_client x now ip d ttl t = (true, t') ->
  exists p e, nth_error t' p = Some e /\ e_ip e = n /\ e_duid e = d /\ e_until e = (now + ttl)%Z.
Proof.
  intros U Hn H. pose proof (t_update_spec x now ip d ttl t true t' U H) as S. rewrite Hn in S.
  destruct S as [(p & e & (Hp & _) & Hi & Hd & _ & ->)|[(_ & _ & -> & _)|(_ & _ & Hf & _)]]; [| |discriminate].
  - exists p. eexists. split; [apply nth_error_set_until; exact Hp|]. cbn. auto.
  - exists (length t), (new_entry n d (now + ttl)%Z false). split; [|cbn; auto].
    rewrite nth_error_app2, Nat.sub_diag by lia. reflexivity.
Qed.

(* an accepted round whose single reply is not the NAK: it is the ACK for the client's binding, and the table afterwards
   holds that address for that client until the ACK's instant plus the configured lease - which is what the ACK
   advertises (C07: the lease option is the whole seconds of that duration) *)
Theorem accepted_ack_is_reserved c t r src dst m o t' f :
  unique_live (r_t r) t ->
  accept_request c t r src dst m o = RAcc t' -> r_outs r = [f] -> frame_eqb f (reply_nak c m) = false ->
  exists lease n, bound_ip (r_t r) (get_duid c (d_chaddr m) (o_cid o)) t = Some lease /\
    frame_eqb f (reply_lease c gf_dhcpmsg_MsgTypeAck m lease) = true /\ to_uip (c_db c) (Some lease) = Some n /\
    exists p e, nth_error t' p = Some e /\ e_ip e = n /\ e_duid e = get_duid c (d_chaddr m) (o_cid o) /\
                e_until e = (of_t f + c_lease c)%Z.
Proof.
  intros U H Ho Hnak. unfold accept_request in H. rewrite Ho in H. rewrite Hnak in H. cbn [andb] in H.
  destruct (classify_request c dst src o) as [desired|]; [|discriminate].
  destruct (negb (in_managed_range (c_db c) (Some desired))); [discriminate|].
  set (duid := get_duid c (d_chaddr m) (o_cid o)) in *.
  destruct (bound_ip (r_t r) duid t) as [lease|] eqn:Eb; [|discriminate].
  destruct (negb (lease =? desired)); [discriminate|].
  destruct (t_hold_client (c_db c) (r_t r) (Some lease) duid req_hold_ns t) as [okh t1] eqn:Eh.
  destruct okh; cbn [negb] in H; [|discriminate].
  destruct (probe_outcome (r_arp r) (d_chaddr m) lease) as [free cost].
  destruct free; cbn [negb] in H; [|discriminate].
  destruct (frame_eqb f (reply_lease c gf_dhcpmsg_MsgTypeAck m lease)) eqn:Ef; cbn [negb] in H; [|discriminate].
  destruct ((of_t f <? r_t r)%Z || (reply_deadline c r <? of_t f)%Z) eqn:Et; [discriminate|].
  destruct (t_update_client (c_db c) (of_t f) (Some lease) duid (c_lease c) t1) as [ok t2] eqn:Eu.
  destruct ok; [|discriminate]. injection H as <-.
  assert (U1 : unique_live (of_t f) t1).
  { apply unique_live_mono with (now := r_t r); [lia|]. eapply t_hold_unique; eauto. }
  destruct (to_uip (c_db c) (Some lease)) as [n|] eqn:En.
  - exists lease, n. repeat split; auto. eapply update_reserves; eauto.
  - exfalso. pose proof (t_update_spec _ _ _ _ _ _ _ _ U1 Eu) as S. rewrite En in S. destruct S as [S _]. discriminate.
Qed.
