(* C20: proofs about model/Fs.v (writers of resolv.conf over a small file system). *)
From Coq Require Import List NArith Bool Arith Lia.
From PSA Require Import gen.GoFacts model.Bytes model.Fs spec.SpecFs proofs.ConstFacts.
Import ListNotations.
Open Scope N_scope.

Arguments tmp_name : simpl never.
Arguments resolv_name : simpl never.
Arguments tmp_mode : simpl never.
Arguments gf_resolv_mode : simpl never.

(* ---- facts read from the source ---- *)
(* the program order of the model is the order of the calls in update() *)
Lemma cf_fs_program_order :
  gf_resolv_update_order = true /\ gf_resolv_cleanup_on_error = true /\ gf_resolv_ops_on_tmp_name = true /\ gf_resolv_same_dir = true.
Proof. split; [exact cf_resolv_update_order | repeat split]. Qed.
(* no temp name is the target name: the fixed part of the pattern before the random string is no prefix of the target *)
Lemma cf_tmp_prefix_not_target : is_prefixb gf_resolv_tmp_prefix gf_resolv_target_name = false.
Proof. reflexivity. Qed.
Lemma cf_modes_differ : tmp_mode <> gf_resolv_mode.
Proof. vm_compute. discriminate. Qed.

(* ---- bytes ---- *)
Lemma beq_eq a b : bytes_eqb a b = true <-> a = b.
Proof.
  revert b. induction a as [|x a IH]; destruct b as [|y b]; cbn; try (split; congruence).
  rewrite andb_true_iff, N.eqb_eq, IH. split; [intros [-> ->]; reflexivity | intros E; inversion E; auto].
Qed.
Lemma beq_refl a : bytes_eqb a a = true.
Proof. apply beq_eq. reflexivity. Qed.
Lemma beq_ne a b : a <> b -> bytes_eqb a b = false.
Proof. intros H. destruct (bytes_eqb a b) eqn:E; [apply beq_eq in E; contradiction | reflexivity]. Qed.
Lemma bytes_dec (a b : bytes) : {a = b} + {a <> b}.
Proof. apply list_eq_dec. apply N.eq_dec. Qed.

Lemma is_prefixb_app p x : is_prefixb p (p ++ x) = true.
Proof. induction p; cbn; [reflexivity | rewrite N.eqb_refl; exact IHp]. Qed.
Lemma is_prefixb_firstn k b : is_prefixb (firstn k b) b = true.
Proof. revert b. induction k; destruct b; cbn; try reflexivity. rewrite N.eqb_refl. apply IHk. Qed.

Lemma tmp_name_ne r : tmp_name r <> resolv_name.
Proof.
  intros E. pose proof (is_prefixb_app gf_resolv_tmp_prefix (r ++ gf_resolv_tmp_suffix)) as H.
  unfold tmp_name in E. rewrite E in H. unfold resolv_name in H. rewrite cf_tmp_prefix_not_target in H. discriminate.
Qed.

(* ---- directory ---- *)
Lemma lookup_remove_eq b d : lookup b (remove b d) = None.
Proof.
  induction d as [|[m f] d IH]; cbn; [reflexivity|].
  destruct (bytes_eqb b m) eqn:E; cbn; [exact IH | rewrite E; exact IH].
Qed.
Lemma lookup_remove_ne a b d : a <> b -> lookup a (remove b d) = lookup a d.
Proof.
  intros N. induction d as [|[m f] d IH]; cbn; [reflexivity|].
  destruct (bytes_eqb b m) eqn:E; cbn.
  - apply beq_eq in E. subst m. rewrite (beq_ne a b N). exact IH.
  - destruct (bytes_eqb a m); [reflexivity | exact IH].
Qed.
Lemma lookup_set_eq b f d : lookup b (set b f d) = Some f.
Proof. cbn. rewrite beq_refl. reflexivity. Qed.
Lemma lookup_set_ne a b f d : a <> b -> lookup a (set b f d) = lookup a d.
Proof. intros N. cbn. rewrite (beq_ne a b N). apply lookup_remove_ne, N. Qed.
Lemma lookup_append_ne a b x d : a <> b -> lookup a (append b x d) = lookup a d.
Proof. intros N. unfold append. destruct (lookup b d); [apply lookup_set_ne, N | reflexivity]. Qed.
Lemma lookup_chmod_ne a b m d : a <> b -> lookup a (chmod b m d) = lookup a d.
Proof. intros N. unfold chmod. destruct (lookup b d); [apply lookup_set_ne, N | reflexivity]. Qed.
Lemma lookup_append_eq b x d f : lookup b d = Some f ->
  lookup b (append b x d) = Some {| f_data := f_data f ++ x; f_mode := f_mode f |}.
Proof. intros H. unfold append. rewrite H. apply lookup_set_eq. Qed.
Lemma lookup_chmod_eq b m d f : lookup b d = Some f -> lookup b (chmod b m d) = Some {| f_data := f_data f; f_mode := m |}.
Proof. intros H. unfold chmod. rewrite H. apply lookup_set_eq. Qed.

Arguments set : simpl never.
Arguments remove : simpl never.
Arguments append : simpl never.
Arguments chmod : simpl never.

(* ---- lists of writers ---- *)
Lemma nth_upd_eq {A} i (x y : A) l : nth_error l i = Some y -> nth_error (upd i x l) i = Some x.
Proof. revert i. induction l; destruct i; cbn; try discriminate; auto. Qed.
Lemma nth_upd_ne {A} i j (x : A) l : i <> j -> nth_error (upd i x l) j = nth_error l j.
Proof. revert i j. induction l; destruct i, j; cbn; try reflexivity; try congruence. intros. apply IHl. congruence. Qed.

(* ---- one writer ---- *)
Definition is_pre (x b : bytes) : Prop := exists k, x = firstn k b.

Definition file_ok (w : writer) (f : file) : Prop :=
  match w_st w with
  | SWrite _ => f_mode f = tmp_mode /\ (if w_dead w then is_pre (f_data f) (w_buf w) else f_data f = [])
  | SClose _ werr => f_mode f = tmp_mode /\ is_pre (f_data f) (w_buf w) /\ (werr = false -> f_data f = w_buf w)
  | SChmod _ => f_mode f = tmp_mode /\ f_data f = w_buf w
  | SRename _ => f = final_file (w_buf w)
  | SCleanup _ | SErr _ => is_pre (f_data f) (w_buf w) /\ (f_mode f = tmp_mode \/ f = final_file (w_buf w))
  | SCreate | SOk => True
  end.

Definition local_ok (d : dir) (w : writer) : Prop :=
  forall t, holds (w_st w) = Some t -> t <> resolv_name /\ exists f, lookup t d = Some f /\ file_ok w f.

Lemma is_pre_nil b : is_pre [] b.
Proof. exists O. reflexivity. Qed.
Lemma is_pre_all b : is_pre b b.
Proof. exists (length b). symmetry. apply firstn_all. Qed.
Lemma is_pre_firstn k b : is_pre (firstn k b) b.
Proof. exists k. reflexivity. Qed.
#[local] Hint Resolve is_pre_nil is_pre_all is_pre_firstn tmp_name_ne : fs.

Ltac wdone H := inversion H; subst; clear H.
Ltac wsub ck cf H :=
  destruct ck; [wdone H | destruct cf; [try (rewrite orb_true_r in H); wdone H | try (rewrite orb_false_r in H)]].
Ltac wcases w c H :=
  let buf := fresh "buf" in let s := fresh "s" in let dead := fresh "dead" in
  let ck := fresh "ck" in let cf := fresh "cf" in
  destruct w as [buf s dead]; destruct c as [ck cf cr cl]; unfold wstep in H; cbn [w_dead w_st w_buf c_kill c_fault c_rand c_len] in H;
  destruct dead; [wdone H |
    destruct s as [|t|t werr|t|t|t| |l];
    [wsub ck cf H | wsub ck cf H | wsub ck cf H | wsub ck cf H | wsub ck cf H | wsub ck cf H | wdone H | wdone H]].

(* the buffer never changes *)
Lemma wstep_buf d w c d' w' : wstep d w c = (d', w') -> w_buf w' = w_buf w.
Proof.
  intros H. wcases w c H; cbn; try reflexivity.
  - destruct (lookup (tmp_name cr) d); inversion H; reflexivity.
  - inversion H; reflexivity.
  - destruct werr; inversion H; reflexivity.
  - destruct (lookup t d); inversion H; reflexivity.
  - destruct (lookup t d); inversion H; reflexivity.
  - inversion H; reflexivity.
Qed.

(* a name is acquired only by creating it where nothing was *)
Lemma wstep_holds d w c d' w' n : wstep d w c = (d', w') -> holds (w_st w') = Some n ->
  holds (w_st w) = Some n \/ (holds (w_st w) = None /\ lookup n d = None /\ n = tmp_name (c_rand c)).
Proof.
  intros H. wcases w c H; cbn; auto; try discriminate.
  - destruct (lookup (tmp_name cr) d) eqn:E; inversion H; subst; cbn; [discriminate|]. intros X; inversion X; subst. auto.
  - inversion H; subst; cbn; auto.
  - destruct werr; inversion H; subst; cbn; auto.
  - destruct (lookup t d); inversion H; subst; cbn; auto.
  - destruct (lookup t d); inversion H; subst; cbn; auto; discriminate.
  - inversion H; subst; cbn. discriminate.
Qed.

(* only the writer's own temp name (held before or after) and the target can change *)
Lemma wstep_frame d w c d' w' n : wstep d w c = (d', w') -> n <> resolv_name ->
  holds (w_st w) <> Some n -> holds (w_st w') <> Some n -> lookup n d' = lookup n d.
Proof.
  intros H NR. wcases w c H; cbn; intros A B; try reflexivity.
  - destruct (lookup (tmp_name cr) d) eqn:E; inversion H; subst; [reflexivity|]. cbn in B.
    apply lookup_set_ne. congruence.
  - apply lookup_append_ne. congruence.
  - apply lookup_append_ne. congruence.
  - inversion H; subst. apply lookup_append_ne. congruence.
  - destruct werr; inversion H; reflexivity.
  - destruct (lookup t d) eqn:E; inversion H; subst; [|reflexivity]. apply lookup_chmod_ne. congruence.
  - destruct (lookup t d) eqn:E; inversion H; subst; [|reflexivity].
    rewrite lookup_set_ne by exact NR. apply lookup_remove_ne. congruence.
  - inversion H; subst. apply lookup_remove_ne. congruence.
Qed.

(* a name given up is gone *)
Lemma wstep_release d w c d' w' n : wstep d w c = (d', w') -> n <> resolv_name ->
  holds (w_st w) = Some n -> holds (w_st w') <> Some n -> lookup n d' = None.
Proof.
  intros H NR. wcases w c H; cbn; intros A B; try congruence.
  - inversion H; subst; cbn in *; congruence.
  - destruct werr; inversion H; subst; cbn in *; congruence.
  - destruct (lookup t d); inversion H; subst; cbn in *; congruence.
  - inversion A; subst t. destruct (lookup n d); inversion H; subst; cbn in *; [|congruence].
    rewrite lookup_set_ne by exact NR. apply lookup_remove_eq.
  - inversion A; subst t. inversion H; subst. apply lookup_remove_eq.
Qed.

(* the writer's own file evolves as the program says *)
Lemma wstep_local d w c d' w' : wstep d w c = (d', w') -> local_ok d w -> local_ok d' w'.
Proof.
  intros H L. unfold local_ok in *. wcases w c H; cbn [holds w_st w_buf w_dead goto killed] in *; intros t' Ht'; try (exact (L t' Ht')); try discriminate Ht'.
  - (* create *)
    destruct (lookup (tmp_name cr) d) eqn:E; inversion H; subst; cbn in *; [discriminate|].
    inversion Ht'; subst t'. split; [apply tmp_name_ne|]. eexists; split; [apply lookup_set_eq|]. unfold file_ok; cbn. auto.
  - (* killed in write *)
    inversion Ht'; subst t'. destruct (L t eq_refl) as (NR & f & Lf & Mf & Df). cbn in Df.
    split; [exact NR|]. eexists; split; [apply lookup_append_eq; exact Lf|]. unfold file_ok; cbn. rewrite Df. cbn. auto with fs.
  - (* failed write *)
    inversion Ht'; subst t'. destruct (L t eq_refl) as (NR & f & Lf & Mf & Df). cbn in Df.
    split; [exact NR|]. eexists; split; [apply lookup_append_eq; exact Lf|]. unfold file_ok; cbn. rewrite Df. cbn.
    split; [exact Mf|]. split; [auto with fs|discriminate].
  - (* write *)
    inversion H; subst; clear H. cbn in Ht'. inversion Ht'; subst t'. destruct (L t eq_refl) as (NR & f & Lf & Mf & Df). cbn in Df.
    split; [exact NR|]. eexists; split; [apply lookup_append_eq; exact Lf|]. unfold file_ok; cbn. rewrite Df. cbn. auto with fs.
  - (* close fails *)
    inversion Ht'; subst t'. destruct (L t eq_refl) as (NR & f & Lf & Mf & Pf & _). split; [exact NR|]. exists f. split; [exact Lf|].
    unfold file_ok; cbn. auto.
  - (* close *)
    destruct (L t eq_refl) as (NR & f & Lf & Mf & Pf & Af). destruct werr; inversion H; subst; clear H; cbn in Ht'; inversion Ht'; subst t';
      (split; [exact NR|]); exists f; (split; [exact Lf|]); unfold file_ok; cbn; auto.
  - (* chmod fails *)
    inversion Ht'; subst t'. destruct (L t eq_refl) as (NR & f & Lf & Mf & Df). split; [exact NR|]. exists f. split; [exact Lf|].
    unfold file_ok; cbn. rewrite Df. auto with fs.
  - (* chmod *)
    destruct (L t eq_refl) as (NR & f & Lf & Mf & Df). rewrite Lf in H. inversion H; subst; clear H. cbn in Ht'. inversion Ht'; subst t'.
    split; [exact NR|]. eexists; split; [apply lookup_chmod_eq; exact Lf|]. unfold file_ok, final_file; cbn. rewrite Df. reflexivity.
  - (* rename fails *)
    inversion Ht'; subst t'. destruct (L t eq_refl) as (NR & f & Lf & Of). split; [exact NR|]. exists f. split; [exact Lf|].
    unfold file_ok in *; cbn in *. subst f. cbn. auto with fs.
  - (* rename *)
    destruct (L t eq_refl) as (NR & f & Lf & Of). rewrite Lf in H. inversion H; subst; clear H. cbn in Ht'. discriminate.
  - inversion H; subst; clear H. cbn in Ht'. discriminate.
Qed.

(* resolv.conf changes only in the successful rename, and then to the writer's complete buffer with the final mode *)
Lemma wstep_resolv d w c d' w' : wstep d w c = (d', w') -> local_ok d w ->
  lookup resolv_name d' = lookup resolv_name d \/
  (w_st w' = SOk /\ w_dead w' = false /\ (exists t, w_st w = SRename t) /\ c_kill c = false /\ c_fault c = false /\
   lookup resolv_name d' = Some (final_file (w_buf w))).
Proof.
  intros H L. unfold local_ok in L. wcases w c H; cbn [holds w_st w_buf w_dead goto killed] in *; auto.
  - destruct (lookup (tmp_name cr) d) eqn:E; inversion H; subst; auto. left. apply lookup_set_ne. intros X. symmetry in X. exact (tmp_name_ne _ X).
  - left. apply lookup_append_ne. intros X. symmetry in X. exact (proj1 (L t eq_refl) X).
  - left. apply lookup_append_ne. intros X. symmetry in X. exact (proj1 (L t eq_refl) X).
  - inversion H; subst. left. apply lookup_append_ne. intros X. symmetry in X. exact (proj1 (L t eq_refl) X).
  - destruct werr; inversion H; subst; auto.
  - destruct (lookup t d) eqn:E; inversion H; subst; auto. left. apply lookup_chmod_ne. intros X. symmetry in X. exact (proj1 (L t eq_refl) X).
  - destruct (L t eq_refl) as (NR & f & Lf & Of). rewrite Lf in H. inversion H; subst; clear H. right. cbn.
    repeat split; eauto. unfold file_ok in Of; cbn in Of. subst f. apply lookup_set_eq.
  - inversion H; subst. left. apply lookup_remove_ne. intros X. symmetry in X. exact (proj1 (L t eq_refl) X).
Qed.

(* finished and dead writers do nothing *)
Lemma wstep_final d w c : w_dead w = true \/ w_st w = SOk \/ (exists l, w_st w = SErr l) -> wstep d w c = (d, w).
Proof.
  unfold wstep. destruct (w_dead w); [reflexivity|]. intros [H|[H|[l H]]]; [discriminate| |]; rewrite H; reflexivity.
Qed.

(* ---- the whole system ---- *)
Lemma holds_dec s n : {holds s = Some n} + {holds s <> Some n}.
Proof.
  destruct (holds s) as [t|]; [|right; discriminate].
  destruct (bytes_dec t n); [left; congruence | right; congruence].
Qed.

Lemma map_upd {A B} (g : A -> B) i x y l : nth_error l i = Some y -> g x = g y -> map g (upd i x l) = map g l.
Proof. revert i. induction l; destruct i; cbn; try discriminate; intros H E; [inversion H; subst; rewrite E; reflexivity | rewrite (IHl _ H E); reflexivity]. Qed.

Record Inv (d0 : dir) (bufs : list bytes) (st : state) : Prop := {
  inv_local : forall i w, nth_error (st_ws st) i = Some w -> local_ok (st_dir st) w;
  inv_distinct : forall i j wi wj t, nth_error (st_ws st) i = Some wi -> nth_error (st_ws st) j = Some wj ->
    holds (w_st wi) = Some t -> holds (w_st wj) = Some t -> i = j;
  inv_account : forall n f, n <> resolv_name -> lookup n (st_dir st) = Some f ->
    (exists i w, nth_error (st_ws st) i = Some w /\ holds (w_st w) = Some n) \/ lookup n d0 = Some f;
  inv_initial : forall n f, n <> resolv_name -> lookup n d0 = Some f ->
    lookup n (st_dir st) = Some f /\ forall i w, nth_error (st_ws st) i = Some w -> holds (w_st w) <> Some n;
  inv_resolv : lookup resolv_name (st_dir st) = lookup resolv_name d0 \/
    exists i w, nth_error (st_ws st) i = Some w /\ w_st w = SOk /\ w_dead w = false /\
                lookup resolv_name (st_dir st) = Some (final_file (w_buf w));
  inv_bufs : map w_buf (st_ws st) = bufs;
  inv_shape : forall i w t, nth_error (st_ws st) i = Some w -> holds (w_st w) = Some t -> exists r, t = tmp_name r
}.

Lemma Inv_init d0 bufs : Inv d0 bufs (init d0 bufs).
Proof.
  assert (F : forall i w, nth_error (map fresh bufs) i = Some w -> w_st w = SCreate).
  { intros i w H. apply nth_error_In, in_map_iff in H. destruct H as (b & <- & _). reflexivity. }
  constructor; cbn.
  - intros i w H t Ht. rewrite (F _ _ H) in Ht. discriminate.
  - intros i j wi wj t Hi _ Ht. rewrite (F _ _ Hi) in Ht. discriminate.
  - auto.
  - intros n f _ H. split; [exact H|]. intros i w Hi. rewrite (F _ _ Hi). discriminate.
  - auto.
  - rewrite map_map. cbn. apply map_id.
  - intros i w t H Ht. rewrite (F _ _ H) in Ht. discriminate.
Qed.

(* a temp name held by another writer is out of reach of this step *)
Lemma other_name d0 bufs st i j w wj c d' w' t : Inv d0 bufs st ->
  nth_error (st_ws st) i = Some w -> nth_error (st_ws st) j = Some wj -> i <> j -> wstep (st_dir st) w c = (d', w') ->
  holds (w_st wj) = Some t ->
  holds (w_st w) <> Some t /\ holds (w_st w') <> Some t /\ t <> resolv_name /\ lookup t d' = lookup t (st_dir st).
Proof.
  intros I Hi Hj N W Ht.
  destruct (inv_local _ _ _ I j wj Hj t Ht) as (NR & f & Lf & _).
  assert (A : holds (w_st w) <> Some t). { intros X. apply N. exact (inv_distinct _ _ _ I i j w wj t Hi Hj X Ht). }
  assert (B : holds (w_st w') <> Some t).
  { intros X. destruct (wstep_holds _ _ _ _ _ _ W X) as [Y|(_ & Y & _)]; [exact (A Y) | congruence]. }
  repeat split; auto. exact (wstep_frame _ _ _ _ _ _ W NR A B).
Qed.

Lemma Inv_step d0 bufs st ic : Inv d0 bufs st -> Inv d0 bufs (step st ic).
Proof.
  intros I. unfold step. destruct ic as [i c]. cbn [fst snd]. destruct (nth_error (st_ws st) i) as [w|] eqn:Hi; [|exact I].
  destruct (wstep (st_dir st) w c) as [d' w'] eqn:W.
  pose proof (inv_local _ _ _ I i w Hi) as Lw.
  assert (Hi' : nth_error (upd i w' (st_ws st)) i = Some w') by (eapply nth_upd_eq; exact Hi).
  constructor; cbn [st_dir st_ws].
  - (* local *)
    intros j wj Hj. destruct (Nat.eq_dec i j) as [->|N].
    + rewrite Hi' in Hj. inversion Hj; subst wj. exact (wstep_local _ _ _ _ _ W Lw).
    + rewrite (nth_upd_ne _ _ _ _ N) in Hj. intros t Ht.
      destruct (other_name _ _ _ _ _ _ _ _ _ _ _ I Hi Hj N W Ht) as (_ & _ & NR & E).
      destruct (inv_local _ _ _ I j wj Hj t Ht) as (_ & f & Lf & Of). split; [exact NR|]. exists f. split; [congruence | exact Of].
  - (* distinct *)
    intros a b wa wb t Ha Hb Hta Htb.
    destruct (Nat.eq_dec i a) as [Ea|Na]; destruct (Nat.eq_dec i b) as [Eb|Nb]; try congruence.
    + subst a. rewrite Hi' in Ha. inversion Ha; subst wa. rewrite (nth_upd_ne _ _ _ _ Nb) in Hb.
      destruct (other_name _ _ _ _ _ _ _ _ _ _ _ I Hi Hb Nb W Htb) as (_ & X & _). contradiction.
    + subst b. rewrite Hi' in Hb. inversion Hb; subst wb. rewrite (nth_upd_ne _ _ _ _ Na) in Ha.
      destruct (other_name _ _ _ _ _ _ _ _ _ _ _ I Hi Ha Na W Hta) as (_ & X & _). contradiction.
    + rewrite (nth_upd_ne _ _ _ _ Na) in Ha. rewrite (nth_upd_ne _ _ _ _ Nb) in Hb.
      exact (inv_distinct _ _ _ I a b wa wb t Ha Hb Hta Htb).
  - (* account *)
    intros n f NR Ln.
    destruct (holds_dec (w_st w') n) as [A|A]; [left; exists i, w'; auto|].
    destruct (holds_dec (w_st w) n) as [B|B].
    { rewrite (wstep_release _ _ _ _ _ _ W NR B A) in Ln. discriminate. }
    rewrite (wstep_frame _ _ _ _ _ _ W NR B A) in Ln.
    destruct (inv_account _ _ _ I n f NR Ln) as [(j & wj & Hj & Hn)|R]; [|right; exact R].
    left. exists j, wj. split; [|exact Hn]. rewrite nth_upd_ne; [exact Hj|]. intros ->. congruence.
  - (* initial files *)
    intros n f NR L0. destruct (inv_initial _ _ _ I n f NR L0) as (Ln & Nh).
    assert (B : holds (w_st w) <> Some n) by exact (Nh i w Hi).
    assert (A : holds (w_st w') <> Some n).
    { intros X. destruct (wstep_holds _ _ _ _ _ _ W X) as [Y|(_ & Y & _)]; [exact (B Y) | congruence]. }
    split; [rewrite (wstep_frame _ _ _ _ _ _ W NR B A); exact Ln|].
    intros j wj Hj. destruct (Nat.eq_dec i j) as [->|N].
    + rewrite Hi' in Hj. inversion Hj; subst wj. exact A.
    + rewrite (nth_upd_ne _ _ _ _ N) in Hj. exact (Nh j wj Hj).
  - (* resolv.conf *)
    destruct (wstep_resolv _ _ _ _ _ W Lw) as [E|(S & Dd & _ & _ & _ & E)].
    + rewrite E. destruct (inv_resolv _ _ _ I) as [L|(j & wj & Hj & Sj & Dj & Lj)]; [left; exact L|].
      right. exists j, wj. split; [|auto]. destruct (Nat.eq_dec i j) as [->|N].
      * rewrite Hi in Hj. inversion Hj; subst wj. rewrite wstep_final in W by auto. inversion W; subst. exact Hi'.
      * rewrite (nth_upd_ne _ _ _ _ N). exact Hj.
    + right. exists i, w'. rewrite (wstep_buf _ _ _ _ _ W). auto.
  - (* buffers *)
    rewrite (map_upd w_buf i w' w _ Hi (wstep_buf _ _ _ _ _ W)). exact (inv_bufs _ _ _ I).
  - (* shape of temp names *)
    intros j wj t Hj Ht. destruct (Nat.eq_dec i j) as [->|N].
    + rewrite Hi' in Hj. inversion Hj; subst wj. destruct (wstep_holds _ _ _ _ _ _ W Ht) as [Y|(_ & _ & Y)]; [|eauto].
      exact (inv_shape _ _ _ I j w t Hi Y).
    + rewrite (nth_upd_ne _ _ _ _ N) in Hj. exact (inv_shape _ _ _ I j wj t Hj Ht).
Qed.

Lemma Inv_run d0 bufs s st : Inv d0 bufs st -> Inv d0 bufs (run st s).
Proof. revert st. induction s as [|ic s IH]; cbn; intros st I; [exact I | apply IH, Inv_step, I]. Qed.

Lemma Inv_reach d0 bufs s : Inv d0 bufs (run (init d0 bufs) s).
Proof. apply Inv_run, Inv_init. Qed.

Lemma run_app st s1 s2 : run st (s1 ++ s2) = run (run st s1) s2.
Proof. apply fold_left_app. Qed.

Lemma nth_bufs d0 bufs st i w : Inv d0 bufs st -> nth_error (st_ws st) i = Some w -> nth_error bufs i = Some (w_buf w).
Proof. intros I H. rewrite <- (inv_bufs _ _ _ I). rewrite nth_error_map, H. reflexivity. Qed.

(* ======================= the statements of C20 ======================= *)

(* (a)+(b): at every instant resolv.conf is what it was before (absent if it was absent) or the complete buffer of a
   writer that returned nil, with the final mode *)
Theorem fs_resolv_atomic d0 bufs s :
  let st := run (init d0 bufs) s in
  lookup resolv_name (st_dir st) = lookup resolv_name d0 \/
  exists i b w, nth_error bufs i = Some b /\ nth_error (st_ws st) i = Some w /\ w_st w = SOk /\ w_dead w = false /\
                lookup resolv_name (st_dir st) = Some {| f_data := b; f_mode := gf_resolv_mode |}.
Proof.
  cbn zeta. pose proof (Inv_reach d0 bufs s) as I.
  destruct (inv_resolv _ _ _ I) as [L|(i & w & Hi & S & Dd & L)]; [left; exact L|].
  right. exists i, (w_buf w), w. split; [exact (nth_bufs _ _ _ _ _ I Hi)|]. auto.
Qed.

(* (c) a step changes resolv.conf only if it is the successful rename of a live writer *)
Theorem fs_only_rename_changes d0 bufs s i c :
  let st := run (init d0 bufs) s in let st' := step st (i, c) in
  lookup resolv_name (st_dir st') <> lookup resolv_name (st_dir st) ->
  exists w w' t, nth_error (st_ws st) i = Some w /\ w_st w = SRename t /\ w_dead w = false /\ c_kill c = false /\ c_fault c = false /\
                 nth_error (st_ws st') i = Some w' /\ w_st w' = SOk /\ w_dead w' = false /\
                 lookup resolv_name (st_dir st') = Some (final_file (w_buf w)).
Proof.
  cbn zeta. pose proof (Inv_reach d0 bufs s) as I. set (st := run (init d0 bufs) s) in *.
  unfold step. cbn [fst snd]. destruct (nth_error (st_ws st) i) as [w|] eqn:Hi; [|congruence].
  destruct (wstep (st_dir st) w c) as [d' w'] eqn:W. cbn [st_dir st_ws]. intros Ch.
  destruct (wstep_resolv _ _ _ _ _ W (inv_local _ _ _ I i w Hi)) as [E|(S & Dd & (t & St) & K & F & E)]; [congruence|].
  exists w, w', t. repeat split; auto.
  - destruct (w_dead w) eqn:X; [|reflexivity]. rewrite wstep_final in W by auto. inversion W; subst. congruence.
  - eapply nth_upd_eq; exact Hi.
Qed.

Lemma file_dec (a b : file) : {a = b} + {a <> b}.
Proof. decide equality; [apply N.eq_dec | apply bytes_dec]. Qed.
Lemma ofile_dec (a b : option file) : {a = b} + {a <> b}.
Proof. decide equality. apply file_dec. Qed.

Definition finished (w : writer) : Prop := w_dead w = true \/ w_st w = SOk \/ exists l, w_st w = SErr l.

Lemma step_other st i j c : i <> j -> nth_error (st_ws (step st (j, c))) i = nth_error (st_ws st) i.
Proof.
  intros N. unfold step. cbn [fst snd]. destruct (nth_error (st_ws st) j) eqn:Hj; [|reflexivity].
  destruct (wstep (st_dir st) w c). cbn. apply nth_upd_ne. congruence.
Qed.
Lemma step_finished st ic i w : nth_error (st_ws st) i = Some w -> finished w -> nth_error (st_ws (step st ic)) i = Some w.
Proof.
  intros Hi F. destruct ic as [j c]. destruct (Nat.eq_dec i j) as [<-|N]; [|rewrite step_other by exact N; exact Hi].
  unfold step. cbn [fst snd]. rewrite Hi. rewrite wstep_final by exact F. cbn. eapply nth_upd_eq; exact Hi.
Qed.
Lemma run_finished s st i w : nth_error (st_ws st) i = Some w -> finished w -> nth_error (st_ws (run st s)) i = Some w.
Proof. revert st. induction s as [|ic s IH]; cbn; intros st Hi F; [exact Hi | apply IH; [apply step_finished; assumption | exact F]]. Qed.
Lemma run_others s st i : Forall (fun ic => fst ic <> i) s -> nth_error (st_ws (run st s)) i = nth_error (st_ws st) i.
Proof.
  revert st. induction s as [|[j c] s IH]; intros st F; [reflexivity|]. inversion F; subst. cbn [fst] in *.
  change (nth_error (st_ws (run (step st (j, c)) s)) i = nth_error (st_ws st) i).
  rewrite IH by assumption. apply step_other. congruence.
Qed.

(* (c) a writer that does not end with "returned nil" (it returned an error, was killed, or is still running) never
   changed resolv.conf: every one of its steps left it as the other writers' steps had made it *)
Theorem fs_failed_writer_no_change d0 bufs s1 i c s2 :
  let st := run (init d0 bufs) s1 in let st' := step st (i, c) in let fin := run st' s2 in
  (forall w, nth_error (st_ws fin) i = Some w -> w_st w <> SOk) ->
  lookup resolv_name (st_dir st') = lookup resolv_name (st_dir st).
Proof.
  cbn zeta. intros NF.
  match goal with |- ?a = ?b => destruct (ofile_dec a b) as [D|D] end; [exact D|]. exfalso.
  destruct (fs_only_rename_changes d0 bufs s1 i c D) as (w & w' & t & _ & _ & _ & _ & _ & Hi' & S' & _).
  apply (NF w'); [apply run_finished; [exact Hi' | right; left; exact S'] | exact S'].
Qed.

(* (c) how a writer returns an error: either TempFile failed (nothing was created, nothing changed), or through the
   deferred removal: resolv.conf untouched, the temp file gone - unless the removal itself failed *)
Lemma wstep_err d w c d' w' lf : wstep d w c = (d', w') -> w_dead w = false -> w_st w' = SErr lf -> (forall l0, w_st w <> SErr l0) ->
  (w_st w = SCreate /\ d' = d /\ lf = None) \/
  (exists t, w_st w = SCleanup t /\ ((lf = None /\ d' = remove t d) \/ (lf = Some t /\ c_fault c = true /\ d' = d))).
Proof.
  intros H. wcases w c H; cbn; intros Dd S NE; try discriminate; try (exfalso; exact (NE _ eq_refl)).
  - inversion S; subst. auto.
  - destruct (lookup (tmp_name cr) d); inversion H; subst; discriminate.
  - inversion H; subst; discriminate.
  - destruct werr; inversion H; subst; discriminate.
  - destruct (lookup t d); inversion H; subst; discriminate.
  - destruct (lookup t d); inversion H; subst; discriminate.
  - inversion S; subst. right. exists t. auto.
  - inversion H; subst. cbn in S. inversion S; subst. right. exists t. auto.
Qed.

Theorem fs_error_return d0 bufs s i c w w' l :
  let st := run (init d0 bufs) s in let st' := step st (i, c) in
  nth_error (st_ws st) i = Some w -> nth_error (st_ws st') i = Some w' -> w_dead w = false -> (forall l0, w_st w <> SErr l0) ->
  w_st w' = SErr l ->
  lookup resolv_name (st_dir st') = lookup resolv_name (st_dir st) /\
  ((w_st w = SCreate /\ st_dir st' = st_dir st /\ l = None) \/
   exists t, w_st w = SCleanup t /\
     ((l = None /\ lookup t (st_dir st') = None /\ forall n, n <> t -> lookup n (st_dir st') = lookup n (st_dir st)) \/
      (l = Some t /\ c_fault c = true /\ st_dir st' = st_dir st))).
Proof.
  cbn zeta. pose proof (Inv_reach d0 bufs s) as I. set (st := run (init d0 bufs) s) in *.
  unfold step. cbn [fst snd]. intros Hi. rewrite Hi. destruct (wstep (st_dir st) w c) as [d' w1] eqn:W. cbn [st_dir st_ws].
  intros Hi' Dd NE S. rewrite (nth_upd_eq _ _ _ _ Hi) in Hi'. inversion Hi'; subst w1.
  split.
  - destruct (wstep_resolv _ _ _ _ _ W (inv_local _ _ _ I i w Hi)) as [E|(S' & _)]; [exact E | congruence].
  - destruct (wstep_err _ _ _ _ _ _ W Dd S NE) as [A|(t & St & [(-> & ->)|B])]; [left; exact A| |right; exists t; auto].
    right. exists t. split; [exact St|]. left. split; [reflexivity|]. split; [apply lookup_remove_eq|].
    intros n N. apply lookup_remove_ne, N.
Qed.

(* (d) temp names of different writers differ; a temp file holds a prefix of its writer's buffer with the creation
   mode, or the complete buffer with the final mode; it is never the target *)
Theorem fs_tmp_names_distinct d0 bufs s i j wi wj t :
  let st := run (init d0 bufs) s in
  nth_error (st_ws st) i = Some wi -> nth_error (st_ws st) j = Some wj ->
  holds (w_st wi) = Some t -> holds (w_st wj) = Some t -> i = j.
Proof. cbn zeta. intros. eapply (inv_distinct _ _ _ (Inv_reach d0 bufs s)); eassumption. Qed.

Lemma file_ok_prefix w f t : holds (w_st w) = Some t -> file_ok w f ->
  is_pre (f_data f) (w_buf w) /\ (f_mode f = tmp_mode \/ f = final_file (w_buf w)).
Proof.
  unfold file_ok. destruct w as [buf s dead]; cbn. destruct s; cbn; try discriminate; intros _.
  - intros [M D]. destruct dead; [auto | rewrite D; auto with fs].
  - intros (M & P & _). auto.
  - intros [M D]. rewrite D. auto with fs.
  - intros ->. cbn. auto with fs.
  - auto.
  - auto.
Qed.

Theorem fs_tmp_files d0 bufs s i w t :
  let st := run (init d0 bufs) s in
  nth_error (st_ws st) i = Some w -> holds (w_st w) = Some t ->
  t <> resolv_name /\ (exists r, t = tmp_name r) /\
  exists f, lookup t (st_dir st) = Some f /\ (exists k, f_data f = firstn k (w_buf w)) /\
            (f_mode f = tmp_mode \/ f = final_file (w_buf w)).
Proof.
  cbn zeta. intros Hi Ht. pose proof (Inv_reach d0 bufs s) as I.
  destruct (inv_local _ _ _ I i w Hi t Ht) as (NR & f & Lf & Of). split; [exact NR|]. split; [exact (inv_shape _ _ _ I i w t Hi Ht)|].
  exists f. split; [exact Lf|]. exact (file_ok_prefix _ _ _ Ht Of).
Qed.

(* (d) every other file of the directory is an untouched initial file or the temp file of a writer; initial files stay *)
Theorem fs_dir_accounted d0 bufs s n :
  let st := run (init d0 bufs) s in
  n <> resolv_name ->
  (forall f, lookup n (st_dir st) = Some f ->
     lookup n d0 = Some f \/ exists i w, nth_error (st_ws st) i = Some w /\ holds (w_st w) = Some n) /\
  (forall f, lookup n d0 = Some f -> lookup n (st_dir st) = Some f).
Proof.
  cbn zeta. intros NR. pose proof (Inv_reach d0 bufs s) as I. split; intros f H.
  - destruct (inv_account _ _ _ I n f NR H); auto.
  - exact (proj1 (inv_initial _ _ _ I n f NR H)).
Qed.

(* when no writer holds a temp file (each returned nil, or an error with its file removed, or has not started), the
   directory is the initial one except for resolv.conf: no temp file is left *)
Theorem fs_quiescent d0 bufs s :
  let st := run (init d0 bufs) s in
  (forall i w, nth_error (st_ws st) i = Some w -> holds (w_st w) = None) ->
  forall n, n <> resolv_name -> lookup n (st_dir st) = lookup n d0.
Proof.
  cbn zeta. intros Q n NR. pose proof (Inv_reach d0 bufs s) as I.
  destruct (lookup n (st_dir (run (init d0 bufs) s))) as [f|] eqn:L.
  - destruct (inv_account _ _ _ I n f NR L) as [(i & w & Hi & Hn)|R]; [rewrite (Q i w Hi) in Hn; discriminate | auto].
  - destruct (lookup n d0) as [f|] eqn:L0; [|reflexivity]. rewrite (proj1 (inv_initial _ _ _ I n f NR L0)) in L. discriminate.
Qed.

(* (e) progress of a writer that is neither killed nor hit by a fault *)
Definition good (c : choice) : Prop := c_kill c = false /\ c_fault c = false.

Lemma progress d0 bufs st i w c : Inv d0 bufs st -> nth_error (st_ws st) i = Some w -> w_dead w = false -> good c ->
  let st' := step st (i, c) in
  match w_st w with
  | SCreate => lookup (tmp_name (c_rand c)) (st_dir st) = None -> nth_error (st_ws st') i = Some (goto w (SWrite (tmp_name (c_rand c))))
  | SWrite t => nth_error (st_ws st') i = Some (goto w (SClose t false))
  | SClose t false => nth_error (st_ws st') i = Some (goto w (SChmod t))
  | SChmod t => nth_error (st_ws st') i = Some (goto w (SRename t))
  | SRename t => nth_error (st_ws st') i = Some (goto w SOk) /\ lookup resolv_name (st_dir st') = Some (final_file (w_buf w))
  | _ => True
  end.
Proof.
  intros I Hi Dd [K F]. cbn zeta. pose proof (inv_local _ _ _ I i w Hi) as L. unfold local_ok in L.
  unfold step. cbn [fst snd]. rewrite Hi. unfold wstep. rewrite Dd, K, F.
  destruct w as [buf s dead]; cbn [w_st w_buf w_dead] in *. destruct s as [|t|t werr|t|t|t| |l]; cbn [holds] in *; auto.
  - intros E. rewrite E. cbn. eapply nth_upd_eq; exact Hi.
  - cbn. eapply nth_upd_eq; exact Hi.
  - destruct werr; [exact Logic.I|]. cbn. eapply nth_upd_eq; exact Hi.
  - destruct (L t eq_refl) as (_ & f & Lf & _). rewrite Lf. cbn. eapply nth_upd_eq; exact Hi.
  - destruct (L t eq_refl) as (_ & f & Lf & Of). rewrite Lf. cbn. split; [eapply nth_upd_eq; exact Hi|].
    unfold file_ok in Of; cbn in Of. subst f. apply lookup_set_eq.
Qed.

Theorem fs_rename_installs d0 bufs s i w t c :
  let st := run (init d0 bufs) s in let st' := step st (i, c) in
  nth_error (st_ws st) i = Some w -> w_st w = SRename t -> w_dead w = false -> c_kill c = false -> c_fault c = false ->
  lookup resolv_name (st_dir st') = Some (final_file (w_buf w)) /\
  exists w', nth_error (st_ws st') i = Some w' /\ w_st w' = SOk /\ w_dead w' = false.
Proof.
  cbn zeta. intros Hi S Dd K F. pose proof (progress _ _ _ _ _ c (Inv_reach d0 bufs s) Hi Dd (conj K F)) as P. cbn zeta in P.
  rewrite S in P. destruct P as [P1 P2]. split; [exact P2|]. eexists; split; [exact P1|]. auto.
Qed.

(* a writer that takes its five steps without fault and without being killed - whatever the others do in between,
   including their faults and deaths - has installed its buffer when it returns *)
Theorem fs_complete_run d0 bufs s0 i w c1 s1 c2 s2 c3 s3 c4 s4 c5 :
  let st0 := run (init d0 bufs) s0 in
  nth_error (st_ws st0) i = Some w -> w_st w = SCreate -> w_dead w = false ->
  lookup (tmp_name (c_rand c1)) (st_dir st0) = None ->
  good c1 -> good c2 -> good c3 -> good c4 -> good c5 ->
  Forall (fun ic => fst ic <> i) s1 -> Forall (fun ic => fst ic <> i) s2 -> Forall (fun ic => fst ic <> i) s3 -> Forall (fun ic => fst ic <> i) s4 ->
  let fin := run st0 ((i, c1) :: s1 ++ (i, c2) :: s2 ++ (i, c3) :: s3 ++ (i, c4) :: s4 ++ [(i, c5)]) in
  lookup resolv_name (st_dir fin) = Some {| f_data := w_buf w; f_mode := gf_resolv_mode |} /\
  exists w', nth_error (st_ws fin) i = Some w' /\ w_st w' = SOk /\ w_dead w' = false.
Proof.
  cbn zeta. intros Hi S Dd Fr G1 G2 G3 G4 G5 O1 O2 O3 O4.
  pose proof (Inv_reach d0 bufs s0) as I0. set (st0 := run (init d0 bufs) s0) in *.
  change (run st0 ((i, c1) :: s1 ++ (i, c2) :: s2 ++ (i, c3) :: s3 ++ (i, c4) :: s4 ++ [(i, c5)]))
    with (run (step st0 (i, c1)) (s1 ++ (i, c2) :: s2 ++ (i, c3) :: s3 ++ (i, c4) :: s4 ++ [(i, c5)])).
  rewrite run_app.
  (* create *)
  pose proof (progress _ _ _ _ _ c1 I0 Hi Dd G1) as P. cbn zeta in P. rewrite S in P. specialize (P Fr).
  pose proof (Inv_run _ _ s1 _ (Inv_step _ _ _ (i, c1) I0)) as I1.
  rewrite <- (run_others s1 _ i O1) in P. set (st1 := run (step st0 (i, c1)) s1) in *.
  change (run st1 ((i, c2) :: s2 ++ (i, c3) :: s3 ++ (i, c4) :: s4 ++ [(i, c5)]))
    with (run (step st1 (i, c2)) (s2 ++ (i, c3) :: s3 ++ (i, c4) :: s4 ++ [(i, c5)])).
  rewrite run_app.
  (* write *)
  pose proof (progress _ _ _ _ _ c2 I1 P eq_refl G2) as P2. cbn zeta in P2. cbn [goto w_st] in P2.
  pose proof (Inv_run _ _ s2 _ (Inv_step _ _ _ (i, c2) I1)) as I2.
  rewrite <- (run_others s2 _ i O2) in P2. set (st2 := run (step st1 (i, c2)) s2) in *.
  change (run st2 ((i, c3) :: s3 ++ (i, c4) :: s4 ++ [(i, c5)])) with (run (step st2 (i, c3)) (s3 ++ (i, c4) :: s4 ++ [(i, c5)])).
  rewrite run_app.
  (* close *)
  pose proof (progress _ _ _ _ _ c3 I2 P2 eq_refl G3) as P3. cbn zeta in P3. cbn [goto w_st] in P3.
  pose proof (Inv_run _ _ s3 _ (Inv_step _ _ _ (i, c3) I2)) as I3.
  rewrite <- (run_others s3 _ i O3) in P3. set (st3 := run (step st2 (i, c3)) s3) in *.
  change (run st3 ((i, c4) :: s4 ++ [(i, c5)])) with (run (step st3 (i, c4)) (s4 ++ [(i, c5)])).
  rewrite run_app.
  (* chmod *)
  pose proof (progress _ _ _ _ _ c4 I3 P3 eq_refl G4) as P4. cbn zeta in P4. cbn [goto w_st] in P4.
  pose proof (Inv_run _ _ s4 _ (Inv_step _ _ _ (i, c4) I3)) as I4.
  rewrite <- (run_others s4 _ i O4) in P4. set (st4 := run (step st3 (i, c4)) s4) in *.
  (* rename *)
  pose proof (progress _ _ _ _ _ c5 I4 P4 eq_refl G5) as P5. cbn zeta in P5. cbn [goto w_st w_buf] in P5.
  change (run st4 [(i, c5)]) with (step st4 (i, c5)). destruct P5 as [P5 R5].
  split; [exact R5|]. eexists; split; [exact P5|]. auto.
Qed.

(* ======================= the run-time checks accept every reachable state ======================= *)
Lemma file_eqb_eq a b : file_eqb a b = true <-> a = b.
Proof.
  destruct a as [x m], b as [y n]. unfold file_eqb. cbn. rewrite andb_true_iff, beq_eq, N.eqb_eq.
  split; [intros [-> ->]; reflexivity | intros E; inversion E; auto].
Qed.
Lemma ofile_eqb_eq a b : ofile_eqb a b = true <-> a = b.
Proof.
  destruct a, b; cbn; try (split; congruence). rewrite file_eqb_eq. split; congruence.
Qed.
Lemma ofile_eqb_refl a : ofile_eqb a a = true.
Proof. apply ofile_eqb_eq. reflexivity. Qed.

Lemma tmp_shape_tmp_name r : tmp_shape (tmp_name r) = true.
Proof.
  unfold tmp_shape, tmp_name. rewrite is_prefixb_app. rewrite !rev_app_distr, <- app_assoc, is_prefixb_app. cbn [andb].
  apply Nat.leb_le. rewrite !app_length. lia.
Qed.

Lemma tmp_file_ok_intro f b : is_pre (f_data f) b -> f_mode f = tmp_mode \/ f = final_file b -> tmp_file_ok f b = true.
Proof.
  intros [k P] M. unfold tmp_file_ok. rewrite P, is_prefixb_firstn. cbn [andb].
  destruct M as [->| ->]; [rewrite N.eqb_refl; reflexivity|]. apply orb_true_iff. right. apply file_eqb_eq. reflexivity.
Qed.

Lemma in_lookup n f d : In (n, f) d -> exists f0, lookup n d = Some f0.
Proof.
  induction d as [|[m g] d IH]; cbn; [contradiction|]. intros [E|H].
  - inversion E; subst. rewrite beq_refl. eauto.
  - destruct (bytes_eqb n m); eauto.
Qed.

Theorem sample_ok_meaning before bufs o :
  sample_ok before bufs o = true <-> (o = before \/ exists b, In b bufs /\ o = Some {| f_data := b; f_mode := gf_resolv_mode |}).
Proof.
  unfold sample_ok. rewrite orb_true_iff, ofile_eqb_eq, existsb_exists. split; (intros [H|(b & Hb & E)]; [left; exact H|right; exists b; split; [exact Hb|]]).
  - apply ofile_eqb_eq in E. exact E.
  - apply ofile_eqb_eq. exact E.
Qed.

Theorem fs_monitor_sound d0 bufs s : dir_ok d0 bufs (st_dir (run (init d0 bufs) s)) = true.
Proof.
  pose proof (Inv_reach d0 bufs s) as I. set (st := run (init d0 bufs) s) in *. unfold dir_ok. rewrite !andb_true_iff. repeat split.
  - apply sample_ok_meaning. destruct (inv_resolv _ _ _ I) as [L|(i & w & Hi & _ & _ & L)]; [left; exact L|].
    right. exists (w_buf w). split; [|exact L]. eapply nth_error_In. exact (nth_bufs _ _ _ _ _ I Hi).
  - apply forallb_forall. intros [n f'] _. cbn [fst]. destruct (lookup n (st_dir st)) as [f|] eqn:L; [|reflexivity].
    unfold entry_ok. destruct (bytes_dec n resolv_name) as [->|NR]; [rewrite beq_refl; reflexivity|].
    rewrite (beq_ne _ _ NR). cbn [orb]. apply orb_true_iff.
    destruct (inv_account _ _ _ I n f NR L) as [(i & w & Hi & Hn)|R]; [right | left; rewrite R; apply ofile_eqb_refl].
    destruct (inv_shape _ _ _ I i w n Hi Hn) as [r ->]. rewrite tmp_shape_tmp_name. cbn [andb].
    apply existsb_exists. exists (w_buf w). split; [eapply nth_error_In; exact (nth_bufs _ _ _ _ _ I Hi)|].
    destruct (inv_local _ _ _ I i w Hi _ Hn) as (_ & f1 & L1 & Of). rewrite L in L1. inversion L1; subst f1.
    destruct (file_ok_prefix _ _ _ Hn Of) as [P M]. exact (tmp_file_ok_intro _ _ P M).
  - apply forallb_forall. intros [n f'] Hin. cbn [fst]. destruct (bytes_dec n resolv_name) as [->|NR]; [rewrite beq_refl; reflexivity|].
    rewrite (beq_ne _ _ NR). cbn [orb]. destruct (in_lookup _ _ _ Hin) as [f0 L0].
    rewrite L0, (proj1 (inv_initial _ _ _ I n f0 NR L0)). apply ofile_eqb_refl.
Qed.

Theorem fs_monitor_quiet d0 bufs s :
  let st := run (init d0 bufs) s in
  (forall i w, nth_error (st_ws st) i = Some w -> holds (w_st w) = None) -> quiet_ok d0 bufs (st_dir st) = true.
Proof.
  cbn zeta. intros Q. unfold quiet_ok. rewrite fs_monitor_sound. cbn [andb]. apply forallb_forall. intros [n f] _. cbn [fst].
  destruct (bytes_dec n resolv_name) as [->|NR]; [rewrite beq_refl; reflexivity|]. rewrite (beq_ne _ _ NR). cbn [orb].
  rewrite (fs_quiescent d0 bufs s Q n NR). apply ofile_eqb_refl.
Qed.

(* a reader that only sees the content *)
Theorem fs_content_ok d0 bufs s :
  content_ok (option_map f_data (lookup resolv_name d0)) bufs (option_map f_data (lookup resolv_name (st_dir (run (init d0 bufs) s)))) = true.
Proof.
  destruct (fs_resolv_atomic d0 bufs s) as [L|(i & b & w & Hb & _ & _ & _ & L)]; cbn zeta in L; rewrite L.
  - destruct (lookup resolv_name d0); cbn; [rewrite beq_refl|]; reflexivity.
  - cbn. assert (E : existsb (bytes_eqb b) bufs = true) by (apply existsb_exists; exists b; split; [eapply nth_error_In; exact Hb | apply beq_refl]).
    rewrite E. destruct (option_map f_data (lookup resolv_name d0)); [apply orb_true_r | reflexivity].
Qed.
