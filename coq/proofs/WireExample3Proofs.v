(* the third recorded history (spec/WireExample3.v: a reserved address and per-client settings) meets every premise of the
   wire-level theorems and is accepted *)
From PSA Require Import model.Bytes model.Server spec.Monitors spec.WireHyps model.Dispatch spec.WireExample3
  proofs.ClientsProofs proofs.WireProofs proofs.WireInv proofs.WireSnap proofs.WireHypsProofs proofs.WireExampleProofs.
Open Scope N_scope.

Theorem wire_example3_full : exists c h, wire_example3 = Some (c, h) /\ wire_premises c h /\ accepted c h /\
  length h = 4%nat /\ length (events c h) = 4%nat /\
  exists mac ip os, c_statics c = [(mac, ip)] /\ Forall (fun e => le_ip e = ip /\ le_mac e = mac) (events c h) /\
                    assoc mac (c_opts c) = Some os /\ os <> c_default_opts c.
Proof.
  assert (H : wire_example3_ok = true) by (vm_compute; reflexivity).
  unfold wire_example3_ok in H. destruct wire_example3 as [[c h]|]; [|discriminate]. exists c, h. split; [reflexivity|].
  rewrite !Bool.andb_true_iff in H. destruct H as ((((Hh & Ha) & Hl) & He) & Hs).
  split; [apply wire_hyps_premises; exact Hh|]. split; [apply all_zero_accepted; exact Ha|].
  split; [apply Nat.eqb_eq; exact Hl|]. split; [apply Nat.eqb_eq; exact He|].
  destruct (c_statics c) as [|[mac ip] [|x r]]; try discriminate.
  apply Bool.andb_true_iff in Hs. destruct Hs as (Hf & Ho).
  destruct (assoc mac (c_opts c)) as [os|] eqn:Eo; [|discriminate].
  exists mac, ip, os. split; [reflexivity|]. split.
  - apply Forall_forall. intros e Hin. rewrite forallb_forall in Hf. specialize (Hf e Hin).
    apply Bool.andb_true_iff in Hf. destruct Hf as (A & B). split; [apply N.eqb_eq; exact A | apply ClientsProofs.bytes_eqb_eq; exact B].
  - split; [exact Eo|]. intros Heq. subst os. assert (E : dopts_eqb (c_default_opts c) (c_default_opts c) = true) by (apply dopts_eqb_eq; reflexivity). rewrite E in Ho. discriminate.
Qed.
