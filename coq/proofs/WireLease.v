(* C01 and C05 (ii) on the wire: along every accepted history the lease events read off the frames are exclusive
   (an ACK of x comes only after every earlier OFFER/ACK of x to another client has run out) *)
From PSA Require Import gen.GoFacts model.Bytes model.Checksum model.Layer model.Dhcp model.Clients model.Ipdb model.IpdbCheck
  spec.SpecCodec spec.SpecTable spec.SpecIpdb model.Server spec.Monitors
  proofs.ChecksumProofs proofs.LayerProofs proofs.DhcpProofs proofs.ClientsProofs proofs.TableProofs proofs.LeaseProofs proofs.ServerProofs
  proofs.WireProofs proofs.WireInv.
From Coq Require Import ZifyN ZifyNat ZifyBool.
Open Scope N_scope.

Definition ev_dur (c : scfg) (b : lev) : Z := if le_typ b =? 5 then c_lease c else hold_ns.

(* what the table remembers of an event seen on the wire: the reservation behind it, for the client the monitor calls le_pid *)
Definition ev_backed (c : scfg) (t : table) (b : lev) : Prop :=
  exists m o, le_pid b = pid c m o /\ (le_arr b <= le_sent b)%Z /\
              reserved_in t (le_ip b) (get_duid c (d_chaddr m) (o_cid o)) (le_sent b + ev_dur c b)%Z.

Lemma reserved_in_grows t t' n d u : grows t t' -> reserved_in t n d u -> reserved_in t' n d u.
Proof.
  intros G (p & e & Hn & Hi & Hd & Hu). destruct (G p e Hn) as (e' & Hn' & I & D & P & Hm). exists p, e'.
  repeat split; try congruence. destruct Hu as [Hp|Hle]; [left; congruence|]. destruct (e_perm e) eqn:E; [left; congruence|right]. specialize (Hm eq_refl). lia.
Qed.

Lemma reserved_in_earlier t n d u u' : (u' <= u)%Z -> reserved_in t n d u -> reserved_in t n d u'.
Proof. intros Hle (p & e & Hn & Hi & Hd & Hu). exists p, e. repeat split; auto. destruct Hu; [left; auto|right; lia]. Qed.

Lemma c01_scan_app c l1 : forall past l2, c01_scan c past (l1 ++ l2) = c01_scan c past l1 && c01_scan c (past ++ l1) l2.
Proof.
  induction l1 as [|a l1 IH]; intros past l2; cbn [app c01_scan].
  - rewrite app_nil_r. reflexivity.
  - rewrite IH, <- app_assoc. cbn [app]. rewrite andb_assoc. reflexivity.
Qed.

(* the clause of c01_scan for one earlier event b against an ACK a *)
Definition c01_clause (c : scfg) (a b : lev) : bool :=
  negb (le_ip b =? le_ip a) || bytes_eqb (le_pid b) (le_pid a) ||
  (if le_typ b =? 5 then (le_arr b + c_lease c <? le_sent a)%Z else (le_arr b + hold_ns <? le_sent a)%Z).

Lemma c01_clause_holds c t a b m f y : ev_backed c t b ->
  le_ip a = y -> le_pid a = pid c m (decode_options (d_options m)) -> le_sent a = of_t f ->
  not_others (of_t f) t y (rc_duid c m) -> c01_clause c a b = true.
Proof.
  intros (mb & ob & Hpid & Hle0 & (p & e & Hn & Hi & Hd & Hu)) Hy Hpa Hs Hno. unfold c01_clause.
  destruct (le_ip b =? le_ip a) eqn:Eip; [|reflexivity]. cbn [negb orb]. apply N.eqb_eq in Eip.
  destruct (bytes_eqb (le_pid b) (le_pid a)) eqn:Epid; [reflexivity|]. cbn [orb].
  assert (Hdd : get_duid c (d_chaddr mb) (o_cid ob) <> rc_duid c m).
  { unfold rc_duid. apply identity_separates. rewrite <- Hpid, <- Hpa. intros Heq. rewrite Heq, beqb_refl in Epid. discriminate. }
  (* the entry behind b is on the address of a but belongs to somebody else: it is not live when a is sent *)
  assert (Hdead : live (of_t f) e = false).
  { destruct (live (of_t f) e) eqn:El; [|reflexivity]. exfalso. apply Hdd. rewrite <- Hd. apply (Hno p e); [split; assumption|congruence]. }
  unfold live, expired in Hdead. apply negb_false_iff in Hdead. apply andb_true_iff in Hdead as [Hp Hlt]. apply negb_true_iff in Hp.
  destruct Hu as [Hpt|Hle]; [congruence|]. unfold ev_dur in Hle. rewrite Hs. destruct (le_typ b =? 5); lia.
Qed.

Theorem accepted_history_c01_gen c : cfg_wire_ok c -> cfg_srv_ok c -> durations_ok c ->
  forall h now t past, TInv c now t -> Forall wf_round h -> seq_times now h -> acc_run c t h ->
  (forall b, In b past -> ev_backed c t b) -> c01_scan c past (flat_map (round_events c) h) = true.
Proof.
  intros Hcw Hcs Hdur. induction h as [|r h IH]; intros now t past Hinv Hw Hs Ha Hpast; [reflexivity|].
  cbn [acc_run] in Ha. destruct Ha as (t' & Ha & Hrest). destruct Hs as [Hnow Hs]. inversion Hw; subst.
  cbn [flat_map]. rewrite c01_scan_app.
  destruct (accepted_round_TInv c now t r t' Hdur Hinv Hnow Ha) as [Hinv' Hg].
  assert (Hpast' : forall b, In b past -> ev_backed c t' b).
  { intros b Hb. destruct (Hpast b Hb) as (mb & ob & A & A2 & B). exists mb, ob. split; [exact A|]. split; [exact A2|eapply reserved_in_grows; eauto]. }
  destruct (accepted_round_event c now t r t' Hcw H1 (proj1 Hinv) Hnow Ha) as [->|(src & dst & m & f & ty & y & Hdc & Hk & Ho & Ht & Hty & -> & Hno & Hres & Hown)].
  - cbn [c01_scan andb]. rewrite app_nil_r. eapply IH; eauto.
  - apply andb_true_iff. split.
    + cbn [c01_scan]. rewrite andb_true_r. cbn [lease_event le_typ]. destruct (ty =? 5) eqn:Ety; [|reflexivity].
      apply forallb_forall. intros b Hb. change (c01_clause c (lease_event c r m f ty y) b = true).
      eapply (c01_clause_holds c t _ b m f y); eauto.
    + eapply IH; eauto. intros b Hb. apply in_app_or in Hb as [Hb|[<-|[]]]; [apply Hpast'; exact Hb|].
      exists m, (decode_options (d_options m)). split; [reflexivity|]. cbn [lease_event le_ip le_arr le_sent]. split; [exact Ht|].
      eapply reserved_in_earlier; [|exact Hres]. unfold ev_dur. cbn [lease_event le_typ].
      destruct Hty; subst ty; cbn; lia.
Qed.

(* C01 on the wire: on every accepted history of sequential rounds, an ACK of an address is sent only after every earlier
   acknowledgement of it to another client (lease counted from the arrival of that client's request) and every earlier offer
   of it to another client (hold counted from its DISCOVER) has run out *)
Theorem accepted_history_c01 c h : cfg_wire_ok c -> cfg_srv_ok c -> durations_ok c -> Forall wf_round h -> seq_times 0%Z h ->
  accepted c h -> mon_C01 c h = true.
Proof.
  intros Hcw Hcs Hdur Hw Hs Ha. apply accepted_acc_run in Ha. unfold mon_C01, events.
  eapply (accepted_history_c01_gen c Hcw Hcs Hdur h 0%Z (initial_table c) []); eauto; [apply initial_TInv; exact Hcs|intros b []].
Qed.

(* ---------- C05 (ii): once acknowledged, every OFFER/ACK to that client before the lease has elapsed carries the same address ---------- *)
Lemma same_pid_same_duid c m1 o1 m2 o2 : pid c m1 o1 = pid c m2 o2 ->
  get_duid c (d_chaddr m1) (o_cid o1) = get_duid c (d_chaddr m2) (o_cid o2).
Proof.
  unfold pid, get_duid, usable_cid.
  destruct (reserved_ip c (d_chaddr m1)) eqn:R1, (reserved_ip c (d_chaddr m2)) eqn:R2.
  - intros H. injection H as ->. reflexivity.
  - destruct (4 <=? len (o_cid o2)) eqn:L2; cbn [andb].
    + destruct (internal_prefix (o_cid o2)); cbn [negb]; intros H; [injection H as H; congruence|discriminate].
    + intros H. injection H as H. congruence.
  - destruct (4 <=? len (o_cid o1)) eqn:L1; cbn [andb].
    + destruct (internal_prefix (o_cid o1)); cbn [negb]; intros H; [injection H as H; congruence|discriminate].
    + intros H. injection H as H. congruence.
  - replace (len (o_cid o1) <? 4) with (negb (4 <=? len (o_cid o1))) by lia.
    replace (len (o_cid o2) <? 4) with (negb (4 <=? len (o_cid o2))) by lia.
    destruct (4 <=? len (o_cid o1)) eqn:L1, (4 <=? len (o_cid o2)) eqn:L2; cbn [andb negb orb];
      destruct (internal_prefix (o_cid o1)) eqn:P1, (internal_prefix (o_cid o2)) eqn:P2; cbn [negb];
      intros H; try discriminate H; injection H as H; try (rewrite H; reflexivity); congruence.
Qed.

Lemma c05_scan_app c l1 : forall past l2, c05_scan c past (l1 ++ l2) = c05_scan c past l1 && c05_scan c (past ++ l1) l2.
Proof.
  induction l1 as [|a l1 IH]; intros past l2; cbn [app c05_scan].
  - rewrite app_nil_r. reflexivity.
  - rewrite IH, <- app_assoc. cbn [app]. rewrite andb_assoc. reflexivity.
Qed.

Theorem accepted_history_c05_scan_gen c : cfg_wire_ok c -> cfg_srv_ok c -> durations_ok c ->
  forall h now t past, TInv c now t -> Forall wf_round h -> seq_times now h -> acc_run c t h ->
  (forall b, In b past -> ev_backed c t b) -> c05_scan c past (flat_map (round_events c) h) = true.
Proof.
  intros Hcw Hcs Hdur. induction h as [|r h IH]; intros now t past Hinv Hw Hs Ha Hpast; [reflexivity|].
  cbn [acc_run] in Ha. destruct Ha as (t' & Ha & Hrest). destruct Hs as [Hnow Hs]. inversion Hw; subst.
  cbn [flat_map]. rewrite c05_scan_app.
  destruct (accepted_round_TInv c now t r t' Hdur Hinv Hnow Ha) as [Hinv' Hg].
  assert (Hpast' : forall b, In b past -> ev_backed c t' b).
  { intros b Hb. destruct (Hpast b Hb) as (mb & ob & A & A2 & B). exists mb, ob. split; [exact A|]. split; [exact A2|eapply reserved_in_grows; eauto]. }
  destruct (accepted_round_event c now t r t' Hcw H1 (proj1 Hinv) Hnow Ha) as [->|(src & dst & m & f & ty & y & Hdc & Hk & Ho & Ht & Hty & -> & Hno & Hres & Hown)].
  - cbn [c05_scan andb]. rewrite app_nil_r. eapply IH; eauto.
  - apply andb_true_iff. split.
    + cbn [c05_scan]. rewrite andb_true_r. apply forallb_forall. intros b Hb.
      destruct (le_typ b =? 5) eqn:Etb; [|reflexivity]. cbn [negb orb].
      destruct (bytes_eqb (le_pid b) (le_pid (lease_event c r m f ty y))) eqn:Epid; [|reflexivity]. cbn [negb orb].
      destruct (le_sent (lease_event c r m f ty y) <? le_arr b + c_lease c)%Z eqn:Elt; [|reflexivity]. cbn [negb orb].
      replace (le_ip b =? le_ip (lease_event c r m f ty y)) with true; [reflexivity|]. symmetry. apply N.eqb_eq.
      cbn [lease_event le_ip le_sent le_pid] in *. apply bytes_eqb_eq in Epid.
      destruct (Hpast b Hb) as (mb & ob & Hpb & Hle0 & (p & e & Hn & Hi & Hd & Hu)). rewrite <- Hi.
      apply (Hown p e Hn).
      * rewrite Hd. unfold rc_duid. apply same_pid_same_duid. rewrite <- Hpb. exact Epid.
      * unfold live, expired. destruct (e_perm e) eqn:Hp; [reflexivity|]. cbn. destruct Hu as [Hu|Hu]; [discriminate|].
        unfold ev_dur in Hu. rewrite Etb in Hu. lia.
    + eapply IH; eauto. intros b Hb. apply in_app_or in Hb as [Hb|[<-|[]]]; [apply Hpast'; exact Hb|].
      exists m, (decode_options (d_options m)). split; [reflexivity|]. cbn [lease_event le_ip le_arr le_sent]. split; [exact Ht|].
      eapply reserved_in_earlier; [|exact Hres]. unfold ev_dur. cbn [lease_event le_typ].
      destruct Hty; subst ty; cbn; lia.
Qed.

Theorem accepted_history_c05_scan c h : cfg_wire_ok c -> cfg_srv_ok c -> durations_ok c -> Forall wf_round h -> seq_times 0%Z h ->
  accepted c h -> c05_scan c [] (events c h) = true.
Proof.
  intros Hcw Hcs Hdur Hw Hs Ha. apply accepted_acc_run in Ha. unfold events.
  eapply (accepted_history_c05_scan_gen c Hcw Hcs Hdur h 0%Z (initial_table c) []); eauto; [apply initial_TInv; exact Hcs|intros b []].
Qed.

(* ---------- C05 (i): an offered address requested back within the hold, with no foreign ARP answer, is acknowledged ---------- *)
Lemma entry_in_net c t p e : cfg_srv_ok c -> SInv c t -> nth_error t p = Some e -> net_from (c_db c) <= e_ip e <= net_to (c_db c).
Proof.
  intros Hc S Hn. pose proof (si_entries c t S p e Hn) as Ho. unfold owner_ok in Ho. destruct (e_perm e).
  - destruct Ho as (mac & Hin & _). eapply cs_range; eauto.
  - destruct Ho as (Hd & He & _). destruct (cs_dyn c Hc He). unfold in_dyn in Hd. lia.
Qed.

Lemma not_free_foreign r mac x : probe_free (r_arp r) mac x = false -> foreign_answer r mac x = true.
Proof.
  unfold probe_free, probe_outcome, foreign_answer. destruct (find_resp x (r_arp r)) as [a|] eqn:Ef; [|discriminate].
  destruct (ar_delay a <? arp_tries * arp_timeout)%Z eqn:Ed; [|discriminate]. cbn [fst]. intros Hm.
  destruct (find_resp_ip _ _ _ Ef) as [Hi Hin]. apply existsb_exists. exists a. split; [exact Hin|].
  rewrite Hi, N.eqb_refl, Hm, Ed. reflexivity.
Qed.

Lemma c05_hold_app c : forall h1 past h2,
  c05_hold c past (h1 ++ h2) = c05_hold c past h1 && c05_hold c (past ++ flat_map (round_events c) h1) h2.
Proof.
  induction h1 as [|r h1 IH]; intros past h2; cbn [app c05_hold flat_map].
  - rewrite app_nil_r. reflexivity.
  - rewrite IH, <- app_assoc, andb_assoc. reflexivity.
Qed.

Lemma filter_head_in {A} (P : A -> bool) l b rest : filter P l = b :: rest -> In b l /\ P b = true.
Proof. intros H. assert (Hin : In b (filter P l)) by (rewrite H; left; reflexivity). apply filter_In in Hin. exact Hin. Qed.

(* the clause of c05_hold for one round *)
Definition c05_hold_round (c : scfg) (past : list lev) (r : round) : bool :=
  match parse_in (r_pkt r) with
  | Some i =>
    if (o_msgtype (pi_opt i) =? 3) && (pi_dst i =? bcast_ip) && opt_eqb (o_sid (pi_opt i)) (Some (c_self_ip c)) &&
       negb (bytes_eqb (d_chaddr (pi_msg i)) (c_self_mac c)) then
      match o_reqip (pi_opt i) with
      | Some x =>
        let p := pid c (pi_msg i) (pi_opt i) in
        match filter (fun b => bytes_eqb (le_pid b) p) (rev past) with
        | b :: _ => if (le_typ b =? 2) && (le_ip b =? x) && (le_sent b <=? r_t r)%Z && (r_t r <=? le_sent b + hold_ns)%Z &&
                       negb (foreign_answer r (d_chaddr (pi_msg i)) x)
                    then existsb (fun e => (le_typ e =? 5) && (le_ip e =? x)) (round_events c r) else true
        | [] => true end
      | None => true end
    else true
  | None => true end.

Lemma opt_eqb_some a v : opt_eqb a (Some v) = true -> a = Some v.
Proof. destruct a as [x|]; cbn; [|discriminate]. intros H. apply N.eqb_eq in H. subst. reflexivity. Qed.

Lemma accepted_round_c05_hold c now t r t' past : cfg_wire_ok c -> cfg_srv_ok c -> wf_round r -> TInv c now t -> (now <= r_t r)%Z ->
  accept_round c t r = RAcc t' -> (forall b, In b past -> ev_backed c t b) -> c05_hold_round c past r = true.
Proof.
  intros Hcw Hcs Hw [[U S] Hup] Hnow Ha Hpast. unfold c05_hold_round.
  destruct (parse_in (r_pkt r)) as [i|] eqn:Epi; [|reflexivity].
  match goal with |- (if ?b then _ else _) = true => destruct b eqn:Econd; [|reflexivity] end.
  destruct (o_reqip (pi_opt i)) as [x|] eqn:Ereq; [|reflexivity].
  destruct (filter (fun b => bytes_eqb (le_pid b) (pid c (pi_msg i) (pi_opt i))) (rev past)) as [|b rest] eqn:Efil; [reflexivity|].
  match goal with |- (if ?b then _ else _) = true => destruct b eqn:Ecl; [|reflexivity] end.
  rewrite !andb_true_iff in Econd. rewrite !andb_true_iff in Ecl. destruct Econd as (((Hmt & Hdst) & Hsid) & Hnself). destruct Ecl as ((((Hty & Hip) & Hs1) & Hs2) & Hnf).
  apply filter_head_in in Efil as [Hbin Hbp]. apply in_rev in Hbin. apply bytes_eqb_eq in Hbp.
  unfold parse_in in Epi. destruct (decode_chain (r_pkt r)) as [[[src dst] m]|] eqn:Hdc; [|discriminate]. injection Epi as <-.
  cbn [pi_msg pi_opt pi_dst] in *. apply N.eqb_eq in Hmt, Hdst, Hip. subst dst. apply opt_eqb_some in Hsid. apply negb_true_iff in Hnf.
  set (o := decode_options (d_options m)) in *.
  (* the offer is still held: the client is bound to x at the arrival *)
  destruct (Hpast b Hbin) as (mb & ob & Hpb & _ & (p & e & Hn & Hi & Hd & Hu)).
  assert (Hdd : e_duid e = rc_duid c m).
  { rewrite Hd. unfold rc_duid. apply same_pid_same_duid. rewrite <- Hpb. exact Hbp. }
  assert (Ur : unique_live (r_t r) t) by (eapply unique_live_mono; eauto).
  assert (Hl : live (r_t r) e = true).
  { unfold live, expired. destruct (e_perm e) eqn:Hp; [reflexivity|]. cbn. destruct Hu as [Hu|Hu]; [discriminate|].
    unfold ev_dur in Hu. apply N.eqb_eq in Hty. rewrite Hty in Hu. change (2 =? 5) with false in Hu. cbv iota in Hu. apply Z.leb_le in Hs2. lia. }
  assert (Hb : bound_ip (r_t r) (rc_duid c m) t = Some x).
  { unfold bound_ip. assert (F : find_live (r_t r) (KDuid (rc_duid c m)) t 0 = Some p).
    { apply find_live_some_iff; [exact Ur|]. exists e. split; [split; assumption|]. cbn. apply bytes_eqb_eq. exact Hdd. }
    rewrite F, Hn. cbn. rewrite Hi, Hip. reflexivity. }
  assert (Hkind : msg_kind c m o = KRequest).
  { unfold msg_kind. rewrite bytes_eqb_sym'. apply negb_true_iff in Hnself. rewrite Hnself.
    unfold gf_dhcpmsg_MsgTypeDiscover, gf_dhcpmsg_MsgTypeRequest. rewrite Hmt. reflexivity. }
  assert (Hclass : classify_request c bcast_ip src o = Some x).
  { unfold classify_request. rewrite Hsid, Ereq, !N.eqb_refl. reflexivity. }
  assert (Hmr : in_managed_range (c_db c) (Some x) = true).
  { pose proof (entry_in_net c t p e Hcs S Hn) as Hr. rewrite Hi, Hip in Hr. unfold in_managed_range, to_uip.
    replace ((x <? net_from (c_db c)) || (net_to (c_db c) <? x)) with false by lia. reflexivity. }
  destruct (accepted_round_cases c t r t' Ha) as [Hcase _].
  destruct Hcase as [Hdc' ? ?|? ? ? Hdc' Hk' ? ?|? ? ? Hdc' Hk' Hdrop ? ?|? ? ? ts Hdc' o' Hk' ? Hs' Hts Hov ? ?|src' dst' m' ts y f Hdc' o' tl Hk' Hd' Hs' Ho Hy Hfr Ht Hdl Hts Hle Hov Hh
                    |src' dst' m' Hdc' o' Hk' Hsil ? ?|src' dst' m' des f Hdc' o' Hk' Hcl' Hmr' Hb' Ho Hfr Ht Hdl ?
                    |src' dst' m' des f Hdc' o' Hk' Hcl' Hmr' Hb' Hh' Hp' Ho Hfr Ht Hdl|src' dst' m' des f t1 Hdc' o' Hk' Hcl' Hmr' Hb' Hh' Hp' Ho Hfr Ht Hdl Hu'];
    rewrite Hdc in Hdc'; try discriminate Hdc'; injection Hdc' as <- <- <-;
    try (exfalso; match type of Hk' with _ = ?K => assert (Hx' : KRequest = K) by (rewrite <- Hkind; exact Hk') end; discriminate Hx').
  - (* silent: impossible *)
    exfalso. destruct Hsil as [Hn'|(d' & Hc' & Hm')].
    + assert (Hx' : Some x = None) by (rewrite <- Hclass; exact Hn'). discriminate.
    + assert (Hx' : Some x = Some d') by (rewrite <- Hclass; exact Hc'). injection Hx' as <-. rewrite Hmr in Hm'. discriminate.
  - (* NAK for an unbound client: impossible *)
    exfalso. assert (Hx' : Some x = Some des) by (rewrite <- Hclass; exact Hcl'). injection Hx' as <-. apply Hb'. exact Hb.
  - (* NAK on a conflict: a foreign host answered *)
    exfalso. assert (Hx' : Some x = Some des) by (rewrite <- Hclass; exact Hcl'). injection Hx' as <-.
    rewrite (not_free_foreign r (d_chaddr m) x Hp') in Hnf. discriminate.
  - (* ACK *)
    assert (Hx' : Some x = Some des) by (rewrite <- Hclass; exact Hcl'). injection Hx' as <-.
    pose proof (in_managed_to_uip _ _ Hmr) as Eu. destruct (to_uip_bound _ _ _ Eu) as [_ Hbd].
    assert (Hyb : x < 4294967296) by (destruct Hcw as (_ & Hc2 & _); lia).
    rewrite (round_events_lease c r src bcast_ip m f 5 x Hcw Hw Hdc Ho Hyb (or_intror eq_refl) Hfr).
    cbn. rewrite N.eqb_refl. reflexivity.
Qed.

Theorem accepted_history_c05_hold_gen c : cfg_wire_ok c -> cfg_srv_ok c -> durations_ok c ->
  forall h now t past, TInv c now t -> Forall wf_round h -> seq_times now h -> acc_run c t h ->
  (forall b, In b past -> ev_backed c t b) -> c05_hold c past h = true.
Proof.
  intros Hcw Hcs Hdur. induction h as [|r h IH]; intros now t past Hinv Hw Hs Ha Hpast; [reflexivity|].
  cbn [acc_run] in Ha. destruct Ha as (t' & Ha & Hrest). destruct Hs as [Hnow Hs]. inversion Hw; subst.
  cbn [c05_hold]. apply andb_true_iff. split.
  - exact (accepted_round_c05_hold c now t r t' past Hcw Hcs H1 Hinv Hnow Ha Hpast).
  - destruct (accepted_round_TInv c now t r t' Hdur Hinv Hnow Ha) as [Hinv' Hg].
    eapply IH; eauto. intros b Hb.
    assert (Hpast' : forall b, In b past -> ev_backed c t' b).
    { intros b0 Hb0. destruct (Hpast b0 Hb0) as (mb & ob & A & A2 & B). exists mb, ob. split; [exact A|]. split; [exact A2|eapply reserved_in_grows; eauto]. }
    apply in_app_or in Hb as [Hb|Hb]; [apply Hpast'; exact Hb|].
    destruct (accepted_round_event c now t r t' Hcw H1 (proj1 Hinv) Hnow Ha) as [He|(src & dst & m & f & ty & y & Hdc & Hk & Ho & Ht & Hty & He & Hno & Hres & Hown)];
      rewrite He in Hb; [destruct Hb|]. destruct Hb as [<-|[]].
    exists m, (decode_options (d_options m)). split; [reflexivity|]. cbn [lease_event le_ip le_arr le_sent]. split; [exact Ht|].
    eapply reserved_in_earlier; [|exact Hres]. unfold ev_dur. cbn [lease_event le_typ]. destruct Hty; subst ty; cbn; lia.
Qed.

Theorem accepted_history_c05_hold c h : cfg_wire_ok c -> cfg_srv_ok c -> durations_ok c -> Forall wf_round h -> seq_times 0%Z h ->
  accepted c h -> c05_hold c [] h = true.
Proof.
  intros Hcw Hcs Hdur Hw Hs Ha. apply accepted_acc_run in Ha.
  eapply (accepted_history_c05_hold_gen c Hcw Hcs Hdur h 0%Z (initial_table c) []); eauto; [apply initial_TInv; exact Hcs|intros b []].
Qed.
