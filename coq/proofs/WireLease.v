(* C01 and C05 (ii) on the wire: along every accepted history the lease events read off the frames are exclusive
   (an ACK of x comes only after every earlier OFFER/ACK of x to another client has run out) *)
From PSA Require Import gen.GoFacts model.Bytes model.Checksum model.Layer model.Dhcp model.Clients model.Ipdb model.IpdbCheck
  spec.SpecCodec spec.SpecTable spec.SpecIpdb model.Server spec.Monitors
  proofs.ChecksumProofs proofs.LayerProofs proofs.DhcpProofs proofs.ClientsProofs proofs.TableProofs proofs.LeaseProofs proofs.ServerProofs
  proofs.WireProofs proofs.WireInv.
From Coq Require Import ZifyN ZifyNat ZifyBool.
Open Scope N_scope.

Definition ev_dur (c : scfg) (b : lev) : Z := if le_typ b =? 5 then c_lease c else hold_ns.

(* what the table remembers of an event seen on the wire: the reservation behind it, for the client the monitor calls le_pid *)
Definition ev_backed (c : scfg) (t : table) (b : lev) : Prop :=
  exists m o, le_pid b = pid c m o /\ reserved_in t (le_ip b) (get_duid c (d_chaddr m) (o_cid o)) (le_arr b + ev_dur c b)%Z.

Lemma reserved_in_grows t t' n d u : grows t t' -> reserved_in t n d u -> reserved_in t' n d u.
Proof.
  intros G (p & e & Hn & Hi & Hd & Hu). destruct (G p e Hn) as (e' & Hn' & I & D & P & Hm). exists p, e'.
  repeat split; try congruence. destruct Hu as [Hp|Hle]; [left; congruence|]. destruct (e_perm e) eqn:E; [left; congruence|right]. specialize (Hm eq_refl). lia.
Qed.

Lemma reserved_in_earlier t n d u u' : (u' <= u)%Z -> reserved_in t n d u -> reserved_in t n d u'.
Proof. intros Hle (p & e & Hn & Hi & Hd & Hu). exists p, e. repeat split; auto. destruct Hu; [left; auto|right; lia]. Qed.

Lemma c01_scan_app c l1 : forall past l2, c01_scan c past (l1 ++ l2) = c01_scan c past l1 && c01_scan c (past ++ l1) l2.
Proof.
  induction l1 as [|a l1 IH]; intros past l2; cbn [app c01_scan].
  - rewrite app_nil_r. reflexivity.
  - rewrite IH, <- app_assoc. cbn [app]. rewrite andb_assoc. reflexivity.
Qed.

(* the clause of c01_scan for one earlier event b against an ACK a *)
Definition c01_clause (c : scfg) (a b : lev) : bool :=
  negb (le_ip b =? le_ip a) || bytes_eqb (le_pid b) (le_pid a) ||
  (if le_typ b =? 5 then (le_arr b + c_lease c <? le_sent a)%Z else (le_arr b + hold_ns <? le_sent a)%Z).

Lemma c01_clause_holds c t a b m f y : ev_backed c t b ->
  le_ip a = y -> le_pid a = pid c m (decode_options (d_options m)) -> le_sent a = of_t f ->
  not_others (of_t f) t y (rc_duid c m) -> c01_clause c a b = true.
Proof.
  intros (mb & ob & Hpid & (p & e & Hn & Hi & Hd & Hu)) Hy Hpa Hs Hno. unfold c01_clause.
  destruct (le_ip b =? le_ip a) eqn:Eip; [|reflexivity]. cbn [negb orb]. apply N.eqb_eq in Eip.
  destruct (bytes_eqb (le_pid b) (le_pid a)) eqn:Epid; [reflexivity|]. cbn [orb].
  assert (Hdd : get_duid c (d_chaddr mb) (o_cid ob) <> rc_duid c m).
  { unfold rc_duid. apply identity_separates. rewrite <- Hpid, <- Hpa. intros Heq. rewrite Heq, beqb_refl in Epid. discriminate. }
  (* the entry behind b is on the address of a but belongs to somebody else: it is not live when a is sent *)
  assert (Hdead : live (of_t f) e = false).
  { destruct (live (of_t f) e) eqn:El; [|reflexivity]. exfalso. apply Hdd. rewrite <- Hd. apply (Hno p e); [split; assumption|congruence]. }
  unfold live, expired in Hdead. apply negb_false_iff in Hdead. apply andb_true_iff in Hdead as [Hp Hlt]. apply negb_true_iff in Hp.
  destruct Hu as [Hpt|Hle]; [congruence|]. unfold ev_dur in Hle. rewrite Hs. destruct (le_typ b =? 5); lia.
Qed.

Theorem accepted_history_c01_gen c : cfg_wire_ok c -> cfg_srv_ok c -> durations_ok c ->
  forall h now t past, TInv c now t -> Forall wf_round h -> seq_times now h -> acc_run c t h ->
  (forall b, In b past -> ev_backed c t b) -> c01_scan c past (flat_map (round_events c) h) = true.
Proof.
  intros Hcw Hcs Hdur. induction h as [|r h IH]; intros now t past Hinv Hw Hs Ha Hpast; [reflexivity|].
  cbn [acc_run] in Ha. destruct Ha as (t' & Ha & Hrest). destruct Hs as [Hnow Hs]. inversion Hw; subst.
  cbn [flat_map]. rewrite c01_scan_app.
  destruct (accepted_round_TInv c now t r t' Hdur Hinv Hnow Ha) as [Hinv' Hg].
  assert (Hpast' : forall b, In b past -> ev_backed c t' b).
  { intros b Hb. destruct (Hpast b Hb) as (mb & ob & A & B). exists mb, ob. split; [exact A|eapply reserved_in_grows; eauto]. }
  destruct (accepted_round_event c now t r t' Hcw H1 (proj1 Hinv) Hnow Ha) as [->|(src & dst & m & f & ty & y & Hdc & Hk & Ho & Ht & Hty & -> & Hno & Hres)].
  - cbn [c01_scan andb]. rewrite app_nil_r. eapply IH; eauto.
  - apply andb_true_iff. split.
    + cbn [c01_scan]. rewrite andb_true_r. cbn [lease_event le_typ]. destruct (ty =? 5) eqn:Ety; [|reflexivity].
      apply forallb_forall. intros b Hb. change (c01_clause c (lease_event c r m f ty y) b = true).
      eapply (c01_clause_holds c t _ b m f y); eauto.
    + eapply IH; eauto. intros b Hb. apply in_app_or in Hb as [Hb|[<-|[]]]; [apply Hpast'; exact Hb|].
      exists m, (decode_options (d_options m)). split; [reflexivity|]. cbn [lease_event le_ip le_arr].
      eapply reserved_in_earlier; [|exact Hres]. unfold ev_dur. cbn [lease_event le_typ].
      destruct Hty; subst ty; cbn; lia.
Qed.

(* C01 on the wire: on every accepted history of sequential rounds, an ACK of an address is sent only after every earlier
   acknowledgement of it to another client (lease counted from the arrival of that client's request) and every earlier offer
   of it to another client (hold counted from its DISCOVER) has run out *)
Theorem accepted_history_c01 c h : cfg_wire_ok c -> cfg_srv_ok c -> durations_ok c -> Forall wf_round h -> seq_times 0%Z h ->
  accepted c h -> mon_C01 c h = true.
Proof.
  intros Hcw Hcs Hdur Hw Hs Ha. apply accepted_acc_run in Ha. unfold mon_C01, events.
  eapply (accepted_history_c01_gen c Hcw Hcs Hdur h 0%Z (initial_table c) []); eauto; [apply initial_TInv; exact Hcs|intros b []].
Qed.
