(* Proofs for C14: the receive filter of the client accepts exactly the replies for its transaction. *)
From PSA Require Import gen.GoFacts model.Bytes model.Checksum model.Layer model.Dhcp spec.SpecCodec spec.SpecClient model.ClientRx
  proofs.ChecksumProofs proofs.LayerProofs proofs.DhcpProofs.
From Coq Require Import ZifyN ZifyNat ZifyBool.
Ltac Zify.zify_post_hook ::= Z.div_mod_to_equations.
Open Scope N_scope.

(* ---------- the three decoders, as total functions of the raw bytes ---------- *)

Ltac nat_consts :=
  change (N.to_nat 0) with 0%nat in *; change (N.to_nat (0 + 1)) with 1%nat in *;
  change (N.to_nat 2) with 2%nat in *; change (N.to_nat (2 + 1)) with 3%nat in *;
  change (N.to_nat 4) with 4%nat in *; change (N.to_nat (4 + 1)) with 5%nat in *;
  change (N.to_nat 6) with 6%nat in *; change (N.to_nat (6 + 1)) with 7%nat in *;
  change (N.to_nat 8) with 8%nat in *; change (N.to_nat 9) with 9%nat in *;
  change (N.to_nat 10) with 10%nat in *; change (N.to_nat (10 + 1)) with 11%nat in *;
  change (N.to_nat 12) with 12%nat in *; change (N.to_nat (12 + 1)) with 13%nat in *;
  change (N.to_nat (12 + 2)) with 14%nat in *; change (N.to_nat (12 + 3)) with 15%nat in *;
  change (N.to_nat 16) with 16%nat in *; change (N.to_nat (16 + 1)) with 17%nat in *;
  change (N.to_nat (16 + 2)) with 18%nat in *; change (N.to_nat (16 + 3)) with 19%nat in *.

Lemma decode_ipv4_raw b :
  decode_ipv4 b =
  if ipv4_wellformed b then
    Ok {| ip_id := w16 b 4; ip_flags := w16 b 6; ip_ttl := nth0 b 8; ip_proto := ip_protocol b; ip_csum := w16 b 10;
          ip_src := ip_source b; ip_dst := ip_destination b; ip_data := ip_payload b |}
  else Err.
Proof.
  unfold decode_ipv4, ipv4_hlen, gf_layer_ipv4Hlen, get16, get32, u8.
  unfold ipv4_wellformed, ip_payload, ip_protocol, ip_source, ip_destination, ip_ihl, w16, w32, nth0. cbn [Nat.add].
  destruct (len b <? 20) eqn:E1.
  { match goal with |- _ = if ?c then _ else _ => replace c with false by lia end. reflexivity. }
  idx_simpl. nat_consts.
  match goal with |- context [if ?c then Err else _] => destruct c eqn:E2 end.
  { match goal with |- _ = if ?c then _ else _ => replace c with false by lia end. reflexivity. }
  idx_simpl. nat_consts.
  match goal with |- context [if ?c then Err else _] => destruct c eqn:E3 end.
  { match goal with |- _ = if ?c then _ else _ => replace c with false by lia end. reflexivity. }
  idx_simpl. nat_consts.
  match goal with |- _ = if ?c then _ else _ => replace c with true by lia end.
  unfold slice.
  match goal with |- context [if ?c then Ok _ else Panic] => replace c with true by lia end.
  cbn [bind]. f_equal. f_equal.
  assert (Hm : (nth 0 b 0 mod 16 * 4) mod 256 = nth 0 b 0 mod 16 * 4) by lia.
  rewrite Hm.
  apply firstn_all2. rewrite skipn_length. unfold len in *. lia.
Qed.

Lemma decode_udp_raw b :
  decode_udp b =
  if udp_wellformed b then Ok {| udp_sport := udp_srcport b; udp_dport := udp_dstport b; udp_data := udp_payload b |} else Err.
Proof.
  unfold decode_udp, udp_hlen, gf_layer_udpHlen, get16.
  unfold udp_wellformed, udp_srcport, udp_dstport, udp_payload, w16, nth0. cbn [Nat.add].
  destruct (len b <? 8) eqn:E1.
  { match goal with |- _ = if ?c then _ else _ => replace c with false by lia end. reflexivity. }
  idx_simpl. nat_consts.
  match goal with |- context [if ?c then Err else _] => destruct c eqn:E2 end.
  { match goal with |- _ = if ?c then _ else _ => replace c with false by lia end. reflexivity. }
  idx_simpl. nat_consts.
  match goal with |- _ = if ?c then _ else _ => replace c with true by lia end.
  unfold slice_from. replace (8 <=? len b) with true by lia. reflexivity.
Qed.

(* the specification's option lookup against the decoder's option walk *)
Lemma area_find_parse : forall fuel k a acc,
  area_find fuel k a acc =
  match parse_opts fuel a with
  | Some os => Some (match last_opt k os with Some x => Some x | None => acc end)
  | None => None
  end.
Proof.
  induction fuel as [|f IH]; intros k a acc; [reflexivity|].
  cbn [area_find parse_opts]. destruct a as [|c r]; [reflexivity|].
  unfold opt_pad, opt_end, gf_dhcpmsg_OptPadding, gf_dhcpmsg_OptEnd.
  destruct (c =? 0); [apply IH|].
  destruct (c =? 255); [reflexivity|].
  destruct r as [|l d]; [reflexivity|].
  destruct (len d <? l); [reflexivity|].
  rewrite IH. destruct (parse_opts f (skipn (N.to_nat l) d)) as [os|]; [|reflexivity].
  cbn [last_opt]. destruct (last_opt k os); [reflexivity|]. destruct (c =? k); reflexivity.
Qed.

Lemma dhcp_find_decoded d m k : decoded_as d m -> dhcp_find d k = Some (last_opt k (d_options m)).
Proof.
  intros Hd. destruct Hd as (_&_&_&_&_&_&_&_&_&_&_&_&_&_&_&Ho).
  apply parse_opts_iff in Ho. unfold dhcp_find, dhcp_area. rewrite area_find_parse, Ho.
  destruct (last_opt k (d_options m)); reflexivity.
Qed.

Lemma dhcp_option_decoded d m k : decoded_as d m -> dhcp_option d k = last_opt k (d_options m).
Proof. intros Hd. unfold dhcp_option. rewrite (dhcp_find_decoded d m k Hd). reflexivity. Qed.

Lemma dhcp_decode_raw d :
  if dhcp_wellformed d then exists m, dhcp_decode d = Ok m /\ decoded_as d m else dhcp_decode d = Err.
Proof.
  unfold dhcp_wellformed, nth0.
  destruct (dhcp_decode_cases d) as [(Hl & H)|[(Hl & Hh & H)|[(Hl & Hh & Hp & H)|(Hl & Hh & m & H & Hd)]]].
  - replace (240 <=? len d) with false by lia. exact H.
  - replace (nth 2 d 0 <=? 16) with false by lia. rewrite andb_false_r. exact H.
  - unfold dhcp_find, dhcp_area. rewrite area_find_parse, Hp. rewrite andb_false_r. exact H.
  - rewrite (dhcp_find_decoded d m 53 Hd). replace (240 <=? len d) with true by lia. replace (nth 2 d 0 <=? 16) with true by lia.
    exists m. split; assumption.
Qed.

(* ---------- typed option values against raw option payloads ---------- *)

Lemma to_v4_shape x : to_v4 x = match x with [a; b; c; d] => Some (be32 a b c d) | _ => None end.
Proof.
  destruct x as [|a [|b [|c [|d [|e r]]]]]; try reflexivity.
  destruct (to_v4 (a :: b :: c :: d :: e :: r)) eqn:E; [|reflexivity].
  apply to_v4_exact in E. destruct E as (b0 & b1 & b2 & b3 & E & _). discriminate E.
Qed.

Lemma v4s_some : forall n x, length x = (4 * n)%nat -> exists l, v4s x = Some l /\ length l = n.
Proof.
  induction n as [|n IH]; intros x Hx.
  - destruct x; [|discriminate Hx]. exists []. split; reflexivity.
  - destruct x as [|a [|b [|c [|d r]]]]; cbn [length] in Hx; try lia.
    destruct (IH r) as (l & Hl & Hn); [lia|]. exists (be32 a b c d :: l). cbn [v4s]. rewrite Hl. split; [reflexivity|cbn [length]; lia].
Qed.

Lemma routers_shape x : (4 <=? len x) && (len x mod 4 =? 0) = negb (N.of_nat (length (to_v4a x)) =? 0).
Proof.
  destruct ((4 <=? len x) && (len x mod 4 =? 0)) eqn:E.
  - destruct (v4s_some (length x / 4) x) as (l & Hl & Hn).
    { unfold len in E. pose proof (Nat.div_mod (length x) 4). assert (length x mod 4 = 0)%nat; [|lia].
      assert (N.of_nat (length x mod 4) = 0); [|lia]. rewrite Nat2N.inj_mod. lia. }
    unfold to_v4a. rewrite Hl. unfold len in E. assert (4 <= length x)%nat by lia.
    assert (1 <= length x / 4)%nat by (apply Nat.div_le_lower_bound; lia). lia.
  - destruct (to_v4a x) as [|r0 rs] eqn:Er; [reflexivity|].
    destruct (to_v4a_exact x) as (Hl & H4); [rewrite Er; discriminate|].
    rewrite Er in Hl. cbn [length] in Hl. unfold len in E. exfalso.
    assert (N.of_nat (length x) mod 4 = 0); [|lia].
    rewrite Hl. rewrite Nat2N.inj_mul. change (N.of_nat 4) with 4. rewrite N.mul_comm. apply N.mod_mul. discriminate.
Qed.

Lemma lease_shape x :
  match x with [a; b; c; d] => 60 <=? be32 a b c d | _ => false end = negb (to_u32 x * ns_per_second <? gf_client_min_lease_ns).
Proof.
  unfold ns_per_second, gf_client_min_lease_ns.
  destruct x as [|a [|b [|c [|d [|e r]]]]]; cbn [to_u32]; try reflexivity. lia.
Qed.

Lemma type_shape x v : v <> 0 -> byte_opt (Some x) v = (to_u8 x =? v).
Proof. intros Hv. destruct x as [|t [|u r]]; cbn [byte_opt to_u8]; lia. Qed.

Section Typed.
  Variable os : list dhcp_opt.
  Let o := typed_view os.

  Lemma tv_type v : v <> 0 -> byte_opt (last_opt 53 os) v = (o_msgtype o =? v).
  Proof.
    intros Hv. unfold o, typed_view. cbn [o_msgtype]. destruct (last_opt 53 os) as [x|]; [apply type_shape; exact Hv|].
    cbn [byte_opt]. lia.
  Qed.

  Lemma tv_sid P : addr_opt (last_opt 54 os) P = match o_sid o with Some s => P s | None => false end.
  Proof.
    unfold o, typed_view. cbn [o_sid]. destruct (last_opt 54 os) as [x|]; [|reflexivity].
    rewrite to_v4_shape. destruct x as [|a [|b [|c [|d [|e r]]]]]; reflexivity.
  Qed.

  Lemma tv_routers :
    match last_opt 3 os with Some r => (4 <=? len r) && (len r mod 4 =? 0) | None => false end = negb (N.of_nat (length (o_routers o)) =? 0).
  Proof. unfold o, typed_view. cbn [o_routers]. destruct (last_opt 3 os) as [x|]; [apply routers_shape|reflexivity]. Qed.

  Lemma tv_lease :
    match last_opt 51 os with Some [a; b; c; d] => 60 <=? be32 a b c d | _ => false end =
    negb (o_lease o * ns_per_second <? gf_client_min_lease_ns).
  Proof. unfold o, typed_view. cbn [o_lease]. destruct (last_opt 51 os) as [x|]; [apply lease_shape|reflexivity]. Qed.
End Typed.

(* ---------- the verifier is the conjunction of the specification ---------- *)

Definition passed (v : vstate) : bool := match v with Passed => true | _ => false end.
Definition is_nack (v : vstate) : bool := match v with IsNack => true | _ => false end.

Ltac split_ifs :=
  repeat match goal with
  | |- context [if ?c then _ else _] => destruct c eqn:?
  end.

Ltac verifier_cases w os :=
  unfold verifier;
  destruct (w_kind w);
  unfold verify_offer, verify_gen_ack, verify_common, usable, bcast, ipv4_zero, ipv4_bcast, opt_n_eqb,
    gf_dhcpmsg_MsgTypeOffer, gf_dhcpmsg_MsgTypeAck, gf_dhcpmsg_MsgTypeNack;
  cbv beta; cbn [expected_type];
  generalize (o_msgtype (typed_view os)) (N.of_nat (length (o_routers (typed_view os))))
             (o_lease (typed_view os) * ns_per_second <? gf_client_min_lease_ns);
  intros T R L;
  destruct (o_sid (typed_view os)) as [s|]; destruct (w_sid w) as [c|]; cbn [andb negb];
  split_ifs; cbn [passed is_nack]; lia.

Lemma verifier_passed w m os :
  passed (verifier w m (typed_view os)) = accept_fields w (d_xid m) (d_yiaddr m) (fun k => last_opt k os).
Proof.
  unfold accept_fields.
  rewrite !tv_sid, tv_routers, tv_lease.
  assert (Ht : byte_opt (last_opt 53 os) (expected_type (w_kind w)) = (o_msgtype (typed_view os) =? expected_type (w_kind w))).
  { apply tv_type. destruct (w_kind w); discriminate. }
  rewrite Ht. clear Ht.
  verifier_cases w os.
Qed.

Lemma verifier_nack w m os :
  is_nack (verifier w m (typed_view os)) = match w_kind w with KOffer => false | _ => true end && byte_opt (last_opt 53 os) 6.
Proof.
  rewrite tv_type by discriminate.
  verifier_cases w os.
Qed.

(* ---------- catch_reply ---------- *)

Lemma accept_fields_ext w x y o1 o2 : (forall k, o1 k = o2 k) -> accept_fields w x y o1 = accept_fields w x y o2.
Proof. intros H. unfold accept_fields. rewrite !H. reflexivity. Qed.

Definition rx_of (v : vstate) (m : dhcp_msg) (o : decoded_options) : rx :=
  match v with Passed => RxAccept m o | IsNack => RxNack m o | Failed => RxIgnore end.

Lemma catch_reply_cases own w p :
  let d := udp_payload (ip_payload p) in
  if for_me own p then
    exists m, dhcp_decode d = Ok m /\ decoded_as d m /\
              catch_reply own w p = rx_of (verifier w m (typed_view (d_options m))) m (typed_view (d_options m))
  else catch_reply own w p = RxIgnore.
Proof.
  cbv zeta. unfold catch_reply, for_me, gf_client_listen_proto, gf_client_listen_port.
  rewrite decode_ipv4_raw. destruct (ipv4_wellformed p); cbn [andb]; [|reflexivity].
  cbn [ip_proto ip_data]. destruct (ip_protocol p =? 17); cbn [negb andb]; [|reflexivity].
  rewrite decode_udp_raw. destruct (udp_wellformed (ip_payload p)); cbn [andb]; [|reflexivity].
  cbn [udp_dport udp_data]. destruct (udp_dstport (ip_payload p) =? 68); cbn [negb andb]; [|reflexivity].
  pose proof (dhcp_decode_raw (udp_payload (ip_payload p))) as Hd.
  destruct (dhcp_wellformed (udp_payload (ip_payload p))); cbn [andb].
  - destruct Hd as (m & Hm & Hd). rewrite Hm.
    assert (Hc : d_chaddr m = dhcp_chaddr (udp_payload (ip_payload p))).
    { destruct Hd as (_&_&_&_&_&_&_&_&_&_&_&_&_&_&Hc&_). exact Hc. }
    rewrite <- Hc. rewrite decode_options_typed.
    destruct (bytes_eqb (d_chaddr m) own); cbn [negb].
    + exists m. split; [reflexivity|]. split; [exact Hd|]. unfold rx_of. destruct (verifier w m (typed_view (d_options m))); reflexivity.
    + reflexivity.
  - rewrite Hd. reflexivity.
Qed.

Lemma spec_accept_decoded own w p m :
  for_me own p = true -> decoded_as (udp_payload (ip_payload p)) m ->
  spec_accept own w p = passed (verifier w m (typed_view (d_options m))).
Proof.
  intros F Hd. unfold spec_accept. rewrite F. cbn [andb]. rewrite verifier_passed.
  rewrite (accept_fields_ext w _ _ _ (fun k => last_opt k (d_options m))) by (intros k; apply dhcp_option_decoded; exact Hd).
  destruct Hd as (_&_&_&Hx&_&_&_&Hy&_). rewrite Hx, Hy. reflexivity.
Qed.

Lemma spec_nack_decoded own w p m :
  for_me own p = true -> decoded_as (udp_payload (ip_payload p)) m ->
  spec_nack own w p = is_nack (verifier w m (typed_view (d_options m))).
Proof.
  intros F Hd. unfold spec_nack. rewrite F. cbn [andb]. rewrite verifier_nack.
  rewrite (dhcp_option_decoded _ m 53 Hd). reflexivity.
Qed.

(* accepted exactly when the specification's conjunction holds; and what is handed on is the decoded message *)
Theorem accept_iff own w p m o :
  catch_reply own w p = RxAccept m o <->
  spec_accept own w p = true /\ dhcp_decode (udp_payload (ip_payload p)) = Ok m /\ o = decode_options (d_options m).
Proof.
  pose proof (catch_reply_cases own w p) as H. cbv zeta in H.
  destruct (for_me own p) eqn:F.
  - destruct H as (m' & Hm & Hd & Hc). rewrite Hc, (spec_accept_decoded own w p m' F Hd), Hm, decode_options_typed.
    unfold rx_of. split.
    + destruct (verifier w m' (typed_view (d_options m'))); try discriminate. intros E. injection E as <- <-. repeat split.
    + intros (Hp & E & ->). injection E as <-.
      destruct (verifier w m' (typed_view (d_options m'))); try discriminate Hp. reflexivity.
  - rewrite H. unfold spec_accept. rewrite F. split; [discriminate|]. intros (E & _). discriminate E.
Qed.

Theorem accept_iff_exists own w p : (exists m o, catch_reply own w p = RxAccept m o) <-> spec_accept own w p = true.
Proof.
  split.
  - intros (m & o & H). apply accept_iff in H. apply H.
  - intros Hs. pose proof (catch_reply_cases own w p) as H. cbv zeta in H.
    destruct (for_me own p) eqn:F.
    + destruct H as (m & Hm & Hd & Hc). exists m, (decode_options (d_options m)). apply accept_iff. repeat split; assumption.
    + unfold spec_accept in Hs. rewrite F in Hs. discriminate Hs.
Qed.

Theorem nack_iff own w p m o :
  catch_reply own w p = RxNack m o <->
  spec_nack own w p = true /\ dhcp_decode (udp_payload (ip_payload p)) = Ok m /\ o = decode_options (d_options m).
Proof.
  pose proof (catch_reply_cases own w p) as H. cbv zeta in H.
  destruct (for_me own p) eqn:F.
  - destruct H as (m' & Hm & Hd & Hc). rewrite Hc, (spec_nack_decoded own w p m' F Hd), Hm, decode_options_typed.
    unfold rx_of. split.
    + destruct (verifier w m' (typed_view (d_options m'))); try discriminate. intros E. injection E as <- <-. repeat split.
    + intros (Hp & E & ->). injection E as <-.
      destruct (verifier w m' (typed_view (d_options m'))); try discriminate Hp. reflexivity.
  - rewrite H. unfold spec_nack. rewrite F. split; [discriminate|]. intros (E & _). discriminate E.
Qed.

Theorem nack_iff_exists own w p : (exists m o, catch_reply own w p = RxNack m o) <-> spec_nack own w p = true.
Proof.
  split.
  - intros (m & o & H). apply nack_iff in H. apply H.
  - intros Hs. pose proof (catch_reply_cases own w p) as H. cbv zeta in H.
    destruct (for_me own p) eqn:F.
    + destruct H as (m & Hm & Hd & Hc). exists m, (decode_options (d_options m)). apply nack_iff. repeat split; assumption.
    + unfold spec_nack in Hs. rewrite F in Hs. discriminate Hs.
Qed.

Theorem catch_reply_no_panic own w p : catch_reply own w p <> RxPanic.
Proof.
  pose proof (catch_reply_cases own w p) as H. cbv zeta in H.
  destruct (for_me own p).
  - destruct H as (m & _ & _ & Hc). rewrite Hc. unfold rx_of. destruct (verifier w m (typed_view (d_options m))); discriminate.
  - rewrite H. discriminate.
Qed.

(* everything that is neither is ignored *)
Theorem ignore_otherwise own w p : spec_accept own w p = false -> spec_nack own w p = false -> catch_reply own w p = RxIgnore.
Proof.
  intros Ha Hn. destruct (catch_reply own w p) as [|m o|m o|] eqn:E; [reflexivity| | |].
  - apply accept_iff in E. destruct E as (E & _). congruence.
  - apply nack_iff in E. destruct E as (E & _). congruence.
  - exfalso. exact (catch_reply_no_panic own w p E).
Qed.

(* reading R4: while waiting for an OFFER nothing aborts the exchange *)
Theorem no_nack_while_selecting own w p m o : w_kind w = KOffer -> catch_reply own w p <> RxNack m o.
Proof.
  intros Hk E. apply nack_iff in E. destruct E as (E & _). unfold spec_nack in E. rewrite Hk in E.
  rewrite andb_false_r in E. discriminate E.
Qed.

(* the two verdicts exclude each other *)
Theorem accept_nack_exclusive own w p : spec_accept own w p = true -> spec_nack own w p = true -> False.
Proof.
  intros Ha Hn. apply accept_iff_exists in Ha. apply nack_iff_exists in Hn.
  destruct Ha as (m & o & Ha). destruct Hn as (m' & o' & Hn). congruence.
Qed.

(* the loop ends at the first packet that satisfies one of the two specifications, and never panics *)
Theorem catch_loop_first own w : forall pkts i x, catch_loop own w pkts = (i, x) ->
  x <> RxPanic /\
  (forall j q, (j < N.to_nat i)%nat -> nth_error pkts j = Some q -> spec_accept own w q = false /\ spec_nack own w q = false) /\
  (x <> RxIgnore -> exists q, nth_error pkts (N.to_nat i) = Some q /\ catch_reply own w q = x).
Proof.
  induction pkts as [|p r IH]; intros i x H.
  - cbn in H. injection H as <- <-. split; [discriminate|]. split; [intros j q Hj; lia|]. intros Hx. contradiction Hx. reflexivity.
  - cbn [catch_loop] in H. destruct (catch_reply own w p) eqn:E.
    + destruct (catch_loop own w r) as [i' x'] eqn:El. injection H as <- <-.
      destruct (IH i' x' eq_refl) as (Hp & Hb & Hf). split; [exact Hp|]. split.
      * intros j q Hj Hq. destruct j as [|j].
        -- cbn in Hq. injection Hq as <-. split.
           ++ destruct (spec_accept own w p) eqn:Ha; [|reflexivity]. apply accept_iff_exists in Ha. destruct Ha as (m & o & Ha). congruence.
           ++ destruct (spec_nack own w p) eqn:Hn; [|reflexivity]. apply nack_iff_exists in Hn. destruct Hn as (m & o & Hn). congruence.
        -- cbn in Hq. apply (Hb j q); [lia|exact Hq].
      * intros Hx. destruct (Hf Hx) as (q & Hq & Hc). exists q. split; [|exact Hc].
        replace (N.to_nat (i' + 1)) with (S (N.to_nat i')) by lia. exact Hq.
    + injection H as <- <-. split; [discriminate|]. split; [intros j q Hj; cbn in Hj; lia|]. intros _. exists p. split; [reflexivity|exact E].
    + injection H as <- <-. split; [discriminate|]. split; [intros j q Hj; cbn in Hj; lia|]. intros _. exists p. split; [reflexivity|exact E].
    + exfalso. exact (catch_reply_no_panic own w p E).
Qed.
