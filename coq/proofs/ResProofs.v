(* C19 - proofs about the resource model (model/Res.v). *)
From Coq Require Import List NArith Bool Arith Lia Permutation.
Import ListNotations.
From PSA Require Import gen.GoFacts model.Res.
Local Open Scope nat_scope.

(* ---- lists ---- *)
Lemma mem_In : forall x l, mem x l = true <-> In x l.
Proof.
  unfold mem; intros; rewrite existsb_exists; split.
  - intros [y [Hy He]]; apply Nat.eqb_eq in He; subst; auto.
  - intros; exists x; split; auto; apply Nat.eqb_refl.
Qed.

Lemma rm_In : forall x y l, In y (rm x l) <-> In y l /\ y <> x.
Proof.
  unfold rm; intros; rewrite filter_In; split; intros [A B]; split; auto.
  - apply negb_true_iff, Nat.eqb_neq in B; auto.
  - apply negb_true_iff, Nat.eqb_neq; auto.
Qed.

Lemma NoDup_rm : forall x l, NoDup l -> NoDup (rm x l).
Proof. intros; unfold rm; apply NoDup_filter; auto. Qed.

Lemma rm_notin : forall x l, ~ In x l -> rm x l = l.
Proof.
  induction l; simpl; intros; auto.
  destruct (Nat.eqb x a) eqn:E; simpl.
  - apply Nat.eqb_eq in E; subst; tauto.
  - f_equal; apply IHl; tauto.
Qed.

Lemma perm_rm : forall x l, NoDup l -> In x l -> Permutation l (x :: rm x l) /\ length l = S (length (rm x l)).
Proof.
  induction l; simpl; intros Hn Hi; [tauto|].
  inversion Hn; subst.
  destruct (Nat.eqb x a) eqn:E; simpl.
  - apply Nat.eqb_eq in E; subst. fold (rm a l). rewrite rm_notin by auto. split; auto.
  - apply Nat.eqb_neq in E. destruct Hi as [Hi|Hi]; [congruence|].
    destruct (IHl H2 Hi) as [P Len]. fold (rm x l). split.
    + rewrite perm_swap. apply perm_skip; auto.
    + simpl; lia.
Qed.

Lemma upd_app : forall A (l1 : list A) i x y l2, length l1 = i -> upd i y (l1 ++ x :: l2) = l1 ++ y :: l2.
Proof.
  induction l1; simpl; intros; subst; auto.
  unfold upd in *; simpl. f_equal. apply (IHl1 (length l1) x y l2 eq_refl).
Qed.

Lemma perm4 : forall A (a x b s : list A), Permutation (a ++ x ++ b ++ s) (x ++ s ++ a ++ b).
Proof.
  intros. rewrite Permutation_app_swap_app. apply Permutation_app_head.
  rewrite (app_assoc a b s). apply Permutation_app_comm.
Qed.

(* ---- the ownership discipline ---- *)
Lemma wt_weaken : forall p o x, wt None o p = true -> wt (Some x) o p = true.
Proof.
  induction p; simpl; intros o x H; auto;
    repeat match goal with
    | H : _ && _ = true |- _ => apply andb_true_iff in H; destruct H
    end;
    try solve [repeat (apply andb_true_iff; split); auto].
  - destruct (o && wt None true p1); auto.
    apply andb_true_iff in H; destruct H. apply andb_true_iff; split; auto.
  - discriminate.
Qed.

Definition cfg := (pc * (bool * bool))%type.
Definition cfg_ok (c : cfg) : Prop :=
  let '(p, (t, tl)) := c in wt (Some tl) t (code p) = true /\ wt (Some tl) tl (lreg p) = true.
Definition own1 (c : cfg) : list (option nat) := if fst (snd c) then [own (fst c)] else [].
Definition owned (cs : list cfg) : list (option nat) := flat_map own1 cs.

Definition Ginv (g : glob) (ow : list (option nat)) : Prop :=
  Permutation ow (map Some (live g)) /\ NoDup (live g) /\ (forall id, In id (live g) -> id < nopen g) /\
  nopen g = nclose g + length (live g) /\ dbl g = false.

Lemma Ginv_same : forall g g' ow, live g' = live g -> nopen g' = nopen g -> nclose g' = nclose g -> dbl g' = dbl g ->
  Ginv g ow -> Ginv g' ow.
Proof. unfold Ginv; intros g g' ow A B C D H; rewrite A, B, C, D; auto. Qed.

Ltac bool_hyps :=
  repeat match goal with
  | H : _ && _ = true |- _ => apply andb_true_iff in H; destruct H
  | H : negb _ = true |- _ => apply negb_true_iff in H
  end.

Ltac fin Hg := split; [reflexivity | split; [simpl; split; auto | split; [auto | simpl; try exact Hg]]].

Lemma step1 : forall ext a g p t tl rest p' sp g',
  cfg_ok (p, (t, tl)) -> pstep ext a g p = Some (p', sp, g') -> Ginv g (own1 (p, (t, tl)) ++ rest) ->
  exists t' tl' spc, map fst spc = sp /\ cfg_ok (p', (t', tl')) /\ Forall cfg_ok spc /\
    Ginv g' (own1 (p', (t', tl')) ++ owned spc ++ rest).
Proof.
  intros ext a g [c l o path] t tl rest p' sp g' [Hc Hl] Hs Hg.
  unfold pstep in Hs; unfold own1 in *; simpl in *.
  destruct c; simpl in Hc.
  - discriminate.
  - (* Open *) bool_hyps; subst t. simpl in Hg. destruct a; inversion Hs; subst; clear Hs.
    + exists false, tl, []. fin Hg.
    + exists true, tl, []. fin Hg.
      destruct Hg as (P & N & F & C & D).
      repeat split; simpl; auto.
      * constructor; auto. intro Hi; apply F in Hi; lia.
      * intros id [E|Hi]; [subst; lia|]. apply F in Hi; lia.
      * lia.
  - (* Write *) bool_hyps. inversion Hs; subst; clear Hs. exists t, tl, []. fin Hg. destruct a; auto.
  - (* Close *) bool_hyps; subst t. simpl in Hg.
    destruct Hg as (P & N & F & C & D).
    assert (Hin : In o (map Some (live g))) by (eapply Permutation_in; [exact P|left; auto]).
    apply in_map_iff in Hin; destruct Hin as [id [E Hin]]; subst o.
    assert (M : mem id (live g) = true) by (apply mem_In; auto). rewrite M in Hs.
    inversion Hs; subst; clear Hs. exists false, tl, []. fin P.
    destruct (perm_rm id (live g) N Hin) as [P2 Len].
    repeat split; simpl; auto.
    + apply Permutation_cons_inv with (a := Some id).
      eapply Permutation_trans; [exact P|]. apply (Permutation_map Some) in P2. exact P2.
    + apply NoDup_rm; auto.
    + intros x Hx; apply rm_In in Hx; destruct Hx; auto.
    + lia.
  - (* Spawn *) inversion Hs; subst; clear Hs.
    destruct (t && wt None true c1) eqn:E.
    + apply andb_true_iff in E; destruct E as [Et Ec]; subst t.
      exists false, tl, [(mkpc c1 Halt o path, (true, false))]. simpl.
      split; [reflexivity|]. split; [split; auto|]. split; [|exact Hg].
      constructor; [|constructor]. simpl; split; auto. apply wt_weaken; auto.
    + bool_hyps.
      exists t, tl, [(mkpc c1 Halt o path, (false, false))]. simpl.
      split; [reflexivity|]. split; [split; auto|]. split; [|exact Hg].
      constructor; [|constructor]. simpl; split; auto. apply wt_weaken; auto.
  - (* Push *) inversion Hs; subst; clear Hs. exists t, tl, []. fin Hg.
  - (* Pop *) inversion Hs; subst; clear Hs. exists t, tl, []. fin Hg.
    destruct path; auto; exact Hg.
  - (* WaitDone *) destruct (isdone g path); [|discriminate]. inversion Hs; subst; clear Hs.
    exists t, tl, []. fin Hg.
  - (* IfDone *) bool_hyps. inversion Hs; subst; clear Hs. exists t, tl, []. fin Hg.
    match goal with |- context [isdone ?x ?y] => destruct (isdone x y) end; auto.
  - (* Select *) bool_hyps. exists t, tl, [].
    destruct ext; [|destruct (isdone g path); [|discriminate]]; inversion Hs; subst; fin Hg.
  - (* Read *) bool_hyps. exists t, tl, [].
    destruct (sock_open g _); [destruct ext; [|discriminate]|]; inversion Hs; subst; fin Hg.
  - (* Sleep *) inversion Hs; subst; clear Hs. exists t, tl, []. fin Hg.
  - (* Branch *) bool_hyps. inversion Hs; subst; clear Hs. exists t, tl, []. fin Hg.
    destruct a; auto.
  - (* Loop *) inversion Hs; subst; clear Hs. exists t, t, []. fin Hg.
  - (* Again *) inversion Hs; subst; clear Hs. destruct tl, t; try discriminate; [exists true, true, [] | exists false, false, []]; fin Hg.
Qed.

Definition Inv (s : st) : Prop :=
  exists cs, map fst cs = procs s /\ Forall cfg_ok cs /\ Ginv (gl s) (owned cs).

Lemma split_cfg : forall (cs : list cfg) i p, nth_error (map fst cs) i = Some p ->
  exists c1 ty c2, cs = c1 ++ (p, ty) :: c2 /\ length c1 = i.
Proof.
  induction cs; intros [|i] p H; simpl in *; try discriminate.
  - inversion H; subst. exists [], (snd a), cs. destruct a; auto.
  - destruct (IHcs i p H) as (c1 & ty & c2 & E & L). exists (a :: c1), ty, c2. subst; auto.
Qed.

Lemma owned_app : forall a b, owned (a ++ b) = owned a ++ owned b.
Proof. intros; unfold owned; apply flat_map_app. Qed.

Lemma exec_opt_Inv : forall s c s', Inv s -> exec_opt s c = Some s' -> Inv s'.
Proof.
  intros s c s' (cs & Hm & Hok & Hg) He. destruct c; simpl in He.
  - destruct (nth_error (procs s) i) eqn:Hn; [|discriminate].
    destruct (pstep ext a (gl s) p) as [[[p' sp] g']|] eqn:Hp; [|discriminate].
    inversion He; subst; clear He. rewrite <- Hm in Hn.
    destruct (split_cfg cs i p Hn) as (c1 & [t tl] & c2 & E & L). subst cs.
    rewrite Forall_app in Hok; destruct Hok as [Ok1 Ok2]. inversion Ok2; subst.
    rewrite owned_app in Hg; simpl in Hg.
    assert (G : Ginv (gl s) (own1 (p, (t, tl)) ++ owned c1 ++ owned c2)).
    { destruct Hg as (P & R). split; auto. rewrite <- P. unfold owned at 3; simpl. fold (owned c2).
      rewrite Permutation_app_swap_app. reflexivity. }
    destruct (step1 _ _ _ _ _ _ _ _ _ _ H1 Hp G) as (t' & tl' & spc & Es & Ok' & Oks & G').
    exists (c1 ++ (p', (t', tl')) :: c2 ++ spc). simpl. split; [|split].
    + rewrite <- Hm. rewrite !map_app; simpl. rewrite map_app.
      rewrite upd_app by (rewrite map_length; reflexivity). rewrite Es. rewrite <- app_assoc. reflexivity.
    + apply Forall_app; split; auto. constructor; auto. apply Forall_app; split; auto.
    + destruct G' as (P & R). split; auto. rewrite <- P.
      rewrite owned_app. unfold owned at 2; simpl. fold (owned (c2 ++ spc)). rewrite owned_app.
      apply perm4.
  - inversion He; subst; clear He. exists cs; simpl; split; [auto|split; [auto|exact Hg]].
  - destruct (mem c (timedc (gl s))); [|discriminate]. inversion He; subst; clear He.
    exists cs; simpl; split; [auto|split; [auto|exact Hg]].
Qed.

Lemma exec_Inv : forall s c, Inv s -> Inv (exec s c).
Proof. intros; unfold exec. destruct (exec_opt s c) eqn:E; auto. eapply exec_opt_Inv; eauto. Qed.

Lemma run_Inv : forall cs s, Inv s -> Inv (run s cs).
Proof. induction cs; simpl; intros; auto. apply IHcs. apply exec_Inv; auto. Qed.

Lemma init_Inv : forall p, wt None false p = true -> Inv (init p).
Proof.
  intros p H. exists [(mkpc p Halt None [], (false, false))]. simpl. repeat split; auto.
  - constructor; [|constructor]. simpl; split; auto. apply wt_weaken; auto.
  - constructor.
  - intros id [].
Qed.

Lemma Inv_terminated : forall s, Inv s -> terminated s = true -> live (gl s) = [].
Proof.
  intros s (cs & Hm & Hok & (P & _)) Ht. unfold terminated in Ht. rewrite <- Hm in Ht.
  assert (O : owned cs = []).
  { clear P Hm. induction cs; simpl in *; auto. bool_hyps. inversion Hok; subst.
    rewrite IHcs by auto. destruct a as [p [t tl]]; simpl in *. unfold halted in H; unfold own1; simpl.
    destruct H3 as [Hc _]. destruct (code p); try discriminate. simpl in Hc. apply negb_true_iff in Hc; subst; auto. }
  rewrite O in P. apply Permutation_nil in P. destruct (live (gl s)); auto; discriminate.
Qed.

(* every socket opened is closed exactly once: for every program that obeys the discipline and EVERY oracle *)
Theorem balance : forall p, wt None false p = true -> forall cs,
  let s := run (init p) cs in
  dbl (gl s) = false /\ opens s = closes s + length (live (gl s)) /\ NoDup (live (gl s)) /\
  (terminated s = true -> opens s = closes s /\ live (gl s) = []).
Proof.
  intros p H cs s. assert (I : Inv s) by (apply run_Inv, init_Inv; auto).
  pose proof (Inv_terminated s I) as T. destruct I as (c & _ & _ & (_ & N & _ & C & D)).
  unfold opens, closes. repeat split; auto.
  rewrite C, (T H0); simpl; lia.
Qed.

(* ---- prompt termination after cancellation ---- *)
Lemma qna_dcost : forall p a b, qna p = true -> dcost a p = dcost b p.
Proof.
  induction p; simpl; intros a b H; auto; bool_hyps;
    try solve [erewrite IHp1 by eauto; erewrite IHp2 by eauto; reflexivity];
    try solve [erewrite IHp by eauto; reflexivity];
    try solve [erewrite IHp2 by eauto; reflexivity];
    try solve [erewrite IHp1 by eauto; reflexivity].
  discriminate.
Qed.

Definition Qok (p : pc) : Prop := lok (code p) = true /\ lok (lreg p) = true /\ qna (lreg p) = true.

Lemma Qok_step : forall ext a g p p' sp g', Qok p -> pstep ext a g p = Some (p', sp, g') -> Qok p' /\ Forall Qok sp.
Proof.
  intros ext a g [c l o path] p' sp g' (Hc & Hl & Hq) Hs. unfold pstep in Hs; simpl in *.
  destruct c; simpl in Hc; bool_hyps;
    repeat match goal with
    | H : (if ?x then _ else _) = Some _ |- _ => destruct x
    | H : match ?x with Some _ => _ | None => _ end = Some _ |- _ => destruct x
    | H : Some _ = Some _ |- _ => inversion H; subst; clear H
    | H : None = Some _ |- _ => discriminate
    end; unfold Qok; simpl; repeat split; auto;
    try solve [constructor; [repeat split; auto | constructor]];
    try solve [destruct a; auto];
    try solve [match goal with |- context [isdone ?x ?y] => destruct (isdone x y) end; auto].
Qed.

Lemma isdone_root : forall g path, rootc g = true -> isdone g path = true.
Proof. unfold isdone; intros g path H; rewrite H; reflexivity. Qed.

Lemma quiet_step_cost : forall a g p p' sp g', rootc g = true -> Qok p -> pstep false a g p = Some (p', sp, g') ->
  S (pcost p' + fold_right (fun q n => pcost q + n) 0 sp) <= pcost p /\ rootc g' = true.
Proof.
  intros a g [c l o path] p' sp g' Hr (Hc & Hl & Hq) Hs. unfold pstep in Hs; simpl in *.
  unfold pcost.
  destruct c; simpl in Hc; bool_hyps; simpl in Hs; try rewrite (isdone_root g path Hr) in Hs;
    repeat match goal with
    | H : (if ?x then _ else _) = Some _ |- _ => destruct x
    | H : match ?x with Some _ => _ | None => _ end = Some _ |- _ => destruct x
    | H : Some _ = Some _ |- _ => inversion H; subst; clear H
    | H : None = Some _ |- _ => discriminate
    end; simpl; auto; try (split; [lia|auto]);
    try solve [destruct a; split; auto; lia];
    try solve [destruct path; simpl; auto].
  - (* Loop *) rewrite (qna_dcost c (dcost 0 c) 0) by auto. split; auto; lia.
  - (* Again *) rewrite (qna_dcost l (dcost 0 l) 0) by auto. split; auto; lia.
Qed.

Lemma cost_app : forall l1 l2, fold_right (fun p n => pcost p + n) 0 (l1 ++ l2) =
  fold_right (fun p n => pcost p + n) 0 l1 + fold_right (fun p n => pcost p + n) 0 l2.
Proof. induction l1; simpl; intros; auto. rewrite IHl1; lia. Qed.

Definition Qst (s : st) : Prop := rootc (gl s) = true /\ Forall Qok (procs s).

Lemma quiet_exec : forall s c s', Qst s -> quiet_choice c = true -> exec_opt s c = Some s' -> Qst s' /\ S (cost s') <= cost s.
Proof.
  intros s c s' [Hr Hq] Hc He. destruct c as [i ext a| |]; try discriminate. destruct ext; try discriminate.
  simpl in He. destruct (nth_error (procs s) i) eqn:Hn; [|discriminate].
  destruct (pstep false a (gl s) p) as [[[p' sp] g']|] eqn:Hp; [|discriminate].
  inversion He; subst; clear He.
  destruct (nth_error_split _ _ Hn) as (l1 & l2 & E & L).
  assert (Qp : Qok p) by (rewrite Forall_forall in Hq; apply Hq; eapply nth_error_In; eauto).
  destruct (quiet_step_cost _ _ _ _ _ _ Hr Qp Hp) as [Hcost Hr'].
  destruct (Qok_step _ _ _ _ _ _ _ Qp Hp) as [Qp' Qsp].
  unfold Qst, cost; simpl. rewrite E in *. rewrite upd_app by auto.
  rewrite Forall_app in Hq; destruct Hq as [Q1 Q2]. inversion Q2; subst.
  split; [split; auto|].
  - rewrite <- app_assoc; simpl. apply Forall_app; split; auto. constructor; auto. apply Forall_app; split; auto.
  - rewrite <- app_assoc. rewrite !cost_app; simpl. rewrite ?cost_app. lia.
Qed.

Lemma quiet_bound_gen : forall cs s, Qst s -> forallb quiet_choice cs = true -> nsteps s cs <= cost s.
Proof.
  induction cs; simpl; intros s Q H; [lia|]. bool_hyps.
  destruct (exec_opt s a) eqn:E; [|auto].
  destruct (quiet_exec _ _ _ Q H E) as [Q' C]. specialize (IHcs _ Q' H0). lia.
Qed.

Lemma Qok_exec : forall s c, Forall Qok (procs s) -> Forall Qok (procs (exec s c)).
Proof.
  intros s c Hq. unfold exec. destruct (exec_opt s c) eqn:He; auto.
  destruct c; simpl in He.
  - destruct (nth_error (procs s) i) eqn:Hn; [|discriminate].
    destruct (pstep ext a (gl s) p) as [[[p' sp] g']|] eqn:Hp; [|discriminate].
    inversion He; subst; clear He; simpl.
    destruct (nth_error_split _ _ Hn) as (l1 & l2 & E & L). rewrite E in *. rewrite upd_app by auto.
    rewrite Forall_app in Hq; destruct Hq as [Q1 Q2]. inversion Q2; subst.
    destruct (Qok_step _ _ _ _ _ _ _ H1 Hp) as [Qp' Qsp].
    rewrite <- app_assoc; simpl. apply Forall_app; split; auto. constructor; auto. apply Forall_app; split; auto.
  - inversion He; subst; auto.
  - destruct (mem c (timedc (gl s))); inversion He; subst; auto.
Qed.

Lemma Qok_run : forall cs s, Forall Qok (procs s) -> Forall Qok (procs (run s cs)).
Proof. induction cs; simpl; intros; auto. apply IHcs, Qok_exec; auto. Qed.

(* after cancel(), whatever happened before (any oracle cs1), if the environment then stays silent the whole pool
   makes at most [cost] further steps, cost being read off the state at the instant of cancellation *)
Theorem shutdown_bound : forall p, lok p = true -> forall cs1 cs2,
  let s := exec (run (init p) cs1) CCancel in
  forallb quiet_choice cs2 = true -> nsteps s cs2 <= cost s.
Proof.
  intros p H cs1 cs2 s Hq. apply quiet_bound_gen; auto. split.
  - reflexivity.
  - unfold s. apply Qok_exec. apply Qok_run. simpl. constructor; [|constructor]. unfold Qok; simpl; auto.
Qed.

(* ... and it cannot get stuck before every goroutine has returned: no goroutine is left blocked *)
Lemma blocked_quiet : forall g q, rootc g = true -> pstep false false g q = None ->
  code q = Halt \/ (exists m e, code q = Read m e /\ sock_open g q = true).
Proof.
  intros g [c l o path] Hr H. unfold pstep in H; simpl in *. rewrite (isdone_root g path Hr) in H.
  destruct c; simpl in H; try discriminate; auto.
  - destruct o; [destruct (mem n (live g))|]; discriminate.
  - right. destruct (sock_open g _) eqn:E; [|discriminate]. eauto.
Qed.

Lemma nth_error_map_fst : forall (cs : list cfg) c, In c cs -> exists i, nth_error (map fst cs) i = Some (fst c).
Proof.
  intros cs c H. apply In_nth_error in H. destruct H as [i H]. exists i. apply map_nth_error; auto.
Qed.

Theorem progress : forall s, Inv s -> rootc (gl s) = true -> terminated s = false ->
  exists i, exec_opt s (CStep i false false) <> None.
Proof.
  intros s (cs & Hm & Hok & (P & _)) Hr Ht.
  unfold terminated in Ht. apply not_true_iff_false in Ht. rewrite forallb_forall in Ht.
  assert (Hex : exists p, In p (procs s) /\ halted p = false).
  { clear - Ht. induction (procs s); simpl in *; [exfalso; apply Ht; tauto|].
    destruct (halted a) eqn:E; [|eauto].
    destruct IHl as (p & A & B); eauto. intro H; apply Ht. intros x [X|X]; subst; auto. }
  destruct Hex as (p & Hin & Hh).
  apply In_nth_error in Hin; destruct Hin as [i Hn].
  destruct (pstep false false (gl s) p) eqn:Hp.
  - exists i. simpl. rewrite Hn, Hp. destruct p0 as [[? ?] ?]; discriminate.
  - destruct (blocked_quiet _ _ Hr Hp) as [E|(m & e & E & So)]; [unfold halted in Hh; rewrite E in Hh; discriminate|].
    unfold sock_open in So. destruct (own p) as [id|] eqn:Eo; [|discriminate]. apply mem_In in So.
    assert (Hi : In (Some id) (owned cs)).
    { eapply Permutation_in; [symmetry; exact P|]. apply in_map; auto. }
    unfold owned in Hi. apply in_flat_map in Hi. destruct Hi as ([q [t tl]] & Hq & Ho).
    unfold own1 in Ho; simpl in Ho. destruct t; [|destruct Ho]. destruct Ho as [Ho|[]].
    destruct (nth_error_map_fst cs _ Hq) as [j Hj]. simpl in Hj. rewrite Hm in Hj.
    exists j. simpl. rewrite Hj.
    rewrite Forall_forall in Hok. specialize (Hok _ Hq). simpl in Hok. destruct Hok as [Hc _].
    destruct (pstep false false (gl s) q) eqn:Hpq; [destruct p0 as [[? ?] ?]; discriminate|].
    exfalso. destruct (blocked_quiet _ _ Hr Hpq) as [E2|(m2 & e2 & E2 & _)]; rewrite E2 in Hc; simpl in Hc; discriminate.
Qed.

Theorem no_goroutine_stuck : forall p, wt None false p = true -> forall cs,
  let s := run (init p) cs in rootc (gl s) = true -> terminated s = false ->
  exists i, exec_opt s (CStep i false false) <> None.
Proof. intros p H cs s. apply progress. apply run_Inv, init_Inv; auto. Qed.

(* a bound on the cost that does not look at the state: every goroutine runs a piece of the program text *)
Lemma dcost_size : forall p a, dcost a p <= size p + a.
Proof.
  induction p; simpl; intros a; try lia;
    try (specialize (IHp1 a); specialize (IHp2 a); lia);
    try (specialize (IHp a); lia).
  - specialize (IHp1 0); specialize (IHp2 a); lia.
  - specialize (IHp 0); lia.
Qed.

(* ---- the programs obey the discipline ---- *)
Lemma wt_ping : forall L kr ke, wt L false kr = true -> wt L false ke = true -> wt L false (ping kr ke) = true.
Proof. intros L kr ke A B. unfold ping. simpl. rewrite A, B. reflexivity. Qed.
Lemma lok_ping : forall kr ke, lok kr = true -> lok ke = true -> lok (ping kr ke) = true.
Proof. intros kr ke A B. unfold ping. simpl. rewrite A, B. reflexivity. Qed.

Lemma wt_send_unicast : forall L k, wt L false k = true -> wt L false (send_unicast k) = true.
Proof. intros L k A. unfold send_unicast. simpl. rewrite A. reflexivity. Qed.
Lemma lok_send_unicast : forall k, lok k = true -> lok (send_unicast k) = true.
Proof. intros k A. unfold send_unicast. simpl. rewrite A. reflexivity. Qed.

Local Opaque ping send_unicast.

Lemma wt_arp_verify : forall n L kf kb, wt L false kf = true -> wt L false kb = true -> wt L false (arp_verify n kf kb) = true.
Proof. induction n; simpl; intros; auto. apply wt_ping; auto. simpl. rewrite H, H0; reflexivity. Qed.
Lemma lok_arp_verify : forall n kf kb, lok kf = true -> lok kb = true -> lok (arp_verify n kf kb) = true.
Proof. induction n; simpl; intros; auto. apply lok_ping; auto. simpl. rewrite H, H0; reflexivity. Qed.

Local Opaque arp_verify.

Lemma wt_reply : forall L, wt L false reply = true.
Proof. intros; apply wt_send_unicast; reflexivity. Qed.
Lemma lok_reply : lok reply = true.
Proof. reflexivity. Qed.

Lemma wt_find_ip : forall n L, wt L false (find_ip n) = true.
Proof.
  induction n; simpl; intros; auto. rewrite IHn. simpl.
  apply wt_arp_verify; auto.
Qed.
Lemma lok_find_ip : forall n, lok (find_ip n) = true.
Proof. induction n; simpl; intros; auto. rewrite IHn. simpl. apply lok_arp_verify; auto. Qed.

Lemma wt_handler : forall n L, wt L false (handler n) = true.
Proof.
  intros. unfold handler, handle_discover, handle_request. simpl.
  rewrite !wt_reply, !wt_find_ip. simpl.
  apply wt_arp_verify; [simpl; apply wt_reply | apply wt_reply].
Qed.
Lemma lok_handler : forall n, lok (handler n) = true.
Proof.
  intros. unfold handler, handle_discover, handle_request. simpl.
  rewrite !lok_find_ip. simpl. apply lok_arp_verify; reflexivity.
Qed.

Lemma wt_server_run : forall h, wt None false h = true -> wt None false (server_run h) = true.
Proof. intros h H. unfold server_run. simpl. rewrite H. reflexivity. Qed.
Lemma lok_server_run : forall h, lok h = true -> lok (server_run h) = true.
Proof. intros h H. unfold server_run. simpl. rewrite H. reflexivity. Qed.

Lemma server_disciplined : forall n, wt None false (server_run (handler n)) = true /\ lok (server_run (handler n)) = true.
Proof. intros; split; [apply wt_server_run, wt_handler | apply lok_server_run, lok_handler]. Qed.

Lemma client_disciplined : wt None false client_run = true /\ lok client_run = true.
Proof. vm_compute. auto. Qed.

(* the client routines on their own (what the fault-injection runs of the harness call directly) *)
Lemma wt_uc_pings : forall n L, wt L false (uc_pings n send_loop Halt) = true.
Proof. induction n; simpl; intros; auto. apply wt_ping; auto. Qed.
Lemma lok_uc_pings : forall n, lok (uc_pings n send_loop Halt) = true.
Proof. induction n; simpl; intros; auto. apply lok_ping; auto. Qed.
Lemma send_message_disciplined : forall uc, wt None false (send_message uc) = true /\ lok (send_message uc) = true.
Proof. intros [|]; unfold send_message; split; auto using wt_uc_pings, lok_uc_pings. Qed.
Lemma advance_disciplined : forall uc, wt None false (advance uc Halt Halt Halt) = true /\ lok (advance uc Halt Halt Halt) = true.
Proof.
  intros uc. destruct (send_message_disciplined uc) as [A B]. unfold advance, catch_reply. simpl. rewrite A, B.
  split; reflexivity.
Qed.
Lemma arp_verify_disciplined : forall n, wt None false (arp_verify n reply reply) = true /\ lok (arp_verify n reply reply) = true.
Proof. intros; split; [apply wt_arp_verify; apply wt_reply | apply lok_arp_verify; reflexivity]. Qed.

(* the source has the Close calls where the model has them (regenerated from /repo on every run) *)
Lemma cf_res_close_sites : gf_res_close_sites = true.
Proof. reflexivity. Qed.
Lemma cf_res_tries : (1 <= gf_arp_tries)%N /\ (1 <= gf_client_arp_tries)%N /\ (gf_arp_timeout_ns < gf_arp_resend_ns)%N.
Proof. vm_compute. repeat split; discriminate. Qed.

(* ---- the scheduler used for the model-evaluated counts only produces runs of the semantics ---- *)
Lemma first_internal_exec : forall ps s b i s' u, first_internal s b ps i = Some (s', u) -> exists c, exec s c = s'.
Proof.
  induction ps; intros s b i s' u H; [discriminate|].
  cbn [first_internal] in H.
  destruct (exec_opt s (CStep i false (if is_branch a then b else false))) eqn:E.
  - inversion H; subst. eexists. unfold exec. rewrite E. reflexivity.
  - eauto.
Qed.

Lemma external_run : forall s e, exists cs, external s e = run s cs.
Proof.
  intros s e. unfold external.
  destruct e as [|[|[|[|e]]]];
    try match goal with |- context [match ?x with Some _ => _ | None => _ end] => destruct x end;
    try (eexists [_]; reflexivity); exists []; reflexivity.
Qed.

Lemma drive_is_run : forall fuel s bs evs, exists cs, drive fuel s bs evs = run s cs.
Proof.
  induction fuel; intros; [exists []; reflexivity|]. cbn [drive].
  destruct (first_internal s (hd false bs) (procs s) 0) as [[s' u]|] eqn:E.
  - destruct (first_internal_exec _ _ _ _ _ _ E) as [c Hc].
    destruct (IHfuel s' (if u then tl bs else bs) evs) as [cs Hcs]. exists (c :: cs). simpl. rewrite Hc. auto.
  - destruct evs as [|e r]; [exists []; reflexivity|].
    destruct (external_run s e) as [c1 H1]. destruct (IHfuel (external s e) bs r) as [c2 H2].
    exists (c1 ++ c2). unfold run in *. rewrite fold_left_app. rewrite <- H1. auto.
Qed.

(* ---- exact open counts of particular histories (the oracle is written out; each is one closed run) ---- *)
Definition hist (p : proc) (bs : list bool) (evs : list nat) : list N := summary (drive 4000 (init p) bs evs).

(* idle server, then cancel: 1 open (the receive socket), closed by the closer goroutine *)
Lemma count_idle_server : hist (server_run (handler 2)) [] [3] = [1; 1; 1; 0; 2]%N.
Proof. vm_compute. reflexivity. Qed.
(* DISCOVER, search, first candidate unanswered (3 Pings x (1 receive + 1 send)), OFFER (1 unicast send): 7 opens
   on top of the server's own socket *)
Lemma count_probed_discover : hist (server_run (handler 2)) [false; true; false; false; true; true; true; true] [2; 0; 0; 0; 3] = [8; 8; 1; 0; 9]%N.
Proof. vm_compute. reflexivity. Qed.
(* DISCOVER of a bound client: no probe, 1 unicast send *)
Lemma count_bound_discover : hist (server_run (handler 2)) [false; true; false; false; true; false; true] [2; 3] = [2; 2; 1; 0; 3]%N.
Proof. vm_compute. reflexivity. Qed.
(* REQUEST acknowledged after a probe answered by the client itself at the first Ping: 2 + 1 *)
Lemma count_request_ack_own_reply : hist (server_run (handler 2)) [false; true; true; true; true; true; false; true] [2; 1; 3] = [4; 4; 1; 0; 5]%N.
Proof. vm_compute. reflexivity. Qed.
(* REQUEST NAKed without a probe: 1 *)
Lemma count_request_nak : hist (server_run (handler 2)) [false; true; true; true; false] [2; 3] = [2; 2; 1; 0; 3]%N.
Proof. vm_compute. reflexivity. Qed.
(* the straight-line programs used for observed histories count 1 + sum (2 x pings + replies) *)
Lemma count_obs_server : hist (obs_server [(3, 1); (0, 0); (1, 1); (0, 1)]) [] (obs_server_events [(3, 1); (0, 0); (1, 1); (0, 1)]) = [12; 12; 1; 0; 14]%N.
Proof. vm_compute. reflexivity. Qed.
(* client: DISCOVER/OFFER and REQUEST/ACK exchanges (1 send + 1 receive each), ARP check (2), unicast renewal after
   two Pings (2 x 2 + 1 + 1) *)
Lemma count_obs_client : hist (obs_client [(1, 0); (1, 0); (0, 0); (2, 2)]) [] (obs_client_events [(1, 0); (1, 0); (0, 0); (2, 2)]) = [12; 12; 1; 0; 13]%N.
Proof. vm_compute. reflexivity. Qed.
(* cost (bound on the steps after cancel) of an idle server and of a fresh client *)
Lemma cost_idle_server : cost (exec (drive 4000 (init (server_run (handler 2))) [] []) CCancel) = 4.
Proof. vm_compute. reflexivity. Qed.

(* ---- a bound on the cost that does not look inside the state: every goroutine runs a piece of the program text ---- *)
Fixpoint subterms (p : proc) : list proc :=
  p :: match p with
       | Halt | Again => []
       | Open _ x y | Write x y | Branch x y | IfDone x y | Select x y | Read x y | Spawn x y => subterms x ++ subterms y
       | Close q | Push _ q | Pop q | WaitDone q | Sleep q | Loop q => subterms q
       end.
Lemma sub_refl : forall p, In p (subterms p).
Proof. destruct p; simpl; auto. Qed.
Lemma sub_trans : forall p q r, In q (subterms p) -> In r (subterms q) -> In r (subterms p).
Proof.
  induction p; simpl; intros q r [E|H] Hr; subst; auto; try contradiction;
    right; try apply in_app_or in H; try destruct H as [H|H]; try apply in_or_app; eauto.
Qed.
Lemma sub_size : forall p q, In q (subterms p) -> size q <= size p.
Proof.
  induction p; simpl; intros q [E|H]; subst; simpl; auto; try contradiction;
    try apply in_app_or in H; try destruct H as [H|H];
    try (apply IHp1 in H; lia); try (apply IHp2 in H; lia); try (apply IHp in H; lia).
Qed.
Lemma size_pos : forall p, 1 <= size p.
Proof. destruct p; simpl; lia. Qed.

Definition Sok (p0 : proc) (p : pc) : Prop :=
  (In (code p) (subterms p0) \/ code p = Halt) /\ (In (lreg p) (subterms p0) \/ lreg p = Halt).

Lemma Sok_step : forall p0 ext a g p p' sp g', Sok p0 p -> pstep ext a g p = Some (p', sp, g') -> Sok p0 p' /\ Forall (Sok p0) sp.
Proof.
  intros p0 ext a g [c l o path] p' sp g' [Hc Hl] Hs. unfold pstep in Hs; simpl in *.
  destruct Hc as [Hc|Hc]; [|subst c; discriminate].
  assert (K : forall q, In q (subterms c) -> In q (subterms p0)) by (intros; eapply sub_trans; eauto).
  destruct c; simpl in Hs;
    repeat match goal with
    | H : (if ?x then _ else _) = Some _ |- _ => destruct x
    | H : match ?x with Some _ => _ | None => _ end = Some _ |- _ => destruct x
    | H : Some _ = Some _ |- _ => inversion H; subst; clear H
    | H : None = Some _ |- _ => discriminate
    end; unfold Sok; simpl; (split; [split|]); auto;
    try solve [left; apply K; simpl; right; try apply in_or_app; auto using sub_refl];
    try solve [left; destruct a; apply K; simpl; right; apply in_or_app; auto using sub_refl];
    try solve [left; match goal with |- context [isdone ?x ?y] => destruct (isdone x y) end; apply K; simpl; right; apply in_or_app; auto using sub_refl];
    try solve [constructor; [split; simpl; auto; left; apply K; simpl; right; apply in_or_app; auto using sub_refl | constructor]].
Qed.

Lemma Sok_exec : forall p0 s c, Forall (Sok p0) (procs s) -> Forall (Sok p0) (procs (exec s c)).
Proof.
  intros p0 s c Hq. unfold exec. destruct (exec_opt s c) eqn:He; auto.
  destruct c; simpl in He.
  - destruct (nth_error (procs s) i) eqn:Hn; [|discriminate].
    destruct (pstep ext a (gl s) p) as [[[p' sp] g']|] eqn:Hp; [|discriminate].
    inversion He; subst; clear He; simpl.
    destruct (nth_error_split _ _ Hn) as (l1 & l2 & E & L). rewrite E in *. rewrite upd_app by auto.
    rewrite Forall_app in Hq; destruct Hq as [Q1 Q2]. inversion Q2; subst.
    destruct (Sok_step _ _ _ _ _ _ _ _ H1 Hp) as [Qp' Qsp].
    rewrite <- app_assoc; simpl. apply Forall_app; split; auto. constructor; auto. apply Forall_app; split; auto.
  - inversion He; subst; auto.
  - destruct (mem c (timedc (gl s))); inversion He; subst; auto.
Qed.
Lemma Sok_run : forall p0 cs s, Forall (Sok p0) (procs s) -> Forall (Sok p0) (procs (run s cs)).
Proof. induction cs; simpl; intros; auto. apply IHcs, Sok_exec; auto. Qed.

Lemma Sok_pcost : forall p0 p, Sok p0 p -> pcost p <= 2 * size p0.
Proof.
  intros p0 p [Hc Hl]. unfold pcost.
  pose proof (dcost_size (code p) (dcost 0 (lreg p))). pose proof (dcost_size (lreg p) 0). pose proof (size_pos p0).
  assert (size (code p) <= size p0) by (destruct Hc as [Hc|Hc]; [apply sub_size; auto | rewrite Hc; simpl; lia]).
  assert (dcost 0 (lreg p) <= size p0).
  { destruct Hl as [Hl|Hl]; [apply sub_size in Hl; lia | rewrite Hl; simpl; lia]. }
  lia.
Qed.

Lemma cost_bound : forall p0 l, Forall (Sok p0) l -> fold_right (fun p n => pcost p + n) 0 l <= length l * (2 * size p0).
Proof.
  induction 1; simpl; [lia|]. apply Sok_pcost in H. lia.
Qed.

(* the bound in closed form: after cancel() each goroutine alive at that instant (and nothing else: handlers spawn
   nothing once cancelled except what is counted in their cost) accounts for at most 2 x (size of the program text) steps *)
Theorem shutdown_bound_static : forall p, lok p = true -> forall cs1 cs2,
  let s := exec (run (init p) cs1) CCancel in
  forallb quiet_choice cs2 = true -> nsteps s cs2 <= length (procs s) * (2 * size p).
Proof.
  intros p H cs1 cs2 s Hq. eapply Nat.le_trans; [apply shutdown_bound; auto|].
  unfold cost. apply cost_bound. unfold s. apply Sok_exec, Sok_run. simpl. constructor; [|constructor].
  split; simpl; auto. left; apply sub_refl.
Qed.
