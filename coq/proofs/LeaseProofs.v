(* Exclusivity and stability of leases over ALL interleavings: every execution of the server, however
   its handlers interleave, touches the lease table only through the atomic operations OfferIP(hold),
   HoldClient(hold), UpdateClient(lease), LookupClientByDuid.  The theorems below therefore quantify
   over arbitrary histories of these operations with arbitrary arguments, clocks, candidate orders and
   probe outcomes. *)
From PSA Require Import model.Bytes model.Clients model.Ipdb spec.SpecTable spec.SpecIpdb
  proofs.ClientsProofs proofs.TableProofs.
From Coq Require Import ZifyN ZifyNat ZifyBool.
Open Scope N_scope.

(* what the server logs (ghost): a successful reservation (ip, duid) made at instant g_t for g_dur *)
Record gev := { g_ip : N; g_duid : bytes; g_t : Z; g_dur : Z; g_ack : bool }.

Definition step_event (now now' : Z) (op : dbop) (res : dbres) : option gev :=
  match op, res with
  | OpUpdate (Some ip) d ttl, RBool true => Some {| g_ip := ip; g_duid := d; g_t := now; g_dur := ttl; g_ack := true |}
  | OpHold (Some ip) d ttl, RBool true => Some {| g_ip := ip; g_duid := d; g_t := now; g_dur := ttl; g_ack := false |}
  | OpOffer _ _ _ _ d ttl, RIp (Some a) => Some {| g_ip := a; g_duid := d; g_t := now'; g_dur := ttl; g_ack := false |}
  | _, _ => None
  end.

(* the operations the server issues: leases of length L, holds of length H <= L *)
Definition server_op (L : Z) (op : dbop) : Prop :=
  match op with
  | OpUpdate _ _ ttl => ttl = L
  | OpHold _ _ ttl => (0 <= ttl <= L)%Z
  | OpOffer _ _ _ _ _ ttl => (0 <= ttl <= L)%Z
  | OpAddPerm _ _ => True
  | OpLookup _ => True
  | OpFind _ _ _ _ _ => True
  end.

Definition sv_ok (L : Z) (h : list (Z * dbop)) : Prop := clock_ok h /\ Forall (fun p => server_op L (snd p)) h.

(* run with ghost log *)
Fixpoint g_run (x : ipdb) (t : table) (now : Z) (h : list (Z * dbop)) (log : list gev) : table * Z * list gev :=
  match h with
  | [] => (t, now, log)
  | (dt, op) :: r =>
    let '(res, t', now') := t_step x t (now + dt)%Z op in
    g_run x t' now' r (match step_event (now + dt)%Z now' op res with Some e => log ++ [e] | None => log end)
  end.

Record LInv (L : Z) (now : Z) (t : table) (log : list gev) : Prop := {
  li_unique : unique_live now t;
  li_upper : forall p e, nth_error t p = Some e -> e_perm e = false -> (e_until e <= now + L)%Z;
  li_log : forall ev, In ev log -> exists p e, nth_error t p = Some e /\ e_ip e = g_ip ev /\ e_duid e = g_duid ev /\
             (e_perm e = true \/ (g_t ev + g_dur ev <= e_until e)%Z) }.

(* entries keep address, client and permanence, and the expiry of a non-permanent one only moves forward *)
Definition grows (t t' : table) : Prop :=
  forall p e, nth_error t p = Some e -> exists e', nth_error t' p = Some e' /\ e_ip e' = e_ip e /\ e_duid e' = e_duid e /\
    e_perm e' = e_perm e /\ (e_perm e = false -> (e_until e <= e_until e')%Z).

Lemma grows_refl t : grows t t.
Proof. intros p e H. exists e. repeat split; auto; try lia. Qed.

Lemma grows_trans a b c : grows a b -> grows b c -> grows a c.
Proof.
  intros H1 H2 p e H. destruct (H1 p e H) as (e1 & N1 & A & B & C & D). destruct (H2 p e1 N1) as (e2 & N2 & A2 & B2 & C2 & D2).
  exists e2. repeat split; try congruence. intros Hp. specialize (D Hp). rewrite <- C in Hp. specialize (D2 Hp). lia.
Qed.

Lemma grows_app t l : grows t (t ++ l).
Proof. intros p e H. exists e. rewrite nth_error_app1 by (apply nth_error_Some; congruence). repeat split; auto; try lia. Qed.

Lemma grows_set_until t p u : (forall e, nth_error t p = Some e -> e_perm e = false -> (e_until e <= u)%Z) -> grows t (set_until t p u).
Proof.
  intros Hu q e H. rewrite nth_error_set_until. destruct (Nat.eqb q p) eqn:E.
  - apply Nat.eqb_eq in E. subst q. rewrite H. cbn. eexists. split; [reflexivity|]. cbn. repeat split; auto.
  - exists e. repeat split; auto; try lia.
Qed.

Definition upper (B : Z) (t : table) : Prop := forall q e, nth_error t q = Some e -> e_perm e = false -> (e_until e <= B)%Z.

Lemma upper_mono B B' t : (B <= B')%Z -> upper B t -> upper B' t.
Proof. intros H U q e Hn Hp. specialize (U q e Hn Hp). lia. Qed.

Lemma upper_set_until t p u B : upper B t -> (u <= B)%Z -> upper B (set_until t p u).
Proof.
  intros H Hu q e Hn Hp. rewrite nth_error_set_until in Hn. destruct (Nat.eqb q p).
  - destruct (nth_error t q) as [e0|]; [|discriminate]. cbn in Hn. injection Hn as <-. cbn. exact Hu.
  - eapply H; eauto.
Qed.

Lemma upper_app t e0 B : upper B t -> (e_perm e0 = false -> (e_until e0 <= B)%Z) -> upper B (t ++ [e0]).
Proof.
  intros H H0 q e Hn Hp. destruct (Nat.lt_ge_cases q (length t)) as [Hl|Hg].
  - rewrite nth_error_app1 in Hn by exact Hl. eapply H; eauto.
  - rewrite nth_error_app2 in Hn by exact Hg. destruct (q - length t)%nat as [|k]; cbn in Hn; [|destruct k; discriminate].
    injection Hn as <-. auto.
Qed.

Lemma to_uip_some x ip n : to_uip x ip = Some n -> ip = Some n.
Proof. unfold to_uip. destruct ip as [m|]; [|discriminate]. destruct ((m <? net_from x) || (net_to x <? m)); [discriminate|]. congruence. Qed.

(* what a reservation of (n, d) for ttl achieved *)
Definition reserved_in (t' : table) (n : N) (d : bytes) (upto : Z) : Prop :=
  exists p e, nth_error t' p = Some e /\ e_ip e = n /\ e_duid e = d /\ (e_perm e = true \/ (upto <= e_until e)%Z).
(* at instant now the address n was not bound to a client other than d *)
Definition not_others (now : Z) (t : table) (n : N) (d : bytes) : Prop :=
  forall p e, live_at now t p e -> e_ip e = n -> e_duid e = d.

Lemma update_effect x now ip d ttl t ok t' n :
  to_uip x ip = Some n -> unique_live now t ->
  (forall p e, live_at now t p e -> e_ip e = n -> e_duid e = d -> e_perm e = false -> (e_until e <= now + ttl)%Z) ->
  t_update_client x now ip d ttl t = (ok, t') ->
  grows t t' /\ (forall B, upper B t -> (now + ttl <= B)%Z -> upper B t') /\
  (ok = true -> not_others now t n d /\ reserved_in t' n d (now + ttl)%Z).
Proof.
  intros Eu U Hmono E. pose proof (t_update_spec _ _ _ _ _ _ _ _ U E) as S. rewrite Eu in S.
  destruct S as [(p & e & (Hn & Hl) & Hi & Hd & -> & ->)|[(A & B & -> & Hok)|(_ & _ & -> & ->)]].
  - split; [apply grows_set_until; intros e0 H0 Hp0; assert (e0 = e) by congruence; subst e0; apply (Hmono p e (conj Hn Hl) Hi Hd Hp0)|].
    split; [intros B0 HB Hle; apply upper_set_until; auto|]. intros _. split.
    + intros q e' (Hn' & Hl') Hi'. assert (q = p).
      { apply (U (KIp n) q p e' e); auto; cbn; apply N.eqb_eq; auto. }
      subst q. congruence.
    + exists p. eexists. rewrite nth_error_set_until, Nat.eqb_refl, Hn. cbn. split; [reflexivity|]. cbn. repeat split; auto. right. lia.
  - split; [apply grows_app|]. split; [intros B0 HB Hle; apply upper_app; auto|].
    intros _. split.
    + intros q e' L' Hi'. exfalso. rewrite find_live_none_iff in A. specialize (A q e' L'). cbn in A. apply N.eqb_neq in A. contradiction.
    + exists (length t). eexists. rewrite nth_error_app2, Nat.sub_diag by lia. cbn. split; [reflexivity|]. cbn. repeat split; auto. right. lia.
  - split; [apply grows_refl|]. split; [auto|discriminate].
Qed.

Lemma hold_effect x now ip d ttl t ok t' n :
  to_uip x ip = Some n -> unique_live now t -> t_hold_client x now ip d ttl t = (ok, t') ->
  grows t t' /\ (forall B, upper B t -> (now + ttl <= B)%Z -> upper B t') /\
  (ok = true -> not_others now t n d /\ reserved_in t' n d (now + ttl)%Z).
Proof.
  intros Eu U E. unfold t_hold_client in E. rewrite Eu in E. unfold t_lookup in E.
  assert (Hgen : forall (Hm : forall p e, live_at now t p e -> e_ip e = n -> e_duid e = d -> e_perm e = false -> (e_until e <= now + ttl)%Z),
            t_update_client x now ip d ttl t = (ok, t') -> grows t t' /\ (forall B, upper B t -> (now + ttl <= B)%Z -> upper B t') /\
            (ok = true -> not_others now t n d /\ reserved_in t' n d (now + ttl)%Z)).
  { intros Hm E'. eapply update_effect; eauto. }
  destruct (find_live now (KIp n) t 0) as [p|] eqn:E1.
  - pose proof E1 as E1'. apply (find_live_some_iff _ _ _ _ U) in E1 as (e1 & (N1 & L1) & K1). cbn in K1. apply N.eqb_eq in K1.
    destruct (find_live now (KDuid d) t 0) as [q|] eqn:E2.
    + pose proof E2 as E2'. apply (find_live_some_iff _ _ _ _ U) in E2 as (e2 & (N2 & L2) & K2). cbn in K2. apply bytes_eqb_eq in K2.
      destruct (Nat.eqb p q) eqn:Epq.
      * apply Nat.eqb_eq in Epq. subst q. assert (e2 = e1) by congruence. subst e2. rewrite N1 in E.
        destruct (now + ttl <? e_until e1)%Z eqn:Elt.
        -- injection E as <- <-. split; [apply grows_refl|]. split; [auto|]. intros _. split.
           ++ intros q e' (Hn' & Hl') Hi'. assert (q = p) by (apply (U (KIp n) q p e' e1); auto; cbn; apply N.eqb_eq; auto). subst q. congruence.
           ++ exists p, e1. repeat split; auto. right. lia.
        -- apply Hgen; [|exact E]. intros p0 e0 (N0 & L0) I0 D0 P0.
           assert (p0 = p) by (apply (U (KIp n) p0 p e0 e1); auto; cbn; apply N.eqb_eq; auto). subst p0.
           assert (e0 = e1) by congruence. subst e0. lia.
      * apply Hgen; [|exact E]. intros p0 e0 (N0 & L0) I0 D0 P0. exfalso.
        assert (p0 = p) by (apply (U (KIp n) p0 p e0 e1); auto; cbn; apply N.eqb_eq; auto).
        assert (p0 = q) by (apply (U (KDuid d) p0 q e0 e2); auto; cbn; apply bytes_eqb_eq; auto).
        apply Nat.eqb_neq in Epq. congruence.
    + apply Hgen; [|exact E]. intros p0 e0 L0 I0 D0 P0. exfalso.
      rewrite find_live_none_iff in E2. specialize (E2 p0 e0 L0). cbn in E2.
      assert (bytes_eqb (e_duid e0) d = true) by (apply bytes_eqb_eq; auto). congruence.
  - assert (E' : t_update_client x now ip d ttl t = (ok, t')) by (destruct (find_live now (KDuid d) t 0); exact E).
    apply Hgen; [|exact E']. intros p0 e0 L0 I0 D0 P0. exfalso.
    rewrite find_live_none_iff in E1. specialize (E1 p0 e0 L0). cbn in E1. apply N.eqb_neq in E1. contradiction.
Qed.

Lemma LInv_mono L now now' t log : (now <= now')%Z -> LInv L now t log -> LInv L now' t log.
Proof.
  intros H [U Up Lg]. split.
  - eapply unique_live_mono; eauto.
  - intros p e Hn Hp. specialize (Up p e Hn Hp). lia.
  - exact Lg.
Qed.

Lemma log_grows t t' log :
  grows t t' ->
  (forall ev, In ev log -> exists p e, nth_error t p = Some e /\ e_ip e = g_ip ev /\ e_duid e = g_duid ev /\
             (e_perm e = true \/ (g_t ev + g_dur ev <= e_until e)%Z)) ->
  (forall ev, In ev log -> exists p e, nth_error t' p = Some e /\ e_ip e = g_ip ev /\ e_duid e = g_duid ev /\
             (e_perm e = true \/ (g_t ev + g_dur ev <= e_until e)%Z)).
Proof.
  intros G H ev Hin. destruct (H ev Hin) as (p & e & Hn & Hi & Hd & Hu).
  destruct (G p e Hn) as (e' & Hn' & Hi' & Hd' & Hp' & Hu'). exists p, e'. repeat split; try congruence.
  destruct Hu as [Hp|Hle]; [left; congruence|]. destruct (e_perm e) eqn:Ep; [left; congruence|right]. specialize (Hu' eq_refl). lia.
Qed.

Definition excl_against (log : list gev) (ev : gev) : Prop :=
  forall e1, In e1 log -> g_ip e1 = g_ip ev -> g_duid e1 <> g_duid ev -> (g_t e1 + g_dur e1 < g_t ev)%Z.

(* a reservation of (n,d) made when n was bound to nobody else comes strictly after every logged
   reservation of n by another client has run out *)
Lemma excl_from_not_others L now t log n d tnow :
  LInv L now t log -> not_others now t n d -> tnow = now ->
  excl_against log {| g_ip := n; g_duid := d; g_t := tnow; g_dur := 0; g_ack := false |}.
Proof.
  intros [U Up Lg] Hno -> e1 Hin Hip Hd. cbn in *.
  destruct (Lg e1 Hin) as (p & e & Hn & Hi & Hdd & Hu).
  destruct (live now e) eqn:El.
  - exfalso. apply Hd. rewrite <- Hdd. apply (Hno p e); [split; auto|congruence].
  - unfold live, expired in El. destruct (e_perm e); cbn in El; [discriminate|].
    destruct Hu as [Hp|Hle]; [discriminate|]. lia.
Qed.

Lemma g_step L x t now op res t' now' log :
  (0 <= L)%Z -> server_op L op -> probe_nonneg op -> LInv L now t log -> t_step x t now op = (res, t', now') ->
  LInv L now' t' (match step_event now now' op res with Some e => log ++ [e] | None => log end) /\ (now <= now')%Z /\
  (forall ev, step_event now now' op res = Some ev -> excl_against log ev).
Proof.
  intros HL Hs Hp I H. pose proof I as [U Up Lg].
  destruct op as [ip d ttl|d|ip d|perm c pr sg d|ip d ttl|perm c pr sg d ttl]; cbn [t_step] in H; cbn [server_op] in Hs.
  - (* UpdateClient(lease) *)
    destruct (t_update_client x now ip d ttl t) as [ok t1] eqn:E. injection H as <- <- <-. subst ttl.
    destruct (to_uip x ip) as [n|] eqn:Eu.
    2:{ pose proof (t_update_spec _ _ _ _ _ _ _ _ U E) as S. rewrite Eu in S. destruct S as [-> ->].
        cbn [step_event]. destruct ip; (split; [exact I|split; [lia|discriminate]]). }
    pose proof (to_uip_some _ _ _ Eu) as ->.
    assert (Hm : forall p e, live_at now t p e -> e_ip e = n -> e_duid e = d -> e_perm e = false -> (e_until e <= now + L)%Z).
    { intros p e (Hn & _) _ _ Hpe. apply (Up p e Hn Hpe). }
    destruct (update_effect _ _ _ _ _ _ _ _ _ Eu U Hm E) as (G & Hup & Hok).
    assert (U1 : unique_live now t1) by (eapply t_update_unique; eauto).
    cbn [step_event]. destruct ok.
    + destruct (Hok eq_refl) as (Hno & Hres). split; [|split; [lia|]].
      * split; [exact U1|apply Hup; [exact Up|lia]|].
        intros ev Hin. apply in_app_or in Hin as [Hin|[<-|[]]]; [eapply log_grows; eauto|]. exact Hres.
      * intros ev Hev. injection Hev as <-. intros e1 Hin Hip Hd.
        apply (excl_from_not_others L now t log n d now I Hno eq_refl e1 Hin Hip Hd).
    + split; [|split; [lia|discriminate]]. split; [exact U1|apply Hup; [exact Up|lia]|]. eapply log_grows; eauto.
  - injection H as <- <- <-. cbn. split; [exact I|split; [lia|discriminate]].
  - destruct (t_add_permanent x now ip d t) as [ok t1] eqn:E. injection H as <- <- <-. cbn [step_event].
    assert (Hst : LInv L now t1 log).
    { unfold t_add_permanent in E. destruct (to_uip x ip) as [n|]; [|injection E as <- <-; exact I].
      pose proof (t_inject_unique _ _ _ _ _ _ _ _ U E) as U1.
      destruct (t_inject_spec _ _ _ _ _ _ _ _ E) as [(_ & _ & _ & ->)|(_ & -> & _)]; [|exact I].
      split; [exact U1|apply upper_app; [exact Up|cbn; discriminate]|]. eapply log_grows; [apply grows_app|exact Lg]. }
    destruct ip; (split; [exact Hst|split; [lia|discriminate]]).
  - destruct (t_find_ip x perm c pr now sg d t) as [r n1] eqn:E. injection H as <- <- <-.
    pose proof (t_find_time _ _ _ _ _ _ _ _ _ _ Hp E) as Hle. cbn [step_event].
    split; [eapply LInv_mono; eauto|split; [exact Hle|discriminate]].
  - (* HoldClient *)
    destruct (t_hold_client x now ip d ttl t) as [ok t1] eqn:E. injection H as <- <- <-.
    destruct (to_uip x ip) as [n|] eqn:Eu.
    2:{ unfold t_hold_client in E. rewrite Eu in E. injection E as <- <-.
        cbn [step_event]. destruct ip; (split; [exact I|split; [lia|discriminate]]). }
    pose proof (to_uip_some _ _ _ Eu) as ->.
    destruct (hold_effect _ _ _ _ _ _ _ _ _ Eu U E) as (G & Hup & Hok).
    assert (U1 : unique_live now t1) by (eapply t_hold_unique; eauto).
    cbn [step_event]. destruct ok.
    + destruct (Hok eq_refl) as (Hno & Hres). split; [|split; [lia|]].
      * split; [exact U1|apply Hup; [exact Up|lia]|].
        intros ev Hin. apply in_app_or in Hin as [Hin|[<-|[]]]; [eapply log_grows; eauto|]. exact Hres.
      * intros ev Hev. injection Hev as <-. intros e1 Hin Hip Hd.
        apply (excl_from_not_others L now t log n d now I Hno eq_refl e1 Hin Hip Hd).
    + split; [|split; [lia|discriminate]]. split; [exact U1|apply Hup; [exact Up|lia]|]. eapply log_grows; eauto.
  - (* OfferIP *)
    unfold t_offer_ip in H. destruct (t_find_ip x perm c pr now sg d t) as [r n1] eqn:E.
    pose proof (t_find_time _ _ _ _ _ _ _ _ _ _ Hp E) as Hle.
    assert (I1 : LInv L n1 t log) by (eapply LInv_mono; eauto). pose proof I1 as [U1 Up1 Lg1].
    destruct r as [a|]; [|injection H as <- <- <-; cbn; split; [exact I1|split; [exact Hle|discriminate]]].
    destruct (t_hold_client x n1 (Some a) d ttl t) as [ok t2] eqn:Eh. injection H as <- <- <-.
    destruct (to_uip x (Some a)) as [n|] eqn:Eu.
    2:{ unfold t_hold_client in Eh. rewrite Eu in Eh. injection Eh as <- <-. cbn. split; [exact I1|split; [exact Hle|discriminate]]. }
    pose proof (to_uip_some _ _ _ Eu) as Ha. injection Ha as ->.
    destruct (hold_effect _ _ _ _ _ _ _ _ _ Eu U1 Eh) as (G & Hup & Hok).
    assert (U2 : unique_live n1 t2) by (eapply t_hold_unique; eauto).
    destruct ok; cbn [step_event].
    + destruct (Hok eq_refl) as (Hno & Hres). split; [|split; [exact Hle|]].
      * split; [exact U2|apply Hup; [exact Up1|lia]|].
        intros ev Hin. apply in_app_or in Hin as [Hin|[<-|[]]]; [eapply log_grows; eauto|]. exact Hres.
      * intros ev Hev. injection Hev as <-. intros e1 Hin Hip Hd.
        apply (excl_from_not_others L n1 t log n d n1 I1 Hno eq_refl e1 Hin Hip Hd).
    + split; [|split; [exact Hle|discriminate]]. split; [exact U2|apply Hup; [exact Up1|lia]|]. eapply log_grows; eauto.
Qed.

(* exclusivity of a whole log: every reservation comes after the earlier reservations of the same
   address by other clients have run out *)
Fixpoint excl_log (log : list gev) : Prop :=
  match log with
  | [] => True
  | e1 :: rest => (forall e2, In e2 rest -> g_ip e1 = g_ip e2 -> g_duid e1 <> g_duid e2 -> (g_t e1 + g_dur e1 < g_t e2)%Z) /\ excl_log rest
  end.

Lemma excl_log_snoc log ev : excl_log log -> excl_against log ev -> excl_log (log ++ [ev]).
Proof.
  induction log as [|e1 log IH]; intros H Ha.
  { cbn. split; [intros e2 []|exact I]. }
  cbn in H |- *. destruct H as [H1 H2]. split.
  - intros e2 Hin Hip Hd. apply in_app_or in Hin as [Hin|[<-|[]]]; [apply H1; auto|]. apply Ha; auto. cbn. left. reflexivity.
  - apply IH; [exact H2|]. intros e0 Hin. apply Ha. cbn. right. exact Hin.
Qed.

Theorem lease_invariants L x h : (0 <= L)%Z -> forall t now log, sv_ok L h -> LInv L now t log -> excl_log log ->
  let '(t', now', log') := g_run x t now h log in LInv L now' t' log' /\ excl_log log' /\ (now <= now')%Z.
Proof.
  intros HL. induction h as [|[dt op] h IH]; intros t now log [Hc Hs] I Ex; cbn [g_run]; [split; [exact I|split; [exact Ex|lia]]|].
  inversion Hc as [|? ? [Hdt Hp] Hc']; subst. inversion Hs as [|? ? Hso Hs']; subst. cbn [fst snd] in *.
  destruct (t_step x t (now + dt) op) as [[res t'] now'] eqn:E.
  assert (I0 : LInv L (now + dt) t log) by (eapply LInv_mono; [|exact I]; lia).
  destruct (g_step L x t (now + dt) op res t' now' log HL Hso Hp I0 E) as (I1 & Hle & Hex).
  set (log' := match step_event (now + dt) now' op res with Some e => log ++ [e] | None => log end) in *.
  assert (Ex' : excl_log log').
  { unfold log'. destruct (step_event (now + dt) now' op res) as [ev|] eqn:Ev; [|exact Ex]. apply excl_log_snoc; [exact Ex|]. apply Hex. reflexivity. }
  specialize (IH t' now' log' (conj Hc' Hs') I1 Ex').
  destruct (g_run x t' now' h log') as [[t2 n2] l2]. destruct IH as (A & B & C). split; [exact A|split; [exact B|lia]].
Qed.

(* stability: while a logged reservation has not run out, the client is bound to that address and the
   address to that client, whatever else happened since *)
Theorem reservation_holds L now t log ev : LInv L now t log -> In ev log -> (now <= g_t ev + g_dur ev)%Z ->
  bound_ip now (g_duid ev) t = Some (g_ip ev) /\ bound_duid now (g_ip ev) t = Some (g_duid ev).
Proof.
  intros [U Up Lg] Hin Hle. destruct (Lg ev Hin) as (p & e & Hn & Hi & Hd & Hu).
  assert (Hl : live now e = true).
  { unfold live, expired. destruct (e_perm e); [reflexivity|]. destruct Hu as [?|Hu]; [discriminate|]. cbn. lia. }
  unfold bound_ip, bound_duid.
  assert (F1 : find_live now (KDuid (g_duid ev)) t 0 = Some p).
  { apply find_live_some_iff; [exact U|]. exists e. repeat split; auto. cbn. apply bytes_eqb_eq. auto. }
  assert (F2 : find_live now (KIp (g_ip ev)) t 0 = Some p).
  { apply find_live_some_iff; [exact U|]. exists e. repeat split; auto. cbn. apply N.eqb_eq. auto. }
  rewrite F1, F2, Hn. cbn. split; congruence.
Qed.
