(* The table listings ("snapshots") that the monitors of C04, C05, C08 and C10 judge by, tied to the model's table:
   a listing the acceptor has matched IS the live part of the table, so what the monitors read off the previous listing
   is what the handlers looked up. *)
From PSA Require Import gen.GoFacts model.Bytes model.Checksum model.Layer model.Dhcp model.Clients model.Ipdb model.IpdbCheck
  spec.SpecCodec spec.SpecTable spec.SpecIpdb model.Server spec.Monitors
  proofs.ChecksumProofs proofs.LayerProofs proofs.DhcpProofs proofs.ClientsProofs proofs.TableProofs proofs.LeaseProofs proofs.ServerProofs
  proofs.WireProofs proofs.WireInv proofs.WireLease.
From Coq Require Import ZifyN ZifyNat ZifyBool.
Open Scope N_scope.

(* a listing entry stands for a table entry *)
Definition sn_for (s : snap_entry) (e : entry) : Prop :=
  sn_ip s = e_ip e /\ sn_duid s = e_duid e /\ sn_perm s = e_perm e /\ (e_perm e = true \/ sn_until s = e_until e).

(* obs is a listing of t taken at tq *)
Definition snap_is (obs : list snap_entry) (tq : Z) (t : table) : Prop :=
  (forall s, In s obs -> exists p e, live_at tq t p e /\ sn_for s e) /\
  (forall p e, live_at tq t p e -> exists s, In s obs /\ sn_for s e).

Definition sn_mk (e : entry) : snap_entry :=
  {| sn_ip := e_ip e; sn_duid := e_duid e; sn_until := if e_perm e then 0%Z else e_until e; sn_perm := e_perm e |}.

Lemma sn_for_mk e : sn_for (sn_mk e) e.
Proof. unfold sn_for, sn_mk. cbn. repeat split. destruct (e_perm e); auto. Qed.

Lemma snap_of_in now t s : In s (snap_of now t) <-> exists p e, live_at now t p e /\ s = sn_mk e.
Proof.
  unfold snap_of. fold sn_mk. rewrite in_map_iff. split.
  - intros (e & <- & Hin). apply filter_In in Hin as [Hin Hl]. destruct (In_nth_error _ _ Hin) as [p Hp]. exists p, e. split; [split; assumption|reflexivity].
  - intros (p & e & (Hn & Hl) & ->). exists e. split; [reflexivity|]. apply filter_In. split; [eapply nth_error_In; eauto|exact Hl].
Qed.

Lemma snap_entry_eqb_for a e : snap_entry_eqb a (sn_mk e) = true -> sn_for a e.
Proof.
  unfold snap_entry_eqb, sn_for, sn_mk. cbn. rewrite !andb_true_iff. intros (((A & B) & C) & D).
  apply N.eqb_eq in A. apply bytes_eqb_eq in B. apply Bool.eqb_prop in C. repeat split; auto.
  destruct (e_perm e) eqn:Hp; [left; reflexivity|right]. rewrite C in D. cbn in D. lia.
Qed.

Lemma snap_entry_eqb_for' a e : snap_entry_eqb (sn_mk e) a = true -> sn_for a e.
Proof.
  unfold snap_entry_eqb, sn_for, sn_mk. cbn. rewrite !andb_true_iff. intros (((A & B) & C) & D).
  apply N.eqb_eq in A. apply bytes_eqb_eq in B. apply Bool.eqb_prop in C. repeat split; auto.
  destruct (e_perm e) eqn:Hp; [left; reflexivity|right]. cbn in D. lia.
Qed.

Lemma snap_match_is obs tq t : snap_match obs (snap_of tq t) = true -> snap_is obs tq t.
Proof.
  unfold snap_match. rewrite !andb_true_iff. intros ((_ & H1) & H2). rewrite forallb_forall in H1, H2. split.
  - intros s Hs. specialize (H1 s Hs). apply existsb_exists in H1 as (m & Hm & He).
    apply snap_of_in in Hm as (p & e & L & ->). exists p, e. split; [exact L|apply snap_entry_eqb_for; exact He].
  - intros p e L. assert (Hin : In (sn_mk e) (snap_of tq t)) by (apply snap_of_in; eauto).
    specialize (H2 _ Hin). apply existsb_exists in H2 as (s & Hs & He). exists s. split; [exact Hs|apply snap_entry_eqb_for'; exact He].
Qed.

Lemma snap_of_is tq t : snap_is (snap_of tq t) tq t.
Proof.
  split.
  - intros s Hs. apply snap_of_in in Hs as (p & e & L & ->). exists p, e. split; [exact L|apply sn_for_mk].
  - intros p e L. exists (sn_mk e). split; [apply snap_of_in; eauto|apply sn_for_mk].
Qed.

(* liveness of a listing entry at a later instant, as the monitors compute it *)
Definition sn_live (ts : Z) (s : snap_entry) : bool := sn_perm s || (ts <=? sn_until s)%Z.

Lemma sn_live_iff s e ts : sn_for s e -> sn_live ts s = live ts e.
Proof.
  intros (_ & _ & Hp & Hu). unfold sn_live, live, expired. rewrite Hp. destruct (e_perm e); [reflexivity|].
  destruct Hu as [Hu|Hu]; [discriminate|]. rewrite Hu. cbn. lia.
Qed.

(* the binding the monitors read off a listing is the binding the handler looks up *)
Lemma snap_bound_eq obs tq t ts d : snap_is obs tq t -> unique_live tq t -> (tq <= ts)%Z -> snap_bound obs ts d = bound_ip ts d t.
Proof.
  intros [H1 H2] U Hle. unfold snap_bound.
  change (fun s : snap_entry => bytes_eqb (sn_duid s) d && (sn_perm s || (ts <=? sn_until s)%Z)) with (fun s => bytes_eqb (sn_duid s) d && sn_live ts s).
  assert (Uts : unique_live ts t) by (eapply unique_live_mono; eauto).
  destruct (filter (fun s => bytes_eqb (sn_duid s) d && sn_live ts s) obs) as [|s rest] eqn:Ef.
  - (* nothing listed: nothing bound *)
    unfold bound_ip. destruct (find_live ts (KDuid d) t 0) as [p|] eqn:F; [|reflexivity]. exfalso.
    apply find_live_some in F as (_ & e & Hn & Hl & Hk & _). rewrite Nat.sub_0_r in Hn. cbn in Hk.
    assert (Ltq : live_at tq t p e) by (split; [exact Hn|eapply live_mono; eauto]).
    destruct (H2 p e Ltq) as (s & Hs & Hf).
    assert (Hin : In s (filter (fun s => bytes_eqb (sn_duid s) d && sn_live ts s) obs)).
    { apply filter_In. split; [exact Hs|]. rewrite (sn_live_iff s e ts Hf), Hl. destruct Hf as (_ & Hd & _). rewrite Hd, Hk. reflexivity. }
    rewrite Ef in Hin. destruct Hin.
  - assert (Hin : In s (filter (fun s => bytes_eqb (sn_duid s) d && sn_live ts s) obs)) by (rewrite Ef; left; reflexivity).
    apply filter_In in Hin as [Hs Hc]. apply andb_true_iff in Hc as [Hd Hl]. apply bytes_eqb_eq in Hd.
    destruct (H1 s Hs) as (p & e & (Hn & Hltq) & Hf). rewrite (sn_live_iff s e ts Hf) in Hl.
    destruct Hf as (Hi & Hdd & _). unfold bound_ip.
    assert (F : find_live ts (KDuid d) t 0 = Some p).
    { apply find_live_some_iff; [exact Uts|]. exists e. split; [split; assumption|]. cbn. apply bytes_eqb_eq. congruence. }
    rewrite F, Hn. cbn. congruence.
Qed.

(* an address the listing shows as free at ts is free in the table *)
Lemma snap_taken_complete obs tq t ts a : snap_is obs tq t -> (tq <= ts)%Z -> snap_taken obs ts a = false -> find_live ts (KIp a) t 0 = None.
Proof.
  intros [_ H2] Hle Hnt. apply find_live_none_iff. intros p e (Hn & Hl). cbn. destruct (e_ip e =? a) eqn:E; [|reflexivity]. exfalso.
  assert (Ltq : live_at tq t p e) by (split; [exact Hn|eapply live_mono; eauto]).
  destruct (H2 p e Ltq) as (s & Hs & Hf). unfold snap_taken in Hnt. apply not_true_iff_false in Hnt. apply Hnt.
  apply existsb_exists. exists s. split; [exact Hs|]. pose proof (sn_live_iff s e ts Hf) as Hlv. unfold sn_live in Hlv. rewrite Hlv, Hl.
  destruct Hf as (Hi & _). rewrite Hi, E. reflexivity.
Qed.

(* ---------- histories with a listing after every round ---------- *)
Fixpoint snap_times (now : Z) (h : list round) : Prop :=
  match h with
  | [] => True
  | r :: rest => (now <= r_t r)%Z /\ (round_end r <= r_tq r)%Z /\ (r_tq r <= round_end r + hold_ns)%Z /\ r_has_snap r = true /\
                 NoDup (map ar_ip (r_arp r)) /\ snap_times (r_tq r) rest
  end.

Fixpoint scan_with (Q : list snap_entry -> round -> bool) (prev : list snap_entry) (h : list round) : bool :=
  match h with
  | [] => true
  | r :: rest => Q prev r && scan_with Q (if r_has_snap r then r_snap r else prev) rest
  end.

Lemma TInv_later c now now' t : (now <= now')%Z -> TInv c now t -> TInv c now' t.
Proof.
  intros Hle [[U S] Hup]. split; [split; [eapply unique_live_mono; eauto|exact S]|]. eapply upper_mono; [|exact Hup]. lia.
Qed.

(* what a round premise gives to the per-round statements *)
Record round_ctx (c : scfg) (prev : list snap_entry) (tqp : Z) (t : table) (r : round) (t' : table) : Prop := {
  rc_prev : snap_is prev tqp t; rc_inv : TInv c tqp t; rc_now : (tqp <= r_t r)%Z; rc_wf : wf_round r;
  rc_tq1 : (round_end r <= r_tq r)%Z; rc_tq2 : (r_tq r <= round_end r + hold_ns)%Z; rc_snap : r_has_snap r = true;
  rc_arp : NoDup (map ar_ip (r_arp r)); rc_acc : accept_round c t r = RAcc t';
  rc_after : snap_is (r_snap r) (r_tq r) t'; rc_inv' : TInv c (round_end r) t'; rc_grows : grows t t' }.

Theorem accepted_history_snap_rounds c (Q : list snap_entry -> round -> bool) : durations_ok c ->
  (forall prev tqp t r t', round_ctx c prev tqp t r t' -> Q prev r = true) ->
  forall h prev tqp t, snap_is prev tqp t -> TInv c tqp t -> Forall wf_round h -> snap_times tqp h -> acc_run c t h ->
  scan_with Q prev h = true.
Proof.
  intros Hdur HQ. induction h as [|r h IH]; intros prev tqp t Hsn Hinv Hw Hs Ha; [reflexivity|].
  cbn [acc_run] in Ha. destruct Ha as (t' & Ha & Hrest). destruct Hs as (Hnow & Hq1 & Hq2 & Hhs & Harp & Hs). inversion Hw; subst.
  destruct (accepted_round_TInv c tqp t r t' Hdur Hinv Hnow Ha) as [Hinv' Hg].
  destruct (accepted_round_cases c t r t' Ha) as [_ Hsm]. specialize (Hsm Hhs). apply snap_match_is in Hsm.
  cbn [scan_with]. apply andb_true_iff. split.
  - apply (HQ prev tqp t r t'). constructor; auto.
  - rewrite Hhs. eapply IH; eauto. eapply TInv_later; eauto.
Qed.

Lemma snap_times_seq h : forall now, snap_times now h -> seq_times now h.
Proof.
  induction h as [|r h IH]; intros now Hs; [exact I|]. destruct Hs as (Hnow & Hq1 & _ & _ & _ & Hs). split; [exact Hnow|].
  specialize (IH _ Hs). destruct h as [|r2 h2]; [exact I|]. destruct IH as [A B]. split; [lia|exact B].
Qed.

Lemma initial_snap_is c : snap_is (snap_of 0%Z (initial_table c)) 0%Z (initial_table c).
Proof. apply snap_of_is. Qed.

(* ---------- C10: a packet that is not handled causes no reply and leaves the bindings as they were ---------- *)
Definition c10_round (c : scfg) (prev : list snap_entry) (r : round) : bool :=
  if handled c (r_pkt r) then true
  else (length (r_outs r) =? 0)%nat && (negb (r_has_snap r) || snap_sub (r_tq r) (r_snap r) prev).

Lemma c10_scan_with c : forall h prev, c10_scan c prev h = scan_with (c10_round c) prev h.
Proof. induction h as [|r h IH]; intros prev; [reflexivity|]. cbn [c10_scan scan_with]. rewrite IH. reflexivity. Qed.

Lemma sn_for_eqb s1 s2 e : sn_for s1 e -> sn_for s2 e -> snap_entry_eqb s1 s2 = true.
Proof.
  intros (A1 & B1 & C1 & D1) (A2 & B2 & C2 & D2). unfold snap_entry_eqb. rewrite A1, A2, B1, B2, C1, C2, N.eqb_refl, beqb_refl, Bool.eqb_reflx. cbn.
  destruct (e_perm e); [reflexivity|]. destruct D1 as [D1|D1]; [discriminate|]. destruct D2 as [D2|D2]; [discriminate|]. cbn. lia.
Qed.

Lemma accepted_round_c10 c prev tqp t r t' : round_ctx c prev tqp t r t' -> c10_round c prev r = true.
Proof.
  intros X. unfold c10_round. destruct (handled c (r_pkt r)) eqn:Hh; [reflexivity|].
  destruct (accepted_round_cases c t r t' (rc_acc _ _ _ _ _ _ X)) as [Hcase _].
  assert (Hunh : forall src dst m, decode_chain (r_pkt r) = Some (src, dst, m) ->
            msg_kind c m (decode_options (d_options m)) = KIgnored \/ False).
  { intros src dst m Hdc. unfold handled in Hh. rewrite (parse_in_of _ _ _ _ Hdc) in Hh. cbn [pi_opt] in Hh.
    apply orb_false_iff in Hh as [H1 H3]. left. unfold msg_kind. destruct (bytes_eqb (c_self_mac c) (d_chaddr m)); [reflexivity|].
    unfold gf_dhcpmsg_MsgTypeDiscover, gf_dhcpmsg_MsgTypeRequest. rewrite H1, H3. reflexivity. }
  assert (Hsil : r_outs r = [] /\ t' = t).
  { destruct Hcase as [? Ho ?|? ? ? ? ? Ho ?|? ? ? Hdc Hk ? Ho ?|? ? ? ? Hdc o Hk ? ? ? ? Ho ?|? ? ? ? ? ? Hdc o tl Hk
                      |? ? ? Hdc o Hk ? Ho ?|? ? ? ? ? Hdc o Hk|? ? ? ? ? Hdc o Hk|? ? ? ? ? ? Hdc o Hk]; auto;
      exfalso; destruct (Hunh _ _ _ Hdc) as [Hi|[]];
      match type of Hk with _ = ?K => assert (Hx : KIgnored = K) by (rewrite <- Hi; exact Hk) end; discriminate Hx. }
  destruct Hsil as [Ho ->]. rewrite Ho. cbn [length Nat.eqb andb]. rewrite (rc_snap _ _ _ _ _ _ X). cbn [negb orb].
  destruct (rc_after _ _ _ _ _ _ X) as [A1 A2]. destruct (rc_prev _ _ _ _ _ _ X) as [P1 P2].
  assert (Htq : (tqp <= r_tq r)%Z).
  { pose proof (rc_now _ _ _ _ _ _ X). pose proof (rc_tq1 _ _ _ _ _ _ X). unfold round_end in *. rewrite Ho in *. cbn in *. lia. }
  unfold snap_sub. apply andb_true_iff. split; apply forallb_forall.
  - intros x Hx. destruct (A1 x Hx) as (p & e & (Hn & Hl) & Hf).
    assert (Ltq : live_at tqp t p e) by (split; [exact Hn|eapply live_mono; eauto]).
    destruct (P2 p e Ltq) as (y & Hy & Hfy). apply existsb_exists. exists y. split; [exact Hy|eapply sn_for_eqb; eauto].
  - intros y Hy. destruct (P1 y Hy) as (p & e & (Hn & Hl) & Hf).
    destruct (live (r_tq r) e) eqn:El.
    + destruct (A2 p e (conj Hn El)) as (x & Hx & Hfx). apply orb_true_iff. left. apply existsb_exists. exists x. split; [exact Hx|eapply sn_for_eqb; eauto].
    + apply orb_true_iff. right. pose proof (sn_live_iff y e (r_tq r) Hf) as Hlv. unfold sn_live in Hlv. rewrite Hlv, El. reflexivity.
Qed.

Theorem accepted_history_c10 c h : cfg_srv_ok c -> durations_ok c -> Forall wf_round h -> snap_times 0%Z h -> accepted c h -> mon_C10 c h = true.
Proof.
  intros Hcs Hdur Hw Hs Ha. apply accepted_acc_run in Ha. unfold mon_C10. rewrite c10_scan_with.
  eapply (accepted_history_snap_rounds c (c10_round c) Hdur); eauto; [|apply initial_snap_is|apply initial_TInv; exact Hcs].
  intros prev tqp t r t' X. eapply accepted_round_c10; eauto.
Qed.

(* ---------- the reply frames as the monitors see them ---------- *)
Lemma lease_frame_view c pkt src dst m f ty y : cfg_wire_ok c -> wf_bytes pkt = true -> decode_chain pkt = Some (src, dst, m) ->
  y < 4294967296 -> ty = 2 \/ ty = 5 -> frame_eqb f (reply_lease c ty m y) = true ->
  exists p, parse_out f = Some p /\ typ p = ty /\ d_yiaddr (po_msg p) = y /\ po_t p = of_t f /\
            po_opt p = decode_options ((53, [ty]) :: (54, put32 (c_self_ip c)) :: opts_for c (d_chaddr m)).
Proof.
  intros Hc Hw Hdc Hy Hty Hfr. destruct (decode_chain_fields _ _ _ _ Hw Hdc) as (Hx & Hf & Hl & Hwc).
  assert (Ht : ty < 256) by (destruct Hty; subst; lia).
  destruct (lease_frame_parsed c ty m y f Hc Hx Hf Hl Hwc Hy Ht Hfr) as (p & Hpo & P).
  pose proof (opts_for_ok c (d_chaddr m) Hc) as Hok. unfold opts_ok in Hok. rewrite !andb_true_iff in Hok. destruct Hok as (((_ & _) & Hnr) & _).
  destruct Hc as (Hs & _). destruct (reply_opts_view ty (c_self_ip c) (opts_for c (d_chaddr m)) Hs Hnr) as [Vt _].
  exists p. split; [exact Hpo|]. split; [unfold typ; rewrite (pr_opt _ _ _ _ _ _ P); exact Vt|].
  split; [rewrite (pr_msg _ _ _ _ _ _ P); reflexivity|]. split; [exact (pr_t _ _ _ _ _ _ P)|exact (pr_opt _ _ _ _ _ _ P)].
Qed.

Lemma nak_frame_view c pkt src dst m f : cfg_wire_ok c -> wf_bytes pkt = true -> decode_chain pkt = Some (src, dst, m) ->
  frame_eqb f (reply_nak c m) = true -> exists p, parse_out f = Some p /\ typ p = 6 /\ po_t p = of_t f.
Proof.
  intros Hc Hw Hdc Hfr. destruct (decode_chain_fields _ _ _ _ Hw Hdc) as (Hx & Hf & Hl & Hwc).
  destruct (nak_frame_parsed c m f Hc Hx Hl Hwc Hfr) as (p & Hpo & P). destruct Hc as (Hs & _).
  destruct (reply_opts_view gf_dhcpmsg_MsgTypeNack (c_self_ip c) [] Hs eq_refl) as [Vt _].
  exists p. split; [exact Hpo|]. split; [unfold typ; rewrite (pr_opt _ _ _ _ _ _ P); exact Vt|exact (pr_t _ _ _ _ _ _ P)].
Qed.

(* ---------- C04: REQUEST verdicts ---------- *)
Lemma c04_scan_with c : forall h prev, c04_scan c prev h = scan_with (c04_round c) prev h.
Proof. induction h as [|r h IH]; intros prev; [reflexivity|]. cbn [c04_scan scan_with]. rewrite IH. reflexivity. Qed.

Definition desig_of (src : N) (o : decoded_options) : N := match o_reqip o with Some a => a | None => src end.

(* when the handler goes on with a REQUEST: what it designates, and that none of the "not for me" conditions holds *)
Lemma classify_some c dst src o d : classify_request c dst src o = Some d ->
  d = desig_of src o /\ match o_sid o with Some s => negb (s =? c_self_ip c) | None => false end = false /\
  negb (dst =? bcast_ip) && negb (dst =? c_self_ip c) = false.
Proof.
  unfold classify_request, desig_of. destruct (o_sid o) as [s|], (o_reqip o) as [x|].
  - destruct (dst =? bcast_ip) eqn:Eb; cbn [andb]; [|discriminate]. destruct (s =? c_self_ip c) eqn:Es; [|discriminate].
    intros H. injection H as <-. auto.
  - discriminate.
  - destruct (dst =? bcast_ip) eqn:Eb; [|discriminate]. intros H. injection H as <-. auto.
  - destruct (dst =? c_self_ip c) eqn:Es, (dst =? bcast_ip) eqn:Eb; cbn [orb]; try discriminate; intros H; injection H as <-; auto.
Qed.

(* when it does not: one of them holds, or the message is in none of the shapes that call for a NAK *)
Lemma classify_none c dst src o : classify_request c dst src o = None ->
  ((dst =? bcast_ip) && opt_eqb (o_sid o) (Some (c_self_ip c)) && negb (is_none (o_reqip o))) ||
  ((dst =? c_self_ip c) && is_none (o_sid o) && is_none (o_reqip o)) = false.
Proof.
  unfold classify_request. destruct (o_sid o) as [s|], (o_reqip o) as [x|]; cbn [opt_eqb is_none negb andb orb].
  - destruct (dst =? bcast_ip); cbn [andb]; [|rewrite andb_false_r; reflexivity]. destruct (s =? c_self_ip c); [discriminate|]. intros _. rewrite andb_false_r. reflexivity.
  - intros _. rewrite !andb_false_r. reflexivity.
  - intros _. rewrite !andb_false_r. reflexivity.
  - destruct (dst =? c_self_ip c); cbn [orb andb]; [discriminate|]. intros _. rewrite andb_false_r. reflexivity.
Qed.

Lemma kind_request_type c m o : msg_kind c m o = KRequest -> bytes_eqb (d_chaddr m) (c_self_mac c) = false.
Proof. unfold msg_kind. intros H. rewrite bytes_eqb_sym'. destruct (bytes_eqb (c_self_mac c) (d_chaddr m)); [discriminate H|reflexivity]. Qed.

Lemma accepted_round_c04 c prev tqp t r t' : cfg_wire_ok c -> round_ctx c prev tqp t r t' -> c04_round c prev r = true.
Proof.
  intros Hcw X. unfold c04_round.
  destruct (parse_in (r_pkt r)) as [i|] eqn:Epi; [|reflexivity].
  destruct (negb (o_msgtype (pi_opt i) =? 3)) eqn:Emt; [reflexivity|]. apply negb_false_iff in Emt. apply N.eqb_eq in Emt.
  unfold parse_in in Epi. destruct (decode_chain (r_pkt r)) as [[[src dst] m]|] eqn:Hdc; [|discriminate]. injection Epi as <-.
  cbn [pi_msg pi_opt pi_dst pi_src] in *. set (o := decode_options (d_options m)) in *.
  fold (desig_of src o). change (get_duid c (d_chaddr m) (o_cid o)) with (rc_duid c m).
  destruct (rc_inv _ _ _ _ _ _ X) as [[U S] _].
  rewrite (snap_bound_eq prev tqp t (r_t r) (rc_duid c m) (rc_prev _ _ _ _ _ _ X) U (rc_now _ _ _ _ _ _ X)).
  pose proof (rc_wf _ _ _ _ _ _ X) as Hw.
  destruct (accepted_round_cases c t r t' (rc_acc _ _ _ _ _ _ X)) as [Hcase _].
  assert (Hnotdisc : msg_kind c m o <> KDiscover).
  { unfold msg_kind. destruct (bytes_eqb (c_self_mac c) (d_chaddr m)); [discriminate|]. unfold gf_dhcpmsg_MsgTypeDiscover. rewrite Emt. cbn. discriminate. }
  destruct Hcase as [Hdc' ? ?|? ? ? Hdc' Hk' Ho ?|? ? ? Hdc' Hk' Hdrop ? ?|? ? ? ts Hdc' o' Hk' ? Hs' Hts Hov ? ?|src' dst' m' ts y f Hdc' o' tl Hk' Hd' Hs' Ho Hy Hfr Ht Hdl Hts Hle Hov Hh
                    |src' dst' m' Hdc' o' Hk' Hsil Ho ?|src' dst' m' des f Hdc' o' Hk' Hcl' Hmr' Hb' Ho Hfr Ht Hdl ?
                    |src' dst' m' des f Hdc' o' Hk' Hcl' Hmr' Hb' Hh' Hp' Ho Hfr Ht Hdl|src' dst' m' des f t1 Hdc' o' Hk' Hcl' Hmr' Hb' Hh' Hp' Ho Hfr Ht Hdl Hu'];
    rewrite Hdc in Hdc'; try discriminate Hdc'; injection Hdc' as <- <- <-;
    try (exfalso; apply Hnotdisc; exact Hk').
  - (* ignored: the server's own hardware address *)
    rewrite Ho. cbn [length map forallb Nat.leb andb Nat.eqb existsb].
    assert (Hself : bytes_eqb (d_chaddr m) (c_self_mac c) = true).
    { unfold msg_kind in Hk'. fold o in Hk'. rewrite bytes_eqb_sym'. destruct (bytes_eqb (c_self_mac c) (d_chaddr m)); [reflexivity|].
      unfold gf_dhcpmsg_MsgTypeDiscover, gf_dhcpmsg_MsgTypeRequest in Hk'. rewrite Emt in Hk'. cbn in Hk'. discriminate. }
    rewrite Hself. cbn. reflexivity.
  - (* silent REQUEST *)
    rewrite Ho. cbn [length map forallb Nat.leb andb Nat.eqb existsb].
    match goal with |- (if ?b then true else true) && _ = true => replace (if b then true else true) with true by (destruct b; reflexivity) end. cbn [andb].
    match goal with |- (if ?b then false else true) = true => destruct b eqn:Econd; [|reflexivity] end. exfalso.
    rewrite !andb_true_iff in Econd. destruct Econd as ((Hnot & Hshape) & Hnb). apply negb_true_iff in Hnot.
    destruct Hsil as [Hn'|(d' & Hc' & Hm')].
    + fold o in Hn'. rewrite (classify_none c dst src o Hn') in Hshape. discriminate.
    + fold o in Hc'. destruct (classify_some c dst src o d' Hc') as (-> & _ & _).
      rewrite !orb_false_iff in Hnot. destruct Hnot as (((_ & _) & Hoon) & _). rewrite Hm' in Hoon. discriminate.
  - (* NAK: the sender is not bound to what it designates *)
    fold o in Hcl'. destruct (classify_some c dst src o des Hcl') as (-> & Hos & Hod).
    destruct (nak_frame_view c (r_pkt r) src dst m f Hcw Hw Hdc Hfr) as (p & Hpo & Hty & _).
    rewrite Ho. cbn [length map forallb Nat.leb andb Nat.eqb existsb]. rewrite Hpo, Hty. cbn [N.eqb Pos.eqb andb orb].
    rewrite (kind_request_type c m o Hk'), Hos, Hmr', Hod. cbn. match goal with |- (if ?b then true else true) = true => destruct b; reflexivity end.
  - (* NAK: address conflict *)
    fold o in Hcl'. destruct (classify_some c dst src o des Hcl') as (-> & Hos & Hod).
    destruct (nak_frame_view c (r_pkt r) src dst m f Hcw Hw Hdc Hfr) as (p & Hpo & Hty & _).
    rewrite Ho. cbn [length map forallb Nat.leb andb Nat.eqb existsb]. rewrite Hpo, Hty. cbn [N.eqb Pos.eqb andb orb].
    rewrite (kind_request_type c m o Hk'), Hos, Hmr', Hod. cbn. match goal with |- (if ?b then true else true) = true => destruct b; reflexivity end.
  - (* ACK: bound to exactly the designated address *)
    fold o in Hcl'. destruct (classify_some c dst src o des Hcl') as (-> & Hos & Hod).
    pose proof (in_managed_to_uip _ _ Hmr') as Eu. destruct (to_uip_bound _ _ _ Eu) as [_ Hbd].
    assert (Hyb : desig_of src o < 4294967296) by (destruct Hcw as (_ & Hc2 & _); lia).
    destruct (lease_frame_view c (r_pkt r) src dst m f 5 (desig_of src o) Hcw Hw Hdc Hyb (or_intror eq_refl) Hfr) as (p & Hpo & Hty & Hyi & _).
    rewrite Ho. cbn [length map forallb Nat.leb andb Nat.eqb existsb]. rewrite Hpo, Hty, Hyi. cbn [N.eqb Pos.eqb andb orb].
    unfold rc_duid in Hb'. fold o in Hb'. change (get_duid c (d_chaddr m) (o_cid o)) with (rc_duid c m) in Hb'. rewrite Hb'.
    rewrite N.eqb_refl, opt_eqb_refl. cbn [andb negb].
    rewrite (kind_request_type c m o Hk'), Hos, Hmr', Hod. cbn. rewrite andb_false_r. reflexivity.
Qed.

Theorem accepted_history_c04 c h : cfg_wire_ok c -> cfg_srv_ok c -> durations_ok c -> Forall wf_round h -> snap_times 0%Z h -> accepted c h ->
  mon_C04 c h = true.
Proof.
  intros Hcw Hcs Hdur Hw Hs Ha. apply accepted_acc_run in Ha. unfold mon_C04. rewrite c04_scan_with.
  eapply (accepted_history_snap_rounds c (c04_round c) Hdur); eauto; [|apply initial_snap_is|apply initial_TInv; exact Hcs].
  intros prev tqp t r t' X. eapply accepted_round_c04; eauto.
Qed.

(* ---------- C05 / C07: reserved for as long as the ACK says ---------- *)
Definition cfg_lease_ok (c : scfg) : Prop :=
  forall mac, (Z.of_N (o_lease (decode_options (opts_for c mac))) * 1000000000 <= c_lease c)%Z.

Lemma o_lease_reply ty s os : o_lease (decode_options ((53, [ty]) :: (54, put32 s) :: os)) = o_lease (decode_options os).
Proof.
  rewrite !decode_options_typed. unfold typed_view. cbn [o_lease]. rewrite !last_opt_skip by reflexivity. reflexivity.
Qed.

Lemma accepted_round_ack_reserved c prev tqp t r t' : cfg_wire_ok c -> cfg_lease_ok c -> durations_ok c ->
  round_ctx c prev tqp t r t' -> ack_reserved r = true.
Proof.
  intros Hcw Hcl [[Hh0 Hh1] _] X. unfold ack_reserved. rewrite (rc_snap _ _ _ _ _ _ X). cbn [negb orb].
  pose proof (rc_wf _ _ _ _ _ _ X) as Hw. destruct (rc_inv _ _ _ _ _ _ X) as [[U S] Hup].
  destruct (accepted_round_cases c t r t' (rc_acc _ _ _ _ _ _ X)) as [Hcase _].
  destruct Hcase as [? Ho ?|? ? ? ? ? Ho ?|? ? ? ? ? ? Ho ?|? ? ? ? ? o ? ? ? ? ? Ho ?|src dst m ts y f Hdc o tl Hk Hd Hs Ho Hy Hfr Ht Hdl Hts Hle Hov Hh
                    |? ? ? ? o ? ? Ho ?|src dst m desired f Hdc o Hk Hcl' Hmr Hb Ho Hfr Ht Hdl ?
                    |src dst m desired f Hdc o Hk Hcl' Hmr Hb Hh Hp Ho Hfr Ht Hdl|src dst m desired f t1 Hdc o Hk Hcl' Hmr Hb Hh Hp Ho Hfr Ht Hdl Hu];
    rewrite Ho; try reflexivity; cbn [forallb]; rewrite andb_true_r.
  - (* OFFER *)
    pose proof (hold_to_uip _ _ _ _ _ _ _ Hh) as Eu. destruct (to_uip_bound _ _ _ Eu) as [_ Hbd].
    assert (Hyb : y < 4294967296) by (destruct Hcw as (_ & Hc2 & _); lia).
    destruct (lease_frame_view c (r_pkt r) src dst m f 2 y Hcw Hw Hdc Hyb (or_introl eq_refl) Hfr) as (p & Hpo & Hty & _).
    rewrite Hpo, Hty. reflexivity.
  - destruct (nak_frame_view c (r_pkt r) src dst m f Hcw Hw Hdc Hfr) as (p & Hpo & Hty & _). rewrite Hpo, Hty. reflexivity.
  - destruct (nak_frame_view c (r_pkt r) src dst m f Hcw Hw Hdc Hfr) as (p & Hpo & Hty & _). rewrite Hpo, Hty. reflexivity.
  - (* ACK *)
    pose proof (in_managed_to_uip _ _ Hmr) as Eu. destruct (to_uip_bound _ _ _ Eu) as [_ Hbd].
    assert (Hyb : desired < 4294967296) by (destruct Hcw as (_ & Hc2 & _); lia).
    destruct (lease_frame_view c (r_pkt r) src dst m f 5 desired Hcw Hw Hdc Hyb (or_intror eq_refl) Hfr) as (p & Hpo & Hty & Hyi & Hpt & Hopt).
    rewrite Hpo, Hty. cbn [N.eqb Pos.eqb]. rewrite Hyi, Hpt, Hopt, o_lease_reply.
    destruct (accepted_round_event c tqp t r t' Hcw Hw (conj U S) (rc_now _ _ _ _ _ _ X) (rc_acc _ _ _ _ _ _ X))
      as [He|(src' & dst' & m' & f' & ty & y' & Hdc' & _ & Ho' & _ & Hty' & He & _ & Hres & _)].
    { rewrite (round_events_lease c r src dst m f 5 desired Hcw Hw Hdc Ho Hyb (or_intror eq_refl) Hfr) in He. discriminate. }
    rewrite (round_events_lease c r src dst m f 5 desired Hcw Hw Hdc Ho Hyb (or_intror eq_refl) Hfr) in He.
    rewrite Hdc in Hdc'. injection Hdc' as <- <- <-. rewrite Ho in Ho'. injection Ho' as <-.
    injection He as <- <-. cbn [N.eqb Pos.eqb] in Hres.
    destruct Hres as (q & e & Hn & Hi & Hdd & Hu').
    assert (Hend : round_end r = of_t f) by (unfold round_end; rewrite Ho; cbn; lia).
    pose proof (rc_tq2 _ _ _ _ _ _ X) as Hq2. rewrite Hend in Hq2.
    assert (Hl : live (r_tq r) e = true).
    { unfold live, expired. destruct (e_perm e) eqn:Hpe; [reflexivity|]. cbn. destruct Hu' as [Hu'|Hu']; [discriminate|]. lia. }
    destruct (rc_after _ _ _ _ _ _ X) as [_ A2]. destruct (A2 q e (conj Hn Hl)) as (s & Hs & (Hsi & _ & Hsp & Hsu)).
    apply existsb_exists. exists s. split; [exact Hs|]. rewrite Hsi, Hi, N.eqb_refl. cbn [andb]. rewrite Hsp.
    destruct (e_perm e) eqn:Hpe; [reflexivity|]. cbn [orb]. destruct Hsu as [Hsu|Hsu]; [discriminate|]. destruct Hu' as [Hu'|Hu']; [discriminate|].
    specialize (Hcl (d_chaddr m)). lia.
Qed.

(* ---------- C05: no message shortens a binding ---------- *)
Definition c05_mono_round (prev : list snap_entry) (r : round) : bool :=
  if r_has_snap r then
    forallb (fun e => sn_perm e || (sn_until e <? r_tq r)%Z ||
                      existsb (fun e' => (sn_ip e' =? sn_ip e) && bytes_eqb (sn_duid e') (sn_duid e) &&
                                         (sn_perm e' || (sn_until e <=? sn_until e')%Z)) (r_snap r)) prev
  else true.

Lemma c05_monotone_scan_with : forall h prev, c05_monotone prev h = scan_with c05_mono_round prev h.
Proof. induction h as [|r h IH]; intros prev; [reflexivity|]. cbn [c05_monotone scan_with]. rewrite IH. reflexivity. Qed.

Lemma accepted_round_c05_mono c prev tqp t r t' : round_ctx c prev tqp t r t' -> c05_mono_round prev r = true.
Proof.
  intros X. unfold c05_mono_round. rewrite (rc_snap _ _ _ _ _ _ X). apply forallb_forall. intros s Hs.
  destruct (rc_prev _ _ _ _ _ _ X) as [P1 _]. destruct (P1 s Hs) as (p & e & (Hn & Hl) & (Hi & Hd & Hp & Hu)).
  destruct (sn_perm s) eqn:Esp; [reflexivity|]. cbn [orb]. destruct (sn_until s <? r_tq r)%Z eqn:Elt; [reflexivity|]. cbn [orb].
  assert (Hpe : e_perm e = false) by congruence. destruct Hu as [Hu|Hu]; [congruence|].
  destruct (rc_grows _ _ _ _ _ _ X p e Hn) as (e' & Hn' & I' & D' & P' & Hm). specialize (Hm Hpe).
  assert (Hl' : live (r_tq r) e' = true).
  { unfold live, expired. rewrite P', Hpe. cbn. lia. }
  destruct (rc_after _ _ _ _ _ _ X) as [_ A2]. destruct (A2 p e' (conj Hn' Hl')) as (s' & Hs' & (Hi' & Hd' & Hp' & Hu')).
  apply existsb_exists. exists s'. split; [exact Hs'|]. rewrite Hi', I', Hi, N.eqb_refl, Hd', D', Hd, beqb_refl. cbn [andb].
  rewrite Hp', P', Hpe. cbn [orb]. destruct Hu' as [Hu'|Hu']; [congruence|]. lia.
Qed.

(* ---------- C05: silence for lack of addresses only when none is eligible ---------- *)
Definition c05_silence_round (c : scfg) (prev : list snap_entry) (r : round) : bool :=
  match parse_in (r_pkt r), r_outs r with
  | Some i, [] =>
    let m := pi_msg i in let o := pi_opt i in
    if (o_msgtype o =? 1) && (pi_dst i =? bcast_ip) && is_none (o_sid o) && negb (bytes_eqb (d_chaddr m) (c_self_mac c)) &&
       is_none (reserved_ip c (d_chaddr m)) && is_none (snap_bound prev (r_t r) (get_duid c (d_chaddr m) (o_cid o))) &&
       negb (dynamic_disabled (c_db c))
    then negb (existsb (fun a => uip_valid a && negb (snap_taken prev (r_t r) a) && negb (foreign_answer r (d_chaddr m) a))
                       (dyn_addresses (c_db c)))
    else true
  | _, _ => true
  end.

Lemma c05_silence_scan_with c : forall h prev, c05_silence c prev h = scan_with (c05_silence_round c) prev h.
Proof. induction h as [|r h IH]; intros prev; [reflexivity|]. cbn [c05_silence scan_with]. rewrite IH. reflexivity. Qed.

Lemma accepted_round_c05_silence c prev tqp t r t' : round_ctx c prev tqp t r t' -> c05_silence_round c prev r = true.
Proof.
  intros X. unfold c05_silence_round.
  destruct (parse_in (r_pkt r)) as [i|] eqn:Epi; [|reflexivity]. destruct (r_outs r) as [|f0 rest0] eqn:Ho0; [|reflexivity].
  match goal with |- (if ?b then _ else _) = true => destruct b eqn:Econd; [|reflexivity] end.
  rewrite !andb_true_iff in Econd. destruct Econd as ((((((Hmt & Hdst) & Hsid) & Hnself) & Hres) & Hnb) & Hdyn).
  unfold parse_in in Epi. destruct (decode_chain (r_pkt r)) as [[[src dst] m]|] eqn:Hdc; [|discriminate]. injection Epi as <-.
  cbn [pi_msg pi_opt pi_dst] in *. apply N.eqb_eq in Hmt, Hdst. subst dst. set (o := decode_options (d_options m)) in *.
  apply negb_true_iff. apply not_true_iff_false. intros Hex. apply existsb_exists in Hex as (a & Hin & Ha).
  rewrite !andb_true_iff in Ha. destruct Ha as ((Hv & Hnt) & Hnf). apply negb_true_iff in Hnt, Hnf, Hdyn.
  assert (Hkind : msg_kind c m o = KDiscover).
  { unfold msg_kind. rewrite bytes_eqb_sym'. apply negb_true_iff in Hnself. rewrite Hnself. unfold gf_dhcpmsg_MsgTypeDiscover. rewrite Hmt. reflexivity. }
  destruct (accepted_round_cases c t r t' (rc_acc _ _ _ _ _ _ X)) as [Hcase _].
  destruct Hcase as [Hdc' ? ?|? ? ? Hdc' Hk' ? ?|? ? ? Hdc' Hk' Hdrop ? ?|? ? ? ts Hdc' o' Hk' ? Hs' Hts Hov ? ?|src' dst' m' ts y f Hdc' o' tl Hk' Hd' Hs' Ho Hy Hfr Ht Hdl Hts Hle Hov Hh
                    |? ? ? Hdc' o' Hk' ? ? ?|? ? ? ? f Hdc' o' Hk' ? ? ? Ho ? ? ?
                    |? ? ? ? f Hdc' o' Hk' ? ? ? ? ? Ho ? ?|? ? ? ? f ? Hdc' o' Hk' ? ? ? ? ? Ho ? ? ?];
    rewrite Hdc in Hdc'; try discriminate Hdc'; injection Hdc' as <- <- <-;
    try (rewrite Ho0 in Ho; discriminate Ho);
    try (match type of Hk' with _ = ?K => assert (Hx' : KDiscover = K) by (rewrite <- Hkind; exact Hk') end; discriminate Hx').
  - (* dropped: impossible *)
    fold o in Hdrop. destruct Hdrop as [Hx|Hx]; [rewrite N.eqb_refl in Hx; discriminate|]. destruct (o_sid o); [discriminate Hsid|apply Hx; reflexivity].
  - (* nothing to offer: every address of the range is taken, invalid or answered for *)
    unfold offer_valid in Hov. destruct (bound_ip ts (rc_duid c m) t); [discriminate|]. rewrite Hdyn in Hov.
    apply andb_true_iff in Hov as [_ Hall]. rewrite forallb_forall in Hall. specialize (Hall a Hin). apply negb_true_iff in Hall.
    unfold t_eligible in Hall. rewrite Hv in Hall.
    assert (Hfree : probe_free (r_arp r) (d_chaddr m) a = true).
    { destruct (probe_free (r_arp r) (d_chaddr m) a) eqn:E; [reflexivity|]. rewrite (not_free_foreign r (d_chaddr m) a E) in Hnf. discriminate. }
    rewrite Hfree in Hall.
    assert (Hnone : find_live ts (KIp a) t 0 = None).
    { eapply (snap_taken_complete prev tqp t ts a (rc_prev _ _ _ _ _ _ X)).
      - pose proof (rc_now _ _ _ _ _ _ X). destruct Hts; subst; lia.
      - (* not taken at the arrival: not taken at ts either *)
        unfold snap_taken in *. apply not_true_iff_false. intros Hex. apply not_true_iff_false in Hnt. apply Hnt.
        apply existsb_exists in Hex as (s & Hs & Hc). apply existsb_exists. exists s. split; [exact Hs|].
        apply andb_true_iff in Hc as [Hc1 Hc2]. rewrite Hc1. cbn [andb]. destruct (sn_perm s); [reflexivity|]. cbn [orb] in *. destruct Hts; subst; lia. }
    rewrite Hnone in Hall. discriminate.
Qed.

Lemma bound_none_later now ts d t : (now <= ts)%Z -> bound_ip now d t = None -> bound_ip ts d t = None.
Proof.
  intros Hle Hn. unfold bound_ip in *. destruct (find_live ts (KDuid d) t 0) as [p|] eqn:F; [|reflexivity]. exfalso.
  apply find_live_some in F as (_ & e & Hne & Hl & Hk & _). rewrite Nat.sub_0_r in Hne.
  destruct (find_live now (KDuid d) t 0) as [q|] eqn:F2.
  - apply find_live_some in F2 as (_ & e2 & Hne2 & _). rewrite Nat.sub_0_r in Hne2. rewrite Hne2 in Hn. discriminate.
  - rewrite find_live_none_iff in F2. specialize (F2 p e (conj Hne (live_mono _ _ _ Hle Hl))). congruence.
Qed.

(* ---------- C05: an eligible suggestion is honoured ---------- *)
Lemma c05_suggest_scan_with c : forall h now prev, snap_times now h -> c05_suggest c prev true h = scan_with (c05_suggest_round c) prev h.
Proof.
  induction h as [|r h IH]; intros now prev Hs; [reflexivity|]. destruct Hs as (_ & _ & _ & Hhs & _ & Hs).
  cbn [c05_suggest scan_with negb orb]. rewrite Hhs. erewrite IH; eauto.
Qed.

Lemma accepted_round_c05_suggest c prev tqp t r t' : cfg_wire_ok c -> cfg_srv_ok c -> round_ctx c prev tqp t r t' -> c05_suggest_round c prev r = true.
Proof.
  intros Hcw Hcs X. unfold c05_suggest_round.
  destruct (parse_in (r_pkt r)) as [i|] eqn:Epi; [|reflexivity]. destruct (r_outs r) as [|f0 [|? ?]] eqn:Ho0; try reflexivity.
  destruct (o_reqip (pi_opt i)) as [x|] eqn:Ereq; [|reflexivity]. destruct (parse_out f0) as [p0|] eqn:Epo; [|reflexivity].
  match goal with |- (if ?b then _ else _) = true => destruct b eqn:Econd; [|reflexivity] end.
  rewrite !andb_true_iff in Econd.
  destruct Econd as (((((((((((Hmt & Hdst) & Hsid) & Hnself) & Hres) & Hnb) & Hdyn) & Hind) & Hv) & Hnt) & Hnf) & Hty).
  unfold parse_in in Epi. destruct (decode_chain (r_pkt r)) as [[[src dst] m]|] eqn:Hdc; [|discriminate]. injection Epi as <-.
  cbn [pi_msg pi_opt pi_dst] in *. apply N.eqb_eq in Hmt, Hdst, Hty. subst dst. set (o := decode_options (d_options m)) in *.
  apply negb_true_iff in Hnt, Hnf, Hdyn.
  change (get_duid c (d_chaddr m) (o_cid o)) with (rc_duid c m) in Hnb.
  destruct (rc_inv _ _ _ _ _ _ X) as [[U S] _].
  rewrite (snap_bound_eq prev tqp t (r_t r) (rc_duid c m) (rc_prev _ _ _ _ _ _ X) U (rc_now _ _ _ _ _ _ X)) in Hnb.
  assert (Eb : bound_ip (r_t r) (rc_duid c m) t = None) by (destruct (bound_ip (r_t r) (rc_duid c m) t); [discriminate Hnb|reflexivity]).
  assert (Hkind : msg_kind c m o = KDiscover).
  { unfold msg_kind. rewrite bytes_eqb_sym'. apply negb_true_iff in Hnself. rewrite Hnself. unfold gf_dhcpmsg_MsgTypeDiscover. rewrite Hmt. reflexivity. }
  pose proof (rc_wf _ _ _ _ _ _ X) as Hw.
  destruct (accepted_round_cases c t r t' (rc_acc _ _ _ _ _ _ X)) as [Hcase _].
  destruct Hcase as [Hdc' Ho ?|? ? ? Hdc' Hk' Ho ?|? ? ? Hdc' Hk' Hdrop Ho ?|? ? ? ts Hdc' o' Hk' ? Hs' Hts Hov Ho ?|src' dst' m' ts y f Hdc' o' tl Hk' Hd' Hs' Ho Hy Hfr Ht Hdl Hts Hle Hov Hh
                    |? ? ? Hdc' o' Hk' ? Ho ?|? ? ? ? f Hdc' o' Hk' ? ? ? Ho ? ? ? ?
                    |? ? ? ? f Hdc' o' Hk' ? ? ? ? ? Ho ? ? ?|? ? ? ? f ? Hdc' o' Hk' ? ? ? ? ? Ho ? ? ? ?];
    rewrite Hdc in Hdc'; try discriminate Hdc'; injection Hdc' as <- <- <-;
    try (rewrite Ho0 in Ho; discriminate Ho);
    try (exfalso; match type of Hk' with _ = ?K => assert (Hx' : KDiscover = K) by (rewrite <- Hkind; exact Hk') end; discriminate Hx').
  (* the OFFER *)
  rewrite Ho0 in Ho. injection Ho as <-.
  pose proof (hold_to_uip _ _ _ _ _ _ _ Hh) as Eu. destruct (to_uip_bound _ _ _ Eu) as [_ Hbd].
  assert (Hyb : y < 4294967296) by (destruct Hcw as (_ & Hc2 & _); lia).
  destruct (lease_frame_view c (r_pkt r) src bcast_ip m f0 2 y Hcw Hw Hdc Hyb (or_introl eq_refl) Hfr) as (p & Hpo & _ & Hyi & _).
  rewrite Epo in Hpo. injection Hpo as <-. rewrite Hyi. apply N.eqb_eq.
  assert (Htsr : (r_t r <= ts)%Z) by (destruct Hts; subst; lia).
  assert (Ebts : bound_ip ts (rc_duid c m) t = None) by (eapply bound_none_later; eauto).
  subst o'. fold o in Hov. unfold offer_valid in Hov. rewrite Ebts, Hdyn, Ereq in Hov.
  (* the suggestion is eligible: it is tried first *)
  assert (Hux : to_uip (c_db c) (Some x) = Some x).
  { unfold to_uip. destruct (cs_dyn c Hcs Hdyn) as [A B]. unfold in_dyn in Hind. replace ((x <? net_from (c_db c)) || (net_to (c_db c) <? x)) with false by lia. reflexivity. }
  rewrite Hux in Hov.
  assert (Hnone : find_live ts (KIp x) t 0 = None).
  { eapply (snap_taken_complete prev tqp t ts x (rc_prev _ _ _ _ _ _ X)); [pose proof (rc_now _ _ _ _ _ _ X); lia|].
    unfold snap_taken in *. apply not_true_iff_false. intros Hex. apply not_true_iff_false in Hnt. apply Hnt.
    apply existsb_exists in Hex as (s & Hs & Hc). apply existsb_exists. exists s. split; [exact Hs|].
    apply andb_true_iff in Hc as [Hc1 Hc2]. rewrite Hc1. cbn [andb]. destruct (sn_perm s); [reflexivity|]. cbn [orb] in *. lia. }
  assert (Hfree : probe_free (r_arp r) (d_chaddr m) x = true).
  { destruct (probe_free (r_arp r) (d_chaddr m) x) eqn:E; [reflexivity|]. rewrite (not_free_foreign r (d_chaddr m) x E) in Hnf. discriminate. }
  unfold t_eligible in Hov. rewrite Hnone, Hind, Hv, Hfree in Hov. cbn [is_none andb] in Hov. apply N.eqb_eq in Hov. exact Hov.
Qed.

(* ---------- C05 on the wire ---------- *)
Lemma scan_with_and Q1 Q2 : forall h prev, scan_with (fun p r => Q1 p r && Q2 p r) prev h = scan_with Q1 prev h && scan_with Q2 prev h.
Proof.
  induction h as [|r h IH]; intros prev; [reflexivity|]. cbn [scan_with]. rewrite IH.
  destruct (Q1 prev r), (Q2 prev r), (scan_with Q1 _ h), (scan_with Q2 _ h); reflexivity.
Qed.

Lemma scan_with_const (Q : round -> bool) : forall h prev, scan_with (fun _ r => Q r) prev h = forallb Q h.
Proof. induction h as [|r h IH]; intros prev; [reflexivity|]. cbn [scan_with forallb]. rewrite IH. reflexivity. Qed.

Theorem accepted_history_c05 c h : cfg_wire_ok c -> cfg_srv_ok c -> cfg_lease_ok c -> durations_ok c -> Forall wf_round h -> snap_times 0%Z h ->
  accepted c h -> mon_C05 c h = true.
Proof.
  intros Hcw Hcs Hcl Hdur Hw Hs Ha. pose proof (snap_times_seq h _ Hs) as Hseq. unfold mon_C05.
  rewrite (accepted_history_c05_scan c h Hcw Hcs Hdur Hw Hseq Ha), (accepted_history_c05_hold c h Hcw Hcs Hdur Hw Hseq Ha). cbn [andb].
  apply accepted_acc_run in Ha.
  assert (Hgen : forall Q, (forall prev tqp t r t', round_ctx c prev tqp t r t' -> Q prev r = true) ->
                 scan_with Q (snap_of 0%Z (initial_table c)) h = true).
  { intros Q HQ. eapply (accepted_history_snap_rounds c Q Hdur); eauto; [apply initial_snap_is|apply initial_TInv; exact Hcs]. }
  rewrite <- (scan_with_const ack_reserved h (snap_of 0%Z (initial_table c))), c05_silence_scan_with, c05_monotone_scan_with,
    (c05_suggest_scan_with c h 0%Z _ Hs).
  rewrite (Hgen (fun _ r => ack_reserved r)), (Hgen (c05_silence_round c)), (Hgen c05_mono_round), (Hgen (c05_suggest_round c)); [reflexivity| | | |].
  - intros; eapply accepted_round_c05_suggest; eauto.
  - intros; eapply accepted_round_c05_mono; eauto.
  - intros; eapply accepted_round_c05_silence; eauto.
  - intros; eapply accepted_round_ack_reserved; eauto.
Qed.

(* ---------- C08 on the wire ---------- *)
Definition c08_round (c : scfg) (prev : list snap_entry) (r : round) : bool :=
  match parse_in (r_pkt r) with
  | Some i =>
    let m := pi_msg i in let o := pi_opt i in
    let duid := get_duid c (d_chaddr m) (o_cid o) in
    let bound := snap_bound prev (r_t r) duid in
    forallb (fun f => match parse_out f with
      | Some p =>
        let y := d_yiaddr (po_msg p) in
        (if (typ p =? 2) && is_none bound then negb (foreign_answer r (d_chaddr m) y) else true) &&
        (if typ p =? 5 then negb (foreign_answer r (d_chaddr m) y) else true) &&
        (if (typ p =? 6) && (o_msgtype o =? 3) then
           let desig := match o_reqip o with Some a => a | None => pi_src i end in
           negb (opt_eqb bound (Some desig)) || foreign_answer r (d_chaddr m) desig
         else true) &&
        (po_t p - r_t r <=? 50000000 + (Z.of_nat (length (dyn_addresses (c_db c))) + 2) * arp_tries * arp_timeout)%Z
      | None => false end) (r_outs r)
  | None => true end.

Lemma c08_scan_with c : forall h prev, c08_scan c prev h = scan_with (c08_round c) prev h.
Proof. induction h as [|r h IH]; intros prev; [reflexivity|]. cbn [c08_scan scan_with]. rewrite IH. reflexivity. Qed.

Lemma find_resp_nodup l : NoDup (map ar_ip l) -> forall a, In a l -> find_resp (ar_ip a) l = Some a.
Proof.
  induction l as [|b l IH]; intros Hnd a Hin; [destruct Hin|]. cbn [map] in Hnd. inversion Hnd; subst. cbn [find_resp].
  destruct Hin as [->|Hin]; [rewrite N.eqb_refl; reflexivity|].
  destruct (ar_ip b =? ar_ip a) eqn:E; [|apply IH; assumption]. exfalso. apply N.eqb_eq in E. apply H1. rewrite E. apply in_map. exact Hin.
Qed.

Lemma free_not_foreign r mac x : NoDup (map ar_ip (r_arp r)) -> probe_free (r_arp r) mac x = true -> foreign_answer r mac x = false.
Proof.
  intros Hnd Hf. apply not_true_iff_false. intros Hex. unfold foreign_answer in Hex. apply existsb_exists in Hex as (a & Hin & Hc).
  rewrite !andb_true_iff in Hc. destruct Hc as ((Hi & Hm) & Hd). apply N.eqb_eq in Hi. subst x.
  unfold probe_free, probe_outcome in Hf. rewrite (find_resp_nodup _ Hnd a Hin), Hd in Hf. cbn [fst] in Hf. apply negb_true_iff in Hm. congruence.
Qed.

Lemma opt_eqb_neq a v : a <> Some v -> opt_eqb a (Some v) = false.
Proof. destruct a as [x|]; cbn; [|reflexivity]. intros H. apply N.eqb_neq. intros ->. apply H. reflexivity. Qed.

Lemma deadline_clause c r f : (of_t f <= reply_deadline c r)%Z ->
  (of_t f - r_t r <=? 50000000 + (Z.of_nat (length (dyn_addresses (c_db c))) + 2) * arp_tries * arp_timeout)%Z = true.
Proof. unfold reply_deadline. intros H. apply Z.leb_le. lia. Qed.

Lemma accepted_round_c08 c prev tqp t r t' : cfg_wire_ok c -> round_ctx c prev tqp t r t' -> c08_round c prev r = true.
Proof.
  intros Hcw X. unfold c08_round.
  destruct (parse_in (r_pkt r)) as [i|] eqn:Epi; [|reflexivity].
  unfold parse_in in Epi. destruct (decode_chain (r_pkt r)) as [[[src dst] m]|] eqn:Hdc; [|discriminate]. injection Epi as <-.
  cbn [pi_msg pi_opt pi_dst pi_src] in *. set (o := decode_options (d_options m)) in *.
  change (get_duid c (d_chaddr m) (o_cid o)) with (rc_duid c m).
  destruct (rc_inv _ _ _ _ _ _ X) as [[U S] _].
  rewrite (snap_bound_eq prev tqp t (r_t r) (rc_duid c m) (rc_prev _ _ _ _ _ _ X) U (rc_now _ _ _ _ _ _ X)).
  pose proof (rc_wf _ _ _ _ _ _ X) as Hw. pose proof (rc_arp _ _ _ _ _ _ X) as Hnd.
  destruct (accepted_round_cases c t r t' (rc_acc _ _ _ _ _ _ X)) as [Hcase _].
  destruct Hcase as [Hdc' Ho ?|? ? ? Hdc' Hk' Ho ?|? ? ? Hdc' Hk' Hdrop Ho ?|? ? ? ts Hdc' o' Hk' ? Hs' Hts Hov Ho ?|src' dst' m' ts y f Hdc' o' tl Hk' Hd' Hs' Ho Hy Hfr Ht Hdl Hts Hle Hov Hh
                    |src' dst' m' Hdc' o' Hk' Hsil Ho ?|src' dst' m' des f Hdc' o' Hk' Hcl' Hmr' Hb' Ho Hfr Ht Hdl ?
                    |src' dst' m' des f Hdc' o' Hk' Hcl' Hmr' Hb' Hh' Hp' Ho Hfr Ht Hdl|src' dst' m' des f t1 Hdc' o' Hk' Hcl' Hmr' Hb' Hh' Hp' Ho Hfr Ht Hdl Hu'];
    rewrite Hdc in Hdc'; try discriminate Hdc'; injection Hdc' as <- <- <-; rewrite Ho; try reflexivity; cbn [forallb]; rewrite andb_true_r.
  - (* OFFER *)
    pose proof (hold_to_uip _ _ _ _ _ _ _ Hh) as Eu. destruct (to_uip_bound _ _ _ Eu) as [_ Hbd].
    assert (Hyb : y < 4294967296) by (destruct Hcw as (_ & Hc2 & _); lia).
    destruct (lease_frame_view c (r_pkt r) src dst m f 2 y Hcw Hw Hdc Hyb (or_introl eq_refl) Hfr) as (p & Hpo & Hty & Hyi & Hpt & _).
    rewrite Hpo, Hty, Hyi, Hpt. cbn [N.eqb Pos.eqb andb]. rewrite (deadline_clause c r f Hdl), andb_true_r.
    destruct (bound_ip (r_t r) (rc_duid c m) t) as [a|] eqn:Eb; [reflexivity|]. cbn [is_none]. rewrite !andb_true_r.
    apply negb_true_iff. apply free_not_foreign; [exact Hnd|].
    assert (Ebts : bound_ip ts (rc_duid c m) t = None) by (eapply bound_none_later; [|exact Eb]; destruct Hts; subst; lia).
    unfold offer_valid in Hov. fold o in Hov. rewrite Ebts in Hov. destruct (dynamic_disabled (c_db c)); [discriminate|].
    match type of Hov with (if ?sf then _ else _) = true => destruct sf eqn:Es end.
    + apply N.eqb_eq in Hov. subst y. rewrite !andb_true_iff in Es. destruct Es as (_ & Hel). unfold t_eligible in Hel. rewrite !andb_true_iff in Hel. tauto.
    + rewrite !andb_true_iff in Hov. destruct Hov as (_ & Hel). unfold t_eligible in Hel. rewrite !andb_true_iff in Hel. tauto.
  - (* NAK: not bound to the designated address *)
    fold o in Hcl'. destruct (classify_some c dst src o des Hcl') as (-> & _ & _).
    destruct (nak_frame_view c (r_pkt r) src dst m f Hcw Hw Hdc Hfr) as (p & Hpo & Hty & Hpt).
    rewrite Hpo, Hty, Hpt. cbn [N.eqb Pos.eqb andb]. rewrite (deadline_clause c r f Hdl), andb_true_r.
    destruct (o_msgtype o =? 3); [|reflexivity]. fold (desig_of src o). rewrite (opt_eqb_neq _ _ Hb'). reflexivity.
  - (* NAK: a foreign host answered *)
    fold o in Hcl'. destruct (classify_some c dst src o des Hcl') as (-> & _ & _).
    destruct (nak_frame_view c (r_pkt r) src dst m f Hcw Hw Hdc Hfr) as (p & Hpo & Hty & Hpt).
    rewrite Hpo, Hty, Hpt. cbn [N.eqb Pos.eqb andb]. rewrite (deadline_clause c r f Hdl), andb_true_r.
    destruct (o_msgtype o =? 3); [|reflexivity]. fold (desig_of src o). rewrite (not_free_foreign r (d_chaddr m) _ Hp'). apply orb_true_r.
  - (* ACK: nobody else answered *)
    pose proof (in_managed_to_uip _ _ Hmr') as Eu. destruct (to_uip_bound _ _ _ Eu) as [_ Hbd].
    assert (Hyb : des < 4294967296) by (destruct Hcw as (_ & Hc2 & _); lia).
    destruct (lease_frame_view c (r_pkt r) src dst m f 5 des Hcw Hw Hdc Hyb (or_intror eq_refl) Hfr) as (p & Hpo & Hty & Hyi & Hpt & _).
    rewrite Hpo, Hty, Hyi, Hpt. cbn [N.eqb Pos.eqb andb]. rewrite (deadline_clause c r f Hdl), !andb_true_r.
    apply negb_true_iff. apply free_not_foreign; assumption.
Qed.

Theorem accepted_history_c08 c h : cfg_wire_ok c -> cfg_srv_ok c -> durations_ok c -> Forall wf_round h -> snap_times 0%Z h -> accepted c h ->
  mon_C08 c h = true.
Proof.
  intros Hcw Hcs Hdur Hw Hs Ha. apply accepted_acc_run in Ha. unfold mon_C08. rewrite c08_scan_with.
  eapply (accepted_history_snap_rounds c (c08_round c) Hdur); eauto; [|apply initial_snap_is|apply initial_TInv; exact Hcs].
  intros prev tqp t r t' X. eapply accepted_round_c08; eauto.
Qed.

(* ---------- C07 (server-history part) on the wire ---------- *)
Definition cfg_c07_ok (c : scfg) : Prop :=
  forall mac, o_lease (decode_options (opts_for c mac)) = Z.to_N (c_lease c / 1000000000) /\ o_mask (decode_options (opts_for c mac)) <> None.

Lemma dopts_eqb_eq a : forall b, dopts_eqb a b = true <-> a = b.
Proof.
  induction a as [|[c1 d1] a IH]; intros [|[c2 d2] b]; cbn [dopts_eqb]; split; try discriminate; try reflexivity.
  - rewrite !andb_true_iff. intros ((H1 & H2) & H3). apply N.eqb_eq in H1. apply bytes_eqb_eq in H2. apply IH in H3. subst. reflexivity.
  - intros H. injection H as -> -> ->. rewrite N.eqb_refl, beqb_refl. cbn. apply IH. reflexivity.
Qed.

Lemma o_mask_reply ty s os : o_mask (decode_options ((53, [ty]) :: (54, put32 s) :: os)) = o_mask (decode_options os).
Proof. rewrite !decode_options_typed. unfold typed_view. cbn [o_mask]. rewrite !last_opt_skip by reflexivity. reflexivity. Qed.

Definition ev_shape (c : scfg) (e : lev) : bool :=
  match le_opts e with
  | (53, [_]) :: (54, s) :: tl => bytes_eqb s (put32 (c_self_ip c)) && dopts_eqb tl (opts_for c (le_mac e))
  | _ => false
  end.

Lemma accepted_history_ev_shape c h : cfg_wire_ok c -> cfg_srv_ok c -> Forall wf_round h -> seq_times 0%Z h -> accepted c h ->
  forallb (ev_shape c) (events c h) = true.
Proof.
  intros Hcw Hcs Hw Hs Ha. apply accepted_acc_run in Ha. unfold events. rewrite forallb_flat_map.
  eapply (accepted_history_rounds c (fun r => forallb (ev_shape c) (round_events c r))); eauto; [|apply initial_WInv; exact Hcs].
  intros now t r t' Hinv Hnow Hwr Har.
  destruct (accepted_round_event c now t r t' Hcw Hwr Hinv Hnow Har) as [->|(src & dst & m & f & ty & y & _ & _ & _ & _ & Hty & -> & _)]; [reflexivity|].
  cbn [forallb]. rewrite andb_true_r. unfold ev_shape, lease_event. cbn [le_opts le_mac]. rewrite beqb_refl. apply dopts_eqb_eq. reflexivity.
Qed.

Theorem accepted_history_c07 c h : cfg_wire_ok c -> cfg_srv_ok c -> cfg_lease_ok c -> cfg_c07_ok c -> durations_ok c -> Forall wf_round h ->
  snap_times 0%Z h -> accepted c h -> mon_C07 c h = true.
Proof.
  intros Hcw Hcs Hcl Hc7 Hdur Hw Hs Ha. pose proof (snap_times_seq h _ Hs) as Hseq.
  pose proof (accepted_history_ev_shape c h Hcw Hcs Hw Hseq Ha) as Hsh. rewrite forallb_forall in Hsh.
  assert (Hev : forall e, In e (events c h) -> exists ty, le_opts e = (53, [ty]) :: (54, put32 (c_self_ip c)) :: opts_for c (le_mac e)).
  { intros e He. specialize (Hsh e He). unfold ev_shape in Hsh. destruct (le_opts e) as [|[c1 d1] [|[c2 d2] tl]]; try discriminate.
    - destruct c1 as [|p1]; try discriminate. repeat (destruct p1 as [p1|p1|]; try discriminate). destruct d1 as [|? [|? ?]]; discriminate.
    - destruct c1 as [|p1]; try discriminate. repeat (destruct p1 as [p1|p1|]; try discriminate). destruct d1 as [|ty [|? ?]]; try discriminate.
      destruct c2 as [|p2]; try discriminate. repeat (destruct p2 as [p2|p2|]; try discriminate).
      apply andb_true_iff in Hsh as [H1 H2]. apply bytes_eqb_eq in H1. apply dopts_eqb_eq in H2. subst. exists ty. reflexivity. }
  unfold mon_C07. apply andb_true_iff. split; [apply andb_true_iff; split|].
  - (* reserved as long as advertised *)
    apply accepted_acc_run in Ha.
    rewrite <- (scan_with_const ack_reserved h (snap_of 0%Z (initial_table c))).
    eapply (accepted_history_snap_rounds c (fun _ r => ack_reserved r) Hdur); eauto; [|apply initial_snap_is|apply initial_TInv; exact Hcs].
    intros; eapply accepted_round_ack_reserved; eauto.
  - apply forallb_forall. intros e He. destruct (Hev e He) as [ty Ho]. rewrite Ho. unfold opts_tail. cbn [skipn]. apply dopts_eqb_eq. reflexivity.
  - apply forallb_forall. intros e He. destruct (Hev e He) as [ty Ho]. rewrite Ho, o_lease_reply, o_mask_reply.
    destruct (Hc7 (le_mac e)) as [H1 H2]. rewrite H1, N.eqb_refl. cbn [andb].
    destruct (o_mask (decode_options (opts_for c (le_mac e)))) as [mk|]; [|exfalso; apply H2; reflexivity]. cbn [is_none negb andb].
    apply forallb_forall. intros e2 He2. destruct (Hev e2 He2) as [ty2 Ho2].
    destruct (bytes_eqb (le_mac e2) (le_mac e)) eqn:Em; [|reflexivity]. cbn [negb orb]. apply bytes_eqb_eq in Em.
    rewrite Ho2. unfold opts_tail. cbn [skipn]. rewrite Em. apply dopts_eqb_eq. reflexivity.
Qed.
