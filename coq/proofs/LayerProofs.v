From PSA Require Import gen.GoFacts model.Bytes model.Checksum model.Layer spec.SpecCodec proofs.ChecksumProofs.
From Coq Require Import ZifyN ZifyNat ZifyBool.
Ltac Zify.zify_post_hook ::= Z.div_mod_to_equations.
Open Scope N_scope.

Definition wf_ipv4 (h : ipv4) : bool :=
  (ip_id h <? 65536) && (ip_flags h <? 65536) && (ip_ttl h <? 256) && (ip_proto h <? 256) &&
  (ip_src h <? 4294967296) && (ip_dst h <? 4294967296) && wf_bytes (ip_data h) && (len (ip_data h) <=? 65515).

Lemma len_app a b : len (a ++ b) = len a + len b.
Proof. unfold len. rewrite app_length. lia. Qed.

Lemma len_cons x b : len (x :: b) = 1 + len b.
Proof. unfold len. cbn [length]. lia. Qed.

Lemma idx_ok b i : i < len b -> idx b i = Ok (nth (N.to_nat i) b 0).
Proof.
  unfold idx, len. intros H.
  destruct (nth_error b (N.to_nat i)) eqn:E.
  - f_equal. symmetry. apply nth_error_nth. exact E.
  - apply nth_error_None in E. lia.
Qed.

Lemma idx_panic_iff b i : idx b i = Panic <-> len b <= i.
Proof.
  unfold idx, len. destruct (nth_error b (N.to_nat i)) eqn:E.
  - split; [discriminate|]. intros H. assert (nth_error b (N.to_nat i) <> None) by congruence.
    apply nth_error_Some in H0. lia.
  - apply nth_error_None in E. split; [lia|reflexivity].
Qed.

(* the explicit 20-byte header written by IPv4.Assemble before checksumming *)
Definition hdr10 (tl id fl ttl pr : N) : bytes :=
  [69; 0; tl / 256 mod 256; tl mod 256; id / 256 mod 256; id mod 256; fl / 256 mod 256; fl mod 256; ttl; pr].

Lemma wf_hdr10 tl id fl ttl pr : ttl < 256 -> pr < 256 -> wf_bytes (hdr10 tl id fl ttl pr) = true.
Proof.
  intros. unfold hdr10, wf_bytes, wf_byte. cbn [forallb]. rewrite !andb_true_iff, !N.ltb_lt. lia.
Qed.

Lemma ones_sum_le_len b : wf_bytes b = true -> ones_sum b <= 65535 * (len b).
Proof. intros H. pose proof (ones_sum_bound b H). lia. Qed.

Lemma sum_words_eq b acc : wf_bytes b = true -> acc + 65535 * ((len b + 1) / 2) < 4294967296 ->
  sum_words b acc = acc + ones_sum b.
Proof. intros Hwf Hb. apply sum_words_nowrap; [assumption|]. pose proof (ones_sum_bound b Hwf). lia. Qed.

Lemma rfc1071_ok_iff b : rfc1071_ok b = true <-> 0 < ones_sum b /\ ones_sum b mod 65535 = 0.
Proof. unfold rfc1071_ok. rewrite andb_true_iff, N.ltb_lt, N.eqb_eq. tauto. Qed.

(* IP header checksum: any 10-byte prefix (even), 8-byte address block *)
Lemma hdr_checksum_verifies (pre ad : bytes) :
  length pre = 10%nat -> length ad = 8%nat -> wf_bytes pre = true -> wf_bytes ad = true ->
  let c := ipv4csum (pre ++ [0; 0] ++ ad) 0 in
  c < 65536 /\ rfc1071_ok (pre ++ put16 c ++ ad) = true.
Proof.
  intros Hp Ha Wp Wa c.
  assert (Wall : wf_bytes (pre ++ [0; 0] ++ ad) = true).
  { apply wf_bytes_app; split; [assumption|]. apply wf_bytes_app; split; [reflexivity|assumption]. }
  assert (Hlen : len (pre ++ [0; 0] ++ ad) = 20).
  { unfold len. rewrite !app_length, Hp, Ha. reflexivity. }
  assert (Hs : sum_words (pre ++ [0; 0] ++ ad) 0 = 0 + ones_sum (pre ++ [0; 0] ++ ad)).
  { apply sum_words_eq; [assumption|]. rewrite Hlen. reflexivity. }
  pose proof (ones_sum_le_len _ Wall) as Hb. rewrite Hlen in Hb.
  assert (He : Nat.even (length pre) = true) by (rewrite Hp; reflexivity).
  pose proof (csum_insert_verifies pre ad 0 He) as Hins. cbv zeta in Hins.
  unfold c, ipv4csum. rewrite Hs.
  destruct Hins as (Hc & Hpos & Hmod); [lia|].
  split; [exact Hc|]. apply rfc1071_ok_iff. split; [exact Hpos|exact Hmod].
Qed.

Ltac destruct_len l H :=
  repeat (destruct l as [|? l]; [try discriminate H|cbn [length] in H; try (apply eq_add_S in H)]); try discriminate H.

Lemma set_v4_checksum_std (pre' ad data : bytes) :
  length pre' = 9%nat -> length ad = 8%nat ->
  let pre := 69 :: pre' in
  let c := ipv4csum (pre ++ [0; 0] ++ ad) 0 in
  let b1 := pre ++ put16 c ++ ad ++ data in
  set_v4_checksum (pre ++ [0; 0] ++ ad ++ data) =
    if (nth 9 pre 0 =? 17) && (28 <=? len b1)
    then (do uc <- udp4csum 20 b1; Ok (overwrite b1 26 (put16 uc)))
    else Ok b1.
Proof.
  intros Hp Ha pre c b1.
  destruct pre' as [|x1 [|x2 [|x3 [|x4 [|x5 [|x6 [|x7 [|x8 [|x9 [|? ?]]]]]]]]]]; try discriminate Hp.
  destruct ad as [|y1 [|y2 [|y3 [|y4 [|y5 [|y6 [|y7 [|y8 [|? ?]]]]]]]]]; try discriminate Ha.
  subst pre. unfold set_v4_checksum. cbn [app].
  change (69 / 16 =? 4) with true. cbn [negb].
  change (u8 (69 mod 16 * 4)) with 20.
  change (20 <? 20) with false. cbn [orb].
  repeat match goal with |- context [len (69 :: ?l)] =>
    replace (len (69 :: l)) with (20 + len data) by (rewrite !len_cons; lia) end.
  replace (20 + len data <? 20) with false by lia.
  unfold slice.
  repeat match goal with |- context [len (69 :: ?l)] =>
    replace (len (69 :: l)) with (20 + len data) by (rewrite !len_cons; lia) end.
  replace ((0 <=? 20) && (20 <=? 20 + len data)) with true by lia.
  change (N.to_nat (20 - 0)) with 20%nat. change (N.to_nat 0) with 0%nat.
  cbn [skipn firstn bind].
  fold c. unfold put16 at 1. cbn [overwrite].
  unfold idx. change (N.to_nat 9) with 9%nat. cbn [nth_error bind nth].
  change (N.to_nat (20 + 6)) with 26%nat. change (20 + 8) with 28.
  subst b1. unfold put16 at 2 4 5. cbn [app]. reflexivity.
Qed.

Definition addr_block (src dst : N) : bytes := put32 src ++ put32 dst.

Lemma ipv4_assemble_unfold h :
  ipv4_assemble h =
  set_v4_checksum ((69 :: tl (hdr10 (u16 (20 + len (ip_data h))) (ip_id h) (ip_flags h) (ip_ttl h) (ip_proto h)))
                   ++ [0; 0] ++ addr_block (ip_src h) (ip_dst h) ++ ip_data h).
Proof. reflexivity. Qed.

Lemma ones_sum_put32 v : v < 4294967296 -> ones_sum (put32 v) = v / 65536 + v mod 65536.
Proof. intros. unfold put32. cbn [ones_sum]. unfold be16. lia. Qed.

Lemma udp4csum_bytes (pre seg : bytes) (s0 s1 s2 s3 d0 d1 d2 d3 : N) :
  length pre = 12%nat -> nth 9 pre 0 = 17 -> len seg < 65536 ->
  s0 < 256 -> s1 < 256 -> s2 < 256 -> s3 < 256 -> d0 < 256 -> d1 < 256 -> d2 < 256 -> d3 < 256 ->
  udp4csum 20 (pre ++ [s0; s1; s2; s3; d0; d1; d2; d3] ++ seg) =
  Ok (ipv4csum seg (ones_sum ([s0; s1; s2; s3] ++ [d0; d1; d2; d3] ++ [0; 17] ++ put16 (len seg)))).
Proof.
  intros Hp H9 Hl ? ? ? ? ? ? ? ?.
  destruct pre as [|x0 [|x1 [|x2 [|x3 [|x4 [|x5 [|x6 [|x7 [|x8 [|x9 [|x10 [|x11 [|? ?]]]]]]]]]]]]]; try discriminate Hp.
  cbn [nth] in H9. subst x9.
  unfold udp4csum, pseudohdrcsum, idx. cbn [app].
  change (N.to_nat 9) with 9%nat. change (N.to_nat 12) with 12%nat. change (N.to_nat 13) with 13%nat.
  change (N.to_nat 14) with 14%nat. change (N.to_nat 15) with 15%nat. change (N.to_nat 16) with 16%nat.
  change (N.to_nat 17) with 17%nat. change (N.to_nat 18) with 18%nat. change (N.to_nat 19) with 19%nat.
  cbn [nth_error bind].
  unfold slice_from.
  match goal with |- context [len (?a :: ?l)] =>
    replace (len (a :: l)) with (20 + len seg) by (rewrite !len_cons; lia) end.
  replace (20 <=? 20 + len seg) with true by lia.
  change (N.to_nat 20) with 20%nat. cbn [skipn bind].
  f_equal. f_equal.
  replace (20 + len seg - 20) with (len seg) by lia.
  cbn [ones_sum]. rewrite ones_sum_put16 by assumption. unfold be16, u32.
  rewrite (N.mod_small (len seg) 4294967296) by lia.
  rewrite (N.mod_small (len seg) 65536) by lia.
  rewrite (N.div_small (len seg) 65536) by lia.
  rewrite !N.mod_small; lia.
Qed.

Lemma wf_ipv4_unpack h : wf_ipv4 h = true ->
  ip_id h < 65536 /\ ip_flags h < 65536 /\ ip_ttl h < 256 /\ ip_proto h < 256 /\
  ip_src h < 4294967296 /\ ip_dst h < 4294967296 /\ wf_bytes (ip_data h) = true /\ len (ip_data h) <= 65515.
Proof. unfold wf_ipv4. rewrite !andb_true_iff, !N.ltb_lt, N.leb_le. tauto. Qed.

Lemma wf_addr_block s d : wf_bytes (addr_block s d) = true.
Proof. unfold addr_block. apply wf_bytes_app; split; apply wf_put32. Qed.

Lemma overwrite_app_r (a b src : bytes) : overwrite (a ++ b) (length a) src = a ++ overwrite b 0 src.
Proof. induction a as [|x a IH]; [reflexivity|]. cbn [app length overwrite]. rewrite IH. reflexivity. Qed.

Lemma overwrite_2 (x y : N) r c1 c2 : overwrite (x :: y :: r) 0 [c1; c2] = c1 :: c2 :: r.
Proof. cbn [overwrite]. destruct r; reflexivity. Qed.

Lemma firstn_app_exact {A} (a b : list A) n : length a = n -> firstn n (a ++ b) = a.
Proof. intros <-. rewrite firstn_app, Nat.sub_diag, firstn_all. cbn. apply app_nil_r. Qed.

Lemma skipn_app_exact {A} (a b : list A) n : length a = n -> skipn n (a ++ b) = b.
Proof. intros <-. rewrite skipn_app, Nat.sub_diag, skipn_all. reflexivity. Qed.

Section Assemble.
  Variable h : ipv4.
  Hypothesis Hwf : wf_ipv4 h = true.

  Let tlen := u16 (20 + len (ip_data h)).
  Let pre := 69 :: tl (hdr10 tlen (ip_id h) (ip_flags h) (ip_ttl h) (ip_proto h)).
  Let ad := addr_block (ip_src h) (ip_dst h).
  Let c := ipv4csum (pre ++ [0; 0] ++ ad) 0.
  Let hdr := pre ++ put16 c ++ ad.

  Lemma asm_tlen : tlen = 20 + len (ip_data h).
  Proof. apply wf_ipv4_unpack in Hwf. unfold tlen, u16. rewrite N.mod_small; lia. Qed.

  Lemma asm_pre_hdr10 : pre = hdr10 tlen (ip_id h) (ip_flags h) (ip_ttl h) (ip_proto h).
  Proof. reflexivity. Qed.

  Lemma asm_hdr_len : length hdr = 20%nat.
  Proof. reflexivity. Qed.

  Lemma asm_hdr_ok : c < 65536 /\ rfc1071_ok hdr = true.
  Proof.
    apply wf_ipv4_unpack in Hwf. apply hdr_checksum_verifies; try reflexivity.
    - rewrite asm_pre_hdr10. apply wf_hdr10; lia.
    - apply wf_addr_block.
  Qed.

  Lemma asm_eq :
    ipv4_assemble h =
      if (ip_proto h =? 17) && (28 <=? len (hdr ++ ip_data h))
      then (do uc <- udp4csum 20 (hdr ++ ip_data h); Ok (overwrite (hdr ++ ip_data h) 26 (put16 uc)))
      else Ok (hdr ++ ip_data h).
  Proof.
    rewrite ipv4_assemble_unfold.
    pose proof (set_v4_checksum_std (tl (hdr10 tlen (ip_id h) (ip_flags h) (ip_ttl h) (ip_proto h))) ad (ip_data h) eq_refl eq_refl) as E.
    cbv zeta in E. fold pre in E. fold c in E.
    unfold hdr. rewrite <- !app_assoc. exact E.
  Qed.
End Assemble.

Theorem ipv4_assemble_valid h : wf_ipv4 h = true ->
  exists p, ipv4_assemble h = Ok p /\ len p = 20 + len (ip_data h) /\ ipv4_hdr_ok p = true.
Proof.
  intros Hwf. rewrite (asm_eq h).
  set (hdr := (69 :: tl (hdr10 _ _ _ _ _)) ++ put16 _ ++ addr_block _ _).
  destruct (asm_hdr_ok h Hwf) as (Hc & Hok). fold hdr in Hok.
  assert (Hhl : length hdr = 20%nat) by reflexivity.
  assert (Hok' : forall rest, length rest = length (ip_data h) -> ipv4_hdr_ok (hdr ++ rest) = true).
  { intros rest Hr. unfold ipv4_hdr_ok. rewrite firstn_app_exact by assumption. rewrite Hok.
    rewrite len_app. unfold len at 1. rewrite Hhl. unfold len. rewrite Hr. fold (len (ip_data h)).
    unfold hdr, nth0. cbn [app nth tl hdr10]. rewrite (asm_tlen h Hwf).
    rewrite put16_be16 by (apply wf_ipv4_unpack in Hwf; lia).
    rewrite !N.eqb_refl. reflexivity. }
  destruct ((ip_proto h =? 17) && (28 <=? len (hdr ++ ip_data h))) eqn:Hcond.
  - apply andb_true_iff in Hcond as [Hp Hl]. apply N.eqb_eq in Hp. apply N.leb_le in Hl.
    rewrite len_app in Hl. unfold len at 1 in Hl. rewrite Hhl in Hl.
    unfold udp4csum.
    assert (Hph : exists v, pseudohdrcsum (hdr ++ ip_data h) = Ok v).
    { unfold pseudohdrcsum, idx, hdr. cbn [app tl hdr10].
      change (N.to_nat 9) with 9%nat. change (N.to_nat 12) with 12%nat. change (N.to_nat 13) with 13%nat.
      change (N.to_nat 14) with 14%nat. change (N.to_nat 15) with 15%nat. change (N.to_nat 16) with 16%nat.
      change (N.to_nat 17) with 17%nat. change (N.to_nat 18) with 18%nat. change (N.to_nat 19) with 19%nat.
      unfold put16, addr_block, put32. cbn [app nth_error bind]. eexists; reflexivity. }
    destruct Hph as [v Hv]. rewrite Hv. cbn [bind].
    unfold slice_from. rewrite len_app. unfold len at 1. rewrite Hhl.
    replace (20 <=? N.of_nat 20 + len (ip_data h)) with true by lia. cbn [bind].
    eexists. split; [reflexivity|].
    assert (Hd : exists d0 d1 d2 d3 d4 d5 d6 d7 rest, ip_data h = d0 :: d1 :: d2 :: d3 :: d4 :: d5 :: d6 :: d7 :: rest).
    { unfold len in Hl. destruct (ip_data h) as [|d0 [|d1 [|d2 [|d3 [|d4 [|d5 [|d6 [|d7 rest]]]]]]]]; cbn [length] in Hl; try lia.
      repeat eexists. }
    destruct Hd as (d0&d1&d2&d3&d4&d5&d6&d7&rest&Hd). rewrite Hd.
    change 26%nat with (length hdr + 6)%nat.
    replace (hdr ++ d0 :: d1 :: d2 :: d3 :: d4 :: d5 :: d6 :: d7 :: rest)
      with ((hdr ++ [d0; d1; d2; d3; d4; d5]) ++ d6 :: d7 :: rest) by (rewrite <- app_assoc; reflexivity).
    replace (length hdr + 6)%nat with (length (hdr ++ [d0; d1; d2; d3; d4; d5])) by (rewrite app_length; reflexivity).
    rewrite !overwrite_app_r. unfold put16. rewrite !overwrite_2. rewrite <- !app_assoc. cbn [app].
    split.
    + rewrite len_app. unfold len at 1. rewrite Hhl. rewrite !len_cons. lia.
    + apply Hok'. rewrite Hd. cbn [length]. reflexivity.
  - eexists. split; [reflexivity|]. split.
    + rewrite len_app. unfold len at 1. rewrite Hhl. lia.
    + apply Hok'. reflexivity.
Qed.

Definition wf_udp (u : udp) : bool :=
  (udp_sport u <? 65536) && (udp_dport u <? 65536) && wf_bytes (udp_data u) && (len (udp_data u) <=? 65507).

Lemma udp_assemble_shape u :
  udp_assemble u = (put16 (udp_sport u) ++ put16 (udp_dport u) ++ put16 (u16 (8 + len (udp_data u)))) ++ [0; 0] ++ udp_data u.
Proof. unfold udp_assemble. rewrite <- !app_assoc. reflexivity. Qed.

Lemma len_udp_assemble u : len (udp_assemble u) = 8 + len (udp_data u).
Proof. unfold udp_assemble. rewrite !len_app. unfold len, put16. cbn [length]. lia. Qed.

Theorem ipv4_udp_assemble_valid h u :
  wf_ipv4 h = true -> wf_udp u = true -> ip_proto h = 17 -> ip_data h = udp_assemble u ->
  exists p c, ipv4_assemble h = Ok p /\ c < 65536 /\
    skipn 20 p = (put16 (udp_sport u) ++ put16 (udp_dport u) ++ put16 (8 + len (udp_data u))) ++ put16 c ++ udp_data u /\
    udp_ok (ip_src h) (ip_dst h) (skipn 20 p) = true.
Proof.
  intros Hwf Hwu Hp Hd.
  pose proof (wf_ipv4_unpack h Hwf) as (Hid & Hfl & Httl & Hpr & Hs & Hdst & Hwd & Hl).
  unfold wf_udp in Hwu. rewrite !andb_true_iff, !N.ltb_lt, N.leb_le in Hwu. destruct Hwu as (((Hsp & Hdp) & Hwp) & Hlp).
  rewrite (asm_eq h).
  set (pre := 69 :: tl (hdr10 _ _ _ _ _)).
  set (c0 := ipv4csum _ 0).
  assert (Hlen_d : len (ip_data h) = 8 + len (udp_data u)) by (rewrite Hd; apply len_udp_assemble).
  rewrite len_app. change (len (pre ++ put16 c0 ++ addr_block (ip_src h) (ip_dst h))) with 20.
  rewrite Hp. change (17 =? 17) with true. replace (28 <=? 20 + len (ip_data h)) with true by lia. cbn [andb].
  set (seg := ip_data h) in *.
  replace ((pre ++ put16 c0 ++ addr_block (ip_src h) (ip_dst h)) ++ seg)
    with ((pre ++ put16 c0) ++ [ip_src h / 16777216 mod 256; ip_src h / 65536 mod 256; ip_src h / 256 mod 256; ip_src h mod 256;
                               ip_dst h / 16777216 mod 256; ip_dst h / 65536 mod 256; ip_dst h / 256 mod 256; ip_dst h mod 256] ++ seg)
    by (rewrite <- !app_assoc; reflexivity).
  rewrite udp4csum_bytes; try lia; [|reflexivity|unfold pre; cbn [tl hdr10 app nth]; exact Hp].
  cbn [bind].
  set (ext := ones_sum _).
  set (uc := ipv4csum seg ext).
  assert (Hext : ext = ones_sum (pseudo (ip_src h) (ip_dst h) 17 (len seg))) by reflexivity.
  set (u6 := put16 (udp_sport u) ++ put16 (udp_dport u) ++ put16 (u16 (8 + len (udp_data u)))).
  assert (Hseg : seg = u6 ++ [0; 0] ++ udp_data u) by (rewrite Hd; apply udp_assemble_shape).
  assert (Hu16 : u16 (8 + len (udp_data u)) = 8 + len (udp_data u)) by (unfold u16; rewrite N.mod_small; lia).
  assert (Hwseg : wf_bytes seg = true) by exact Hwd.
  assert (Hextb : ext <= 65535 * 6).
  { rewrite Hext. pose proof (ones_sum_bound (pseudo (ip_src h) (ip_dst h) 17 (len seg))) as B.
    change (len (pseudo (ip_src h) (ip_dst h) 17 (len seg))) with 12 in B.
    change ((12 + 1) / 2) with 6 in B. apply B.
    unfold pseudo. rewrite !wf_bytes_app. repeat split; try apply wf_put32; try apply wf_put16. }
  pose proof (ones_sum_bound seg Hwseg) as Hsb.
  assert (Hsw : sum_words seg ext = ext + ones_sum seg).
  { apply sum_words_nowrap; [assumption|]. lia. }
  pose proof (csum_insert_verifies u6 (udp_data u) ext eq_refl) as Hins. cbv zeta in Hins.
  rewrite <- Hseg in Hins. rewrite <- Hsw in Hins. fold (ipv4csum seg ext) in Hins. fold uc in Hins.
  destruct Hins as (Hc & Hpos & Hmod); [rewrite Hsw; lia|].
  set (adl := [ip_src h / 16777216 mod 256; ip_src h / 65536 mod 256; ip_src h / 256 mod 256; ip_src h mod 256;
                               ip_dst h / 16777216 mod 256; ip_dst h / 65536 mod 256; ip_dst h / 256 mod 256; ip_dst h mod 256]) in *.
  set (hdr20 := pre ++ put16 c0 ++ adl).
  replace ((pre ++ put16 c0) ++ adl ++ seg) with (hdr20 ++ seg) by (unfold hdr20; rewrite <- !app_assoc; reflexivity).
  exists (overwrite (hdr20 ++ seg) 26 (put16 uc)), uc.
  split; [reflexivity|]. split; [exact Hc|].
  assert (Hres : skipn 20 (overwrite (hdr20 ++ seg) 26 (put16 uc)) = u6 ++ put16 uc ++ udp_data u).
  { rewrite Hseg.
    replace (hdr20 ++ u6 ++ [0; 0] ++ udp_data u) with ((hdr20 ++ u6) ++ 0 :: 0 :: udp_data u) by (rewrite <- app_assoc; reflexivity).
    change 26%nat with (length (hdr20 ++ u6)). rewrite overwrite_app_r. unfold put16 at 1. rewrite overwrite_2.
    rewrite <- app_assoc. rewrite skipn_app_exact by reflexivity. reflexivity. }
  rewrite Hres. split.
  - unfold u6. rewrite Hu16. rewrite <- !app_assoc. reflexivity.
  - unfold udp_ok. apply orb_true_iff. right. apply rfc1071_ok_iff.
    assert (Hl2 : len (u6 ++ put16 uc ++ udp_data u) = len seg).
    { rewrite Hseg. rewrite !len_app. reflexivity. }
    rewrite Hl2. rewrite ones_sum_app by reflexivity. rewrite <- Hext. split; assumption.
Qed.

(* ---------- decoders: no panic, strictness, round trips ---------- *)

Ltac idx_simpl :=
  repeat match goal with
  | |- context [idx ?b ?i] => rewrite (idx_ok b i) by lia; cbn [bind]
  end.

Lemma decode_ipv4_no_panic b : decode_ipv4 b <> Panic.
Proof.
  unfold decode_ipv4, ipv4_hlen, gf_layer_ipv4Hlen, get16, get32, u8.
  destruct (len b <? 20) eqn:E1; [discriminate|].
  idx_simpl.
  match goal with |- context [if ?c then Err else _] => destruct c eqn:E2 end; [discriminate|].
  idx_simpl.
  match goal with |- context [if ?c then Err else _] => destruct c eqn:E3 end; [discriminate|].
  idx_simpl.
  unfold slice.
  match goal with |- context [if ?c then Ok _ else Panic] => replace c with true by lia end.
  cbn [bind]. discriminate.
Qed.

Lemma decode_ipv4_strict b p : decode_ipv4 b = Ok p ->
  let ihl := nth 0 b 0 mod 16 * 4 in
  nth 0 b 0 / 16 = 4 /\ 20 <= ihl <= len b /\ be16 (nth 2 b 0) (nth 3 b 0) = len b /\ ip_data p = skipn (N.to_nat ihl) b.
Proof.
  unfold decode_ipv4, ipv4_hlen, gf_layer_ipv4Hlen, get16, get32, u8.
  destruct (len b <? 20) eqn:E1; [discriminate|].
  idx_simpl.
  match goal with |- context [if ?c then Err else _] => destruct c eqn:E2 end; [discriminate|].
  idx_simpl.
  match goal with |- context [if ?c then Err else _] => destruct c eqn:E3 end; [discriminate|].
  idx_simpl.
  unfold slice.
  match goal with |- context [if ?c then Ok _ else Panic] => replace c with true by lia end.
  cbn [bind]. intros H. injection H as <-. cbn [ip_data].
  change (N.to_nat 0) with 0%nat in *. change (N.to_nat 2) with 2%nat in *. change (N.to_nat (2 + 1)) with 3%nat in *.
  assert (Hm : (nth 0 b 0 mod 16 * 4) mod 256 = nth 0 b 0 mod 16 * 4) by lia.
  rewrite Hm in *.
  split; [lia|]. split; [lia|]. split; [lia|].
  apply firstn_all2. rewrite skipn_length. unfold len in *. change (Pos.to_nat 2) with 2%nat in *. change (Pos.to_nat 3) with 3%nat in *. lia.
Qed.

Lemma decode_udp_no_panic b : decode_udp b <> Panic.
Proof.
  unfold decode_udp, udp_hlen, gf_layer_udpHlen, get16.
  destruct (len b <? 8) eqn:E1; [discriminate|].
  idx_simpl.
  match goal with |- context [if ?c then Err else _] => destruct c eqn:E2 end; [discriminate|].
  idx_simpl. unfold slice_from. replace (8 <=? len b) with true by lia. discriminate.
Qed.

Lemma decode_udp_strict b u : decode_udp b = Ok u ->
  8 <= len b /\ be16 (nth 4 b 0) (nth 5 b 0) = len b /\ udp_data u = skipn 8 b /\
  udp_sport u = be16 (nth 0 b 0) (nth 1 b 0) /\ udp_dport u = be16 (nth 2 b 0) (nth 3 b 0).
Proof.
  unfold decode_udp, udp_hlen, gf_layer_udpHlen, get16.
  destruct (len b <? 8) eqn:E1; [discriminate|].
  idx_simpl.
  match goal with |- context [if ?c then Err else _] => destruct c eqn:E2 end; [discriminate|].
  idx_simpl. unfold slice_from. replace (8 <=? len b) with true by lia. cbn [bind].
  intros H. injection H as <-. cbn [udp_data udp_sport udp_dport].
  change (N.to_nat 4) with 4%nat in *. change (N.to_nat (4 + 1)) with 5%nat in *.
  repeat split; try reflexivity; lia.
Qed.

Lemma decode_arp_no_panic b : decode_arp b <> Panic.
Proof.
  unfold decode_arp, get32, slice.
  destruct (len b =? 28) eqn:E1; cbn [negb]; [|discriminate].
  apply N.eqb_eq in E1. idx_simpl. rewrite E1. cbn [N.leb andb bind]. 
  change ((8 <=? 14) && (14 <=? 28)) with true. change ((18 <=? 24) && (24 <=? 28)) with true.
  cbn [bind]. idx_simpl. discriminate.
Qed.

Lemma decode_arp_strict b a : decode_arp b = Ok a -> len b = 28.
Proof.
  unfold decode_arp. destruct (len b =? 28) eqn:E1; cbn [negb]; [|discriminate]. intros _. apply N.eqb_eq. exact E1.
Qed.

Lemma decode_udp_assemble u : wf_udp u = true -> decode_udp (udp_assemble u) = Ok u.
Proof.
  intros Hw. unfold wf_udp in Hw. rewrite !andb_true_iff, !N.ltb_lt, N.leb_le in Hw. destruct Hw as (((Hsp & Hdp) & Hwp) & Hlp).
  unfold decode_udp, udp_hlen, gf_layer_udpHlen. rewrite len_udp_assemble.
  replace (8 + len (udp_data u) <? 8) with false by lia.
  unfold get16, idx, udp_assemble, put16. cbn [app].
  change (N.to_nat 4) with 4%nat. change (N.to_nat (4 + 1)) with 5%nat. change (N.to_nat 0) with 0%nat.
  change (N.to_nat (0 + 1)) with 1%nat. change (N.to_nat 2) with 2%nat. change (N.to_nat (2 + 1)) with 3%nat.
  cbn [nth_error bind].
  rewrite !put16_be16 by (unfold u16; lia).
  unfold u16. rewrite (N.mod_small (udp_hlen + len (udp_data u))) by (unfold udp_hlen, gf_layer_udpHlen; lia).
  unfold udp_hlen, gf_layer_udpHlen. rewrite N.eqb_refl. cbn [negb].
  unfold slice_from. rewrite !len_cons. replace (8 <=? _) with true by lia.
  change (N.to_nat 8) with 8%nat. cbn [skipn bind]. destruct u; reflexivity.
Qed.

Definition wf_arp (a : arp) : bool :=
  (length (arp_smac a) =? 6)%nat && (length (arp_tmac a) =? 6)%nat && wf_bytes (arp_smac a) && wf_bytes (arp_tmac a)
  && (arp_sip a <? 4294967296) && (arp_tip a <? 4294967296) && (arp_op a <? 256).

Lemma put32_be32 v : v < 4294967296 ->
  be32 (v / 16777216 mod 256) (v / 65536 mod 256) (v / 256 mod 256) (v mod 256) = v.
Proof. unfold be32. lia. Qed.

Lemma decode_arp_assemble a : wf_arp a = true -> decode_arp (arp_assemble a) = Ok a.
Proof.
  unfold wf_arp. rewrite !andb_true_iff, !N.ltb_lt, !Nat.eqb_eq. intros ((((((Hs & Ht) & _) & _) & Hsi) & Hti) & Hop).
  destruct a as [sm sip tm tip op]. cbn [arp_smac arp_tmac arp_sip arp_tip arp_op] in *.
  destruct sm as [|s0 [|s1 [|s2 [|s3 [|s4 [|s5 [|? ?]]]]]]]; try discriminate Hs.
  destruct tm as [|t0 [|t1 [|t2 [|t3 [|t4 [|t5 [|? ?]]]]]]]; try discriminate Ht.
  unfold arp_assemble, decode_arp. cbn [arp_smac arp_tmac arp_sip arp_tip arp_op zeros repeat app overwrite put32].
  unfold len. cbn [length]. change (N.of_nat 28 =? 28) with true. cbn [negb].
  unfold get32, idx, slice, len. cbn [length].
  change (N.to_nat 7) with 7%nat. change (N.to_nat 14) with 14%nat. change (N.to_nat (14 + 1)) with 15%nat.
  change (N.to_nat (14 + 2)) with 16%nat. change (N.to_nat (14 + 3)) with 17%nat.
  change (N.to_nat 24) with 24%nat. change (N.to_nat (24 + 1)) with 25%nat.
  change (N.to_nat (24 + 2)) with 26%nat. change (N.to_nat (24 + 3)) with 27%nat.
  change ((8 <=? 14) && (14 <=? N.of_nat 28)) with true. change ((18 <=? 24) && (24 <=? N.of_nat 28)) with true.
  change (N.to_nat (14 - 8)) with 6%nat. change (N.to_nat 8) with 8%nat.
  change (N.to_nat (24 - 18)) with 6%nat. change (N.to_nat 18) with 18%nat.
  cbn [nth_error bind skipn firstn].
  rewrite !put32_be32 by assumption. reflexivity.
Qed.

Definition asm_pre (h : ipv4) : bytes :=
  69 :: tl (hdr10 (u16 (20 + len (ip_data h))) (ip_id h) (ip_flags h) (ip_ttl h) (ip_proto h)).
Definition asm_c (h : ipv4) : N := ipv4csum (asm_pre h ++ [0; 0] ++ addr_block (ip_src h) (ip_dst h)) 0.
Definition asm_hdr (h : ipv4) : bytes := asm_pre h ++ put16 (asm_c h) ++ addr_block (ip_src h) (ip_dst h).

Lemma asm_eq' h :
  ipv4_assemble h =
    if (ip_proto h =? 17) && (28 <=? len (asm_hdr h ++ ip_data h))
    then (do uc <- udp4csum 20 (asm_hdr h ++ ip_data h); Ok (overwrite (asm_hdr h ++ ip_data h) 26 (put16 uc)))
    else Ok (asm_hdr h ++ ip_data h).
Proof. exact (asm_eq h). Qed.

Lemma asm_hdr_ok' h : wf_ipv4 h = true -> asm_c h < 65536 /\ rfc1071_ok (asm_hdr h) = true.
Proof. exact (asm_hdr_ok h). Qed.

Lemma asm_shape h : wf_ipv4 h = true ->
  exists rest, ipv4_assemble h = Ok (asm_hdr h ++ rest) /\ length rest = length (ip_data h) /\
               (ip_proto h <> 17 \/ len (ip_data h) < 8 -> rest = ip_data h).
Proof.
  intros Hwf. rewrite (asm_eq' h).
  assert (Hhl : length (asm_hdr h) = 20%nat) by reflexivity.
  destruct ((ip_proto h =? 17) && (28 <=? len (asm_hdr h ++ ip_data h))) eqn:Hcond.
  - apply andb_true_iff in Hcond as [Hp Hl]. apply N.eqb_eq in Hp. apply N.leb_le in Hl.
    rewrite len_app in Hl. unfold len at 1 in Hl. rewrite Hhl in Hl.
    destruct (ipv4_assemble_valid h Hwf) as (p & Hp1 & Hp2 & _).
    rewrite (asm_eq' h) in Hp1.
    rewrite Hp in Hp1. change (17 =? 17) with true in Hp1.
    replace (28 <=? len (asm_hdr h ++ ip_data h)) with true in Hp1 by (rewrite len_app; unfold len at 1; rewrite Hhl; lia).
    cbn [andb] in Hp1.
    destruct (udp4csum 20 (asm_hdr h ++ ip_data h)) as [uc| |] eqn:Eu; try discriminate Hp1.
    cbn [bind] in *.
    assert (Hd : exists d0 d1 d2 d3 d4 d5 d6 d7 rest, ip_data h = d0 :: d1 :: d2 :: d3 :: d4 :: d5 :: d6 :: d7 :: rest).
    { unfold len in Hl. destruct (ip_data h) as [|d0 [|d1 [|d2 [|d3 [|d4 [|d5 [|d6 [|d7 rest]]]]]]]]; cbn [length] in Hl; try lia.
      repeat eexists. }
    destruct Hd as (d0&d1&d2&d3&d4&d5&d6&d7&rest&Hd). rewrite Hd.
    change 26%nat with (length (asm_hdr h ++ [d0; d1; d2; d3; d4; d5])).
    replace (asm_hdr h ++ d0 :: d1 :: d2 :: d3 :: d4 :: d5 :: d6 :: d7 :: rest)
      with ((asm_hdr h ++ [d0; d1; d2; d3; d4; d5]) ++ d6 :: d7 :: rest) by (rewrite <- app_assoc; reflexivity).
    rewrite overwrite_app_r. unfold put16 at 1. rewrite overwrite_2. rewrite <- app_assoc. cbn [app].
    eexists. split; [reflexivity|]. split; [reflexivity|].
    intros [Hn|Hn]; [congruence|]. rewrite !len_cons in Hn. lia.
  - exists (ip_data h). split; [reflexivity|]. split; [reflexivity|]. reflexivity.
Qed.

Lemma decode_ipv4_asm h rest : wf_ipv4 h = true -> length rest = length (ip_data h) ->
  decode_ipv4 (asm_hdr h ++ rest) =
    Ok {| ip_id := ip_id h; ip_flags := ip_flags h; ip_ttl := ip_ttl h; ip_proto := ip_proto h;
          ip_csum := asm_c h; ip_src := ip_src h; ip_dst := ip_dst h; ip_data := rest |}.
Proof.
  intros Hwf Hr.
  pose proof (wf_ipv4_unpack h Hwf) as (Hid & Hfl & Httl & Hpr & Hs & Hdst & Hwd & Hl).
  destruct (asm_hdr_ok' h Hwf) as (Hc & _).
  assert (Hlen : len (asm_hdr h ++ rest) = 20 + len (ip_data h)).
  { rewrite len_app. unfold len. rewrite Hr. reflexivity. }
  unfold decode_ipv4, ipv4_hlen, gf_layer_ipv4Hlen. rewrite Hlen.
  replace (20 + len (ip_data h) <? 20) with false by lia.
  unfold get16, get32, idx, asm_hdr, asm_pre, addr_block, put32, put16. cbn [tl hdr10 app].
  change (N.to_nat 0) with 0%nat. cbn [nth_error bind].
  change (69 / 16) with 4. change (u8 (69 mod 16 * 4)) with 20.
  change (negb (4 =? 4)) with false. change (20 <? 20) with false.
  replace (20 + len (ip_data h) <? 20) with false by lia. cbn [orb].
  change (N.to_nat 2) with 2%nat. change (N.to_nat (2 + 1)) with 3%nat.
  change (N.to_nat 4) with 4%nat. change (N.to_nat (4 + 1)) with 5%nat.
  change (N.to_nat 6) with 6%nat. change (N.to_nat (6 + 1)) with 7%nat.
  change (N.to_nat 8) with 8%nat. change (N.to_nat 9) with 9%nat.
  change (N.to_nat 10) with 10%nat. change (N.to_nat (10 + 1)) with 11%nat.
  change (N.to_nat 12) with 12%nat. change (N.to_nat (12 + 1)) with 13%nat.
  change (N.to_nat (12 + 2)) with 14%nat. change (N.to_nat (12 + 3)) with 15%nat.
  change (N.to_nat 16) with 16%nat. change (N.to_nat (16 + 1)) with 17%nat.
  change (N.to_nat (16 + 2)) with 18%nat. change (N.to_nat (16 + 3)) with 19%nat.
  cbn [nth_error bind].
  rewrite !put16_be16 by (unfold u16; lia). rewrite !put32_be32 by assumption.
  unfold u16. rewrite (N.mod_small (20 + len (ip_data h))) by lia.
  rewrite N.eqb_refl. cbn [negb].
  unfold slice.
  match goal with |- context [len ?l] => replace (len l) with (20 + len (ip_data h)) by (rewrite !len_cons; unfold len; rewrite Hr; lia) end.
  replace ((20 <=? 20 + len (ip_data h)) && (20 + len (ip_data h) <=? 20 + len (ip_data h))) with true by lia.
  change (N.to_nat 20) with 20%nat. cbn [skipn bind].
  replace (N.to_nat (20 + len (ip_data h) - 20)) with (length rest) by (unfold len; lia).
  rewrite firstn_all. reflexivity.
Qed.

Theorem decode_ipv4_assemble h p : wf_ipv4 h = true -> ipv4_assemble h = Ok p ->
  exists rest, decode_ipv4 p =
    Ok {| ip_id := ip_id h; ip_flags := ip_flags h; ip_ttl := ip_ttl h; ip_proto := ip_proto h;
          ip_csum := asm_c h; ip_src := ip_src h; ip_dst := ip_dst h; ip_data := rest |}
    /\ length rest = length (ip_data h)
    /\ (ip_proto h <> 17 \/ len (ip_data h) < 8 -> rest = ip_data h).
Proof.
  intros Hwf Hp. destruct (asm_shape h Hwf) as (rest & Ha & Hl & Hr).
  rewrite Ha in Hp. injection Hp as <-. exists rest. split; [|split; assumption].
  apply decode_ipv4_asm; assumption.
Qed.

Lemma decode_udp_shape sp dp data c : sp < 65536 -> dp < 65536 -> len data <= 65507 ->
  decode_udp ((put16 sp ++ put16 dp ++ put16 (8 + len data)) ++ put16 c ++ data) =
  Ok {| udp_sport := sp; udp_dport := dp; udp_data := data |}.
Proof.
  intros Hsp Hdp Hl.
  assert (Hlen : len ((put16 sp ++ put16 dp ++ put16 (8 + len data)) ++ put16 c ++ data) = 8 + len data).
  { rewrite !len_app. unfold len, put16. cbn [length]. lia. }
  unfold decode_udp, udp_hlen, gf_layer_udpHlen. rewrite Hlen.
  replace (8 + len data <? 8) with false by lia.
  unfold get16, idx, put16. cbn [app].
  change (N.to_nat 4) with 4%nat. change (N.to_nat (4 + 1)) with 5%nat. change (N.to_nat 0) with 0%nat.
  change (N.to_nat (0 + 1)) with 1%nat. change (N.to_nat 2) with 2%nat. change (N.to_nat (2 + 1)) with 3%nat.
  cbn [nth_error bind].
  rewrite !put16_be16 by lia. rewrite N.eqb_refl. cbn [negb].
  unfold slice_from. rewrite !len_cons. replace (8 <=? _) with true by lia.
  change (N.to_nat 8) with 8%nat. cbn [skipn bind]. reflexivity.
Qed.

(* UDP inside IPv4: the datagram that comes out decodes back to the ports and payload *)
Theorem decode_udp_in_ipv4 h u p : wf_ipv4 h = true -> wf_udp u = true -> ip_proto h = 17 ->
  ip_data h = udp_assemble u -> ipv4_assemble h = Ok p ->
  exists q, decode_ipv4 p = Ok q /\ ip_src q = ip_src h /\ ip_dst q = ip_dst h /\ ip_proto q = 17 /\ ip_ttl q = ip_ttl h /\
            decode_udp (ip_data q) = Ok u.
Proof.
  intros Hwf Hwu Hp Hd Ha.
  destruct (ipv4_udp_assemble_valid h u Hwf Hwu Hp Hd) as (p' & c & Ha' & Hc & Hsk & _).
  rewrite Ha in Ha'. injection Ha' as <-.
  destruct (decode_ipv4_assemble h p Hwf Ha) as (rest & Hdec & Hlen & _).
  destruct (asm_shape h Hwf) as (rest' & Ha2 & _ & _). rewrite Ha in Ha2. injection Ha2 as Hpe.
  eexists. split; [exact Hdec|]. cbn [ip_src ip_dst ip_proto ip_ttl ip_data]. repeat split; try assumption.
  assert (Hrest : rest = skipn 20 p).
  { pose proof (decode_ipv4_strict p _ Hdec) as (_ & _ & _ & Hdata). cbn [ip_data] in Hdata.
    rewrite Hpe in Hdata. unfold asm_hdr, asm_pre in Hdata. cbn [tl hdr10 app nth] in Hdata.
    change (N.to_nat (69 mod 16 * 4)) with 20%nat in Hdata. rewrite Hpe. exact Hdata. }
  rewrite Hrest, Hsk.
  unfold wf_udp in Hwu. rewrite !andb_true_iff, !N.ltb_lt, N.leb_le in Hwu. destruct Hwu as (((Hsp & Hdp) & Hwp) & Hlp).
  rewrite decode_udp_shape by assumption. destruct u; reflexivity.
Qed.
