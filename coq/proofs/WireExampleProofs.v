(* the recorded history of spec/WireExample.v meets every premise of the wire-level theorems and is accepted *)
From PSA Require Import model.Bytes model.Server spec.Monitors spec.WireHyps model.Dispatch spec.WireExample
  proofs.WireProofs proofs.WireInv proofs.WireHypsProofs.
Open Scope N_scope.

Lemma all_zero_accepted c h : forallb (N.eqb 0) (accept_history c (initial_table c) h) = true -> accepted c h.
Proof.
  unfold accepted. intros H. apply Forall_forall. intros x Hx. rewrite forallb_forall in H. specialize (H x Hx).
  apply N.eqb_eq in H. symmetry. exact H.
Qed.

Theorem wire_example_premises : exists c h, wire_example = Some (c, h) /\
  cfg_wire_ok c /\ cfg_srv_ok c /\ Forall wf_round h /\ seq_times 0%Z h /\ (0 <= hold_ns <= c_lease c)%Z /\ (0 <= req_hold_ns <= c_lease c)%Z /\
  accepted c h /\ length h = 6%nat /\ length (events c h) = 2%nat /\ length (flat_map r_outs h) = 3%nat.
Proof.
  assert (H : wire_example_ok = true) by (vm_compute; reflexivity).
  unfold wire_example_ok in H. destruct wire_example as [[c h]|]; [|discriminate]. exists c, h. split; [reflexivity|].
  rewrite !Bool.andb_true_iff in H. destruct H as ((((Hh & Ha) & Hl) & He) & Ho).
  destruct (wire_hyps_sound c h Hh) as (A & B & C & D & E & F).
  split; [exact A|]. split; [exact B|]. split; [exact C|]. split; [exact D|]. split; [exact E|]. split; [exact F|].
  split; [apply all_zero_accepted; exact Ha|]. split; [apply Nat.eqb_eq; exact Hl|]. split; apply Nat.eqb_eq; assumption.
Qed.

Theorem wire_example_full : exists c h, wire_example = Some (c, h) /\ wire_premises c h /\ accepted c h /\
  length h = 6%nat /\ length (events c h) = 2%nat /\ length (flat_map r_outs h) = 3%nat.
Proof.
  assert (H : wire_example_ok = true) by (vm_compute; reflexivity).
  unfold wire_example_ok in H. destruct wire_example as [[c h]|]; [|discriminate]. exists c, h. split; [reflexivity|].
  rewrite !Bool.andb_true_iff in H. destruct H as ((((Hh & Ha) & Hl) & He) & Ho).
  split; [apply wire_hyps_premises; exact Hh|]. split; [apply all_zero_accepted; exact Ha|].
  split; [apply Nat.eqb_eq; exact Hl|]. split; apply Nat.eqb_eq; assumption.
Qed.
