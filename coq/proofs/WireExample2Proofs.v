(* the second recorded history (spec/WireExample2.v: two clients, one address, exclusivity decided by time) meets every premise of
   the wire-level theorems and is accepted *)
From PSA Require Import model.Bytes model.Server spec.Monitors spec.WireHyps model.Dispatch spec.WireExample2
  proofs.WireProofs proofs.WireInv proofs.WireHypsProofs proofs.WireExampleProofs.
Open Scope N_scope.

Theorem wire_example2_full : exists c h, wire_example2 = Some (c, h) /\ wire_premises c h /\ accepted c h /\
  length h = 7%nat /\ length (events c h) = 4%nat /\ distinct_pids (events c h) = 2%nat /\ length (flat_map r_outs h) = 6%nat.
Proof.
  assert (H : wire_example2_ok = true) by (vm_compute; reflexivity).
  unfold wire_example2_ok in H. destruct wire_example2 as [[c h]|]; [|discriminate]. exists c, h. split; [reflexivity|].
  rewrite !Bool.andb_true_iff in H. destruct H as (((((Hh & Ha) & Hl) & He) & Hd) & Ho).
  split; [apply wire_hyps_premises; exact Hh|]. split; [apply all_zero_accepted; exact Ha|].
  split; [apply Nat.eqb_eq; exact Hl|]. split; [apply Nat.eqb_eq; exact He|]. split; apply Nat.eqb_eq; assumption.
Qed.
