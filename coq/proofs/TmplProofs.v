(* Proofs for the message-format half of C16: every message the client templates produce is well-formed for its kind. *)
From PSA Require Import gen.GoFacts model.Bytes model.Checksum model.Layer model.Dhcp spec.SpecCodec spec.SpecClient model.Tmpl
  proofs.ChecksumProofs proofs.LayerProofs proofs.DhcpProofs proofs.ClientRxProofs.
From Coq Require Import ZifyN ZifyNat ZifyBool.
Ltac Zify.zify_post_hook ::= Z.div_mod_to_equations.
Open Scope N_scope.

Lemma bytes_eqb_refl a : bytes_eqb a a = true.
Proof. induction a as [|x a IH]; [reflexivity|]. cbn [bytes_eqb]. rewrite N.eqb_refl. exact IH. Qed.

Lemma wf_zeros n : wf_bytes (zeros n) = true.
Proof. induction n; [reflexivity|]. cbn. exact IHn. Qed.

Lemma wf_firstn n b : wf_bytes b = true -> wf_bytes (firstn n b) = true.
Proof.
  revert b. induction n as [|n IH]; intros b H; [reflexivity|]. destruct b as [|x b]; [reflexivity|].
  apply wf_bytes_cons in H. destruct H as [Hx Hb]. cbn [firstn]. apply wf_bytes_cons. split; [exact Hx|apply IH; exact Hb].
Qed.

Lemma wf_pad_to n b : wf_bytes b = true -> wf_bytes (pad_to n b) = true.
Proof. intros H. unfold pad_to. apply wf_firstn. apply wf_bytes_app. split; [exact H|apply wf_zeros]. Qed.

(* ---------- Assemble produces bytes, and how many ---------- *)

Ltac wf_split := repeat (apply wf_bytes_app; split).

Definition wf_payloads (os : list dhcp_opt) : bool := forallb (fun o => wf_bytes (snd o)) os.

Lemma wf_enc_opts os : forallb wf_opt os = true -> wf_payloads os = true -> wf_bytes (flat_map enc_opt os) = true.
Proof.
  induction os as [|[c x] os IH]; intros Hw Hp; [reflexivity|].
  cbn [forallb wf_payloads] in Hw, Hp. apply andb_true_iff in Hw. destruct Hw as [Hc Hw]. apply andb_true_iff in Hp. destruct Hp as [Hx Hp].
  cbn [flat_map enc_opt fst snd]. unfold wf_opt in Hc. cbn [fst snd] in Hc, Hx.
  change (c :: u8 (len x) :: x ++ flat_map enc_opt os) with ([c; u8 (len x)] ++ x ++ flat_map enc_opt os).
  apply (proj2 (wf_bytes_app [c; u8 (len x)] (x ++ flat_map enc_opt os))).
  split; [|apply (proj2 (wf_bytes_app x (flat_map enc_opt os))); split; [exact Hx|apply IH; assumption]].
  unfold wf_bytes, wf_byte, u8. cbn [forallb]. lia.
Qed.

Lemma wf_dhcp_assemble m : wf_msg m = true -> wf_bytes (d_chaddr m) = true -> wf_bytes (d_sname m) = true -> wf_bytes (d_file m) = true ->
  wf_payloads (d_options m) = true -> wf_bytes (dhcp_assemble m) = true.
Proof.
  intros Hw Hc Hs Hf Hp. unfold wf_msg in Hw. rewrite !andb_true_iff in Hw.
  destruct Hw as (((((((((((((((H1 & H2) & H3) & H4) & H5) & H6) & H7) & H8) & H9) & H10) & H11) & H12) & H13) & H14) & H15) & H16).
  unfold dhcp_assemble. wf_split; try apply wf_put32; try apply wf_put16; try (apply wf_pad_to; assumption).
  - unfold wf_bytes, wf_byte, u8. cbn [forallb]. lia.
  - apply wf_enc_opts; assumption.
  - destruct (d_options m); reflexivity.
Qed.

Lemma length_dhcp_assemble m :
  length (dhcp_assemble m) = (240 + length (flat_map enc_opt (d_options m)) + match d_options m with [] => 0 | _ => 1 end)%nat.
Proof.
  unfold dhcp_assemble. rewrite !app_length, !length_pad_to. unfold put32, put16. cbn [length].
  destruct (d_options m); cbn [length]; lia.
Qed.

Lemma wf_udp_assemble u : wf_bytes (udp_data u) = true -> wf_bytes (udp_assemble u) = true.
Proof.
  intros H. unfold udp_assemble. wf_split; try apply wf_put16; [reflexivity|exact H].
Qed.

(* ---------- the client identifier ---------- *)

Lemma length_client_identifier iaid hw : length (client_identifier iaid hw) = 15%nat.
Proof. unfold client_identifier. rewrite !app_length, length_pad_to. reflexivity. Qed.

Lemma wf_client_identifier iaid hw : wf_bytes hw = true -> wf_bytes (client_identifier iaid hw) = true.
Proof.
  intros H. unfold client_identifier. wf_split; try reflexivity; [apply wf_put32|apply wf_pad_to; exact H].
Qed.

Lemma crc32_bound b : crc32_ieee b < 4294967296.
Proof. unfold crc32_ieee, u32. lia. Qed.

(* ---------- the request message ---------- *)

Definition args_ok (xid ipid iaid : N) (hw : bytes) (leased server : N) : Prop :=
  wf_bytes hw = true /\ len hw <= 16 /\ xid < 4294967296 /\ ipid < 65536 /\ iaid < 4294967296 /\
  leased < 4294967296 /\ server < 4294967296.

Ltac unfold_gf :=
  unfold gf_dhcpmsg_OptMessageType, gf_dhcpmsg_OptClientIdentifier, gf_dhcpmsg_OptMaxMessageSize, gf_dhcpmsg_OptParametersList,
    gf_dhcpmsg_OptRequestedIP, gf_dhcpmsg_OptServerIdentifier, gf_dhcpmsg_MsgTypeDiscover, gf_dhcpmsg_MsgTypeRequest,
    gf_dhcpmsg_OpRequest, gf_dhcpmsg_HtypeETHER, gf_dhcpmsg_DHCPCookie, gf_max_msg_size, gf_param_list,
    gf_client_sport, gf_client_dport, gf_client_ttl, gf_layer_ProtoUDP in *.

Lemma length_req_options k iaid hw leased server :
  length (flat_map enc_opt (req_options k iaid hw leased server)) = match k with RSelecting => 47%nat | _ => 35%nat end.
Proof.
  unfold req_options. rewrite flat_map_app. rewrite app_length.
  cbn [flat_map]. unfold enc_opt. cbn [fst snd]. rewrite !app_length. cbn [length]. rewrite length_client_identifier.
  unfold_gf. destruct k; cbn [flat_map fst snd put16 put32 app length]; lia.
Qed.

Lemma wf_req_msg k xid ipid iaid hw leased server : args_ok xid ipid iaid hw leased server ->
  wf_msg (req_msg k xid iaid hw leased server) = true.
Proof.
  intros (Hw & Hl & Hx & Hi & Ha & Hle & Hs).
  unfold wf_msg, req_msg. cbn [d_op d_htype d_hops d_xid d_secs d_flags d_ciaddr d_yiaddr d_siaddr d_giaddr d_cookie d_chaddr d_sname d_file d_options].
  assert (Hsrc : req_src k leased < 4294967296) by (destruct k; cbn [req_src]; lia).
  assert (Ho : forallb wf_opt (req_options k iaid hw leased server) = true).
  { unfold req_options. rewrite forallb_app. unfold wf_opt. cbn [forallb fst snd].
    unfold len. rewrite length_client_identifier. unfold_gf. destruct k; reflexivity. }
  rewrite Ho. unfold_gf.
  replace (xid <? 4294967296) with true by lia. replace (req_src k leased <? 4294967296) with true by lia.
  replace (len hw <=? 16) with true by lia.
  destruct k; reflexivity.
Qed.

Lemma wf_req_payloads k iaid hw leased server : wf_bytes hw = true -> wf_payloads (req_options k iaid hw leased server) = true.
Proof.
  intros Hw. unfold wf_payloads, req_options. rewrite forallb_app. cbn [forallb fst snd].
  rewrite (wf_client_identifier iaid hw Hw). rewrite wf_put16. unfold_gf.
  destruct k; cbn [forallb fst snd]; rewrite ?wf_put32; reflexivity.
Qed.

Lemma wf_req_udp k xid ipid iaid hw leased server : args_ok xid ipid iaid hw leased server ->
  wf_udp (req_udp k xid iaid hw leased server) = true.
Proof.
  intros Ha. pose proof (wf_req_msg k xid ipid iaid hw leased server Ha) as Hm. destruct Ha as (Hw & Hl & Hx & Hi & Ha & Hle & Hs).
  unfold wf_udp, req_udp. cbn [udp_sport udp_dport udp_data].
  rewrite wf_dhcp_assemble; [|exact Hm|exact Hw|apply wf_zeros|apply wf_zeros|apply wf_req_payloads; exact Hw].
  unfold len. rewrite length_dhcp_assemble. cbn [d_options req_msg]. rewrite length_req_options.
  unfold_gf. destruct k; reflexivity.
Qed.

Lemma wf_req_ip k xid ipid iaid hw leased server : args_ok xid ipid iaid hw leased server ->
  wf_ipv4 (req_ip k xid ipid iaid hw leased server) = true.
Proof.
  intros Ha. pose proof (wf_req_udp k xid ipid iaid hw leased server Ha) as Hu.
  unfold wf_udp in Hu. rewrite !andb_true_iff in Hu. destruct Hu as (((_ & _) & Hwd) & Hld).
  destruct Ha as (Hw & Hl & Hx & Hi & Ha & Hle & Hs).
  unfold wf_ipv4, req_ip. cbn [ip_id ip_flags ip_ttl ip_proto ip_src ip_dst ip_data].
  rewrite wf_udp_assemble by exact Hwd. rewrite len_udp_assemble.
  assert (Hsrc : req_src k leased < 4294967296) by (destruct k; cbn [req_src]; lia).
  assert (Hdst : req_dst k server < 4294967296) by (destruct k; cbn [req_dst]; lia).
  unfold_gf. lia.
Qed.

(* what comes out, in terms of the proved decoders *)
Theorem request_decodes k xid ipid iaid hw leased server : args_ok xid ipid iaid hw leased server ->
  exists p q,
    request k xid ipid iaid hw leased server = Ok p /\
    ipv4_hdr_ok p = true /\ udp_ok (req_src k leased) (req_dst k server) (skipn 20 p) = true /\
    decode_ipv4 p = Ok q /\ ip_src q = req_src k leased /\ ip_dst q = req_dst k server /\ ip_proto q = 17 /\ ip_ttl q = GoFacts.gf_client_ttl /\
    decode_udp (ip_data q) = Ok {| udp_sport := 68; udp_dport := 67; udp_data := dhcp_assemble (req_msg k xid iaid hw leased server) |} /\
    dhcp_decode (dhcp_assemble (req_msg k xid iaid hw leased server)) = Ok (req_msg k xid iaid hw leased server).
Proof.
  intros Ha.
  pose proof (wf_req_ip k xid ipid iaid hw leased server Ha) as Hip.
  pose proof (wf_req_udp k xid ipid iaid hw leased server Ha) as Hudp.
  pose proof (wf_req_msg k xid ipid iaid hw leased server Ha) as Hmsg.
  set (h := req_ip k xid ipid iaid hw leased server) in *. set (u := req_udp k xid iaid hw leased server) in *.
  assert (Hp17 : ip_proto h = 17) by reflexivity. assert (Hdata : ip_data h = udp_assemble u) by reflexivity.
  destruct (ipv4_udp_assemble_valid h u Hip Hudp Hp17 Hdata) as (p & c & Hasm & _ & _ & Hok).
  destruct (ipv4_assemble_valid h Hip) as (p' & Hasm' & _ & Hhdr). rewrite Hasm in Hasm'. injection Hasm' as <-.
  destruct (decode_udp_in_ipv4 h u p Hip Hudp Hp17 Hdata Hasm) as (q & Hq & Hs & Hd & Hpr & Httl & Hu).
  exists p, q. unfold request. fold h. repeat split; try assumption.
  apply dhcp_decode_assemble. exact Hmsg.
Qed.

(* ---------- ... and read off the raw bytes by the independent recogniser ---------- *)

Lemma last_opt_req k iaid hw leased server :
  let os := req_options k iaid hw leased server in
  last_opt 53 os = Some [req_msgtype k] /\ last_opt 61 os = Some (client_identifier iaid hw) /\
  last_opt 57 os = Some (put16 gf_max_msg_size) /\ last_opt 55 os = Some gf_param_list /\
  last_opt 50 os = match k with RSelecting => Some (put32 leased) | _ => None end /\
  last_opt 54 os = match k with RSelecting => Some (put32 server) | _ => None end.
Proof. unfold req_options. unfold_gf. destruct k; cbn; repeat split. Qed.

Lemma cid_wellformed_ok iaid hw : cid_wellformed hw (Some (client_identifier iaid hw)) = true.
Proof.
  unfold client_identifier, put32. cbn [app cid_wellformed]. rewrite N.eqb_refl. cbn [andb].
  apply bytes_eqb_refl.
Qed.

Lemma addr_opt_put32 v : v < 4294967296 -> addr_opt (Some (put32 v)) (fun a => a =? v) = true.
Proof. intros H. unfold put32. cbn [addr_opt]. rewrite put32_be32 by exact H. apply N.eqb_refl. Qed.

Theorem request_wellformed k xid ipid iaid hw leased server : args_ok xid ipid iaid hw leased server ->
  exists p, request k xid ipid iaid hw leased server = Ok p /\ wellformed_for k hw leased server p = true /\
            dhcp_xid (udp_payload (ip_payload p)) = xid /\ w16 p 4 = ipid.
Proof.
  intros Ha. destruct (request_decodes k xid ipid iaid hw leased server Ha) as (p & q & Hreq & Hhdr & Hudp & Hq & Hs & Hd & Hpr & Httl & Hu & Hm).
  exists p. split; [exact Hreq|].
  assert (Hid : w16 p 4 = ipid).
  { destruct (decode_ipv4_assemble _ p (wf_req_ip k xid ipid iaid hw leased server Ha) Hreq) as (rest & Hdec & _).
    rewrite decode_ipv4_raw in Hdec. destruct (ipv4_wellformed p); [|discriminate Hdec]. injection Hdec as Hdec _. exact Hdec. }
  destruct Ha as (Hw & Hl & Hx & Hi & Hia & Hle & Hsv).
  (* IPv4 *)
  rewrite decode_ipv4_raw in Hq. destruct (ipv4_wellformed p) eqn:Hwf; [|discriminate Hq]. injection Hq as Hq. subst q.
  cbn [ip_src ip_dst ip_proto ip_ttl ip_data ip_id] in *.
  (* UDP *)
  rewrite decode_udp_raw in Hu. destruct (udp_wellformed (ip_payload p)) eqn:Hwu; [|discriminate Hu]. injection Hu as Hsp Hdp Hpl.
  assert (H20 : ip_payload p = skipn 20 p).
  { unfold ipv4_hdr_ok in Hhdr. rewrite !andb_true_iff in Hhdr. destruct Hhdr as ((H69 & _) & _). apply N.eqb_eq in H69.
    abstract (unfold ip_payload, ip_ihl; rewrite H69; reflexivity). }
  (* DHCP *)
  set (m := req_msg k xid iaid hw leased server) in *. set (d := dhcp_assemble m) in *.
  pose proof (dhcp_decode_raw d) as Hraw. destruct (dhcp_wellformed d) eqn:Hwd; [|rewrite Hm in Hraw; discriminate Hraw].
  apply dhcp_decode_spec in Hm. destruct Hm as (_ & Hdec).
  pose proof (fun c => dhcp_option_decoded d m c Hdec) as Hopt.
  destruct Hdec as (Dop & Dht & _ & Dxid & _ & _ & Dci & _ & _ & _ & Dck & _ & _ & _ & Dch & _).
  destruct (last_opt_req k iaid hw leased server) as (O53 & O61 & O57 & O55 & O50 & O54).
  cbv zeta in O53, O61, O57, O55, O50, O54.
  assert (Hch : dhcp_chaddr d = hw) by abstract (exact (eq_sym Dch)).
  assert (Hh : nth0 d 2 = len hw).
  { abstract (unfold d, dhcp_assemble, nth0; cbn [app nth]; unfold u8; cbn [d_chaddr m req_msg]; lia). }
  split; [|split].
  - unfold wellformed_for. rewrite Hpl. rewrite Hhdr, Hwf, Hpr, Hwu, Hsp, Hdp, Hwd, Hs, Hd. rewrite H20. rewrite Hudp.
    rewrite !Hopt. cbn [d_options m req_msg]. rewrite O53, O61, O57, O55, O50, O54.
    rewrite cid_wellformed_ok. rewrite Hh, Hch. unfold dhcp_ciaddr. rewrite bytes_eqb_refl.
    change (nth0 d 0) with (f_op (bootp_fixed_of d)). rewrite <- Dop.
    change (nth0 d 1) with (f_htype (bootp_fixed_of d)). rewrite <- Dht.
    change (w32 d 236) with (f_cookie (bootp_fixed_of d)). rewrite <- Dck.
    change (w32 d 12) with (f_ciaddr (bootp_fixed_of d)). rewrite <- Dci.
    unfold m, req_msg. cbn [d_op d_htype d_cookie d_ciaddr].
    unfold gf_dhcpmsg_OpRequest, gf_dhcpmsg_HtypeETHER, gf_dhcpmsg_DHCPCookie, gf_max_msg_size, gf_param_list.
    rewrite !N.eqb_refl.
    destruct k; cbn [req_msgtype req_src req_dst byte_opt put16 absent andb];
      unfold gf_dhcpmsg_MsgTypeDiscover, gf_dhcpmsg_MsgTypeRequest, bcast;
      rewrite ?N.eqb_refl, ?addr_opt_put32 by assumption; reflexivity.
  - rewrite Hpl. unfold dhcp_xid. change (w32 d 4) with (f_xid (bootp_fixed_of d)). rewrite <- Dxid. reflexivity.
  - exact Hid.
Qed.

(* the message the Go code produces: the IAID is the CRC-32 of the hardware address *)
Theorem request_for_wellformed k xid ipid hw leased server :
  wf_bytes hw = true -> len hw <= 16 -> xid < 4294967296 -> ipid < 65536 -> leased < 4294967296 -> server < 4294967296 ->
  exists p, request_for k xid ipid hw leased server = Ok p /\ wellformed_for k hw leased server p = true /\
            dhcp_xid (udp_payload (ip_payload p)) = xid /\ w16 p 4 = ipid.
Proof.
  intros Hw Hl Hx Hi Hle Hs. unfold request_for. apply request_wellformed.
  exact (conj Hw (conj Hl (conj Hx (conj Hi (conj (crc32_bound hw) (conj Hle Hs)))))).
Qed.

(* the message that request_decodes speaks about, spelled out *)
Lemma req_msg_fields k xid iaid hw leased server :
  let m := req_msg k xid iaid hw leased server in
  d_op m = 1 /\ d_htype m = 1 /\ d_xid m = xid /\ d_chaddr m = hw /\ d_cookie m = 1669485411 /\
  d_ciaddr m = req_src k leased /\ d_yiaddr m = 0 /\ d_siaddr m = 0 /\ d_giaddr m = 0 /\ d_secs m = 0 /\ d_flags m = 0 /\
  d_options m =
    [(53, [match k with RDiscover => 1 | _ => 3 end]);
     (61, [255] ++ put32 iaid ++ [0; 3; 0; 1] ++ firstn 6 (hw ++ repeat 0 6));
     (57, put16 gf_max_msg_size); (55, gf_param_list)]
    ++ match k with RSelecting => [(50, put32 leased); (54, put32 server)] | _ => [] end.
Proof. destruct k; repeat split. Qed.

Lemma req_addressing leased server :
  (req_src RDiscover leased, req_dst RDiscover server) = (0, 4294967295) /\
  (req_src RSelecting leased, req_dst RSelecting server) = (0, 4294967295) /\
  (req_src RRenewing leased, req_dst RRenewing server) = (leased, server) /\
  (req_src RRebinding leased, req_dst RRebinding server) = (leased, 4294967295).
Proof. repeat split. Qed.
