(* Proofs for C18 / C07: the model of server.New (model/Config.v) accepts exactly the configurations
   meeting the validity conditions of spec/SpecConfig.v, builds exactly the expected state, does so
   independently of the iteration order of the client map, and its option lists are the declarative
   reading of the configuration. *)
From PSA Require Import gen.GoFacts model.Bytes model.Dhcp model.Clients model.Ipdb spec.SpecTable spec.SpecIpdb
  model.Server model.Config spec.SpecConfig proofs.ClientsProofs.
From Coq Require Import ZifyN ZifyNat ZifyBool Permutation.
Ltac Zify.zify_post_hook ::= Z.div_mod_to_equations.
Open Scope N_scope.

(* ---------- the limits in the source (gen/GoFacts.v) are those of the property text and the wire format ---------- *)
Lemma limits_agree :
  max_opt_len = spec_max_opt_len /\ max_addrs = spec_max_addrs /\ max_lease_secs = spec_max_lease_secs /\
  min_lease_ns = spec_min_lease_ns.
Proof. vm_compute. repeat split. Qed.
Lemma max_opt_len_fits_byte : spec_max_opt_len <= 255.
Proof. vm_compute. discriminate. Qed.
Lemma max_addrs_fit : 4 * spec_max_addrs <= 255.
Proof. vm_compute. discriminate. Qed.
Lemma max_lease_fits_u32 : (0 <= spec_max_lease_secs < 4294967296)%Z.
Proof. vm_compute. split; [discriminate|reflexivity]. Qed.
Lemma min_lease_pos : (0 < spec_min_lease_ns)%Z.
Proof. vm_compute. reflexivity. Qed.

(* ---------- membership tests ---------- *)
Lemma mem_bytes_in x l : mem_bytes x l = true <-> In x l.
Proof.
  induction l as [|y l IH]; cbn; [split; [discriminate|tauto]|].
  rewrite orb_true_iff, IH, bytes_eqb_eq. split; intros [H|H]; auto.
Qed.
Lemma mem_n_in x l : mem_n x l = true <-> In x l.
Proof.
  induction l as [|y l IH]; cbn; [split; [discriminate|tauto]|].
  rewrite orb_true_iff, IH, N.eqb_eq. split; intros [H|H]; auto.
Qed.
Lemma mem_bytes_notin x l : mem_bytes x l = false <-> ~ In x l.
Proof. rewrite <- mem_bytes_in. destruct (mem_bytes x l); split; congruence. Qed.
Lemma mem_n_notin x l : mem_n x l = false <-> ~ In x l.
Proof. rewrite <- mem_n_in. destruct (mem_n x l); split; congruence. Qed.
Lemma nodup_bytes_iff l : nodup_bytes l = true <-> NoDup l.
Proof.
  induction l as [|x l IH]; cbn; [split; [constructor|reflexivity]|].
  rewrite andb_true_iff, negb_true_iff, mem_bytes_notin, IH, NoDup_cons_iff. tauto.
Qed.
Lemma nodup_n_iff l : nodup_n l = true <-> NoDup l.
Proof.
  induction l as [|x l IH]; cbn; [split; [constructor|reflexivity]|].
  rewrite andb_true_iff, negb_true_iff, mem_n_notin, IH, NoDup_cons_iff. tauto.
Qed.

Lemma sduid_inj a b : sduid a = sduid b -> a = b.
Proof. unfold sduid. intros H. injection H. auto. Qed.
Lemma bytes_eqb_sduid a b : bytes_eqb (sduid a) (sduid b) = bytes_eqb a b.
Proof. reflexivity. Qed.
Lemma bytes_eqb_refl a : bytes_eqb a a = true.
Proof. apply bytes_eqb_eq. reflexivity. Qed.
Lemma bytes_eqb_sym a b : bytes_eqb a b = bytes_eqb b a.
Proof.
  destruct (bytes_eqb a b) eqn:E1, (bytes_eqb b a) eqn:E2; auto.
  - apply bytes_eqb_eq in E1. subst. rewrite bytes_eqb_refl in E2. discriminate.
  - apply bytes_eqb_eq in E2. subst. rewrite bytes_eqb_refl in E1. discriminate.
Qed.

(* ---------- leaseopts.ipv4 ---------- *)
Lemma parse_all_eq l : parse_all l = if forallb is_v4 l then Ok (list_vals l) else Err.
Proof.
  induction l as [|a l IH]; [reflexivity|]. destruct a; cbn; try reflexivity.
  rewrite IH. destruct (forallb is_v4 l); reflexivity.
Qed.

Lemma ipv4_list_eq l : ipv4_list l = if list_ok l then Ok (list_vals l) else Err.
Proof.
  destruct l as [|a [|b r]].
  - reflexivity.
  - destruct a; reflexivity.
  - unfold ipv4_list, list_ok. destruct a; apply parse_all_eq.
Qed.

Lemma ipv4_single_eq a : ipv4_list [a] = if addr_ok a then Ok (match addr_val a with Some x => [x] | None => [] end) else Err.
Proof. destruct a; reflexivity. Qed.

Lemma ipv4_list_no_panic l : ipv4_list l <> Panic.
Proof. rewrite ipv4_list_eq. destruct (list_ok l); discriminate. Qed.

Lemma too_many_fits l : too_many (list_vals l) = negb (fits_addrs l).
Proof. unfold too_many, fits_addrs. rewrite (proj1 (proj2 limits_agree)). apply N.ltb_antisym. Qed.
Lemma too_long_fits b : too_long b = negb (fits_bytes b).
Proof. unfold too_long, fits_bytes. rewrite (proj1 limits_agree). apply N.ltb_antisym. Qed.

(* ---------- ParseConfig ---------- *)
Definition global_opts (c : config) : lease_opts :=
  {| lo_ip := None; lo_domain := g_domain c; lo_hostname := []; lo_mask := netmask c;
     lo_router := addr_val (g_router c); lo_dns := list_vals (g_dns c); lo_ntp := list_vals (g_ntp c);
     lo_lease := match g_lease c with Dur ns => ns | LeaseBad => 0%Z end |}.

Definition global_ok (c : config) : bool :=
  match g_network c, g_lease c with
  | NetBad, _ => false
  | _, LeaseBad => false
  | _, Dur ns =>
    (spec_min_lease_ns <=? ns)%Z && (ns / second_ns <=? spec_max_lease_secs)%Z &&
    addr_ok (g_router c) && list_ok (g_dns c) && list_ok (g_ntp c) &&
    fits_addrs (g_dns c) && fits_addrs (g_ntp c) && fits_bytes (g_domain c)
  end.

Lemma parse_config_eq c : parse_config c = if global_ok c then Ok (global_opts c) else Err.
Proof.
  unfold parse_config, global_ok, global_opts, netmask.
  destruct (g_network c) eqn:En; [reflexivity| |];
  (destruct (g_lease c) as [|ns]; [reflexivity|];
   rewrite (proj2 (proj2 (proj2 limits_agree))), (proj1 (proj2 (proj2 limits_agree)));
   rewrite (Z.ltb_antisym spec_min_lease_ns ns), (Z.ltb_antisym (ns / second_ns) spec_max_lease_secs);
   destruct (spec_min_lease_ns <=? ns)%Z; [|reflexivity]; destruct (ns / second_ns <=? spec_max_lease_secs)%Z; [|reflexivity];
   cbn [negb andb]; rewrite ipv4_single_eq; destruct (addr_ok (g_router c)); [|reflexivity];
   cbn [bind andb]; rewrite !ipv4_list_eq; destruct (list_ok (g_dns c)); [|reflexivity];
   cbn [bind andb]; destruct (list_ok (g_ntp c)); [|reflexivity];
   cbn [bind andb]; rewrite !too_many_fits, too_long_fits;
   destruct (fits_addrs (g_dns c)); [|reflexivity]; destruct (fits_addrs (g_ntp c)); [|reflexivity];
   destruct (fits_bytes (g_domain c)); [|reflexivity]; cbn [negb orb andb];
   destruct (g_router c); reflexivity).
Qed.

(* ---------- SetClientOverrides ---------- *)
Definition client_fields_ok (k : client_c) : bool :=
  addr_ok (k_ip k) && addr_ok (k_router k) && list_ok (k_dns k) && list_ok (k_ntp k) &&
  fits_addrs (k_dns k) && fits_addrs (k_ntp k) && fits_bytes (k_hostname k).

Definition merged (o : lease_opts) (k : client_c) : lease_opts :=
  {| lo_ip := or_else (addr_val (k_ip k)) (lo_ip o); lo_domain := lo_domain o;
     lo_hostname := nonempty_or (k_hostname k) (lo_hostname o); lo_mask := lo_mask o;
     lo_router := or_else (addr_val (k_router k)) (lo_router o);
     lo_dns := nonempty_or (list_vals (k_dns k)) (lo_dns o);
     lo_ntp := nonempty_or (list_vals (k_ntp k)) (lo_ntp o); lo_lease := lo_lease o |}.

Lemma set_client_overrides_eq o k :
  set_client_overrides o k = if client_fields_ok k then Ok (merged o k) else Err.
Proof.
  unfold set_client_overrides, client_fields_ok, merged.
  rewrite !ipv4_single_eq. destruct (addr_ok (k_ip k)); [|reflexivity]. cbn [bind andb].
  destruct (addr_ok (k_router k)); [|reflexivity]. cbn [bind andb].
  rewrite !ipv4_list_eq. destruct (list_ok (k_dns k)); [|reflexivity]. cbn [bind andb].
  destruct (list_ok (k_ntp k)); [|reflexivity]. cbn [bind andb].
  rewrite !too_many_fits, too_long_fits.
  destruct (fits_addrs (k_dns k)); [|reflexivity]. destruct (fits_addrs (k_ntp k)); [|reflexivity].
  destruct (fits_bytes (k_hostname k)); [|reflexivity]. cbn [negb orb andb].
  f_equal. f_equal.
  - destruct (k_ip k); reflexivity.
  - destruct (k_hostname k); reflexivity.
  - destruct (k_router k); reflexivity.
Qed.

(* ---------- permanent bindings in a table that holds only permanent bindings ---------- *)
Definition all_perm (t : table) : Prop := Forall (fun e => e_perm e = true) t.

Lemma find_live_perm now k t i : all_perm t ->
  match find_live now k t i with None => existsb (has_key k) t = false | Some _ => existsb (has_key k) t = true end.
Proof.
  intros H. revert i. induction H as [|e t He Ht IH]; intros i; cbn; [reflexivity|].
  unfold live, expired. rewrite He. cbn. destruct (has_key k e); cbn; [reflexivity|apply IH].
Qed.

Lemma existsb_ip ip t : existsb (has_key (KIp ip)) t = mem_n ip (map e_ip t).
Proof. induction t as [|e t IH]; cbn; [reflexivity|]. rewrite IH, (N.eqb_sym (e_ip e) ip). reflexivity. Qed.
Lemma existsb_duid d t : existsb (has_key (KDuid d)) t = mem_bytes d (map e_duid t).
Proof. induction t as [|e t IH]; cbn; [reflexivity|]. rewrite IH, (bytes_eqb_sym (e_duid e) d). reflexivity. Qed.

Definition in_db (db : ipdb) (ip : N) : bool := negb ((ip <? net_from db) || (net_to db <? ip)).
Definition mk_perm (ip : N) (d : bytes) : entry := {| e_ip := ip; e_duid := d; e_until := 0%Z; e_perm := true |}.

Lemma t_add_permanent_eq db now ip d t : all_perm t ->
  t_add_permanent db now (Some ip) d t =
    if in_db db ip && negb (mem_n ip (map e_ip t)) && negb (mem_bytes d (map e_duid t))
    then (true, t ++ [mk_perm ip d]) else (false, t).
Proof.
  intros H. unfold t_add_permanent, to_uip, in_db.
  destruct ((ip <? net_from db) || (net_to db <? ip)); [reflexivity|]. cbn [negb andb].
  unfold t_inject, t_lookup.
  pose proof (find_live_perm now (KIp ip) t 0 H) as H1. pose proof (find_live_perm now (KDuid d) t 0 H) as H2.
  rewrite existsb_ip in H1. rewrite existsb_duid in H2.
  destruct (find_live now (KIp ip) t 0); rewrite H1; [reflexivity|].
  destruct (find_live now (KDuid d) t 0); rewrite H2; reflexivity.
Qed.

(* ---------- the loop over the client map ---------- *)
Definition client_entry (lo : lease_opts) (k : client_c) : overrides :=
  match k_key k with Mac m => [(sduid m, merged lo k)] | BadMac => [] end.
Definition entries (lo : lease_opts) (l : list client_c) : overrides := flat_map (client_entry lo) l.

Fixpoint clients_ok (db : ipdb) (l : list client_c) (ips : list N) (keys : list bytes) : bool :=
  match l with
  | [] => true
  | k :: r =>
    match k_key k with
    | BadMac => false
    | Mac m =>
      client_fields_ok k &&
      match addr_val (k_ip k) with Some ip => in_db db ip && negb (mem_n ip ips) | None => true end &&
      negb (mem_bytes (sduid m) keys) &&
      clients_ok db r (ips ++ map snd (static_of k)) (keys ++ [sduid m])
    end
  end.

Lemma assoc_mem {A} k (l : list (bytes * A)) :
  match assoc k l with Some _ => true | None => false end = mem_bytes k (map fst l).
Proof.
  induction l as [|[k' v] l IH]; cbn; [reflexivity|]. destruct (bytes_eqb k k'); cbn; [reflexivity|apply IH].
Qed.

Lemma mem_bytes_incl x a b : incl a b -> mem_bytes x a = true -> mem_bytes x b = true.
Proof. intros Hi H. apply mem_bytes_in. apply Hi. apply mem_bytes_in. exact H. Qed.

Lemma perm_entry_eq m n : perm_entry (m, n) = mk_perm n (sduid m).
Proof. reflexivity. Qed.

Lemma add_clients_eq lo db l : lo_ip lo = None -> forall t ovs, all_perm t -> incl (map e_duid t) (map fst ovs) ->
  add_clients lo db l t ovs =
    if clients_ok db l (map e_ip t) (map fst ovs)
    then Ok (t ++ map perm_entry (statics l), ovs ++ entries lo l) else Err.
Proof.
  intros Hlo. induction l as [|k r IH]; intros t ovs Hp Hi.
  - cbn. rewrite !app_nil_r. reflexivity.
  - cbn [add_clients clients_ok]. unfold statics, entries. cbn [flat_map]. fold (statics r). fold (entries lo r).
    unfold client_entry, static_of. destruct (k_key k) as [|m] eqn:Ek; [reflexivity|].
    rewrite set_client_overrides_eq. destruct (client_fields_ok k); [|reflexivity]. cbn [bind andb].
    assert (Hip : lo_ip (merged lo k) = addr_val (k_ip k)).
    { cbn. rewrite Hlo. destruct (addr_val (k_ip k)); reflexivity. }
    rewrite Hip.
    pose proof (assoc_mem (sduid m) ovs) as Ha.
    assert (Hstep : forall t1 ips1, all_perm t1 -> incl (map e_duid t1) (map fst ovs ++ [sduid m]) ->
              map e_ip t1 = ips1 ->
              match assoc (sduid m) ovs with
              | Some _ => Err
              | None => add_clients lo db r t1 (ovs ++ [(sduid m, merged lo k)])
              end =
              if negb (mem_bytes (sduid m) (map fst ovs)) && clients_ok db r ips1 (map fst ovs ++ [sduid m])
              then Ok (t1 ++ map perm_entry (statics r), (ovs ++ [(sduid m, merged lo k)]) ++ entries lo r) else Err).
    { intros t1 ips1 Hp1 Hi1 <-. destruct (assoc (sduid m) ovs); rewrite <- Ha; [reflexivity|]. cbn [negb andb].
      rewrite IH; [|exact Hp1|rewrite map_app; exact Hi1]. rewrite map_app. reflexivity. }
    destruct (k_ip k) as [| |n] eqn:Eip; cbn [addr_val bind].
    + rewrite (Hstep t (map e_ip t) Hp); [|apply incl_appl; exact Hi|reflexivity].
      cbn [map snd app andb]. rewrite !app_nil_r, <- !app_assoc. reflexivity.
    + rewrite (Hstep t (map e_ip t) Hp); [|apply incl_appl; exact Hi|reflexivity].
      cbn [map snd app andb]. rewrite !app_nil_r, <- !app_assoc. reflexivity.
    + rewrite t_add_permanent_eq by exact Hp.
      destruct (in_db db n); [|reflexivity]. destruct (mem_n n (map e_ip t)); [reflexivity|]. cbn [negb andb].
      destruct (mem_bytes (sduid m) (map e_duid t)) eqn:Ed; cbn [negb].
      * rewrite (mem_bytes_incl _ _ _ Hi Ed). reflexivity.
      * cbn [bind]. rewrite (Hstep (t ++ [mk_perm n (sduid m)]) (map e_ip t ++ [n])).
        -- cbn [map snd app]. rewrite perm_entry_eq, <- !app_assoc. reflexivity.
        -- apply Forall_app. split; [exact Hp|constructor; [reflexivity|constructor]].
        -- rewrite map_app. cbn. apply incl_app; [apply incl_appl; exact Hi|apply incl_appr; apply incl_refl].
        -- rewrite map_app. reflexivity.
Qed.

Lemma NoDup_snoc {A} (l : list A) x : NoDup l -> ~ In x l -> NoDup (l ++ [x]).
Proof.
  intros H1 H2. apply (Permutation_NoDup (l := x :: l)); [apply Permutation_cons_append|constructor; assumption].
Qed.

Lemma clients_ok_iff db l : forall ips keys, NoDup ips -> NoDup keys ->
  (clients_ok db l ips keys = true <->
   Forall (fun k => exists m, k_key k = Mac m) l /\ Forall (fun k => client_fields_ok k = true) l /\
   (forall p, In p (statics l) -> in_db db (snd p) = true) /\
   NoDup (keys ++ map sduid (client_macs l)) /\ NoDup (ips ++ map snd (statics l))).
Proof.
  induction l as [|k r IH]; intros ips keys Hips Hkeys.
  - cbn. rewrite !app_nil_r. split; [intros _; repeat split; auto; intros p []|reflexivity].
  - cbn [clients_ok]. unfold statics, client_macs. cbn [flat_map]. fold (statics r). fold (client_macs r).
    destruct (k_key k) as [|m] eqn:Ek.
    { split; [discriminate|]. intros (H & _). inversion H as [|? ? [m Hm] ?]. rewrite Ek in Hm. discriminate. }
    unfold static_of. rewrite Ek.
    assert (Hkeys' : ~ In (sduid m) keys -> NoDup (keys ++ [sduid m])) by (apply NoDup_snoc; exact Hkeys).
    cbn [map app]. rewrite !andb_true_iff, negb_true_iff, mem_bytes_notin.
    replace (keys ++ sduid m :: map sduid (client_macs r)) with ((keys ++ [sduid m]) ++ map sduid (client_macs r))
      by (rewrite <- app_assoc; reflexivity).
    destruct (k_ip k) as [| |n] eqn:Eip; cbn [addr_val map snd app].
    + rewrite app_nil_r. split.
      * intros (((Hf & _) & Hk) & Hr). apply (IH ips _ Hips (Hkeys' Hk)) in Hr as (R1 & R2 & R3 & R4 & R5).
        repeat split; auto. constructor; [exists m; exact Ek|exact R1].
      * intros (R1 & R2 & R3 & R4 & R5). inversion R1; subst. inversion R2; subst.
        assert (Hk : ~ In (sduid m) keys).
        { rewrite <- app_assoc in R4. cbn in R4. apply NoDup_remove_2 in R4. intros Hin. apply R4. apply in_or_app. auto. }
        repeat split; auto. apply (IH ips _ Hips (Hkeys' Hk)). repeat split; auto.
    + rewrite app_nil_r. split.
      * intros (((Hf & _) & Hk) & Hr). apply (IH ips _ Hips (Hkeys' Hk)) in Hr as (R1 & R2 & R3 & R4 & R5).
        repeat split; auto. constructor; [exists m; exact Ek|exact R1].
      * intros (R1 & R2 & R3 & R4 & R5). inversion R1; subst. inversion R2; subst.
        assert (Hk : ~ In (sduid m) keys).
        { rewrite <- app_assoc in R4. cbn in R4. apply NoDup_remove_2 in R4. intros Hin. apply R4. apply in_or_app. auto. }
        repeat split; auto. apply (IH ips _ Hips (Hkeys' Hk)). repeat split; auto.
    + replace (ips ++ n :: map snd (statics r)) with ((ips ++ [n]) ++ map snd (statics r))
        by (rewrite <- app_assoc; reflexivity).
      rewrite !andb_true_iff, negb_true_iff, mem_n_notin. split.
      * intros (((Hf & Hdb & Hn) & Hk) & Hr).
        apply (IH _ _ (NoDup_snoc _ _ Hips Hn) (Hkeys' Hk)) in Hr as (R1 & R2 & R3 & R4 & R5).
        repeat split; auto.
        -- constructor; [exists m; exact Ek|exact R1].
        -- intros p [<-|Hp]; [exact Hdb|apply R3; exact Hp].
      * intros (R1 & R2 & R3 & R4 & R5). inversion R1; subst. inversion R2; subst.
        assert (Hk : ~ In (sduid m) keys).
        { rewrite <- app_assoc in R4. cbn in R4. apply NoDup_remove_2 in R4. intros Hin. apply R4. apply in_or_app. auto. }
        assert (Hn : ~ In n ips).
        { rewrite <- app_assoc in R5. cbn in R5. apply NoDup_remove_2 in R5. intros Hin. apply R5. apply in_or_app. auto. }
        repeat split; auto.
        -- apply (R3 (m, n)). left. reflexivity.
        -- apply (IH _ _ (NoDup_snoc _ _ Hips Hn) (Hkeys' Hk)). repeat split; auto.
           intros p Hp. apply R3. right. exact Hp.
Qed.

(* ---------- the dynamic range ---------- *)
Definition range_ok_db (db : ipdb) (r : range_c) : bool :=
  match r with
  | RUnset => true
  | Range (Some a) (Some b) => in_db db a && in_db db b && (a <=? b)
  | _ => false
  end.
Definition with_range (db : ipdb) (r : range_c) : ipdb :=
  match r with
  | Range (Some a) (Some b) => {| net_from := net_from db; net_to := net_to db; dyn_from := a; dyn_to := b; st := st db |}
  | _ => db
  end.

Lemma configure_range_eq db r : configure_range db r = if range_ok_db db r then Ok (with_range db r) else Err.
Proof.
  destruct r as [| | |[a|] [b|]]; try reflexivity; cbn [configure_range range_ok_db with_range]; unfold set_dynamic_range, to_uip, in_db.
  - destruct ((a <? net_from db) || (net_to db <? a)); [reflexivity|].
    destruct ((b <? net_from db) || (net_to db <? b)); [reflexivity|]. cbn [negb andb].
    rewrite (N.ltb_antisym a b). destruct (a <=? b); reflexivity.
  - destruct ((a <? net_from db) || (net_to db <? a)); reflexivity.
Qed.

Definition final_db (c : config) (db : ipdb) : ipdb :=
  let db1 := with_range db (g_range c) in if g_static_only c then disable_dynamic db1 else db1.

Lemma final_db_net c db : net_from (final_db c db) = net_from db /\ net_to (final_db c db) = net_to db.
Proof. unfold final_db. destruct (g_static_only c), (g_range c) as [| | |[a|] [b|]]; split; reflexivity. Qed.

Lemma in_db_range db ft n : net_from db = fst ft -> net_to db = snd ft -> in_db db n = in_range ft n.
Proof. intros H1 H2. unfold in_db, in_range. rewrite H1, H2. lia. Qed.

Lemma ipdb_new_net ip mask : net_from (ipdb_new ip mask) = fst (from_to ip mask) /\ net_to (ipdb_new ip mask) = snd (from_to ip mask).
Proof. unfold ipdb_new. destruct (from_to ip mask). split; reflexivity. Qed.

(* ---------- server.New as one test and one result ---------- *)
Definition accept_b (c : config) (self : N) (own_mac : bytes) : bool :=
  match g_network c with
  | Net4 ip mask =>
    let db := ipdb_new ip mask in
    let db2 := final_db c db in
    let S := statics (g_clients c) in
    global_ok c && range_ok_db db (g_range c) && clients_ok db2 (g_clients c) [] [] &&
    (in_db db2 self && negb (mem_n self (map snd S)) && negb (mem_bytes (sduid own_mac) (map sduid (map fst S))))
  | _ => false
  end.

Definition built_state (c : config) (self : N) (own_mac : bytes) : server_state :=
  {| s_db := match g_network c with Net4 ip mask => final_db c (ipdb_new ip mask) | _ => ipdb_new 0 0 end;
     s_table := expected_bindings c self own_mac; s_self := self; s_lopts := global_opts c;
     s_overrides := entries (global_opts c) (g_clients c) |}.

Lemma all_perm_map S : all_perm (map perm_entry S).
Proof. apply Forall_forall. intros e He. apply in_map_iff in He as (p & <- & _). reflexivity. Qed.

Lemma new_server_eq c self own_mac :
  new_server c (Some self) own_mac = if accept_b c self own_mac then Ok (built_state c self own_mac) else Err.
Proof.
  unfold new_server, accept_b, built_state. rewrite parse_config_eq.
  destruct (global_ok c) eqn:Eg.
  2:{ destruct (g_network c); reflexivity. }
  cbn [bind]. destruct (g_network c) as [| |ip mask] eqn:En; try reflexivity.
  cbn [bind andb]. rewrite configure_range_eq. destruct (range_ok_db (ipdb_new ip mask) (g_range c)); [|reflexivity].
  cbn [bind andb]. fold (final_db c (ipdb_new ip mask)).
  rewrite (add_clients_eq (global_opts c) (final_db c (ipdb_new ip mask)) (g_clients c) eq_refl [] []);
    [|constructor|intros x []].
  cbn [map]. destruct (clients_ok (final_db c (ipdb_new ip mask)) (g_clients c) [] []); [|reflexivity].
  cbn [bind andb fst snd app]. rewrite t_add_permanent_eq by apply all_perm_map.
  rewrite !map_map. cbn [perm_entry e_ip e_duid].
  replace (map (fun x : bytes * N => sduid (fst x)) (statics (g_clients c))) with (map sduid (map fst (statics (g_clients c))))
    by (rewrite map_map; reflexivity).
  replace (map (fun x : bytes * N => snd x) (statics (g_clients c))) with (map snd (statics (g_clients c))) by reflexivity.
  destruct (in_db (final_db c (ipdb_new ip mask)) self && negb (mem_n self (map snd (statics (g_clients c)))) &&
            negb (mem_bytes (sduid own_mac) (map sduid (map fst (statics (g_clients c)))))); [|reflexivity].
  unfold expected_bindings. rewrite map_app. reflexivity.
Qed.

Lemma new_server_none c own_mac : new_server c None own_mac = Err.
Proof. reflexivity. Qed.

(* ---------- the test is the conjunction of the named validity conditions ---------- *)
Lemma in_network_db c ip mask n : g_network c = Net4 ip mask ->
  in_db (ipdb_new ip mask) n = in_network c n /\ in_db (final_db c (ipdb_new ip mask)) n = in_network c n.
Proof.
  intros En. unfold in_network, net_range. rewrite En.
  destruct (ipdb_new_net ip mask) as [H1 H2]. destruct (final_db_net c (ipdb_new ip mask)) as [H3 H4].
  split; apply in_db_range; congruence.
Qed.

Lemma client_fields_split l :
  Forall (fun k => client_fields_ok k = true) l <->
  Forall (fun k => addr_ok (k_ip k) = true /\ addr_ok (k_router k) = true /\ list_ok (k_dns k) = true /\ list_ok (k_ntp k) = true) l /\
  Forall (fun k => fits_addrs (k_dns k) = true /\ fits_addrs (k_ntp k) = true /\ fits_bytes (k_hostname k) = true) l.
Proof.
  rewrite !Forall_forall. unfold client_fields_ok. split.
  - intros H. split; intros k Hk; specialize (H k Hk); rewrite !andb_true_iff in H; tauto.
  - intros [H1 H2] k Hk. specialize (H1 k Hk). specialize (H2 k Hk). rewrite !andb_true_iff. tauto.
Qed.

Lemma NoDup_map_sduid l : NoDup (map sduid l) <-> NoDup l.
Proof.
  split; [apply NoDup_map_inv|]. intros H. induction H as [|x l Hx Hl IH]; cbn; constructor; [|exact IH].
  intros Hin. apply in_map_iff in Hin as (y & Hy & Hin). apply sduid_inj in Hy. subst y. contradiction.
Qed.

Lemma in_map_sduid x l : In (sduid x) (map sduid l) <-> In x l.
Proof.
  split; [|apply in_map]. intros H. apply in_map_iff in H as (y & Hy & Hin). apply sduid_inj in Hy. subst y. exact Hin.
Qed.

Lemma NoDup_snoc_iff {A} (l : list A) x : NoDup (l ++ [x]) <-> NoDup l /\ ~ In x l.
Proof.
  split.
  - intros H. split; [apply NoDup_remove_1 in H; rewrite app_nil_r in H; exact H|].
    apply NoDup_remove_2 in H. rewrite app_nil_r in H. exact H.
  - intros [H1 H2]. apply NoDup_snoc; assumption.
Qed.

Lemma range_ok_eq c ip mask : g_network c = Net4 ip mask -> range_ok_db (ipdb_new ip mask) (g_range c) = range_ok c.
Proof.
  intros En. unfold range_ok_db, range_ok. destruct (g_range c) as [| | |[a|] [b|]]; try reflexivity.
  rewrite (proj1 (in_network_db c ip mask a En)), (proj1 (in_network_db c ip mask b En)). reflexivity.
Qed.

Theorem accept_iff c self own_mac : accept_b c self own_mac = true <-> valid_config c (Some self) own_mac.
Proof.
  unfold accept_b. split.
  - destruct (g_network c) as [| |ip mask] eqn:En; try discriminate.
    rewrite (range_ok_eq c ip mask En). rewrite !andb_true_iff, !negb_true_iff, mem_n_notin, mem_bytes_notin, in_map_sduid.
    rewrite (proj2 (in_network_db c ip mask self En)).
    intros (((Hg & Hr) & Hc) & (Hs & Hsn) & Hsm).
    apply (clients_ok_iff _ _ [] [] (NoDup_nil _) (NoDup_nil _)) in Hc as (F1 & F2 & P3 & N4 & N5). cbn [app] in N4, N5.
    apply client_fields_split in F2 as [F2a F2b]. apply (proj1 (NoDup_map_sduid _)) in N4.
    unfold global_ok in Hg. rewrite En in Hg. destruct (g_lease c) as [|ns] eqn:El; [discriminate|].
    rewrite !andb_true_iff in Hg. destruct Hg as (((((((G1 & G2) & G3) & G4) & G5) & G6) & G7) & G8).
    constructor; auto.
    + exists ip, mask. exact En.
    + exists ns. exact El.
    + intros ns' E. rewrite El in E. injection E as <-. lia.
    + intros ns' E. rewrite El in E. injection E as <-. lia.
    + exists self. auto.
    + intros m n Hin. rewrite <- (proj2 (in_network_db c ip mask n En)). apply (P3 (m, n)). exact Hin.
    + intros self' E. injection E as <-. apply NoDup_snoc; assumption.
  - intros [(ip & mask & En) (ns & El) Vmin Vfit (A1 & A2 & A3) (B1 & B2 & B3) Vr (self' & Es & Vown) Vk Va Vf Vs Vm Vi Vo].
    injection Es as <-. rewrite En. rewrite (range_ok_eq c ip mask En), Vr.
    rewrite (proj2 (in_network_db c ip mask self En)), Vown.
    specialize (Vi self eq_refl). apply NoDup_snoc_iff in Vi as [Vi1 Vi2].
    assert (Hg : global_ok c = true).
    { unfold global_ok. rewrite En, El, A1, A2, A3, B1, B2, B3. specialize (Vmin ns El). specialize (Vfit ns El).
      rewrite !andb_true_r. apply andb_true_iff. split; lia. }
    rewrite Hg. cbn [andb].
    assert (Hc : clients_ok (final_db c (ipdb_new ip mask)) (g_clients c) [] [] = true).
    { apply (clients_ok_iff _ _ [] [] (NoDup_nil _) (NoDup_nil _)). cbn [app]. repeat split.
      - exact Vk.
      - apply client_fields_split. split; assumption.
      - intros [m n] Hin. cbn [snd]. rewrite (proj2 (in_network_db c ip mask n En)). apply (Vs m n Hin).
      - apply NoDup_map_sduid. exact Vm.
      - exact Vi1. }
    rewrite Hc. cbn [andb].
    apply andb_true_iff. split; [apply negb_true_iff, mem_n_notin; exact Vi2|].
    apply negb_true_iff, mem_bytes_notin. rewrite in_map_sduid. exact Vo.
Qed.

(* ---------- verdicts ---------- *)
Theorem new_server_no_panic c own own_mac : new_server c own own_mac <> Panic.
Proof. destruct own as [self|]; [rewrite new_server_eq; destruct (accept_b c self own_mac)|cbn]; discriminate. Qed.

Theorem new_server_ok_iff c own own_mac s :
  new_server c own own_mac = Ok s <->
  exists self, own = Some self /\ valid_config c own own_mac /\ s = built_state c self own_mac.
Proof.
  destruct own as [self|].
  - rewrite new_server_eq. destruct (accept_b c self own_mac) eqn:E.
    + apply accept_iff in E. split.
      * intros H. injection H as <-. exists self. auto.
      * intros (self' & Hs & _ & ->). injection Hs as <-. reflexivity.
    + split; [discriminate|]. intros (self' & Hs & Hv & _). apply accept_iff in Hv. congruence.
  - cbn. split; [discriminate|]. intros (self & Hs & _). discriminate.
Qed.

Theorem new_server_sound c own own_mac s : new_server c own own_mac = Ok s -> valid_config c own own_mac.
Proof. intros H. apply new_server_ok_iff in H as (self & _ & Hv & _). exact Hv. Qed.

Theorem new_server_complete c own own_mac : valid_config c own own_mac -> exists s, new_server c own own_mac = Ok s.
Proof.
  intros Hv. destruct (v_own _ _ _ Hv) as (self & Hs & _). exists (built_state c self own_mac).
  apply new_server_ok_iff. exists self. auto.
Qed.

Theorem new_server_err_iff c own own_mac : new_server c own own_mac = Err <-> ~ valid_config c own own_mac.
Proof.
  split.
  - intros H Hv. apply new_server_complete in Hv as (s & Hs). congruence.
  - intros Hn. destruct (new_server c own own_mac) as [s| |] eqn:E; [|reflexivity|].
    + exfalso. apply Hn. apply (new_server_sound _ _ _ _ E).
    + exfalso. apply (new_server_no_panic _ _ _ E).
Qed.

(* ---------- the state of an accepted configuration ---------- *)
Definition ranges_of (db : ipdb) : N * N * N * N := (net_from db, net_to db, dyn_from db, dyn_to db).

Lemma built_ranges c self own_mac : valid_config c (Some self) own_mac ->
  Some (ranges_of (s_db (built_state c self own_mac))) = expected_ranges c.
Proof.
  intros Hv. destruct (v_network _ _ _ Hv) as (ip & mask & En). pose proof (v_range _ _ _ Hv) as Hr.
  unfold built_state, expected_ranges, net_range, ranges_of. cbn [s_db]. rewrite En.
  unfold final_db, ipdb_new. destruct (from_to ip mask) as [f t].
  unfold range_ok in Hr. destruct (g_static_only c), (g_range c) as [| | |[a|] [b|]]; try discriminate; reflexivity.
Qed.

Theorem new_server_state c own own_mac s : new_server c own own_mac = Ok s ->
  exists self, own = Some self /\ s_self s = self /\
    Some (ranges_of (s_db s)) = expected_ranges c /\
    s_table s = expected_bindings c self own_mac /\
    reserved_ns s = match g_lease c with Dur ns => ns | LeaseBad => 0%Z end.
Proof.
  intros H. apply new_server_ok_iff in H as (self & -> & Hv & ->). exists self. repeat split.
  apply built_ranges. exact Hv.
Qed.

(* ---------- C07: the options are the declarative reading ---------- *)
Lemma assoc_entries lo mac l : assoc (sduid mac) (entries lo l) = option_map (merged lo) (find_client mac l).
Proof.
  induction l as [|k r IH]; [reflexivity|]. unfold entries, find_client. cbn [flat_map find]. fold (entries lo r). fold (find_client mac r).
  unfold client_entry. destruct (k_key k) as [|m]; [exact IH|]. cbn [app assoc].
  rewrite bytes_eqb_sduid, (bytes_eqb_sym mac m). destruct (bytes_eqb m mac); [reflexivity|exact IH].
Qed.

Lemma put32_u32 x : put32 (u32 x) = put32 x.
Proof.
  unfold put32, u32.
  pose proof (N.div_mod x 4294967296 ltac:(discriminate)) as H.
  set (q := x / 4294967296) in *. set (r := x mod 4294967296) in *.
  assert (Hr : r < 4294967296) by (apply N.mod_lt; discriminate).
  assert (H1 : x / 16777216 = 256 * q + r / 16777216) by lia.
  assert (H2 : x / 65536 = 65536 * q + r / 65536) by lia.
  assert (H3 : x / 256 = 16777216 * q + r / 256) by lia.
  rewrite H1, H2, H3.
  f_equal; [lia|]. f_equal; [lia|]. f_equal; [lia|]. f_equal. lia.
Qed.

Theorem effective_is_expected c self own_mac mac :
  effective_options (built_state c self own_mac) mac = expected_options c mac.
Proof.
  unfold effective_options, expected_options, built_state. cbn [s_lopts s_overrides]. rewrite assoc_entries.
  unfold lease_secs, lease_seconds. rewrite put32_u32.
  cbn [global_opts lo_lease lo_mask lo_router lo_dns lo_ntp lo_domain lo_hostname].
  f_equal. { destruct (g_lease c); reflexivity. }
  destruct (find_client mac (g_clients c)) as [k|]; cbn [option_map merged lo_router lo_dns lo_ntp lo_domain lo_hostname
    expected_router expected_dns expected_ntp expected_hostname];
    cbn [global_opts lo_router lo_dns lo_ntp lo_domain lo_hostname].
  - apply (f_equal2 (@app dhcp_opt)); [|apply (f_equal2 (@app dhcp_opt)); [|apply (f_equal2 (@app dhcp_opt)); [|apply (f_equal2 (@app dhcp_opt))]]].
    + destruct (addr_val (k_router k)); cbn; [reflexivity|]. destruct (addr_val (g_router c)); reflexivity.
    + destruct (list_vals (k_dns k)); cbn; [|reflexivity]. destruct (list_vals (g_dns c)); reflexivity.
    + destruct (list_vals (k_ntp k)); cbn; [|reflexivity]. destruct (list_vals (g_ntp c)); reflexivity.
    + destruct (g_domain c); reflexivity.
    + destruct (k_hostname k); reflexivity.
  - apply (f_equal2 (@app dhcp_opt)); [|apply (f_equal2 (@app dhcp_opt)); [|apply (f_equal2 (@app dhcp_opt)); [|apply (f_equal2 (@app dhcp_opt))]]].
    + destruct (addr_val (g_router c)); reflexivity.
    + destruct (list_vals (g_dns c)); reflexivity.
    + destruct (list_vals (g_ntp c)); reflexivity.
    + destruct (g_domain c); reflexivity.
    + reflexivity.
Qed.

Theorem new_server_options c own own_mac s mac :
  new_server c own own_mac = Ok s -> effective_options s mac = expected_options c mac.
Proof. intros H. apply new_server_ok_iff in H as (self & _ & _ & ->). apply effective_is_expected. Qed.

(* ---------- independence of the iteration order of the client map ---------- *)
Lemma Forall_perm {A} (Q : A -> Prop) l l' : Permutation l l' -> Forall Q l -> Forall Q l'.
Proof.
  intros HP H. rewrite Forall_forall in *. intros x Hx. apply H. apply Permutation_in with l'; [apply Permutation_sym; exact HP|exact Hx].
Qed.

Lemma valid_config_perm c l' own own_mac :
  Permutation (g_clients c) l' -> valid_config c own own_mac -> valid_config (with_clients c l') own own_mac.
Proof.
  intros P [V1 V2 V3 V4 V5 V6 V7 V8 V9 V10 V11 V12 V13 V14 V15].
  assert (HS : Permutation (statics (g_clients c)) (statics l')) by (apply Permutation_flat_map; exact P).
  assert (HM : Permutation (client_macs (g_clients c)) (client_macs l')) by (apply Permutation_flat_map; exact P).
  constructor; try assumption; cbn [with_clients g_clients].
  - exact (Forall_perm _ _ _ P V9).
  - exact (Forall_perm _ _ _ P V10).
  - exact (Forall_perm _ _ _ P V11).
  - intros m n Hin. apply (V12 m n). apply Permutation_in with (statics l'); [apply Permutation_sym; exact HS|exact Hin].
  - apply (Permutation_NoDup HM V13).
  - intros self Hs. apply (Permutation_NoDup (l := map snd (statics (g_clients c)) ++ [self])); [|apply V14; exact Hs].
    apply Permutation_app_tail. apply Permutation_map. exact HS.
  - intros Hin. apply V15. apply Permutation_in with (map fst (statics l')); [|exact Hin].
    apply Permutation_sym. apply Permutation_map. exact HS.
Qed.

Lemma find_client_some mac l k : find_client mac l = Some k -> In k l /\ k_key k = Mac mac.
Proof.
  intros H. apply find_some in H as [H1 H2]. split; [exact H1|]. destruct (k_key k); [discriminate|].
  apply bytes_eqb_eq in H2. congruence.
Qed.

Lemma find_client_unique mac l k : NoDup (client_macs l) -> In k l -> k_key k = Mac mac -> find_client mac l = Some k.
Proof.
  induction l as [|k0 r IH]; intros Hn Hin Hk; [destruct Hin|].
  unfold find_client. cbn [find]. fold (find_client mac r). unfold client_macs in Hn. cbn [flat_map] in Hn. fold (client_macs r) in Hn.
  destruct Hin as [->|Hin].
  - rewrite Hk, bytes_eqb_refl. reflexivity.
  - destruct (k_key k0) as [|m0] eqn:E0; [apply IH; assumption|]. cbn [app] in Hn. apply NoDup_cons_iff in Hn as [Hn1 Hn2].
    destruct (bytes_eqb m0 mac) eqn:Eb; [|apply IH; assumption].
    apply bytes_eqb_eq in Eb. subst m0. exfalso. apply Hn1. unfold client_macs. apply in_flat_map. exists k. split; [exact Hin|].
    rewrite Hk. left. reflexivity.
Qed.

Lemma find_client_perm mac l l' : NoDup (client_macs l) -> Permutation l l' -> find_client mac l' = find_client mac l.
Proof.
  intros Hn P.
  assert (Hn' : NoDup (client_macs l')) by (apply (Permutation_NoDup (l := client_macs l)); [apply Permutation_flat_map; exact P|exact Hn]).
  destruct (find_client mac l) as [k|] eqn:E.
  - apply find_client_some in E as [Hin Hk]. apply find_client_unique; [exact Hn'| |exact Hk].
    apply Permutation_in with l; assumption.
  - destruct (find_client mac l') as [k'|] eqn:E'; [|reflexivity]. exfalso.
    apply find_client_some in E' as [Hin Hk]. apply Permutation_sym in P.
    rewrite (find_client_unique mac l k' Hn (Permutation_in _ P Hin) Hk) in E. discriminate.
Qed.

Lemma expected_options_perm c l' mac : NoDup (client_macs (g_clients c)) -> Permutation (g_clients c) l' ->
  expected_options (with_clients c l') mac = expected_options c mac.
Proof.
  intros Hn P. unfold expected_options. cbn [with_clients g_clients]. rewrite (find_client_perm mac _ _ Hn P). reflexivity.
Qed.

Theorem new_server_order_independent c l' own own_mac : Permutation (g_clients c) l' ->
  (forall s, new_server c own own_mac = Ok s ->
     exists s', new_server (with_clients c l') own own_mac = Ok s' /\
       s_db s' = s_db s /\ s_lopts s' = s_lopts s /\ s_self s' = s_self s /\
       Permutation (s_table s) (s_table s') /\
       forall mac, effective_options s' mac = effective_options s mac) /\
  (new_server c own own_mac = Err -> new_server (with_clients c l') own own_mac = Err).
Proof.
  intros P. split.
  - intros s H. apply new_server_ok_iff in H as (self & -> & Hv & ->).
    exists (built_state (with_clients c l') self own_mac). split; [|split; [|split; [|split; [|split]]]].
    + apply new_server_ok_iff. exists self. split; [reflexivity|]. split; [|reflexivity]. apply valid_config_perm; assumption.
    + reflexivity.
    + reflexivity.
    + reflexivity.
    + unfold built_state, expected_bindings. cbn [s_table with_clients g_clients]. apply Permutation_map.
      apply Permutation_app_tail. apply Permutation_flat_map. exact P.
    + intros mac. rewrite !effective_is_expected. apply expected_options_perm; [exact (v_distinct_macs _ _ _ Hv)|exact P].
  - intros H. apply new_server_err_iff. apply new_server_err_iff in H. intros Hv. apply H.
    assert (Hv' := valid_config_perm (with_clients c l') (g_clients c) own own_mac (Permutation_sym P) Hv).
    destruct Hv' as [V1 V2 V3 V4 V5 V6 V7 V8 V9 V10 V11 V12 V13 V14 V15]. constructor; assumption.
Qed.

(* ---------- R8: the advertised lease is the whole seconds of the reserved duration ---------- *)
Lemma be32_put32_small v : v < 4294967296 ->
  be32 (v / 16777216 mod 256) (v / 65536 mod 256) (v / 256 mod 256) (v mod 256) = v.
Proof. intros H. unfold be32. lia. Qed.

Theorem advertised_is_floor c own own_mac s mac : new_server c own own_mac = Ok s ->
  exists ns b0 b1 b2 b3 rest,
    g_lease c = Dur ns /\ reserved_ns s = ns /\
    effective_options s mac = (gf_dhcpmsg_OptIPAddressLeaseDuration, [b0; b1; b2; b3]) :: rest /\
    Z.of_N (be32 b0 b1 b2 b3) = (ns / second_ns)%Z.
Proof.
  intros H. apply new_server_ok_iff in H as (self & -> & Hv & ->).
  destruct (v_lease_parsed _ _ _ Hv) as (ns & El). pose proof (v_lease_min _ _ _ Hv ns El) as Hmin.
  pose proof (v_lease_fits _ _ _ Hv ns El) as Hfit. pose proof max_lease_fits_u32 as Hm. pose proof min_lease_pos as Hp.
  assert (Hq : (0 <= ns / second_ns)%Z) by (unfold second_ns; lia).
  set (v := Z.to_N (ns / second_ns)).
  assert (Hv32 : v < 4294967296) by (unfold v; lia).
  exists ns, (v / 16777216 mod 256), (v / 65536 mod 256), (v / 256 mod 256), (v mod 256).
  eexists. split; [exact El|]. split; [unfold reserved_ns, built_state; cbn; rewrite El; reflexivity|]. split.
  - unfold effective_options, built_state. cbn [s_lopts global_opts lo_lease]. rewrite El. unfold lease_secs. fold v.
    unfold u32. rewrite (N.mod_small v 4294967296 Hv32). cbn [app]. reflexivity.
  - rewrite (be32_put32_small v Hv32). unfold v. lia.
Qed.

(* ---------- every payload fits the one-byte length field ---------- *)
Lemma len_flat_put32 l : len (flat_map put32 l) = 4 * len l.
Proof. unfold len. induction l as [|x l IH]; [reflexivity|]. cbn [flat_map put32 app length]. lia. Qed.

Lemma representable_app a b : representable (a ++ b) = representable a && representable b.
Proof. apply forallb_app. Qed.

Lemma repr_addrs code l : (len l <=? spec_max_addrs) = true -> representable (opt_addrs code l) = true.
Proof.
  intros H. destruct l as [|x l]; [reflexivity|]. unfold opt_addrs, representable. cbn [forallb snd]. rewrite andb_true_r.
  rewrite len_flat_put32. pose proof max_addrs_fit. lia.
Qed.
Lemma repr_bytes code b : fits_bytes b = true -> representable (opt_bytes code b) = true.
Proof.
  intros H. destruct b as [|x b]; [reflexivity|]. unfold opt_bytes, representable. cbn [forallb snd]. rewrite andb_true_r.
  unfold fits_bytes in H. pose proof max_opt_len_fits_byte. lia.
Qed.
Lemma repr_addr code a : representable (opt_addr code a) = true.
Proof. destruct a; reflexivity. Qed.

Theorem expected_representable c own own_mac mac : valid_config c own own_mac -> representable (expected_options c mac) = true.
Proof.
  intros Hv. destruct (v_global_fits _ _ _ Hv) as (G1 & G2 & G3).
  assert (Hk : forall k, find_client mac (g_clients c) = Some k ->
            fits_addrs (k_dns k) = true /\ fits_addrs (k_ntp k) = true /\ fits_bytes (k_hostname k) = true).
  { intros k E. apply find_client_some in E as [Hin _]. pose proof (v_client_fits _ _ _ Hv) as F. rewrite Forall_forall in F. apply F. exact Hin. }
  unfold expected_options. rewrite !representable_app. rewrite repr_addr.
  assert (H0 : forall x y, representable [(gf_dhcpmsg_OptIPAddressLeaseDuration, put32 x); (gf_dhcpmsg_OptSubnetMask, put32 y)] = true) by reflexivity.
  rewrite H0. cbn [andb].
  destruct (find_client mac (g_clients c)) as [k|] eqn:E.
  - destruct (Hk k eq_refl) as (K1 & K2 & K3). cbn [expected_dns expected_ntp expected_hostname].
    assert (D : (len (nonempty_or (list_vals (k_dns k)) (list_vals (g_dns c))) <=? spec_max_addrs) = true).
    { unfold nonempty_or. destruct (list_vals (k_dns k)) eqn:Ed; [exact G1|rewrite <- Ed; exact K1]. }
    assert (T : (len (nonempty_or (list_vals (k_ntp k)) (list_vals (g_ntp c))) <=? spec_max_addrs) = true).
    { unfold nonempty_or. destruct (list_vals (k_ntp k)) eqn:Ed; [exact G2|rewrite <- Ed; exact K2]. }
    rewrite (repr_addrs _ _ D), (repr_addrs _ _ T), (repr_bytes _ _ G3), (repr_bytes _ _ K3). reflexivity.
  - cbn [expected_dns expected_ntp expected_hostname].
    rewrite (repr_addrs _ _ G1), (repr_addrs _ _ G2), (repr_bytes _ _ G3). reflexivity.
Qed.

Theorem options_representable c own own_mac s mac :
  new_server c own own_mac = Ok s -> representable (effective_options s mac) = true.
Proof.
  intros H. rewrite (new_server_options _ _ _ _ mac H). apply (expected_representable c own own_mac). exact (new_server_sound _ _ _ _ H).
Qed.

(* ---------- OFFER and ACK carry the same list ---------- *)
Theorem reply_options_expected c own own_mac s typ mac : new_server c own own_mac = Ok s ->
  reply_options s typ mac =
  (gf_dhcpmsg_OptMessageType, [typ]) :: (gf_dhcpmsg_OptServerIdentifier, put32 (s_self s)) :: expected_options c mac.
Proof. intros H. unfold reply_options. rewrite (new_server_options _ _ _ _ mac H). reflexivity. Qed.

(* the same list inside the reply messages of the server model (model/Server.v: reply_msg, used for OFFER and ACK) *)
Theorem reply_msg_options (sc : scfg) s typ xid flags y mac :
  c_self_ip sc = s_self s ->
  d_options (reply_msg sc typ xid flags y mac (effective_options s mac)) = reply_options s typ mac.
Proof. intros H. unfold reply_msg, reply_options. cbn [d_options]. rewrite H. reflexivity. Qed.

(* ---------- the decidable test used as a monitor is the specification ---------- *)
Lemma keys_forallb l :
  forallb (fun k => match k_key k with Mac _ => true | BadMac => false end) l = true <->
  Forall (fun k => exists m, k_key k = Mac m) l.
Proof.
  rewrite forallb_forall, Forall_forall. split; intros H k Hk; specialize (H k Hk).
  - destruct (k_key k) as [|m]; [discriminate|]. exists m. reflexivity.
  - destruct H as [m ->]. reflexivity.
Qed.

Theorem valid_config_b_iff c own own_mac : valid_config_b c own own_mac = true <-> valid_config c own own_mac.
Proof.
  unfold valid_config_b. split.
  - destruct (g_network c) as [| |ip mask] eqn:En; try discriminate.
    destruct (g_lease c) as [|ns] eqn:El; try discriminate. destruct own as [self|]; try discriminate.
    rewrite !andb_true_iff, negb_true_iff, mem_bytes_notin, nodup_bytes_iff, nodup_n_iff, keys_forallb.
    intros ((((((((((((((((G1 & G2) & G3) & G4) & G5) & G6) & G7) & G8) & R) & O) & K) & A) & F) & S) & M) & I) & W).
    rewrite forallb_forall in A, F, S.
    constructor; auto.
    + exists ip, mask. exact En.
    + exists ns. exact El.
    + intros ns' E. rewrite El in E. injection E as <-. lia.
    + intros ns' E. rewrite El in E. injection E as <-. lia.
    + exists self. auto.
    + apply Forall_forall. intros k Hk. specialize (A k Hk). rewrite !andb_true_iff in A. tauto.
    + apply Forall_forall. intros k Hk. specialize (F k Hk). rewrite !andb_true_iff in F. tauto.
    + intros m n Hin. apply (S (m, n) Hin).
    + intros self' E. injection E as <-. exact I.
  - intros [(ip & mask & En) (ns & El) Vmin Vfit (A1 & A2 & A3) (B1 & B2 & B3) Vr (self & -> & Vown) Vk Va Vf Vs Vm Vi Vo].
    rewrite En, El. specialize (Vmin ns El). specialize (Vfit ns El). specialize (Vi self eq_refl).
    rewrite A1, A2, A3, B1, B2, B3, Vr, Vown.
    rewrite (proj2 (keys_forallb _) Vk), (proj2 (nodup_bytes_iff _) Vm), (proj2 (nodup_n_iff _) Vi), (proj2 (mem_bytes_notin _ _) Vo).
    rewrite Forall_forall in Va, Vf.
    assert (HA : forallb (fun k => addr_ok (k_ip k) && addr_ok (k_router k) && list_ok (k_dns k) && list_ok (k_ntp k)) (g_clients c) = true).
    { apply forallb_forall. intros k Hk. destruct (Va k Hk) as (X1 & X2 & X3 & X4). rewrite X1, X2, X3, X4. reflexivity. }
    assert (HF : forallb (fun k => fits_addrs (k_dns k) && fits_addrs (k_ntp k) && fits_bytes (k_hostname k)) (g_clients c) = true).
    { apply forallb_forall. intros k Hk. destruct (Vf k Hk) as (X1 & X2 & X3). rewrite X1, X2, X3. reflexivity. }
    assert (HS : forallb (fun p => in_network c (snd p)) (statics (g_clients c)) = true).
    { apply forallb_forall. intros [m n] Hin. apply (Vs m n Hin). }
    rewrite HA, HF, HS. cbn [negb andb]. rewrite !andb_true_r. apply andb_true_iff. split; lia.
Qed.

(* the model accepts exactly what the monitor's test accepts *)
Theorem new_server_accepts_iff_b c own own_mac : is_ok (new_server c own own_mac) = valid_config_b c own own_mac.
Proof.
  destruct (valid_config_b c own own_mac) eqn:E.
  - apply valid_config_b_iff in E. apply new_server_complete in E as (s & ->). reflexivity.
  - destruct (new_server c own own_mac) as [s| |] eqn:E'; try reflexivity.
    apply new_server_sound in E'. apply valid_config_b_iff in E'. congruence.
Qed.
