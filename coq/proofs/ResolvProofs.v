(* C17: what resolvconf.Run writes, for every environment. *)
From PSA Require Import gen.GoFacts model.Bytes model.Sanitize model.Resolv spec.SpecResolv proofs.ClientsProofs proofs.SanitizeProofs.
From Coq Require Import ZifyN ZifyNat ZifyBool.
Ltac Zify.zify_post_hook ::= Z.div_mod_to_equations.
Open Scope N_scope.

(* ---------- the classes found in the source are the classes of the specification ---------- *)
Definition first128 : list N := map N.of_nat (seq 0 128).

Lemma in_first128 c : c < 128 -> In c first128.
Proof.
  intros H. unfold first128. apply in_map_iff. exists (N.to_nat c). split; [apply N2Nat.id|].
  apply in_seq. lia.
Qed.

Lemma mem_n_big cls c : forallb (fun x => x <? 128) cls = true -> 128 <= c -> mem_n c cls = false.
Proof.
  intros A H. destruct (mem_n c cls) eqn:E; [|reflexivity].
  apply mem_n_in in E. rewrite forallb_forall in A. apply A in E. lia.
Qed.

Lemma class_byte_eq cls (f : N -> bool) :
  forallb (fun c => Bool.eqb (mem_n c cls) (f c)) first128 = true ->
  (forall c, 128 <= c -> f c = false) ->
  forall c, class_byte cls false c = f c.
Proof.
  intros H1 H3 c. unfold class_byte, class_matches_ascii, class_matches_other.
  destruct (c <? 128) eqn:L.
  - rewrite forallb_forall in H1. specialize (H1 c (in_first128 c ltac:(lia))).
    apply eqb_prop in H1. rewrite <- H1. destruct (mem_n c cls); reflexivity.
  - symmetry. apply H3. lia.
Qed.

Lemma good_chars_class_byte : forall c, class_byte gf_re_good_chars_class false c = host_char c.
Proof.
  apply class_byte_eq.
  - vm_compute. reflexivity.
  - intros c H. unfold host_char, is_alpha, is_digit. lia.
Qed.

Lemma good_nums_class_byte : forall c, class_byte gf_re_good_nums_class false c = num_char c.
Proof.
  apply class_byte_eq.
  - vm_compute. reflexivity.
  - intros c H. unfold num_char, is_digit. lia.
Qed.

Lemma forallb_ext' {A} (f g : A -> bool) l : (forall x, f x = g x) -> forallb f l = forallb g l.
Proof. intros H. induction l as [|a l IH]; cbn; [reflexivity|]. rewrite H, IH. reflexivity. Qed.

(* reGoodChars.MatchString / reGoodNums.MatchString = "non-empty and every byte in the class" *)
Lemma good_chars_spec s : good_chars s = is_token host_char s.
Proof.
  unfold good_chars, re_match. change gf_re_good_chars_anchored with true. change gf_re_good_chars_negated with false.
  rewrite (forallb_ext' _ _ s good_chars_class_byte). destruct s; reflexivity.
Qed.

Lemma good_nums_spec s : good_nums s = is_token num_char s.
Proof.
  unfold good_nums, re_match. change gf_re_good_nums_anchored with true. change gf_re_good_nums_negated with false.
  rewrite (forallb_ext' _ _ s good_nums_class_byte). destruct s; reflexivity.
Qed.

Lemma is_token_token cls t : is_token cls t = true <-> token cls t.
Proof.
  unfold is_token, token. destruct t as [|c r].
  - split; [discriminate | intros [H _]; contradiction].
  - rewrite forallb_forall, Forall_forall. split; [intros H; split; [discriminate | exact H] | intros [_ H]; exact H].
Qed.

(* ---------- SplitN(e, "=", 2) with a key comparison = "e starts with key=" ---------- *)
Definition value_for (key e : bytes) : option bytes :=
  match split_first 61 e with
  | Some (k, v) => if bytes_eqb k key then Some v else None
  | None => None
  end.

Lemma value_for_strip : forall key e, forallb (fun c => negb (c =? 61)) key = true -> value_for key e = strip_prefix (key ++ [61]) e.
Proof.
  unfold value_for. induction key as [|x key IH]; intros e Hk.
  - destruct e as [|c r]; [reflexivity|]. cbn [split_first app strip_prefix]. rewrite (N.eqb_sym 61 c).
    destruct (c =? 61); [reflexivity|]. destruct (split_first 61 r) as [[k v]|]; reflexivity.
  - cbn [forallb] in Hk. apply andb_true_iff in Hk as [Hx Hk]. apply negb_true_iff in Hx.
    destruct e as [|c r]; [reflexivity|]. cbn [split_first app strip_prefix].
    destruct (c =? 61) eqn:E.
    + apply N.eqb_eq in E. subst c. rewrite Hx. reflexivity.
    + specialize (IH r Hk). destruct (split_first 61 r) as [[k v]|].
      * cbn [bytes_eqb]. rewrite (N.eqb_sym x c). destruct (c =? x); cbn [andb]; [exact IH | reflexivity].
      * rewrite <- IH. destruct (x =? c); reflexivity.
Qed.

Lemma key_domain_is : gf_resolv_key_domain = s_key_domain.
Proof. reflexivity. Qed.
Lemma key_dns_is : gf_resolv_key_dns = s_key_dns.
Proof. reflexivity. Qed.
Lemma key_domain_noeq : forallb (fun c => negb (c =? 61)) s_key_domain = true.
Proof. vm_compute. reflexivity. Qed.
Lemma key_dns_noeq : forallb (fun c => negb (c =? 61)) s_key_dns = true.
Proof. vm_compute. reflexivity. Qed.

(* ---------- strings.Split(v, ",") = comma separated pieces ---------- *)
Lemma split_on_nonempty sep b : split_on sep b <> [].
Proof.
  destruct b as [|c r]; cbn; [discriminate|]. destruct (c =? sep); [discriminate|].
  destruct (split_on sep r); discriminate.
Qed.

Lemma pieces_acc_split : forall b cur,
  pieces_acc cur b = match split_on 44 b with h :: t => (rev cur ++ h) :: t | [] => [rev cur] end.
Proof.
  induction b as [|c r IH]; intros cur; cbn [pieces_acc split_on].
  - rewrite app_nil_r. reflexivity.
  - destruct (c =? 44).
    + rewrite app_nil_r, (IH []). cbn [rev app]. pose proof (split_on_nonempty 44 r). destruct (split_on 44 r); [contradiction | reflexivity].
    + rewrite (IH (c :: cur)). pose proof (split_on_nonempty 44 r). destruct (split_on 44 r) as [|h t]; [contradiction|].
      cbn [rev]. rewrite <- app_assoc. reflexivity.
Qed.

Lemma pieces_split b : split_on gf_resolv_list_sep b = pieces b.
Proof.
  unfold pieces. rewrite pieces_acc_split. change gf_resolv_list_sep with 44.
  pose proof (split_on_nonempty 44 b). destruct (split_on 44 b); [contradiction | reflexivity].
Qed.

(* ---------- one step of the scan, by projection ---------- *)
Definition dom_of (e : bytes) : option bytes :=
  match strip_prefix (s_key_domain ++ [61]) e with
  | Some v => if is_token host_char v then Some v else None
  | None => None
  end.
Definition ns_of (e : bytes) : list bytes :=
  match strip_prefix (s_key_dns ++ [61]) e with
  | Some v => filter (is_token num_char) (pieces v)
  | None => []
  end.

Lemma filter_ext' {A} (f g : A -> bool) l : (forall x, f x = g x) -> filter f l = filter g l.
Proof. intros H. induction l as [|a l IH]; cbn; [reflexivity|]. rewrite H, IH. reflexivity. Qed.

Lemma scan_entry_domain st e :
  sc_domain (scan_entry st e) = match dom_of e with Some d => d | None => sc_domain st end.
Proof.
  unfold dom_of. rewrite <- (value_for_strip _ _ key_domain_noeq). unfold scan_entry, value_for.
  change gf_resolv_kv_sep with 61. rewrite key_domain_is.
  destruct (split_first 61 e) as [[k v]|]; [|reflexivity]. cbn [sc_domain].
  rewrite good_chars_spec. destruct (bytes_eqb k s_key_domain); cbn [andb]; [|reflexivity].
  destruct (is_token host_char v); reflexivity.
Qed.

Lemma scan_entry_ns st e : sc_ns (scan_entry st e) = sc_ns st ++ ns_of e.
Proof.
  unfold ns_of. rewrite <- (value_for_strip _ _ key_dns_noeq). unfold scan_entry, value_for.
  change gf_resolv_kv_sep with 61. rewrite key_dns_is.
  destruct (split_first 61 e) as [[k v]|]; [|rewrite app_nil_r; reflexivity]. cbn [sc_ns].
  destruct (bytes_eqb k s_key_dns); cbn [andb]; [|rewrite app_nil_r; reflexivity].
  rewrite pieces_split, (filter_ext' _ _ (pieces v) good_nums_spec).
  destruct v as [|c r]; cbn [is_nil negb]; [|reflexivity].
  cbn. rewrite app_nil_r. reflexivity.
Qed.

(* ---------- the scan computes the specified domain and name servers ---------- *)
Lemma values_of_app key a b : values_of key (a ++ b) = values_of key a ++ values_of key b.
Proof. unfold values_of. apply flat_map_app. Qed.

Lemma spec_nameservers_app a b : spec_nameservers (a ++ b) = spec_nameservers a ++ spec_nameservers b.
Proof. unfold spec_nameservers. rewrite values_of_app. apply flat_map_app. Qed.

Lemma spec_nameservers_one e : spec_nameservers [e] = ns_of e.
Proof.
  unfold spec_nameservers, values_of, ns_of. cbn [flat_map]. rewrite app_nil_r.
  destruct (strip_prefix (s_key_dns ++ [61]) e); cbn [flat_map]; [apply app_nil_r | reflexivity].
Qed.

Lemma spec_domain_snoc env e :
  spec_domain (env ++ [e]) = match dom_of e with Some d => Some d | None => spec_domain env end.
Proof.
  unfold spec_domain, dom_of. rewrite values_of_app, filter_app, rev_app_distr.
  unfold values_of at 1. cbn [flat_map]. rewrite app_nil_r.
  destruct (strip_prefix (s_key_domain ++ [61]) e) as [v|]; cbn [filter rev app]; [|reflexivity].
  destruct (is_token host_char v); reflexivity.
Qed.

Lemma scan_snoc env e : scan (env ++ [e]) = scan_entry (scan env) e.
Proof. unfold scan. rewrite fold_left_app. reflexivity. Qed.

Lemma scan_ns : forall env, sc_ns (scan env) = spec_nameservers env.
Proof.
  induction env as [|e env IH] using rev_ind; [reflexivity|].
  rewrite scan_snoc, scan_entry_ns, IH, spec_nameservers_app, spec_nameservers_one. reflexivity.
Qed.

Lemma scan_domain : forall env, sc_domain (scan env) = match spec_domain env with Some d => d | None => [] end.
Proof.
  induction env as [|e env IH] using rev_ind; [reflexivity|].
  rewrite scan_snoc, scan_entry_domain, IH, spec_domain_snoc. destruct (dom_of e); reflexivity.
Qed.

Lemma spec_domain_token env d : spec_domain env = Some d -> token host_char d.
Proof.
  unfold spec_domain. intros H.
  destruct (rev (filter (is_token host_char) (values_of s_key_domain env))) as [|x l] eqn:E; [discriminate|].
  injection H as ->. assert (I : In d (rev (filter (is_token host_char) (values_of s_key_domain env)))) by (rewrite E; left; reflexivity).
  apply in_rev in I. apply filter_In in I as [_ I]. apply is_token_token, I.
Qed.

Lemma spec_nameservers_tokens env : Forall (token num_char) (spec_nameservers env).
Proof.
  apply Forall_forall. intros t H. unfold spec_nameservers in H. apply in_flat_map in H as (v & _ & H).
  apply filter_In in H as [_ H]. apply is_token_token, H.
Qed.

(* ---------- render = the functional specification ---------- *)
Theorem render_is_spec : forall env, render env = spec_render env.
Proof.
  intros env. unfold render, spec_render. rewrite scan_ns, scan_domain.
  destruct (spec_nameservers env) as [|n nss]; [reflexivity|].
  f_equal. unfold spec_file. change gf_resolv_header with s_header. f_equal. f_equal.
  destruct (spec_domain env) as [d|] eqn:E.
  - apply spec_domain_token in E as [E _]. destruct d; [contradiction|]. reflexivity.
  - reflexivity.
Qed.

(* ---------- the constructor form of the grammar is in the grammar ---------- *)
Lemma ns_lines_flat_map nss : Forall (token num_char) nss -> ns_lines (flat_map (fun n => s_ns ++ n ++ [10]) nss).
Proof.
  induction 1 as [|n nss Hn _ IH]; cbn [flat_map]; [constructor|].
  replace ((s_ns ++ n ++ [10]) ++ flat_map (fun n0 => s_ns ++ n0 ++ [10]) nss)
    with (s_ns ++ n ++ 10 :: flat_map (fun n0 => s_ns ++ n0 ++ [10]) nss) by (rewrite <- !app_assoc; reflexivity).
  constructor; assumption.
Qed.

Lemma spec_file_grammar dom nss :
  (forall d, dom = Some d -> token host_char d) -> Forall (token num_char) nss -> resolv_file (spec_file dom nss).
Proof.
  intros Hd Hn. unfold spec_file. destruct dom as [d|].
  - replace ((s_search ++ d ++ [10]) ++ flat_map (fun n => s_ns ++ n ++ [10]) nss)
      with (s_search ++ d ++ 10 :: flat_map (fun n => s_ns ++ n ++ [10]) nss) by (rewrite <- !app_assoc; reflexivity).
    apply rf_search; [apply Hd; reflexivity | apply ns_lines_flat_map, Hn].
  - cbn [app]. apply rf_plain, ns_lines_flat_map, Hn.
Qed.

(* every file in the grammar is built by the constructor from tokens *)
Lemma ns_lines_inv b : ns_lines b -> exists nss, b = flat_map (fun n => s_ns ++ n ++ [10]) nss /\ Forall (token num_char) nss.
Proof.
  induction 1 as [|t rest Ht _ (nss & -> & F)].
  - exists []. split; [reflexivity | constructor].
  - exists (t :: nss). split; [|constructor; assumption]. cbn [flat_map]. rewrite <- !app_assoc. reflexivity.
Qed.

Theorem resolv_file_iff_spec_file f :
  resolv_file f <-> exists dom nss, f = spec_file dom nss /\ (forall d, dom = Some d -> token host_char d) /\ Forall (token num_char) nss.
Proof.
  split.
  - intros [rest H | t rest Ht H]; apply ns_lines_inv in H as (nss & -> & F).
    + exists None, nss. split; [reflexivity|]. split; [discriminate | exact F].
    + exists (Some t), nss. split; [unfold spec_file; rewrite <- !app_assoc; reflexivity|]. split; [intros d [= <-]; exact Ht | exact F].
  - intros (dom & nss & -> & Hd & Hn). apply spec_file_grammar; assumption.
Qed.

(* ---------- main theorem on the shape of the written file ---------- *)
Theorem render_grammar : forall env f, render env = Some f ->
  resolv_file f /\
  exists dom nss, f = spec_file dom nss /\ nss <> [] /\ (forall d, dom = Some d -> token host_char d) /\ Forall (token num_char) nss.
Proof.
  intros env f H. rewrite render_is_spec in H. unfold spec_render in H.
  destruct (spec_nameservers env) as [|n nss] eqn:E; [discriminate|]. injection H as <-.
  assert (F : Forall (token num_char) (n :: nss)) by (rewrite <- E; apply spec_nameservers_tokens).
  split.
  - apply spec_file_grammar; [apply spec_domain_token | exact F].
  - exists (spec_domain env), (n :: nss). split; [reflexivity|]. split; [discriminate|]. split; [apply spec_domain_token | exact F].
Qed.

(* nothing is written exactly when the environment supplies no valid name-server token *)
Theorem render_none_iff : forall env,
  render env = None <->
  (forall e v t, In e env -> strip_prefix (s_key_dns ++ [61]) e = Some v -> In t (pieces v) -> is_token num_char t = false).
Proof.
  intros env. rewrite render_is_spec. unfold spec_render. split.
  - intros H e v t He Hv Ht. destruct (spec_nameservers env) as [|n nss] eqn:E; [|discriminate].
    destruct (is_token num_char t) eqn:T; [|reflexivity]. exfalso.
    assert (I : In t (spec_nameservers env)).
    { unfold spec_nameservers. apply in_flat_map. exists v. split.
      - unfold values_of. apply in_flat_map. exists e. split; [exact He|]. rewrite Hv. left. reflexivity.
      - apply filter_In. split; assumption. }
    rewrite E in I. contradiction.
  - intros H. destruct (spec_nameservers env) as [|n nss] eqn:E; [reflexivity|]. exfalso.
    assert (I : In n (spec_nameservers env)) by (rewrite E; left; reflexivity).
    unfold spec_nameservers in I. apply in_flat_map in I as (v & Hv & I). apply filter_In in I as [I T].
    unfold values_of in Hv. apply in_flat_map in Hv as (e & He & Hv).
    destruct (strip_prefix (s_key_dns ++ [61]) e) as [v'|] eqn:S; [|contradiction].
    destruct Hv as [<- | []]. rewrite (H e v' n He S I) in T. discriminate.
Qed.

(* ---------- the boolean recogniser decides the grammar ---------- *)
Lemma span_spec cls : forall b t r, span cls b = (t, r) ->
  b = t ++ r /\ Forall (fun c => cls c = true) t.
Proof.
  induction b as [|c b IH]; intros t r H; cbn [span] in H.
  - injection H as <- <-. split; [reflexivity | constructor].
  - destruct (cls c) eqn:C.
    + destruct (span cls b) as [t' r'] eqn:S. injection H as <- <-. destruct (IH _ _ eq_refl) as [-> F].
      split; [reflexivity | constructor; assumption].
    + injection H as <- <-. split; [reflexivity | constructor].
Qed.

Lemma span_token cls : forall t c r, Forall (fun x => cls x = true) t -> cls c = false -> span cls (t ++ c :: r) = (t, c :: r).
Proof.
  induction t as [|x t IH]; intros c r F C; cbn [app span].
  - rewrite C. reflexivity.
  - inversion F as [|? ? Hx Ft]; subst. rewrite Hx, (IH c r Ft C). reflexivity.
Qed.

Lemma line_ok_sound kw cls b r : line_ok kw cls b = Some r -> exists t, token cls t /\ b = kw ++ t ++ 10 :: r.
Proof.
  unfold line_ok. destruct (strip_prefix kw b) as [b1|] eqn:P; [|discriminate].
  apply strip_prefix_spec in P. destruct (span cls b1) as [t r1] eqn:S.
  apply span_spec in S as [-> F]. destruct t as [|x t]; [discriminate|].
  destruct r1 as [|y r1]; [discriminate|].
  destruct (N.eq_dec y 10) as [E|E].
  - subst y. intros [= <-]. exists (x :: t). split; [split; [discriminate | exact F]|]. rewrite P. reflexivity.
  - intros H. exfalso. destruct y as [|p]; [discriminate|].
    repeat (destruct p as [p|p|]; try discriminate H). apply E. reflexivity.
Qed.

Lemma line_ok_complete kw cls t r : token cls t -> cls 10 = false -> line_ok kw cls (kw ++ t ++ 10 :: r) = Some r.
Proof.
  intros [N F] C. unfold line_ok. rewrite strip_prefix_app, (span_token cls t 10 r F C).
  destruct t; [contradiction | reflexivity].
Qed.

Lemma ns_lines_ok_sound : forall fuel b, ns_lines_ok fuel b = true -> ns_lines b.
Proof.
  induction fuel as [|f IH]; intros b H; destruct b as [|c b]; cbn [ns_lines_ok] in H; try constructor; try discriminate.
  destruct (line_ok s_ns num_char (c :: b)) as [r|] eqn:L; [|discriminate].
  apply line_ok_sound in L as (t & T & ->). constructor; [exact T | apply IH, H].
Qed.

Lemma ns_lines_ok_complete : forall b, ns_lines b -> forall fuel, (length b <= fuel)%nat -> ns_lines_ok fuel b = true.
Proof.
  induction 1 as [|t rest T _ IH]; intros fuel Hl; [destruct fuel; reflexivity|].
  destruct fuel as [|f].
  - exfalso. rewrite app_length in Hl. cbn in Hl. lia.
  - assert (E : ns_lines_ok (S f) (s_ns ++ t ++ 10 :: rest) =
                match line_ok s_ns num_char (s_ns ++ t ++ 10 :: rest) with Some r => ns_lines_ok f r | None => false end) by reflexivity.
    rewrite E, (line_ok_complete s_ns num_char t rest T eq_refl). apply IH.
    rewrite !app_length in Hl. cbn [length] in Hl. lia.
Qed.

Lemma ns_lines_not_search b : ns_lines b -> line_ok s_search host_char b = None.
Proof. intros [|t rest _ _]; reflexivity. Qed.

Theorem resolv_ok_iff : forall f, resolv_ok f = true <-> resolv_file f.
Proof.
  intros f. unfold resolv_ok. split.
  - destruct (strip_prefix s_header f) as [r|] eqn:P; [|discriminate]. apply strip_prefix_spec in P. subst f.
    destruct (line_ok s_search host_char r) as [r'|] eqn:L; intros H; apply ns_lines_ok_sound in H.
    + apply line_ok_sound in L as (t & T & ->). apply rf_search; assumption.
    + apply rf_plain, H.
  - intros [rest H | t rest T H]; rewrite strip_prefix_app.
    + rewrite (ns_lines_not_search rest H). apply ns_lines_ok_complete; [exact H | apply le_n].
    + rewrite (line_ok_complete s_search host_char t rest T eq_refl). apply ns_lines_ok_complete; [exact H | apply le_n].
Qed.

Theorem render_recognised : forall env f, render env = Some f -> resolv_ok f = true.
Proof. intros env f H. apply resolv_ok_iff. apply (render_grammar env f H). Qed.

(* no byte outside the token classes can sit inside a token: in particular no newline, space or NUL *)
Theorem token_chars_meaning :
  (forall c, host_char c = true <-> (65 <= c <= 90 \/ 97 <= c <= 122 \/ 48 <= c <= 57 \/ c = 46 \/ c = 45)) /\
  (forall c, num_char c = true <-> (48 <= c <= 57 \/ c = 46)).
Proof. split; intros c; unfold host_char, num_char, is_alpha, is_digit; lia. Qed.

(* ---------- composition: Ifconfig -> environment -> file, for all contents ---------- *)
Theorem compose_grammar : forall base c f,
  render (base ++ dump_script_conf c) = Some f \/ syshook (base ++ dump_script_conf c) = Some f ->
  script_env_ok (dump_script_conf c) = true /\ resolv_file f /\ resolv_ok f = true /\
  exists dom nss, f = spec_file dom nss /\ nss <> [] /\ (forall d, dom = Some d -> token host_char d) /\ Forall (token num_char) nss.
Proof.
  intros base c f H. split; [apply dump_script_conf_ok|].
  assert (G : exists env, render env = Some f) by (destruct H as [H|H]; [eexists; exact H | unfold syshook in H; eexists; exact H]).
  destruct G as (env & G). split; [apply (render_grammar env f G)|]. split; [apply (render_recognised env f G) | apply (render_grammar env f G)].
Qed.

(* what the file built from a configuration contains: only the sanitised domain name and DNS list matter *)
Theorem compose_content : forall c,
  render (dump_script_conf c) =
  spec_render [s_key_domain ++ [61] ++ sanitize (ic_domain c); s_key_dns ++ [61] ++ sanitize (join_with 44 (ic_dns c))].
Proof.
  intros c. rewrite render_is_spec. unfold spec_render, spec_nameservers, spec_domain, values_of, dump_script_conf, ifconf_values.
  rewrite env_keys_are. unfold s_keys. cbn [zip_entries]. rewrite !env_entry_shape. change gf_env_dns_join with 44.
  reflexivity.
Qed.
