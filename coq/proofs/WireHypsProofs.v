(* the boolean premises of spec/WireHyps.v imply the premises of the wire-level theorems *)
From PSA Require Import gen.GoFacts model.Bytes model.Dhcp model.Clients model.Ipdb model.IpdbCheck model.Server spec.WireHyps
  proofs.ClientsProofs proofs.DhcpProofs proofs.ServerProofs proofs.WireProofs proofs.WireInv proofs.WireLease proofs.WireSnap.
From Coq Require Import ZifyN ZifyNat ZifyBool.
Open Scope N_scope.

Lemma h_opts_ok_sound os : h_opts_ok os = true -> opts_ok os = true.
Proof.
  unfold h_opts_ok, opts_ok. intros H. apply andb_true_iff in H as [Hf Hl]. rewrite Hl, andb_true_r. clear Hl.
  induction os as [|o os IH]; [reflexivity|]. cbn [forallb] in *. apply andb_true_iff in Hf as [Ho Hr]. specialize (IH Hr).
  rewrite !andb_true_iff in IH. destruct IH as ((I1 & I2) & I3). rewrite I1, I2, I3, !andb_true_r.
  unfold h_opt_ok in Ho. rewrite !andb_true_iff in Ho. destruct Ho as (((((A & B) & C) & D) & E) & F).
  unfold wf_opt, wf_opt_bytes, no_reply_codes. rewrite A, B, C, D, E, F. cbn. replace (fst o <? 256) with true by lia. reflexivity.
Qed.

Lemma h_cfg_wire_sound c : h_cfg_wire c = true -> cfg_wire_ok c.
Proof.
  unfold h_cfg_wire, cfg_wire_ok. rewrite !andb_true_iff. intros (((A & B) & C) & D). repeat split; try lia.
  - apply h_opts_ok_sound; exact C.
  - apply Forall_forall. intros p Hp. apply h_opts_ok_sound. rewrite forallb_forall in D. exact (D p Hp).
Qed.

Lemma nodup_b_sound {A} (eqb : A -> A -> bool) (l : list A) : (forall a b, eqb a b = true <-> a = b) -> nodup_b eqb l = true -> NoDup l.
Proof.
  intros He. induction l as [|x l IH]; [constructor|]. cbn [nodup_b]. intros H. apply andb_true_iff in H as [H1 H2].
  constructor; [|apply IH; exact H2]. intros Hin. apply negb_true_iff in H1. apply not_true_iff_false in H1. apply H1.
  apply existsb_exists. exists x. split; [exact Hin|apply He; reflexivity].
Qed.

Lemma h_cfg_srv_sound c : h_cfg_srv c = true -> cfg_srv_ok c.
Proof.
  unfold h_cfg_srv. rewrite !andb_true_iff. intros (((A & B) & C) & D). change (h_pairs c) with (perm_pairs c) in *. constructor.
  - eapply nodup_b_sound; [|exact A]. intros a b. apply bytes_eqb_eq.
  - eapply nodup_b_sound; [|exact B]. intros a b. apply N.eqb_eq.
  - intros mac ip Hin. rewrite forallb_forall in C. specialize (C _ Hin). cbn [snd] in C. lia.
  - intros Hd. rewrite Hd in D. cbn in D. lia.
Qed.

Lemma h_round_end_eq r : h_round_end r = round_end r. Proof. reflexivity. Qed.

Lemma h_seq_times_sound h : forall now, h_seq_times now h = true -> seq_times now h.
Proof.
  induction h as [|r h IH]; intros now H; [exact I|]. cbn [h_seq_times] in H. apply andb_true_iff in H as [H1 H2].
  split; [lia|]. apply IH. exact H2.
Qed.

Lemma wf_rounds_sound h : forallb (fun r => wf_bytes (r_pkt r)) h = true -> Forall wf_round h.
Proof. intros H. apply Forall_forall. intros r Hr. rewrite forallb_forall in H. exact (H r Hr). Qed.

Lemma opts_for_cases c mac : opts_for c mac = c_default_opts c \/ exists k, In (k, opts_for c mac) (c_opts c).
Proof.
  unfold opts_for. destruct (assoc mac (c_opts c)) as [o|] eqn:E; [right; eapply assoc_in; eauto|left; reflexivity].
Qed.

Lemma h_cfg_lease_sound c : h_cfg_lease c = true -> cfg_lease_ok c.
Proof.
  unfold h_cfg_lease. intros H. apply andb_true_iff in H as [Hd Ha]. rewrite forallb_forall in Ha. intros mac.
  destruct (opts_for_cases c mac) as [->|[k Hk]].
  - unfold h_lease_opt in Hd. lia.
  - specialize (Ha _ Hk). unfold h_lease_opt in Ha. cbn [snd] in Ha. lia.
Qed.

Lemma h_cfg_c07_sound c : h_cfg_c07 c = true -> cfg_c07_ok c.
Proof.
  unfold h_cfg_c07. intros H. apply andb_true_iff in H as [Hd Ha]. rewrite forallb_forall in Ha. intros mac.
  assert (G : forall os, h_c07_opt c os = true -> o_lease (decode_options os) = Z.to_N (c_lease c / 1000000000) /\ o_mask (decode_options os) <> None).
  { intros os Ho. unfold h_c07_opt in Ho. apply andb_true_iff in Ho as [A B]. apply N.eqb_eq in A. split; [exact A|].
    destruct (o_mask (decode_options os)); [discriminate|discriminate B]. }
  destruct (opts_for_cases c mac) as [->|[k Hk]]; [apply G; exact Hd|]. apply G. exact (Ha _ Hk).
Qed.

Lemma h_snap_times_sound h : forall now, h_snap_times now h = true -> snap_times now h.
Proof.
  induction h as [|r h IH]; intros now H; [exact I|]. cbn [h_snap_times] in H. rewrite !andb_true_iff in H.
  destruct H as (((((A & B) & C) & D) & E) & F). change (h_round_end r) with (round_end r) in *.
  repeat split; try lia; auto.
  - eapply nodup_b_sound; [|exact E]. intros a b. apply N.eqb_eq.
Qed.

(* everything the wire-level theorems ask for *)
Record wire_premises (c : scfg) (h : list round) : Prop := {
  wp_wire : cfg_wire_ok c; wp_srv : cfg_srv_ok c; wp_lease : cfg_lease_ok c; wp_c07 : cfg_c07_ok c; wp_dur : durations_ok c;
  wp_wf : Forall wf_round h; wp_seq : seq_times 0%Z h; wp_snap : snap_times 0%Z h }.

Theorem wire_hyps_sound c h : wire_hyps c h = true ->
  cfg_wire_ok c /\ cfg_srv_ok c /\ Forall wf_round h /\ seq_times 0%Z h /\ (0 <= hold_ns <= c_lease c)%Z /\ (0 <= req_hold_ns <= c_lease c)%Z.
Proof.
  unfold wire_hyps. rewrite !andb_true_iff. intros (((((((A & B) & C) & D) & E) & _) & _) & _).
  split; [apply h_cfg_wire_sound; exact A|]. split; [apply h_cfg_srv_sound; exact B|]. split; [apply wf_rounds_sound; exact D|].
  split; [apply h_seq_times_sound; exact E|]. unfold h_durations in C. lia.
Qed.

Theorem wire_hyps_premises c h : wire_hyps c h = true -> wire_premises c h.
Proof.
  unfold wire_hyps. rewrite !andb_true_iff. intros (((((((A & B) & C) & D) & E) & F) & G) & H). constructor.
  - apply h_cfg_wire_sound; exact A.
  - apply h_cfg_srv_sound; exact B.
  - apply h_cfg_lease_sound; exact F.
  - apply h_cfg_c07_sound; exact H.
  - unfold h_durations in C. unfold durations_ok. lia.
  - apply wf_rounds_sound; exact D.
  - apply h_seq_times_sound; exact E.
  - apply h_snap_times_sound; exact G.
Qed.
