(* Proof that every run of the client automaton satisfies the history statement of spec/SpecClientHistory.v. *)
From PSA Require Import gen.GoFacts model.Bytes model.Client proofs.ClientProofs spec.SpecClientHistory.
From Coq Require Import ZifyN ZifyNat ZifyBool.
Open Scope Z_scope.

(* the observable trace compared with the implementation is the concatenation of the iterations' actions *)
Theorem run_script_is_steps croute script : forall s,
  run_script croute s script = concat (map sr_acts (run_steps croute s script)).
Proof.
  induction script as [|[e c] rest IH]; intros s; cbn [run_script run_steps]; [reflexivity|].
  destruct (run_iter croute s e c) as [[s' acts] st]. destruct st; cbn [map concat sr_acts]; rewrite ?IH, ?app_nil_r; reflexivity.
Qed.

(* ---------- the invariant tying the automaton's state to the history ---------- *)
Definition GInv (croute : bool) (s : cst) (g : ghost) : Prop :=
  match c_phase s with
  | PPurge => True
  | PDiscover | PSelect => g_conf g = None
  | PArp => g_ack g = Some (c_last s)
  | PIfconfig => g_ack g = Some (c_last s) /\ g_arp_clean g = true
  | PBound => g_ack g = Some (c_last s) /\ g_conf g = Some (build_netconf croute (c_last s)) /\ g_bound_at g = c_now s /\ g_linkup g = None
  | PRenew | PRebind =>
    g_ack g = Some (c_last s) /\ g_conf g = Some (build_netconf croute (c_last s)) /\
    snd (fst (g_deadlines g (c_last s))) = c_t2 s /\ snd (g_deadlines g (c_last s)) = c_tx s
  end /\
  match g_pending g with
  | PNone => True
  | PMustPurge => c_phase s = PPurge
  | PMustDiscover => c_phase s = PDiscover
  | PMustRebind d => c_phase s = PRebind /\ c_tx s = d
  end.

Lemma ginv_initial croute : GInv croute initial_client ghost0.
Proof. split; reflexivity. Qed.

(* the actions run_iter appends (crash / return) do not touch the summary *)
Lemma fold_ghost_app g acts extra :
  (forall a, In a extra -> match a with ACrash _ | AReturn _ => True | _ => False end) ->
  fold_left ghost_act (acts ++ extra) g = fold_left ghost_act acts g.
Proof.
  intros H. rewrite fold_left_app. generalize (fold_left ghost_act acts g) as g'.
  induction extra as [|a extra IH]; intros g'; [reflexivity|]. cbn [fold_left].
  pose proof (H a (or_introl eq_refl)) as Ha. destruct a; try contradiction; cbn [ghost_act]; apply IH; intros b Hb; apply H; right; exact Hb.
Qed.


Ltac split_all := repeat match goal with |- _ /\ _ => split end.

(* ---------- stage 1: the state function (phase_step), all states x all outcomes ---------- *)
Definition core_ok (croute : bool) (g : ghost) (s : cst) (e : cevent) (s1 : cst) (acts1 : list action) : Prop :=
  let p := c_phase s in let t := c_now s in
  let g2 := fold_left ghost_act acts1 (ghost_reply g p e) in
  (forall ta c ok, In (ASetIface ta c ok) acts1 ->
     exists l, g_ack g = Some l /\ g_arp_clean g = true /\ c = build_netconf croute l /\ ta = t) /\
  (p = PBound \/ p = PRenew \/ p = PRebind -> exists l, g_ack g = Some l /\ g_conf g = Some (build_netconf croute l)) /\
  (p = PDiscover \/ p = PSelect -> g_conf g = None) /\
  match g_pending g with
  | PNone => True
  | PMustPurge => p = PPurge
  | PMustDiscover => p = PDiscover
  | PMustRebind d => p = PRebind /\ (forall pre, e = EExchange pre XTimeout -> c_now s1 = Z.max t d)
  end /\
  (p = PPurge -> acts1 = [AUnconfigure t; AUp t] /\ g_conf g2 = None) /\
  (forall dt, p = PArp -> e = EArp (AForeign dt) -> In (AUnconfigure (t + dt)) acts1 /\ g_conf g2 = None) /\
  (forall ca, p = PIfconfig -> e = ESetIface false ca -> g_conf g2 = None) /\
  (forall ta k, In (AExchange ta k) acts1 -> k = kind_of p /\ k <> 0%N) /\
  (forall l, g_ack g = Some l ->
     let '(T1, T2, TX) := g_deadlines g l in
     (p = PBound -> e = ESleep None -> c_phase s1 = PRenew /\ c_now s1 = Z.max t T1) /\
     (p = PRenew -> forall pre, e = EExchange pre XTimeout -> c_phase s1 = PRebind /\ c_now s1 = Z.max t T2) /\
     (p = PRebind -> forall pre, e = EExchange pre XTimeout ->
        c_now s1 = Z.max t TX /\ pending_after p e = PMustPurge /\ held_after p e = false)) /\
  GInv croute s1 (gn_run g2 p e) /\
  GInv croute (resume s1) (gn_ret g2 p e (c_now s1)).

Lemma phase_step_core croute s g e : GInv croute s g ->
  let (s1, acts1) := phase_step croute s e in core_ok croute g s e s1 acts1.
Proof.
  intros [HI HP]. unfold phase_step, sent.
  destruct (c_phase s) eqn:Ep; destruct e as [pre o|o|okk ca|ca|]; try destruct o; try destruct okk.
  all: try (destruct (deadlines (c_now s) (c_last s)) as [[t1 t2] tx] eqn:Ed).
  all: cbn [fst snd c_now c_phase with_phase with_last].
  all: repeat match goal with |- context [if ?b then _ else _] => destruct b eqn:? end.
  all: unfold core_ok, GInv, gn_run, gn_ret, ghost_reply, resume, g_deadlines, pending_after, held_after, fits, is_ack_phase, kind_of in *;
       cbn [c_phase c_now c_last c_t1 c_t2 c_tx with_phase with_last app fold_left ghost_act
            g_ack g_arp_clean g_conf g_bound_at g_linkup g_pending fst snd] in *; rewrite ?Ep in *;
       cbn [c_phase c_now c_last c_t1 c_t2 c_tx with_phase with_last app fold_left ghost_act
            g_ack g_arp_clean g_conf g_bound_at g_linkup g_pending fst snd] in *.
  all: split_all.
  all: try exact I.
  all: try reflexivity.
  all: try (intros; exfalso; repeat match goal with H : _ \/ _ |- _ => destruct H end; discriminate).
  all: try (destruct (g_pending g); intros; repeat match goal with H : _ /\ _ |- _ => destruct H end; try discriminate; try exact I; try reflexivity;
            (split; [assumption || reflexivity | intros; try discriminate; subst; cbn; try lia])).
  all: try (intros; repeat match goal with
            | H : _ /\ _ |- _ => destruct H
            | H : In _ (_ :: _) |- _ => destruct H
            | H : In _ [] |- _ => destruct H
            end; try discriminate;
            repeat match goal with
            | H : ASetIface _ _ _ = ASetIface _ _ _ |- _ => injection H as <- <- <-
            | H : AExchange _ _ = AExchange _ _ |- _ => injection H as <- <-
            end; solve [eauto 8 | split; [reflexivity | discriminate] | split_all; auto; try reflexivity; try congruence]).
  all: try (intros l0 Hl0;
    repeat match goal with H : _ /\ _ |- _ => destruct H end;
    try match goal with Ha : g_ack _ = Some (c_last _) |- _ => rewrite Ha in Hl0; injection Hl0 as <- end;
    try match goal with H : g_bound_at _ = _ |- _ => rewrite H in * end;
    destruct (g_linkup g) as [tl|] eqn:Elk; try discriminate;
    try rewrite Ed in *;
    try match goal with |- context [deadlines ?a ?b] => destruct (deadlines a b) as [[T1 T2] TX] eqn:EdG end;
    cbn [fst snd] in *; split_all; intros; try discriminate; subst; split_all; try reflexivity; try congruence; try lia).
  all: try (intros; repeat match goal with
            | H : _ /\ _ |- _ => destruct H
            | H : ESleep _ = ESleep _ |- _ => injection H as ->
            | H : EArp (AForeign _) = EArp (AForeign _) |- _ => injection H as ->
            | H : g_linkup _ = _ |- _ => rewrite H in *
            | H : g_bound_at _ = _ |- _ => rewrite H in *
            end; try rewrite Ed in *; cbn [fst snd In] in *; solve [auto | congruence | lia]).
Qed.

(* ---------- stage 2: the Run-loop iteration (limiter, cancellation) around it ---------- *)
Definition same_view (a b : cst) : Prop :=
  c_phase a = c_phase b /\ c_now a = c_now b /\ c_last a = c_last b /\ c_t2 a = c_t2 b /\ c_tx a = c_tx b.

Lemma GInv_view croute a b g : same_view a b -> GInv croute a g -> GInv croute b g.
Proof. intros (H1 & H2 & H3 & H4 & H5). unfold GInv. rewrite H1, H2, H3, H4, H5. auto. Qed.

Lemma resume_view a b : same_view a b -> same_view (resume a) (resume b).
Proof.
  intros (H1 & H2 & H3 & H4 & H5). unfold resume, same_view. rewrite H1. destruct (c_phase b); cbn; repeat split; congruence.
Qed.

Definition harmless (extra : list action) : Prop :=
  forall a, In a extra -> match a with ACrash _ | AReturn _ => True | _ => False end.

Lemma lift croute g s e c s1 acts1 s' extra st acts :
  core_ok croute g s e s1 acts1 -> harmless extra -> acts = acts1 ++ extra ->
  c_phase s' = c_phase s1 -> (st <> Crashed -> c_now s' = c_now s1) ->
  let r := {| sr_pre := s; sr_ev := e; sr_cancel := c; sr_acts := acts; sr_post := s'; sr_status := st |} in
  let g2 := fold_left ghost_act acts1 (ghost_reply g (c_phase s) e) in
  step_ok croute g r /\
  ghost_next g r = match st with Returned => gn_ret g2 (c_phase s) e (c_now s') | _ => gn_run g2 (c_phase s) e end.
Proof.
  intros (C1 & C2 & C3 & C4 & C5 & C6 & C7 & C8 & C9 & _ & _) Hx -> Hph Hnow r g2.
  assert (Hgn : ghost_next g r = match st with Returned => gn_ret g2 (c_phase s) e (c_now s') | _ => gn_run g2 (c_phase s) e end).
  { unfold ghost_next, r. cbn [sr_pre sr_ev sr_acts sr_post sr_status]. rewrite (fold_ghost_app _ _ _ Hx). reflexivity. }
  split; [|exact Hgn].
  assert (Hconf : g_conf (ghost_next g r) = g_conf g2) by (rewrite Hgn; destruct st; reflexivity).
  unfold step_ok. rewrite Hconf. unfold r. cbn [sr_pre sr_ev sr_acts sr_post sr_status]. split_all.
  - intros ta cc ok Hin. apply in_app_or in Hin as [Hin|Hin]; [eauto|]. apply Hx in Hin. contradiction.
  - exact C2.
  - exact C3.
  - destruct (g_pending g); auto. destruct C4 as [Hp Ht]. split; [exact Hp|]. intros pre Hst He. rewrite (Hnow Hst). eauto.
  - intros Hp. destruct (C5 Hp) as [Ha Hc]. rewrite Ha. split; [reflexivity|exact Hc].
  - intros dt Hp He. destruct (C6 dt Hp He) as [Hin Hc]. split; [apply in_or_app; left; exact Hin|exact Hc].
  - exact C7.
  - intros ta k Hin. apply in_app_or in Hin as [Hin|Hin]; [eauto|]. apply Hx in Hin. contradiction.
  - intros Hst l Hl. specialize (C9 l Hl). destruct (g_deadlines g l) as [[T1 T2] TX]. destruct C9 as (D1 & D2 & D3).
    rewrite Hph, (Hnow Hst). split_all; auto.
    intros Hp pre He. destruct (D3 Hp pre He) as (Dn & Dp & Dh). split; [exact Dn|].
    fold r. rewrite Hgn. destruct st; cbn [gn_run gn_ret g_pending]; rewrite ?Dp, ?Dh; discriminate.
Qed.

Theorem step_preserves croute s g e c : GInv croute s g ->
  let '(s', acts, st) := run_iter croute s e c in
  let r := {| sr_pre := s; sr_ev := e; sr_cancel := c; sr_acts := acts; sr_post := s'; sr_status := st |} in
  step_ok croute g r /\
  match st with Running => GInv croute s' (ghost_next g r) | Returned => GInv croute (resume s') (ghost_next g r) | Crashed => True end.
Proof.
  intros HG. pose proof (phase_step_core croute s g e HG) as HC. unfold run_iter.
  destruct (phase_step croute s e) as [s1 acts1].
  pose proof HC as (_ & _ & _ & _ & _ & _ & _ & _ & _ & G1 & G2).
  destruct (refill (c_tokens s) (c_now s1 - c_now s) <? ns_s); destruct c.
  all: match goal with |- step_ok _ _ {| sr_cancel := ?cc; sr_acts := ?acts; sr_post := ?s2; sr_status := ?st |} /\ _ =>
         match acts with
         | _ ++ ?extra => destruct (lift croute g s e cc s1 acts1 s2 extra st acts HC) as [Hok Hgn]
         | _ => destruct (lift croute g s e cc s1 acts1 s2 [] st acts HC) as [Hok Hgn]
         end
       end.
  all: try (intros a [<-|[]]; exact I).
  all: try (intros a []).
  all: try reflexivity.
  all: try (symmetry; apply app_nil_r).
  all: try (intros H; contradiction).
  all: split; [exact Hok| try exact I].
  - rewrite Hgn. cbn [c_now]. eapply GInv_view; [|exact G2]. apply resume_view. repeat split; reflexivity.
  - rewrite Hgn. cbn [c_now]. eapply GInv_view; [|exact G2]. apply resume_view. repeat split; reflexivity.
  - rewrite Hgn. eapply GInv_view; [|exact G1]. repeat split; reflexivity.
Qed.

(* ---------- every iteration of every run ---------- *)
Lemma history_from croute script : forall s g, GInv croute s g -> hist_ok croute g (run_steps croute s script).
Proof.
  induction script as [|[e c] rest IH]; intros s g HG; cbn [run_steps]; [exact I|].
  pose proof (step_preserves croute s g e c HG) as H.
  destruct (run_iter croute s e c) as [[s' acts] st]. destruct H as [Hok Hnext].
  destruct st; cbn [hist_ok]; (split; [exact Hok|]); [apply IH; exact Hnext|apply IH; exact Hnext|exact I].
Qed.

Theorem client_history croute script : hist_ok croute ghost0 (run_steps croute initial_client script).
Proof. apply history_from. apply ginv_initial. Qed.

Theorem hist_ok_nth croute steps : forall g i r, hist_ok croute g steps -> nth_error steps i = Some r ->
  step_ok croute (summary g (firstn i steps)) r.
Proof.
  induction steps as [|r0 rest IH]; intros g i r H Hn; [destruct i; discriminate|].
  destruct H as [H0 Hrest]. destruct i as [|i]; cbn in Hn.
  - injection Hn as <-. exact H0.
  - cbn [firstn summary]. apply IH; assumption.
Qed.
