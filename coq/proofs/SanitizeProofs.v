(* C17: envEntry / dumpScriptConf emit only letters, digits, comma, dot, hyphen, underscore — for all byte strings. *)
From PSA Require Import gen.GoFacts model.Bytes model.Sanitize spec.SpecResolv.
From Coq Require Import ZifyN ZifyNat ZifyBool.
Ltac Zify.zify_post_hook ::= Z.div_mod_to_equations.
Open Scope N_scope.

(* ---------- facts about the literals found in the source (closed computations) ---------- *)
Lemma bad_negated : gf_re_bad_chars_negated = true.
Proof. reflexivity. Qed.
Lemma bad_class_safe : forallb env_safe gf_re_bad_chars_class = true.
Proof. vm_compute. reflexivity. Qed.
Lemma bad_class_ascii : forallb (fun c => c <? 128) gf_re_bad_chars_class = true.
Proof. vm_compute. reflexivity. Qed.
Lemma replacement_safe : forallb env_safe gf_env_replacement = true.
Proof. vm_compute. reflexivity. Qed.
Lemma env_prefix_is : gf_env_prefix = s_psa.
Proof. reflexivity. Qed.
Lemma env_sep_is : gf_env_sep = [61].
Proof. reflexivity. Qed.
Lemma env_keys_are : gf_env_keys = s_keys.
Proof. reflexivity. Qed.

Lemma mem_n_in x l : mem_n x l = true <-> In x l.
Proof.
  unfold mem_n. rewrite existsb_exists. split.
  - intros (y & Hy & E). apply N.eqb_eq in E. subst. exact Hy.
  - intros H. exists x. split; [exact H | apply N.eqb_refl].
Qed.

Lemma bad_other_true : bad_other = true.
Proof. reflexivity. Qed.

(* a character the expression does not match is a character of the class, hence safe *)
Lemma kept_ascii_safe c : bad_ascii c = false -> env_safe c = true.
Proof.
  unfold bad_ascii, class_matches_ascii. rewrite bad_negated. intros H.
  destruct (mem_n c gf_re_bad_chars_class) eqn:E; [|discriminate].
  apply mem_n_in in E. pose proof bad_class_safe as S. rewrite forallb_forall in S. apply S, E.
Qed.

Definition safe_bytes (s : bytes) : Prop := Forall (fun c => env_safe c = true) s.

Lemma safe_bytes_app a b : safe_bytes a -> safe_bytes b -> safe_bytes (a ++ b).
Proof. unfold safe_bytes. intros. apply Forall_app. split; assumption. Qed.

Lemma replacement_safe_bytes : safe_bytes gf_env_replacement.
Proof. unfold safe_bytes. apply Forall_forall. pose proof replacement_safe as S. rewrite forallb_forall in S. exact S. Qed.

(* ---------- the replacement leaves only safe bytes, whatever the input and the decoder state ---------- *)
Lemma replace_bad_safe : forall b skip, safe_bytes (replace_bad skip b).
Proof.
  induction b as [|c r IH]; intros skip; cbn [replace_bad].
  - constructor.
  - destruct skip as [|k].
    + destruct (c <? 128).
      * apply safe_bytes_app; [|apply IH].
        destruct (bad_ascii c) eqn:E; [apply replacement_safe_bytes|].
        constructor; [apply kept_ascii_safe, E | constructor].
      * rewrite bad_other_true. apply safe_bytes_app; [apply replacement_safe_bytes | apply IH].
    + rewrite bad_other_true. cbn [app]. apply IH.
Qed.

Lemma sanitize_safe v : safe_bytes (sanitize v).
Proof. apply replace_bad_safe. Qed.

(* strings that are already harmless pass unchanged (the replacement is not the constant function) *)
Lemma sanitize_id : forall v, forallb (fun c => mem_n c gf_re_bad_chars_class) v = true -> sanitize v = v.
Proof.
  unfold sanitize. induction v as [|c r IH]; intros H; [reflexivity|].
  cbn [forallb] in H. apply andb_true_iff in H as [Hc Hr]. cbn [replace_bad].
  assert (L : c <? 128 = true).
  { apply mem_n_in in Hc. pose proof bad_class_ascii as A. rewrite forallb_forall in A. apply A, Hc. }
  rewrite L. unfold bad_ascii, class_matches_ascii. rewrite Hc, bad_negated. cbn. rewrite IH by exact Hr. reflexivity.
Qed.

(* the output is never longer than the input (one replacement byte per rune) *)
Lemma replace_bad_length : forall b skip, (length (replace_bad skip b) <= length b)%nat.
Proof.
  induction b as [|c r IH]; intros skip; cbn [replace_bad]; [apply le_n|].
  destruct skip as [|k].
  - destruct (c <? 128).
    + destruct (bad_ascii c); rewrite app_length; cbn [length gf_env_replacement]; specialize (IH 0%nat); lia.
    + rewrite bad_other_true, app_length. cbn [length gf_env_replacement]. specialize (IH (rune_width c r - 1)%nat). lia.
  - rewrite bad_other_true. cbn [app length]. specialize (IH k). lia.
Qed.

(* on ASCII input the replacement is byte-wise: class characters stay, every other byte becomes one underscore *)
Lemma sanitize_ascii : forall v, forallb (fun c => c <? 128) v = true ->
  sanitize v = map (fun c => if mem_n c gf_re_bad_chars_class then c else 95) v.
Proof.
  unfold sanitize. induction v as [|c r IH]; intros H; [reflexivity|].
  cbn [forallb] in H. apply andb_true_iff in H as [Hc Hr]. cbn [replace_bad map]. rewrite Hc, (IH Hr).
  unfold bad_ascii, class_matches_ascii. rewrite bad_negated. destruct (mem_n c gf_re_bad_chars_class); reflexivity.
Qed.

(* ---------- envEntry ---------- *)
Lemma strip_prefix_app : forall p s, strip_prefix p (p ++ s) = Some s.
Proof. induction p as [|x p IH]; intros s; cbn; [reflexivity|]. rewrite N.eqb_refl. apply IH. Qed.

Lemma strip_prefix_spec : forall p b r, strip_prefix p b = Some r <-> b = p ++ r.
Proof.
  induction p as [|x p IH]; intros b r; cbn.
  - split; [intros [= ->]; reflexivity | intros ->; reflexivity].
  - destruct b as [|y b]; [split; discriminate|].
    destruct (x =? y) eqn:E.
    + apply N.eqb_eq in E. subst y. rewrite IH. split; [intros ->; reflexivity | intros [= ->]; reflexivity].
    + split; [discriminate|]. intros [= -> _]. rewrite N.eqb_refl in E. discriminate.
Qed.

Lemma env_entry_shape k v : env_entry k v = s_psa ++ k ++ [61] ++ sanitize v.
Proof. unfold env_entry. rewrite env_prefix_is, env_sep_is. reflexivity. Qed.

Theorem env_entry_safe : forall k v,
  exists s, env_entry k v = s_psa ++ k ++ [61] ++ s /\ Forall (fun c => env_safe c = true) s /\ (length s <= length v)%nat.
Proof.
  intros k v. exists (sanitize v). split; [apply env_entry_shape|]. split; [apply sanitize_safe | apply replace_bad_length].
Qed.

Theorem env_entry_ok : forall k v, env_var_ok k (env_entry k v) = true.
Proof.
  intros k v. unfold env_var_ok. rewrite env_entry_shape.
  replace (s_psa ++ k ++ [61] ++ sanitize v) with ((s_psa ++ k ++ [61]) ++ sanitize v) by (rewrite <- !app_assoc; reflexivity).
  rewrite strip_prefix_app. apply forallb_forall. apply Forall_forall. apply sanitize_safe.
Qed.

(* what the boolean character-set test means *)
Theorem env_safe_meaning : forall c,
  env_safe c = true <-> (65 <= c <= 90 \/ 97 <= c <= 122 \/ 48 <= c <= 57 \/ c = 44 \/ c = 46 \/ c = 45 \/ c = 95).
Proof. intros c. unfold env_safe, is_alpha, is_digit. lia. Qed.

Theorem env_var_ok_meaning : forall k e,
  env_var_ok k e = true <-> exists s, e = s_psa ++ k ++ [61] ++ s /\ Forall (fun c => env_safe c = true) s.
Proof.
  intros k e. unfold env_var_ok. split.
  - destruct (strip_prefix (s_psa ++ k ++ [61]) e) as [s|] eqn:E; [|discriminate]. intros H.
    apply strip_prefix_spec in E. exists s. split.
    + rewrite E, <- !app_assoc. reflexivity.
    + apply Forall_forall. rewrite forallb_forall in H. exact H.
  - intros (s & -> & H).
    replace (s_psa ++ k ++ [61] ++ s) with ((s_psa ++ k ++ [61]) ++ s) by (rewrite <- !app_assoc; reflexivity).
    rewrite strip_prefix_app. apply forallb_forall. apply Forall_forall. exact H.
Qed.

(* ---------- dumpScriptConf: exactly the seven variables, each with a safe value, for every configuration ---------- *)
Theorem dump_script_conf_ok : forall c, script_env_ok (dump_script_conf c) = true.
Proof.
  intros c. unfold script_env_ok, dump_script_conf, ifconf_values. rewrite env_keys_are. unfold s_keys.
  cbn [zip_entries forallb2]. rewrite !env_entry_ok. reflexivity.
Qed.

Lemma forallb2_In {A B} (f : A -> B -> bool) : forall l m, forallb2 f l m = true -> forall e, In e m -> exists k, In k l /\ f k e = true.
Proof.
  induction l as [|a l IH]; intros [|b m] H e He; cbn in *; try discriminate; try contradiction.
  apply andb_true_iff in H as [H1 H2]. destruct He as [<- | He].
  - exists a. auto.
  - destruct (IH m H2 e He) as (k & Hk & Hf). exists k. auto.
Qed.

(* every variable of the hook environment built from a configuration is PSA_DHCPC_<one of the keys>=<safe> *)
Theorem dump_script_conf_entries : forall c e, In e (dump_script_conf c) ->
  exists k s, In k s_keys /\ e = s_psa ++ k ++ [61] ++ s /\ Forall (fun x => env_safe x = true) s.
Proof.
  intros c e He. destruct (forallb2_In _ _ _ (dump_script_conf_ok c) e He) as (k & Hk & Hf).
  apply env_var_ok_meaning in Hf as (s & E & S). exists k, s. auto.
Qed.
