(* From acceptance to the wire-level statements: every history of sequential rounds that the acceptor of
   model/Server.v accepts satisfies the monitors of spec/Monitors.v, i.e. the properties read off the frames.
   The acceptor is what the implementation is compared with on every run (tag 101); these theorems say that
   whatever it lets through has the property, for every configuration, packet, ARP situation and history. *)
From PSA Require Import gen.GoFacts model.Bytes model.Checksum model.Layer model.Dhcp model.Clients model.Ipdb model.IpdbCheck
  spec.SpecCodec spec.SpecTable spec.SpecIpdb model.Server spec.Monitors
  proofs.ChecksumProofs proofs.LayerProofs proofs.DhcpProofs proofs.ClientsProofs proofs.TableProofs proofs.LeaseProofs proofs.ServerProofs.
From Coq Require Import ZifyN ZifyNat ZifyBool.
Open Scope N_scope.

(* ---------- what is assumed of a configuration: the option lists it sends fit an option area, do not carry the two
   options the reply constructors add themselves, and the server's address is an IPv4 address ---------- *)
Definition no_reply_codes (o : dhcp_opt) : bool := negb (fst o =? 53) && negb (fst o =? 54).
Definition opts_ok (os : list dhcp_opt) : bool :=
  forallb wf_opt os && forallb wf_opt_bytes os && forallb no_reply_codes os && (len (flat_map enc_opt os) <=? 60000).
Definition cfg_wire_ok (c : scfg) : Prop :=
  c_self_ip c < 4294967296 /\ net_to (c_db c) < 4294967296 /\
  opts_ok (c_default_opts c) = true /\ Forall (fun p => opts_ok (snd p) = true) (c_opts c).

Lemma assoc_in {A} k (l : list (bytes * A)) v : assoc k l = Some v -> exists k', In (k', v) l.
Proof.
  induction l as [|[k' v'] l IH]; cbn; [discriminate|]. destruct (bytes_eqb k k').
  - intros H. injection H as <-. exists k'. left. reflexivity.
  - intros H. destruct (IH H) as [k2 Hk]. exists k2. right. exact Hk.
Qed.

Lemma opts_for_ok c mac : cfg_wire_ok c -> opts_ok (opts_for c mac) = true.
Proof.
  intros (_ & _ & Hd & Ha). unfold opts_for. destruct (assoc mac (c_opts c)) as [o|] eqn:E; [|exact Hd].
  destruct (assoc_in _ _ _ E) as [k Hk]. rewrite Forall_forall in Ha. exact (Ha _ Hk).
Qed.

(* ---------- bytes in, bytes through the decoders ---------- *)
Lemma wf_bytes_skipn n b : wf_bytes b = true -> wf_bytes (skipn n b) = true.
Proof.
  unfold wf_bytes. revert n. induction b as [|x b IH]; intros [|n] H; cbn in *; auto.
  apply andb_true_iff in H as [_ H2]. apply IH. exact H2.
Qed.

Lemma wf_bytes_nth b i : wf_bytes b = true -> nth i b 0 < 256.
Proof.
  unfold wf_bytes. revert i. induction b as [|x b IH]; intros [|i] H; cbn in *; try lia.
  - apply andb_true_iff in H as [H1 _]. unfold wf_byte in H1. lia.
  - apply andb_true_iff in H as [_ H2]. apply IH. exact H2.
Qed.

Lemma w32_bound b off : wf_bytes b = true -> w32 b off < 4294967296.
Proof.
  intros H. unfold w32, be32, nth0.
  pose proof (wf_bytes_nth b off H). pose proof (wf_bytes_nth b (off + 1) H).
  pose proof (wf_bytes_nth b (off + 2) H). pose proof (wf_bytes_nth b (off + 3) H). lia.
Qed.

Lemma w16_bound b off : wf_bytes b = true -> w16 b off < 65536.
Proof.
  intros H. unfold w16, be16, nth0. pose proof (wf_bytes_nth b off H). pose proof (wf_bytes_nth b (off + 1) H). lia.
Qed.

(* what the receive filter hands to the handlers, in terms of the packet *)
Lemma decode_chain_fields pkt src dst m : wf_bytes pkt = true -> decode_chain pkt = Some (src, dst, m) ->
  d_xid m < 4294967296 /\ d_flags m < 65536 /\ len (d_chaddr m) <= 16 /\ wf_bytes (d_chaddr m) = true.
Proof.
  intros Hw. unfold decode_chain.
  destruct (decode_ipv4 pkt) as [v4| |] eqn:E4; try discriminate.
  destruct (negb (ip_proto v4 =? gf_layer_ProtoUDP)); [discriminate|].
  destruct (decode_udp (ip_data v4)) as [u| |] eqn:Eu; try discriminate.
  destruct (dhcp_decode (udp_data u)) as [m'| |] eqn:Ed; try discriminate.
  destruct (d_op m' =? gf_dhcpmsg_OpRequest); [|discriminate]. intros H. injection H as _ _ <-.
  destruct (decode_ipv4_strict _ _ E4) as (_ & _ & _ & Hd4).
  destruct (decode_udp_strict _ _ Eu) as (_ & _ & Hdu & _).
  assert (Hwu : wf_bytes (udp_data u) = true).
  { rewrite Hdu, Hd4. apply wf_bytes_skipn. apply wf_bytes_skipn. exact Hw. }
  apply dhcp_decode_spec in Ed. destruct Ed as (_ & Hd).
  destruct Hd as (_ & _ & _ & Hx & _ & Hf & _ & _ & _ & _ & _ & _ & _ & Hh & Hc & _).
  cbn [bootp_fixed_of f_xid f_flags f_hlen f_chaddr16] in Hx, Hf, Hh, Hc.
  split; [rewrite Hx; apply w32_bound; exact Hwu|]. split; [rewrite Hf; apply w16_bound; exact Hwu|].
  split.
  - rewrite Hc. unfold len. rewrite firstn_length. lia.
  - rewrite Hc. apply wf_bytes_firstn. unfold sub. apply wf_bytes_firstn. apply wf_bytes_skipn. exact Hwu.
Qed.

Lemma beqb_refl a : bytes_eqb a a = true.
Proof. apply bytes_eqb_eq. reflexivity. Qed.

Lemma frame_eqb_eq f eth p : frame_eqb f (Ok (eth, p)) = true -> of_eth f = eth /\ of_pkt f = p.
Proof.
  unfold frame_eqb. intros H. apply andb_true_iff in H as [H1 H2]. split; apply bytes_eqb_eq; assumption.
Qed.

Lemma frame_eqb_not_ok f (e : res (bytes * bytes)) : frame_eqb f e = true -> exists eth p, e = Ok (eth, p).
Proof. unfold frame_eqb. destruct e as [[eth p]| |]; try discriminate. intros _. eauto. Qed.

(* ---------- the reply frames, parsed back ---------- *)
Lemma to_uip_bound x n m : to_uip x (Some n) = Some m -> m = n /\ net_from x <= n <= net_to x.
Proof. unfold to_uip. destruct ((n <? net_from x) || (net_to x <? n)) eqn:E; [discriminate|]. intros H. injection H as <-. lia. Qed.

Lemma last_opt_skip k c x os : (c =? k) = false -> last_opt k ((c, x) :: os) = last_opt k os.
Proof. intros H. cbn [last_opt]. rewrite H. destruct (last_opt k os); reflexivity. Qed.

Lemma last_opt_absent k os : forallb (fun o => negb (fst o =? k)) os = true -> last_opt k os = None.
Proof.
  induction os as [|[c x] os IH]; [reflexivity|]. cbn [forallb fst]. intros H. apply andb_true_iff in H as [H1 H2].
  cbn [last_opt]. rewrite (IH H2). apply negb_true_iff in H1. rewrite H1. reflexivity.
Qed.

Lemma to_v4_put32 v : v < 4294967296 -> to_v4 (put32 v) = Some v.
Proof.
  intros H. unfold put32, to_v4, to_v4a. cbn [v4s]. f_equal. apply put32_be32. exact H.
Qed.

Record parsed_reply (c : scfg) (f : out_frame) (p : pout) (eth : bytes) (dst : N) (msg : dhcp_msg) : Prop := {
  pr_t : po_t p = of_t f; pr_eth : po_eth p = eth; pr_feth : of_eth f = eth;
  pr_src : po_ipsrc p = c_self_ip c; pr_dst : po_ipdst p = dst; pr_proto : po_proto p = 17;
  pr_sport : po_sport p = 67; pr_dport : po_dport p = 68; pr_msg : po_msg p = msg;
  pr_opt : po_opt p = decode_options (d_options msg);
  pr_hdr : ipv4_hdr_ok (of_pkt f) = true; pr_udp : udp_ok (c_self_ip c) dst (skipn 20 (of_pkt f)) = true }.

Lemma parse_out_of f q u m : decode_ipv4 (of_pkt f) = Ok q -> decode_udp (ip_data q) = Ok u -> dhcp_decode (udp_data u) = Ok m ->
  parse_out f = Some {| po_t := of_t f; po_eth := of_eth f; po_ipsrc := ip_src q; po_ipdst := ip_dst q; po_proto := ip_proto q;
                        po_sport := udp_sport u; po_dport := udp_dport u; po_msg := m; po_opt := decode_options (d_options m) |}.
Proof. intros H1 H2 H3. unfold parse_out. rewrite H1, H2, H3. reflexivity. Qed.

Lemma lease_frame_parsed c typ m yi f :
  cfg_wire_ok c -> d_xid m < 4294967296 -> d_flags m < 65536 -> len (d_chaddr m) <= 16 -> wf_bytes (d_chaddr m) = true ->
  yi < 4294967296 -> typ < 256 ->
  frame_eqb f (reply_lease c typ m yi) = true ->
  exists p, parse_out f = Some p /\
    parsed_reply c f p (if bflag (d_flags m) then bcast_mac else d_chaddr m) (reply_ip_dst (d_flags m) yi)
                 (reply_msg c typ (d_xid m) (d_flags m) yi (d_chaddr m) (opts_for c (d_chaddr m))).
Proof.
  intros Hc Hx Hf Hl Hw Hy Ht Hfr.
  pose proof (opts_for_ok c (d_chaddr m) Hc) as Ho. unfold opts_ok in Ho. rewrite !andb_true_iff in Ho.
  destruct Ho as (((Ho1 & Ho2) & Ho3) & Ho4). destruct Hc as (Hs & _).
  assert (Hwf : wf_reply_inputs c m yi (opts_for c (d_chaddr m)) typ (d_flags m) = true).
  { unfold wf_reply_inputs. rewrite Ho1, Ho2, Hw. rewrite !andb_true_iff, !N.ltb_lt, N.leb_le. repeat split; auto. }
  assert (Hlen : len (dhcp_assemble (reply_msg c typ (d_xid m) (d_flags m) yi (d_chaddr m) (opts_for c (d_chaddr m)))) <= 65507).
  { rewrite len_dhcp_assemble. unfold reply_msg. cbn [d_options flat_map]. rewrite len_app. unfold enc_opt at 1. cbn [fst snd].
    rewrite len_app. unfold enc_opt at 1. cbn [fst snd]. unfold put32. apply N.leb_le in Ho4.
    set (L := len (flat_map enc_opt (opts_for c (d_chaddr m)))) in *. unfold len. cbn [length]. lia. }
  destruct (lease_reply_envelope c typ m yi Hwf Hlen) as (p & q & Ha & Hq & A & B & C & D & E & F & G).
  rewrite Ha in Hfr. apply frame_eqb_eq in Hfr as [He Hp].
  rewrite <- Hp in Hq. eexists. split.
  - exact (parse_out_of f q _ _ Hq F G).
  - constructor; cbn; auto; rewrite ?Hp; auto.
Qed.

Lemma nak_frame_parsed c m f :
  cfg_wire_ok c -> d_xid m < 4294967296 -> len (d_chaddr m) <= 16 -> wf_bytes (d_chaddr m) = true ->
  frame_eqb f (reply_nak c m) = true ->
  exists p, parse_out f = Some p /\
    parsed_reply c f p (d_chaddr m) bcast_ip (reply_msg c gf_dhcpmsg_MsgTypeNack (d_xid m) 0 0 (d_chaddr m) []).
Proof.
  intros (Hs & _) Hx Hl Hw Hfr.
  assert (Hwf : wf_reply_inputs c m 0 [] gf_dhcpmsg_MsgTypeNack 0 = true).
  { unfold wf_reply_inputs. rewrite Hw. cbn [forallb]. rewrite !andb_true_iff, !N.ltb_lt, N.leb_le.
    unfold gf_dhcpmsg_MsgTypeNack. repeat split; auto; lia. }
  destruct (nak_envelope c m Hwf) as (p & q & Ha & Hq & A & B & C & D & E & F & G).
  rewrite Ha in Hfr. apply frame_eqb_eq in Hfr as [He Hp].
  rewrite <- Hp in Hq. eexists. split.
  - exact (parse_out_of f q _ _ Hq F G).
  - constructor; cbn; auto; rewrite ?Hp; auto.
Qed.

(* ---------- what an accepted round is: the case analysis every wire-level statement starts from ---------- *)
Section RoundCases.
Variables (c : scfg) (t : table) (r : round).

Definition rc_duid (m : dhcp_msg) : bytes := get_duid c (d_chaddr m) (o_cid (decode_options (d_options m))).

Inductive round_case (t' : table) : Prop :=
| RC_undecodable : decode_chain (r_pkt r) = None -> r_outs r = [] -> t' = t -> round_case t'
| RC_ignored src dst m : decode_chain (r_pkt r) = Some (src, dst, m) ->
    msg_kind c m (decode_options (d_options m)) = KIgnored -> r_outs r = [] -> t' = t -> round_case t'
| RC_discover_dropped src dst m : decode_chain (r_pkt r) = Some (src, dst, m) ->
    msg_kind c m (decode_options (d_options m)) = KDiscover ->
    (dst =? bcast_ip) = false \/ o_sid (decode_options (d_options m)) <> None -> r_outs r = [] -> t' = t -> round_case t'
| RC_discover_nothing src dst m ts : decode_chain (r_pkt r) = Some (src, dst, m) ->
    let o := decode_options (d_options m) in
    msg_kind c m o = KDiscover -> dst = bcast_ip -> o_sid o = None ->
    (ts = r_t r \/ ts = (r_t r + 50000000)%Z) ->
    offer_valid (c_db c) t ts (o_reqip o) (rc_duid m) (probe_free (r_arp r) (d_chaddr m)) None = true ->
    r_outs r = [] -> t' = t -> round_case t'
| RC_offer src dst m ts y f : decode_chain (r_pkt r) = Some (src, dst, m) ->
    let o := decode_options (d_options m) in
    let tl := match bound_ip (r_t r) (rc_duid m) t with Some _ => of_t f | None => (of_t f - probe_cost (r_arp r) (d_chaddr m) y)%Z end in
    msg_kind c m o = KDiscover -> dst = bcast_ip -> o_sid o = None ->
    r_outs r = [f] -> observed_yiaddr f = Some y -> frame_eqb f (reply_lease c gf_dhcpmsg_MsgTypeOffer m y) = true ->
    (r_t r <= of_t f)%Z -> (of_t f <= reply_deadline c r)%Z -> (ts = r_t r \/ ts = (r_t r + 50000000)%Z) -> (ts <= of_t f)%Z ->
    offer_valid (c_db c) t ts (o_reqip o) (rc_duid m) (probe_free (r_arp r) (d_chaddr m)) (Some (y, tl)) = true ->
    t_hold_client (c_db c) (of_t f) (Some y) (rc_duid m) hold_ns t = (true, t') -> round_case t'
| RC_request_silent src dst m : decode_chain (r_pkt r) = Some (src, dst, m) ->
    let o := decode_options (d_options m) in
    msg_kind c m o = KRequest ->
    (classify_request c dst src o = None \/
     exists desired, classify_request c dst src o = Some desired /\ in_managed_range (c_db c) (Some desired) = false) ->
    r_outs r = [] -> t' = t -> round_case t'
| RC_nak src dst m desired f : decode_chain (r_pkt r) = Some (src, dst, m) ->
    let o := decode_options (d_options m) in
    msg_kind c m o = KRequest -> classify_request c dst src o = Some desired -> in_managed_range (c_db c) (Some desired) = true ->
    bound_ip (r_t r) (rc_duid m) t <> Some desired ->
    r_outs r = [f] -> frame_eqb f (reply_nak c m) = true -> (r_t r <= of_t f)%Z -> (of_t f <= reply_deadline c r)%Z -> t' = t -> round_case t'
| RC_nak_conflict src dst m desired f : decode_chain (r_pkt r) = Some (src, dst, m) ->
    let o := decode_options (d_options m) in
    msg_kind c m o = KRequest -> classify_request c dst src o = Some desired -> in_managed_range (c_db c) (Some desired) = true ->
    bound_ip (r_t r) (rc_duid m) t = Some desired ->
    t_hold_client (c_db c) (r_t r) (Some desired) (rc_duid m) req_hold_ns t = (true, t') ->
    probe_free (r_arp r) (d_chaddr m) desired = false ->
    r_outs r = [f] -> frame_eqb f (reply_nak c m) = true -> (r_t r <= of_t f)%Z -> (of_t f <= reply_deadline c r)%Z -> round_case t'
| RC_ack src dst m desired f t1 : decode_chain (r_pkt r) = Some (src, dst, m) ->
    let o := decode_options (d_options m) in
    msg_kind c m o = KRequest -> classify_request c dst src o = Some desired -> in_managed_range (c_db c) (Some desired) = true ->
    bound_ip (r_t r) (rc_duid m) t = Some desired ->
    t_hold_client (c_db c) (r_t r) (Some desired) (rc_duid m) req_hold_ns t = (true, t1) ->
    probe_free (r_arp r) (d_chaddr m) desired = true ->
    r_outs r = [f] -> frame_eqb f (reply_lease c gf_dhcpmsg_MsgTypeAck m desired) = true -> (r_t r <= of_t f)%Z -> (of_t f <= reply_deadline c r)%Z ->
    t_update_client (c_db c) (of_t f) (Some desired) (rc_duid m) (c_lease c) t1 = (true, t') -> round_case t'.

Lemma accepted_round_cases t' : accept_round c t r = RAcc t' ->
  round_case t' /\ (r_has_snap r = true -> snap_match (r_snap r) (snap_of (r_tq r) t') = true).
Proof.
  unfold accept_round.
  match goal with |- match ?X with _ => _ end = _ -> _ => destruct X as [t0|code] eqn:Eres end; [|discriminate].
  intros Hs.
  assert (Ht : t0 = t' /\ (r_has_snap r = true -> snap_match (r_snap r) (snap_of (r_tq r) t') = true)).
  { destruct (r_has_snap r).
    - destruct (snap_match (r_snap r) (snap_of (r_tq r) t0)) eqn:Em; [|discriminate]. injection Hs as <-. split; [reflexivity|intros _; exact Em].
    - injection Hs as <-. split; [reflexivity|discriminate]. }
  destruct Ht as [<- Hsnap]. split; [|exact Hsnap]. clear Hs Hsnap.
  destruct (decode_chain (r_pkt r)) as [[[src dst] m]|] eqn:Edc.
  2:{ destruct (r_outs r) eqn:Eo; [|discriminate]. injection Eres as <-. apply RC_undecodable; auto. }
  set (o := decode_options (d_options m)) in *.
  destruct (msg_kind c m o) eqn:Ek.
  - (* DISCOVER *)
    unfold accept_discover in Eres. fold o in Eres. change (get_duid c (d_chaddr m) (o_cid o)) with (rc_duid m) in Eres.
    destruct (negb (dst =? bcast_ip) || negb (is_none (o_sid o))) eqn:Edrop.
    + destruct (r_outs r) eqn:Eo; [|discriminate]. injection Eres as <-.
      eapply RC_discover_dropped; eauto. fold o. apply orb_true_iff in Edrop as [H|H].
      * left. apply negb_true_iff in H. exact H.
      * right. apply negb_true_iff in H. destruct (o_sid o); [discriminate|discriminate H].
    + apply orb_false_iff in Edrop as [Hd Hsid]. apply negb_false_iff in Hd. apply N.eqb_eq in Hd.
      apply negb_false_iff in Hsid. assert (Hsid' : o_sid o = None) by (destruct (o_sid o); [discriminate Hsid|reflexivity]).
      destruct (r_outs r) as [|f [|f2 rest]] eqn:Eo; [| |discriminate].
      * match type of Eres with (if ?A || ?B then _ else _) = _ => destruct A eqn:E1; [|destruct B eqn:E2] end; cbn [orb] in Eres; try discriminate;
          injection Eres as <-.
        -- eapply (RC_discover_nothing _ src dst m (r_t r)); eauto.
        -- eapply (RC_discover_nothing _ src dst m (r_t r + 50000000)%Z); eauto.
      * destruct (observed_yiaddr f) as [y|] eqn:Ey; [|discriminate].
        destruct (frame_eqb f (reply_lease c gf_dhcpmsg_MsgTypeOffer m y)) eqn:Efr; cbn [negb] in Eres; [|discriminate].
        destruct ((of_t f <? r_t r)%Z || (reply_deadline c r <? of_t f)%Z) eqn:Et; [discriminate|]. apply orb_false_iff in Et as [Et Edl].
        match type of Eres with (if ?A || ?B then _ else _) = _ => destruct A eqn:E1; [|destruct B eqn:E2] end; cbn [orb] in Eres; try discriminate.
        -- destruct (t_hold_client (c_db c) (of_t f) (Some y) (rc_duid m) hold_ns t) as [ok th] eqn:Eh. cbv beta iota in Eres. destruct ok; [|discriminate].
           injection Eres as <-. eapply (RC_offer _ src dst m (r_t r) y f); eauto; lia.
        -- apply andb_true_iff in E2 as [E2a E2b].
           destruct (t_hold_client (c_db c) (of_t f) (Some y) (rc_duid m) hold_ns t) as [ok th] eqn:Eh. cbv beta iota in Eres. destruct ok; [|discriminate].
           injection Eres as <-. eapply (RC_offer _ src dst m (r_t r + 50000000)%Z y f); eauto; lia.
  - (* REQUEST *)
    unfold accept_request in Eres. fold o in Eres. change (get_duid c (d_chaddr m) (o_cid o)) with (rc_duid m) in Eres.
    destruct (classify_request c dst src o) as [desired|] eqn:Ecl.
    2:{ destruct (r_outs r) eqn:Eo; [|discriminate]. injection Eres as <-. eapply RC_request_silent; eauto. }
    destruct (in_managed_range (c_db c) (Some desired)) eqn:Emr; cbn [negb] in Eres.
    2:{ destruct (r_outs r) eqn:Eo; [|discriminate]. injection Eres as <-. eapply RC_request_silent; eauto. }
    assert (Hnak : forall tt, match r_outs r with
                              | [f] => if frame_eqb f (reply_nak c m) && (r_t r <=? of_t f)%Z && (of_t f <=? reply_deadline c r)%Z then RAcc tt else RRej 21
                              | _ => RRej 22 end = RAcc t0 ->
                   exists f, r_outs r = [f] /\ frame_eqb f (reply_nak c m) = true /\ (r_t r <= of_t f)%Z /\ (of_t f <= reply_deadline c r)%Z /\ t0 = tt).
    { intros tt H. destruct (r_outs r) as [|f [|? ?]]; try discriminate.
      destruct (frame_eqb f (reply_nak c m) && (r_t r <=? of_t f)%Z && (of_t f <=? reply_deadline c r)%Z) eqn:E; [|discriminate]. injection H as <-.
      apply andb_true_iff in E as [E12 E3]. apply andb_true_iff in E12 as [E1 E2]. exists f. repeat split; auto; lia. }
    destruct (bound_ip (r_t r) (rc_duid m) t) as [lease|] eqn:Eb.
    2:{ destruct (Hnak _ Eres) as (f & Ho & Hf & Ht & Hdl & ->). eapply RC_nak; eauto. fold o. rewrite Eb. discriminate. }
    destruct (lease =? desired) eqn:El; cbn [negb] in Eres.
    2:{ destruct (Hnak _ Eres) as (f & Ho & Hf & Ht & Hdl & ->). eapply RC_nak; eauto. fold o. rewrite Eb. intros H. injection H as ->. rewrite N.eqb_refl in El. discriminate. }
    apply N.eqb_eq in El. subst lease.
    destruct (t_hold_client (c_db c) (r_t r) (Some desired) (rc_duid m) req_hold_ns t) as [okh t1] eqn:Eh. cbv beta iota in Eres.
    destruct okh; cbn [negb] in Eres; [|discriminate].
    destruct (probe_outcome (r_arp r) (d_chaddr m) desired) as [free cost] eqn:Ep. cbv beta iota in Eres.
    assert (Hfree : probe_free (r_arp r) (d_chaddr m) desired = free) by (unfold probe_free; rewrite Ep; reflexivity).
    destruct free; cbn [negb] in Eres.
    + destruct (r_outs r) as [|f [|? ?]] eqn:Eo; try discriminate.
      destruct (frame_eqb f (reply_lease c gf_dhcpmsg_MsgTypeAck m desired)) eqn:Efr; cbn [negb] in Eres; [|discriminate].
      destruct ((of_t f <? r_t r)%Z || (reply_deadline c r <? of_t f)%Z) eqn:Et; [discriminate|]. apply orb_false_iff in Et as [Et Edl].
      destruct (t_update_client (c_db c) (of_t f) (Some desired) (rc_duid m) (c_lease c) t1) as [ok t2] eqn:Eu. cbv beta iota in Eres.
      destruct ok; [|discriminate]. injection Eres as <-. eapply RC_ack; eauto; lia.
    + destruct (r_outs r) as [|f [|? ?]] eqn:Eo; try discriminate.
      destruct (frame_eqb f (reply_nak c m) && (r_t r <=? of_t f)%Z && (of_t f <=? reply_deadline c r)%Z) eqn:E; [|discriminate]. injection Eres as <-.
      apply andb_true_iff in E as [E12 E3]. apply andb_true_iff in E12 as [E1 E2]. eapply RC_nak_conflict; eauto; lia.
  - (* ignored *)
    destruct (r_outs r) eqn:Eo; [|discriminate]. injection Eres as <-. eapply RC_ignored; eauto.
Qed.
End RoundCases.

(* ---------- C06 on the wire ---------- *)
Lemma hold_ok_in_range x now ip d ttl t t' : t_hold_client x now ip d ttl t = (true, t') -> exists n, to_uip x ip = Some n.
Proof. unfold t_hold_client. destruct (to_uip x ip) as [n|]; [eauto|discriminate]. Qed.

Lemma no_reply_codes_split os : forallb no_reply_codes os = true ->
  forallb (fun o => negb (fst o =? 53)) os = true /\ forallb (fun o => negb (fst o =? 54)) os = true.
Proof.
  induction os as [|o os IH]; [split; reflexivity|]. cbn [forallb]. intros H. apply andb_true_iff in H as [H1 H2].
  unfold no_reply_codes in H1. apply andb_true_iff in H1 as [A B]. destruct (IH H2) as [C D]. rewrite A, B, C, D. split; reflexivity.
Qed.

Lemma reply_opts_view ty s os : s < 4294967296 -> forallb no_reply_codes os = true ->
  o_msgtype (decode_options ((53, [ty]) :: (54, put32 s) :: os)) = ty /\
  o_sid (decode_options ((53, [ty]) :: (54, put32 s) :: os)) = Some s.
Proof.
  intros Hs Hn. destruct (no_reply_codes_split os Hn) as [H53 H54].
  rewrite decode_options_typed. unfold typed_view. cbn [o_msgtype o_sid].
  split.
  - cbn [last_opt]. rewrite (last_opt_absent 53 os H53). cbn. reflexivity.
  - cbn [last_opt]. rewrite (last_opt_absent 54 os H54). cbn [N.eqb Pos.eqb]. apply to_v4_put32. exact Hs.
Qed.

Lemma opt_eqb_refl a : opt_eqb a a = true.
Proof. destruct a; cbn; [apply N.eqb_refl|reflexivity]. Qed.

Lemma parse_in_of pkt src dst m : decode_chain pkt = Some (src, dst, m) ->
  parse_in pkt = Some {| pi_src := src; pi_dst := dst; pi_msg := m; pi_opt := decode_options (d_options m) |}.
Proof. intros H. unfold parse_in. rewrite H. reflexivity. Qed.

Lemma c06_lease_frame c pkt src dst m f ty yi : cfg_wire_ok c -> wf_bytes pkt = true -> decode_chain pkt = Some (src, dst, m) ->
  yi < 4294967296 -> ty = 2 \/ ty = 5 -> frame_eqb f (reply_lease c ty m yi) = true ->
  forall r, r_pkt r = pkt -> r_outs r = [f] -> c06_round c r = true.
Proof.
  intros Hc Hw Hdc Hy Hty Hfr r Hp Ho.
  destruct (decode_chain_fields _ _ _ _ Hw Hdc) as (Hx & Hf & Hl & Hwc).
  assert (Ht : ty < 256) by (destruct Hty; subst; lia).
  destruct (lease_frame_parsed c ty m yi f Hc Hx Hf Hl Hwc Hy Ht Hfr) as (p & Hpo & P).
  pose proof (opts_for_ok c (d_chaddr m) Hc) as Hok. unfold opts_ok in Hok. rewrite !andb_true_iff in Hok. destruct Hok as (((_ & _) & Hnr) & _).
  destruct Hc as (Hs & _).
  destruct (reply_opts_view ty (c_self_ip c) (opts_for c (d_chaddr m)) Hs Hnr) as [Vt Vs].
  unfold c06_round. rewrite Ho, Hp, (parse_in_of _ _ _ _ Hdc), Hpo. cbn [pi_msg].
  destruct P as [P1 P2 P3 P4 P5 P6 P7 P8 P9 P10 P11 P12].
  rewrite P11, P4, P5, P12, P6, P7, P8. cbn [andb N.eqb Pos.eqb].
  assert (Htyp : typ p = ty) by (unfold typ; rewrite P10; exact Vt).
  unfold is_lease_reply. rewrite Htyp. rewrite P10, P9. unfold reply_msg at 1 2 3 4 5 6. cbn [d_op d_xid d_chaddr d_options d_flags d_yiaddr].
  unfold gf_dhcpmsg_OptMessageType, gf_dhcpmsg_OptServerIdentifier, gf_dhcpmsg_OpReply. rewrite Vs.
  rewrite !N.eqb_refl, beqb_refl, opt_eqb_refl. cbn [andb].
  replace ((ty =? 2) || (ty =? 5)) with true by (destruct Hty; subst; reflexivity).
  rewrite P2. unfold reply_ip_dst. destruct (bflag (d_flags m)); rewrite N.eqb_refl, beqb_refl; reflexivity.
Qed.

Lemma c06_nak_frame c pkt src dst m f : cfg_wire_ok c -> wf_bytes pkt = true -> decode_chain pkt = Some (src, dst, m) ->
  frame_eqb f (reply_nak c m) = true ->
  forall r, r_pkt r = pkt -> r_outs r = [f] -> c06_round c r = true.
Proof.
  intros Hc Hw Hdc Hfr r Hp Ho.
  destruct (decode_chain_fields _ _ _ _ Hw Hdc) as (Hx & Hf & Hl & Hwc).
  destruct (nak_frame_parsed c m f Hc Hx Hl Hwc Hfr) as (p & Hpo & P).
  destruct Hc as (Hs & _).
  destruct (reply_opts_view gf_dhcpmsg_MsgTypeNack (c_self_ip c) [] Hs eq_refl) as [Vt Vs].
  unfold c06_round. rewrite Ho, Hp, (parse_in_of _ _ _ _ Hdc), Hpo. cbn [pi_msg].
  destruct P as [P1 P2 P3 P4 P5 P6 P7 P8 P9 P10 P11 P12].
  rewrite P11, P4, P5, P12, P6, P7, P8. cbn [andb N.eqb Pos.eqb].
  assert (Htyp : typ p = 6) by (unfold typ; rewrite P10; exact Vt).
  unfold is_lease_reply. rewrite Htyp. rewrite P10, P9. unfold reply_msg at 1 2 3 4. cbn [d_op d_xid d_chaddr d_options].
  unfold gf_dhcpmsg_OptMessageType, gf_dhcpmsg_OptServerIdentifier, gf_dhcpmsg_OpReply. rewrite Vs.
  rewrite !N.eqb_refl, beqb_refl, opt_eqb_refl. reflexivity.
Qed.

(* every round the acceptor accepts has the envelope C06 demands: at most one reply; it verifies (header and UDP checksum),
   is a BOOTREPLY from the server's address, port 67 to 68, echoes xid and chaddr, names the server; OFFER/ACK echo the flags
   and go to broadcast / the assigned address at the client's hardware address; a NAK goes to the IP broadcast address *)
Theorem accepted_round_c06 c t r t' : cfg_wire_ok c -> wf_bytes (r_pkt r) = true ->
  accept_round c t r = RAcc t' -> c06_round c r = true.
Proof.
  intros Hc Hw Ha. destruct (accepted_round_cases c t r t' Ha) as [Hcase _].
  assert (Hsilent : r_outs r = [] -> c06_round c r = true) by (intros H; unfold c06_round; rewrite H; reflexivity).
  destruct Hcase as [? Ho ?|? ? ? ? ? Ho ?|? ? ? ? ? ? Ho ?|? ? ? ? ? o ? ? ? ? ? Ho ?|src dst m ts y f Hdc o tl Hk Hd Hs Ho Hy Hfr Ht Hdl Hts Hle Hov Hh
                    |? ? ? ? o ? ? Ho ?|src dst m desired f Hdc o Hk Hcl Hmr Hb Ho Hfr Ht Hdl ?
                    |src dst m desired f Hdc o Hk Hcl Hmr Hb Hh Hp Ho Hfr Ht Hdl|src dst m desired f t1 Hdc o Hk Hcl Hmr Hb Hh Hp Ho Hfr Ht Hdl Hu]; auto.
  - destruct (hold_ok_in_range _ _ _ _ _ _ _ Hh) as [n Hn]. destruct (to_uip_bound _ _ _ Hn) as [_ Hb].
    destruct Hc as (Hc1 & Hc2 & Hc3 & Hc4). eapply (c06_lease_frame c (r_pkt r) src dst m f 2 y); eauto; [repeat split; auto|lia].
  - eapply c06_nak_frame; eauto.
  - eapply c06_nak_frame; eauto.
  - unfold in_managed_range in Hmr. destruct (to_uip (c_db c) (Some desired)) as [n|] eqn:Hn; [|discriminate].
    destruct (to_uip_bound _ _ _ Hn) as [_ Hbd].
    destruct Hc as (Hc1 & Hc2 & Hc3 & Hc4). eapply (c06_lease_frame c (r_pkt r) src dst m f 5 desired); eauto; [repeat split; auto|lia].
Qed.

(* accepted histories: every round accepted (code 0) *)
Definition accepted (c : scfg) (h : list round) : Prop := Forall (fun code => code = 0) (accept_history c (initial_table c) h).

(* a rejection code is never 0, so "all codes 0" means every round was accepted *)
Ltac rej_leaves :=
  repeat (match goal with |- context [match ?x with _ => _ end] => destruct x end);
  intros H; try discriminate H; injection H as <-; discriminate.
Lemma rej_nonzero_discover c t r dst m o code : accept_discover c t r dst m o = RRej code -> code <> 0.
Proof. unfold accept_discover. rej_leaves. Qed.
Lemma rej_nonzero_request c t r src dst m o code : accept_request c t r src dst m o = RRej code -> code <> 0.
Proof. unfold accept_request. rej_leaves. Qed.
Lemma rej_nonzero c t r code : accept_round c t r = RRej code -> code <> 0.
Proof.
  unfold accept_round.
  assert (Hw : forall x : racc, (forall k, x = RRej k -> k <> 0) ->
            match x with
            | RAcc t' => if r_has_snap r then if snap_match (r_snap r) (snap_of (r_tq r) t') then RAcc t' else RRej 3 else RAcc t'
            | RRej _ => x end = RRej code -> code <> 0).
  { intros x Hx. destruct x as [t'|k]; [|intros H; injection H as <-; apply Hx; reflexivity].
    destruct (r_has_snap r); [|discriminate]. destruct (snap_match _ _); [discriminate|]. intros H. injection H as <-. discriminate. }
  apply Hw. intros k.
  destruct (decode_chain (r_pkt r)) as [[[src dst] m]|].
  - destruct (msg_kind c m (decode_options (d_options m))).
    + apply rej_nonzero_discover.
    + apply rej_nonzero_request.
    + destruct (r_outs r); intros H; [discriminate H|injection H as <-; discriminate].
  - destruct (r_outs r); intros H; [discriminate H|injection H as <-; discriminate].
Qed.

(* the tables the acceptor goes through *)
Fixpoint acc_run (c : scfg) (t : table) (h : list round) : Prop :=
  match h with [] => True | r :: rest => exists t', accept_round c t r = RAcc t' /\ acc_run c t' rest end.

Lemma accepted_acc_run c h : forall t, Forall (fun code => code = 0) (accept_history c t h) -> acc_run c t h.
Proof.
  induction h as [|r h IH]; intros t Hz; [exact I|].
  cbn [accept_history] in Hz. cbn [acc_run]. destruct (accept_round c t r) as [t'|code] eqn:Ea.
  - inversion Hz; subst. exists t'. split; [reflexivity|apply IH; assumption].
  - inversion Hz; subst. exfalso. exact (rej_nonzero _ _ _ _ Ea eq_refl).
Qed.

Definition wf_round (r : round) : Prop := wf_bytes (r_pkt r) = true.

(* C06 over histories: whatever sequence of rounds the acceptor accepts from the initial table, mon_C06 holds on it *)
Theorem accepted_history_c06 c h : cfg_wire_ok c -> Forall wf_round h -> accepted c h -> mon_C06 c h = true.
Proof.
  intros Hc Hw Ha. apply accepted_acc_run in Ha. unfold mon_C06. revert Hw Ha. generalize (initial_table c).
  induction h as [|r h IH]; intros t Hw Ha; [reflexivity|].
  cbn [acc_run] in Ha. destruct Ha as (t' & Ha & Hrest). inversion Hw; subst. cbn [forallb].
  rewrite (accepted_round_c06 c t r t' Hc H1 Ha). cbn [andb]. eapply IH; eauto.
Qed.
